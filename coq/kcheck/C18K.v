(* Correspondence checker for C18: the model (model/Forwarder.v, events are integers) is run on the
   event script the harness drove the real forwarder worker through; the model's trace is compared
   with what the scripted server, the recording sink and the storage observed. *)
From LR Require Export lib.Base model.Forwarder model.SyslogSink model.Supervisor.

Definition obs_eqb (a b : obs Z) : bool :=
  match a, b with
  | OReq p, OReq q => Nat.eqb p q
  | OSink s x ok, OSink s' x' ok' => Nat.eqb s s' && list_eqb Z.eqb x x' && Bool.eqb ok ok'
  | OPos p, OPos q => Nat.eqb p q
  | OPersisted p, OPersisted q => Nat.eqb p q
  | ORestart p, ORestart q => Nat.eqb p q
  | OExit, OExit => true
  | OOther p, OOther q => Nat.eqb p q
  | _, _ => false
  end.

(* the real syslog sink on a scripted connection: the first connection takes q0 lines, every reconnect consults dials;
   the batches are handed to OnEvent one after the other; oks = what each call returned (true = nil), conns = the
   event ids each connection received, in the order the connections were made *)
Fixpoint sink_calls (l : lg Z) (batches : list (list Z)) : lg Z * list bool :=
  match batches with
  | [] => (l, [])
  | b :: tl => let '(l1, ok) := on_event code_stops_at_first_error l b true in
               let '(l2, oks) := sink_calls l1 tl in (l2, ok :: oks)
  end.

(* a view: the worker map (name, (state, the worker's descriptor is the forwarder's)) and the descriptors (name, position) *)
Definition sview : Type := (list (nat * (nat * bool)) * list (nat * nat))%type.

Fixpoint lookup_all {A} (eqb : A -> A -> bool) (a b : list (nat * A)) : bool :=
  match a with
  | [] => true
  | (n, v) :: tl => match Supervisor.lookup n b with Some v' => eqb v v' | None => false end && lookup_all eqb tl b
  end.
Definition map_eqb {A} (eqb : A -> A -> bool) (a b : list (nat * A)) : bool :=
  Nat.eqb (length a) (length b) && lookup_all eqb a b && lookup_all eqb b a.
Definition wv_eqb (x y : nat * bool) : bool := Nat.eqb (fst x) (fst y) && Bool.eqb (snd x) (snd y).
Definition view_of (s : sup) : sview := (view_workers s, map (fun '(n, (_, p)) => (n, p)) (view_descs s)).
Definition view_eqb (a b : sview) : bool := map_eqb wv_eqb (fst a) (fst b) && map_eqb Nat.eqb (snd a) (snd b).

Fixpoint sup_check (s : sup) (evs : list sev) (views : list (option sview)) (i : nat) (sv : list (nat * list (nat * nat))) : bool :=
  match evs, views with
  | [], [] => true
  | e :: etl, v :: vtl =>
      let s1 := sstep code_marks_failed_start s e in
      (match v with Some x => view_eqb (view_of s1) x | None => true end) &&
      (match Supervisor.lookup (S i) sv with
       | Some st => map_eqb Nat.eqb (map (fun '(n, (_, p)) => (n, p)) (stored s1)) st
       | None => true
       end) &&
      sup_check s1 etl vtl (S i) sv
  | _, _ => false
  end.

Inductive case :=
| KRun (evs : list (ev Z)) (observed : list (obs Z))
| KSink (q0 : option nat) (dials : list (option (option nat))) (batches : list (list Z)) (oks : list bool) (conns : list (list Z))
(* the real supervisor driven step by step: the configuration at the start, the view after init, the events, after every
   event the view (None = the implementation was already further on when the event was recorded), and the state file
   (name, position) after the i-th event for every persist *)
| KSup (c0 : list (nat * nat)) (nosink0 : list nat) (view0 : sview) (evs : list sev) (views : list (option sview)) (stored_views : list (nat * list (nat * nat))).

Definition check (c : case) : bool :=
  match c with
  | KRun evs observed => list_eqb obs_eqb (trace evs) observed
  | KSink q0 dials batches oks conns =>
      let '(l, oks') := sink_calls (mkLg (Some q0) dials [[]]) batches in
      list_eqb Bool.eqb oks' oks && list_eqb (list_eqb Z.eqb) (rev (l_recv l)) conns
  | KSup c0 ns0 view0 evs views sv =>
      view_eqb (view_of (sup0_f ns0 c0)) view0 && sup_check (sup0_f ns0 c0) evs views 0 sv
  end.

Definition mismatches (l : list case) : list nat := mismatches_of check l.
