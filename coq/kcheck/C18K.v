(* Correspondence checker for C18: the model (model/Forwarder.v, events are integers) is run on the
   event script the harness drove the real forwarder worker through; the model's trace is compared
   with what the scripted server, the recording sink and the storage observed. *)
From LR Require Export lib.Base model.Forwarder.

Definition obs_eqb (a b : obs Z) : bool :=
  match a, b with
  | OReq p, OReq q => Nat.eqb p q
  | OSink s x ok, OSink s' x' ok' => Nat.eqb s s' && list_eqb Z.eqb x x' && Bool.eqb ok ok'
  | OPos p, OPos q => Nat.eqb p q
  | OPersisted p, OPersisted q => Nat.eqb p q
  | ORestart p, ORestart q => Nat.eqb p q
  | OExit, OExit => true
  | OOther p, OOther q => Nat.eqb p q
  | _, _ => false
  end.

Inductive case :=
| KRun (evs : list (ev Z)) (observed : list (obs Z)).

Definition check (c : case) : bool :=
  match c with
  | KRun evs observed => list_eqb obs_eqb (trace evs) observed
  end.

Definition mismatches (l : list case) : list nat := mismatches_of check l.
