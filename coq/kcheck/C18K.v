(* Correspondence checker for C18: the model (model/Forwarder.v, events are integers) is run on the
   event script the harness drove the real forwarder worker through; the model's trace is compared
   with what the scripted server, the recording sink and the storage observed. *)
From LR Require Export lib.Base model.Forwarder model.SyslogSink.

Definition obs_eqb (a b : obs Z) : bool :=
  match a, b with
  | OReq p, OReq q => Nat.eqb p q
  | OSink s x ok, OSink s' x' ok' => Nat.eqb s s' && list_eqb Z.eqb x x' && Bool.eqb ok ok'
  | OPos p, OPos q => Nat.eqb p q
  | OPersisted p, OPersisted q => Nat.eqb p q
  | ORestart p, ORestart q => Nat.eqb p q
  | OExit, OExit => true
  | OOther p, OOther q => Nat.eqb p q
  | _, _ => false
  end.

(* the real syslog sink on a scripted connection: the first connection takes q0 lines, every reconnect consults dials;
   the batches are handed to OnEvent one after the other; oks = what each call returned (true = nil), conns = the
   event ids each connection received, in the order the connections were made *)
Fixpoint sink_calls (l : lg Z) (batches : list (list Z)) : lg Z * list bool :=
  match batches with
  | [] => (l, [])
  | b :: tl => let '(l1, ok) := on_event code_stops_at_first_error l b true in
               let '(l2, oks) := sink_calls l1 tl in (l2, ok :: oks)
  end.

Inductive case :=
| KRun (evs : list (ev Z)) (observed : list (obs Z))
| KSink (q0 : option nat) (dials : list (option (option nat))) (batches : list (list Z)) (oks : list bool) (conns : list (list Z)).

Definition check (c : case) : bool :=
  match c with
  | KRun evs observed => list_eqb obs_eqb (trace evs) observed
  | KSink q0 dials batches oks conns =>
      let '(l, oks') := sink_calls (mkLg (Some q0) dials [[]]) batches in
      list_eqb Bool.eqb oks' oks && list_eqb (list_eqb Z.eqb) (rev (l_recv l)) conns
  end.

Definition mismatches (l : list case) : list nat := mismatches_of check l.
