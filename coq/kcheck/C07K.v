(* Correspondence checker for C07: the model runs the scenario (sessions of writes / flushes / pipe operations, each
   ended by a graceful stop or a crash - SIGKILL, or a shutdown that dies inside its first saver - and followed by
   crash-shaped states of the savers and file surgery) and predicts what every start shows: refused, or the partitions
   with their events, the pipes, and the answer to a time-range probe.  The model runs as [code_fix], the variant the
   theorems of props/C07.v are about. *)
From LR Require Export lib.Base model.Persist.
Open Scope Z_scope.

Definition lz_eqb := list_eqb Z.eqb.
Definition obs_eqb (a b : obs) : bool :=
  match a, b with
  | ORefused, ORefused => true
  | OStarted _ _ _, OBlind => true      (* the server started; nothing was asked of it at this start *)
  | OStarted p1 q1 r1, OStarted p2 q2 r2 =>
      list_eqb (option_eqb lz_eqb) p1 p2 && list_eqb Nat.eqb q1 q2 && list_eqb lz_eqb r1 r2
  | _, _ => false
  end.

(* pipes are compared as sorted lists: GetPipes sorts by name, the harness numbers names alphabetically *)
Fixpoint ins_nat (n : nat) (l : list nat) : list nat :=
  match l with [] => [n] | x :: tl => if Nat.leb n x then n :: l else x :: ins_nat n tl end.
Definition sort_nat (l : list nat) : list nat := fold_right ins_nat [] l.
Definition canon (o : obs) : obs :=
  match o with OStarted p q r => OStarted p (sort_nat q) r | _ => o end.

(* [skip]: partitions that lost acknowledged, unflushed records in a crash. Their sparse time index
   (outside the model) still describes the lost records; what RANGE answers on them is not compared (the oracle
   reports it as the finding index-ahead-of-journal) *)
Fixpoint blank_at (skip : list nat) (i : nat) (rs : list (list Z)) : list (list Z) :=
  match rs with
  | [] => []
  | r :: tl => (if mem_nat i skip then [] else r) :: blank_at skip (S i) tl
  end.
Definition blank (skip : list nat) (o : obs) : obs :=
  match o with OStarted p q r => OStarted p q (blank_at skip O r) | _ => o end.

(* [drops]: for every partition removal of the scenario, whether the directory was seen to go before the index without
   the record was in place (the order of the two file-system events, from one inotify queue) *)
Inductive case :=
| KScenario (np : nat) (lo hi : Z) (sessions : list session) (observed : list obs) (skip : list nat) (drops : list bool).

Definition check (c : case) : bool :=
  match c with
  | KScenario np lo hi ss observed skip drops =>
      list_eqb obs_eqb (map (fun o => blank skip (canon o)) (run_sessions code_fix np lo hi empty_disk ss))
                       (map (blank skip) observed)
      && forallb (Bool.eqb (drop_data_first code_fix)) drops
  end.

Definition mismatches (l : list case) : list nat := mismatches_of check l.
