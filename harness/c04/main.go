// C04 harness: multi-partition reads are the complete, correctly attributed, time-ordered merge.
//
// Stream "direct": the real newCursor (pairwise tree of model.Mixer over model.LogEventIterator, fiterator,
// crsr.Offset) is driven with scripted in-memory sources through Get/Next/Release/SetBackward/Offset/CurrentPos.
// Stream "e2e": an in-process server with 1..60 partitions is read through backend.Querier.Query.
// The order in which newCursor meets its sources (Go map order) is observed through the ItFactory, so the
// model is run on the same tree. The oracle O evaluates the property on the implementation's answers only.
package main

import (
	"context"
	"fmt"
	"io"
	"sort"
	"strings"
	"sync/atomic"
	"time"

	"github.com/logrange/logrange/pkg/cursor"
	"github.com/logrange/logrange/pkg/model/tag"
	"github.com/logrange/range/pkg/records/chunk"
	"github.com/logrange/range/pkg/records/journal"
	. "verifharness/common"
)

type Replay struct {
	Kind string `json:"kind"` // direct | e2e
	// direct
	Srcs []Src   `json:"srcs,omitempty"` // by source index (not in tree order)
	Flt  *Flt    `json:"flt,omitempty"`
	Pos  PosSpec `json:"pos"`
	Ops  []Op    `json:"ops,omitempty"`
	Drain string `json:"drain,omitempty"` // "", fw, bk, turn-fb, turn-bf: the oracle applies to drains
	// e2e with a fault: the journal of partition OpenFail-1 of the store cannot be opened (0: no fault)
	OpenFail int `json:"open_fail,omitempty"`
	// e2e with a removal: while the visit opens its first partition, the (Removed-1)-th other member of the subset is
	// removed from the tag index (0: no removal)
	Removed int `json:"removed,omitempty"`
	// e2e
	Parts  []PartSpec `json:"parts,omitempty"`
	Subset []int      `json:"subset,omitempty"`
	Where  bool       `json:"where,omitempty"`
}

const opTimeout = 25 * time.Second

// hangs counts operations that did not return; after a few the run stops generating (every hang costs a spinning goroutine)
var hangs int32

func tooManyHangs() bool { return atomic.LoadInt32(&hangs) >= 3 }

// ------------------------------------------------------------------ oracle

// oracleMerge checks a drained stream against the sources (what reading each source alone returns)
func oracleMerge(out []Item, srcs map[int][]Ev, bk bool, storedSorted bool) *Violation {
	owner := map[int]int{}
	for si, es := range srcs {
		for _, e := range es {
			owner[e.Id] = si
		}
	}
	per := map[int][]Ev{}
	for _, x := range out {
		o, ok := owner[x.Id]
		if !ok {
			return &Violation{Class: "c04-union", Detail: fmt.Sprintf("event %d@%d is in no selected source; out: %s", x.Id, x.Ts, fmtItems(out))}
		}
		if o != x.Src {
			return &Violation{Class: "c04-attribution", Detail: fmt.Sprintf("event %d of source %d delivered with the tags of source %d; out: %s", x.Id, o, x.Src, fmtItems(out))}
		}
		per[o] = append(per[o], Ev{Ts: x.Ts, Id: x.Id})
	}
	allSorted := storedSorted
	for si, es := range srcs {
		exp := make([]Ev, len(es))
		for i, e := range es {
			if bk {
				exp[len(es)-1-i] = Ev{Ts: e.Ts, Id: e.Id}
			} else {
				exp[i] = Ev{Ts: e.Ts, Id: e.Id}
			}
		}
		got := per[si]
		if len(got) != len(exp) {
			return &Violation{Class: "c04-union", Detail: fmt.Sprintf("source %d: %d events delivered, %d stored; out: %s", si, len(got), len(exp), fmtItems(out))}
		}
		for i := range exp {
			if got[i] != exp[i] {
				return &Violation{Class: "c04-order", Detail: fmt.Sprintf("source %d: position %d delivered %v, stored order has %v; out: %s", si, i, got[i], exp[i], fmtItems(out))}
			}
		}
	}
	if allSorted {
		for i := 1; i < len(out); i++ {
			if (!bk && out[i].Ts < out[i-1].Ts) || (bk && out[i].Ts > out[i-1].Ts) {
				return &Violation{Class: "c04-time-order", Detail: fmt.Sprintf("every source is time-ordered but the merge is not at %d; out: %s", i, fmtItems(out))}
			}
		}
	}
	return nil
}

// ------------------------------------------------------------------ direct runs

type obsRec struct {
	coq    []string
	gets   []*Item // results of OGet in order (nil = EOF, failedGet = the call failed with another error)
	hang   bool
	failed int
}

var failedGet = &Item{Src: -99}

func lineOf(i int) tag.Line { return tag.Line(fmt.Sprintf("src=s%02d", i)) }

func posString(p PosSpec, nsrc int) string {
	switch p.Kind {
	case "tail":
		return "tail"
	case "at":
		var parts []string
		for _, a := range p.At {
			parts = append(parts, srcName(a.Tag)+"="+journal.Pos{CId: chunk.Id(a.CId), Idx: a.Idx}.String())
		}
		return strings.Join(parts, ":")
	}
	return "head"
}

func filterEvs(es []Ev, f *Flt) []Ev {
	var r []Ev
	for _, e := range es {
		if f != nil {
			if f.Where && !e.A {
				continue
			}
			if e.Ts < f.Min || e.Ts > f.Max {
				continue
			}
		}
		r = append(r, e)
	}
	return r
}

// runDirect executes one scripted run on the real cursor
func runDirect(rp *Replay) (Case, error) {
	n := len(rp.Srcs)
	f := &memFactory{}
	cls := map[int]bool{}
	for _, s := range rp.Srcs {
		for _, e := range s.Recs {
			if e.A {
				cls[e.Id] = true
			}
		}
	}
	lineIdx := map[string]int{}
	for i, s := range rp.Srcs {
		f.lines = append(f.lines, lineOf(i))
		lineIdx[string(lineOf(i))] = i
		f.its = append(f.its, &memIt{mid: uint64(i + 1), recs: s.Recs, cls: cls})
	}
	q := "SELECT FROM a=b"
	if rp.Flt != nil && rp.Flt.Where {
		q += " " + WhereA
	}
	ctx := context.Background()
	cur, err := cursor.VC04NewCursor(ctx, cursor.State{Id: 1, Query: q, Pos: posString(rp.Pos, n)}, f)
	if err != nil {
		return Case{}, fmt.Errorf("newCursor: %v", err)
	}
	if len(f.order) != n || f.gotLimit != 50 {
		return Case{}, fmt.Errorf("newCursor asked for %d iterators of %d sources, limit %d", len(f.order), n, f.gotLimit)
	}
	rec := &obsRec{}
	var kops []Op // the script the model runs: the operations without the Gets that failed
	done := make(chan struct{})
	go func() {
		defer close(done)
		for _, o := range rp.Ops {
			if o.K == "failget" {
				kops = append(kops, Op{K: "get"})
			} else {
				kops = append(kops, o)
			}
			switch o.K {
			case "get":
				le, ln, err := cur.Get(ctx)
				if err != nil {
					rec.coq = append(rec.coq, "(RItem None)")
					rec.gets = append(rec.gets, nil)
				} else {
					si, ok := lineIdx[string(ln)]
					if !ok {
						si = -1
					}
					it := Item{Ts: le.Timestamp, Id: idOf(string(le.Msg)), Src: si}
					rec.coq = append(rec.coq, GApp("RItem", GSome(gItem(it))))
					rec.gets = append(rec.gets, &it)
				}
			case "failget":
				// a Get during which a source fails with an error that is not EOF (N = 0: the first source the mixers ask
				// answers a read error once; N = 1: the context of this one call is cancelled and the sources honour it).
				// The failed call must leave every source where it was: it is left out of the model's script; if no source
				// was asked (everything needed was buffered) the call is an ordinary Get.
				gctx := ctx
				if o.N == 1 {
					c2, cancel := context.WithCancel(ctx)
					cancel()
					gctx = c2
				} else {
					for _, it := range f.its {
						it.failNext = true
					}
				}
				le, ln, err := cur.Get(gctx)
				for _, it := range f.its {
					it.failNext = false
				}
				switch {
				case err != nil && err != io.EOF:
					rec.gets = append(rec.gets, failedGet)
					kops = kops[:len(kops)-1]
					rec.failed++
				case err == io.EOF:
					rec.coq = append(rec.coq, "(RItem None)")
					rec.gets = append(rec.gets, nil)
				default:
					si, ok := lineIdx[string(ln)]
					if !ok {
						si = -1
					}
					it := Item{Ts: le.Timestamp, Id: idOf(string(le.Msg)), Src: si}
					rec.coq = append(rec.coq, GApp("RItem", GSome(gItem(it))))
					rec.gets = append(rec.gets, &it)
				}
			case "next":
				cur.Next(ctx)
				rec.coq = append(rec.coq, "RUnit")
			case "release":
				cur.Release()
				rec.coq = append(rec.coq, "RUnit")
			case "bk":
				cur.SetBackward(true)
				rec.coq = append(rec.coq, "RUnit")
			case "fw":
				cur.SetBackward(false)
				rec.coq = append(rec.coq, "RUnit")
			case "offset":
				cur.Offset(ctx, o.N)
				rec.coq = append(rec.coq, "RUnit")
			case "pos":
				p := cur.CurrentPos()
				if jp, ok := p.(journal.Pos); ok {
					rec.coq = append(rec.coq, GApp("RPos", GSome(gZZ(uint64(jp.CId), jp.Idx))))
				} else {
					rec.coq = append(rec.coq, "(RPos None)")
				}
			}
		}
	}()
	select {
	case <-done:
		cursor.VC04CloseCursor(cur)
	case <-time.After(opTimeout):
		rec.hang = true
		atomic.AddInt32(&hangs, 1)
	}
	obs := append([]string{}, rec.coq...)
	if rec.hang {
		obs = append(obs, "RHang")
	}
	// sources in tree order
	ord := make([]Src, n)
	for k, i := range f.order {
		ord[k] = Src{Tag: i, Recs: rp.Srcs[i].Recs}
	}
	cs := Case{
		Coq:    GApp("KScript", gSrcs(ord), gFlt(rp.Flt), gPos(rp.Pos), gOps(kops), GList(obs)),
		Replay: rp,
		Stream: "direct",
	}
	nonEmpty := 0
	for _, s := range rp.Srcs {
		if len(s.Recs) > 0 {
			nonEmpty++
		}
	}
	cs.NonTrivial = nonEmpty >= 3
	cs.Tags = []string{fmt.Sprintf("direct:nsrc=%d", n), "direct:script=" + map[string]string{"": "random", "fw": "drain-fw", "bk": "drain-bk", "turn-fb": "turn-fb", "turn-bf": "turn-bf"}[rp.Drain]}
	if rp.Flt != nil {
		cs.Tags = append(cs.Tags, "direct:filtered")
	}
	if rec.failed > 0 {
		cs.Tags = append(cs.Tags, "direct:failed-get")
	}
	if rec.hang {
		cs.Oracle = &Violation{Class: "c04-hang", Detail: "a cursor operation of the script did not return"}
		return cs, nil
	}
	if rp.Drain == "turn-fb" || rp.Drain == "turn-bf" {
		cs.Oracle = oracleTurn(rp, rec)
		return cs, nil
	}
	if rp.Drain != "" {
		// the delivered stream: the Get in front of every Next, up to the first EOF
		var out []Item
		gi := 0
		var last *Item
		eof := false
		for _, o := range rp.Ops {
			switch o.K {
			case "get", "failget":
				g := rec.gets[gi]
				gi++
				if g == failedGet {
					continue // the failed call delivered nothing and must not have moved anything
				}
				last = g
				if last == nil {
					eof = true
				}
			case "next":
				if last != nil && !eof {
					out = append(out, *last)
				}
				last = nil
			}
		}
		if !eof {
			cs.Oracle = &Violation{Class: "c04-union", Detail: "the drain did not reach the end: " + fmtItems(out)}
		} else {
			srcs := map[int][]Ev{}
			sorted := true
			for i, s := range rp.Srcs {
				srcs[i] = filterEvs(s.Recs, rp.Flt)
				sorted = sorted && isSorted(s.Recs)
			}
			cs.Oracle = oracleMerge(out, srcs, rp.Drain == "bk", sorted)
		}
	}
	return cs, nil
}

// oracleTurn: a script that reads some events in one direction (so that, typically, one source is exhausted while others
// are not), switches the direction and drains. Source i has delivered d_i events before the switch, so its iterator stands
// on its (d_i+1)-th record in the first direction (behind its last one if there is none): after the switch it alone delivers
// that record and everything before it, in the new direction. The drain after the switch must be a merge of exactly these
// per-source streams (complete, attributed, per-source order; time-ordered if every source is).
func oracleTurn(rp *Replay, rec *obsRec) *Violation {
	var first, second []Item
	phase := 0
	gi := 0
	var last *Item
	eof := false
	for _, o := range rp.Ops {
		switch o.K {
		case "get":
			last = rec.gets[gi]
			gi++
			if last == nil && phase == 1 {
				eof = true
			}
		case "next":
			if last != nil {
				if phase == 0 {
					first = append(first, *last)
				} else if !eof {
					second = append(second, *last)
				}
			}
			last = nil
		case "bk", "fw":
			if (rp.Drain == "turn-fb" && o.K == "bk") || (rp.Drain == "turn-bf" && o.K == "fw") {
				phase = 1
				last = nil
			}
		}
	}
	if !eof {
		return &Violation{Class: "c04-union", Detail: "the drain after the direction switch did not reach the end: " + fmtItems(second)}
	}
	d := map[int]int{}
	for _, x := range first {
		if x.Src < 0 || x.Src >= len(rp.Srcs) {
			return &Violation{Class: "c04-attribution", Detail: "event delivered with unknown tags before the switch: " + fmtItems(first)}
		}
		d[x.Src]++
	}
	srcs := map[int][]Ev{}
	sorted := true
	for i, s := range rp.Srcs {
		sorted = sorted && isSorted(s.Recs)
		cnt := len(s.Recs)
		if cnt == 0 {
			srcs[i] = nil
			continue
		}
		if rp.Drain == "turn-fb" {
			hi := d[i]
			if hi > cnt-1 {
				hi = cnt - 1
			}
			srcs[i] = s.Recs[:hi+1]
		} else {
			lo := cnt - 1 - d[i]
			if lo < 0 {
				lo = 0
			}
			srcs[i] = s.Recs[lo:]
		}
	}
	v := oracleMerge(second, srcs, rp.Drain == "turn-fb", sorted)
	if v != nil {
		v.Detail = fmt.Sprintf("after %d events in the first direction (%s) and the direction switch: %s", len(first), fmtItems(first), v.Detail)
	}
	return v
}

func genTs(r *Rng, kind, n int, base int64) []int64 {
	ts := make([]int64, n)
	cur := base
	for i := range ts {
		switch kind {
		case 0: // strictly increasing, wide
			cur += int64(r.Range(1, 50))
			ts[i] = cur
		case 1: // non-decreasing in a narrow band: many ties within and across sources
			cur += int64(r.Intn(2))
			ts[i] = cur
		case 4: // one instant: every comparison of the merge is a tie
			ts[i] = 7
		case 3: // the ends of the int64 axis and the neighbourhood of the former model.MinTimestamp (time.Time{}.UnixNano()), time ordered
			ts[i] = extremeTs[r.Intn(len(extremeTs))]
		default: // unsorted
			ts[i] = base + int64(r.Intn(8))
		}
	}
	if kind == 3 {
		sort.Slice(ts, func(a, b int) bool { return ts[a] < ts[b] })
	}
	return ts
}

// extremeTs: timestamps a WHERE filter without RANGE must let through (its default range is the whole int64 axis)
var extremeTs = []int64{-9223372036854775808, -9223372036854775807, -6795364578871345153, -6795364578871345152, -6795364578871345151, -1, 0, 1, 9223372036854775806, 9223372036854775807}

func genDirect(r *Rng) *Replay {
	return genDirectN(r, r.PickInt(1, 2, 2, 3, 3, 3, 4, 5, 5, 6, 7, 8, 9, 1, 2, 3, 4, 5, 6, 7, 8, 9, 9, 15, 16, 17, r.PickInt(31, 32, 33, 49, 50)), r.PickInt(0, 1, 1, 1, 2, 3, 4), "")
}

// genDirectN: n sources (around the powers of two the pairwise reduction of newCursor has its odd carry-overs; 50 is the
// most one cursor merges), timestamps of the kind given (4: every event of every source has the same timestamp: every
// comparison of the merge is a tie), script "" = drawn
func genDirectN(r *Rng, n, kind int, script string) *Replay {
	rp := &Replay{Kind: "direct"}
	withFlt := (r.Chance(1, 4) || (kind == 3 && r.Chance(1, 2))) && script != "turn"
	fltMode := r.PickInt(0, 0, 0, 0, 1, 2) // the filter accepts some / all / none of the events
	total := 0
	long := -1
	if r.Chance(1, 8) {
		long = r.Intn(n) // one long source among short and empty ones
	}
	for i := 0; i < n; i++ {
		ln := r.PickInt(0, 0, 1, 1, 2, 3, 4, 6)
		if n > 12 {
			ln = r.PickInt(0, 0, 1, 1, 1, 2, 3)
		}
		if i == long {
			ln = r.Range(15, 30)
		}
		ts := genTs(r, kind, ln, int64(r.Intn(3)))
		s := Src{Tag: i}
		for k := 0; k < ln; k++ {
			s.Recs = append(s.Recs, Ev{Ts: ts[k], Id: i*100 + k + 1, A: withFlt && (fltMode == 1 || (fltMode == 0 && r.Chance(2, 3)))})
		}
		total += ln
		rp.Srcs = append(rp.Srcs, s)
	}
	if withFlt {
		f := &Flt{Where: true, Min: minTimestamp, Max: maxTimestamp}
		for _, s := range rp.Srcs {
			for _, e := range s.Recs {
				if e.A {
					f.Acc = append(f.Acc, e.Id)
				}
			}
		}
		rp.Flt = f
	}
	x := r.Intn(100)
	switch script {
	case "fw":
		x = 0
	case "bk":
		x = 30
	case "fail":
		x = r.PickInt(0, 0, 30)
	case "turn":
		x = 45
	case "random":
		x = 99
	}
	switch {
	case x < 30:
		rp.Drain = "fw"
		rp.Pos = PosSpec{Kind: "head"}
	case x < 45:
		rp.Drain = "bk"
		rp.Pos = PosSpec{Kind: "tail"}
		rp.Ops = append(rp.Ops, Op{K: "bk"})
	case x < 60 && n >= 2 && total >= 2 && !withFlt:
		// read m events, switch the direction (sometimes after a Release: a page boundary), drain
		m := r.Range(1, total)
		sw := "bk"
		if r.Chance(1, 2) {
			rp.Drain = "turn-fb"
			rp.Pos = PosSpec{Kind: "head"}
		} else {
			rp.Drain = "turn-bf"
			rp.Pos = PosSpec{Kind: "tail"}
			rp.Ops = append(rp.Ops, Op{K: "bk"})
			sw = "fw"
		}
		for k := 0; k < m; k++ {
			rp.Ops = append(rp.Ops, Op{K: "get"}, Op{K: "next"})
			if r.Chance(1, 6) {
				rp.Ops = append(rp.Ops, Op{K: "release"})
			}
		}
		rp.Ops = append(rp.Ops, Op{K: "get"})
		if r.Chance(1, 3) {
			rp.Ops = append(rp.Ops, Op{K: "release"})
		}
		rp.Ops = append(rp.Ops, Op{K: sw})
		for k := 0; k < total+2; k++ {
			rp.Ops = append(rp.Ops, Op{K: "get"})
			if r.Chance(1, 5) {
				rp.Ops = append(rp.Ops, Op{K: "release"})
			}
			if r.Chance(1, 5) {
				rp.Ops = append(rp.Ops, Op{K: "pos"})
			}
			rp.Ops = append(rp.Ops, Op{K: "next"})
		}
		rp.Ops = append(rp.Ops, Op{K: "get"})
		return rp
	default:
		rp.Pos = PosSpec{Kind: r.PickStr("head", "head", "tail", "at")}
		if rp.Pos.Kind == "at" {
			for i, s := range rp.Srcs {
				if r.Chance(3, 4) {
					at := PosAt{Tag: i, CId: uint64(i + 1), Idx: uint32(r.Intn(len(s.Recs) + 2))}
					switch r.Intn(12) { // a chunk id the source does not have (below / above its own), the largest index
					case 0:
						at.CId = 0
					case 1:
						at.CId = uint64(i + 2)
					case 2:
						at.CId = 0xFFFFFFFFFFFFFFFF
					case 3:
						at.Idx = 0xFFFFFFFF
					}
					rp.Pos.At = append(rp.Pos.At, at)
				}
			}
			if len(rp.Pos.At) == 0 {
				rp.Pos.Kind = "head"
			}
		}
	}
	if rp.Drain != "" {
		failAt := -1
		if n >= 2 && (script == "fail" || r.Chance(1, 4)) {
			failAt = r.Intn(total + 1) // before the Get of this step a source fails with a non-EOF error, the script goes on reading
		}
		for k := 0; k < total+2; k++ {
			if k == failAt {
				rp.Ops = append(rp.Ops, Op{K: "failget", N: r.Intn(2)})
				if r.Chance(1, 3) {
					rp.Ops = append(rp.Ops, Op{K: "release"})
				}
			}
			rp.Ops = append(rp.Ops, Op{K: "get"})
			if r.Chance(1, 4) {
				rp.Ops = append(rp.Ops, Op{K: "release"})
				if r.Chance(1, 2) {
					rp.Ops = append(rp.Ops, Op{K: "get"})
				}
			}
			if r.Chance(1, 5) {
				rp.Ops = append(rp.Ops, Op{K: "pos"})
			}
			rp.Ops = append(rp.Ops, Op{K: "next"})
		}
		rp.Ops = append(rp.Ops, Op{K: "get"})
	} else {
		ln := r.Range(6, 30)
		for k := 0; k < ln; k++ {
			y := r.Intn(100)
			switch {
			case y < 30:
				rp.Ops = append(rp.Ops, Op{K: "get"})
			case y < 55:
				rp.Ops = append(rp.Ops, Op{K: "next"})
			case y < 65:
				rp.Ops = append(rp.Ops, Op{K: "release"})
			case y < 72:
				rp.Ops = append(rp.Ops, Op{K: "bk"})
			case y < 79:
				rp.Ops = append(rp.Ops, Op{K: "fw"})
			case y < 90:
				rp.Ops = append(rp.Ops, Op{K: "pos"})
			default:
				rp.Ops = append(rp.Ops, Op{K: "offset", N: r.Range(-4, 4)})
			}
		}
		rp.Ops = append(rp.Ops, Op{K: "get"}, Op{K: "pos"})
	}
	return rp
}

// ------------------------------------------------------------------ end-to-end runs

type store struct {
	poisoned bool
	srv    *Server
	rec    *recFactory
	parts  []PartSpec
	lay    []PartLayout
	byJrnl map[string]int
	byLine map[string]int
	single map[int][]Ev // what reading partition i alone returns
}

func openStore(parts []PartSpec) (*store, error) {
	srv, err := startStoreServer()
	if err != nil {
		return nil, err
	}
	st := &store{srv: srv, parts: parts, byJrnl: map[string]int{}, byLine: map[string]int{}, single: map[int][]Ev{}}
	ok := cursor.VC04WrapItFactory(srv.Provider, func(in cursor.ItFactory) cursor.ItFactory {
		st.rec = &recFactory{in: in}
		return st.rec
	})
	if !ok {
		srv.Stop()
		return nil, fmt.Errorf("cannot wrap the ItFactory of the provider")
	}
	st.lay, err = buildStore(srv, parts)
	if err != nil {
		srv.Stop()
		return nil, err
	}
	for i, l := range st.lay {
		st.byJrnl[l.Jrnl] = i
		st.byLine[l.Line] = i
	}
	return st, nil
}

func (st *store) close() {
	if st.poisoned { // a request still spins in this server: leave it, remove its directory
		defer RemoveAll(st.srv.Dir)
		return
	}
	st.srv.Stop()
}

func (st *store) items(g []Got) []Item {
	out := make([]Item, len(g))
	for i, x := range g {
		si, ok := st.byLine[x.Tags]
		if !ok {
			si = -1
		}
		out[i] = Item{Ts: x.Ts, Id: x.Id, Src: si}
	}
	return out
}

// chunksOf splits the stored events of partition i by the chunk layout actually produced
func (st *store) srcOf(i int, ranged bool) Src {
	s := Src{Tag: i, Jrn: true, Ranged: ranged}
	evs := st.lay[i].Evs
	k := 0
	for _, c := range st.lay[i].Chunks {
		sc := SChunk{Id: c.Id, Min: 0, Max: 4294967295}
		for n := 0; n < c.Count && k < len(evs); n++ {
			sc.Recs = append(sc.Recs, Ev{Ts: evs[k].Ts, Id: evs[k].Id})
			k++
		}
		s.Chunks = append(s.Chunks, sc)
	}
	return s
}

func (st *store) readSingle(i int) ([]Ev, error) {
	if es, ok := st.single[i]; ok {
		return es, nil
	}
	g, _, err := query(st.srv, fmt.Sprintf("SELECT FROM p=p%d", i), "", 0, 10000)
	if err != nil {
		return nil, err
	}
	es := []Ev{}
	for _, x := range g {
		if x.Tags != st.lay[i].Line {
			return nil, fmt.Errorf("single read of partition %d returned tags %q", i, x.Tags)
		}
		es = append(es, Ev{Ts: x.Ts, Id: x.Id})
	}
	st.single[i] = es
	return es, nil
}

func partTags(i int, memb []bool) string {
	t := fmt.Sprintf("p=p%d", i)
	for j, m := range memb {
		if m {
			t += fmt.Sprintf(",s%d=y", j)
		}
	}
	return t
}

// runE2E reads subset j of the store (all partitions tagged s<j>=y) from the head
func (st *store) runE2E(j int, subset []int, where bool) (Case, error) {
	q := fmt.Sprintf("SELECT FROM s%d=y", j)
	var flt *Flt
	if where {
		q += " " + WhereA
		flt = &Flt{Where: true, Min: minTimestamp, Max: maxTimestamp}
		for _, i := range subset {
			for _, e := range st.lay[i].Evs {
				if e.A {
					flt.Acc = append(flt.Acc, e.Id)
				}
			}
		}
	}
	type qr struct {
		g   []Got
		pos string
		err error
	}
	ch := make(chan qr, 1)
	go func() {
		g, pos, err := query(st.srv, q, "", 0, 10000)
		ch <- qr{g, pos, err}
	}()
	var r qr
	select {
	case r = <-ch:
	case <-time.After(opTimeout):
		atomic.AddInt32(&hangs, 1)
		st.poisoned = true
		var ord []Src
		for _, i := range subset {
			ord = append(ord, st.srcOf(i, false))
		}
		return Case{Replay: &Replay{Kind: "e2e", Parts: st.parts, Subset: subset, Where: where}, Stream: "e2e",
			Coq:    GApp("KQuery", gSrcs(ord), gFlt(flt), "PHead", GZ(0), GNat(10000), "QHang"),
			Oracle: &Violation{Class: "c04-hang", Detail: fmt.Sprintf("query %s over %d partitions did not return", q, len(subset))}}, nil
	}
	rp := &Replay{Kind: "e2e", Parts: st.parts, Subset: subset, Where: where}
	cs := Case{Replay: rp, Stream: "e2e", NonTrivial: false}
	nonEmpty := 0
	for _, i := range subset {
		if len(st.lay[i].Evs) > 0 {
			nonEmpty++
		}
	}
	cs.NonTrivial = nonEmpty >= 3
	cs.Tags = []string{fmt.Sprintf("e2e:matching=%s", bucket(len(subset)))}
	if where {
		cs.Tags = append(cs.Tags, "e2e:filtered")
	}
	if r.err != nil {
		// the query failed: the tree order is unknown; the model must refuse too
		var ord []Src
		for _, i := range subset {
			ord = append(ord, st.srcOf(i, false))
		}
		cs.Coq = GApp("KQuery", gSrcs(ord), gFlt(flt), "PHead", GZ(0), GNat(10000), "QErr")
		if len(subset) <= 50 {
			cs.Oracle = &Violation{Class: "c04-limit-error", Detail: fmt.Sprintf("%d partitions match (the limit, 50, allows them) but the query failed: %v", len(subset), r.err)}
		}
		return cs, nil
	}
	order := append([]string{}, st.rec.order...)
	if len(order) != len(subset) {
		if len(subset) > 50 {
			cs.Oracle = &Violation{Class: "c04-limit-subset", Detail: fmt.Sprintf("%d partitions match, the query read %d of them without an error", len(subset), len(order))}
		} else {
			return cs, fmt.Errorf("query %s: %d sources opened, %d match", q, len(order), len(subset))
		}
	}
	var ord []Src
	for _, jn := range order {
		i, ok := st.byJrnl[jn]
		if !ok {
			return cs, fmt.Errorf("unknown journal %s", jn)
		}
		ord = append(ord, st.srcOf(i, false))
	}
	out := st.items(r.g)
	// positions, in tree order
	pm := map[string]journal.Pos{}
	for _, kv := range strings.Split(r.pos, ":") {
		p := strings.Split(kv, "=")
		if len(p) == 2 {
			jp, err := journal.ParsePos(p[1])
			if err != nil {
				return cs, fmt.Errorf("position %q: %v", r.pos, err)
			}
			pm[p[0]] = jp
		}
	}
	var ps []string
	for _, jn := range order {
		jp, ok := pm[jn]
		if !ok {
			return cs, fmt.Errorf("position %q lacks journal %s", r.pos, jn)
		}
		ps = append(ps, GPair(GNat(st.byJrnl[jn]), gZZ(uint64(jp.CId), jp.Idx)))
	}
	cs.Coq = GApp("KQuery", gSrcs(ord), gFlt(flt), "PHead", GZ(0), GNat(10000), GApp("QOk", gItems(out), GList(ps)))
	if cs.Oracle == nil && len(subset) > 50 {
		cs.Oracle = &Violation{Class: "c04-limit-subset", Detail: fmt.Sprintf("%d partitions match (limit 50), no error", len(subset))}
	}
	if cs.Oracle == nil {
		srcs := map[int][]Ev{}
		sorted := true
		for _, i := range subset {
			es, err := st.readSingle(i)
			if err != nil {
				return cs, err
			}
			sorted = sorted && isSorted(es)
			if where {
				var fe []Ev
				acc := map[int]bool{}
				for _, id := range flt.Acc {
					acc[id] = true
				}
				for _, e := range es {
					if acc[e.Id] {
						fe = append(fe, e)
					}
				}
				es = fe
			}
			srcs[i] = es
		}
		cs.Oracle = oracleMerge(out, srcs, false, sorted)
	}
	return cs, nil
}

// isSorted: the stored order is the timestamp order
func isSorted(es []Ev) bool {
	for i := 1; i < len(es); i++ {
		if es[i].Ts < es[i-1].Ts {
			return false
		}
	}
	return true
}

func bucket(n int) string {
	switch {
	case n <= 3:
		return fmt.Sprintf("%d", n)
	case n < 10:
		return "4-9"
	case n < 48:
		return "10-47"
	case n <= 52:
		return fmt.Sprintf("%d", n)
	}
	return "53+"
}

// genStore: P partitions, subsets of prescribed sizes
func genStore(r *Rng, P int, sizes []int, kind int) ([]PartSpec, [][]int) {
	memb := make([][]bool, P)
	for i := range memb {
		memb[i] = make([]bool, len(sizes))
	}
	subsets := make([][]int, len(sizes))
	for j, sz := range sizes {
		if sz > P {
			sz = P
		}
		sel := r.Perm(P)[:sz]
		sort.Ints(sel)
		subsets[j] = sel
		for _, i := range sel {
			memb[i][j] = true
		}
	}
	parts := make([]PartSpec, P)
	for i := 0; i < P; i++ {
		ln := r.PickInt(1, 1, 2, 3, 4, 6)
		if P > 20 {
			ln = r.PickInt(1, 1, 2, 3)
		}
		ts := genTs(r, kind, ln, int64(1000+r.Intn(3)))
		amode := r.PickInt(0, 0, 0, 0, 0, 1, 2) // the WHERE filter accepts some / all / none of the partition's events
		var chunks [][]Ev
		var cur []Ev
		for k := 0; k < ln; k++ {
			cur = append(cur, Ev{Ts: ts[k], Id: i*100 + k + 1, A: amode == 1 || (amode == 0 && r.Chance(2, 3))})
			if r.Chance(1, 3) && k < ln-1 {
				chunks = append(chunks, cur)
				cur = nil
			}
		}
		chunks = append(chunks, cur)
		parts[i] = PartSpec{Tags: partTags(i, memb[i]), Chunks: chunks}
	}
	return parts, subsets
}

func run(c *Ctx) error {
	if c.Replay != nil {
		var rp Replay
		if err := FromJSON(c.Replay, &rp); err != nil {
			return err
		}
		if rp.Kind == "direct" {
			cs, err := runDirect(&rp)
			if err != nil {
				return err
			}
			c.Add(cs)
			return c.Finish(rule)
		}
		st, err := openStore(rp.Parts)
		if err != nil {
			return err
		}
		defer st.close()
		// the subset index is the s<j> tag shared by all partitions of the subset
		j := subsetIndex(rp.Parts, rp.Subset)
		if rp.Removed > 0 {
			cs, err := st.runRemoved(j, rp.Subset, rp.Removed-1)
			if err != nil {
				return err
			}
			c.Add(cs)
			return c.Finish(rule)
		}
		if rp.OpenFail > 0 {
			cs, err := st.runOpenFail(j, rp.Subset, rp.OpenFail-1)
			if err != nil {
				return err
			}
			c.Add(cs)
			return c.Finish(rule)
		}
		cs, err := st.runE2E(j, rp.Subset, rp.Where)
		if err != nil {
			return err
		}
		c.Add(cs)
		return c.Finish(rule)
	}

	// ---- direct stream
	nd := c.N(600)
	reps := make([]*Replay, nd)
	for i := range reps {
		reps[i] = genDirect(c.Rng)
	}
	// always: the numbers of sources around the odd carry-overs of the pairwise reduction and at the limit, with ties
	// everywhere / unique timestamps, every script kind
	fix := []struct {
		n, kind int
		script  string
	}{{17, 4, "fw"}, {17, 4, "bk"}, {33, 1, "turn"}, {50, 0, "fw"}, {50, 4, "turn"}, {49, 1, "bk"}, {16, 4, "random"}, {31, 2, "fw"}, {2, 4, "turn"}, {3, 4, "turn"}, {5, 4, "bk"}, {9, 4, "fw"}, {32, 3, "fw"}, {15, 0, "random"},
		{2, 0, "fail"}, {3, 1, "fail"}, {3, 4, "fail"}, {5, 0, "fail"}, {9, 1, "fail"}, {4, 2, "fail"}}
	for i, f := range fix {
		if i < len(reps) {
			reps[i] = genDirectN(c.Rng.Fork(), f.n, f.kind, f.script)
		}
	}
	cases := make([]Case, nd)
	errs := make([]error, nd)
	done := make([]bool, nd)
	Parallel(nd, 8, func(i int) {
		if tooManyHangs() {
			return
		}
		cases[i], errs[i] = runDirect(reps[i])
		done[i] = true
	})
	for i := range cases {
		if errs[i] != nil {
			return errs[i]
		}
		if done[i] {
			c.Add(cases[i])
		}
	}

	// ---- end-to-end stream: small stores with many subset reads, and the 60-partition stores for the limit
	type job struct {
		P     int
		sizes []int
		kind  int
	}
	var jobs []job
	for k := 0; k < c.N(6); k++ {
		P := c.Rng.Range(2, 9)
		sizes := []int{1, 2, 3, P}
		for len(sizes) < 10 {
			sizes = append(sizes, c.Rng.Range(2, P))
		}
		jobs = append(jobs, job{P, sizes, c.Rng.PickInt(0, 1, 1, 2, 3, 4)})
	}
	for k := 0; k < c.N(2); k++ {
		jobs = append(jobs, job{60, []int{48, 49, 50, 51, 52, 60, c.Rng.Range(10, 47), c.Rng.Range(4, 9), c.Rng.Range(53, 59), 49, 50}, c.Rng.PickInt(0, 1)})
	}
	type jres struct {
		cases []Case
		err   error
	}
	seeds := make([]*Rng, len(jobs))
	for i := range seeds {
		seeds[i] = c.Rng.Fork()
	}
	results := make([]jres, len(jobs))
	Parallel(len(jobs), 4, func(i int) {
		r := seeds[i]
		parts, subsets := genStore(r, jobs[i].P, jobs[i].sizes, jobs[i].kind)
		st, err := openStore(parts)
		if err != nil {
			results[i].err = err
			return
		}
		defer st.close()
		for j, sub := range subsets {
			for _, where := range []bool{false, true} {
				if where && (len(sub) > 20 || r.Chance(1, 2)) {
					continue
				}
				if tooManyHangs() || st.poisoned {
					return
				}
				cs, err := st.runE2E(j, sub, where)
				if err != nil {
					results[i].err = err
					return
				}
				results[i].cases = append(results[i].cases, cs)
			}
			// the same read while the journal of one matching partition cannot be opened
			if len(sub) >= 2 && len(sub) <= 50 && r.Chance(1, 2) && !st.poisoned {
				failed := sub[r.Intn(len(sub))]
				if st.lay[failed].Jrnl == "" {
					continue
				}
				cs, err := st.runOpenFail(j, sub, failed)
				if err != nil {
					results[i].err = err
					return
				}
				results[i].cases = append(results[i].cases, cs)
			}
		}
		// last on this store (it loses a partition): a partition is removed while a request selects its sources
		if !st.poisoned && !tooManyHangs() {
			best := -1
			for j, sub := range subsets {
				if len(sub) >= 3 && len(sub) < 50 && (best < 0 || len(sub) > len(subsets[best])) {
					best = j
				}
			}
			if best >= 0 {
				cs, err := st.runRemoved(best, subsets[best], r.Intn(64))
				if err != nil {
					results[i].err = err
					return
				}
				results[i].cases = append(results[i].cases, cs)
			}
		}
	})
	for _, jr := range results {
		if jr.err != nil {
			return jr.err
		}
		for _, cs := range jr.cases {
			c.Add(cs)
		}
	}
	return c.Finish(rule)
}

func subsetIndex(parts []PartSpec, subset []int) int {
	if len(subset) == 0 {
		return 0
	}
	for j := 0; j < 64; j++ {
		t := fmt.Sprintf(",s%d=y", j)
		all := true
		for i, p := range parts {
			in := false
			for _, s := range subset {
				if s == i {
					in = true
				}
			}
			has := strings.Contains(p.Tags+",", t+",")
			if in != has {
				all = false
				break
			}
		}
		if all {
			return j
		}
	}
	return 0
}

const rule = "non-trivial iff at least 3 non-empty sources are merged (the odd carry-over path of the pairwise reduction is taken)"

func main() { Main("C04", "C04K", run) }
