// Gallina emitters of the cursor case vocabulary (coq/lib/CursorK.v)
package main

import (
	"fmt"
	"strings"

	. "verifharness/common"
)

func gEv(e Ev) string { return GPair(GZ(e.Ts), GNat(e.Id)) }

func gEvs(es []Ev) string {
	it := make([]string, len(es))
	for i, e := range es {
		it[i] = gEv(e)
	}
	return GList(it)
}

// Src is a source of a case: in-memory (Chunks == nil) or a stored journal
type Src struct {
	Tag    int      `json:"tag"`
	Recs   []Ev     `json:"recs,omitempty"`
	Ranged bool     `json:"ranged,omitempty"`
	Chunks []SChunk `json:"chunks,omitempty"`
	Jrn    bool     `json:"jrn,omitempty"`
}
type SChunk struct {
	Id   uint64 `json:"id"`
	Recs []Ev   `json:"recs"`
	Min  int64  `json:"min"`
	Max  int64  `json:"max"`
}

func gSrc(s Src) string {
	if !s.Jrn {
		return GApp("SMem", GNat(s.Tag), gEvs(s.Recs))
	}
	cs := make([]string, len(s.Chunks))
	for i, c := range s.Chunks {
		cs[i] = GTuple(fmt.Sprintf("%d%%Z", c.Id), gEvs(c.Recs), GPair(GZ(c.Min), GZ(c.Max)))
	}
	return GApp("SJrn", GNat(s.Tag), GBool(s.Ranged), GList(cs))
}
func gSrcs(ss []Src) string {
	it := make([]string, len(ss))
	for i, s := range ss {
		it[i] = gSrc(s)
	}
	return GList(it)
}

// Flt is the filter of a query
type Flt struct {
	Where bool  `json:"where"` // WHERE msg CONTAINS "a;"
	Acc   []int `json:"acc,omitempty"`
	Min   int64 `json:"min"`
	Max   int64 `json:"max"`
}

const minTimestamp = int64(-9223372036854775808) // model.MinTimestamp (math.MinInt64 since /repo 9fc8f3b; tied to the source by coq/gen/Consts.v)
const maxTimestamp = int64(9223372036854775807)

func gFlt(f *Flt) string {
	if f == nil {
		return GNone
	}
	acc := GNone
	if f.Where {
		acc = GSome(GListNat(f.Acc))
	}
	return GSome(GApp("mkFlt", acc, GZ(f.Min), GZ(f.Max)))
}

// PosSpec: "head", "tail" or explicit positions per source tag
type PosSpec struct {
	Kind string      `json:"kind"`
	At   []PosAt     `json:"at,omitempty"`
}
type PosAt struct {
	Tag int    `json:"tag"`
	CId uint64 `json:"cid"`
	Idx uint32 `json:"idx"`
}

func gZZ(cid uint64, idx uint32) string { return GPair(fmt.Sprintf("%d%%Z", cid), fmt.Sprintf("%d%%Z", idx)) }

func gPos(p PosSpec) string {
	switch p.Kind {
	case "tail":
		return "PTail"
	case "at":
		it := make([]string, len(p.At))
		for i, a := range p.At {
			it[i] = GPair(GNat(a.Tag), gZZ(a.CId, a.Idx))
		}
		return GApp("PAt", GList(it))
	}
	return "PHead"
}

// Op is a cursor operation of a script
type Op struct {
	K string `json:"k"` // get next release bk fw offset pos
	N int    `json:"n,omitempty"`
}

func gOp(o Op) string {
	switch o.K {
	case "get":
		return "OGet"
	case "next":
		return "ONext"
	case "release":
		return "ORelease"
	case "bk":
		return "(OSetBackward true)"
	case "fw":
		return "(OSetBackward false)"
	case "offset":
		return GApp("OOffset", GZ(int64(o.N)))
	}
	return "OPos"
}
func gOps(ops []Op) string {
	it := make([]string, len(ops))
	for i, o := range ops {
		it[i] = gOp(o)
	}
	return GList(it)
}

// Item is a delivered event with the index of the source its tag line names (-1: unknown line)
type Item struct {
	Ts  int64
	Id  int
	Src int
}

func gItem(x Item) string {
	id, src := x.Id, x.Src
	if id < 0 {
		id = 999999
	}
	if src < 0 {
		src = 999
	}
	return GPair(GPair(GZ(x.Ts), GNat(id)), GNat(src))
}
func gItems(xs []Item) string {
	it := make([]string, len(xs))
	for i, x := range xs {
		it[i] = gItem(x)
	}
	return GList(it)
}

func fmtItems(xs []Item) string {
	var sb strings.Builder
	for _, x := range xs {
		fmt.Fprintf(&sb, "%d@%d/s%d ", x.Id, x.Ts, x.Src)
	}
	return sb.String()
}
