// A partition whose journal cannot be opened: Service.GetJournals must fail the request, never read the partitions it
// met before the broken one ("never a silent subset"). The journal controller the partition service uses
// (partition.Service.Journals, an injected exported field) is decorated: GetOrCreate fails for one chosen journal while armed.
package main

import (
	"context"
	"fmt"
	"sync"
	"sync/atomic"
	"time"

	"github.com/logrange/range/pkg/records/journal"
	. "verifharness/common"
)

type jcDecor struct {
	journal.Controller
	mu    sync.Mutex
	armed string // journal name for which GetOrCreate fails
	hits  int
}

func (d *jcDecor) GetOrCreate(ctx context.Context, jname string) (journal.Journal, error) {
	d.mu.Lock()
	fail := d.armed != "" && d.armed == jname
	if fail {
		d.hits++
	}
	d.mu.Unlock()
	if fail {
		return nil, fmt.Errorf("verif: injected fault: too many open files (journal %s)", jname)
	}
	return d.Controller.GetOrCreate(ctx, jname)
}

func (d *jcDecor) arm(jname string) {
	d.mu.Lock()
	d.armed, d.hits = jname, 0
	d.mu.Unlock()
}

func (d *jcDecor) disarm() int {
	d.mu.Lock()
	defer d.mu.Unlock()
	d.armed = ""
	return d.hits
}

// decorate installs the decorator once per store
func (st *store) decorate() *jcDecor {
	if d, ok := st.srv.Partitions.Journals.(*jcDecor); ok {
		return d
	}
	d := &jcDecor{Controller: st.srv.Partitions.Journals}
	st.srv.Partitions.Journals = d
	return d
}

// runOpenFail reads subset j of the store while the journal of partition `failed` (a member of the subset) cannot be
// opened. Expected: the request fails. The visit meets the partitions in the tag index's map order, so the number of
// partitions met before the broken one differs from run to run.
func (st *store) runOpenFail(j int, subset []int, failed int) (Case, error) {
	q := fmt.Sprintf("SELECT FROM s%d=y", j)
	fi := -1
	for k, i := range subset {
		if i == failed {
			fi = k
		}
	}
	if fi < 0 {
		return Case{}, fmt.Errorf("open-fail case: partition %d is not in the subset", failed)
	}
	d := st.decorate()
	type qr struct {
		g   []Got
		err error
	}
	ch := make(chan qr, 1)
	d.arm(st.lay[failed].Jrnl)
	go func() {
		g, _, err := query(st.srv, q, "", 0, 10000)
		ch <- qr{g, err}
	}()
	var r qr
	rp := &Replay{Kind: "e2e", Parts: st.parts, Subset: subset, OpenFail: failed + 1}
	cs := Case{Replay: rp, Stream: "e2e-openfail", NonTrivial: len(subset) >= 3,
		Tags: []string{fmt.Sprintf("e2e:openfail-matching=%s", bucket(len(subset)))}}
	select {
	case r = <-ch:
	case <-time.After(opTimeout):
		d.disarm()
		atomic.AddInt32(&hangs, 1)
		st.poisoned = true
		cs.Coq = GApp("KOpen", GNat(len(subset)), GNat(fi), "true")
		cs.Oracle = &Violation{Class: "c04-hang", Detail: fmt.Sprintf("query %s with a journal that cannot be opened did not return", q)}
		return cs, nil
	}
	hits := d.disarm()
	if hits == 0 && r.err == nil {
		return cs, fmt.Errorf("open-fail case: the fault was never reached (query %s, journal %s)", q, st.lay[failed].Jrnl)
	}
	cs.Coq = GApp("KOpen", GNat(len(subset)), GNat(fi), GBool(r.err != nil))
	if r.err == nil {
		got := map[int]bool{}
		for _, x := range st.items(r.g) {
			got[x.Src] = true
		}
		cs.Oracle = &Violation{Class: "c04-open-failure-subset", Detail: fmt.Sprintf("%s: %d partitions match, the journal of partition %d cannot be opened (GetOrCreate fails), yet the query returned %d events of %d partitions (%d opened) without an error",
			q, len(subset), failed, len(r.g), len(got), len(st.rec.order))}
	}
	return cs, nil
}
