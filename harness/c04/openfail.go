// A partition whose journal cannot be opened: Service.GetJournals must fail the request, never read the partitions it
// met before the broken one ("never a silent subset"). The journal controller the partition service uses
// (partition.Service.Journals, an injected exported field) is decorated: GetOrCreate fails for one chosen journal while armed.
package main

import (
	"context"
	"fmt"
	"sort"
	"sync"
	"sync/atomic"
	"time"

	"github.com/logrange/range/pkg/records/journal"
	. "verifharness/common"
)

type jcDecor struct {
	journal.Controller
	mu    sync.Mutex
	armed string // journal name for which GetOrCreate fails
	hits  int
	// hook, if set, runs once, inside the next GetOrCreate call (i.e. while a GetJournals visit is standing on the
	// partition it is opening), with the name of the journal being opened
	hook func(jname string)
}

func (d *jcDecor) GetOrCreate(ctx context.Context, jname string) (journal.Journal, error) {
	d.mu.Lock()
	fail := d.armed != "" && d.armed == jname
	if fail {
		d.hits++
	}
	hook := d.hook
	d.hook = nil
	d.mu.Unlock()
	if hook != nil {
		hook(jname)
	}
	if fail {
		return nil, fmt.Errorf("verif: injected fault: too many open files (journal %s)", jname)
	}
	return d.Controller.GetOrCreate(ctx, jname)
}

func (d *jcDecor) setHook(h func(string)) {
	d.mu.Lock()
	d.hook = h
	d.mu.Unlock()
}

func (d *jcDecor) arm(jname string) {
	d.mu.Lock()
	d.armed, d.hits = jname, 0
	d.mu.Unlock()
}

func (d *jcDecor) disarm() int {
	d.mu.Lock()
	defer d.mu.Unlock()
	d.armed = ""
	return d.hits
}

// decorate installs the decorator once per store
func (st *store) decorate() *jcDecor {
	if d, ok := st.srv.Partitions.Journals.(*jcDecor); ok {
		return d
	}
	d := &jcDecor{Controller: st.srv.Partitions.Journals}
	st.srv.Partitions.Journals = d
	return d
}

// runOpenFail reads subset j of the store while the journal of partition `failed` (a member of the subset) cannot be
// opened. Expected: the request fails. The visit meets the partitions in the tag index's map order, so the number of
// partitions met before the broken one differs from run to run.
func (st *store) runOpenFail(j int, subset []int, failed int) (Case, error) {
	q := fmt.Sprintf("SELECT FROM s%d=y", j)
	fi := -1
	for k, i := range subset {
		if i == failed {
			fi = k
		}
	}
	if fi < 0 {
		return Case{}, fmt.Errorf("open-fail case: partition %d is not in the subset", failed)
	}
	d := st.decorate()
	type qr struct {
		g   []Got
		err error
	}
	ch := make(chan qr, 1)
	d.arm(st.lay[failed].Jrnl)
	go func() {
		g, _, err := query(st.srv, q, "", 0, 10000)
		ch <- qr{g, err}
	}()
	var r qr
	rp := &Replay{Kind: "e2e", Parts: st.parts, Subset: subset, OpenFail: failed + 1}
	cs := Case{Replay: rp, Stream: "e2e-openfail", NonTrivial: len(subset) >= 3,
		Tags: []string{fmt.Sprintf("e2e:openfail-matching=%s", bucket(len(subset)))}}
	select {
	case r = <-ch:
	case <-time.After(opTimeout):
		d.disarm()
		atomic.AddInt32(&hangs, 1)
		st.poisoned = true
		cs.Coq = GApp("KOpen", GNat(len(subset)), GNat(fi), "true")
		cs.Oracle = &Violation{Class: "c04-hang", Detail: fmt.Sprintf("query %s with a journal that cannot be opened did not return", q)}
		return cs, nil
	}
	hits := d.disarm()
	if hits == 0 && r.err == nil {
		return cs, fmt.Errorf("open-fail case: the fault was never reached (query %s, journal %s)", q, st.lay[failed].Jrnl)
	}
	cs.Coq = GApp("KOpen", GNat(len(subset)), GNat(fi), GBool(r.err != nil))
	if r.err == nil {
		got := map[int]bool{}
		for _, x := range st.items(r.g) {
			got[x.Src] = true
		}
		cs.Oracle = &Violation{Class: "c04-open-failure-subset", Detail: fmt.Sprintf("%s: %d partitions match, the journal of partition %d cannot be opened (GetOrCreate fails), yet the query returned %d events of %d partitions (%d opened) without an error",
			q, len(subset), failed, len(r.g), len(got), len(st.rec.order))}
	}
	return cs, nil
}

// runRemoved reads subset j of the store while one of its partitions is removed from the tag index during the
// GetJournals visit: the visit (tindex Visit over a snapshot of the matching partitions) is held inside the GetOrCreate
// of the first partition it opens, another partition of the subset -- not visited yet -- is acquired, locked exclusively
// and deleted (what dropping a partition does), then the visit goes on. Expected: the request succeeds and reads ALL the
// remaining matching partitions. The store has one partition less afterwards: this is the last case run on a store.
func (st *store) runRemoved(j int, subset []int, pick int) (Case, error) {
	q := fmt.Sprintf("SELECT FROM s%d=y", j)
	for _, i := range subset { // single reads for the oracle, before anything is removed
		if _, err := st.readSingle(i); err != nil {
			return Case{}, err
		}
	}
	d := st.decorate()
	victim := -1
	var herr error
	d.setHook(func(jname string) {
		// the pick-th member of the subset that is not the partition being opened
		var cand []int
		for _, i := range subset {
			if st.lay[i].Jrnl != jname && st.lay[i].Jrnl != "" {
				cand = append(cand, i)
			}
		}
		if len(cand) == 0 {
			herr = fmt.Errorf("no partition to remove")
			return
		}
		v := cand[pick%len(cand)]
		src := st.lay[v].Jrnl
		ti := st.srv.Partitions.TIndex
		if _, err := ti.GetJournalTags(src, true); err != nil {
			herr = fmt.Errorf("acquire %s: %v", src, err)
			return
		}
		if !ti.LockExclusively(src) {
			ti.Release(src)
			herr = fmt.Errorf("partition %s could not be locked exclusively", src)
			return
		}
		if err := ti.Delete(src); err != nil {
			herr = fmt.Errorf("delete %s: %v", src, err)
			return
		}
		victim = v
	})
	type qr struct {
		g   []Got
		err error
	}
	ch := make(chan qr, 1)
	go func() {
		g, _, err := query(st.srv, q, "", 0, 10000)
		ch <- qr{g, err}
	}()
	rp := &Replay{Kind: "e2e", Parts: st.parts, Subset: subset, Removed: pick + 1}
	cs := Case{Replay: rp, Stream: "e2e-removed", NonTrivial: len(subset) >= 3,
		Tags: []string{fmt.Sprintf("e2e:removed-matching=%s", bucket(len(subset)))}}
	var r qr
	select {
	case r = <-ch:
	case <-time.After(opTimeout):
		d.setHook(nil)
		atomic.AddInt32(&hangs, 1)
		st.poisoned = true
		cs.Coq = GApp("KRemoved", GNat(len(subset)), GNat(0), "[]", "true")
		cs.Oracle = &Violation{Class: "c04-hang", Detail: fmt.Sprintf("query %s with a partition removed during the visit did not return", q)}
		return cs, nil
	}
	d.setHook(nil)
	if herr != nil || victim < 0 {
		return cs, fmt.Errorf("removed case: the removal did not take place (query %s): %v", q, herr)
	}
	idx := map[int]int{}
	for k, i := range subset {
		idx[i] = k
	}
	var opened []int
	for _, jn := range st.rec.order {
		if i, ok := st.byJrnl[jn]; ok {
			opened = append(opened, idx[i])
		}
	}
	sort.Ints(opened)
	if r.err != nil {
		opened = nil
	}
	cs.Coq = GApp("KRemoved", GNat(len(subset)), GNat(idx[victim]), GListNat(opened), GBool(r.err != nil))
	if r.err != nil {
		cs.Oracle = &Violation{Class: "c04-removed-during-visit-error", Detail: fmt.Sprintf("%s: partition %d was removed while the request selected its %d sources; the request failed: %v", q, victim, len(subset), r.err)}
		return cs, nil
	}
	if len(opened) != len(subset)-1 {
		cs.Oracle = &Violation{Class: "c04-removed-during-visit-subset", Detail: fmt.Sprintf("%s: %d partitions match, partition %d was removed from the tag index while the visit was opening its first partition; %d partitions still match and exist, the request read only %d of them (%d events) without an error",
			q, len(subset), victim, len(subset)-1, len(opened), len(r.g))}
		return cs, nil
	}
	srcs := map[int][]Ev{}
	sorted := true
	for _, i := range subset {
		if i == victim {
			continue
		}
		es, _ := st.readSingle(i)
		sorted = sorted && isSorted(es)
		srcs[i] = es
	}
	cs.Oracle = oracleMerge(st.items(r.g), srcs, false, sorted)
	return cs, nil
}
