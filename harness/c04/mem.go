// In-memory sources for the direct runs: a journal.Iterator with the chunk-iterator position rules
// (pos in [-1..count], forward/backward Get table), whose buffer is reused and scrambled on Next like a
// real chunk iterator's, and an ItFactory that hands them to the real newCursor and records the order in
// which newCursor meets its sources.
package main

import (
	"fmt"
	"context"
	"io"

	"github.com/logrange/logrange/pkg/cursor"
	"github.com/logrange/logrange/pkg/lql"
	"github.com/logrange/logrange/pkg/model"
	"github.com/logrange/logrange/pkg/model/tag"
	"github.com/logrange/range/pkg/records"
	"github.com/logrange/range/pkg/records/chunk"
	"github.com/logrange/range/pkg/records/journal"
)

type memIt struct {
	mid    uint64
	recs   []Ev
	cls    map[int]bool // ids whose message carries the class letter 'a'
	pos    int64
	bkwd   bool
	buf    []byte
	n      int
	cached bool
	failNext bool // the next read that reaches the source fails with errInjected
}

func (m *memIt) cnt() int64 { return int64(len(m.recs)) }

func (m *memIt) setPos(p int64) {
	if p == m.pos {
		return
	}
	if p > m.cnt() {
		p = m.cnt()
	}
	if p < 0 {
		p = -1
	}
	m.pos = p
	m.cached = false
}

// errInjected is the read error a scripted source answers once when it is armed
var errInjected = fmt.Errorf("verif: injected read error")

func (m *memIt) Get(ctx context.Context) (records.Record, error) {
	if m.cached {
		return m.buf[:m.n], nil
	}
	if m.failNext { // a read that fails (not EOF): the source stays where it is
		m.failNext = false
		return nil, errInjected
	}
	if err := ctx.Err(); err != nil { // a source that honours its context
		return nil, err
	}
	if m.bkwd {
		if m.pos >= m.cnt() {
			m.setPos(m.cnt() - 1)
		}
	} else if m.pos < 0 {
		m.setPos(0)
	}
	if m.pos < 0 || m.pos >= m.cnt() {
		return nil, io.EOF
	}
	e := m.recs[m.pos]
	le := model.LogEvent{Timestamp: e.Ts, Msg: []byte(msgOf(e.Id, m.cls[e.Id], false))}
	if cap(m.buf) < le.WritableSize() {
		m.buf = make([]byte, le.WritableSize()+16)
	}
	m.buf = m.buf[:cap(m.buf)]
	n, err := le.Marshal(m.buf)
	if err != nil {
		return nil, err
	}
	m.n = n
	m.cached = true
	return m.buf[:n], nil
}

func (m *memIt) Next(ctx context.Context) {
	_, err := m.Get(ctx)
	if err == nil {
		if m.bkwd {
			m.setPos(m.pos - 1)
		} else {
			m.pos++
		}
	}
	m.cached = false
	for i := range m.buf { // the buffer of a chunk iterator is overwritten by the next read
		m.buf[i] = 0xEE
	}
}

func (m *memIt) Release()                         { m.cached = false }
func (m *memIt) SetBackward(b bool)               { m.bkwd = b }
func (m *memIt) CurrentPos() records.IteratorPos  { return m.Pos() }
func (m *memIt) Pos() journal.Pos                 { return journal.Pos{CId: chunk.Id(m.mid), Idx: uint32(m.pos)} }
func (m *memIt) Close() error                     { return nil }
func (m *memIt) SetPos(p journal.Pos) {
	switch {
	case uint64(p.CId) > m.mid:
		m.setPos(m.cnt())
	case uint64(p.CId) < m.mid:
		m.setPos(0)
	default:
		m.setPos(int64(p.Idx))
	}
}

type memJournal struct{ name string }

func (j *memJournal) Name() string { return j.name }
func (j *memJournal) Write(ctx context.Context, rit records.Iterator) (int, journal.Pos, error) {
	panic("memJournal.Write")
}
func (j *memJournal) Size() uint64                    { return 0 }
func (j *memJournal) Count() uint64                   { return 0 }
func (j *memJournal) Sync()                           {}
func (j *memJournal) Chunks() journal.ChnksController { panic("memJournal.Chunks") }

// memFactory is the ItFactory of the direct runs
type memFactory struct {
	lines    []tag.Line // tag line of source i
	its      []*memIt
	order    []int // source indices in the order newCursor asked for their iterators
	released int
	gotLimit int
}

func srcName(i int) string { return fmt.Sprintf("mem%02d", i) }

func (f *memFactory) GetJournals(ctx context.Context, tagsCond *lql.Source, maxLimit int) (map[tag.Line]journal.Journal, error) {
	f.gotLimit = maxLimit
	res := map[tag.Line]journal.Journal{}
	for i, l := range f.lines {
		res[l] = &memJournal{name: srcName(i)}
	}
	return res, nil
}
func (f *memFactory) GetJournal(ctx context.Context, src string) (tag.Set, journal.Journal, error) {
	panic("memFactory.GetJournal")
}
func (f *memFactory) Itearator(j journal.Journal, tmRange *model.TimeRange) journal.Iterator {
	i := 0
	fmt.Sscanf(j.Name(), "mem%d", &i)
	f.order = append(f.order, i)
	return f.its[i]
}
func (f *memFactory) Release(jn string) { f.released++ }

var _ cursor.ItFactory = (*memFactory)(nil)

// recFactory decorates the server's ItFactory: it records the journals in the order newCursor asks for
// their iterators (the order of the leaves of the mixer tree)
type recFactory struct {
	in    cursor.ItFactory
	order []string
}

func (f *recFactory) GetJournals(ctx context.Context, tagsCond *lql.Source, maxLimit int) (map[tag.Line]journal.Journal, error) {
	f.order = nil
	return f.in.GetJournals(ctx, tagsCond, maxLimit)
}
func (f *recFactory) GetJournal(ctx context.Context, src string) (tag.Set, journal.Journal, error) {
	f.order = nil
	return f.in.GetJournal(ctx, src)
}
func (f *recFactory) Itearator(j journal.Journal, tmRange *model.TimeRange) journal.Iterator {
	f.order = append(f.order, j.Name())
	return f.in.Itearator(j, tmRange)
}
func (f *recFactory) Release(jn string) { f.in.Release(jn) }
