// C15 harness: drives the real cursor.Provider (NewProvider, wired with a counting ItFactory over
// fake partitions) through step histories: GetOrCreate split at the only point where another
// request can interleave (the unlocked newCursor, where the factory's GetJournals is entered),
// Release, sweepByTime / sweepBySize (through pkg/cursor/export_c15_verif.go), clock advances, Shutdown.
// Every step's result and a snapshot (cached ids, per-cursor close count, net acquisitions per
// partition) are recorded as a Gallina term for model/Provider.v; the oracle evaluates the
// property itself on the harness's own bookkeeping, independent of the model.
package main

import (
	"context"
	"fmt"
	"io"
	"sort"
	"strconv"
	"strings"
	"sync"
	"time"

	"github.com/logrange/logrange/pkg/cursor"
	"github.com/logrange/logrange/pkg/lql"
	"github.com/logrange/logrange/pkg/model"
	"github.com/logrange/logrange/pkg/model/tag"
	"github.com/logrange/range/pkg/records"
	"github.com/logrange/range/pkg/records/chunk"
	"github.com/logrange/range/pkg/records/journal"
	. "verifharness/common"
)

// ---------------------------------------------------------------- fake partitions, counting factory

const NP = 4 // partitions a b c d (indices 0..3); "err" makes GetJournals fail

var partNames = []string{"a", "b", "c", "d"}
var partTags = []string{"p=a,g=x", "p=b,g=x", "p=c,g=x", "p=d,g=y"}

type query struct {
	Text  string
	Parts []int  // nil + Kind
	Kind  string // parts | nosrc | err | parse
}

var queries = []query{
	{"select from p=a limit 10", []int{0}, "parts"},
	{"select from p=b limit 10", []int{1}, "parts"},
	{"select from p=a OR p=b limit 10", []int{0, 1}, "parts"},
	{"select from g=x limit 10", []int{0, 1, 2}, "parts"},
	{"select from p=d limit 10", []int{3}, "parts"},
	{"select from p=nosuch limit 10", nil, "nosrc"},
	{"select from p=err limit 10", nil, "err"},
	{"selec from", nil, "parse"},
	// end-to-end stream only (the fake factory's iterators carry no records): a filtered and a time-ranged cursor
	{"select from p=b where msg contains \"m\" limit 10", []int{1}, "parts"},
	{"select from p=c OR p=d range [\"0\":\"999999\"] limit 10", []int{2, 3}, "parts"},
	{"SELECT FROM p=a LIMIT 10", []int{0}, "parts"}, // query 0 spelled differently: another query for ApplyState (strings are compared)
}

type reqInfo struct {
	actor   int
	gate    chan struct{} // closed by the harness to let newCursor go on
	reached chan struct{} // closed by the factory when GetJournals is entered
	once    sync.Once
	mu      sync.Mutex
	iters   []*fakeIt
	noGate  bool
}

type ctxKey struct{}

type factory struct {
	mu    sync.Mutex
	net   [NP]int // acquisitions minus releases
	minus bool    // some count went negative
	sets  []tag.Set
	errTs tag.Set
	all   []*fakeIt // every iterator handed out
}

func newFactory() *factory {
	f := &factory{}
	for _, t := range partTags {
		s, err := tag.Parse(t)
		if err != nil {
			panic(err)
		}
		f.sets = append(f.sets, s)
	}
	f.errTs, _ = tag.Parse("p=err")
	return f
}

func (f *factory) GetJournals(ctx context.Context, tagsCond *lql.Source, maxLimit int) (map[tag.Line]journal.Journal, error) {
	var ri *reqInfo
	if ctx != nil {
		ri, _ = ctx.Value(ctxKey{}).(*reqInfo)
	}
	if ri != nil && !ri.noGate {
		ri.once.Do(func() { close(ri.reached) })
		<-ri.gate
	}
	fn, err := lql.BuildTagsExpFuncBySource(tagsCond)
	if err != nil {
		return nil, err
	}
	if fn(f.errTs) {
		return nil, fmt.Errorf("factory: partition cannot be opened")
	}
	res := map[tag.Line]journal.Journal{}
	f.mu.Lock()
	defer f.mu.Unlock()
	for i, s := range f.sets {
		if fn(s) {
			f.net[i]++
			res[f.sets[i].Line()] = &fakeJrnl{name: partNames[i], ri: ri}
		}
	}
	return res, nil
}

func (f *factory) GetJournal(ctx context.Context, src string) (tag.Set, journal.Journal, error) {
	return tag.Set{}, nil, fmt.Errorf("not used")
}

func (f *factory) Itearator(j journal.Journal, tmRange *model.TimeRange) journal.Iterator {
	fj := j.(*fakeJrnl)
	it := &fakeIt{name: fj.name}
	f.mu.Lock()
	f.all = append(f.all, it)
	f.mu.Unlock()
	if fj.ri != nil {
		fj.ri.mu.Lock()
		fj.ri.iters = append(fj.ri.iters, it)
		fj.ri.mu.Unlock()
	}
	return it
}

func (f *factory) Release(jn string) {
	f.mu.Lock()
	defer f.mu.Unlock()
	for i, n := range partNames {
		if n == jn {
			f.net[i]--
			if f.net[i] < 0 {
				f.minus = true
			}
		}
	}
}

// closeCounts: how often each iterator ever handed out was closed
func (f *factory) closeCounts() []int {
	f.mu.Lock()
	defer f.mu.Unlock()
	r := make([]int, len(f.all))
	for i, it := range f.all {
		r[i] = it.closeCount()
	}
	return r
}

func (f *factory) counts() ([]int64, bool) {
	f.mu.Lock()
	defer f.mu.Unlock()
	r := make([]int64, NP)
	for i := range r {
		r[i] = int64(f.net[i])
	}
	return r, f.minus
}

type fakeJrnl struct {
	name string
	ri   *reqInfo
}

func (j *fakeJrnl) Name() string { return j.name }
func (j *fakeJrnl) Write(ctx context.Context, rit records.Iterator) (int, journal.Pos, error) {
	return 0, journal.Pos{}, nil
}
func (j *fakeJrnl) Size() uint64                    { return 0 }
func (j *fakeJrnl) Count() uint64                   { return 0 }
func (j *fakeJrnl) Sync()                           {}
func (j *fakeJrnl) Chunks() journal.ChnksController { return nil }

// fakeIt is a journal iterator over an endless empty stream: only its position matters
type fakeIt struct {
	mu      sync.Mutex
	name    string
	pos     journal.Pos
	closes  int
	gate    chan struct{} // armed by the harness: the next Release() (crsr.commit) parks here ...
	reached chan struct{} // ... after closing this
}

func (it *fakeIt) Close() error {
	it.mu.Lock()
	it.closes++
	it.mu.Unlock()
	return nil
}
func (it *fakeIt) Next(ctx context.Context) {}
func (it *fakeIt) Get(ctx context.Context) (records.Record, error) {
	return nil, io.EOF
}

// Release is what crsr.commit calls after it has read the final position: the one place inside provider.Release()
// where the harness can park a request (armed by relBegin) while other requests and the sweeps go on
func (it *fakeIt) Release() {
	it.mu.Lock()
	g, rch := it.gate, it.reached
	it.gate, it.reached = nil, nil
	it.mu.Unlock()
	if g != nil {
		close(rch)
		<-g
	}
}
func (it *fakeIt) arm() (gate, reached chan struct{}) {
	gate, reached = make(chan struct{}), make(chan struct{})
	it.mu.Lock()
	it.gate, it.reached = gate, reached
	it.mu.Unlock()
	return
}
func (it *fakeIt) disarm() {
	it.mu.Lock()
	it.gate, it.reached = nil, nil
	it.mu.Unlock()
}

func (it *fakeIt) SetBackward(bool)                {}
func (it *fakeIt) CurrentPos() records.IteratorPos { return records.IteratorPosUnknown }
func (it *fakeIt) Pos() journal.Pos                { it.mu.Lock(); defer it.mu.Unlock(); return it.pos }
func (it *fakeIt) SetPos(p journal.Pos)            { it.mu.Lock(); it.pos = p; it.mu.Unlock() }
func (it *fakeIt) closeCount() int                 { it.mu.Lock(); defer it.mu.Unlock(); return it.closes }
func (it *fakeIt) advance(k uint64) {
	it.mu.Lock()
	p := pos96{uint64(it.pos.CId), it.pos.Idx}.add(k)
	it.pos = journal.Pos{CId: chunk.Id(p.hi), Idx: p.lo}
	it.mu.Unlock()
}

// pos96 is journal.Pos read as the 96-bit number CId*2^32+Idx
type pos96 struct {
	hi uint64
	lo uint32
}

func (p pos96) add(k uint64) pos96 {
	lo := uint64(p.lo) + (k & 0xffffffff)
	hi := p.hi + (k >> 32) + (lo >> 32)
	return pos96{hi, uint32(lo)}
}
func (p pos96) String() string { return fmt.Sprintf("%016X%08X", p.hi, p.lo) }
func (p pos96) gallinaN() string {
	// hi*2^32+lo as a decimal N literal
	hiHi, hiLo := p.hi>>32, p.hi&0xffffffff
	// (hiHi*2^32 + hiLo)*2^32 + lo : compute in base 10^9 limbs
	limbs := []uint64{0}
	mulAdd := func(m, a uint64) {
		carry := a
		for i := range limbs {
			v := limbs[i]*m + carry
			limbs[i] = v % 1000000000
			carry = v / 1000000000
		}
		for carry > 0 {
			limbs = append(limbs, carry%1000000000)
			carry /= 1000000000
		}
	}
	mulAdd(1, hiHi)
	mulAdd(1<<32, hiLo)
	mulAdd(1<<32, uint64(p.lo))
	s := strconv.FormatUint(limbs[len(limbs)-1], 10)
	for i := len(limbs) - 2; i >= 0; i-- {
		s += fmt.Sprintf("%09d", limbs[i])
	}
	return s + "%N"
}

// ---------------------------------------------------------------- scripts

type PosSpec struct {
	Kind string `json:"k,omitempty"` // head | tail | at | bad
	Hi   uint64 `json:"hi,omitempty"`
	Lo   uint32 `json:"lo,omitempty"`
	Bad  string `json:"bad,omitempty"`
}

type Step struct {
	Kind  string  `json:"k"` // lookup | create | use | release | relbegin | relend | sweepsize | sweeptime | tick | shutdown
	R     int     `json:"r,omitempty"`
	Id    uint64  `json:"id,omitempty"`
	Cache bool    `json:"cache,omitempty"`
	Q     int     `json:"q,omitempty"`
	Pos   PosSpec `json:"pos"`
	N     uint64  `json:"n,omitempty"` // use: records read; tick: hours
}

type Replay struct {
	Kind   string `json:"kind"` // script | stress
	Name   string `json:"name,omitempty"`
	Max    int    `json:"max,omitempty"`
	Idle   int64  `json:"idle,omitempty"` // hours, odd
	Busy   int64  `json:"busy,omitempty"` // hours, odd
	Steps  []Step `json:"steps,omitempty"`
	Expect string `json:"expect,omitempty"` // corpus witnesses: the oracle class that must show up
	Seed   uint64 `json:"seed,omitempty"`
	Shared bool   `json:"shared,omitempty"` // stress: the workers share their ids (concurrent requests for one id)
}

var badPos = []string{"garbage", "a=zz", "a=1=2", "a=0000"}

func renderPos(ps PosSpec, q int) string {
	switch ps.Kind {
	case "head":
		return ""
	case "tail":
		return "tail"
	case "bad":
		return ps.Bad
	}
	parts := queries[q].Parts
	if len(parts) == 0 {
		parts = []int{0}
	}
	var sb []string
	for _, p := range parts {
		sb = append(sb, partNames[p]+"="+pos96{ps.Hi, ps.Lo}.String())
	}
	return strings.Join(sb, ":")
}

func gPos(ps PosSpec) string {
	switch ps.Kind {
	case "head":
		return "PHead"
	case "tail":
		return "PTail"
	case "bad":
		return "PBad"
	}
	return GApp("PAt", pos96{ps.Hi, ps.Lo}.gallinaN())
}

// parsePos reads a State.Pos returned by Release back into the projection
func parsePos(s string) PosSpec {
	if s == "" {
		return PosSpec{Kind: "head"}
	}
	var first *pos96
	for _, kv := range strings.Split(s, ":") {
		f := strings.Split(kv, "=")
		if len(f) != 2 || len(f[1]) != 24 {
			return PosSpec{Kind: "bad", Bad: s}
		}
		hi, e1 := strconv.ParseUint(f[1][:16], 16, 64)
		lo, e2 := strconv.ParseUint(f[1][16:], 16, 32)
		if e1 != nil || e2 != nil {
			return PosSpec{Kind: "bad", Bad: s}
		}
		p := pos96{hi, uint32(lo)}
		if first == nil {
			first = &p
		} else if *first != p {
			return PosSpec{Kind: "bad", Bad: s}
		}
	}
	return PosSpec{Kind: "at", Hi: first.hi, Lo: first.lo}
}

func gQres(q int) string {
	qq := queries[q]
	if qq.Kind == "parts" {
		it := make([]string, len(qq.Parts))
		for i, p := range qq.Parts {
			it[i] = GN(uint64(p))
		}
		return GApp("QParts", GList(it))
	}
	if qq.Kind == "nosrc" {
		return "QNoSrc"
	}
	return "QErr"
}

// ---------------------------------------------------------------- executor

const (
	stIdle = iota
	stGate
	stEarly
	stHold
	stHoldEmpty
	stReleasing // inside provider.Release(), parked in crsr.commit (relbegin done, relend to come); still the cursor's user
)

func holding(a *actor) bool { return a.st == stHold || a.st == stReleasing }

type curRec struct {
	cid    int
	ptr    cursor.Cursor
	id     uint64
	iters  []*fakeIt
	cached bool  // harness's belief: in the cache
	exp    pos96 // where the oracle expects the iterators to be
	holder int   // actor using it, -1
	handed int   // times handed out
}

func (c *curRec) closes() int {
	m := 0
	for _, it := range c.iters {
		if n := it.closeCount(); n > m {
			m = n
		}
	}
	return m
}

type result struct {
	cur      cursor.Cursor
	err      error
	panicked interface{}
}

type relResult struct {
	state cursor.State
	pv    interface{}
}

type actor struct {
	st        int
	req       *reqInfo
	done      chan result
	step      Step
	lookupIdx int // index of the OLookup term (its `fresh` is patched when the id becomes known)
	effId     uint64
	effKnown  bool
	crec      *curRec
	cur       cursor.Cursor
	relGate   chan struct{}  // stReleasing: closed by relEnd to let Release() go on
	relDone   chan relResult // stReleasing: the outcome of Release()
}

// rawPos is a State.Pos string as Release returned it, with the query of the cursor it came from
type rawPos struct {
	s     string
	query string
}

type exec struct {
	p        cursor.Provider
	f        *factory
	rp       *Replay
	actors   map[int]*actor
	curs     []*curRec
	byPtr    map[cursor.Cursor]*curRec
	coqOps   []string
	coqObs   []string
	panicked bool
	stopped  bool
	undisc   bool
	viol     *Violation
	tags     map[string]bool
	freshCtr uint64
	lastPos  map[uint64]PosSpec // per id: the position the server returned last
	lastRaw  map[uint64]rawPos  // per id: that position as the server wrote it (State.Pos lists the partitions in Go map order)
	nontriv  bool
	shutdown bool
}

const unit = time.Hour
const deadline = 60 * time.Second

func newExec(rp *Replay) *exec {
	x := &exec{rp: rp, actors: map[int]*actor{}, byPtr: map[cursor.Cursor]*curRec{}, tags: map[string]bool{}, lastPos: map[uint64]PosSpec{}, lastRaw: map[uint64]rawPos{}}
	x.p = cursor.NewProvider()
	x.f = newFactory()
	cursor.VC15Configure(x.p, x.f, rp.Max, time.Duration(rp.Idle)*unit, time.Duration(rp.Busy)*unit)
	return x
}

// fail records the first oracle violation of the case. Histories in which requests share an id while in flight
// (tag "undisciplined") are held to the same classes as every other history: a concurrent request for an id is
// refused or served by a cursor of its own, never interleaved, and nothing panics or leaks.
func (x *exec) fail(class, detail string) {
	if x.viol == nil {
		x.viol = &Violation{Class: class, Detail: detail}
	}
}

func (x *exec) actor(r int) *actor {
	a := x.actors[r]
	if a == nil {
		a = &actor{}
		x.actors[r] = a
	}
	return a
}

func (x *exec) snapshot() string {
	ids := cursor.VC15CachedIds(x.p)
	idl := make([]string, len(ids))
	for i, id := range ids {
		idl[i] = GN(id)
	}
	cl := make([]string, len(x.curs))
	for i, c := range x.curs {
		cl[i] = GNat(c.closes())
	}
	cnt, _ := x.f.counts()
	return GTuple(GList(idl), GList(cl), GListZ(cnt))
}

func (x *exec) emit(op, res string, withSnap bool) {
	x.coqOps = append(x.coqOps, op)
	sn := GNone
	if withSnap {
		sn = GSome(x.snapshot())
	}
	x.coqObs = append(x.coqObs, GPair(res, sn))
}

func cachedHas(ids []uint64, id uint64) bool {
	for _, v := range ids {
		if v == id {
			return true
		}
	}
	return false
}

// safety conditions the oracle checks after every step
func (x *exec) invariantChecks() {
	_, minus := x.f.counts()
	if minus {
		x.fail("partition-over-released", "a partition was released more often than acquired")
	}
	ids := cursor.VC15CachedIds(x.p)
	for _, c := range x.curs {
		n := c.closes()
		if n > 1 {
			x.fail("closed-twice", fmt.Sprintf("cursor #%d (id %d) closed %d times", c.cid, c.id, n))
		}
		if n > 0 && c.holder >= 0 {
			x.fail("closed-while-in-use", fmt.Sprintf("cursor #%d (id %d) closed while request %d uses it", c.cid, c.id, c.holder))
		}
		if c.cached && !cachedHas(ids, c.id) {
			c.cached = false
		}
	}
}

func (x *exec) lookupOp(st Step, fresh uint64) string {
	return GApp("OLookup", GNat(st.R), GN(st.Id), GBool(st.Cache), GN(uint64(st.Q)), gQres(st.Q), gPos(st.Pos), GN(fresh))
}

// Exec runs one step against the implementation
func (x *exec) Exec(st Step) error {
	if x.stopped {
		return nil
	}
	switch st.Kind {
	case "lookup", "create", "use", "relbegin":
		// a request parked inside Release() does nothing else before that Release() has returned
		if a := x.actors[st.R]; a != nil && a.st == stReleasing {
			if err := x.relEnd(st.R); err != nil || x.stopped {
				return err
			}
		}
	}
	switch st.Kind {
	case "lookup":
		return x.lookup(st)
	case "create":
		return x.create(st)
	case "relbegin":
		return x.relBegin(st)
	case "relend":
		return x.relEnd(st.R)
	case "use":
		a := x.actor(st.R)
		op := GApp("OUse", GNat(st.R), GN(st.N))
		switch a.st {
		case stHold:
			for _, it := range a.crec.iters {
				it.advance(st.N)
			}
			if a.crec.closes() == 0 {
				a.crec.exp = a.crec.exp.add(st.N)
			}
			x.emit(op, "RDone", true)
		case stHoldEmpty:
			x.emit(op, "RDone", true)
		default:
			x.emit(op, "RNone", true)
		}
	case "release":
		return x.release(st)
	case "sweepsize", "sweeptime":
		var pv interface{}
		nBefore := len(cursor.VC15CachedIds(x.p))
		func() {
			defer func() { pv = recover() }()
			if st.Kind == "sweepsize" {
				cursor.VC15SweepBySize(x.p)
			} else {
				cursor.VC15SweepByTime(x.p)
			}
		}()
		op := "OSweepSize"
		if st.Kind == "sweeptime" {
			op = "OSweepTime"
		}
		if pv != nil {
			x.coqOps = append(x.coqOps, op)
			x.panicked, x.stopped = true, true
			x.fail("panic:"+st.Kind, fmt.Sprint(pv))
			return nil
		}
		if len(cursor.VC15CachedIds(x.p)) < nBefore {
			x.nontriv = true
			x.tags[st.Kind+"-removed"] = true
		}
		x.emit(op, "RDone", true)
	case "tick":
		cursor.VC15Advance(x.p, time.Duration(st.N)*unit)
		x.emit(GApp("OTick", GZ(int64(st.N))), "RDone", true)
	case "shutdown":
		if x.shutdown {
			// Shutdown() closes a channel: it can be called once; a repeated step is not a step
			return nil
		}
		x.shutdown = true
		var pv interface{}
		nBefore := len(cursor.VC15CachedIds(x.p))
		func() {
			defer func() { pv = recover() }()
			x.p.(interface{ Shutdown() }).Shutdown()
		}()
		if pv != nil {
			x.coqOps = append(x.coqOps, "OShutdown")
			x.panicked, x.stopped = true, true
			x.fail("panic:shutdown", fmt.Sprint(pv))
			return nil
		}
		if nBefore > 0 {
			x.tags["shutdown-nonempty"] = true
			x.nontriv = true
		}
		x.emit("OShutdown", "RDone", true)
	default:
		return fmt.Errorf("unknown step kind %q", st.Kind)
	}
	x.invariantChecks()
	return nil
}

func (x *exec) lookup(st Step) error {
	a := x.actor(st.R)
	x.freshCtr++
	placeholder := 0xF0000000 + x.freshCtr
	if a.st != stIdle {
		x.emit(x.lookupOp(st, placeholder), "RNone", true)
		return nil
	}
	if st.Q < 0 || st.Q >= len(queries) {
		return fmt.Errorf("bad query index %d", st.Q)
	}
	ids := cursor.VC15CachedIds(x.p)
	wasCached := st.Id != 0 && cachedHas(ids, st.Id)
	// client discipline (model: `disciplined`; it only tags the input distribution): an id already in flight is
	// requested again only while its cursor sits in the cache marked busy (the request is then refused)
	expectRefused := false
	if st.Id != 0 {
		for r2, b := range x.actors {
			if r2 == st.R || b.st == stIdle || b.st == stHoldEmpty {
				continue
			}
			if b.effKnown && b.effId == st.Id {
				if holding(b) && b.crec != nil && b.crec.cached && wasCached {
					expectRefused = true
				} else {
					x.undisc = true
					x.tags["undisciplined"] = true
				}
			}
		}
	}
	ri := &reqInfo{actor: st.R, gate: make(chan struct{}), reached: make(chan struct{})}
	ctx := context.WithValue(context.Background(), ctxKey{}, ri)
	state := cursor.State{Id: st.Id, Query: queries[st.Q].Text, Pos: renderPos(st.Pos, st.Q)}
	// GetOrCreate compares the Pos strings: "the position the server returned" is sent as the server wrote it
	if raw, ok := x.lastRaw[st.Id]; ok && st.Pos.Kind == "at" && raw.query == state.Query {
		if lp := parsePos(raw.s); lp.Kind == "at" && lp.Hi == st.Pos.Hi && lp.Lo == st.Pos.Lo {
			state.Pos = raw.s
		}
	}
	done := make(chan result, 1)
	go func() {
		var r result
		defer func() {
			if pv := recover(); pv != nil {
				r.panicked = pv
			}
			done <- r
		}()
		r.cur, r.err = x.p.GetOrCreate(ctx, state, st.Cache)
	}()
	a.req, a.done, a.step = ri, done, st
	a.lookupIdx = len(x.coqOps)
	tm := time.NewTimer(deadline)
	defer tm.Stop()
	select {
	case <-ri.reached:
		a.st = stGate
		// a cached idle cursor that stands at another position than the requested one has been dropped: the request
		// keeps its id; otherwise (ApplyState failed) the id is a fresh one, not known yet
		dropped := wasCached && !cachedHas(cursor.VC15CachedIds(x.p), st.Id)
		a.effKnown = st.Id != 0 && (!wasCached || dropped)
		a.effId = st.Id
		x.emit(x.lookupOp(st, placeholder), "RMiss", true)
		if expectRefused {
			x.fail("busy-not-refused", fmt.Sprintf("id %d is cached and in use, the request was not refused", st.Id))
		}
		if dropped {
			x.tags["other-position-dropped"] = true
			x.nontriv = true
		} else if wasCached {
			x.tags["apply-fallback"] = true
			x.nontriv = true
		}
	case r := <-done:
		switch {
		case r.panicked != nil:
			x.coqOps = append(x.coqOps, x.lookupOp(st, placeholder))
			x.panicked, x.stopped = true, true
			x.fail("panic:get", fmt.Sprint(r.panicked))
		case r.err != nil && strings.Contains(r.err.Error(), "concurrent request"):
			x.emit(x.lookupOp(st, placeholder), "RRefused", true)
			x.tags["refused"] = true
			x.nontriv = true
			if !wasCached {
				x.fail("refused-unknown-id", fmt.Sprintf("id %d is not cached but the request was refused", st.Id))
			}
		case r.err != nil:
			// failed before the factory was reached (query does not parse): model = miss, then a failing create
			a.st = stEarly
			a.effKnown = st.Id != 0 && !wasCached
			a.effId = st.Id
			x.emit(x.lookupOp(st, placeholder), "RMiss", true)
		default:
			c := x.byPtr[r.cur]
			if c == nil {
				return fmt.Errorf("GetOrCreate returned an unknown cursor without entering the factory")
			}
			a.st, a.crec, a.cur = stHold, c, r.cur
			a.effKnown, a.effId = true, c.id
			if c.holder >= 0 {
				x.fail("shared-use", fmt.Sprintf("cursor #%d (id %d) handed to request %d while request %d uses it", c.cid, c.id, st.R, c.holder))
			}
			if c.closes() > 0 {
				x.fail("handed-out-closed", fmt.Sprintf("cursor #%d (id %d) handed out after it was closed", c.cid, c.id))
			}
			if expectRefused {
				x.fail("busy-not-refused", fmt.Sprintf("id %d is cached and in use, the request was not refused", st.Id))
			}
			c.holder = st.R
			c.handed++
			c.cached = true
			if st.Pos.Kind == "at" && c.closes() == 0 {
				c.exp = pos96{st.Pos.Hi, st.Pos.Lo}
			}
			x.emit(x.lookupOp(st, placeholder), GApp("RHit", GNat(c.cid)), true)
			x.tags["hit"] = true
			x.nontriv = true
		}
	case <-tm.C:
		return fmt.Errorf("GetOrCreate neither returned nor reached the factory within %v", deadline)
	}
	x.invariantChecks()
	return nil
}

func (x *exec) create(st Step) error {
	a := x.actor(st.R)
	op := GApp("OCreate", GNat(st.R))
	switch a.st {
	case stEarly:
		a.st = stIdle
		x.emit(op, "RNewErr", true)
		return nil
	case stGate:
	default:
		x.emit(op, "RNone", true)
		return nil
	}
	// is the id of this request in the cache right now (put there by another request since this one's lookup missed)?
	cachedNow := a.effKnown && cachedHas(cursor.VC15CachedIds(x.p), a.effId)
	close(a.req.gate)
	tm := time.NewTimer(deadline)
	defer tm.Stop()
	var r result
	select {
	case r = <-a.done:
	case <-tm.C:
		return fmt.Errorf("GetOrCreate did not return within %v after the factory gate was opened", deadline)
	}
	ls := a.step
	switch {
	case r.panicked != nil:
		x.coqOps = append(x.coqOps, op)
		x.panicked, x.stopped = true, true
		x.fail("panic:get", fmt.Sprint(r.panicked))
		return nil
	case r.err != nil && strings.Contains(r.err.Error(), "concurrent request"):
		// refused in the insert region: the cursor was built (newCursor) and closed again
		a.req.mu.Lock()
		its := append([]*fakeIt{}, a.req.iters...)
		a.req.mu.Unlock()
		c := &curRec{cid: len(x.curs), id: a.effId, iters: its, holder: -1, handed: 0}
		x.curs = append(x.curs, c)
		a.st, a.crec, a.cur = stIdle, nil, nil
		x.tags["insert-refused"] = true
		x.nontriv = true
		if !a.effKnown || !ls.Cache {
			x.fail("refused-unknown-id", fmt.Sprintf("request %d (id %d, cache=%v) was refused after newCursor: %v", st.R, ls.Id, ls.Cache, r.err))
		} else if !cachedNow {
			x.fail("refused-unknown-id", fmt.Sprintf("id %d is not cached but the request was refused after newCursor", a.effId))
		}
		if len(its) != len(queries[ls.Q].Parts) {
			x.fail("wrong-partitions", fmt.Sprintf("cursor for %q has %d iterators", queries[ls.Q].Text, len(its)))
		}
		if c.closes() != 1 {
			x.fail("leak-at-refusal", fmt.Sprintf("the cursor built for the refused request %d (id %d) was closed %d times", st.R, a.effId, c.closes()))
		}
		a.effKnown = false
		x.emit(op, GApp("RNew", GNat(c.cid)), false)
		x.emit(GApp("OInsert", GNat(st.R)), "RInsRefused", true)
	case r.err != nil:
		a.st = stIdle
		x.emit(op, "RNewErr", true)
		if queries[ls.Q].Kind == "parts" && ls.Pos.Kind != "bad" {
			x.fail("resume-failed", fmt.Sprintf("id %d, query %q, pos %q: %v", ls.Id, queries[ls.Q].Text, renderPos(ls.Pos, ls.Q), r.err))
		}
	case cursor.VC15IsEmptyCursor(r.cur):
		a.st, a.cur, a.crec = stHoldEmpty, r.cur, nil
		x.emit(op, "REmpty", true)
	default:
		if x.byPtr[r.cur] != nil {
			return fmt.Errorf("newCursor returned a cursor that exists already")
		}
		a.req.mu.Lock()
		its := append([]*fakeIt{}, a.req.iters...)
		a.req.mu.Unlock()
		c := &curRec{cid: len(x.curs), ptr: r.cur, id: r.cur.Id(), iters: its, holder: st.R, handed: 1, cached: ls.Cache}
		switch ls.Pos.Kind {
		case "tail":
			c.exp = pos96{0xFFFFFFFFFFFFFFFF, 0xFFFFFFFF}
		case "at":
			c.exp = pos96{ls.Pos.Hi, ls.Pos.Lo}
		}
		x.curs = append(x.curs, c)
		x.byPtr[r.cur] = c
		a.st, a.crec, a.cur = stHold, c, r.cur
		a.effKnown, a.effId = true, c.id
		// the id the provider drew (utils.NextSimpleId) is an input of the model: patch the lookup term
		if ls.Id == 0 || c.id != ls.Id {
			x.coqOps[a.lookupIdx] = x.lookupOp(ls, c.id)
		}
		if ls.Id != 0 && c.id != ls.Id && queries[ls.Q].Kind == "parts" {
			x.tags["fallback-new-id"] = true
		}
		if ls.Id != 0 && c.id == ls.Id {
			x.tags["resume-unknown-id"] = true
		}
		if len(its) != len(queries[ls.Q].Parts) {
			x.fail("wrong-partitions", fmt.Sprintf("cursor for %q has %d iterators", queries[ls.Q].Text, len(its)))
		}
		if ls.Cache && cachedNow {
			x.fail("cache-entry-overwritten", fmt.Sprintf("id %d was cached by another request when request %d put its cursor #%d into the cache under it", c.id, st.R, c.cid))
		}
		if ls.Cache {
			x.emit(op, GApp("RNew", GNat(c.cid)), false)
			x.emit(GApp("OInsert", GNat(st.R)), "RInserted", true)
		} else {
			x.emit(op, GApp("RNew", GNat(c.cid)), true)
		}
	}
	x.invariantChecks()
	return nil
}

func (x *exec) release(st Step) error {
	a := x.actor(st.R)
	if a.st == stReleasing {
		return x.relEnd(st.R)
	}
	op := GApp("ORelease", GNat(st.R))
	if a.st != stHold && a.st != stHoldEmpty {
		x.emit(op, "RNone", true)
		return nil
	}
	var rr relResult
	func() {
		defer func() { rr.pv = recover() }()
		rr.state = x.p.Release(context.Background(), a.cur)
	}()
	x.released(st.R, rr)
	return nil
}

// relBegin starts Release() of the cursor request r holds and lets it run until crsr.commit calls the iterators'
// Release(), where it parks (no lock held). The request is still the user of its cursor: until relEnd a lookup of its
// id must be refused and no sweep may close the cursor. The model has nothing to do here: its ORelease (commit + the
// locked region) is the relEnd step; for the code as it is the two agree because commit comes before the locked region.
func (x *exec) relBegin(st Step) error {
	a := x.actor(st.R)
	if a.st != stHold || a.crec == nil || len(a.crec.iters) == 0 {
		return nil
	}
	gate, reached := a.crec.iters[0].arm()
	done := make(chan relResult, 1)
	cur := a.cur
	go func() {
		var rr relResult
		defer func() {
			if pv := recover(); pv != nil {
				rr.pv = pv
			}
			done <- rr
		}()
		rr.state = x.p.Release(context.Background(), cur)
	}()
	tm := time.NewTimer(deadline)
	defer tm.Stop()
	select {
	case <-reached:
		a.st, a.relGate, a.relDone = stReleasing, gate, done
		x.tags["release-window"] = true
	case rr := <-done:
		// Release() came back without committing the cursor
		a.crec.iters[0].disarm()
		x.released(st.R, rr)
	case <-tm.C:
		return fmt.Errorf("Release neither returned nor reached the commit of its cursor within %v", deadline)
	}
	x.invariantChecks()
	return nil
}

// relEnd lets the Release() parked by relBegin finish
func (x *exec) relEnd(r int) error {
	a := x.actor(r)
	if a.st != stReleasing {
		return nil
	}
	close(a.relGate)
	tm := time.NewTimer(deadline)
	defer tm.Stop()
	select {
	case rr := <-a.relDone:
		a.st = stHold
		a.relGate, a.relDone = nil, nil
		x.released(r, rr)
	case <-tm.C:
		return fmt.Errorf("Release did not return within %v after the commit gate was opened", deadline)
	}
	return nil
}

// released: Release() of request r has returned (or panicked)
func (x *exec) released(r int, rr relResult) {
	a := x.actor(r)
	op := GApp("ORelease", GNat(r))
	state, pv := rr.state, rr.pv
	if pv != nil {
		x.coqOps = append(x.coqOps, op)
		x.panicked, x.stopped = true, true
		cls := "panic:release"
		if strings.Contains(fmt.Sprint(pv), "not busy") {
			cls = "panic:release-not-busy"
		}
		x.fail(cls, fmt.Sprint(pv))
		return
	}
	ps := parsePos(state.Pos)
	if c := a.crec; c != nil {
		c.holder = -1
		closed := c.closes() > 0
		if !closed {
			if ps.Kind != "at" || (pos96{ps.Hi, ps.Lo}) != c.exp {
				x.fail("release-position", fmt.Sprintf("cursor #%d (id %d) released at %q, expected %s", c.cid, c.id, state.Pos, c.exp))
			}
			if state.Id != c.id {
				x.fail("release-id", fmt.Sprintf("cursor #%d (id %d) still cached but Release returned id %d", c.cid, c.id, state.Id))
			}
		}
		if closed && state.Id != 0 {
			x.fail("release-id", fmt.Sprintf("cursor #%d closed by its release but the returned id is %d", c.cid, state.Id))
		}
		if closed {
			x.tags["released-closed"] = true
		}
		if state.Id != 0 {
			x.lastPos[state.Id] = ps
			x.lastRaw[state.Id] = rawPos{s: state.Pos, query: state.Query}
		}
	}
	a.st, a.crec, a.cur = stIdle, nil, nil
	a.effKnown = false
	x.emit(op, GApp("RReleased", GN(state.Id), gPos(ps)), true)
	x.invariantChecks()
}

// quiesce: every request finishes, the clock passes every time-out, the sweeper runs; then
// nothing may be left (the "never pin partitions forever" half of the property)
func (x *exec) drain() error {
	rs := make([]int, 0, len(x.actors))
	for r := range x.actors {
		rs = append(rs, r)
	}
	sort.Ints(rs)
	if x.rp.Kind == "script" && len(x.rp.Steps)%3 == 0 {
		// every third script ends with a shutdown of the live cache instead: the requests parked in newCursor
		// finish their GetOrCreate (one that inserts after Shutdown stays cached: outside the property), Shutdown,
		// then every request still in flight releases; nothing may be left, without any sweep
		for _, r := range rs {
			if a := x.actors[r]; a.st == stGate || a.st == stEarly {
				if err := x.Exec(Step{Kind: "create", R: r}); err != nil {
					return err
				}
			}
		}
		if x.stopped {
			return nil
		}
		if err := x.Exec(Step{Kind: "shutdown"}); err != nil {
			return err
		}
		for _, r := range rs {
			if a := x.actors[r]; holding(a) || a.st == stHoldEmpty {
				if err := x.Exec(Step{Kind: "release", R: r}); err != nil {
					return err
				}
			}
		}
		if !x.stopped {
			x.leakCheck("shutdown-cached-not-closed")
		}
		return nil
	}
	for _, r := range rs {
		a := x.actors[r]
		if a.st == stGate || a.st == stEarly {
			if err := x.Exec(Step{Kind: "create", R: r}); err != nil {
				return err
			}
		}
		if holding(a) || a.st == stHoldEmpty {
			if err := x.Exec(Step{Kind: "release", R: r}); err != nil {
				return err
			}
		}
	}
	if x.stopped {
		return nil
	}
	big := uint64(2 * (x.rp.Idle + x.rp.Busy + 1))
	for _, s := range []Step{{Kind: "tick", N: big}, {Kind: "sweeptime"}, {Kind: "sweeptime"}} {
		if err := x.Exec(s); err != nil {
			return err
		}
	}
	if x.stopped {
		return nil
	}
	x.leakCheck("leak-at-quiescence")
	return x.Exec(Step{Kind: "shutdown"})
}

func (x *exec) leakCheck(class string) {
	ids := cursor.VC15CachedIds(x.p)
	cnt, _ := x.f.counts()
	var bad []string
	if len(ids) != 0 {
		bad = append(bad, fmt.Sprintf("still cached: %v", ids))
	}
	for _, c := range x.curs {
		if c.closes() != 1 {
			bad = append(bad, fmt.Sprintf("cursor #%d (id %d) closed %d times", c.cid, c.id, c.closes()))
		}
	}
	for i, n := range cnt {
		if n != 0 {
			bad = append(bad, fmt.Sprintf("partition %s still acquired %d times", partNames[i], n))
		}
	}
	nm, nb, _, _ := cursor.VC15Sizes(x.p)
	if nm != 0 || nb != 0 {
		bad = append(bad, fmt.Sprintf("len(curs)=%d ring=%d", nm, nb))
	}
	if len(bad) > 0 {
		x.fail(class, strings.Join(bad, "; "))
	}
}

// unblock whatever is still parked in the factory (after a panic stopped the script)
func (x *exec) cleanup() {
	for _, a := range x.actors {
		if a.st == stGate {
			close(a.req.gate)
			select {
			case <-a.done:
			case <-time.After(deadline):
			}
			a.st = stIdle
		}
		if a.st == stReleasing {
			close(a.relGate)
			select {
			case <-a.relDone:
			case <-time.After(deadline):
			}
			a.st = stIdle
		}
	}
}

func (x *exec) finish(stream string) *Case {
	x.cleanup()
	disc := !x.undisc
	coq := GApp("KScript", GNat(x.rp.Max), GZ(x.rp.Idle), GZ(x.rp.Busy), GNat(NP), GList(x.coqOps), GList(x.coqObs), GBool(x.panicked), GBool(disc))
	var tags []string
	for t := range x.tags {
		tags = append(tags, t)
	}
	sort.Strings(tags)
	tags = append(tags, fmt.Sprintf("max:%d", x.rp.Max), fmt.Sprintf("cursors:%d", bucket(len(x.curs))))
	v := x.viol
	if x.rp.Expect != "" {
		// a recorded witness: the named violation must still show up on the implementation
		if v == nil || (x.rp.Kind == "shutdown" && v.Class != x.rp.Expect) {
			v = &Violation{Class: "witness-gone:" + x.rp.Expect, Detail: "the recorded witness " + x.rp.Name + " no longer violates the property: the finding is fixed, update the model and known_findings.d/C15.txt"}
		}
	}
	return &Case{Coq: coq, Replay: x.rp, NonTrivial: x.nontriv, Oracle: v, Tags: tags, Stream: stream}
}

func bucket(n int) int {
	switch {
	case n <= 2:
		return n
	case n <= 5:
		return 5
	case n <= 10:
		return 10
	}
	return 99
}

// ---------------------------------------------------------------- generators

type genCfg struct {
	actors    int
	ids       int
	steps     int
	races     bool // allow requests that break the discipline
	malformed bool
}

func genScript(r *Rng, g genCfg, rp *Replay) (*exec, error) {
	x := newExec(rp)
	do := func(s Step) error {
		rp.Steps = append(rp.Steps, s)
		return x.Exec(s)
	}
	pickPos := func(id uint64, q int) PosSpec {
		v := r.Intn(100)
		if lp, ok := x.lastPos[id]; ok && v < 55 {
			return lp
		}
		switch {
		case v < 70:
			return PosSpec{Kind: "head"}
		case v < 78:
			return PosSpec{Kind: "tail"}
		case v < 84 || (g.malformed && v < 92):
			return PosSpec{Kind: "bad", Bad: r.PickStr(badPos...)}
		case v < 96:
			return PosSpec{Kind: "at", Hi: uint64(r.Intn(2)), Lo: uint32(r.Intn(20))}
		default:
			return PosSpec{Kind: "at", Hi: uint64(r.PickInt(0, 1, 0xFFFF)), Lo: uint32(0xFFFFFFF0 + r.Intn(16))}
		}
	}
	idQuery := map[uint64]int{}
	for i := 0; i < g.steps && !x.stopped; i++ {
		v := r.Intn(100)
		if v < 22 {
			var s Step
			switch w := r.Intn(10); {
			case w < 4:
				s = Step{Kind: "tick", N: uint64(r.PickInt(2, 2, 4, 4, 6, 8, 12))}
			case w < 8:
				s = Step{Kind: "sweeptime"}
			default:
				s = Step{Kind: "sweepsize"}
			}
			if err := do(s); err != nil {
				return x, err
			}
			continue
		}
		rr := r.Intn(g.actors)
		a := x.actor(rr)
		switch a.st {
		case stIdle:
			id := uint64(1 + r.Intn(g.ids))
			if r.Chance(1, 8) {
				id = 0
			}
			if !g.races && id != 0 {
				// stay inside the discipline: an id in flight may be asked for only when it is cached and held
				ok := true
				for r2, b := range x.actors {
					if r2 != rr && b.st != stIdle && b.st != stHoldEmpty && b.effKnown && b.effId == id {
						if !(holding(b) && b.crec != nil && b.crec.cached && cachedHas(cursor.VC15CachedIds(x.p), id)) {
							ok = false
						}
					}
				}
				if !ok {
					continue
				}
			}
			q, known := idQuery[id]
			if !known || id == 0 || r.Chance(1, 10) {
				q = r.PickInt(0, 0, 1, 2, 2, 3, 4)
				if g.races {
					// single-partition queries only: a multi-partition position string comes back in Go map order, so
					// ApplyState's string comparison re-applies an equal position or not at random; that is immaterial
					// unless the cursor was advanced while marked idle, which only the race histories can do
					q = r.PickInt(0, 0, 1, 4)
				}
				if r.Chance(1, 9) || (g.malformed && r.Chance(1, 4)) {
					q = r.PickInt(5, 6, 7)
				}
				if id != 0 && !known {
					idQuery[id] = q
				}
			}
			if err := do(Step{Kind: "lookup", R: rr, Id: id, Cache: r.Chance(7, 10), Q: q, Pos: pickPos(id, q)}); err != nil {
				return x, err
			}
		case stGate, stEarly:
			if err := do(Step{Kind: "create", R: rr}); err != nil {
				return x, err
			}
		case stHold, stHoldEmpty:
			if r.Chance(1, 3) {
				if err := do(Step{Kind: "use", R: rr, N: uint64(r.PickInt(1, 1, 2, 3, 7, 20))}); err != nil {
					return x, err
				}
			} else if a.st == stHold && r.Chance(2, 5) {
				// the release in two steps: whatever is drawn before this request comes up again happens inside its Release()
				if err := do(Step{Kind: "relbegin", R: rr}); err != nil {
					return x, err
				}
			} else if err := do(Step{Kind: "release", R: rr}); err != nil {
				return x, err
			}
		case stReleasing:
			if err := do(Step{Kind: "relend", R: rr}); err != nil {
				return x, err
			}
		}
	}
	return x, nil
}

// ---------------------------------------------------------------- corpus: the recorded witnesses

func at(lo uint32) PosSpec { return PosSpec{Kind: "at", Lo: lo} }

var head = PosSpec{Kind: "head"}

func corpus() []Replay {
	return []Replay{
		// The first five are the witnesses of the repaired defect "cache entries identified by id only" (props/C15.v
		// C15_*_idonly_refuted; provider.go before the fix C15-sameid-race); they must pass now.
		// 1: two requests name the same uncached id, both miss before either inserts. Then: the second insert overwrote
		// the map entry, the first's Release marked the second's holder idle (first cursor never closed), the second's
		// Release panicked. Now: the second insert is refused, its cursor closed on the spot.
		{Kind: "script", Name: "same-uncached-id-race", Max: 10, Idle: 3, Busy: 7, Steps: []Step{
			{Kind: "lookup", R: 0, Id: 5, Cache: true, Q: 0, Pos: head},
			{Kind: "lookup", R: 1, Id: 5, Cache: true, Q: 0, Pos: head},
			{Kind: "create", R: 0}, {Kind: "create", R: 1},
			{Kind: "release", R: 0}, {Kind: "release", R: 1}}},
		// the same race, both requests complete one after the other (then: the idle expiry of the first cursor deleted the
		// map entry of the second, whose holder stayed in the ring for ever; now: the second is served by a cursor of its
		// own under the id, the first one having been released already)
		{Kind: "script", Name: "same-uncached-id-race-leak", Max: 10, Idle: 3, Busy: 7, Steps: []Step{
			{Kind: "lookup", R: 0, Id: 5, Cache: true, Q: 2, Pos: head},
			{Kind: "lookup", R: 1, Id: 5, Cache: true, Q: 2, Pos: head},
			{Kind: "create", R: 0}, {Kind: "release", R: 0},
			{Kind: "create", R: 1}, {Kind: "release", R: 1},
			{Kind: "tick", N: 22}, {Kind: "sweeptime"}}},
		// the same race with a third request (then: it was handed the cursor request 1 still used)
		{Kind: "script", Name: "same-uncached-id-race-shared", Max: 10, Idle: 3, Busy: 7, Steps: []Step{
			{Kind: "lookup", R: 0, Id: 5, Cache: true, Q: 0, Pos: head},
			{Kind: "lookup", R: 1, Id: 5, Cache: true, Q: 0, Pos: head},
			{Kind: "create", R: 0}, {Kind: "create", R: 1},
			{Kind: "release", R: 0},
			{Kind: "lookup", R: 2, Id: 5, Cache: true, Q: 0, Pos: at(0)}, {Kind: "use", R: 2, N: 2}}},
		// 2: a request outlives busyTo, the sweeper orphans its cursor, the client retries with the same id (then: the late
		// Release of the first hit the second's holder, the second's Release panicked; now: the late Release closes its own
		// cursor and leaves the entry alone)
		{Kind: "script", Name: "busy-expiry-rerequest-late-release", Max: 10, Idle: 3, Busy: 7, Steps: []Step{
			{Kind: "lookup", R: 0, Id: 5, Cache: true, Q: 0, Pos: head}, {Kind: "create", R: 0},
			{Kind: "tick", N: 8}, {Kind: "sweeptime"},
			{Kind: "lookup", R: 1, Id: 5, Cache: true, Q: 0, Pos: head}, {Kind: "create", R: 1},
			{Kind: "release", R: 0}, {Kind: "use", R: 1, N: 1}, {Kind: "release", R: 1}}},
		// an uncached request and a cached one with the same id (then: the uncached cursor was never closed, the cached one
		// marked idle by the other's Release and closed by the sweeper under its user)
		{Kind: "script", Name: "uncached-vs-cached-same-id", Max: 10, Idle: 3, Busy: 7, Steps: []Step{
			{Kind: "lookup", R: 0, Id: 5, Cache: false, Q: 1, Pos: head}, {Kind: "create", R: 0},
			{Kind: "lookup", R: 1, Id: 5, Cache: true, Q: 1, Pos: head}, {Kind: "create", R: 1},
			{Kind: "release", R: 0}, {Kind: "tick", N: 4}, {Kind: "sweeptime"}, {Kind: "release", R: 1}}},
		// inside Release(): between the start of Release() and its return the request is still the user of its cursor: a
		// request for the id is refused, the sweeper (idle time-out passed, busy time-out not) leaves the cursor alone
		{Kind: "script", Name: "lookup-inside-release", Max: 10, Idle: 3, Busy: 7, Steps: []Step{
			{Kind: "lookup", R: 0, Id: 5, Cache: true, Q: 0, Pos: head}, {Kind: "create", R: 0}, {Kind: "use", R: 0, N: 2},
			{Kind: "relbegin", R: 0},
			{Kind: "lookup", R: 1, Id: 5, Cache: true, Q: 0, Pos: at(2)},
			{Kind: "relend", R: 0},
			{Kind: "lookup", R: 1, Id: 5, Cache: true, Q: 0, Pos: at(2)}, {Kind: "release", R: 1}}},
		{Kind: "script", Name: "sweep-inside-release", Max: 10, Idle: 3, Busy: 7, Steps: []Step{
			{Kind: "lookup", R: 0, Id: 5, Cache: true, Q: 2, Pos: head}, {Kind: "create", R: 0},
			{Kind: "relbegin", R: 0},
			{Kind: "tick", N: 4}, {Kind: "sweeptime"}, {Kind: "sweepsize"},
			{Kind: "relend", R: 0},
			{Kind: "lookup", R: 0, Id: 5, Cache: true, Q: 2, Pos: head}, {Kind: "release", R: 0}}},
		// every way a cursor ends its life inside the discipline (must pass): uncached release, idle expiry,
		// busy expiry then release, eviction by size (idle and busy), ApplyState fallback
		{Kind: "script", Name: "life-cycles", Max: 2, Idle: 3, Busy: 7, Steps: []Step{
			{Kind: "lookup", R: 0, Id: 1, Cache: false, Q: 0, Pos: head}, {Kind: "create", R: 0}, {Kind: "use", R: 0, N: 3}, {Kind: "release", R: 0},
			{Kind: "lookup", R: 0, Id: 1, Cache: true, Q: 0, Pos: at(3)}, {Kind: "create", R: 0}, {Kind: "release", R: 0},
			{Kind: "lookup", R: 1, Id: 1, Cache: true, Q: 0, Pos: at(3)}, {Kind: "lookup", R: 2, Id: 1, Cache: true, Q: 0, Pos: at(3)}, {Kind: "release", R: 1},
			{Kind: "tick", N: 4}, {Kind: "sweeptime"},
			{Kind: "lookup", R: 0, Id: 2, Cache: true, Q: 2, Pos: head}, {Kind: "create", R: 0}, {Kind: "tick", N: 8}, {Kind: "sweeptime"}, {Kind: "release", R: 0},
			{Kind: "lookup", R: 0, Id: 3, Cache: true, Q: 3, Pos: head}, {Kind: "create", R: 0}, {Kind: "release", R: 0},
			{Kind: "lookup", R: 0, Id: 4, Cache: true, Q: 1, Pos: head}, {Kind: "create", R: 0},
			{Kind: "lookup", R: 1, Id: 6, Cache: true, Q: 4, Pos: head}, {Kind: "create", R: 1},
			{Kind: "sweepsize"}, {Kind: "release", R: 1}, {Kind: "sweepsize"},
			{Kind: "lookup", R: 1, Id: 4, Cache: true, Q: 1, Pos: head}, {Kind: "release", R: 0},
			{Kind: "lookup", R: 1, Id: 4, Cache: true, Q: 0, Pos: head}, {Kind: "create", R: 1}, {Kind: "release", R: 1}}},
	}
}

// shutdown (witness of the repaired defect "Shutdown() stops the sweeper and closes nothing", fix C15-shutdown-close):
// a cursor idle in the cache at Shutdown is closed and its partitions released
func shutdownWitness() []Replay {
	return []Replay{
		{Kind: "shutdown", Name: "shutdown-closes-cached-cursors", Max: 10, Idle: 3, Busy: 7, Steps: []Step{
			{Kind: "lookup", R: 0, Id: 5, Cache: true, Q: 2, Pos: head}, {Kind: "create", R: 0}, {Kind: "release", R: 0},
			{Kind: "shutdown"}}},
		// a busy cursor at Shutdown is dropped from the cache and closed by its Release
		{Kind: "shutdown", Name: "shutdown-busy-and-idle", Max: 10, Idle: 3, Busy: 7, Steps: []Step{
			{Kind: "lookup", R: 0, Id: 5, Cache: true, Q: 2, Pos: head}, {Kind: "create", R: 0},
			{Kind: "lookup", R: 1, Id: 6, Cache: true, Q: 3, Pos: head}, {Kind: "create", R: 1}, {Kind: "release", R: 1},
			{Kind: "lookup", R: 2, Id: 7, Cache: false, Q: 4, Pos: head}, {Kind: "create", R: 2},
			{Kind: "shutdown"}, {Kind: "use", R: 0, N: 3}, {Kind: "release", R: 0}, {Kind: "release", R: 2}}},
	}
}

// ---------------------------------------------------------------- stress: real goroutines, oracle only

// With shared the workers draw from one pool of ids, so requests for one id really run concurrently: a request may be
// refused ("concurrent request"), nothing else may go wrong.
func runStress(seed uint64, workers, rounds int, shared bool) *Case {
	rp := &Replay{Kind: "stress", Max: 3, Idle: 3, Busy: 7, Seed: seed, Shared: shared}
	x := newExec(rp)
	var wg sync.WaitGroup
	var mu sync.Mutex
	var viol *Violation
	fail := func(c, d string) {
		mu.Lock()
		if viol == nil {
			viol = &Violation{Class: c, Detail: d}
		}
		mu.Unlock()
	}
	stop := make(chan struct{})
	// the sweeper and the clock
	wg.Add(1)
	go func() {
		defer wg.Done()
		defer func() {
			if pv := recover(); pv != nil {
				fail("panic:sweep", fmt.Sprint(pv))
			}
		}()
		r := NewRng(seed ^ 0xabcdef)
		for {
			select {
			case <-stop:
				return
			default:
			}
			switch r.Intn(3) {
			case 0:
				cursor.VC15SweepBySize(x.p)
			case 1:
				cursor.VC15SweepByTime(x.p)
			default:
				cursor.VC15Advance(x.p, time.Duration(2*r.Intn(3))*unit)
			}
			time.Sleep(50 * time.Microsecond)
		}
	}()
	var ww sync.WaitGroup
	for w := 0; w < workers; w++ {
		ww.Add(1)
		go func(w int) {
			defer ww.Done()
			defer func() {
				if pv := recover(); pv != nil {
					fail("panic:stress-worker", fmt.Sprint(pv))
				}
			}()
			r := NewRng(seed*131 + uint64(w))
			// every worker owns its ids: no two requests in flight share an id (unless shared)
			ids := []uint64{uint64(10*w + 1), uint64(10*w + 2), uint64(10*w + 3)}
			if shared {
				ids = []uint64{1, 2, 3, 4}
			}
			last := map[uint64]string{}
			for i := 0; i < rounds; i++ {
				id := ids[r.Intn(len(ids))]
				q := r.PickInt(0, 1, 2, 3, 4)
				ri := &reqInfo{noGate: true}
				ctx := context.WithValue(context.Background(), ctxKey{}, ri)
				cur, err := x.p.GetOrCreate(ctx, cursor.State{Id: id, Query: queries[q].Text, Pos: last[id]}, r.Chance(7, 10))
				if err != nil && shared && strings.Contains(err.Error(), "concurrent request") {
					continue
				}
				if err != nil {
					fail("stress-get-failed", err.Error())
					return
				}
				if r.Chance(1, 2) {
					time.Sleep(time.Duration(r.Intn(100)) * time.Microsecond)
				}
				st := x.p.Release(context.Background(), cur)
				if st.Id != 0 && r.Chance(3, 4) {
					last[id] = st.Pos
					// the position string names the partitions of the query it came from
					if r.Chance(1, 4) {
						last[id] = ""
					}
				} else {
					last[id] = ""
				}
			}
		}(w)
	}
	ww.Wait()
	close(stop)
	wg.Wait()
	cursor.VC15Advance(x.p, time.Duration(2*(rp.Idle+rp.Busy+1))*unit)
	func() {
		defer func() {
			if pv := recover(); pv != nil {
				fail("panic:sweep", fmt.Sprint(pv))
			}
		}()
		cursor.VC15SweepByTime(x.p)
		cursor.VC15SweepByTime(x.p)
	}()
	ids := cursor.VC15CachedIds(x.p)
	cnt, minus := x.f.counts()
	if len(ids) != 0 {
		fail("stress-leak-at-quiescence", fmt.Sprintf("still cached %v", ids))
	}
	for i, n := range cnt {
		if n != 0 {
			fail("stress-leak-at-quiescence", fmt.Sprintf("partition %s still acquired %d times", partNames[i], n))
		}
	}
	if minus {
		fail("partition-over-released", "stress")
	}
	for i, c := range x.f.closeCounts() {
		if c != 1 {
			fail("stress-leak-at-quiescence", fmt.Sprintf("iterator #%d closed %d times", i, c))
			break
		}
	}
	return &Case{Coq: "KStress", Replay: rp, NonTrivial: true, Oracle: viol, Stream: "stress", Key: fmt.Sprintf("stress-%d-%v", seed, shared)}
}

// ---------------------------------------------------------------- main

const rule = "step histories over 1-3 concurrent requests, 1-6 ids, cache sizes 1-3 (and 10), idle/busy time-outs (3,7) (7,3) (1,5) hours, clock advances in even hours; a case is non-trivial iff a request hit a cached id, was refused (at the lookup or at the insert), fell back after a failed ApplyState, a sweep removed a cursor, or Shutdown found a non-empty cache; distinct by the hash of the step list; end-to-end scripts (stream e2e): 16-32 steps through the real ServerQuerier (rpc) and backend.Querier with the provider observed, non-trivial iff a request was refused, continued a cached cursor or waited"

func runReplay(rp Replay) (*Case, error) {
	switch rp.Kind {
	case "e2e":
		return nil, fmt.Errorf("an e2e case is replayed by runE2E")
	case "stress":
		return runStress(rp.Seed, 6, 300, rp.Shared), nil
	case "script", "shutdown":
		r2 := rp
		x := newExec(&r2)
		for _, s := range rp.Steps {
			if err := x.Exec(s); err != nil {
				return nil, err
			}
		}
		if rp.Kind == "shutdown" {
			x.leakCheck("shutdown-cached-not-closed")
			return x.finish("corpus"), nil
		}
		if err := x.drain(); err != nil {
			return nil, err
		}
		return x.finish("corpus"), nil
	}
	return nil, fmt.Errorf("unknown case kind %q", rp.Kind)
}

func main() {
	Main("C15", "C15K", func(c *Ctx) error {
		if c.Replay != nil {
			var rp Replay
			if err := FromJSON(c.Replay, &rp); err != nil {
				return err
			}
			if rp.Kind == "e2e" {
				var erp E2EReplay
				if err := FromJSON(c.Replay, &erp); err != nil {
					return err
				}
				cs, err := runE2E(erp, true)
				if err != nil {
					return err
				}
				c.Add(*cs)
				return c.Finish(rule)
			}
			cs, err := runReplay(rp)
			if err != nil {
				return err
			}
			c.Add(*cs)
			return c.Finish(rule)
		}
		// 1. the witnesses of the repaired defects (they must pass now), the life-cycle script and the shutdown scripts always run first
		for _, rp := range append(corpus(), shutdownWitness()...) {
			cs, err := runReplay(rp)
			if err != nil {
				return err
			}
			c.Add(*cs)
		}
		// 2. disciplined histories, 3. malformed-heavy, 4. races (requests sharing ids in flight); any oracle violation is a VIOLATION
		type job struct {
			g      genCfg
			stream string
			seed   uint64
		}
		var jobs []job
		for i := 0; i < c.N(420); i++ {
			r := c.Rng
			jobs = append(jobs, job{genCfg{actors: r.PickInt(1, 2, 2, 3), ids: r.Range(1, 6), steps: r.PickInt(8, 16, 30, 45)}, "disciplined", r.U64()})
		}
		for i := 0; i < c.N(80); i++ {
			r := c.Rng
			jobs = append(jobs, job{genCfg{actors: r.PickInt(1, 2), ids: r.Range(1, 3), steps: r.PickInt(8, 16, 30), malformed: true}, "malformed", r.U64()})
		}
		for i := 0; i < c.N(160); i++ {
			r := c.Rng
			jobs = append(jobs, job{genCfg{actors: r.PickInt(2, 3, 3), ids: r.Range(1, 2), steps: r.PickInt(8, 16, 30), races: true}, "races", r.U64()})
		}
		res := make([]*Case, len(jobs))
		errs := make([]error, len(jobs))
		Parallel(len(jobs), 8, func(i int) {
			j := jobs[i]
			r := NewRng(j.seed)
			to := [][2]int64{{3, 7}, {3, 7}, {7, 3}, {1, 5}}[r.Intn(4)]
			rp := &Replay{Kind: "script", Max: r.PickInt(1, 2, 3, 3, 10), Idle: to[0], Busy: to[1]}
			x, err := genScript(r, j.g, rp)
			if err == nil {
				err = x.drain()
			}
			if err != nil {
				errs[i] = err
				x.cleanup()
				return
			}
			// the epilogue steps belong to the replayable script
			res[i] = x.finish(j.stream)
		})
		for i := range jobs {
			if errs[i] != nil {
				return errs[i]
			}
			c.Add(*res[i])
		}
		// 5. stress runs with real goroutines (oracle only)
		for i := 0; i < c.N(6); i++ {
			c.Add(*runStress(c.Rng.U64(), 6, 300, i%2 == 1))
		}
		// 6. end to end: request sequences through the real ServerQuerier (rpc) and backend.Querier, provider observed
		erps := e2eCorpus()
		nfixed := len(erps)
		for i := 0; i < c.N(24); i++ {
			erps = append(erps, E2EReplay{Kind: "e2e", Seed: c.Rng.U64(), Max: c.Rng.PickInt(2, 3, 1000, 1000), End: c.Rng.PickStr("sweep", "sweep", "stop", "cancel-stop")})
		}
		ne := len(erps)
		eres := make([]*Case, ne)
		eerr := make([]error, ne)
		Parallel(ne, 6, func(i int) {
			eres[i], eerr[i] = runE2E(erps[i], i < nfixed)
		})
		for i := range erps {
			if eerr[i] != nil {
				return eerr[i]
			}
			c.Add(*eres[i])
		}
		return c.Finish(rule)
	})
}
