// C15 harness, end-to-end stream: request sequences through the REAL callers of cursor.Provider -
// api/rpc ServerQuerier.query (in-process server, rpc client) and backend.Querier.Query (direct) - with the
// provider observed from outside: the queriers talk to obsProv, which serialises and logs every GetOrCreate
// and Release and hands out observed cursors (obsCur); the provider talks to obsItf, which counts the
// acquisitions per partition. The oracle evaluates the property on these observations; the log, in the
// order the provider served the calls, is the history the model (model/Querier.v over model/Provider.v) is
// run on by C15K.check (case KQuery).
package main

import (
	"context"
	"fmt"
	"io"
	"os"
	"path"
	"sort"
	"strings"
	"sync"
	"sync/atomic"
	"time"

	"github.com/jrivets/log4g"
	"github.com/logrange/linker"
	"github.com/logrange/logrange/api"
	"github.com/logrange/logrange/api/rpc"
	"github.com/logrange/logrange/pkg/backend"
	"github.com/logrange/logrange/pkg/cursor"
	"github.com/logrange/logrange/pkg/lql"
	"github.com/logrange/logrange/pkg/model"
	"github.com/logrange/logrange/pkg/model/tag"
	"github.com/logrange/logrange/pkg/partition"
	"github.com/logrange/logrange/pkg/pipe"
	"github.com/logrange/logrange/pkg/tindex"
	"github.com/logrange/logrange/pkg/tmindex"
	"github.com/logrange/logrange/server"
	cmodel "github.com/logrange/range/pkg/cluster/model"
	"github.com/logrange/range/pkg/kv/inmem"
	"github.com/logrange/range/pkg/records"
	"github.com/logrange/range/pkg/records/journal"
	"github.com/logrange/range/pkg/records/journal/ctrlr"
	"github.com/logrange/range/pkg/transport"
	"github.com/logrange/range/pkg/utils/bytes"
	. "verifharness/common"
)

// ---------------------------------------------------------------- the stack (wired like /repo/server/server.go Start)

type stack struct {
	dir     string
	addr    string
	ctx     context.Context
	cancel  context.CancelFunc
	inj     *linker.Injector
	prov    cursor.Provider
	itf     cursor.ItFactory
	sq      *rpc.ServerQuerier
	bq      *backend.Querier
	tindex  tindex.Service
	client  *rpc.Client
	started time.Time
	stopped bool
}

func startStack() (s *stack, err error) {
	Quiet()
	s = &stack{dir: TempDir("c15e2e")}
	cfg := server.GetDefaultConfig()
	cfg.BaseDir = s.dir
	cfg.JrnlCtrlConfig.WriteFlushMs = 5
	var last error
	for attempt := 0; attempt < 5; attempt++ {
		s.addr = fmt.Sprintf("127.0.0.1:%d", FreePort())
		cfg.PublicApiRpc = transport.Config{ListenAddr: s.addr}
		last = s.init(cfg)
		if last == nil || !strings.Contains(last.Error(), "address already in use") {
			break
		}
	}
	if last != nil {
		os.RemoveAll(s.dir)
		return nil, last
	}
	s.started = time.Now()
	s.client, err = rpc.NewClient(transport.Config{ListenAddr: s.addr})
	if err != nil {
		s.stop()
		return nil, err
	}
	return s, nil
}

func (s *stack) init(cfg *server.Config) (err error) {
	imsCfg := &tindex.InMemConfig{WorkingDir: path.Join(cfg.BaseDir, "tindex")}
	cfg.PipesConfig.Dir = path.Join(cfg.BaseDir, "pipes")
	cfg.JrnlCtrlConfig.JournalsDir = path.Join(cfg.BaseDir, "db")
	tmidxCfg := &tmindex.TsIndexerConfig{Dir: path.Join(cfg.BaseDir, "cindex")}
	s.ctx, s.cancel = context.WithCancel(context.Background())
	s.bq = backend.NewQuerier()
	s.sq = rpc.NewServerQuerier()
	s.tindex = tindex.NewInmemService()
	s.prov = cursor.NewProvider()
	// time-outs in hours before Init starts the sweeper goroutine (period idleTo/5): it never fires during a script, the
	// script runs the sweeps itself (the ItFactory is injected below)
	cursor.VC15Configure(s.prov, nil, 1000, e2eIdle*unit, e2eBusy*unit)
	s.itf = cursor.NewItFactory()
	inj := linker.New()
	inj.SetLogger(log4g.GetLogger("injector"))
	inj.Register(
		linker.Component{Name: "HostRegistryConfig", Value: cfg},
		linker.Component{Name: "JournalControllerConfig", Value: &cfg.JrnlCtrlConfig},
		linker.Component{Name: "", Value: &cfg.PipesConfig},
		linker.Component{Name: "publicRpcTransport", Value: cfg.PublicApiRpc},
		linker.Component{Name: "tindexInMemCfg", Value: imsCfg},
		linker.Component{Name: "", Value: tmidxCfg},
		linker.Component{Name: "mainCtx", Value: s.ctx},
		linker.Component{Name: "", Value: new(bytes.Pool)},
		linker.Component{Name: "", Value: inmem.New()},
		linker.Component{Name: "", Value: s.tindex},
		linker.Component{Name: "", Value: partition.NewService()},
		linker.Component{Name: "", Value: s.itf},
		linker.Component{Name: "", Value: tmindex.NewTsIndexer()},
		linker.Component{Name: "", Value: pipe.NewService()},
		linker.Component{Name: "", Value: cmodel.NewHostRegistry()},
		linker.Component{Name: "", Value: cmodel.NewJournalCatalog()},
		linker.Component{Name: "", Value: rpc.NewServerIngestor()},
		linker.Component{Name: "", Value: s.sq},
		linker.Component{Name: "", Value: rpc.NewServerAdmin()},
		linker.Component{Name: "", Value: rpc.NewServerPipes()},
		linker.Component{Name: "", Value: rpc.NewServer()},
		linker.Component{Name: "", Value: ctrlr.NewJournalController()},
		linker.Component{Name: "", Value: s.prov},
		linker.Component{Name: "", Value: backend.NewAdmin()},
		linker.Component{Name: "", Value: s.bq},
	)
	defer func() {
		if r := recover(); r != nil {
			err = fmt.Errorf("init panic: %v", r)
		}
	}()
	inj.Init(s.ctx)
	s.inj = inj
	return nil
}

// abandon: the provider's lock may be held for ever (it panicked inside a locked region): no component is shut down
func (s *stack) abandon() {
	if s.stopped {
		return
	}
	s.stopped = true
	s.cancel()
	os.RemoveAll(s.dir)
}

// stop: what server.Start does when its context ends (cancel, Shutdown of every component in reverse order)
func (s *stack) stop() {
	if s.stopped {
		return
	}
	s.stopped = true
	if s.client != nil {
		s.client.Close()
	}
	s.cancel()
	if s.inj != nil {
		done := make(chan struct{})
		go func() {
			defer close(done)
			defer func() { recover() }()
			s.inj.Shutdown()
		}()
		select {
		case <-done:
		case <-time.After(e2eHang): // a component does not shut down: the scripts' own observations say why
		}
	}
	os.RemoveAll(s.dir)
}

// ---------------------------------------------------------------- observation of the partitions the cursors hold

type obsItf struct {
	real cursor.ItFactory
	x    *e2e
	mu   sync.Mutex
	net  map[string]int // journal name -> acquisitions minus releases made through this factory
	idx  map[string]int // journal name -> partition index (0..NP-1), -1 unknown

	faultIn     int // > 0: the faultIn-th Get from now fails
	faultCancel context.CancelFunc
	fired       bool
}

func partIndex(tl tag.Line) int {
	for i, n := range partNames {
		if strings.Contains(","+string(tl)+",", ",p="+n+",") {
			return i
		}
	}
	return -1
}

func (f *obsItf) got(name string, tl tag.Line) {
	f.mu.Lock()
	f.net[name]++
	if _, ok := f.idx[name]; !ok {
		f.idx[name] = partIndex(tl)
	}
	f.mu.Unlock()
}

func (f *obsItf) GetJournals(ctx context.Context, tc *lql.Source, maxLimit int) (map[tag.Line]journal.Journal, error) {
	res, err := f.real.GetJournals(ctx, tc, maxLimit)
	if err == nil {
		for tl, j := range res {
			f.got(j.Name(), tl)
		}
	}
	return res, err
}

func (f *obsItf) GetJournal(ctx context.Context, src string) (tag.Set, journal.Journal, error) {
	ts, j, err := f.real.GetJournal(ctx, src)
	if err == nil && j != nil {
		f.got(j.Name(), ts.Line())
	}
	return ts, j, err
}

func (f *obsItf) Itearator(j journal.Journal, tmRange *model.TimeRange) journal.Iterator {
	return &faultIt{Iterator: f.real.Itearator(j, tmRange), f: f}
}

// ---- fault injection: every journal iterator the cursors read through is a faultIt. Armed with k by the driver, the k-th
// Get from then on (on whichever iterator) does not reach the journal: it returns errReadFault (what a chunk read error
// looks like to the cursor), or - kind "cancel" - first cancels the context of the request the driver has just issued and
// returns context.Canceled (a request abandoned between two reads).

var errReadFault = fmt.Errorf("injected read fault: chunk could not be read")

type faultIt struct {
	journal.Iterator
	f *obsItf
}

func (it *faultIt) Get(ctx context.Context) (records.Record, error) {
	if err := it.f.fire(); err != nil {
		return nil, err
	}
	return it.Iterator.Get(ctx)
}

func (f *obsItf) arm(k int, cancel context.CancelFunc) {
	f.mu.Lock()
	f.faultIn, f.faultCancel, f.fired = k, cancel, false
	f.mu.Unlock()
}

// disarm returns whether the fault has fired since it was armed
func (f *obsItf) disarm() bool {
	f.mu.Lock()
	defer f.mu.Unlock()
	f.faultIn, f.faultCancel = 0, nil
	return f.fired
}

func (f *obsItf) fire() error {
	f.mu.Lock()
	defer f.mu.Unlock()
	if f.faultIn <= 0 {
		return nil
	}
	f.faultIn--
	if f.faultIn > 0 {
		return nil
	}
	f.fired = true
	if f.faultCancel != nil {
		f.faultCancel()
		f.faultCancel = nil
		return context.Canceled
	}
	return errReadFault
}

// Release: a partition handed back more often than it was acquired is recorded and NOT passed on (the real
// tindex panics "was not acquired" with its lock held, or silently consumes another holder's acquisition)
func (f *obsItf) Release(jn string) {
	f.mu.Lock()
	if f.net[jn] <= 0 {
		f.mu.Unlock()
		f.x.fail("e2e-partition-over-released", fmt.Sprintf("partition %s (journal %s) released although the cursors hold no acquisition of it", f.partName(jn), jn))
		return
	}
	f.net[jn]--
	f.mu.Unlock()
	f.real.Release(jn)
}

func (f *obsItf) partName(jn string) string {
	if i, ok := f.idx[jn]; ok && i >= 0 {
		return partNames[i]
	}
	return "?"
}

func (f *obsItf) counts() []int64 {
	f.mu.Lock()
	defer f.mu.Unlock()
	r := make([]int64, NP)
	for jn, n := range f.net {
		if i, ok := f.idx[jn]; ok && i >= 0 {
			r[i] += int64(n)
		}
	}
	return r
}

// ---------------------------------------------------------------- observation of the provider's callers

// obsCur is what a querier gets from GetOrCreate: the real cursor, plus the watch "not touched after Release"
type obsCur struct {
	cursor.Cursor
	w        *obsProv
	req      *e2eReq
	released int32
	fault    int32 // a Get of this request returned an error other than io.EOF
	dead     int32 // the provider closed the cursor under this request (recorded): nothing is passed on to it any more
	nexts    int32 // Next() calls = records consumed
	offs     int32 // Offset(n) with n != 0 seen
	parkOnce sync.Once
}

// touch: false = the cursor was released already (recorded; the call is not passed on to a cursor that may be closed)
func (c *obsCur) touch(what string) bool {
	if atomic.LoadInt32(&c.dead) != 0 {
		return false
	}
	if atomic.LoadInt32(&c.released) != 0 {
		c.w.x.fail("e2e-use-after-release", fmt.Sprintf("request %d: %s on its cursor after it was released", c.req.r, what))
		return false
	}
	return true
}
func (c *obsCur) Next(ctx context.Context) {
	if c.touch("Next") {
		atomic.AddInt32(&c.nexts, 1)
		c.Cursor.Next(ctx)
	}
}
func (c *obsCur) Get(ctx context.Context) (model.LogEvent, tag.Line, error) {
	if !c.touch("Get") {
		return model.LogEvent{}, tag.EmptyLine, io.EOF
	}
	le, tl, err := c.Cursor.Get(ctx)
	if err != nil && err != io.EOF {
		atomic.StoreInt32(&c.fault, 1) // the read failed (an injected fault, unless the implementation has one of its own)
	}
	return le, tl, err
}
func (c *obsCur) Offset(ctx context.Context, offs int) {
	if !c.touch("Offset") {
		return
	}
	if offs != 0 {
		atomic.StoreInt32(&c.offs, 1)
	}
	c.Cursor.Offset(ctx, offs)
}
func (c *obsCur) WaitNewData(ctx context.Context) error {
	if !c.touch("WaitNewData") {
		return fmt.Errorf("released")
	}
	c.parkOnce.Do(func() { close(c.req.parked) })
	return c.Cursor.WaitNewData(ctx)
}

type pevent struct {
	kind  string // get | release | gate | op
	req   *e2eReq
	over  string // get/gate: "" (holds a cursor) or the Gallina qout of the answer
	fresh uint64 // get: the id of the cursor if the provider drew it
	k     int    // release
	id    uint64 // release: State.Id
	pos   string // release: State.Pos
	offs  bool   // release: Offset was used
	fault bool   // release: the reading loop ended on a read fault
	op    string // op: the Gallina op
	snap  string
}

type obsProv struct {
	real cursor.Provider
	x    *e2e
	mu   sync.Mutex
	cur  *e2eReq // the request whose GetOrCreate comes next
	prep bool    // the harness's own queries before the script starts: watched by the oracle, not part of the history
	out  map[cursor.Cursor]*obsCur
	log  []*pevent
	seen int // log entries the driver has absorbed
}

func (w *obsProv) GetOrCreate(ctx context.Context, state cursor.State, cache bool) (res cursor.Cursor, err error) {
	w.mu.Lock()
	defer w.mu.Unlock()
	if atomic.LoadInt32(&w.x.dead) != 0 {
		return nil, fmt.Errorf("the script is over")
	}
	rq := w.cur
	w.cur = nil
	if rq == nil && w.prep {
		c, err := w.real.GetOrCreate(ctx, state, cache)
		if err != nil {
			return nil, err
		}
		return &obsCur{Cursor: c, w: w, req: &e2eReq{r: -1, parked: make(chan struct{})}}, nil
	}
	if rq == nil {
		last := "none"
		for i := len(w.log) - 1; i >= 0; i-- {
			if w.log[i].kind == "get" {
				lr := w.log[i].req
				last = fmt.Sprintf("request %d via %s ReqId %d q %d pos %q wait %d %s", lr.r, lr.via, lr.ReqId, lr.q, lr.posStr, lr.wait, lr.special)
				break
			}
		}
		w.x.fail("e2e-unexpected-get", fmt.Sprintf("GetOrCreate(%v, cache=%v) that belongs to no request of the script (the last one served: %s)", state, cache, last))
		return w.real.GetOrCreate(ctx, state, cache)
	}
	ev := &pevent{kind: "get", req: rq}
	var c cursor.Cursor
	if !w.x.call("get", func() { c, err = w.real.GetOrCreate(ctx, state, cache) }) {
		c, err = nil, fmt.Errorf("GetOrCreate panicked or did not return")
	}
	rq.cacheSeen = cache
	if want := rq.srvWait() > 0 || rq.srvLimit() > 10000; want != cache {
		w.x.fail("e2e-cache-decision", fmt.Sprintf("request %d (%s, WaitTimeout %d, Limit %d): GetOrCreate was called with cache=%v", rq.r, rq.via, rq.srvWait(), rq.srvLimit(), cache))
	}
	switch {
	case err != nil && strings.Contains(err.Error(), "concurrent request"):
		ev.over = "QoRefused"
	case err != nil:
		ev.over = "QoErr"
	default:
		oc := &obsCur{Cursor: c, w: w, req: rq}
		if !cursor.VC15IsEmptyCursor(c) {
			if prev := w.out[c]; prev != nil {
				w.x.fail("e2e-shared-use", fmt.Sprintf("request %d (ReqId %d) was handed the cursor request %d (ReqId %d) is still using", rq.r, rq.ReqId, prev.req.r, prev.req.ReqId))
			}
			w.out[c] = oc
			if c.Id() != rq.ReqId {
				ev.fresh = c.Id()
			}
			rq.curId = c.Id()
		}
		rq.oc = oc
		res = oc
		if !cursor.VC15IsEmptyCursor(c) {
			w.x.curQ[c.Id()] = rq.q
		}
	}
	rq.overAtGet = ev.over
	w.inUseIntact()
	ev.snap = w.x.snapshot()
	w.log = append(w.log, ev)
	close(rq.got)
	return res, err
}

// inUseIntact (w.mu held): no cursor a request is using has been closed (crsr.String shows the number of open journal
// descriptors). A closed one is recorded and cut off from its user, who would otherwise run into a nil iterator.
func (w *obsProv) inUseIntact() {
	if atomic.LoadInt32(&w.x.dead) != 0 {
		return
	}
	for c, oc := range w.out {
		if atomic.LoadInt32(&oc.dead) == 0 && strings.HasPrefix(fmt.Sprint(c), "{descs:0,") {
			atomic.StoreInt32(&oc.dead, 1)
			w.x.fail("e2e-closed-while-in-use", fmt.Sprintf("the cursor (id %d) request %d (%s, ReqId %d) is using has been closed", oc.req.curId, oc.req.r, oc.req.via, oc.req.ReqId))
		}
	}
}

func (w *obsProv) Release(ctx context.Context, curs cursor.Cursor) (st cursor.State) {
	w.mu.Lock()
	defer w.mu.Unlock()
	if atomic.LoadInt32(&w.x.dead) != 0 {
		return cursor.State{}
	}
	oc, ok := curs.(*obsCur)
	if !ok {
		w.x.fail("e2e-foreign-release", "Release of a cursor GetOrCreate did not return")
		return w.real.Release(ctx, curs)
	}
	if !atomic.CompareAndSwapInt32(&oc.released, 0, 1) {
		// not passed on: the provider would panic ("not busy") or mark idle a cursor another request has got meanwhile
		w.x.fail("e2e-released-twice", fmt.Sprintf("request %d released its cursor (id %d) a second time", oc.req.r, oc.req.curId))
		return cursor.State{}
	}
	if oc.req.r < 0 {
		return w.real.Release(ctx, oc.Cursor)
	}
	if w.out[oc.Cursor] == oc {
		delete(w.out, oc.Cursor)
	}
	if atomic.LoadInt32(&oc.dead) == 0 {
		w.x.call("release", func() { st = w.real.Release(ctx, oc.Cursor) })
	}
	w.inUseIntact()
	ev := &pevent{kind: "release", req: oc.req, k: int(atomic.LoadInt32(&oc.nexts)), id: st.Id, pos: st.Pos, offs: atomic.LoadInt32(&oc.offs) != 0, fault: atomic.LoadInt32(&oc.fault) != 0}
	oc.req.relId, oc.req.relPos, oc.req.relK = st.Id, st.Pos, ev.k
	ev.snap = w.x.snapshot()
	w.log = append(w.log, ev)
	close(oc.req.released)
	return st
}

// ---------------------------------------------------------------- scripts

type E2EStep struct {
	Kind    string `json:"k"`             // req | wake | tick | sweepsize
	Via     string `json:"via,omitempty"` // rpc | backend
	ReqId   string `json:"id,omitempty"`  // "0" | chain:<n> (the id the n-th answered request returned) | busy (id of a waiting request) | <number>
	Q       int    `json:"q,omitempty"`
	Pos     string `json:"pos,omitempty"` // head | Head | HEAD | tail | Tail | TAIL | bad | last | old
	Limit   int    `json:"limit,omitempty"`
	Wait    int    `json:"wait,omitempty"`
	Offset  int    `json:"offs,omitempty"`
	Special string `json:"sp,omitempty"`    // disconnect | cancel
	Fault   int    `json:"fault,omitempty"` // > 0: the Fault-th read of a record fails ...
	FaultK  string `json:"fk,omitempty"`    // ... err: with a read error; cancel: because the request's context is cancelled there (backend)
	Part    int    `json:"part,omitempty"`
	N       int    `json:"n,omitempty"` // tick: hours
}

type E2EReplay struct {
	Kind  string    `json:"kind"` // e2e
	Name  string    `json:"name,omitempty"`
	Seed  uint64    `json:"seed"`
	Max   int       `json:"max"`
	End   string    `json:"end"` // sweep | stop | cancel-stop
	Steps []E2EStep `json:"steps,omitempty"`
}

type e2eReq struct {
	r          int
	via        string
	ReqId      uint64
	q          int
	posKind    string // head | tail | bad | at
	posNum     uint64 // at: the model's number of the position
	posStr     string
	limit      int
	wait       int
	offset     int
	got        chan struct{} // GetOrCreate returned
	parked     chan struct{} // WaitNewData entered
	released   chan struct{} // Release returned
	done       chan struct{} // the answer arrived (or the call failed)
	cacheSeen  bool
	oc         *obsCur
	curId      uint64
	res        *api.QueryResult
	callErr    error
	cancel     context.CancelFunc
	client     *rpc.Client
	startKnown bool   // the model number of the start position is known
	special    string // disconnect | cancel
	relId      uint64 // what Release returned
	relPos     string
	relK       int
	overAtGet  string
}

type chain struct {
	q       int
	count   uint64 // records from head at the cursor's position, if known
	known   bool
	last    string
	history []histPos
}
type histPos struct {
	s string
	n uint64
}

type e2e struct {
	rp      *E2EReplay
	st      *stack
	w       *obsProv
	itf     *obsItf
	mu      sync.Mutex
	viol    *Violation
	tags    map[string]bool
	nreq    int
	waiters []*e2eReq
	chains  map[uint64]*chain
	order   []uint64 // chain ids in the order they appeared
	curQ    map[uint64]int
	items   []string
	nextTs  int64
	written [NP]int
	nontriv bool
	abortCh chan struct{} // closed with the first violation
	dead    int32         // the provider panicked: hands off
	broken  bool          // the implementation failed before the script could start
}

func (x *e2e) violation() *Violation {
	x.mu.Lock()
	defer x.mu.Unlock()
	return x.viol
}

// fail records the first violation and ends the script: nothing is waited for any more. After a panic inside the provider
// (its lock may be left locked) the provider is not touched again at all.
func (x *e2e) fail(class, detail string) {
	x.mu.Lock()
	if x.viol == nil {
		x.viol = &Violation{Class: class, Detail: detail}
		close(x.abortCh)
	}
	if strings.HasPrefix(class, "e2e-panic") || strings.HasPrefix(class, "e2e-hang") {
		atomic.StoreInt32(&x.dead, 1)
	}
	x.mu.Unlock()
}

const e2eHang = 25 * time.Second

// call runs one interaction with the provider (or a hook that walks its ring) under a watchdog: a panic or a call that
// does not come back (a corrupted ring is walked for ever, a lock was left locked) is a verdict, and the end of the script
func (x *e2e) call(what string, f func()) bool {
	if atomic.LoadInt32(&x.dead) != 0 {
		return false
	}
	done := make(chan interface{}, 1)
	go func() {
		defer func() { done <- recover() }()
		f()
	}()
	tm := time.NewTimer(e2eHang)
	defer tm.Stop()
	select {
	case pv := <-done:
		if pv != nil {
			x.fail("e2e-panic:"+what, fmt.Sprint(pv))
			return false
		}
		return true
	case <-tm.C:
		x.fail("e2e-hang:"+what, fmt.Sprintf("%s did not come back within %v", what, e2eHang))
		return false
	}
}

func (x *e2e) aborted() bool {
	select {
	case <-x.abortCh:
		return true
	default:
		return false
	}
}

func (x *e2e) tag(t string) {
	x.mu.Lock()
	x.tags[t] = true
	x.mu.Unlock()
}

func (x *e2e) snapshot() string {
	if atomic.LoadInt32(&x.dead) != 0 {
		return GNone
	}
	var ids []uint64
	if !x.call("cached-ids", func() { ids = cursor.VC15CachedIds(x.st.prov) }) {
		return GNone
	}
	idl := make([]string, len(ids))
	for i, id := range ids {
		idl[i] = GN(id)
	}
	return GSome(GPair(GList(idl), GListZ(x.itf.counts())))
}

const e2eIdle, e2eBusy = 3, 7 // hours, like the scripts of the other streams

func newE2E(rp *E2EReplay) (*e2e, error) {
	st, err := startStack()
	if err != nil {
		return nil, err
	}
	x := &e2e{rp: rp, st: st, abortCh: make(chan struct{}), tags: map[string]bool{}, chains: map[uint64]*chain{}, curQ: map[uint64]int{}, nextTs: 1000}
	// the data: every partition gets a few records, globally increasing timestamps (the merge order of a
	// multi-partition cursor is then a function of the number of records read)
	for round := 0; round < 3; round++ {
		for p := 0; p < NP; p++ {
			if err := x.write(p); err != nil {
				st.stop()
				return nil, err
			}
		}
	}
	// from here on the provider acquires its partitions through obsItf and the queriers reach it through obsProv
	x.itf = &obsItf{real: st.itf, x: x, net: map[string]int{}, idx: map[string]int{}}
	cursor.VC15Configure(st.prov, x.itf, rp.Max, e2eIdle*unit, e2eBusy*unit)
	x.w = &obsProv{real: st.prov, x: x, out: map[cursor.Cursor]*obsCur{}, prep: true}
	st.sq.CurProvider = x.w
	st.bq.CurProvider = x.w
	var pv interface{}
	ok := WaitFor(20*time.Second, func() (done bool) {
		defer func() {
			if p := recover(); p != nil {
				pv, done = p, true
			}
		}()
		for p := 0; p < NP; p++ {
			res, err := st.bq.Query(context.Background(), &api.QueryRequest{Query: "select from p=" + partNames[p] + " limit 100", Limit: 100})
			if (err != nil && err != io.EOF) || res == nil || len(res.Events) != x.written[p] {
				return false
			}
		}
		return true
	})
	x.w.mu.Lock()
	x.w.prep = false
	x.w.mu.Unlock()
	if pv != nil {
		x.fail("e2e-panic:query", fmt.Sprintf("backend.Querier.Query(select from p=..., Limit 100) panicked: %v", pv))
		x.broken = true
		return x, nil
	}
	if !ok && x.violation() == nil {
		st.stop()
		return nil, fmt.Errorf("e2e: the records written at start did not become readable")
	}
	return x, nil
}

func (x *e2e) write(p int) error {
	x.nextTs++
	var wr api.WriteResult
	ev := &api.LogEvent{Timestamp: x.nextTs, Message: fmt.Sprintf("m%d", x.nextTs)}
	fields := ""
	if x.nextTs%3 == 0 {
		fields = fmt.Sprintf("f=v%d", x.nextTs%2) // some records carry fields (the queriers cache the rendered field string)
	}
	if err := x.st.client.Write(context.Background(), partTags[p], fields, []*api.LogEvent{ev}, &wr); err != nil {
		return err
	}
	if wr.Err != nil {
		return wr.Err
	}
	x.written[p]++
	return nil
}

// ---------------------------------------------------------------- the driver

const e2eDeadline = 30 * time.Second

// srvWait, srvLimit: what the querier sees. Over rpc WaitTimeout travels as uint16 and Limit as uint32 (api/rpc/encoder.go):
// a negative limit arrives as a huge one and is clipped, ServerQuerier's "limit is negative" exit is never taken
func (rq *e2eReq) srvWait() int {
	if rq.via == "rpc" {
		return int(uint16(rq.wait))
	}
	return rq.wait
}
func (rq *e2eReq) srvLimit() int {
	if rq.via == "rpc" {
		return int(uint32(rq.limit))
	}
	return rq.limit
}

func gReq(rq *e2eReq, fresh uint64) string {
	pos := "PHead"
	switch rq.posKind {
	case "tail":
		pos = "PTail"
	case "bad":
		pos = "PBad"
	case "at":
		pos = GApp("PAt", GN(rq.posNum))
	}
	if fresh == 0 {
		fresh = 0xF0000000 + uint64(rq.r)
	}
	return GApp("mkq", GZ(int64(rq.srvWait())), GZ(int64(rq.srvLimit())), GN(rq.ReqId), GN(uint64(rq.q)), gQres(rq.q), pos, GN(fresh))
}

// absorb turns the provider calls logged since the last time into items of the K case and keeps the books on
// the positions the server returned (which model number stands for which position string)
func (x *e2e) absorb() {
	x.w.mu.Lock()
	defer x.w.mu.Unlock()
	for ; x.w.seen < len(x.w.log); x.w.seen++ {
		ev := x.w.log[x.w.seen]
		switch ev.kind {
		case "get", "gate":
			over := GNone
			if ev.over != "" {
				over = GSome(ev.over)
			}
			sn := ev.snap
			if sn == "" {
				sn = GNone
			}
			x.items = append(x.items, GApp("QStart", GNat(ev.req.r), GBool(ev.req.via == "rpc"), gReq(ev.req, ev.fresh), over, sn))
			if ev.over == "QoRefused" {
				x.tags["e2e-refused"] = true
				x.nontriv = true
			}
		case "release":
			rq := ev.req
			end := "REnd"
			if ev.fault {
				end = "RFault"
				x.tags["e2e-read-fault"] = true
				x.nontriv = true
			}
			x.items = append(x.items, GApp("QFinish", GNat(rq.r), GN(uint64(ev.k)), end, GApp("QoOk", GN(ev.id)), ev.snap))
			if ev.id != 0 {
				ch := x.chains[ev.id]
				if ch == nil {
					ch = &chain{}
					x.chains[ev.id] = ch
					x.order = append(x.order, ev.id)
				}
				if ev.id == rq.ReqId {
					x.tags["e2e-continued"] = true
					x.nontriv = true
				}
				ch.q = rq.q
				ch.last = ev.pos
				ch.known = rq.startKnown && !ev.offs
				if ch.known {
					start := uint64(0)
					if rq.posKind == "at" {
						start = rq.posNum
					}
					ch.count = start + uint64(ev.k)
					ch.history = append(ch.history, histPos{ev.pos, ch.count})
				}
			}
		case "op":
			x.items = append(x.items, GApp("QOp", ev.op, ev.snap))
		}
	}
}

func (x *e2e) logOp(op string, f func()) {
	x.w.mu.Lock()
	x.call(op, f)
	x.w.inUseIntact()
	x.w.log = append(x.w.log, &pevent{kind: "op", op: op, snap: x.snapshot()})
	x.w.mu.Unlock()
}

func (x *e2e) resolveId(sym string) uint64 {
	switch {
	case sym == "" || sym == "0":
		return 0
	case sym == "busy":
		for _, wq := range x.waiters {
			if wq.curId != 0 {
				return wq.curId
			}
		}
		if len(x.order) > 0 {
			return x.order[len(x.order)-1]
		}
		return 0
	case strings.HasPrefix(sym, "chain:"):
		var n int
		fmt.Sscanf(sym[6:], "%d", &n)
		if len(x.order) == 0 {
			return 0
		}
		return x.order[n%len(x.order)]
	}
	var v uint64
	fmt.Sscanf(sym, "%d", &v)
	return v
}

// chainFor: whose returned positions a request with this id and query may name
func (x *e2e) chainFor(id uint64, q int) *chain {
	if ch := x.chains[id]; ch != nil && ch.q == q && ch.known {
		return ch
	}
	if id == 0 {
		for _, cid := range x.order {
			if ch := x.chains[cid]; ch.q == q && ch.known {
				return ch
			}
		}
	}
	return nil
}

func (x *e2e) doReq(s E2EStep) error {
	x.absorb()
	rq := &e2eReq{r: x.nreq, via: s.Via, q: s.Q, limit: s.Limit, wait: s.Wait, offset: s.Offset, special: s.Special,
		got: make(chan struct{}), parked: make(chan struct{}), released: make(chan struct{}), done: make(chan struct{})}
	x.nreq++
	rq.ReqId = x.resolveId(s.ReqId)
	rq.posKind, rq.startKnown = "head", true
	switch s.Pos {
	case "head", "Head", "HEAD":
		rq.posStr = s.Pos // "" and any spelling of "head" are the same corner position (applyCornerPos lower-cases)
		if s.Pos == "head" && s.Q%2 == 0 {
			rq.posStr = ""
		}
	case "TAIL", "Tail":
		rq.posKind, rq.posStr, rq.startKnown = "tail", s.Pos, false
	case "tail":
		rq.posKind, rq.posStr, rq.startKnown = "tail", "tail", false
	case "bad":
		rq.posKind, rq.posStr, rq.startKnown = "bad", "not-a-position", false
	case "last", "old":
		if ch := x.chainFor(rq.ReqId, s.Q); ch != nil {
			hp := histPos{ch.last, ch.count}
			if s.Pos == "old" {
				for i := len(ch.history) - 1; i >= 0; i-- {
					if ch.history[i].n != ch.count {
						hp = ch.history[i]
						break
					}
				}
			}
			rq.posKind, rq.posStr, rq.posNum = "at", hp.s, hp.n
		}
	}
	x.w.mu.Lock()
	x.w.cur = rq
	x.w.mu.Unlock()
	if s.Fault > 0 {
		defer func() {
			if x.itf.disarm() {
				x.tag("e2e-fault-fired:" + s.FaultK)
			}
		}()
	}
	req := &api.QueryRequest{ReqId: rq.ReqId, Query: queries[s.Q].Text, Pos: rq.posStr, Limit: s.Limit, WaitTimeout: s.Wait, Offset: s.Offset}
	ctx, cancel := context.WithTimeout(context.Background(), e2eDeadline)
	rq.cancel = cancel
	if s.Fault > 0 {
		if s.FaultK == "cancel" && s.Via == "backend" {
			x.itf.arm(s.Fault, cancel)
		} else {
			x.itf.arm(s.Fault, nil)
		}
	}
	if s.Via == "rpc" {
		cl, err := rpc.NewClient(transport.Config{ListenAddr: x.st.addr})
		if err != nil {
			cancel()
			return err
		}
		rq.client = cl
		go func() {
			defer close(rq.done)
			var res api.QueryResult
			rq.callErr = cl.Query(ctx, req, &res)
			rq.res = &res
			cl.Close()
		}()
	} else {
		go func() {
			defer close(rq.done)
			defer func() {
				if pv := recover(); pv != nil {
					x.fail("e2e-panic:query", fmt.Sprint(pv))
					rq.callErr = fmt.Errorf("panic: %v", pv)
				}
			}()
			res, err := x.st.bq.Query(ctx, req)
			if res == nil {
				res = &api.QueryResult{}
			}
			if err == io.EOF {
				err = nil // backend.Querier reports the end of the data this way, next to the result
			}
			res.Err = err
			rq.res = res
		}()
	}
	tm := time.NewTimer(e2eDeadline)
	defer tm.Stop()
	select {
	case <-rq.got:
	case <-rq.done:
		select {
		case <-rq.got:
		default:
			// answered without a call to the provider
			x.w.mu.Lock()
			x.w.cur = nil
			over := "QoEmpty"
			if rq.callErr != nil {
				x.w.mu.Unlock()
				cancel()
				return fmt.Errorf("e2e: the rpc call failed: %v", rq.callErr)
			}
			if rq.res.Err != nil {
				over = "QoRejected"
			}
			x.w.log = append(x.w.log, &pevent{kind: "gate", req: rq, over: over})
			x.w.mu.Unlock()
			x.tag("e2e-gate")
			cancel()
			return nil
		}
	case <-x.abortCh:
		return nil
	case <-tm.C:
		return x.never(rq, "neither reached the provider nor was answered")
	}
	if rq.overAtGet != "" {
		// GetOrCreate failed: the answer must be an error
		select {
		case <-rq.done:
		case <-x.abortCh:
			return nil
		case <-tm.C:
			return x.never(rq, "was not answered")
		}
		cancel()
		if rq.callErr == nil && rq.res != nil && rq.res.Err == nil {
			x.fail("e2e-answer-mismatch", fmt.Sprintf("request %d: GetOrCreate failed but the answer carries no error", rq.r))
		}
		return nil
	}
	select {
	case <-rq.released:
		return x.finished(rq, tm)
	case <-rq.done:
		select {
		case <-rq.released:
			return x.finished(rq, tm)
		default:
		}
		cancel()
		x.fail("e2e-cursor-left-busy", fmt.Sprintf("request %d (%s, ReqId %d, Limit %d, WaitTimeout %d) was answered without releasing its cursor (id %d)", rq.r, rq.via, rq.ReqId, rq.limit, rq.wait, rq.curId))
		return nil
	case <-rq.parked:
		x.waiters = append(x.waiters, rq)
		x.tag("e2e-waited")
		x.nontriv = true
		switch s.Special {
		case "disconnect":
			// the client gives up: its call ends with the context, api/rpc.Client.Query then closes the connection while the
			// server still waits. (Not rq.client.Close() from here: the rrpc client's Close flushes its write buffer without
			// the write lock, and a Close racing with the end of the sender's own Flush puts the request on the wire twice.)
			rq.cancel()
			x.tag("e2e-disconnect")
		case "cancel":
			rq.cancel()
			x.tag("e2e-cancel")
		}
	case <-x.abortCh:
		return nil
	case <-tm.C:
		return x.never(rq, "got a cursor and then neither released it nor waited")
	}
	return nil
}

// never: a request that does not get anywhere within the deadline is a verdict (the script ends)
func (x *e2e) never(rq *e2eReq, what string) error {
	x.fail("e2e-request-never-finished", fmt.Sprintf("request %d (%s, ReqId %d, query %q, Pos %q, Limit %d, WaitTimeout %d) %s within %v", rq.r, rq.via, rq.ReqId, queries[rq.q].Text, rq.posStr, rq.limit, rq.wait, what, e2eDeadline))
	return nil
}

// finished: the request has released its cursor; its answer (if anybody is still listening) must say what Release said
func (x *e2e) finished(rq *e2eReq, tm *time.Timer) error {
	select {
	case <-rq.done:
	case <-x.abortCh:
		return nil
	case <-tm.C:
		return x.never(rq, "released its cursor but was not answered")
	}
	rq.cancel()
	if rq.special != "" || rq.callErr != nil || rq.res == nil {
		return nil
	}
	if rq.oc != nil && atomic.LoadInt32(&rq.oc.fault) != 0 {
		// the reading loop ended on a read fault: the cursor was released (we are here), the answer is the error
		if rq.res.Err == nil {
			x.fail("e2e-answer-mismatch", fmt.Sprintf("request %d: a read failed with an error other than EOF, the answer carries no error", rq.r))
		}
		return nil
	}
	if rq.res.Err != nil {
		if rq.via == "backend" && (strings.Contains(rq.res.Err.Error(), "context") || strings.Contains(rq.res.Err.Error(), "deadline")) {
			return nil
		}
		x.fail("e2e-answer-mismatch", fmt.Sprintf("request %d released its cursor normally but the answer is the error %v", rq.r, rq.res.Err))
		return nil
	}
	nq := rq.res.NextQueryRequest
	if nq.ReqId != rq.relId || nq.Pos != rq.relPos || len(rq.res.Events) != rq.relK {
		x.fail("e2e-answer-mismatch", fmt.Sprintf("request %d: Release returned id %d pos %q after %d records, the answer says id %d pos %q with %d records", rq.r, rq.relId, rq.relPos, rq.relK, nq.ReqId, nq.Pos, len(rq.res.Events)))
	}
	return nil
}

// reap waits (up to d) for the parked requests for which want() holds to release their cursors
func (x *e2e) reap(d time.Duration, want func(*e2eReq) bool) error {
	end := time.Now().Add(d)
	var rest []*e2eReq
	for _, rq := range x.waiters {
		if !want(rq) {
			rest = append(rest, rq)
			continue
		}
		left := time.Until(end)
		if left < 50*time.Millisecond {
			left = 50 * time.Millisecond
		}
		tm := time.NewTimer(left)
		answered := rq.done
		if rq.special != "" {
			answered = nil // the client has gone: the end of its call says nothing about the server
		}
		select {
		case <-rq.released:
			tm.Reset(e2eDeadline)
			if err := x.finished(rq, tm); err != nil {
				tm.Stop()
				return err
			}
		case <-answered:
			select {
			case <-rq.released:
				tm.Reset(e2eDeadline)
				if err := x.finished(rq, tm); err != nil {
					tm.Stop()
					return err
				}
			default:
				x.fail("e2e-cursor-left-busy", fmt.Sprintf("request %d (%s, ReqId %d, Limit %d, WaitTimeout %d) was answered after its wait without releasing its cursor (id %d)", rq.r, rq.via, rq.ReqId, rq.limit, rq.wait, rq.curId))
			}
		case <-x.abortCh:
			rest = append(rest, rq)
		case <-tm.C:
			rest = append(rest, rq)
		}
		tm.Stop()
	}
	x.waiters = rest
	return nil
}

func (x *e2e) cursorQuery(id uint64) (int, bool) {
	x.w.mu.Lock()
	defer x.w.mu.Unlock()
	q, ok := x.curQ[id]
	return q, ok
}

func hasPart(q, p int) bool {
	for _, v := range queries[q].Parts {
		if v == p {
			return true
		}
	}
	return false
}

func (x *e2e) tooLate() bool { return time.Since(x.st.started) > 20*time.Second }

func (x *e2e) exec(s E2EStep) error {
	if x.aborted() {
		return nil
	}
	switch s.Kind {
	case "req":
		return x.doReq(s)
	case "wake":
		if err := x.write(s.Part); err != nil {
			return err
		}
		x.tag("e2e-wake")
		return x.reap(3*time.Second, func(rq *e2eReq) bool { return hasPart(rq.q, s.Part) && rq.special == "" })
	case "tick":
		if x.tooLate() {
			return nil
		}
		x.w.mu.Lock()
		x.call("advance", func() { cursor.VC15Advance(x.st.prov, time.Duration(s.N)*unit) })
		x.w.log = append(x.w.log, &pevent{kind: "op", op: GApp("OTick", GZ(int64(s.N))), snap: x.snapshot()})
		x.w.mu.Unlock()
		x.logOp("OSweepTime", func() { cursor.VC15SweepByTime(x.st.prov) })
	case "sweepsize":
		if x.tooLate() {
			return nil
		}
		x.logOp("OSweepSize", func() { cursor.VC15SweepBySize(x.st.prov) })
	}
	return nil
}

// quiesced: no request is in flight. Nothing may be busy, the cache map and the ring agree, and every acquisition of a
// partition is explained by a cached cursor; final: nothing at all is left
func (x *e2e) quiesced(final bool) {
	x.w.mu.Lock()
	defer x.w.mu.Unlock()
	for _, oc := range x.w.out {
		x.fail("e2e-cursor-left-busy", fmt.Sprintf("request %d (%s, ReqId %d) has been answered but never released its cursor (id %d)", oc.req.r, oc.req.via, oc.req.ReqId, oc.req.curId))
		break
	}
	var ids []uint64
	var nm, nb int
	if !x.call("sizes", func() {
		ids = cursor.VC15CachedIds(x.st.prov)
		nm, nb, _, _ = cursor.VC15Sizes(x.st.prov)
	}) {
		return
	}
	if nm != nb || nm != len(ids) {
		x.fail("e2e-cache-inconsistent", fmt.Sprintf("len(curs)=%d ring=%d", nm, nb))
	}
	want := make([]int64, NP)
	for _, id := range ids {
		q, ok := x.curQ[id]
		if !ok {
			x.fail("e2e-cache-inconsistent", fmt.Sprintf("id %d is cached but no request was given a cursor with that id", id))
			continue
		}
		for _, p := range queries[q].Parts {
			want[p]++
		}
	}
	have := x.itf.counts()
	for p := range want {
		if want[p] != have[p] {
			x.fail("e2e-acquisitions-unexplained", fmt.Sprintf("partition %s is acquired %d times by cursors, the cached cursors %v explain %d", partNames[p], have[p], ids, want[p]))
		}
	}
	if !x.st.stopped {
		for _, row := range tindex.VC14Snapshot(x.st.tindex) {
			if p := partIndex(tag.Line(row.Tags)); p >= 0 && int64(row.Readers) != have[p] {
				x.fail("e2e-tindex-readers", fmt.Sprintf("the index counts %d readers of partition %s, the cursors hold %d acquisitions", row.Readers, partNames[p], have[p]))
			}
		}
	}
	if final {
		for p := range have {
			if have[p] != 0 || len(ids) != 0 {
				x.fail("e2e-leak-at-quiescence", fmt.Sprintf("still cached %v, partition %s still acquired %d times", ids, partNames[p], have[p]))
				break
			}
		}
	}
}

func (x *e2e) finish() error {
	if x.aborted() {
		// a violation is on record: whoever still waits is sent home, nothing more is observed
		for _, rq := range x.waiters {
			rq.cancel()
		}
		if atomic.LoadInt32(&x.dead) != 0 {
			x.st.abandon()
		} else {
			x.st.stop()
		}
		x.absorb()
		return nil
	}
	all := func(*e2eReq) bool { return true }
	if x.rp.End == "cancel-stop" && len(x.waiters) > 0 {
		// the server's main context ends while requests wait: each gives its cursor back, then the components shut down
		x.tag("e2e-cancelled-waiters")
		x.st.cancel()
		for _, rq := range x.waiters {
			rq.special = "cancel"
			rq.cancel()
		}
	}
	if err := x.reap(e2eDeadline, all); err != nil {
		return err
	}
	if len(x.waiters) > 0 {
		rq := x.waiters[0]
		x.fail("e2e-request-never-finished", fmt.Sprintf("request %d (%s, ReqId %d, WaitTimeout %d) still holds its cursor %v after it started to wait", rq.r, rq.via, rq.ReqId, rq.wait, e2eDeadline))
		return nil
	}
	x.quiesced(false)
	if x.rp.End == "sweep" {
		big := 2 * (e2eIdle + e2eBusy + 1)
		x.w.mu.Lock()
		x.call("advance", func() { cursor.VC15Advance(x.st.prov, time.Duration(big)*unit) })
		x.w.log = append(x.w.log, &pevent{kind: "op", op: GApp("OTick", GZ(int64(big))), snap: x.snapshot()})
		x.w.mu.Unlock()
		x.logOp("OSweepTime", func() { cursor.VC15SweepByTime(x.st.prov) })
		x.quiesced(true)
		x.st.stop()
		x.absorb()
		return nil
	}
	x.st.stop()
	x.w.mu.Lock()
	x.w.log = append(x.w.log, &pevent{kind: "op", op: "OShutdown", snap: x.snapshot()})
	x.w.mu.Unlock()
	x.tag("e2e-shutdown")
	x.quiesced(true)
	x.absorb()
	return nil
}

// ---------------------------------------------------------------- generator

func (x *e2e) gen(r *Rng) E2EStep {
	v := r.Intn(100)
	switch {
	case v < 8 && len(x.waiters) > 0:
		w := x.waiters[r.Intn(len(x.waiters))]
		parts := queries[w.q].Parts
		if len(parts) > 0 {
			return E2EStep{Kind: "wake", Part: parts[r.Intn(len(parts))]}
		}
	case v < 18:
		return E2EStep{Kind: "tick", N: r.PickInt(2, 2, 4, 4, 6, 8)}
	case v < 22:
		return E2EStep{Kind: "sweepsize"}
	}
	s := E2EStep{Kind: "req", Via: r.PickStr("rpc", "backend")}
	switch w := r.Intn(100); {
	case w < 30:
		s.ReqId = "0"
	case w < 75:
		s.ReqId = fmt.Sprintf("chain:%d", r.Intn(8))
	case w < 90:
		s.ReqId = "busy"
	case w < 98:
		s.ReqId = fmt.Sprint(1000 + r.Intn(3))
	default:
		s.ReqId = "18446744073709551615" // the largest id
	}
	id := x.resolveId(s.ReqId)
	s.Q = r.PickInt(0, 0, 1, 2, 2, 3, 4, 8, 9, 10)
	if ch := x.chains[id]; ch != nil && !r.Chance(1, 7) {
		s.Q = ch.q
	} else if q, ok := x.cursorQuery(id); ok && !r.Chance(1, 7) {
		s.Q = q
	}
	if r.Chance(1, 14) {
		s.Q = r.PickInt(5, 7)
	}
	switch w := r.Intn(100); {
	case w < 50:
		s.Pos = "last"
	case w < 62:
		s.Pos = "old"
	case w < 86:
		s.Pos = r.PickStr("head", "head", "head", "Head", "HEAD")
	case w < 93:
		s.Pos = r.PickStr("tail", "tail", "TAIL", "Tail")
	default:
		s.Pos = "bad"
	}
	// around QueryMaxLimit; the ends of the types the limit travels in (over rpc a uint32: -1 and 2^32+3 arrive as 2^32-1 and 3)
	s.Limit = r.PickInt(1, 1, 2, 2, 3, 5, 0, 0, 9999, 10000, 10001, 20000, -1, 2147483647, 4294967299, 1<<40)
	s.Wait = r.PickInt(0, 0, 0, 0, 0, 1, 1, 1, -1, 61)
	if queries[s.Q].Kind != "parts" && s.Wait > 0 {
		// a waiting query over no partition never returns (emptyCur.WaitNewData returns at once, the querier's loop spins):
		// not this property's business, kept out of the stream
		s.Wait = 0
	}
	if len(x.waiters) >= 3 && s.Wait > 0 {
		s.Wait = 0
	}
	if r.Chance(1, 12) {
		s.Offset = r.PickInt(-2, -1, 1, 2, 1000, -1000) // +-1000: beyond the data in either direction
	}
	if queries[s.Q].Kind == "parts" && s.Limit != 0 && r.Chance(1, 6) {
		// a read fault in the middle of the page: the 1st..4th read of a record fails (a multi-partition cursor reads ahead
		// in every partition, so the fault may also hit the first record); backend: sometimes a cancelled context instead
		s.Fault = r.PickInt(1, 1, 2, 3, 4)
		s.FaultK = "err"
		if s.Via == "backend" && r.Chance(1, 3) {
			s.FaultK = "cancel"
		}
		s.Wait, s.Special = 0, ""
	}
	if s.Fault == 0 && s.Wait == 0 && s.Limit > 0 && s.Offset == 0 && queries[s.Q].Kind == "parts" && strings.EqualFold(s.Pos, "head") && r.Chance(1, 5) {
		// the largest wait the queriers accept; from the head there is a record to deliver, so the request does not wait
		s.Wait = 60
	}
	if s.Fault == 0 && s.Wait > 0 && s.Wait < 60 && r.Chance(1, 4) {
		if s.Via == "rpc" {
			s.Special = "disconnect"
		} else {
			s.Special = "cancel"
		}
	}
	return s
}

// e2eCorpus: fixed scripts that run first on every check
func e2eCorpus() []E2EReplay {
	req := func(via, id string, q int, pos string, limit, wait int) E2EStep {
		return E2EStep{Kind: "req", Via: via, ReqId: id, Q: q, Pos: pos, Limit: limit, Wait: wait}
	}
	fault := func(s E2EStep, k int, kind string) E2EStep {
		s.Fault, s.FaultK = k, kind
		return s
	}
	var res []E2EReplay
	for _, via := range []string{"backend", "rpc"} {
		// a read fault in the middle of a page, cursor not cached / cached (the id must be usable again at once) / on a hit
		res = append(res, E2EReplay{Kind: "e2e", Name: "read-fault-" + via, Max: 1000, End: "sweep", Steps: []E2EStep{
			fault(req(via, "0", 0, "head", 3, 0), 2, "err"),
			fault(req(via, "0", 2, "head", 10001, 0), 3, "err"),
			req(via, "chain:0", 2, "last", 10001, 0),
			fault(req(via, "chain:0", 2, "last", 10001, 0), 1, "err"),
			req(via, "chain:0", 2, "last", 2, 0),
			fault(req(via, "1000", 3, "head", 5, 1), 1, "err"),
			req(via, "1000", 3, "head", 5, 1),
		}})
	}
	// the boundaries of the exits before the provider is called and of the cache decision, the same through both queriers
	for _, via := range []string{"backend", "rpc"} {
		res = append(res, E2EReplay{Kind: "e2e", Name: "gate-boundaries-" + via, Max: 2, End: "sweep", Steps: []E2EStep{
			req(via, "0", 0, "head", 1, 60), req(via, "0", 0, "HEAD", 1, 61), req(via, "0", 1, "head", 1, -1),
			req(via, "0", 1, "head", 10000, 0), req(via, "0", 1, "head", 10001, 0), req(via, "0", 1, "Head", 9999, 0),
			req(via, "0", 2, "head", 0, 0), req(via, "0", 2, "head", 0, 1), req(via, "0", 2, "head", -1, 0),
			req(via, "0", 3, "head", 4294967299, 0), req(via, "0", 3, "TAIL", 2147483647, 0), req(via, "0", 4, "Tail", 1<<40, 0),
			req(via, "18446744073709551615", 4, "head", 2, 1), req(via, "18446744073709551615", 4, "last", 2, 1),
			req(via, "chain:0", 10, "last", 1, 0), req(via, "chain:0", 0, "last", 1, 1),
			{Kind: "sweepsize"}, {Kind: "tick", N: 4},
		}})
	}
	// requests that wait at the end of the data: the wait times out (1 s), is ended by a write, or meets a request for the
	// same id; each must end with its Release and an answer
	for _, via := range []string{"backend", "rpc"} {
		res = append(res, E2EReplay{Kind: "e2e", Name: "wait-" + via, Max: 1000, End: "sweep", Steps: []E2EStep{
			req(via, "0", 0, "tail", 5, 1), req(via, "busy", 0, "tail", 5, 1), req(via, "0", 2, "TAIL", 10001, 1),
			{Kind: "wake", Part: 1},
			req(via, "chain:0", 0, "last", 5, 1), {Kind: "tick", N: 2}, req(via, "chain:0", 0, "last", 5, 0),
		}})
	}
	// the request's context is cancelled between two reads (backend.Querier passes it down to every read)
	res = append(res, E2EReplay{Kind: "e2e", Name: "cancel-between-reads", Max: 1000, End: "stop", Steps: []E2EStep{
		fault(req("backend", "0", 1, "head", 3, 0), 2, "cancel"),
		fault(req("backend", "0", 3, "head", 20000, 0), 4, "cancel"),
		req("backend", "chain:0", 3, "last", 5, 0),
		fault(req("backend", "chain:0", 3, "head", 10000, 1), 2, "cancel"),
		req("backend", "chain:0", 3, "head", 2, 1),
	}})
	return res
}

func runE2E(rp E2EReplay, replay bool) (*Case, error) {
	r2 := rp
	x, err := newE2E(&r2)
	if err != nil {
		return nil, err
	}
	defer x.st.stop()
	if x.broken {
		return &Case{Coq: GApp("KQuery", GNat(rp.Max), GZ(e2eIdle), GZ(e2eBusy), GNat(NP), GList(nil)), Replay: &r2, NonTrivial: true, Oracle: x.violation(), Stream: "e2e", Key: fmt.Sprintf("e2e-%d-%s-%d", rp.Seed, rp.End, rp.Max)}, nil
	}
	if replay {
		for _, s := range rp.Steps {
			if err := x.exec(s); err != nil {
				return nil, err
			}
		}
	} else {
		r := NewRng(rp.Seed)
		n := r.PickInt(16, 24, 32)
		for i := 0; i < n && !x.tooLate(); i++ {
			s := x.gen(r)
			r2.Steps = append(r2.Steps, s)
			if err := x.exec(s); err != nil {
				return nil, err
			}
		}
	}
	if err := x.finish(); err != nil {
		return nil, err
	}
	coq := GApp("KQuery", GNat(rp.Max), GZ(e2eIdle), GZ(e2eBusy), GNat(NP), GList(x.items))
	var tags []string
	for t := range x.tags {
		tags = append(tags, t)
	}
	sort.Strings(tags)
	tags = append(tags, "e2e-end:"+rp.End)
	x.mu.Lock()
	v := x.viol
	x.mu.Unlock()
	return &Case{Coq: coq, Replay: &r2, NonTrivial: x.nontriv, Oracle: v, Tags: tags, Stream: "e2e", Key: fmt.Sprintf("e2e-%s%d-%s-%d", rp.Name, rp.Seed, rp.End, rp.Max)}, nil
}
