// C09 harness: TRUNCATE end to end on an in-process server. A case builds a store of 1-4 partitions
// (0-6 chunks each, small MaxChunkSize), parks readers, takes holds, runs `TRUNCATE DRYRUN ...` and then
// the same statement for real through Admin.Execute, and records: the report lines, what became of
// every partition (chunk list through GetParitionInfo = DESCRIBE PARTITION, content through a full
// read) and what the parked readers are delivered afterwards. K: the Coq model of Service.Truncate is
// evaluated on the observed layout; O: the property itself on the observations (oracle.go).
package main

import (
	"context"
	"fmt"
	"io"
	"os"
	"regexp"
	"sort"
	"strconv"
	"strings"
	"sync"
	"sync/atomic"
	"time"

	"github.com/logrange/logrange/api"
	. "verifharness/common"
)

const maxChunkSize = 100

type Ev struct {
	Ts  int64 `json:"t"`
	Len int   `json:"l"`
}

type PartSpec struct {
	Grp     string `json:"grp"`             // "a": selected by the source condition, "b": not
	Empty   bool   `json:"empty,omitempty"` // registered in the tag index, no data ever written
	Batches [][]Ev `json:"batches,omitempty"`
	Hold    int    `json:"hold,omitempty"`    // 1: somebody holds the partition during the runs, 2: exclusively locked
	Park    int    `json:"park,omitempty"`    // > 0: a reader consumes that many events and is parked before the run
	ParkRng bool   `json:"parkrng,omitempty"` // the parked reader's query has a RANGE (covering everything): it reads through partition.JIterator and the chunk selector instead of the journal iterator
	Fail    bool   `json:"fail,omitempty"`    // the journal controller cannot open this partition while the statements run (injected fault): the visitor skips it
	// QFail (with Hold 1): while the partition is held, a SELECT over it fails because its journal cannot be opened (GetJournals stops its
	// do-not-release visit there and gives back what it took): the holder's hold must still be there when TRUNCATE comes
	QFail bool `json:"qfail,omitempty"`
}

// selected by the statement: the source condition holds, the source is one the server can compile, the journal can be opened
func matched(ps PartSpec, p Params) bool {
	return (ps.Grp == "a" || p.SrcForm == "none") && !ps.Fail && p.BadSrc == ""
}

type Params struct {
	SrcForm string `json:"srcform"` // expr | tags
	Min     int64  `json:"min"`     // -1: not given
	Max     int64  `json:"max"`
	Before  int64  `json:"before"`
	BefText string `json:"beftext,omitempty"` // the literal used for BEFORE when not the nanosecond integer
	MaxDb   int64  `json:"maxdb"`
	BadSrc  string `json:"badsrc,omitempty"` // the source condition is one the parser accepts and the builder refuses: like | func | arity
	// how the numbers are written (the values above are what they denote): size literals with a unit ("1kB", "0.5KiB", "300B"),
	// keywords in lower case; SrcForm "none" = no source at all (every partition of the server is selected)
	MinText   string `json:"mintext,omitempty"`
	MaxText   string `json:"maxtext,omitempty"`
	MaxDbText string `json:"maxdbtext,omitempty"`
	Lower     bool   `json:"lower,omitempty"`
	// BefRaw: the statement carries BEFORE BefText, which denotes this instant <= 0 (a date before 1970): the code takes
	// OldestTs <= 0 as "not given" (Before stays -1 for the oracle), the model gets the value
	BefRaw *int64 `json:"befraw,omitempty"`
}

type Replay struct {
	Kind  string     `json:"kind"`
	Parts []PartSpec `json:"parts"`
	PSeed uint64     `json:"pseed"`            // parameters are drawn from this seed relative to the observed layout ...
	P     *Params    `json:"params,omitempty"` // ... unless given explicitly (corpus cases)
	Stmt  string     `json:"stmt,omitempty"`   // informational: the statement that was executed
	W     int        `json:"w,omitempty"`      // race: events the writer appends when deleteJournal asks for the lock
	// trunc: the real statement is executed a second time on what the first left (a repeated request)
	Repeat  bool   `json:"repeat,omitempty"`
	// trunc: the partitions are written, the server is stopped, the snapshot of the time index (cindex/cindex.dat) is taken away and the
	// server started again - the start after a crash: the time range of every chunk is what lightFill reads from its first and last record
	Blind bool `json:"blind,omitempty"`
	TsClass string `json:"tsclass,omitempty"` // informational: the part of the time axis the events are on
}

type ChunkObs struct {
	Id    uint64
	Size  int64
	Recs  int64
	MinTs int64
	MaxTs int64
	Ts    []int64
}

type PartObs struct {
	Exists bool
	Src    string
	Chunks []ChunkObs
	Events []int64
}

type Line struct {
	Key                                int
	ASize, DSize, ARecs, DRecs, Chunks int64
	Deleted                            bool
}

var caseCounter int64

const deadline = 30 * time.Second

type runner struct {
	srv  *Server
	ctx  context.Context
	dec  *tiDecor
	jdec *jcDecor
	tdec *tsDecor
	// the server fell over (an observed panic left one of its locks locked): the worker goes on with a fresh one
	broken bool
	// the rebuilder of this server is held on purpose (blind cases): do not wait for it
	noQuiesce bool
}

func atomicNext() int64 { return atomic.AddInt64(&caseCounter, 1) }

func tagsOf(vc int, i int, ps PartSpec) string {
	return fmt.Sprintf("vcase=%d,grp=%s,p=%d", vc, ps.Grp, i)
}

func (r *runner) readAll(vc, i int) ([]int64, string, error) {
	q := &api.QueryRequest{Query: fmt.Sprintf("SELECT FROM vcase=%d AND p=%d", vc, i), Limit: 10000}
	res, err := r.query(q)
	if err != nil {
		return nil, "", err
	}
	ts := make([]int64, len(res.Events))
	for k, e := range res.Events {
		ts[k] = e.Timestamp
	}
	return ts, res.NextQueryRequest.Pos, nil
}

// query runs a query through the backend; reaching the end of the data (io.EOF next to a result) is not an error
func (r *runner) query(q *api.QueryRequest) (*api.QueryResult, error) {
	res, err := r.srv.Querier.Query(r.ctx, q)
	if err == io.EOF && res != nil {
		err = nil
	}
	return res, err
}

// exec runs an admin statement; a panic inside the server is an observation, not a harness failure
func (r *runner) exec(q string) (out string, err error) {
	defer func() {
		if p := recover(); p != nil {
			err = fmt.Errorf("panic: %v", p)
		}
	}()
	return r.srv.Exec(q)
}

func dbg(a ...interface{}) {
	if os.Getenv("VERIF_DEBUG") != "" {
		fmt.Fprintln(os.Stderr, a...)
	}
}

func isNotFound(err error) bool {
	return err != nil && (strings.Contains(err.Error(), "not found") || strings.Contains(err.Error(), "no sources"))
}

// observe reads the chunk list and the content of a partition; waits until both agree on the number of records
func (r *runner) observe(vc, i int, ps PartSpec) (PartObs, error) {
	var po PartObs
	var lastErr error
	ok := WaitFor(deadline, func() bool {
		pi, err := r.srv.Partitions.GetParitionInfo(tagsOf(vc, i, ps))
		if isNotFound(err) {
			po = PartObs{}
			lastErr = nil
			return true
		}
		if err != nil {
			lastErr = err
			dbg("observe info", err)
			return false
		}
		evs, _, err := r.readAll(vc, i)
		if err != nil {
			lastErr = err
			dbg("observe read", err)
			return false
		}
		if uint64(len(evs)) != pi.Records {
			lastErr = fmt.Errorf("partition %d: %d records in the chunk list, %d read", i, pi.Records, len(evs))
			dbg(lastErr)
			return false
		}
		po = PartObs{Exists: true, Src: pi.JournalId, Events: evs}
		off := 0
		for _, c := range pi.Chunks {
			co := ChunkObs{Id: uint64(c.Id), Size: c.Size, Recs: int64(c.Records), MinTs: c.MinTs, MaxTs: c.MaxTs}
			co.Ts = evs[off : off+int(c.Records)]
			off += int(c.Records)
			po.Chunks = append(po.Chunks, co)
		}
		lastErr = nil
		return true
	})
	if !ok {
		return po, fmt.Errorf("observe: %v", lastErr)
	}
	return po, lastErr
}

func (r *runner) build(vc int, parts []PartSpec) error {
	for i, ps := range parts {
		tags := tagsOf(vc, i, ps)
		if ps.Empty {
			src, _, err := r.srv.TIndex.GetOrCreateJournal(tags)
			if err != nil {
				return err
			}
			r.srv.TIndex.Release(src)
			continue
		}
		total := 0
		for _, b := range ps.Batches {
			evs := make([]*api.LogEvent, len(b))
			for k, e := range b {
				m := fmt.Sprintf("e%d-", e.Ts)
				for len(m) < e.Len {
					m += "x"
				}
				evs[k] = &api.LogEvent{Timestamp: e.Ts, Message: m[:maxInt(e.Len, 1)]}
			}
			var wr api.WriteResult
			if err := r.srv.Client.Write(r.ctx, tags, "", evs, &wr); err != nil {
				return err
			}
			if wr.Err != nil {
				return wr.Err
			}
			total += len(b)
		}
		want := uint64(total)
		var lastErr error
		if !WaitFor(deadline, func() bool {
			pi, err := r.srv.Partitions.GetParitionInfo(tags)
			lastErr = err
			return err == nil && pi.Records == want
		}) {
			return fmt.Errorf("written events did not become visible: %v", lastErr)
		}
	}
	return nil
}

func maxInt(a, b int) int {
	if a > b {
		return a
	}
	return b
}

var lineRe = regexp.MustCompile(`^\s*(\d+) B\((\d+) B\)\s+([\d,]+)\(([\d,]+)\)\s+(\d+)\((YES|NO)\)\s+(\S.*)$`)
var pRe = regexp.MustCompile(`(?:^|,)p=(\d+)(?:,|$)`)
var affRe = regexp.MustCompile(`^(\d+) source\(s\) affected\.`)

func num(s string) int64 {
	v, _ := strconv.ParseInt(strings.Replace(s, ",", "", -1), 10, 64)
	return v
}

func parseReport(out string) ([]Line, error) {
	var ls []Line
	affected := -1
	for _, l := range strings.Split(out, "\n") {
		t := strings.TrimSpace(l)
		if t == "" || strings.HasPrefix(t, "SIZE(diff)") || strings.HasPrefix(t, "-----") {
			continue
		}
		if m := affRe.FindStringSubmatch(t); m != nil {
			affected = int(num(m[1]))
			continue
		}
		m := lineRe.FindStringSubmatch(l)
		if m == nil {
			return nil, fmt.Errorf("unparsable TRUNCATE report line %q", l)
		}
		pm := pRe.FindStringSubmatch(m[7])
		if pm == nil {
			return nil, fmt.Errorf("no p tag in %q", m[7])
		}
		ls = append(ls, Line{Key: int(num(pm[1])), ASize: num(m[1]), DSize: num(m[2]), ARecs: num(m[3]), DRecs: num(m[4]),
			Chunks: num(m[5]), Deleted: m[6] == "YES"})
	}
	if affected != len(ls) {
		return nil, fmt.Errorf("report says %d sources affected, %d lines listed", affected, len(ls))
	}
	sort.SliceStable(ls, func(i, j int) bool { return ls[i].Key < ls[j].Key })
	return ls, nil
}

func stmtOf(vc int, p Params, dry bool) string {
	s := stmtOfU(vc, p, dry)
	if p.Lower {
		// keywords in lower case (the tag values and literals of this harness have no upper-case letters except in size units and quoted texts)
		for _, kw := range []string{"TRUNCATE", "DRYRUN", "MINSIZE", "MAXSIZE", "BEFORE", "MAXDBSIZE", " AND "} {
			s = strings.Replace(s, kw, strings.ToLower(kw), -1)
		}
	}
	return s
}

func stmtOfU(vc int, p Params, dry bool) string {
	var sb strings.Builder
	sb.WriteString("TRUNCATE")
	if dry {
		sb.WriteString(" DRYRUN")
	}
	switch {
	case p.SrcForm == "none" && p.BadSrc == "":
	case p.BadSrc == "like":
		fmt.Fprintf(&sb, " vcase=%d AND grp like \"[\"", vc)
	case p.BadSrc == "func":
		fmt.Fprintf(&sb, " vcase=%d AND trim(grp)=a", vc)
	case p.BadSrc == "arity":
		fmt.Fprintf(&sb, " grp=a AND upper(vcase, grp)=%d", vc)
	case p.SrcForm == "tags":
		fmt.Fprintf(&sb, " {vcase=%d,grp=a}", vc)
	default:
		fmt.Fprintf(&sb, " vcase=%d AND grp=a", vc)
	}
	num := func(kw string, v int64, text string) {
		if v >= 0 {
			if text != "" {
				fmt.Fprintf(&sb, " %s %s", kw, text)
			} else {
				fmt.Fprintf(&sb, " %s %d", kw, v)
			}
		}
	}
	num("MINSIZE", p.Min, p.MinText)
	num("MAXSIZE", p.Max, p.MaxText)
	if p.BefRaw != nil {
		fmt.Fprintf(&sb, " BEFORE \"%s\"", p.BefText)
	} else if p.Before >= 0 {
		if p.BefText != "" {
			fmt.Fprintf(&sb, " BEFORE \"%s\"", p.BefText)
		} else {
			fmt.Fprintf(&sb, " BEFORE \"%d\"", p.Before)
		}
	}
	num("MAXDBSIZE", p.MaxDb, p.MaxDbText)
	return sb.String()
}

type parkedReader struct {
	part     int
	consumed int
	cid      uint64
	idx      uint32
	next     api.QueryRequest
	seen     []int64
}

func parsePos(pos string) (uint64, uint32, error) {
	k := strings.Index(pos, "=")
	if k < 0 || len(pos)-k-1 != 24 || strings.Contains(pos, ":") {
		return 0, 0, fmt.Errorf("unexpected reader position %q", pos)
	}
	c, err := strconv.ParseUint(pos[k+1:k+17], 16, 64)
	if err != nil {
		return 0, 0, err
	}
	x, err := strconv.ParseUint(pos[k+17:], 16, 32)
	return c, uint32(x), err
}

type outcome struct {
	execErr    string // the statement failed or panicked
	stmt       string
	before     []PartObs
	afterDry   []PartObs
	afterReal  []PartObs
	dryLines   []Line
	realLines  []Line
	readers    []parkedReader
	p          Params
	removedAny bool
	repLines   []Line      // the report of the repeated statement
	afterRep   []PartObs   // ... and what it left
	repeated   bool
	dryErr     string      // error of the DRYRUN statement ("" = answered)
	realErr    string      // error of the real statement
	extra      []Violation // findings of the post-run observations (DESCRIBE / SHOW PARTITIONS / RANGE reads)
	post       []string    // what the post-run observations covered (tags)
}

// runCase executes one case on the server (one case at a time per server)
func (r *runner) runCase(rp *Replay) (*outcome, error) {
	vc := int(atomic.AddInt64(&caseCounter, 1))
	if err := r.build(vc, rp.Parts); err != nil {
		return nil, err
	}
	return r.runBuilt(rp, vc)
}

// runBuilt: the case on partitions that exist already (built by this or by an earlier incarnation of the server)
func (r *runner) runBuilt(rp *Replay, vc int) (*outcome, error) {
	parts := rp.Parts
	o := &outcome{}
	for i, ps := range parts {
		po, err := r.observe(vc, i, ps)
		if err != nil {
			return nil, err
		}
		if !po.Exists {
			return nil, fmt.Errorf("partition %d does not exist after it was built", i)
		}
		o.before = append(o.before, po)
	}
	if rp.P != nil {
		o.p = *rp.P
	} else {
		o.p = drawParams(NewRng(rp.PSeed), parts, o.before, !r.foreign(vc))
	}
	if o.p.SrcForm == "none" && r.foreign(vc) {
		o.p.SrcForm = "expr" // the server holds partitions of other cases (held ones that could not be cleaned up)
	}
	// parked readers
	for i, ps := range parts {
		if ps.Park > 0 && ps.Park <= len(o.before[i].Events) {
			q := &api.QueryRequest{Query: fmt.Sprintf("SELECT FROM vcase=%d AND p=%d", vc, i), Limit: ps.Park}
			if ps.ParkRng {
				q.Query += ` RANGE ["1":"100000000000"]`
			}
			res, err := r.query(q)
			if err != nil {
				return nil, err
			}
			if len(res.Events) != ps.Park {
				return nil, fmt.Errorf("parking reader: %d events instead of %d", len(res.Events), ps.Park)
			}
			cid, idx, err := parsePos(res.NextQueryRequest.Pos)
			if err != nil {
				return nil, err
			}
			o.readers = append(o.readers, parkedReader{part: i, consumed: ps.Park, cid: cid, idx: idx, next: res.NextQueryRequest})
		}
	}
	hold := func() error {
		for i, ps := range parts {
			src := o.before[i].Src
			if ps.Hold >= 1 {
				if _, err := r.srv.TIndex.GetJournalTags(src, true); err != nil {
					return err
				}
			}
			if ps.Hold == 2 && !r.srv.TIndex.LockExclusively(src) {
				return fmt.Errorf("could not lock partition %d exclusively", i)
			}
			if ps.Fail {
				r.jdec.setFail(src, true)
			}
		}
		for i, ps := range parts {
			if ps.QFail && ps.Hold == 1 && !ps.Fail {
				src := o.before[i].Src
				r.jdec.setFail(src, true)
				r.query(&api.QueryRequest{Query: fmt.Sprintf("SELECT FROM vcase=%d AND p=%d", vc, i), Limit: 1}) // fails: the journal cannot be opened
				r.jdec.setFail(src, false)
				// the holder is still the only one holding the partition: exactly then the tag index grants (and takes back) the exclusive lock
				if r.srv.TIndex.LockExclusively(src) {
					r.srv.TIndex.UnlockExclusively(src)
				} else {
					o.extra = append(o.extra, Violation{Class: "hold-released-by-another-user", Detail: fmt.Sprintf("%s: before the statement a SELECT over the held partition %d failed (its journal could not be opened); afterwards the tag index does not count exactly the holder's hold on it any more: the next TRUNCATE may drop a partition that is in use", stmtOf(vc, o.p, false), i)})
					r.srv.TIndex.GetJournalTags(src, true) // take the hold again, so that the case can go on
				}
			}
		}
		return nil
	}
	release := func() {
		for i, ps := range parts {
			src := o.before[i].Src
			if ps.Fail {
				r.jdec.setFail(src, false)
			}
			if ps.Hold == 2 {
				r.srv.TIndex.UnlockExclusively(src)
			}
			if ps.Hold >= 1 {
				func() {
					defer func() {
						if p := recover(); p != nil {
							// the tag index says the partition is not held: somebody else gave the holder's hold back
							o.extra = append(o.extra, Violation{Class: "hold-released-by-another-user", Detail: fmt.Sprintf("%s: the holder of partition %d releases its hold and the tag index panics: %v", o.stmt, i, p)})
						}
					}()
					r.srv.TIndex.Release(src)
				}()
			}
		}
	}
	run := func(dry bool) ([]Line, []PartObs, error) {
		r.quiesce()
		if err := hold(); err != nil {
			return nil, nil, err
		}
		out, err := r.exec(stmtOf(vc, o.p, dry))
		release()
		if err != nil {
			if dry {
				o.dryErr = err.Error()
			} else {
				o.realErr = err.Error()
			}
			if o.p.BadSrc == "" || strings.HasPrefix(err.Error(), "panic") {
				o.execErr = fmt.Sprintf("%s: %v", stmtOf(vc, o.p, dry), err)
			}
			out = "\n\n0 source(s) affected. \n"
		}
		ls, err := parseReport(out)
		if err != nil {
			return nil, nil, err
		}
		var obs []PartObs
		for i, ps := range parts {
			po, err := r.observe(vc, i, ps)
			if err != nil {
				return nil, nil, err
			}
			obs = append(obs, po)
		}
		return ls, obs, nil
	}
	var err error
	o.stmt = stmtOf(vc, o.p, false)
	if o.dryLines, o.afterDry, err = run(true); err != nil {
		return nil, err
	}
	if o.realLines, o.afterReal, err = run(false); err != nil {
		return nil, err
	}
	// the admin's own view and RANGE reads of what is left
	r.postChecks(vc, parts, o, NewRng(rp.PSeed^0x5bd1e995))
	for k := range o.readers {
		rd := &o.readers[k]
		q := rd.next
		q.Limit = 10000
		res, err := r.query(&q)
		if err != nil {
			if !isNotFound(err) {
				return nil, err
			}
		} else {
			for _, e := range res.Events {
				rd.seen = append(rd.seen, e.Timestamp)
			}
		}
	}
	// the same request once more, on what the first one left
	if rp.Repeat && o.p.BadSrc == "" && o.execErr == "" {
		if o.repLines, o.afterRep, err = run(false); err != nil {
			return nil, err
		}
		o.repeated = true
	}
	// leave nothing behind on the shared server
	r.quiesce()
	r.srv.Exec(fmt.Sprintf("TRUNCATE vcase=%d MAXDBSIZE 0", vc))
	return o, nil
}

// ---------------------------------------------------------------- Gallina

func gChunk(c ChunkObs) string {
	return fmt.Sprintf("(mkChunk %s %s %s %s %s %s)", GN(c.Id), GN(uint64(c.Size)), GN(uint64(c.Recs)), GZ(c.MinTs), GZ(c.MaxTs), GListZ(c.Ts))
}

// gPartP: the partition as the statement with parameters p sees it (p_match: the source condition holds AND the source
// compiles AND the journal can be opened -- the visitor of Service.Truncate is not called for it / returns at once)
func gPartP(i int, ps PartSpec, po PartObs, p Params) string {
	if matched(ps, p) {
		ps.Grp = "a"
	} else {
		ps.Grp = "b"
	}
	return gPart(i, ps, po)
}

func gPart(i int, ps PartSpec, po PartObs) string {
	cs := make([]string, len(po.Chunks))
	for k, c := range po.Chunks {
		cs[k] = gChunk(c)
	}
	readers := 0
	if ps.Hold == 1 {
		readers = 1
	}
	return fmt.Sprintf("(mkPart %s %s %s %s %s)", GN(uint64(i)), GBool(ps.Grp == "a"), GBool(ps.Hold == 2), GNat(readers), GList(cs))
}

func gParams(p Params, dry bool) string {
	mn, mx, bf := uint64(0), uint64(0), int64(0)
	if p.Min >= 0 {
		mn = uint64(p.Min)
	}
	if p.Max >= 0 {
		mx = uint64(p.Max)
	}
	if p.Before >= 0 {
		bf = p.Before
	}
	if p.BefRaw != nil {
		bf = *p.BefRaw
	}
	db := "18446744073709551615%N"
	if p.MaxDb >= 0 {
		db = GN(uint64(p.MaxDb))
	}
	return fmt.Sprintf("(mkTP %s %s %s %s %s)", GBool(dry), GN(mn), GN(mx), GZ(bf), db)
}

func gLines(ls []Line) string {
	it := make([]string, len(ls))
	for i, l := range ls {
		it[i] = GTuple(GN(uint64(l.Key)), GN(uint64(l.ASize)), GN(uint64(l.DSize)), GN(uint64(l.ARecs)), GN(uint64(l.DRecs)), GN(uint64(l.Chunks)), GBool(l.Deleted))
	}
	return GList(it)
}

func gAfter(obs []PartObs) string {
	it := make([]string, len(obs))
	for i, po := range obs {
		if !po.Exists {
			it[i] = "OGone"
			continue
		}
		ids := make([]string, len(po.Chunks))
		for k, c := range po.Chunks {
			ids[k] = GN(c.Id)
		}
		it[i] = GApp("OKept", GList(ids))
	}
	return GList(it)
}

func gReaders(rs []parkedReader) string {
	it := make([]string, len(rs))
	for i, rd := range rs {
		it[i] = GTuple(GNat(rd.part), GN(rd.cid), GNat(int(rd.idx)), GListZ(rd.seen))
	}
	return GList(it)
}

func gState(parts []PartSpec, obs []PartObs, p Params) string {
	it := make([]string, len(parts))
	for i := range parts {
		it[i] = gPartP(i, parts[i], obs[i], p)
	}
	return GList(it)
}

// ---------------------------------------------------------------- main

const rule = "race stream: one partition, a writer appends 0-3 events (newer than BEFORE) exactly when deleteJournal asks for the exclusive lock (the tag index seen by the partition service is decorated), non-trivial iff deleteJournal was reached; grid stream: stores of 1-4 partitions with 0-6 chunks (MaxChunkSize 100, chunk sizes 100-170 bytes), matching and non-matching source tags, empty partitions, held and exclusively locked partitions, parked readers; MINSIZE/MAXSIZE/BEFORE/MAXDBSIZE each absent or drawn from the values at which a guard of the observed layout flips (below/equal/above a suffix size, a chunk's newest timestamp, the database size); every case runs DRYRUN and then the real statement (two model evaluations). Non-trivial: the real run removed at least one chunk or partition, or a parameter was given while a selected partition held data (a guard is the reason nothing went)."

type job struct {
	rp     Replay
	stream string
}

func main() {
	Main("C09", "C09K", func(c *Ctx) error {
		var jobs []job
		if c.Replay != nil {
			var rp Replay
			if err := FromJSON(c.Replay, &rp); err != nil {
				return err
			}
			jobs = append(jobs, job{rp, "replay"})
		} else {
			for _, rp := range corpus() {
				jobs = append(jobs, job{rp, "corpus"})
			}
			for _, rp := range stopStartCorpus() {
				jobs = append(jobs, job{rp, "stopstart"})
			}
			for _, rp := range blindCorpus() {
				jobs = append(jobs, job{rp, "corpus"})
			}
			root := seededRng(c.Seed)
			n := c.N(300)
			for i := 0; i < n; i++ {
				r := root.Fork()
				jobs = append(jobs, job{genCase(r), "grid"})
			}
			for i := 0; i < c.N(40); i++ {
				r := root.Fork()
				jobs = append(jobs, job{genRace(r), "race"})
			}
			for i := 0; i < c.N(16); i++ {
				r := root.Fork()
				jobs = append(jobs, job{genRebuild(r), "rebuild"})
			}
			for i := 0; i < c.N(12); i++ {
				r := root.Fork()
				jobs = append(jobs, job{genBlind(r), "blind"})
			}
		}
		nw := 8
		if len(jobs) < nw {
			nw = len(jobs)
		}
		type res struct {
			cases []Case
			err   error
		}
		results := make([]res, len(jobs))
		var mu sync.Mutex
		next := 0
		var wg sync.WaitGroup
		for w := 0; w < nw; w++ {
			wg.Add(1)
			go func() {
				defer wg.Done()
				srv, err := StartServer(ServerOpts{MaxChunkSize: maxChunkSize})
				if err != nil {
					mu.Lock()
					for i := range results {
						if results[i].err == nil && results[i].cases == nil {
							results[i].err = err
						}
					}
					mu.Unlock()
					return
				}
				defer srv.Stop()
				r := &runner{srv: srv, ctx: context.Background()}
				r.decorate()
				r.decorateJournals()
				r.decorateTsIndexer()
				for {
					mu.Lock()
					i := next
					next++
					mu.Unlock()
					if i >= len(jobs) {
						return
					}
					cs, err := mkCases(r, jobs[i])
					results[i] = res{cs, err}
					if r.broken {
						go r.srv.Stop() // best effort: it may hang on the lock that was left locked
						srv2, err := StartServer(ServerOpts{MaxChunkSize: maxChunkSize})
						if err != nil {
							return
						}
						defer srv2.Stop()
						r = &runner{srv: srv2, ctx: context.Background()}
						r.decorate()
						r.decorateJournals()
						r.decorateTsIndexer()
					}
				}
			}()
		}
		wg.Wait()
		for i := range jobs {
			if results[i].err != nil {
				return fmt.Errorf("case %d: %v", i, results[i].err)
			}
			for _, cs := range results[i].cases {
				c.Add(cs)
			}
		}
		return c.Finish(rule)
	})
}

func mkCases(r *runner, j job) ([]Case, error) {
	rp := j.rp
	if rp.Kind == "race" {
		return r.runRace(rp, j.stream)
	}
	if rp.Kind == "rebuild" {
		return r.runRebuild(rp, j.stream)
	}
	if rp.Kind == "stopstart" {
		return runStopStart(rp, j.stream) // on servers of its own
	}
	var o *outcome
	var err error
	if rp.Blind {
		o, err = runBlind(&rp)
	} else {
		o, err = r.runCase(&rp)
	}
	if err != nil {
		return nil, err
	}
	rp.Stmt = o.stmt
	pcopy := o.p
	rp.P = &pcopy
	viol := oracle(rp.Parts, o)
	removed := false
	dataSel := false
	for i := range rp.Parts {
		if !o.afterReal[i].Exists || len(o.afterReal[i].Chunks) != len(o.before[i].Chunks) {
			removed = true
		}
		if matched(rp.Parts[i], o.p) && len(o.before[i].Chunks) > 0 {
			dataSel = true
		}
	}
	given := o.p.Min >= 0 || o.p.Max >= 0 || o.p.Before >= 0 || o.p.MaxDb >= 0
	nontriv := removed || (given && dataSel)
	tags := []string{}
	for _, t := range []struct {
		n string
		v int64
	}{{"minsize", o.p.Min}, {"maxsize", o.p.Max}, {"before", o.p.Before}, {"maxdbsize", o.p.MaxDb}} {
		if t.v >= 0 {
			tags = append(tags, t.n+":given")
		} else {
			tags = append(tags, t.n+":absent")
		}
	}
	nch := 0
	for i := range rp.Parts {
		nch += len(o.before[i].Chunks) - len(o.afterReal[i].Chunks)
		if rp.Parts[i].Hold > 0 {
			tags = append(tags, fmt.Sprintf("hold:%d", rp.Parts[i].Hold))
		}
		if rp.Parts[i].Fail {
			tags = append(tags, "journal-open-fails")
		}
		if rp.Parts[i].QFail && rp.Parts[i].Hold == 1 {
			tags = append(tags, "failed-select-over-held-partition")
		}
		if !o.afterReal[i].Exists {
			tags = append(tags, "partition-dropped")
		}
	}
	if o.p.BadSrc != "" {
		tags = append(tags, "bad-source:"+o.p.BadSrc)
	}
	tags = append(tags, "source-form:"+o.p.SrcForm)
	if rp.Blind {
		tags = append(tags, "start-without-index-snapshot")
	}
	if rp.TsClass != "" {
		tags = append(tags, "timestamps:"+rp.TsClass)
	}
	if o.p.MinText+o.p.MaxText+o.p.MaxDbText != "" {
		tags = append(tags, "size-literal-with-unit")
	}
	if o.p.Lower {
		tags = append(tags, "keywords-lower-case")
	}
	if o.p.BefRaw != nil {
		tags = append(tags, "before:instant-not-after-1970")
	}
	tags = append(tags, o.post...)
	tags = append(tags, fmt.Sprintf("chunks-removed:%d", minInt(nch, 6)), fmt.Sprintf("partitions:%d", len(rp.Parts)), fmt.Sprintf("readers:%d", len(o.readers)))
	st := gState(rp.Parts, o.before, o.p)
	sig := fmt.Sprintf("%+v|%+v", o.p, rp.Parts)
	dryCoq := GApp("KTrunc", gParams(o.p, true), st, gLines(o.dryLines), gAfter(o.afterDry), "[]")
	realCoq := GApp("KTrunc", gParams(o.p, false), st, gLines(o.realLines), gAfter(o.afterReal), gReaders(o.readers))
	if o.p.BadSrc != "" {
		// the statement must fail before any partition is looked at (model: TruncateStmt .. false)
		dryCoq = GApp("KTruncRefused", gParams(o.p, true), st, GBool(o.dryErr == ""), gAfter(o.afterDry))
		realCoq = GApp("KTruncRefused", gParams(o.p, false), st, GBool(o.realErr == ""), gAfter(o.afterReal))
	}
	dry := Case{
		Coq:        dryCoq,
		Replay:     rp,
		NonTrivial: nontriv,
		Stream:     j.stream + "-dryrun",
		Key:        "dry|" + sig,
	}
	real := Case{
		Coq:        realCoq,
		Replay:     rp,
		NonTrivial: nontriv,
		Stream:     j.stream + "-real",
		Tags:       tags,
		Oracle:     viol,
		Key:        "real|" + sig,
	}
	cases := []Case{dry, real}
	if rp.Blind {
		// the range the restarted server reports for every chunk is the one the model's lightFill computes from its records
		for i := range rp.Parts {
			for k, c := range o.before[i].Chunks {
				cases = append(cases, Case{Coq: GApp("KLightHull", GListZ(c.Ts), GZ(c.MinTs), GZ(c.MaxTs)), Replay: rp, Stream: j.stream + "-hull",
					NonTrivial: len(c.Ts) > 1 && c.Ts[0] > c.Ts[len(c.Ts)-1], Key: fmt.Sprintf("hull|%s|%d|%d", sig, i, k)})
			}
		}
	}
	if o.repeated {
		// the repeated request sees what the first one left: the partitions that still exist, with the same holds
		var it []string
		var aft []PartObs
		for i := range rp.Parts {
			if o.afterReal[i].Exists {
				it = append(it, gPartP(i, rp.Parts[i], o.afterReal[i], o.p))
				aft = append(aft, o.afterRep[i])
			}
		}
		rep := Case{
			Coq:        GApp("KTrunc", gParams(o.p, false), GList(it), gLines(o.repLines), gAfter(aft), "[]"),
			Replay:     rp,
			NonTrivial: nontriv,
			Stream:     j.stream + "-repeat",
			Key:        "rep|" + sig,
		}
		// a second identical request finds nothing to do: the guards that stopped the first one still hold
		// (a held partition that was emptied is still held; MAXDBSIZE is already met)
		for i := range rp.Parts {
			if real.Oracle == nil && !sameObs(o.afterReal[i], o.afterRep[i]) {
				rep.Oracle = &Violation{Class: "repeated-statement-removes-more", Detail: fmt.Sprintf("%s executed a second time changed partition %d again", o.stmt, i)}
			}
		}
		if real.Oracle == nil && rep.Oracle == nil && len(o.repLines) > 0 {
			held := false
			for _, l := range o.repLines {
				if l.Key < len(rp.Parts) && rp.Parts[l.Key].Hold == 1 {
					held = true // an emptied partition that is still held is looked at (and not reported) again; others must not appear
				}
			}
			if !held {
				rep.Oracle = &Violation{Class: "repeated-statement-reports-again", Detail: fmt.Sprintf("%s executed a second time reports %d partition(s) although nothing is left to do", o.stmt, len(o.repLines))}
			}
		}
		cases = append(cases, rep)
	}
	return cases, nil
}

func minInt(a, b int) int {
	if a < b {
		return a
	}
	return b
}

// seededRng: common.NewRng(seed) starts splitmix64 at seed*golden, so consecutive seeds give the same stream
// shifted by one draw; hashing the seed first makes the streams of different seeds unrelated
func seededRng(seed uint64) *Rng {
	z := seed + 0x632BE59BD9B4E019
	z = (z ^ (z >> 30)) * 0xBF58476D1CE4E5B9
	z = (z ^ (z >> 27)) * 0x94D049BB133111EB
	return NewRng(z ^ (z >> 31))
}
