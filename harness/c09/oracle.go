package main

import (
	"fmt"

	. "verifharness/common"
)

// The property C09 evaluated on the implementation's own observations (no model involved):
// content and chunk lists of every partition before / after DRYRUN / after the real run, the DRYRUN
// report, and what parked readers were delivered.

// classes of recorded findings (known_findings.d/C09.txt); they never hide another violation of the same case
var knownClasses = map[string]bool{
	"maxdbsize-below-minsize": true,
}

func sameObs(a, b PartObs) bool {
	if a.Exists != b.Exists || len(a.Chunks) != len(b.Chunks) || len(a.Events) != len(b.Events) {
		return false
	}
	for i := range a.Chunks {
		if a.Chunks[i].Id != b.Chunks[i].Id || a.Chunks[i].Size != b.Chunks[i].Size || a.Chunks[i].Recs != b.Chunks[i].Recs {
			return false
		}
	}
	for i := range a.Events {
		if a.Events[i] != b.Events[i] {
			return false
		}
	}
	return true
}

func oracle(parts []PartSpec, o *outcome) *Violation {
	var vs []Violation
	add := func(class, f string, a ...interface{}) {
		vs = append(vs, Violation{Class: class, Detail: o.stmt + ": " + fmt.Sprintf(f, a...)})
	}
	p := o.p
	if o.execErr != "" {
		add("truncate-failed", "%s", o.execErr)
	}
	// a source condition the server cannot compile is refused, by DRYRUN and by the real statement
	if p.BadSrc != "" {
		if o.dryErr == "" {
			add("bad-source-not-refused", "TRUNCATE DRYRUN with a source condition that cannot be compiled (%s) was answered", p.BadSrc)
		}
		if o.realErr == "" {
			add("bad-source-not-refused", "TRUNCATE with a source condition that cannot be compiled (%s) was answered", p.BadSrc)
		}
	}
	// DRYRUN changes nothing
	for i := range parts {
		if !sameObs(o.before[i], o.afterDry[i]) {
			add("dryrun-changed-store", "partition %d differs after DRYRUN", i)
		}
	}
	totalSel := int64(0)
	for i, ps := range parts {
		if matched(ps, p) && ps.Hold != 2 {
			totalSel += partSize(o.before[i])
		}
	}
	type removal struct {
		chunks int
		size   int64
		gone   bool
	}
	actual := map[int]removal{}
	anyHeld := false
	for i, ps := range parts {
		bf, af := o.before[i], o.afterReal[i]
		if ps.Hold == 1 {
			anyHeld = true
		}
		selected := matched(ps, p) && ps.Hold != 2
		if !selected {
			if !sameObs(bf, af) {
				add("unselected-partition-touched", "partition %d (grp=%s hold=%d journal-open-fails=%v bad-source=%q) changed", i, ps.Grp, ps.Hold, ps.Fail, p.BadSrc)
			}
			continue
		}
		k := len(bf.Chunks) - len(af.Chunks)
		if k < 0 {
			add("not-a-suffix", "partition %d has more chunks than before", i)
			continue
		}
		okSuffix := true
		for j := range af.Chunks {
			b := bf.Chunks[k+j]
			if af.Chunks[j].Id != b.Id || af.Chunks[j].Size != b.Size || af.Chunks[j].Recs != b.Recs {
				okSuffix = false
			}
		}
		d := len(bf.Events) - len(af.Events)
		if d < 0 {
			okSuffix = false
		} else {
			for j := range af.Events {
				if af.Events[j] != bf.Events[d+j] {
					okSuffix = false
				}
			}
		}
		if !okSuffix {
			add("not-a-suffix", "partition %d: what is left is not a suffix of the previous chunks/content", i)
			continue
		}
		gone := int64(0)
		for _, c := range bf.Chunks[:k] {
			gone += c.Recs
		}
		if int64(d) != gone {
			add("cut-inside-chunk", "partition %d: %d events disappeared, the %d removed chunks held %d", i, d, k, gone)
			continue
		}
		if !af.Exists && ps.Hold != 0 {
			add("dropped-while-held", "partition %d was dropped while somebody held it", i)
		}
		removedSize := int64(0)
		// every removed chunk needs a reason
		cur := partSize(bf)
		for j := 0; j < k; j++ {
			c := bf.Chunks[j]
			rest := cur - c.Size
			removedSize += c.Size
			minOK := p.Min < 0 || rest >= p.Min
			bySize := p.Max >= 0 && cur > p.Max && minOK
			allOlder, allOlderEq, newest := true, true, int64(-1<<63)
			for _, t := range c.Ts {
				if t >= p.Before {
					allOlder = false
				}
				if t > p.Before {
					allOlderEq = false
				}
				if t > newest {
					newest = t
				}
			}
			byTime := p.Before >= 0 && allOlder && minOK
			cur = rest
			if bySize || byTime {
				continue
			}
			byDb := p.MaxDb >= 0 && k == len(bf.Chunks) && totalSel > p.MaxDb
			switch {
			case byDb && p.Min > 0:
				add("maxdbsize-below-minsize", "partition %d emptied by MAXDBSIZE %d although MINSIZE %d was requested", i, p.MaxDb, p.Min)
			case byDb:
			case p.Before >= 0 && minOK && allOlderEq && newest == p.Before:
				add("before-removes-chunk-newest-eq-t", "partition %d chunk %d removed for BEFORE %d although its newest event is at exactly %d", i, j, p.Before, newest)
			case p.Before >= 0 && minOK && !allOlderEq && p.Max < 0:
				add("before-removes-newer-events", "partition %d chunk %d removed for BEFORE %d, it holds an event at %d", i, j, p.Before, newest)
			case !minOK:
				add("removal-below-minsize", "partition %d chunk %d removed: %d bytes would be left, MINSIZE %d", i, j, rest, p.Min)
			default:
				add("removal-without-reason", "partition %d chunk %d (size before %d, newest event %d) removed", i, j, rest+c.Size, newest)
			}
			break
		}
		if k > 0 || !af.Exists {
			sz := int64(0)
			for _, c := range bf.Chunks[:k] {
				sz += c.Size
			}
			actual[i] = removal{k, sz, !af.Exists}
		}
	}
	// DRYRUN reported what the real run removed (same store, nobody else using it)
	if !anyHeld {
		rep := map[int]Line{}
		for _, l := range o.dryLines {
			rep[l.Key] = l
		}
		for i, a := range actual {
			l, ok := rep[i]
			switch {
			case !ok:
				add("dryrun-report-misses-partition", "partition %d lost %d chunks, DRYRUN did not list it", i, a.chunks)
			case l.DSize != a.size:
				add("dryrun-report-size-differs", "partition %d: DRYRUN said %d bytes, %d were removed", i, l.DSize, a.size)
			case l.Deleted != a.gone:
				add("dryrun-report-deleted-differs", "partition %d: DRYRUN said deleted=%v, dropped=%v", i, l.Deleted, a.gone)
			case l.Chunks != int64(a.chunks) && p.MaxDb >= 0:
				add("dryrun-chunkcount-maxdbsize", "partition %d: DRYRUN said %d chunks, the real run removed %d", i, l.Chunks, a.chunks)
			case l.Chunks != int64(a.chunks):
				add("dryrun-report-chunks-differ", "partition %d: DRYRUN said %d chunks, the real run removed %d", i, l.Chunks, a.chunks)
			}
		}
		for k := range rep {
			if _, ok := actual[k]; !ok {
				add("dryrun-report-extra-partition", "DRYRUN listed partition %d, the real run left it alone", k)
			}
		}
	}
	// parked readers continue at the first remaining event
	for _, rd := range o.readers {
		bf, af := o.before[rd.part], o.afterReal[rd.part]
		from := len(bf.Events) - len(af.Events)
		if rd.consumed > from {
			from = rd.consumed
		}
		want := bf.Events[from:]
		same := len(want) == len(rd.seen)
		for j := 0; same && j < len(want); j++ {
			same = want[j] == rd.seen[j]
		}
		if !same {
			add("reader-not-at-first-remaining", "reader of partition %d parked after %d events was delivered %v, expected %v", rd.part, rd.consumed, rd.seen, want)
		}
	}
	// the admin's own view of the result (DESCRIBE PARTITION, SHOW PARTITIONS) and RANGE reads of what is left
	vs = append(vs, o.extra...)
	// a report line for a partition the statement must not see
	for _, ls := range [][]Line{o.dryLines, o.realLines} {
		for _, l := range ls {
			if l.Key < len(parts) && !matched(parts[l.Key], p) {
				add("unselected-partition-reported", "the report lists partition %d (grp=%s journal-open-fails=%v bad-source=%q)", l.Key, parts[l.Key].Grp, parts[l.Key].Fail, p.BadSrc)
			}
		}
	}
	for i := range vs {
		if !knownClasses[vs[i].Class] {
			return &vs[i]
		}
	}
	if len(vs) > 0 {
		return &vs[0]
	}
	return nil
}
