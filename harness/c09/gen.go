package main

import (
	"fmt"

	"github.com/logrange/logrange/pkg/lql"
	. "verifharness/common"
)

// every stored record costs its message plus this many bytes (measured; only used to aim at a chunk count)
const recOverhead = 14

// genPart plans the events of one partition: about nch chunks, timestamps congruent to i modulo 10 (so that the
// newest timestamps of different partitions never tie), mostly non-decreasing
func genPart(r *Rng, i int, nch int, scale int64, base int64) [][]Ev {
	var flat []Ev
	step := int64(r.Range(1, 5))
	for c := 0; c < nch; c++ {
		sz := 0
		limit := maxChunkSize
		if c == nch-1 && r.Chance(1, 2) {
			limit = r.Range(20, maxChunkSize) // the chunk being written is usually not full
		}
		for sz < limit {
			l := r.PickInt(10, 12, 20, 30, 33, 45, 60)
			flat = append(flat, Ev{Ts: base + (10*step+int64(i))*scale, Len: l})
			sz += l + recOverhead
			if !r.Chance(1, 5) { // one in five shares the timestamp of its predecessor
				step += int64(r.Range(1, 3))
			}
		}
	}
	if r.Chance(1, 6) && len(flat) > 2 { // out-of-order arrivals
		for k := 0; k < 1+len(flat)/4; k++ {
			a := r.Intn(len(flat) - 1)
			flat[a].Ts, flat[a+1].Ts = flat[a+1].Ts, flat[a].Ts
		}
	}
	// cut into write calls independently of the chunk boundaries
	var bs [][]Ev
	for len(flat) > 0 {
		n := r.PickInt(1, 2, 3, 5, 8, len(flat))
		if n > len(flat) {
			n = len(flat)
		}
		bs = append(bs, flat[:n])
		flat = flat[n:]
	}
	// late arrivals: a write call whose time range overlaps what the chunk already holds (its oldest event is older
	// than the newest stored one, its newest is newer): the chunk's hull in the time index has to be widened on both ends
	if r.Chance(1, 4) {
		for k := 1; k < len(bs); k++ {
			prev := bs[k-1]
			if len(bs[k]) >= 2 && r.Chance(2, 3) {
				if late := prev[len(prev)-1].Ts - 10*scale*int64(r.Range(1, 3)); late > 0 {
					bs[k][0].Ts = late
				}
			}
		}
	}
	return bs
}

func genCase(r *Rng) Replay {
	np := r.PickInt(1, 1, 2, 2, 2, 3, 3, 4)
	parts := make([]PartSpec, np)
	for i := range parts {
		ps := PartSpec{Grp: "a"}
		if i > 0 && r.Chance(1, 4) {
			ps.Grp = "b"
		}
		if r.Chance(1, 10) {
			ps.Empty = true
		} else {
			nch := r.PickInt(1, 1, 2, 2, 3, 3, 4, 5, 6)
			ps.Batches = genPart(r, i, nch, 1, 0)
			n := 0
			for _, b := range ps.Batches {
				n += len(b)
			}
			if r.Chance(1, 3) {
				ps.Park = r.Range(1, n)
				ps.ParkRng = r.Chance(1, 2)
			}
		}
		if r.Chance(1, 8) {
			ps.Hold = 1
		} else if r.Chance(1, 12) {
			ps.Hold = 2
		}
		if np > 1 && r.Chance(1, 14) {
			ps.Fail = true // the journal controller cannot open it while the statements run
		}
		parts[i] = ps
	}
	return Replay{Kind: "trunc", Parts: parts, PSeed: r.U64()}
}

func partSize(po PartObs) int64 {
	s := int64(0)
	for _, c := range po.Chunks {
		s += c.Size
	}
	return s
}

func clip(v int64) int64 {
	if v < 0 {
		return 0
	}
	return v
}

// drawParams picks every parameter absent or at a value where a guard of the observed layout flips
func drawParams(r *Rng, parts []PartSpec, before []PartObs) Params {
	p := Params{SrcForm: "expr", Min: -1, Max: -1, Before: -1, MaxDb: -1}
	if r.Chance(3, 10) {
		p.SrcForm = "tags"
	}
	if r.Chance(1, 16) {
		// a source the parser accepts and the tag-condition builder refuses: nothing may happen, whatever else is asked for
		p.BadSrc = r.PickStr("like", "func", "arity")
	}
	var sel []int
	total := int64(0)
	for i, ps := range parts {
		if matched(ps, p) && len(before[i].Chunks) > 0 {
			sel = append(sel, i)
			if ps.Hold != 2 {
				total += partSize(before[i])
			}
		}
	}
	if len(sel) == 0 {
		// nothing selected holds data: any parameters will do
		if r.Chance(1, 2) {
			p.MaxDb = int64(r.PickInt(0, 1, 100))
		}
		if r.Chance(1, 2) {
			p.Before = int64(r.PickInt(0, 1, 1000))
		}
		return p
	}
	t := before[sel[r.Intn(len(sel))]]
	suffix := func() int64 { // size of the partition from a random chunk on
		j := r.Intn(len(t.Chunks) + 1)
		s := int64(0)
		for _, c := range t.Chunks[j:] {
			s += c.Size
		}
		return s
	}
	delta := func() int64 { return int64(r.PickInt(-1, 0, 0, 1)) }
	if r.Chance(55, 100) {
		switch r.Intn(6) {
		case 0:
			p.Max = int64(r.PickInt(1, 50, 99))
		case 1:
			p.Max = clip(partSize(t) + delta())
		case 5:
			p.Max = int64(r.PickInt(0, 1000))
		default:
			p.Max = clip(suffix() + delta())
		}
	}
	if r.Chance(50, 100) {
		switch r.Intn(6) {
		case 0:
			p.Min = int64(r.PickInt(0, 1, 50))
		case 1:
			p.Min = clip(partSize(t) + delta())
		default:
			p.Min = clip(suffix() + delta())
		}
	}
	if r.Chance(55, 100) {
		u := before[sel[r.Intn(len(sel))]]
		c := u.Chunks[r.Intn(len(u.Chunks))]
		switch r.Intn(8) {
		case 0:
			p.Before = int64(r.PickInt(0, 1, 5))
		case 1:
			p.Before = 1000000
		case 2:
			p.Before = clip(c.MinTs + delta())
		default:
			p.Before = clip(c.MaxTs + delta())
		}
		// a chunk whose hull in the time index does not cover its newest event (never on a healthy index): aim right
		// behind the hull, where BEFORE would take the chunk although it holds newer events
		for _, q := range sel {
			for _, cc := range before[q].Chunks {
				nw := int64(-1 << 63)
				for _, t := range cc.Ts {
					if t > nw {
						nw = t
					}
				}
				if len(cc.Ts) > 0 && nw > cc.MaxTs && r.Chance(2, 3) {
					p.Before = clip(cc.MaxTs + 1)
					p.Max = -1
				}
			}
		}
	}
	if r.Chance(40, 100) {
		switch r.Intn(6) {
		case 0:
			p.MaxDb = 0
		case 1:
			p.MaxDb = clip(total + delta())
		case 2:
			p.MaxDb = int64(r.PickInt(1, 100, 500))
		default:
			p.MaxDb = clip(total - partSize(before[sel[r.Intn(len(sel))]]) + delta())
		}
	}
	return p
}

// ---- deterministic corpus: the witnesses of the refuted theorems, replayed on the implementation first ----

func mono(i int, nrec int, l int, scale, base int64) [][]Ev {
	var b []Ev
	for k := 0; k < nrec; k++ {
		b = append(b, Ev{Ts: base + (int64(10*(k+1))+int64(i))*scale, Len: l})
	}
	return [][]Ev{b}
}

// literalNanos asks the implementation's own LQL parser what instant a BEFORE literal denotes
func literalNanos(lit string) int64 {
	l, err := lql.ParseLql(fmt.Sprintf("TRUNCATE BEFORE \"%s\"", lit))
	if err != nil || l.Truncate == nil || l.Truncate.Before == nil {
		panic(fmt.Sprintf("BEFORE literal %q does not parse: %v", lit, err))
	}
	return int64(*l.Truncate.Before)
}

func corpus() []Replay {
	var cs []Replay
	// C09_before_refuted: messages of 36 bytes (50 stored): two per chunk: 10,20 | 30,40 | 50,60 | 70,80: BEFORE "60"
	cs = append(cs, Replay{Kind: "trunc", Parts: []PartSpec{{Grp: "a", Batches: mono(0, 8, 36, 1, 0), Park: 2}},
		P: &Params{SrcForm: "expr", Min: -1, Max: -1, Before: 60, MaxDb: -1}})
	// the same with the literal of the finding: newest event of the first chunk at exactly 00:00:10
	lit := "2020-01-01 00:00:10"
	t := literalNanos(lit)
	var b []Ev
	for k := int64(-2); k <= 5; k++ { // messages of 30 bytes (44 stored): three per chunk, the first chunk ends at t
		b = append(b, Ev{Ts: t + k*5000000000, Len: 30})
	}
	cs = append(cs, Replay{Kind: "trunc", Parts: []PartSpec{{Grp: "a", Batches: [][]Ev{b}}},
		P: &Params{SrcForm: "tags", Min: -1, Max: -1, Before: t, BefText: lit, MaxDb: -1}})
	// BEFORE one below the newest event of chunk 3: chunk 3 stays
	cs = append(cs, Replay{Kind: "trunc", Parts: []PartSpec{{Grp: "a", Batches: mono(0, 8, 36, 1, 0)}},
		P: &Params{SrcForm: "expr", Min: -1, Max: -1, Before: 59, MaxDb: -1}})
	// C09_size_maxdb_refuted: MINSIZE 200 is ignored by the MAXDBSIZE phase, the newest partition goes first
	cs = append(cs, Replay{Kind: "trunc", Parts: []PartSpec{{Grp: "a", Batches: mono(0, 6, 36, 1, 0)}, {Grp: "a", Batches: mono(1, 6, 36, 1, 0)}, {Grp: "b", Batches: mono(2, 6, 36, 1, 0)}},
		P: &Params{SrcForm: "expr", Min: 200, Max: -1, Before: -1, MaxDb: 300}})
	// C09_dryrun_report_refuted: BEFORE takes one chunk, MAXDBSIZE 0 then takes the partition: DRYRUN counts that chunk twice
	cs = append(cs, Replay{Kind: "trunc", Parts: []PartSpec{{Grp: "a", Batches: mono(0, 9, 36, 1, 0)}},
		P: &Params{SrcForm: "expr", Min: -1, Max: -1, Before: 35, MaxDb: 0}})
	// a held partition under MAXDBSIZE 0: emptied but not dropped, and not reported; an empty one is dropped
	cs = append(cs, Replay{Kind: "trunc", Parts: []PartSpec{{Grp: "a", Batches: mono(0, 6, 36, 1, 0), Hold: 1}, {Grp: "a", Empty: true}, {Grp: "a", Empty: true, Hold: 1}},
		P: &Params{SrcForm: "expr", Min: -1, Max: -1, Before: -1, MaxDb: 0}})
	// a source condition the builder refuses (malformed LIKE pattern / unknown function): an error, nothing is touched although MAXDBSIZE 0 asks for everything
	cs = append(cs, Replay{Kind: "trunc", Parts: []PartSpec{{Grp: "a", Batches: mono(0, 6, 36, 1, 0)}, {Grp: "a", Empty: true}},
		P: &Params{SrcForm: "expr", Min: -1, Max: 1, Before: -1, MaxDb: 0, BadSrc: "like"}})
	cs = append(cs, Replay{Kind: "trunc", Parts: []PartSpec{{Grp: "a", Batches: mono(0, 4, 36, 1, 0)}},
		P: &Params{SrcForm: "expr", Min: -1, Max: -1, Before: 1000, MaxDb: -1, BadSrc: "func"}})
	// a partition whose journal cannot be opened is skipped (untouched, not reported, not counted for MAXDBSIZE); the others are processed
	cs = append(cs, Replay{Kind: "trunc", Parts: []PartSpec{{Grp: "a", Batches: mono(0, 6, 36, 1, 0), Fail: true}, {Grp: "a", Batches: mono(1, 6, 36, 1, 0)}, {Grp: "a", Empty: true, Fail: true}},
		P: &Params{SrcForm: "expr", Min: -1, Max: 150, Before: -1, MaxDb: 250}})
	// MAXSIZE/MINSIZE guards: 9 chunks of 100: MAXSIZE 450 MINSIZE 440 stops at 500; the second partition is locked
	cs = append(cs, Replay{Kind: "trunc", Parts: []PartSpec{{Grp: "a", Batches: mono(0, 18, 36, 1, 0), Park: 4}, {Grp: "a", Batches: mono(1, 3, 36, 1, 0), Hold: 2}},
		P: &Params{SrcForm: "expr", Min: 440, Max: 450, Before: -1, MaxDb: -1}})
	return cs
}
