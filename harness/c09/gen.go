package main

import (
	"fmt"

	"github.com/logrange/logrange/pkg/lql"
	. "verifharness/common"
)

// every stored record costs its message plus this many bytes (measured; only used to aim at a chunk count)
const recOverhead = 14

// genPart plans the events of one partition: about nch chunks, timestamps congruent to i modulo 10 (so that the
// newest timestamps of different partitions never tie), mostly non-decreasing
func genPart(r *Rng, i int, nch int, scale int64, base int64) [][]Ev {
	var flat []Ev
	step := int64(r.Range(1, 5))
	for c := 0; c < nch; c++ {
		sz := 0
		limit := maxChunkSize
		if c == nch-1 && r.Chance(1, 2) {
			limit = r.Range(20, maxChunkSize) // the chunk being written is usually not full
		}
		for sz < limit {
			l := r.PickInt(10, 12, 20, 30, 33, 45, 60)
			flat = append(flat, Ev{Ts: base + (10*step+int64(i))*scale, Len: l})
			sz += l + recOverhead
			if !r.Chance(1, 5) { // one in five shares the timestamp of its predecessor
				step += int64(r.Range(1, 3))
			}
		}
	}
	if r.Chance(1, 6) && len(flat) > 2 { // out-of-order arrivals
		for k := 0; k < 1+len(flat)/4; k++ {
			a := r.Intn(len(flat) - 1)
			flat[a].Ts, flat[a+1].Ts = flat[a+1].Ts, flat[a].Ts
		}
	}
	// cut into write calls independently of the chunk boundaries
	var bs [][]Ev
	for len(flat) > 0 {
		n := r.PickInt(1, 2, 3, 5, 8, len(flat))
		if n > len(flat) {
			n = len(flat)
		}
		bs = append(bs, flat[:n])
		flat = flat[n:]
	}
	// late arrivals: a write call whose time range overlaps what the chunk already holds (its oldest event is older
	// than the newest stored one, its newest is newer): the chunk's hull in the time index has to be widened on both ends
	if r.Chance(1, 4) {
		for k := 1; k < len(bs); k++ {
			prev := bs[k-1]
			if len(bs[k]) >= 2 && r.Chance(2, 3) {
				if late := prev[len(prev)-1].Ts - 10*scale*int64(r.Range(1, 3)); late > 0 {
					bs[k][0].Ts = late
				}
			}
		}
	}
	return bs
}

// the parts of the time axis the events of a case are on: (name, scale, base) for genPart. "small": 10..2000 ns after the epoch
// (the chunk-boundary arithmetic is the same everywhere, these keep the cases readable); "negative": before 1970;
// "straddle": around 0 (BEFORE values <= 0 mean "not given" to the code); "nanos": 2017 in nanoseconds, one second apart;
// "high": ten million nanoseconds below the greatest int64
var tsClasses = []struct {
	name        string
	scale, base int64
}{
	{"small", 1, 0}, {"small", 1, 0}, {"small", 1, 0}, {"negative", 1, -100000}, {"straddle", 1, -300},
	{"nanos", 1000000000, 1500000000000000000}, {"high", 1, 9223372036854775807 - 10000000},
}

func genCase(r *Rng) Replay {
	np := r.PickInt(1, 1, 2, 2, 2, 3, 3, 4, 6)
	tc := tsClasses[r.Intn(len(tsClasses))]
	parts := make([]PartSpec, np)
	for i := range parts {
		ps := PartSpec{Grp: "a"}
		if i > 0 && r.Chance(1, 4) {
			ps.Grp = "b"
		}
		if r.Chance(1, 10) {
			ps.Empty = true
		} else {
			nch := r.PickInt(1, 1, 2, 2, 3, 3, 4, 5, 6)
			if np >= 5 {
				nch = r.PickInt(1, 1, 2, 3) // many partitions: keep the case small
			}
			ps.Batches = genPart(r, i, nch, tc.scale, tc.base)
			n := 0
			for _, b := range ps.Batches {
				n += len(b)
			}
			if r.Chance(1, 3) {
				ps.Park = r.Range(1, n)
				ps.ParkRng = tc.name == "small" && r.Chance(1, 2) // the parked RANGE covers 1 .. 100 s after the epoch
			}
		}
		if r.Chance(1, 8) {
			ps.Hold = 1
		} else if r.Chance(1, 12) {
			ps.Hold = 2
		}
		if np > 1 && r.Chance(1, 14) {
			ps.Fail = true // the journal controller cannot open it while the statements run
		}
		if ps.Hold == 1 && r.Chance(1, 2) {
			ps.QFail = true // a SELECT over the held partition fails meanwhile (its journal cannot be opened)
		}
		parts[i] = ps
	}
	return Replay{Kind: "trunc", Parts: parts, PSeed: r.U64(), Repeat: r.Chance(1, 3), TsClass: tc.name}
}

// how a size may be written: the plain number, or a literal with a unit that denotes exactly that number
func sizeText(r *Rng, v int64) string {
	// (the lexer's Number class admits the units [mMkKgGtTbBpP] followed by up to two of the letters i, b in lower case:
	// "1kb", "1k", "1Kib", "300B", "300b"; the usual spellings "1kB" / "1KiB" are not tokens of the language)
	switch {
	case v > 0 && v%1000 == 0 && r.Chance(1, 2):
		return fmt.Sprintf("%d%s", v/1000, r.PickStr("kb", "k", "Kb", "K"))
	case v > 0 && v%1000 == 500 && r.Chance(1, 2):
		return fmt.Sprintf("%d.5kb", v/1000)
	case v > 0 && v%1024 == 0 && r.Chance(1, 2):
		return fmt.Sprintf("%d%s", v/1024, r.PickStr("Kib", "kib", "ki"))
	case r.Chance(1, 6):
		return fmt.Sprintf("%d%s", v, r.PickStr("B", "b"))
	}
	return ""
}

func partSize(po PartObs) int64 {
	s := int64(0)
	for _, c := range po.Chunks {
		s += c.Size
	}
	return s
}

func clip(v int64) int64 {
	if v < 0 {
		return 0
	}
	return v
}

// drawParams picks every parameter absent or at a value where a guard of the observed layout flips
func drawParams(r *Rng, parts []PartSpec, before []PartObs, allowNone bool) Params {
	p := drawParams0(r, parts, before, allowNone)
	// how the numbers are written
	if p.Min >= 0 {
		p.MinText = sizeText(r, p.Min)
	}
	if p.Max >= 0 {
		p.MaxText = sizeText(r, p.Max)
	}
	if p.MaxDb >= 0 {
		p.MaxDbText = sizeText(r, p.MaxDb)
	}
	p.Lower = r.Chance(1, 5)
	return p
}

func drawParams0(r *Rng, parts []PartSpec, before []PartObs, allowNone bool) Params {
	p := Params{SrcForm: "expr", Min: -1, Max: -1, Before: -1, MaxDb: -1}
	if r.Chance(3, 10) {
		p.SrcForm = "tags"
	} else if allowNone && r.Chance(1, 8) {
		p.SrcForm = "none" // no source: every partition of the server
	}
	if r.Chance(1, 16) {
		// a source the parser accepts and the tag-condition builder refuses: nothing may happen, whatever else is asked for
		p.BadSrc = r.PickStr("like", "func", "arity")
	}
	var sel []int
	total := int64(0)
	for i, ps := range parts {
		if matched(ps, p) && len(before[i].Chunks) > 0 {
			sel = append(sel, i)
			if ps.Hold != 2 {
				total += partSize(before[i])
			}
		}
	}
	if len(sel) == 0 {
		// nothing selected holds data: any parameters will do
		if r.Chance(1, 2) {
			p.MaxDb = int64(r.PickInt(0, 1, 100))
		}
		if r.Chance(1, 2) {
			p.Before = int64(r.PickInt(0, 1, 1000))
		}
		return p
	}
	t := before[sel[r.Intn(len(sel))]]
	suffix := func() int64 { // size of the partition from a random chunk on
		j := r.Intn(len(t.Chunks) + 1)
		s := int64(0)
		for _, c := range t.Chunks[j:] {
			s += c.Size
		}
		return s
	}
	delta := func() int64 { return int64(r.PickInt(-1, 0, 0, 1)) }
	if r.Chance(55, 100) {
		switch r.Intn(6) {
		case 0:
			p.Max = int64(r.PickInt(1, 50, 99))
		case 1:
			p.Max = clip(partSize(t) + delta())
		case 5:
			p.Max = int64(r.PickInt(0, 1000, 500, 1024))
		default:
			p.Max = clip(suffix() + delta())
		}
	}
	if r.Chance(50, 100) {
		switch r.Intn(6) {
		case 0:
			p.Min = int64(r.PickInt(0, 1, 50, 500, 1000))
		case 1:
			p.Min = clip(partSize(t) + delta())
		default:
			p.Min = clip(suffix() + delta())
		}
	}
	if r.Chance(55, 100) {
		u := before[sel[r.Intn(len(sel))]]
		c := u.Chunks[r.Intn(len(u.Chunks))]
		switch r.Intn(9) {
		case 8:
			// a date before 1970: OldestTs <= 0, which the code takes as "BEFORE not given"
			p.BefText = r.PickStr("1969-12-31 23:59:59", "1960-01-01 00:00:00", "1970-01-01 00:00:00")
			v := literalNanos(p.BefText)
			p.BefRaw = &v
			p.Before = -1
		case 0:
			p.Before = int64(r.PickInt(0, 1, 5))
		case 1:
			p.Before = 1000000
		case 2:
			p.Before = clip(c.MinTs + delta())
		default:
			p.Before = clip(c.MaxTs + delta())
		}
		// a chunk whose hull in the time index does not cover its newest event (never on a healthy index): aim right
		// behind the hull, where BEFORE would take the chunk although it holds newer events
		for _, q := range sel {
			for _, cc := range before[q].Chunks {
				nw := int64(-1 << 63)
				for _, t := range cc.Ts {
					if t > nw {
						nw = t
					}
				}
				if len(cc.Ts) > 0 && nw > cc.MaxTs && r.Chance(2, 3) {
					p.Before = clip(cc.MaxTs + 1)
					p.Max = -1
					p.BefRaw, p.BefText = nil, ""
				}
			}
		}
	}
	if r.Chance(40, 100) {
		switch r.Intn(6) {
		case 0:
			p.MaxDb = 0
		case 1:
			p.MaxDb = clip(total + delta())
		case 2:
			p.MaxDb = int64(r.PickInt(1, 100, 500, 1000, 1024, 2000))
		default:
			p.MaxDb = clip(total - partSize(before[sel[r.Intn(len(sel))]]) + delta())
		}
	}
	return p
}

// ---- deterministic corpus: the witnesses of the refuted theorems, replayed on the implementation first ----

func mono(i int, nrec int, l int, scale, base int64) [][]Ev {
	var b []Ev
	for k := 0; k < nrec; k++ {
		b = append(b, Ev{Ts: base + (int64(10*(k+1))+int64(i))*scale, Len: l})
	}
	return [][]Ev{b}
}

// literalNanos asks the implementation's own LQL parser what instant a BEFORE literal denotes
func literalNanos(lit string) int64 {
	l, err := lql.ParseLql(fmt.Sprintf("TRUNCATE BEFORE \"%s\"", lit))
	if err != nil || l.Truncate == nil || l.Truncate.Before == nil {
		panic(fmt.Sprintf("BEFORE literal %q does not parse: %v", lit, err))
	}
	return int64(*l.Truncate.Before)
}

func corpus() []Replay {
	var cs []Replay
	// C09_before_refuted: messages of 36 bytes (50 stored): two per chunk: 10,20 | 30,40 | 50,60 | 70,80: BEFORE "60"
	cs = append(cs, Replay{Kind: "trunc", Parts: []PartSpec{{Grp: "a", Batches: mono(0, 8, 36, 1, 0), Park: 2}},
		P: &Params{SrcForm: "expr", Min: -1, Max: -1, Before: 60, MaxDb: -1}})
	// the same with the literal of the finding: newest event of the first chunk at exactly 00:00:10
	lit := "2020-01-01 00:00:10"
	t := literalNanos(lit)
	var b []Ev
	for k := int64(-2); k <= 5; k++ { // messages of 30 bytes (44 stored): three per chunk, the first chunk ends at t
		b = append(b, Ev{Ts: t + k*5000000000, Len: 30})
	}
	cs = append(cs, Replay{Kind: "trunc", Parts: []PartSpec{{Grp: "a", Batches: [][]Ev{b}}},
		P: &Params{SrcForm: "tags", Min: -1, Max: -1, Before: t, BefText: lit, MaxDb: -1}})
	// BEFORE one below the newest event of chunk 3: chunk 3 stays
	cs = append(cs, Replay{Kind: "trunc", Parts: []PartSpec{{Grp: "a", Batches: mono(0, 8, 36, 1, 0)}},
		P: &Params{SrcForm: "expr", Min: -1, Max: -1, Before: 59, MaxDb: -1}})
	// C09_size_maxdb_refuted: MINSIZE 200 is ignored by the MAXDBSIZE phase, the newest partition goes first
	cs = append(cs, Replay{Kind: "trunc", Parts: []PartSpec{{Grp: "a", Batches: mono(0, 6, 36, 1, 0)}, {Grp: "a", Batches: mono(1, 6, 36, 1, 0)}, {Grp: "b", Batches: mono(2, 6, 36, 1, 0)}},
		P: &Params{SrcForm: "expr", Min: 200, Max: -1, Before: -1, MaxDb: 300}})
	// C09_dryrun_report_refuted: BEFORE takes one chunk, MAXDBSIZE 0 then takes the partition: DRYRUN counts that chunk twice
	cs = append(cs, Replay{Kind: "trunc", Parts: []PartSpec{{Grp: "a", Batches: mono(0, 9, 36, 1, 0)}},
		P: &Params{SrcForm: "expr", Min: -1, Max: -1, Before: 35, MaxDb: 0}})
	// a held partition under MAXDBSIZE 0: emptied but not dropped, and not reported; an empty one is dropped
	cs = append(cs, Replay{Kind: "trunc", Parts: []PartSpec{{Grp: "a", Batches: mono(0, 6, 36, 1, 0), Hold: 1}, {Grp: "a", Empty: true}, {Grp: "a", Empty: true, Hold: 1}},
		P: &Params{SrcForm: "expr", Min: -1, Max: -1, Before: -1, MaxDb: 0}})
	// a source condition the builder refuses (malformed LIKE pattern / unknown function): an error, nothing is touched although MAXDBSIZE 0 asks for everything
	cs = append(cs, Replay{Kind: "trunc", Parts: []PartSpec{{Grp: "a", Batches: mono(0, 6, 36, 1, 0)}, {Grp: "a", Empty: true}},
		P: &Params{SrcForm: "expr", Min: -1, Max: 1, Before: -1, MaxDb: 0, BadSrc: "like"}})
	cs = append(cs, Replay{Kind: "trunc", Parts: []PartSpec{{Grp: "a", Batches: mono(0, 4, 36, 1, 0)}},
		P: &Params{SrcForm: "expr", Min: -1, Max: -1, Before: 1000, MaxDb: -1, BadSrc: "func"}})
	// a partition whose journal cannot be opened is skipped (untouched, not reported, not counted for MAXDBSIZE); the others are processed
	cs = append(cs, Replay{Kind: "trunc", Parts: []PartSpec{{Grp: "a", Batches: mono(0, 6, 36, 1, 0), Fail: true}, {Grp: "a", Batches: mono(1, 6, 36, 1, 0)}, {Grp: "a", Empty: true, Fail: true}},
		P: &Params{SrcForm: "expr", Min: -1, Max: 150, Before: -1, MaxDb: 250}})
	// the guard `MaxSrcSize > MinSrcSize`: equal values switch the size phase off, one more switches it on (6 chunks of 100)
	cs = append(cs, Replay{Kind: "trunc", Parts: []PartSpec{{Grp: "a", Batches: mono(0, 12, 36, 1, 0)}}, Repeat: true,
		P: &Params{SrcForm: "expr", Min: 300, Max: 300, Before: -1, MaxDb: -1}})
	cs = append(cs, Replay{Kind: "trunc", Parts: []PartSpec{{Grp: "a", Batches: mono(0, 12, 36, 1, 0)}}, Repeat: true,
		P: &Params{SrcForm: "expr", Min: 300, Max: 301, Before: -1, MaxDb: -1}})
	// sizes written with units, keywords in lower case: MAXSIZE 0.5kb = 500, MINSIZE 300B, MAXDBSIZE 1Kib = 1024 (10 chunks of 100 in two partitions... the second goes)
	cs = append(cs, Replay{Kind: "trunc", Parts: []PartSpec{{Grp: "a", Batches: mono(0, 14, 36, 1, 0)}, {Grp: "a", Batches: mono(1, 12, 36, 1, 0)}}, Repeat: true,
		P: &Params{SrcForm: "tags", Min: 300, MinText: "300B", Max: 500, MaxText: "0.5kb", Before: -1, MaxDb: 1024, MaxDbText: "1Kib", Lower: true}})
	// six partitions under MAXDBSIZE: sortedInfos is filled in map order and kept sorted by the newest timestamp (insertions at the
	// front, in the middle, at the end); the newest partitions go until 450 bytes are left
	{
		var ps []PartSpec
		for i, n := range []int{4, 2, 6, 2, 4, 2} {
			ps = append(ps, PartSpec{Grp: "a", Batches: mono(i, n, 36, 1, int64(100*((i*5)%6)))})
		}
		cs = append(cs, Replay{Kind: "trunc", Parts: ps, Repeat: true, P: &Params{SrcForm: "expr", Min: -1, Max: -1, Before: -1, MaxDb: 450}})
	}
	// no source at all: both groups are selected (run on a server that holds nothing else, otherwise with the expression form)
	cs = append(cs, Replay{Kind: "trunc", Parts: []PartSpec{{Grp: "a", Batches: mono(0, 6, 36, 1, 0)}, {Grp: "b", Batches: mono(1, 6, 36, 1, 0)}, {Grp: "b", Empty: true}},
		P: &Params{SrcForm: "none", Min: -1, Max: 150, Before: -1, MaxDb: -1}})
	// events dated before 1970 (and around 0): BEFORE "5" takes the chunks whose newest event is negative or below 5; a BEFORE
	// literal that denotes an instant before 1970 is taken as "not given" (nothing goes, though every event is older than some of them)
	cs = append(cs, Replay{Kind: "trunc", Parts: []PartSpec{{Grp: "a", Batches: mono(0, 8, 36, 1, -45)}}, Repeat: true,
		P: &Params{SrcForm: "expr", Min: -1, Max: -1, Before: 5, MaxDb: -1}})
	{
		v := literalNanos("1969-12-31 23:59:59")
		cs = append(cs, Replay{Kind: "trunc", Parts: []PartSpec{{Grp: "a", Batches: mono(0, 8, 36, 1000000000, -3600000000000)}},
			P: &Params{SrcForm: "expr", Min: -1, Max: -1, Before: -1, BefText: "1969-12-31 23:59:59", BefRaw: &v, MaxDb: -1}})
	}
	// timestamps next to the greatest int64
	cs = append(cs, Replay{Kind: "trunc", Parts: []PartSpec{{Grp: "a", Batches: mono(0, 8, 36, 1, 9223372036854775807-1000)}},
		P: &Params{SrcForm: "expr", Min: -1, Max: -1, Before: 9223372036854775807 - 1000 + 41, MaxDb: -1}})
	// BEFORE as a relative literal: an hour ago, everything stored (1970) is older
	cs = append(cs, Replay{Kind: "trunc", Parts: []PartSpec{{Grp: "a", Batches: mono(0, 6, 36, 1, 0)}, {Grp: "b", Batches: mono(1, 4, 36, 1, 0)}},
		P: &Params{SrcForm: "expr", Min: 150, Max: -1, Before: literalNanos("-1h"), BefText: "-1h", MaxDb: -1}})
	// a write call whose time range overlaps what its chunk already holds (late arrival: 15 after 10,20; then 40): the hull of the
	// chunk in the time index has to be widened on both ends; BEFORE 21 / 39 / 40 stand behind the first batch's newest event but
	// not behind the chunk's: nothing may go; BEFORE 41 takes the chunk (messages of 12 bytes = 26 stored: exactly four records per chunk,
	// so the overlapping call is the last one that lands in the first chunk)
	for _, b := range []int64{21, 40, 41} {
		cs = append(cs, Replay{Kind: "trunc", Parts: []PartSpec{{Grp: "a", Batches: [][]Ev{{{Ts: 10, Len: 12}, {Ts: 20, Len: 12}}, {{Ts: 15, Len: 12}, {Ts: 40, Len: 12}},
			{{Ts: 50, Len: 12}, {Ts: 60, Len: 12}, {Ts: 70, Len: 12}, {Ts: 80, Len: 12}, {Ts: 90, Len: 12}, {Ts: 100, Len: 12}}}}},
			P: &Params{SrcForm: "expr", Min: -1, Max: -1, Before: b, MaxDb: -1}})
	}
	// a held EMPTY partition over which a SELECT fails meanwhile (GetJournals stops its do-not-release visit at it and releases what it took):
	// the holder's hold is still there, TRUNCATE must not drop the partition; the same for a held partition with data under MAXDBSIZE 0
	cs = append(cs, Replay{Kind: "trunc", Parts: []PartSpec{{Grp: "a", Empty: true, Hold: 1, QFail: true}, {Grp: "a", Batches: mono(1, 4, 36, 1, 0)}},
		P: &Params{SrcForm: "expr", Min: -1, Max: -1, Before: -1, MaxDb: -1}})
	cs = append(cs, Replay{Kind: "trunc", Parts: []PartSpec{{Grp: "a", Batches: mono(0, 4, 36, 1, 0), Hold: 1, QFail: true}, {Grp: "a", Empty: true}},
		P: &Params{SrcForm: "expr", Min: -1, Max: -1, Before: -1, MaxDb: 0}})
	// MAXSIZE/MINSIZE guards: 9 chunks of 100: MAXSIZE 450 MINSIZE 440 stops at 500; the second partition is locked
	cs = append(cs, Replay{Kind: "trunc", Parts: []PartSpec{{Grp: "a", Batches: mono(0, 18, 36, 1, 0), Park: 4}, {Grp: "a", Batches: mono(1, 3, 36, 1, 0), Hold: 2}},
		P: &Params{SrcForm: "expr", Min: 440, Max: 450, Before: -1, MaxDb: -1}})
	return cs
}
