package main

// Stream "race": a writer appends to the partition (and its data becomes readable) exactly when
// partition.Service.deleteJournal asks the tag index for the exclusive lock - the latest moment at which a
// writer can still get in. The tag index the partition service uses is decorated (nothing in /repo changes):
// LockExclusively(src) first runs the armed writer, then the real LockExclusively.
// Property: a partition is dropped only when it holds no data and nobody uses it - also with writers appending
// concurrently. K: model/Truncate.v visit_one_w on the observed layout.

import (
	"fmt"
	"sync"

	"github.com/logrange/logrange/api"
	"github.com/logrange/logrange/pkg/tindex"
	. "verifharness/common"
)

type tiDecor struct {
	tindex.Service
	mu    sync.Mutex
	armed map[string]func()
}

func (d *tiDecor) LockExclusively(src string) bool {
	d.mu.Lock()
	f := d.armed[src]
	delete(d.armed, src)
	d.mu.Unlock()
	if f != nil {
		f()
	}
	return d.Service.LockExclusively(src)
}

func (d *tiDecor) arm(src string, f func()) {
	d.mu.Lock()
	d.armed[src] = f
	d.mu.Unlock()
}

func (d *tiDecor) disarm(src string) {
	d.mu.Lock()
	delete(d.armed, src)
	d.mu.Unlock()
}

// decorate installs the decorator once per server (before any case runs on it)
func (r *runner) decorate() {
	r.dec = &tiDecor{Service: r.srv.Partitions.TIndex, armed: map[string]func(){}}
	r.srv.Partitions.TIndex = r.dec
}

const raceTs = int64(9000000)

func genRace(r *Rng) Replay {
	ps := PartSpec{Grp: "a"}
	if r.Chance(1, 6) {
		ps.Empty = true
	} else {
		ps.Batches = genPart(r, 0, r.PickInt(1, 1, 2, 3), 1, 0)
	}
	if r.Chance(1, 6) {
		ps.Hold = 1
	}
	p := Params{SrcForm: r.PickStr("expr", "tags"), Min: -1, Max: -1, Before: -1, MaxDb: -1}
	switch r.Intn(6) {
	case 0:
		p.Max = 1 // everything goes by size
	case 1:
		p.Before = -2 // resolved against the observed layout: the newest event of the first chunk + 1 (not everything goes)
	default:
		p.Before = 1000000 // everything stored is older, the writer's events are newer
	}
	return Replay{Kind: "race", Parts: []PartSpec{ps}, P: &p, W: r.PickInt(0, 1, 1, 2, 3)}
}

func (r *runner) runRace(rp Replay, stream string) ([]Case, error) {
	vc := int(atomicNext())
	ps := rp.Parts[0]
	if err := r.build(vc, rp.Parts); err != nil {
		return nil, err
	}
	before, err := r.observe(vc, 0, ps)
	if err != nil {
		return nil, err
	}
	if !before.Exists {
		return nil, fmt.Errorf("race: the partition does not exist after it was built")
	}
	p := *rp.P
	if p.Before == -2 {
		p.Before = 1
		if len(before.Chunks) > 0 {
			p.Before = before.Chunks[0].MaxTs + 1
		}
	}
	tags := tagsOf(vc, 0, ps)
	fired := false
	var werr error
	r.dec.arm(before.Src, func() {
		fired = true
		if rp.W == 0 {
			return
		}
		evs := make([]*api.LogEvent, rp.W)
		for k := range evs {
			evs[k] = &api.LogEvent{Timestamp: raceTs + int64(k), Message: fmt.Sprintf("late-%d", k)}
		}
		var wr api.WriteResult
		if werr = r.srv.Client.Write(r.ctx, tags, "", evs, &wr); werr == nil {
			werr = wr.Err
		}
		if werr != nil {
			return
		}
		// the data has to be readable (flushed) before the lock is asked for
		if !WaitFor(deadline, func() bool {
			pi, err := r.srv.Partitions.GetParitionInfo(tags)
			return err == nil && pi.Records >= uint64(rp.W) && pi.Size > 0
		}) {
			werr = fmt.Errorf("the racing write did not become visible")
		}
	})
	if ps.Hold == 1 {
		if _, err := r.srv.TIndex.GetJournalTags(before.Src, true); err != nil {
			return nil, err
		}
	}
	stmt := stmtOf(vc, p, false)
	r.quiesce()
	_, xerr := r.exec(stmt)
	if ps.Hold == 1 {
		r.srv.TIndex.Release(before.Src)
	}
	r.dec.disarm(before.Src)
	if werr != nil {
		return nil, fmt.Errorf("race writer: %v", werr)
	}
	if xerr != nil {
		return nil, fmt.Errorf("%s: %v", stmt, xerr)
	}
	after, err := r.observe(vc, 0, ps)
	if err != nil {
		return nil, err
	}
	// what the writer appended: the chunks that were not there before
	old := map[uint64]bool{}
	for _, c := range before.Chunks {
		old[c.Id] = true
	}
	var w []string
	late := 0
	if after.Exists {
		for _, c := range after.Chunks {
			if !old[c.Id] {
				w = append(w, gChunk(c))
			}
		}
		for _, t := range after.Events {
			if t >= raceTs {
				late++
			}
		}
	} else if fired && rp.W > 0 {
		w = append(w, gChunk(ChunkObs{Id: 1 << 62, Size: 1, Recs: int64(rp.W), MinTs: raceTs, MaxTs: raceTs, Ts: []int64{raceTs}}))
	}
	var viol *Violation
	switch {
	case fired && rp.W > 0 && !after.Exists:
		viol = &Violation{Class: "dropped-with-concurrent-write", Detail: fmt.Sprintf("%s: a writer appended %d event(s) (acknowledged and readable) when deleteJournal asked for the exclusive lock; the partition was dropped with them", stmt, rp.W)}
	case fired && rp.W > 0 && late != rp.W:
		viol = &Violation{Class: "concurrent-write-lost", Detail: fmt.Sprintf("%s: a writer appended %d event(s) newer than BEFORE while the partition was being emptied; %d of them are readable afterwards", stmt, rp.W, late)}
	case !after.Exists && ps.Hold != 0:
		viol = &Violation{Class: "dropped-while-held", Detail: stmt + ": the partition was dropped while somebody held it"}
	}
	r.quiesce()
	r.srv.Exec(fmt.Sprintf("TRUNCATE vcase=%d MAXDBSIZE 0", vc))
	rp.P = &p
	rp.Stmt = stmt
	aft := gAfter([]PartObs{after})
	aft = aft[1 : len(aft)-1] // the single element of the list
	cs := Case{
		Coq:        GApp("KRace", gParams(p, false), gPart(0, ps, before), GList(w), GBool(fired), aft),
		Replay:     rp,
		NonTrivial: fired,
		Stream:     stream,
		Oracle:     viol,
		Tags:       []string{fmt.Sprintf("race-fired:%v", fired), fmt.Sprintf("race-w:%d", rp.W)},
		Key:        fmt.Sprintf("race|%+v|%+v|%d", p, ps, rp.W),
	}
	return []Case{cs}, nil
}
