package main

// Post-run observations of a truncation case, through the paths a user has: DESCRIBE PARTITION (cmdDescribePartition),
// SHOW PARTITIONS (cmdShowPartitions, partition.Service.Partitions) and RANGE reads of what is left (the time index of
// the remaining chunks after dropSortedChunks: getPosForGreaterOrEqualTime / getPosForLessTime). Oracle only: they say
// what the store looks like after TRUNCATE, which has to be what the full reads and the chunk list (GetParitionInfo) say.
// Also here: the journal controller decorator that injects "this partition cannot be opened" (nothing in /repo changes).

import (
	"context"
	"fmt"
	"regexp"
	"sort"
	"strings"
	"sync"
	"time"

	"github.com/logrange/logrange/api"
	"github.com/logrange/logrange/pkg/tmindex"
	"github.com/logrange/range/pkg/records/chunk"
	"github.com/logrange/range/pkg/records/journal"
	. "verifharness/common"
)

type jcDecor struct {
	journal.Controller
	mu   sync.Mutex
	fail map[string]bool
}

func (d *jcDecor) GetOrCreate(ctx context.Context, jn string) (journal.Journal, error) {
	d.mu.Lock()
	f := d.fail[jn]
	d.mu.Unlock()
	if f {
		return nil, fmt.Errorf("injected: the journal %s cannot be opened", jn)
	}
	return d.Controller.GetOrCreate(ctx, jn)
}

func (d *jcDecor) setFail(jn string, f bool) {
	d.mu.Lock()
	if f {
		d.fail[jn] = true
	} else {
		delete(d.fail, jn)
	}
	d.mu.Unlock()
}

func (r *runner) decorateJournals() {
	r.jdec = &jcDecor{Controller: r.srv.Partitions.Journals, fail: map[string]bool{}}
	r.srv.Partitions.Journals = r.jdec
}

var (
	descRecs   = regexp.MustCompile(`(?m)^Records:\s+(\d+)$`)
	descSize   = regexp.MustCompile(`(?m)^Size:\s+.*\((\d+)\)$`)
	descChunks = regexp.MustCompile(`(?m)^Chunks:\s+(\d+)$`)
	descChunk  = regexp.MustCompile(`(?m)^\tId:\s+([0-9A-Fa-f]+)\n\tRecords:\s+(\d+)\n\tSize:\s+.*\((\d+)\)$`)
	showLine   = regexp.MustCompile(`(?m)^\s*(\d+(?:\.\d+)?) (B|kB)\s+([\d,]+)\s+(\S.*)$`)
	showTotal  = regexp.MustCompile(`(?m)^total: (\d+) sources match the criteria`)
)

var vcaseRe = regexp.MustCompile(`vcase=(\d+)`)

// foreign: the server holds partitions of another case (e.g. a held one its clean-up could not drop)
func (r *runner) foreign(vc int) bool {
	out, err := r.exec("SHOW PARTITIONS")
	if err != nil {
		return true
	}
	for _, m := range vcaseRe.FindAllStringSubmatch(out, -1) {
		if int(num(m[1])) != vc {
			return true
		}
	}
	return false
}

func nondecreasing(ts []int64) bool {
	for i := 1; i < len(ts); i++ {
		if ts[i] < ts[i-1] {
			return false
		}
	}
	return true
}

func (r *runner) postChecks(vc int, parts []PartSpec, o *outcome, rng *Rng) {
	add := func(class, f string, a ...interface{}) {
		o.extra = append(o.extra, Violation{Class: class, Detail: o.stmt + ": afterwards " + fmt.Sprintf(f, a...)})
	}
	tagged := map[string]bool{}
	tag := func(t string) {
		if !tagged[t] {
			tagged[t] = true
			o.post = append(o.post, t)
		}
	}
	// ---- DESCRIBE PARTITION {tags}: the chunk list the admin prints is the chunk list that is left
	for i, ps := range parts {
		af := o.afterReal[i]
		out, err := r.exec(fmt.Sprintf("DESCRIBE PARTITION {%s}", tagsOf(vc, i, ps)))
		if !af.Exists {
			if err == nil {
				add("describe-partition-differs", "DESCRIBE PARTITION answers for partition %d, which was dropped: %q", i, out)
			}
			tag("describe:dropped")
			continue
		}
		if err != nil {
			add("describe-partition-differs", "DESCRIBE PARTITION fails for partition %d, which exists: %v", i, err)
			continue
		}
		tag("describe:kept")
		recs, size := int64(0), int64(0)
		for _, c := range af.Chunks {
			recs += c.Recs
			size += c.Size
		}
		m1, m2, m3 := descRecs.FindStringSubmatch(out), descSize.FindStringSubmatch(out), descChunks.FindStringSubmatch(out)
		if m1 == nil || m2 == nil || m3 == nil {
			add("describe-partition-differs", "DESCRIBE PARTITION of partition %d is not in the expected form: %q", i, out)
			continue
		}
		if num(m1[1]) != recs || num(m2[1]) != size || int(num(m3[1])) != len(af.Chunks) {
			add("describe-partition-differs", "DESCRIBE PARTITION of partition %d says %s records, %s bytes, %s chunks; it holds %d records, %d bytes, %d chunks", i, m1[1], m2[1], m3[1], recs, size, len(af.Chunks))
			continue
		}
		cm := descChunk.FindAllStringSubmatch(out, -1)
		if len(cm) != len(af.Chunks) {
			add("describe-partition-differs", "DESCRIBE PARTITION of partition %d lists %d chunks, it has %d", i, len(cm), len(af.Chunks))
			continue
		}
		for k, c := range af.Chunks {
			var id uint64
			fmt.Sscanf(cm[k][1], "%x", &id)
			if id != c.Id || num(cm[k][2]) != c.Recs || num(cm[k][3]) != c.Size {
				add("describe-partition-differs", "DESCRIBE PARTITION of partition %d, chunk #%d: id %s records %s size %s; the chunk list has id %X records %d size %d", i, k+1, cm[k][1], cm[k][2], cm[k][3], c.Id, c.Recs, c.Size)
				break
			}
		}
	}
	// ---- SHOW PARTITIONS vcase=N: exactly the partitions that are left, with their sizes and record counts
	if out, err := r.exec(fmt.Sprintf("SHOW PARTITIONS vcase=%d", vc)); err != nil {
		add("show-partitions-differs", "SHOW PARTITIONS vcase=%d fails: %v", vc, err)
	} else {
		type row struct {
			size  string
			recs  int64
			exact bool
		}
		got := map[int]row{}
		for _, m := range showLine.FindAllStringSubmatch(out, -1) {
			pm := pRe.FindStringSubmatch(strings.Trim(m[4], "{} "))
			if pm == nil {
				continue // the totals line
			}
			got[int(num(pm[1]))] = row{m[1], num(m[3]), m[2] == "B"}
		}
		left := 0
		for i := range parts {
			af := o.afterReal[i]
			g, ok := got[i]
			if !af.Exists {
				if ok {
					add("show-partitions-differs", "SHOW PARTITIONS lists partition %d, which was dropped", i)
				}
				continue
			}
			left++
			if !ok {
				add("show-partitions-differs", "SHOW PARTITIONS does not list partition %d, which exists: %q", i, out)
				continue
			}
			recs, size := int64(0), int64(0)
			for _, c := range af.Chunks {
				recs += c.Recs
				size += c.Size
			}
			if g.recs != recs || (g.exact && g.size != fmt.Sprint(size)) {
				add("show-partitions-differs", "SHOW PARTITIONS says partition %d has %s bytes, %d records; it holds %d bytes, %d records", i, g.size, g.recs, size, recs)
			}
		}
		if m := showTotal.FindStringSubmatch(out); m == nil || int(num(m[1])) != left {
			add("show-partitions-differs", "SHOW PARTITIONS vcase=%d counts %v sources, %d partitions are left: %q", vc, m, left, out)
		}
		tag("show-partitions")
	}
	// ---- RANGE reads of what is left: exactly the remaining events inside the range (C02 on the truncated partition).
	// Only partitions whose timestamps are non-decreasing in stored order (C02's recorded finding is about the others).
	for i := range parts {
		bf, af := o.before[i], o.afterReal[i]
		if !af.Exists || len(bf.Events) == 0 || !nondecreasing(bf.Events) {
			continue
		}
		removed := len(bf.Events) - len(af.Events)
		for k := 0; k < 2; k++ {
			var t1, t2 int64
			switch {
			case k == 0 && removed > 0:
				// from inside the removed data to inside what is left (or to the end of the removed data)
				t1 = bf.Events[rng.Intn(removed)] + int64(rng.PickInt(-1, 0, 0, 1))
				t2 = bf.Events[rng.Range(removed-1, len(bf.Events)-1)] + int64(rng.PickInt(-1, 0, 0, 1))
			default:
				a, b := rng.Intn(len(bf.Events)), rng.Intn(len(bf.Events))
				if a > b {
					a, b = b, a
				}
				t1, t2 = bf.Events[a]+int64(rng.PickInt(-1, 0, 0, 1)), bf.Events[b]+int64(rng.PickInt(-1, 0, 0, 1))
			}
			if t1 < 1 {
				t1 = 1
			}
			if t2 < t1 {
				t2 = t1
			}
			var want []int64
			for _, t := range af.Events {
				if t >= t1 && t <= t2 {
					want = append(want, t)
				}
			}
			q := &api.QueryRequest{Query: fmt.Sprintf(`SELECT FROM vcase=%d AND p=%d RANGE ["%d":"%d"]`, vc, i, t1, t2), Limit: 10000}
			res, err := r.query(q)
			var gotTs []int64
			if err != nil {
				add("range-after-truncate-differs", "%s fails: %v", q.Query, err)
				continue
			}
			for _, e := range res.Events {
				gotTs = append(gotTs, e.Timestamp)
			}
			if fmt.Sprint(gotTs) != fmt.Sprint(want) {
				add("range-after-truncate-differs", "%s returns %v; the partition (first %d of %d events removed) holds %v in that range", q.Query, gotTs, removed, len(bf.Events), want)
			}
			if removed > 0 {
				tag("range-read:after-removal")
			} else {
				tag("range-read:nothing-removed")
			}
		}
	}
	sort.Strings(o.post)
	r.quiesce()
}

// ---------------------------------------------------------------------------------------------------------------
// Stream "rebuild": the time-index rebuilder works on a chunk while TRUNCATE removes it. A rebuild is requested by a
// RANGE read or DESCRIBE PARTITION that finds an index unusable (partition.TmIndexRebuilder.RebuildIndex, asynchronous
// worker: tmirebuilder.serve reads the chunk list, then hands the chunk to TsIndexer.RebuildIndex). The time indexer the
// partition service uses is decorated (nothing in /repo changes): RebuildIndex(src, chunk) first runs the armed
// TRUNCATE - the interleaving "the statement runs between the worker's reading of the chunk list and its work on the
// chunk" - and then the real RebuildIndex under recover. Property: TRUNCATE removes whole oldest chunks whatever
// readers stand inside them; nothing of the server may fall over, what is left stays readable (RANGE reads exact).

type tsDecor struct {
	tmindex.TsIndexer
	mu    sync.Mutex
	armed map[string]func()
	res   map[string]chan string // src -> "" or the panic of the real RebuildIndex
}

func (d *tsDecor) RebuildIndex(ctx context.Context, src string, ck chunk.Chunk, force bool) {
	d.mu.Lock()
	f := d.armed[src]
	ch := d.res[src]
	delete(d.armed, src)
	delete(d.res, src)
	d.mu.Unlock()
	if f == nil {
		d.TsIndexer.RebuildIndex(ctx, src, ck, force)
		return
	}
	f()
	// the chunk files are removed (and the chunk object closed) by the journal controller shortly after DeleteChunks
	// returns: wait for that, it is the state in which the worker finds a removed chunk when it is a little late
	WaitFor(3*time.Second, func() bool {
		closed := false
		func() {
			defer func() {
				if recover() != nil {
					closed = true
				}
			}()
			ck.Id()
		}()
		return closed
	})
	msg := ""
	func() {
		defer func() {
			if p := recover(); p != nil {
				msg = fmt.Sprint(p)
			}
		}()
		d.TsIndexer.RebuildIndex(ctx, src, ck, force)
	}()
	ch <- msg
}

// quiesce waits until the time-index rebuilder has nothing queued or running. RANGE reads (the post-run observations,
// the parked readers with a RANGE) request rebuilds in the background; a TRUNCATE that happens to run while such a
// worker is between reading the chunk list and working on the chunk is the interleaving of the "rebuild" stream, where
// it is produced deliberately and has a verdict; everywhere else the statements run with the rebuilder idle, so that
// the cases of the other streams do not depend on that timing.
func (r *runner) quiesce() {
	if r.noQuiesce {
		return
	}
	WaitFor(deadline, func() bool { return len(r.srv.Partitions.VC02Queued()) == 0 })
}

func (r *runner) decorateTsIndexer() {
	r.tdec = &tsDecor{TsIndexer: r.srv.Partitions.TsIndexer, armed: map[string]func(){}, res: map[string]chan string{}}
	r.srv.Partitions.TsIndexer = r.tdec
}

func genRebuild(r *Rng) Replay {
	ps := PartSpec{Grp: "a", Batches: genPart(r, 0, r.PickInt(2, 3, 4), 1, 0)}
	// W: which chunk the rebuild is requested for (0 = the oldest, which the statement removes; 9 = the newest, which stays);
	// BEFORE -2 = right behind the newest event of the first chunk, -3 = behind everything (the partition is emptied and dropped)
	p := Params{SrcForm: "expr", Min: -1, Max: -1, Before: int64(r.PickInt(-2, -2, -3)), MaxDb: -1}
	return Replay{Kind: "rebuild", Parts: []PartSpec{ps}, P: &p, W: r.PickInt(0, 0, 0, 9)}
}

func (r *runner) runRebuild(rp Replay, stream string) ([]Case, error) {
	vc := int(atomicNext())
	ps := rp.Parts[0]
	if err := r.build(vc, rp.Parts); err != nil {
		return nil, err
	}
	before, err := r.observe(vc, 0, ps)
	if err != nil {
		return nil, err
	}
	if !before.Exists || len(before.Chunks) == 0 {
		return nil, fmt.Errorf("rebuild: the partition was not built")
	}
	p := *rp.P
	switch p.Before {
	case -2:
		p.Before = before.Chunks[0].MaxTs + 1
	case -3:
		p.Before = before.Chunks[len(before.Chunks)-1].MaxTs + 1000
	}
	which := 0
	if rp.W != 0 {
		which = len(before.Chunks) - 1
	}
	stmt := stmtOf(vc, p, false)
	var out string
	var xerr error
	done := make(chan string, 1)
	r.tdec.mu.Lock()
	r.tdec.armed[before.Src] = func() { out, xerr = r.exec(stmt) }
	r.tdec.res[before.Src] = done
	r.tdec.mu.Unlock()
	r.srv.Partitions.GetTmIndexRebuilder().RebuildIndex(before.Src, chunk.Id(before.Chunks[which].Id), true)
	var pmsg string
	select {
	case pmsg = <-done:
	case <-time.After(deadline):
		r.tdec.mu.Lock()
		delete(r.tdec.armed, before.Src)
		delete(r.tdec.res, before.Src)
		r.tdec.mu.Unlock()
		return nil, fmt.Errorf("rebuild: the rebuilder did not pick the request up")
	}
	if xerr != nil {
		return nil, fmt.Errorf("%s: %v", stmt, xerr)
	}
	lines, err := parseReport(out)
	if err != nil {
		return nil, err
	}
	var viol *Violation
	if pmsg != "" {
		// the real RebuildIndex panicked holding the time index's lock: this server is of no use any more
		r.broken = true
		rp.P = &p
		rp.Stmt = stmt
		viol = &Violation{Class: "index-rebuild-panics-on-truncated-chunk", Detail: fmt.Sprintf("%s ran after the index rebuilder had read the chunk list of the partition and before it worked on chunk #%d of %d (%X): TsIndexer.RebuildIndex panics: %s (in the server this is a goroutine without recover: the process dies)", stmt, which+1, len(before.Chunks), before.Chunks[which].Id, pmsg)}
		psm := ps
		psm.Hold = 1
		return []Case{{Coq: GApp("KTruncReport", gParams(p, false), GList([]string{gPartP(0, psm, before, p)}), gLines(lines)),
			Replay: rp, NonTrivial: true, Stream: stream, Oracle: viol, Tags: []string{"rebuild-panicked"}, Key: fmt.Sprintf("rebuild|%+v|%+v|%d", p, ps, rp.W)}}, nil
	}
	after, err := r.observe(vc, 0, ps)
	if err != nil {
		return nil, err
	}
	o := &outcome{stmt: stmt, p: p, before: []PartObs{before}, afterReal: []PartObs{after}}
	r.postChecks(vc, rp.Parts, o, NewRng(rp.PSeed^uint64(vc)))
	if len(o.extra) > 0 {
		viol = &o.extra[0]
	}
	r.quiesce()
	r.srv.Exec(fmt.Sprintf("TRUNCATE vcase=%d MAXDBSIZE 0", vc))
	rp.P = &p
	rp.Stmt = stmt
	removedChunk := !after.Exists || (len(after.Chunks) > 0 && after.Chunks[0].Id != before.Chunks[which].Id && which == 0)
	cs := Case{
		// the rebuilder's worker holds the partition while the statement runs (tmirebuilder.serve: GetJournalTags(src, true))
		Coq:        GApp("KTrunc", gParams(p, false), GList([]string{gPartP(0, PartSpec{Grp: "a", Hold: 1}, before, p)}), gLines(lines), gAfter(o.afterReal), "[]"),
		Replay:     rp,
		NonTrivial: removedChunk,
		Stream:     stream,
		Oracle:     viol,
		Tags:       append([]string{fmt.Sprintf("rebuild-of-removed-chunk:%v", removedChunk)}, o.post...),
		Key:        fmt.Sprintf("rebuild|%+v|%+v|%d", p, ps, rp.W),
	}
	return []Case{cs}, nil
}
