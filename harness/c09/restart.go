package main

// Stream "stopstart": an acknowledged TRUNCATE followed at once by a graceful stop of the server and a start on what the
// stopped process left on disk. The journal controller of the dependency removes the files of a deleted chunk in a
// goroutine of its own (fsChnksController.waitAndNotifyDeletedChunk: it waits for the chunk's write lock, i.e. for every
// reader of the chunk, closes the chunk and only then calls back partition.Service.deleteChunk, which unlinks the files).
// What the stopped process leaves behind is taken the moment Shutdown returns (a copy of the data directory: an
// in-process "exit"), the second server runs on that copy. Property: what TRUNCATE reported as removed is removed - a
// clean restart must not bring the chunks (and their events) back.

import (
	"context"
	"fmt"
	"os"
	"os/exec"

	"github.com/logrange/logrange/api"
	. "verifharness/common"
)

// W: 0 = nobody reads the partition; 1 = a cursor of the server (kept by the cursor provider: a request with a wait timeout)
// stands inside the first chunk; 2 = a reader outside the server's knowledge holds an iterator of the first chunk (read lock)
func stopStartCorpus() []Replay {
	var out []Replay
	// (W = 2, the reader the server does not know about, is kept for replays and experiments only: no such reader exists in
	// a running server, and a Shutdown that waits for the deletions would wait its full 10 s for it)
	for _, w := range []int{1, 0, 1} {
		out = append(out, Replay{Kind: "stopstart", Parts: []PartSpec{{Grp: "a", Batches: mono(0, 8, 36, 1, 0)}},
			P: &Params{SrcForm: "expr", Min: -1, Max: -1, Before: 45, MaxDb: -1}, W: w})
	}
	return out
}

func runStopStart(rp Replay, stream string) ([]Case, error) {
	dir := TempDir("c09ss")
	snap := dir + "-snap"
	defer os.RemoveAll(dir)
	defer os.RemoveAll(snap)
	srv, err := StartServer(ServerOpts{Dir: dir, MaxChunkSize: maxChunkSize})
	if err != nil {
		return nil, err
	}
	stopped := false
	defer func() {
		if !stopped {
			srv.Stop()
		}
	}()
	r := &runner{srv: srv, ctx: context.Background()}
	vc := int(atomicNext())
	ps := rp.Parts[0]
	if err := r.build(vc, rp.Parts); err != nil {
		return nil, err
	}
	before, err := r.observe(vc, 0, ps)
	if err != nil {
		return nil, err
	}
	if !before.Exists || len(before.Chunks) < 2 {
		return nil, fmt.Errorf("stopstart: the partition was not built")
	}
	p := *rp.P
	holder := "nobody"
	switch rp.W {
	case 1:
		holder = "a cursor kept by the server"
		q := &api.QueryRequest{Query: fmt.Sprintf("SELECT FROM vcase=%d AND p=0", vc), Limit: 1, WaitTimeout: 1}
		if res, err := r.query(q); err != nil || len(res.Events) != 1 {
			return nil, fmt.Errorf("stopstart: parking the cursor: %v", err)
		}
	case 2:
		holder = "a reader holding an iterator of the first chunk"
		_, j, err := srv.Partitions.GetJournal(r.ctx, before.Src)
		if err != nil {
			return nil, err
		}
		cks, err := j.Chunks().Chunks(r.ctx)
		if err != nil || len(cks) == 0 {
			srv.Partitions.Release(before.Src)
			return nil, fmt.Errorf("stopstart: chunk list: %v", err)
		}
		it, err := cks[0].Iterator()
		if err != nil {
			srv.Partitions.Release(before.Src)
			return nil, err
		}
		if _, err := it.Get(r.ctx); err != nil { // takes the chunk's read lock and keeps it
			srv.Partitions.Release(before.Src)
			return nil, err
		}
		srv.Partitions.Release(before.Src)
		defer it.Close()
	}
	stmt := stmtOf(vc, p, false)
	out, xerr := r.exec(stmt)
	if xerr != nil {
		return nil, fmt.Errorf("%s: %v", stmt, xerr)
	}
	lines, err := parseReport(out)
	if err != nil {
		return nil, err
	}
	removed := 0
	for _, l := range lines {
		removed += int(l.Chunks)
	}
	// the acknowledged statement, then at once a graceful stop; what the process leaves on disk when Shutdown has returned
	srv.Stop()
	stopped = true
	// (files may vanish while they are copied - the deletion goroutines of the stopped server are still running in this
	// process: every such intermediate state is one a process exit could have left)
	if o, err := exec.Command("cp", "-r", dir, snap).CombinedOutput(); err != nil {
		if _, serr := os.Stat(snap); serr != nil {
			return nil, fmt.Errorf("snapshot: %v %s", err, o)
		}
	}
	rp.P = &p
	rp.Stmt = stmt
	broken := func(what string) ([]Case, error) {
		v := &Violation{Class: "acknowledged-removal-undone-by-restart", Detail: fmt.Sprintf("%s reported %d chunk(s) removed (%s read the partition); the server was stopped gracefully right after the answer; on what it left on disk %s", stmt, removed, holder, what)}
		return []Case{{Coq: GApp("KTruncReport", gParams(p, false), GList([]string{gPartP(0, ps, before, p)}), gLines(lines)), Replay: rp, NonTrivial: true,
			Stream: stream, Oracle: v, Tags: []string{fmt.Sprintf("stopstart-holder:%d", rp.W), "stopstart-unusable"}, Key: fmt.Sprintf("stopstart|%+v|%d|%d", p, rp.W, vc)}}, nil
	}
	srv2, err := StartServer(ServerOpts{Dir: snap, MaxChunkSize: maxChunkSize})
	if err != nil {
		return broken(fmt.Sprintf("the next start fails: %v", err))
	}
	defer srv2.Stop()
	r2 := &runner{srv: srv2, ctx: context.Background()}
	after, err := r2.observe(vc, 0, ps)
	if err != nil {
		return broken(fmt.Sprintf("the partition cannot be read after the next start: %v", err))
	}
	var viol *Violation
	back := 0
	if after.Exists {
		for _, c := range after.Chunks {
			for _, b := range before.Chunks[:minInt(removed, len(before.Chunks))] {
				if c.Id == b.Id {
					back++
				}
			}
		}
	}
	if back > 0 {
		viol = &Violation{Class: "acknowledged-removal-undone-by-restart", Detail: fmt.Sprintf("%s reported %d chunk(s) removed (%s read the partition); the server was stopped gracefully right after the answer and started again on what it left on disk: %d of the removed chunks are back, the partition holds %d events instead of %d", stmt, removed, holder, back, len(after.Events), len(before.Events)-eventsIn(before.Chunks[:minInt(removed, len(before.Chunks))]))}
	}
	psm := ps
	if rp.W == 1 {
		psm.Hold = 0
	}
	coq := GApp("KTrunc", gParams(p, false), GList([]string{gPartP(0, psm, before, p)}), gLines(lines), gAfter([]PartObs{after}), "[]")
	if back > 0 {
		// what came back is the oracle's finding; K still compares the report the statement printed
		coq = GApp("KTruncReport", gParams(p, false), GList([]string{gPartP(0, psm, before, p)}), gLines(lines))
	}
	cs := Case{
		Coq:        coq,
		Replay:     rp,
		NonTrivial: removed > 0,
		Stream:     stream,
		Oracle:     viol,
		Tags:       []string{fmt.Sprintf("stopstart-holder:%d", rp.W), fmt.Sprintf("stopstart-chunks-back:%d", back)},
		Key:        fmt.Sprintf("stopstart|%+v|%d|%d", p, rp.W, vc),
	}
	return []Case{cs}, nil
}

func eventsIn(cs []ChunkObs) int {
	n := 0
	for _, c := range cs {
		n += int(c.Recs)
	}
	return n
}

// ---------------------------------------------------------------------------------------------------------------
// "blind" cases: the partitions are written, the server is stopped, the snapshot of the time index (cindex/cindex.dat,
// written by a clean shutdown only) is taken away and the server is started again on the same directory: the start after
// a crash. The time index then knows nothing about the chunks; SyncChunks fills the time range of a chunk from its first
// and its last record (cindex.lightFill), swapping the two when the first record is the newer one (fresh data followed by
// late data). TRUNCATE ... BEFORE decides on that range. The generator of these cases keeps the newest event of every
// chunk at one of its ends (C02's recorded finding is about a newest event in the middle, which lightFill cannot see).
func runBlind(rp *Replay) (*outcome, error) {
	dir := TempDir("c09blind")
	defer os.RemoveAll(dir)
	srv, err := StartServer(ServerOpts{Dir: dir, MaxChunkSize: maxChunkSize})
	if err != nil {
		return nil, err
	}
	vc := int(atomicNext())
	r1 := &runner{srv: srv, ctx: context.Background()}
	if err := r1.build(vc, rp.Parts); err != nil {
		srv.Stop()
		return nil, err
	}
	srv.Stop()
	if err := os.Remove(dir + "/cindex/cindex.dat"); err != nil && !os.IsNotExist(err) {
		return nil, err
	}
	srv2, err := StartServer(ServerOpts{Dir: dir, MaxChunkSize: maxChunkSize})
	if err != nil {
		return nil, fmt.Errorf("blind: the start without cindex.dat failed: %v", err)
	}
	defer srv2.Stop()
	// nothing is rebuilt in the background: DESCRIBE / GetParitionInfo and RANGE reads ask for a rebuild of every chunk without an index,
	// and a served rebuild replaces lightFill's range by the exact one - then the statement would not see the range this case is about
	srv2.Partitions.VC02HoldRebuilder()
	r2 := &runner{srv: srv2, ctx: context.Background(), noQuiesce: true}
	r2.decorate()
	r2.decorateJournals()
	r2.decorateTsIndexer()
	return r2.runBuilt(rp, vc)
}

// genBlind: chunks of exactly four records (messages of 12 bytes), timestamps increasing, except that in some chunks the
// newest record comes first (fresh event first, late data after), also with the oldest last, or the two oldest swapped
func genBlind(r *Rng) Replay {
	np := r.PickInt(1, 1, 2)
	parts := make([]PartSpec, np)
	for i := range parts {
		nch := r.PickInt(2, 3, 4)
		t := int64(10 + i)
		var bs [][]Ev
		for c := 0; c < nch; c++ {
			ts := make([]int64, 4)
			for k := range ts {
				ts[k] = t
				t += 10 * int64(r.Range(1, 3))
			}
			switch r.Intn(4) {
			case 0: // newest first
				ts = []int64{ts[3], ts[0], ts[1], ts[2]}
			case 1: // newest first and oldest last
				ts = []int64{ts[3], ts[1], ts[2], ts[0]}
			case 2: // newest last, the oldest not first (the lower end of the range is too high: harmless for BEFORE)
				ts = []int64{ts[1], ts[0], ts[2], ts[3]}
			}
			var b []Ev
			for _, x := range ts {
				b = append(b, Ev{Ts: x, Len: 12})
			}
			if r.Chance(1, 2) {
				bs = append(bs, b[:1], b[1:]) // the fresh event in a write call of its own
			} else {
				bs = append(bs, b)
			}
		}
		parts[i] = PartSpec{Grp: "a", Batches: bs}
	}
	return Replay{Kind: "trunc", Parts: parts, PSeed: r.U64(), Blind: true, TsClass: "small"}
}

func blindCorpus() []Replay {
	var out []Replay
	// chunk 1 = 50,10,20,30 (the fresh event first), chunk 2 = 60..90: BEFORE 31 and 45 stand behind the chunk's last event but not behind its
	// newest: nothing may go; BEFORE 51 takes chunk 1. The same with the oldest event last (50,20,30,10).
	for _, first := range [][]int64{{50, 10, 20, 30}, {50, 20, 30, 10}} {
		for _, b := range []int64{31, 45, 50, 51} {
			var c1, c2 []Ev
			for _, x := range first {
				c1 = append(c1, Ev{Ts: x, Len: 12})
			}
			for _, x := range []int64{60, 70, 80, 90} {
				c2 = append(c2, Ev{Ts: x, Len: 12})
			}
			out = append(out, Replay{Kind: "trunc", Parts: []PartSpec{{Grp: "a", Batches: [][]Ev{c1, c2}}}, Blind: true,
				P: &Params{SrcForm: "expr", Min: -1, Max: -1, Before: b, MaxDb: -1}})
		}
	}
	return out
}
