package main

// Stream "lines": a log file read through the collector's real line parser (parser.NewLineParser over the default
// date parser): the dated lines carry, at their start, the text of an instant in one format of the collector's list;
// between them runs of lines without any date (continuation lines, stack traces). K: model/LineParse.v is run on the
// same lines. O: a dated line gets the instant its text denotes.

import (
	"context"
	"fmt"
	"io"
	"io/ioutil"
	"os"
	"path/filepath"
	"time"

	"github.com/logrange/logrange/pkg/scanner/parser"
	"github.com/logrange/logrange/pkg/scanner/parser/date"
	. "verifharness/common"
)

type FileLine struct {
	Dated bool   `json:"dated"`
	Civil *Civil `json:"civil,omitempty"`
	Text  string `json:"text"` // without the newline
}

var undated = []string{"  at some.stack.Frame(x)", "Caused by: java.lang.IllegalStateException", "\tcontinued", "--- end of dump ---", "", "   "}

// cleanFormat: the collector's list parses the format's own text to the denoted instant (not one of the recorded
// first-match classes), so a wrong date of such a line in a file is the line parser's doing
func cleanFormat(k int, cv Civil) bool {
	fi := analyse(terms, lists[0][k])
	if !fi.known {
		return false
	}
	text := fi.render(terms, cv) + " msg"
	var tm time.Time
	var ff *date.Format
	now := withNow(func() { tm, ff = parsers[0].Parse([]byte(text)) })
	es, en := fi.expected(cv, now)
	return ff != nil && tm.Unix() == es && int64(tm.Nanosecond()) == en
}

func genLines(r *Rng, now Now) (int, []FileLine) {
	for try := 0; try < 50; try++ {
		k := r.Intn(len(lists[0]))
		fi := analyse(terms, lists[0][k])
		if !fi.known {
			continue
		}
		if !cleanFormat(k, fit(r, fi, fixedCivils()[0], now, false)) {
			continue
		}
		var ls []FileLine
		n := r.Range(12, 70)
		ok := true
		for len(ls) < n && ok {
			// a run of dated lines
			for i := r.PickInt(1, 1, 2, 3, 6, 12, 24); i > 0; i-- {
				cv := fit(r, fi, randCivil(r, !fi.twoDigitYear), now, false)
				if !cleanFormat(k, cv) {
					ok = false
					break
				}
				ls = append(ls, FileLine{Dated: true, Civil: &cv, Text: fi.render(terms, cv) + r.PickStr(" msg", " INFO started", ": x=y", " [main] done")})
			}
			// a run of undated lines
			for i := r.PickInt(0, 1, 1, 1, 2, 3, 4, 9, 10, 11, 12, 25); i > 0; i-- {
				ls = append(ls, FileLine{Text: undated[r.Intn(len(undated))]})
			}
		}
		if ok {
			return k, ls
		}
	}
	return -1, nil
}

// caseLines reads the file; seek >= 0: after the last line SetStreamPos goes back to the start of line `seek` (the position
// GetStreamPos reported there) and the rest is read again: the parser's detection state survives the seek, so the records are
// dated as if those lines were appended to the file (which is what K and the oracle are given).
func caseLines(k int, ls0 []FileLine, seek int) (Case, error) {
	ls := ls0
	dir := TempDir("c20lines")
	defer os.RemoveAll(dir)
	fn := filepath.Join(dir, "app.log")
	var data []byte
	for _, l := range ls {
		data = append(data, []byte(l.Text+"\n")...)
	}
	if err := ioutil.WriteFile(fn, data, 0644); err != nil {
		return Case{}, err
	}
	var texts []string
	var dates []time.Time
	var perr error
	var posViol *Violation
	if _, err := parser.NewLineParser(filepath.Join(dir, "no-such-file.log"), date.NewDefaultParser(), 4096); err == nil {
		posViol = &Violation{Class: "collector-line-parser-opens-missing-file", Detail: "NewLineParser on a missing file returned no error"}
	}
	now := withNow(func() {
		texts, dates, perr = nil, nil, nil
		lp, err := parser.NewLineParser(fn, date.NewDefaultParser(), 4096)
		if err != nil {
			perr = err
			return
		}
		defer lp.Close()
		pos := []int64{lp.GetStreamPos()}
		readAll := func() bool {
			for {
				rec, err := lp.NextRecord(context.Background())
				if err == io.EOF {
					return true
				}
				if err != nil {
					perr = err
					return false
				}
				texts = append(texts, string(rec.Data))
				dates = append(dates, rec.Date)
				pos = append(pos, lp.GetStreamPos())
			}
		}
		if !readAll() {
			return
		}
		// the stream position after record i is the number of bytes of the lines read so far
		want := int64(0)
		for i, l := range ls0 {
			if pos[i] != want && posViol == nil {
				posViol = &Violation{Class: "collector-line-stream-pos", Detail: fmt.Sprintf("before line %d GetStreamPos() = %d, the lines before it have %d bytes", i, pos[i], want)}
			}
			want += int64(len(l.Text) + 1)
		}
		st := lp.GetStats()
		if total, _, _ := st.FmtStats.Count(); posViol == nil && (total != int64(len(ls0)) || st.FileStats.Pos != lp.GetStreamPos() || st.FileStats.Size != int64(len(data))) {
			posViol = &Violation{Class: "collector-line-stats", Detail: fmt.Sprintf("GetStats after %d lines of %d bytes: %d hits, pos %d, size %d", len(ls0), len(data), total, st.FileStats.Pos, st.FileStats.Size)}
		}
		if seek >= 0 && seek < len(ls0) {
			if err := lp.SetStreamPos(pos[seek]); err != nil {
				perr = err
				return
			}
			if lp.GetStreamPos() != pos[seek] && posViol == nil {
				posViol = &Violation{Class: "collector-line-stream-pos", Detail: fmt.Sprintf("SetStreamPos(%d), GetStreamPos() = %d", pos[seek], lp.GetStreamPos())}
			}
			readAll()
		}
	})
	if perr != nil {
		return Case{}, perr
	}
	if seek >= 0 && seek < len(ls0) {
		ls = append(append([]FileLine{}, ls0...), ls0[seek:]...)
	}
	if len(texts) != len(ls) {
		return Case{}, fmt.Errorf("lines: %d records for %d lines", len(texts), len(ls))
	}
	obs := make([]string, len(dates))
	for i, d := range dates {
		if d.IsZero() {
			obs[i] = GNone
		} else {
			obs[i] = GSome(gInst(d))
		}
	}
	// oracle
	var viol *Violation
	fi := analyse(terms, lists[0][k])
	run, maxRun := 0, 0 // undated lines in a row now / longest such run since the last correctly dated line
	skipped := false
	for i, l := range ls {
		if !l.Dated {
			run++
			if run > maxRun {
				maxRun = run
			}
			continue
		}
		run = 0
		es, en := fi.expected(*l.Civil, now)
		if !dates[i].IsZero() && dates[i].Unix() == es && int64(dates[i].Nanosecond()) == en {
			// the right date; it shows that the parser looked at the line unless it is also the date of the record before
			// (a skipping parser hands out the last detected date: the same lines read again after a seek coincide with it)
			if i == 0 || !dates[i].Equal(dates[i-1]) {
				maxRun = 0
			}
			continue
		}
		got := "no date"
		if !dates[i].IsZero() {
			got = dates[i].UTC().Format(time.RFC3339Nano)
		}
		det := fmt.Sprintf("line %d %q of a file whose dated lines are all in format %q got %s; want %s", i, l.Text, lists[0][k], got, time.Unix(es, en).UTC().Format(time.RFC3339Nano))
		if maxRun >= 10 {
			skipped = true
			if viol == nil {
				viol = &Violation{Class: "collector-line-not-dated-after-10-undated-lines", Detail: det + fmt.Sprintf(" (%d lines without a date in a row before it)", maxRun)}
			}
			continue
		}
		viol = &Violation{Class: "collector-line-wrong-date", Detail: det + fmt.Sprintf(" (at most %d lines without a date in a row since the last correctly dated line)", maxRun)}
		break
	}
	if viol == nil {
		viol = posViol
	}
	return Case{Coq: GApp("KLines", gNow(now), GListStr(texts), GList(obs)), Replay: Replay{Kind: "lines", K: k, Lines: ls0, Seek: seek + 1},
		NonTrivial: true, Stream: "lines", Oracle: viol, Tags: []string{fmt.Sprintf("lines-skipped:%v", skipped), fmt.Sprintf("lines-seek:%v", seek >= 0)}}, nil
}
