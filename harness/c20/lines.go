package main

// Stream "lines": a log file read through the collector's real line parser (parser.NewLineParser over the default
// date parser): the dated lines carry, at their start, the text of an instant in one format of the collector's list;
// between them runs of lines without any date (continuation lines, stack traces). K: model/LineParse.v is run on the
// same lines. O: a dated line gets the instant its text denotes.

import (
	"context"
	"fmt"
	"io"
	"io/ioutil"
	"os"
	"path/filepath"
	"time"

	"github.com/logrange/logrange/pkg/scanner/parser"
	"github.com/logrange/logrange/pkg/scanner/parser/date"
	. "verifharness/common"
)

type FileLine struct {
	Dated bool   `json:"dated"`
	Civil *Civil `json:"civil,omitempty"`
	Text  string `json:"text"` // without the newline
}

var undated = []string{"  at some.stack.Frame(x)", "Caused by: java.lang.IllegalStateException", "\tcontinued", "--- end of dump ---", "", "   "}

// cleanFormat: the collector's list parses the format's own text to the denoted instant (not one of the recorded
// first-match classes), so a wrong date of such a line in a file is the line parser's doing
func cleanFormat(k int, cv Civil) bool {
	fi := analyse(terms, lists[0][k])
	if !fi.known {
		return false
	}
	text := fi.render(terms, cv) + " msg"
	var tm time.Time
	var ff *date.Format
	now := withNow(func() { tm, ff = parsers[0].Parse([]byte(text)) })
	es, en := fi.expected(cv, now)
	return ff != nil && tm.Unix() == es && int64(tm.Nanosecond()) == en
}

func genLines(r *Rng, now Now) (int, []FileLine) {
	for try := 0; try < 50; try++ {
		k := r.Intn(len(lists[0]))
		fi := analyse(terms, lists[0][k])
		if !fi.known {
			continue
		}
		if !cleanFormat(k, fit(r, fi, fixedCivils()[0], now, false)) {
			continue
		}
		var ls []FileLine
		n := r.Range(12, 45)
		ok := true
		for len(ls) < n && ok {
			// a run of dated lines
			for i := r.PickInt(1, 1, 2, 3, 6); i > 0; i-- {
				cv := fit(r, fi, randCivil(r, !fi.twoDigitYear), now, false)
				if !cleanFormat(k, cv) {
					ok = false
					break
				}
				ls = append(ls, FileLine{Dated: true, Civil: &cv, Text: fi.render(terms, cv) + r.PickStr(" msg", " INFO started", ": x=y", " [main] done")})
			}
			// a run of undated lines
			for i := r.PickInt(0, 1, 1, 1, 2, 3, 4, 9, 10, 11, 12, 25); i > 0; i-- {
				ls = append(ls, FileLine{Text: undated[r.Intn(len(undated))]})
			}
		}
		if ok {
			return k, ls
		}
	}
	return -1, nil
}

func caseLines(k int, ls []FileLine) (Case, error) {
	dir := TempDir("c20lines")
	defer os.RemoveAll(dir)
	fn := filepath.Join(dir, "app.log")
	var data []byte
	for _, l := range ls {
		data = append(data, []byte(l.Text+"\n")...)
	}
	if err := ioutil.WriteFile(fn, data, 0644); err != nil {
		return Case{}, err
	}
	var texts []string
	var dates []time.Time
	var perr error
	now := withNow(func() {
		texts, dates, perr = nil, nil, nil
		lp, err := parser.NewLineParser(fn, date.NewDefaultParser(), 4096)
		if err != nil {
			perr = err
			return
		}
		defer lp.Close()
		for {
			rec, err := lp.NextRecord(context.Background())
			if err == io.EOF {
				break
			}
			if err != nil {
				perr = err
				return
			}
			texts = append(texts, string(rec.Data))
			dates = append(dates, rec.Date)
		}
	})
	if perr != nil {
		return Case{}, perr
	}
	if len(texts) != len(ls) {
		return Case{}, fmt.Errorf("lines: %d records for %d lines", len(texts), len(ls))
	}
	obs := make([]string, len(dates))
	for i, d := range dates {
		if d.IsZero() {
			obs[i] = GNone
		} else {
			obs[i] = GSome(gInst(d))
		}
	}
	// oracle
	var viol *Violation
	fi := analyse(terms, lists[0][k])
	run, maxRun := 0, 0 // undated lines in a row now / longest such run since the last correctly dated line
	skipped := false
	for i, l := range ls {
		if !l.Dated {
			run++
			if run > maxRun {
				maxRun = run
			}
			continue
		}
		run = 0
		es, en := fi.expected(*l.Civil, now)
		if !dates[i].IsZero() && dates[i].Unix() == es && int64(dates[i].Nanosecond()) == en {
			maxRun = 0
			continue
		}
		got := "no date"
		if !dates[i].IsZero() {
			got = dates[i].UTC().Format(time.RFC3339Nano)
		}
		det := fmt.Sprintf("line %d %q of a file whose dated lines are all in format %q got %s; want %s", i, l.Text, lists[0][k], got, time.Unix(es, en).UTC().Format(time.RFC3339Nano))
		if maxRun >= 10 {
			skipped = true
			if viol == nil {
				viol = &Violation{Class: "collector-line-not-dated-after-10-undated-lines", Detail: det + fmt.Sprintf(" (%d lines without a date in a row before it)", maxRun)}
			}
			continue
		}
		viol = &Violation{Class: "collector-line-wrong-date", Detail: det + fmt.Sprintf(" (at most %d lines without a date in a row since the last correctly dated line)", maxRun)}
		break
	}
	return Case{Coq: GApp("KLines", gNow(now), GListStr(texts), GList(obs)), Replay: Replay{Kind: "lines", K: k, Lines: ls},
		NonTrivial: true, Stream: "lines", Oracle: viol, Tags: []string{fmt.Sprintf("lines-skipped:%v", skipped)}}, nil
}
