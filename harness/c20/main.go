// C20 harness: drives the real date parser (date.NewParser(...).Parse for the collector's list and
// for single formats) and the real LQL date-time literal path (parseLqlDateTime directly, through
// ParseLql RANGE and through a compiled `ts` condition) on generated instants written in every
// supported format, records the observations as C20K.case terms, and evaluates the property oracle:
// the parsed instant is the instant the text denotes, to the format's precision.
package main

import (
	"fmt"
	"math"
	"strconv"
	"strings"
	"time"

	"github.com/logrange/logrange/pkg/lql"
	"github.com/logrange/logrange/pkg/model"
	"github.com/logrange/logrange/pkg/scanner/parser/date"
	. "verifharness/common"
)

type Replay struct {
	Kind     string     `json:"kind"` // tables | compile | self | one | all | lql | lqlself | rel
	List     int        `json:"list,omitempty"`
	K        int        `json:"k,omitempty"`
	Format   string     `json:"format,omitempty"`
	Civil    *Civil     `json:"civil,omitempty"`
	Text     string     `json:"text,omitempty"`
	Trailing string     `json:"trailing,omitempty"`
	Exact    bool       `json:"exact,omitempty"`
	Lines    []FileLine `json:"lines,omitempty"`
	User     []string   `json:"user,omitempty"`
	Seek     int        `json:"seek,omitempty"` // 1 + the line to seek back to after the last line; 0 = no seek
}

var (
	terms   [][3]string
	lists   [2][]string
	parsers [2]interface {
		Parse(buf []byte) (time.Time, *date.Format)
		VC20Formats() []*date.Format
	}
)

func setup() {
	time.Local = time.UTC // zone abbreviations and "today" are then independent of the machine
	terms = date.VC20Terms()
	lists[0] = date.KnownFormats
	lists[1] = lql.VC20LqlFormats()
	parsers[0] = date.NewParser(lists[0]...)
	parsers[1] = date.NewParser(lists[1]...)
}

func today() Now {
	n := time.Now().UTC()
	return Now{n.Year(), int(n.Month()), n.Day()}
}

// withNow runs f with a stable notion of today (re-runs it if midnight passed meanwhile)
func withNow(f func()) Now {
	for {
		a := today()
		f()
		if b := today(); a == b {
			return a
		}
	}
}

func gNow(n Now) string { return GTuple(GZ(int64(n.Y)), GZ(int64(n.Mo)), GZ(int64(n.D))) }
func gCivil(c Civil) string {
	return GApp("mkCivil", GZ(int64(c.Y)), GZ(int64(c.Mo)), GZ(int64(c.D)), GZ(int64(c.H)), GZ(int64(c.Mi)), GZ(int64(c.S)),
		GZ(int64(c.Ms)), GZ(int64(c.Off)), GStr(c.Abbr))
}
func gInst(t time.Time) string { return GTuple(GZ(t.Unix()), GZ(int64(t.Nanosecond()))) }

func fmtIndex(fs []*date.Format, f *date.Format) int {
	for i := range fs {
		if fs[i] == f {
			return i
		}
	}
	return -1
}

func slug(f string) string { return strings.Replace(f, " ", "_", -1) }

// ---------------------------------------------------------------- the cases

func caseTables() Case {
	ts := make([]string, len(terms))
	for i, t := range terms {
		ts[i] = GTuple(GStr(t[0]), GStr(t[1]), GStr(t[2]))
	}
	return Case{Coq: GApp("KTables", GList(ts), GListStr(lists[0]), GListStr(lists[1])), Replay: Replay{Kind: "tables"},
		NonTrivial: true, Stream: "tables", Key: "tables"}
}

func caseCompile(f string) Case {
	fo := date.NewParser(f).VC20Formats()[0]
	hl, hy, nd := fo.VC20Flags()
	return Case{Coq: GApp("KCompile", GStr(f), GStr(fo.VC20Layout()), GStr(fo.VC20Regexp()), GBool(hl), GBool(hy), GBool(nd)),
		Replay: Replay{Kind: "compile", Format: f}, NonTrivial: true, Stream: "compile"}
}

// caseSelf: the k-th format of the collector list (list 0) or of the LQL list parsed WITHOUT lower-casing (list 1)
func caseSelf(li, k int, c Civil, trailing string) Case {
	f := lists[li][k]
	fi := analyse(terms, f)
	text := fi.render(terms, c)
	var tm time.Time
	var ff *date.Format
	now := withNow(func() { tm, ff = parsers[li].Parse([]byte(text + trailing)) })
	obs := GNone
	j := -1
	if ff != nil {
		j = fmtIndex(parsers[li].VC20Formats(), ff)
		obs = GSome(GTuple(GNat(j), gInst(tm)))
	}
	cs := Case{Coq: GApp("KSelf", GNat(li), GNat(k), gCivil(c), gNow(now), GStr(text), GStr(trailing), obs),
		Replay:     Replay{Kind: "self", List: li, K: k, Civil: &c, Trailing: trailing, Format: f, Text: text},
		NonTrivial: true, Stream: fmt.Sprintf("self-list%d", li), Tags: []string{fmt.Sprintf("fmt%d:%d", li, k)}}
	if trailing != "" {
		cs.Tags = append(cs.Tags, "trailing")
	}
	if li == 1 {
		return cs // the LQL list without the lower-casing is not an entry point of the system: correspondence only
	}
	es, en := fi.expected(c, now)
	pre := "collector-" + slug(f)
	switch {
	case ff == nil:
		cs.Oracle = &Violation{Class: pre + "-unparsed", Detail: fmt.Sprintf("%q is not parsed by any format; want %v", text+trailing, time.Unix(es, en).UTC().Format(time.RFC3339Nano))}
	case tm.Unix() != es || int64(tm.Nanosecond()) != en:
		cls := pre + "-claimed-by-earlier-format"
		if j == k {
			cls = pre + "-wrong-instant"
		} else if j > k {
			cls = pre + "-claimed-by-later-format"
		}
		cs.Oracle = &Violation{Class: cls, Detail: fmt.Sprintf("%q (format %d %q) parsed by format %d %q to %v; want %v", text+trailing, k, f, j, lists[li][j],
			tm.UTC().Format(time.RFC3339Nano), time.Unix(es, en).UTC().Format(time.RFC3339Nano))}
	}
	return cs
}

func caseOne(f, text string) Case {
	p := date.NewParser(f)
	var tm time.Time
	var ff *date.Format
	now := withNow(func() { tm, ff = p.Parse([]byte(text)) })
	obs := GNone
	if ff != nil {
		obs = GSome(gInst(tm))
	}
	return Case{Coq: GApp("KOne", GStr(f), gNow(now), GStr(text), obs), Replay: Replay{Kind: "one", Format: f, Text: text},
		NonTrivial: ff != nil, Stream: "one"}
}

// caseOneEdge: a text whose fields are at or beyond what a calendar / clock has. reject = the text denotes no instant
// (month 13, 30 February, hour 24, minute 60, a zone of 25 hours ...): the format must not date it.
func caseOneEdge(f, text string, reject bool) Case {
	cs := caseOne(f, text)
	cs.Stream = "field-bounds"
	cs.NonTrivial = true
	if reject && !strings.Contains(cs.Coq, "None") {
		cs.Oracle = &Violation{Class: "collector-impossible-field-accepted", Detail: fmt.Sprintf("format %q dates %q", f, text)}
	}
	if !reject && strings.HasSuffix(strings.TrimSpace(cs.Coq), "None)") {
		cs.Oracle = &Violation{Class: "collector-boundary-field-rejected", Detail: fmt.Sprintf("format %q does not date %q", f, text)}
	}
	return cs
}

var fieldBounds = []struct {
	f, text string
	reject  bool
}{
	{"YYYY-MM-DD HH:mm:ss", "2019-12-31 23:59:59", false}, {"YYYY-MM-DD HH:mm:ss", "2019-01-01 00:00:00", false},
	{"YYYY-MM-DD HH:mm:ss", "2019-13-01 10:00:00", true}, {"YYYY-MM-DD HH:mm:ss", "2019-00-10 10:00:00", true},
	{"YYYY-MM-DD HH:mm:ss", "2019-02-29 10:00:00", true}, {"YYYY-MM-DD HH:mm:ss", "2020-02-29 10:00:00", false},
	{"YYYY-MM-DD HH:mm:ss", "2020-02-30 10:00:00", true}, {"YYYY-MM-DD HH:mm:ss", "2019-04-31 10:00:00", true},
	{"YYYY-MM-DD HH:mm:ss", "2100-02-29 10:00:00", true}, {"YYYY-MM-DD HH:mm:ss", "2000-02-29 10:00:00", false},
	{"YYYY-MM-DD HH:mm:ss", "2019-03-00 10:00:00", true}, {"YYYY-MM-DD HH:mm:ss", "2019-03-32 10:00:00", true},
	{"YYYY-MM-DD HH:mm:ss", "2019-03-11 24:00:00", true}, {"YYYY-MM-DD HH:mm:ss", "2019-03-11 23:60:00", true},
	{"YYYY-MM-DD HH:mm:ss", "2019-03-11 23:59:60", true}, {"YYYY-MM-DD HH:mm:ss", "1000-01-01 00:00:00", false},
	{"YYYY-MM-DD HH:mm:ss", "2999-12-31 23:59:59", false}, {"YYYY-MM-DD HH:mm:ss", "0999-12-31 23:59:59", true},
	{"YYYY-MM-DD HH:mm:ss", "3000-01-01 00:00:00", true},
	{"D/M/YYYY hh:mm:ss P", "1/1/2019 12:00:00 AM", false}, {"D/M/YYYY hh:mm:ss P", "1/1/2019 12:00:00 PM", false},
	{"D/M/YYYY hh:mm:ss P", "1/1/2019 13:00:00 PM", true}, {"D/M/YYYY hh:mm:ss P", "1/1/2019 00:30:00 AM", false},
	{"D/M/YYYY hh:mm:ss P", "1/1/2019 00:30:00 PM", false},
	{"D/M/YYYY hh:mm:ss P", "32/1/2019 01:00:00 AM", true}, {"D/M/YYYY hh:mm:ss P", "1/13/2019 01:00:00 AM", true}, {"D/M/YYYY hh:mm:ss P", "0/1/2019 01:00:00 AM", true},
	{"YYYY-MM-DD HH:mm:ss ZZZZ", "2019-03-11 12:00:00 +0000", false}, {"YYYY-MM-DD HH:mm:ss ZZZZ", "2019-03-11 12:00:00 -0000", false},
	{"YYYY-MM-DD HH:mm:ss ZZZZ", "2019-03-11 12:00:00 +1400", false}, {"YYYY-MM-DD HH:mm:ss ZZZZ", "2019-03-11 12:00:00 -1200", false},
	{"YYYY-MM-DD HH:mm:ss ZZZZ", "2019-03-11 12:00:00 +2359", false}, {"YYYY-MM-DD HH:mm:ss ZZZZ", "2019-03-11 12:00:00 +2500", true},
	{"YYYY-MM-DD HH:mm:ss ZZZZ", "2019-03-11 12:00:00 +0061", true}, {"YYYY-MM-DD HH:mm:ss ZZZZZ", "2019-03-11 12:00:00 +05:30", false},
	{"YYYY-MM-DD HH:mm:ss ZZZZZ", "2019-03-11 12:00:00 -23:59", false}, {"YYYY-MM-DD HH:mm:ss ZZZZZ", "2019-03-11 12:00:00 +25:00", true},
	{"YYYY-MM-DD HH:mm:ss.SSS", "2019-03-11 12:34:55.000", false}, {"YYYY-MM-DD HH:mm:ss.SSS", "2019-03-11 12:34:55.999", false},
	{"YYYY-MM-DD HH:mm:ss.SSS", "2019-03-11 12:34:55.123456", false}, {"YYYY-MM-DD HH:mm:ss.SSS", "2019-03-11 12:34:55.123456789", false},
	{"YYYY-MM-DD HH:mm:ss.SSS", "2019-03-11 12:34:55.1234567891", false}, {"YYYY-MM-DD HH:mm:ss.SSS", "2019-03-11 12:34:55.12", true},
	{"YYYY-MM-DD HH:mm:ss.SSS", "2019-03-11 12:34:55,123", false}, {"YYYY-MM-DD HH:mm:ss", "2019-03-11 12:34:55.12", false},
	{"YYYY-MM-DD HH:mm:ss", "2019-03-11 12:34:55,5", false},
	{"DD/MM/YY", "31/12/68", false}, {"DD/MM/YY", "01/01/69", false}, {"DD/MM/YY", "29/02/00", false}, {"DD/MM/YY", "29/02/01", true},
	{"MMM _D HH:mm:ss", "Feb 29 10:00:00", false}, {"MMM _D HH:mm:ss", "Feb 30 10:00:00", true}, {"MMM _D HH:mm:ss", "Dec 31 23:59:59", false}, {"MMM _D HH:mm:ss", "Jan  1 00:00:00", false},
	{"HH:mm", "00:00", false}, {"HH:mm", "23:59", false}, {"HH:mm", "24:00", true}, {"HH:mm", "9:05", true},
}

func caseAll(li int, text string) Case {
	var tm time.Time
	var ff *date.Format
	now := withNow(func() { tm, ff = parsers[li].Parse([]byte(text)) })
	obs := GNone
	if ff != nil {
		obs = GSome(GTuple(GNat(fmtIndex(parsers[li].VC20Formats(), ff)), gInst(tm)))
	}
	return Case{Coq: GApp("KAll", GNat(li), gNow(now), GStr(text), obs), Replay: Replay{Kind: "all", List: li, Text: text},
		NonTrivial: ff != nil, Stream: fmt.Sprintf("edge-list%d", li)}
}

// lqlRoutes parses one literal through the three LQL routes; ok=false when the literal is rejected.
// disagree is non-empty when the routes do not agree with each other.
func lqlRoutes(lit string) (v int64, ok bool, disagree string) {
	tm, err := lql.VC20ParseDateTime(lit)
	ok = err == nil
	if ok {
		v = tm.UnixNano()
	}
	if strings.ContainsAny(lit, "\"\\\n") || lit == "" {
		return // cannot be written as a plain double-quoted LQL string
	}
	// route 2: SELECT ... RANGE "<lit>"
	l, err2 := lql.ParseLql("SELECT RANGE \"" + lit + "\" LIMIT 1")
	if (err2 == nil) != ok {
		return v, ok, fmt.Sprintf("RANGE: err=%v, direct err=%v", err2, err)
	}
	if ok {
		if l.Select == nil || l.Select.Range == nil || l.Select.Range.TmPoint1 == nil {
			return v, ok, "RANGE: no time point captured"
		}
		if got := int64(l.Select.Range.TmPoint1.GetValue()); got != v {
			return v, ok, fmt.Sprintf("RANGE: %d, direct %d", got, v)
		}
	}
	// route 3: WHERE ts >= "<lit>" — the threshold of the compiled condition
	wf, err3 := lql.BuildWhereExpFunc("ts >= \"" + lit + "\"")
	if (err3 == nil) != ok {
		return v, ok, fmt.Sprintf("ts: err=%v, direct err=%v", err3, err)
	}
	if ok {
		le := &model.LogEvent{}
		at := func(ts int64) bool { le.Timestamp = ts; return wf(le) }
		if !at(v) || (v > math.MinInt64 && at(v-1)) {
			return v, ok, fmt.Sprintf("ts >= literal: threshold is not %d", v)
		}
	}
	return
}

func caseLql(lit string, self bool, k int, c Civil) Case {
	var v int64
	var ok bool
	var dis string
	now := withNow(func() { v, ok, dis = lqlRoutes(lit) })
	obs := GNone
	if ok {
		obs = GSome(GZ(v))
	}
	var cs Case
	if self {
		cs = Case{Coq: GApp("KLqlSelf", GNat(k), gCivil(c), gNow(now), GStr(lit), obs),
			Replay: Replay{Kind: "lqlself", K: k, Civil: &c, Format: lists[1][k], Text: lit}, NonTrivial: true, Stream: "self-lql",
			Tags: []string{fmt.Sprintf("lqlfmt:%d", k)}}
	} else {
		cs = Case{Coq: GApp("KLql", gNow(now), GStr(lit), obs), Replay: Replay{Kind: "lql", Text: lit}, NonTrivial: ok, Stream: "lql"}
	}
	if dis != "" {
		cs.Oracle = &Violation{Class: "lql-routes-disagree", Detail: fmt.Sprintf("%q: %s", lit, dis)}
		return cs
	}
	if !self {
		// integer literals: Unix nanoseconds exactly
		if iv, err := strconv.ParseInt(strings.Trim(lit, " "), 10, 64); err == nil {
			cs.Tags = append(cs.Tags, "int-literal")
			if !ok || v != iv {
				cs.Oracle = &Violation{Class: "lql-int-literal", Detail: fmt.Sprintf("%q parsed to %d ok=%v", lit, v, ok)}
			}
		}
		return cs
	}
	f := lists[1][k]
	fi := analyse(terms, f)
	es, en := fi.expected(c, now)
	want := es*1000000000 + en
	if ok && v == want {
		return cs
	}
	// which mechanism lost the instant: the lower-casing, or (as in the collector) an earlier format?
	got := "rejected"
	if ok {
		got = time.Unix(0, v).UTC().Format(time.RFC3339Nano)
	}
	tm, ff := parsers[1].Parse([]byte(strings.Trim(lit, " ")))
	cls := ""
	switch {
	case ff != nil && tm.Unix() == es && int64(tm.Nanosecond()) == en:
		cls = "lql-lowercased-" + slug(f) // the un-lowered literal parses correctly
	case ff == nil:
		cls = "lql-" + slug(f) + "-unparsed"
	default:
		j := fmtIndex(parsers[1].VC20Formats(), ff)
		cls = "lql-" + slug(f) + "-claimed-by-earlier-format"
		if j == k {
			cls = "lql-" + slug(f) + "-wrong-instant"
		} else if j > k {
			cls = "lql-" + slug(f) + "-claimed-by-later-format"
		}
	}
	cs.Oracle = &Violation{Class: cls, Detail: fmt.Sprintf("LQL literal %q (format %d %q) -> %s; want %s", lit, k, f, got,
		time.Unix(es, en).UTC().Format(time.RFC3339Nano))}
	return cs
}

type relObs struct {
	lo, hi, obs int64
	n           float64 // the number of the literal, in nanoseconds
}

func caseRel(lit string, exact bool, keep *[]relObs) Case {
	lo := time.Now().UnixNano()
	tm, err := lql.VC20ParseDateTime(lit)
	hi := time.Now().UnixNano()
	if err != nil {
		return Case{Coq: GApp("KRel", GStr(lit), GZ(lo), GZ(hi), GZ(0), GZ(-1)), Replay: Replay{Kind: "rel", Text: lit, Exact: exact},
			Stream: "rel", Oracle: &Violation{Class: "lql-relative-rejected", Detail: fmt.Sprintf("%q: %v", lit, err)}}
	}
	obs := tm.UnixNano()
	// slack: 0 when the float64 product is exact, else one unit in the last place of the product plus 1ns
	t := strings.ToLower(strings.Trim(lit, " "))
	num, _ := strconv.ParseFloat(t[1:len(t)-1], 64)
	mult := map[byte]float64{'m': 60e9, 'h': 3600e9, 'd': 86400e9}[t[len(t)-1]]
	slack := int64(0)
	if !exact {
		slack = 1 + int64(math.Abs(num*mult)/float64(1<<50))
	}
	if math.Abs(num*mult) >= float64(1<<63)-2048 {
		// the product does not fit a time.Duration: what the float64 -> int64 conversion gives depends on the machine
		// (outside the model); the oracle still asks for "not later than now"
		slack = 1 << 62
	}
	gSlack := GZ(slack)
	if slack >= 1<<62 {
		gSlack = "1" + strings.Repeat("0", 40) + "%Z" // no bound from K: the conversion of the product is the machine's
	}
	cs := Case{Coq: GApp("KRel", GStr(lit), GZ(lo), GZ(hi), GZ(obs), gSlack), Replay: Replay{Kind: "rel", Text: lit, Exact: exact},
		NonTrivial: true, Stream: "rel"}
	if num >= 0 && slack >= 1<<62 {
		if obs > hi {
			cs.Oracle = &Violation{Class: "lql-relative-later-than-now", Detail: fmt.Sprintf("%q -> %d, now <= %d", lit, obs, hi)}
		}
	} else if num >= 0 {
		if obs > hi {
			cs.Oracle = &Violation{Class: "lql-relative-later-than-now", Detail: fmt.Sprintf("%q -> %d, now <= %d", lit, obs, hi)}
		}
		for _, p := range *keep {
			// a larger number must denote an earlier (or the same) instant: the durations are obs-to-now distances
			dLo, dHi := lo-obs, hi-obs // this literal's duration is in [dLo, dHi]
			pLo, pHi := p.lo-p.obs, p.hi-p.obs
			if num*mult >= p.n && dHi < pLo-slack-1 {
				cs.Oracle = &Violation{Class: "lql-relative-not-monotone", Detail: fmt.Sprintf("%q: duration <= %d but a smaller literal has >= %d", lit, dHi, pLo)}
			}
			if num*mult <= p.n && pHi < dLo-slack-1 {
				cs.Oracle = &Violation{Class: "lql-relative-not-monotone", Detail: fmt.Sprintf("%q: duration >= %d but a larger literal has <= %d", lit, dLo, pHi)}
			}
		}
		*keep = append(*keep, relObs{lo, hi, obs, num * mult})
	}
	return cs
}

// caseConst: minute / hour / day / week. K brackets the clock; O: not later than now, less than one period back,
// hour/day/week on their boundary, the week starting on a Sunday (what the comment of parseLqlDateTime promises).
func caseConst(lit string) Case {
	lo := time.Now().UnixNano()
	tm, err := lql.VC20ParseDateTime(lit)
	hi := time.Now().UnixNano()
	cs := Case{Replay: Replay{Kind: "const", Text: lit}, Stream: "const", NonTrivial: true}
	if err != nil {
		cs.Coq = GApp("KConst", GStr(lit), GZ(lo), GZ(hi), GZ(0))
		cs.Oracle = &Violation{Class: "lql-constant-rejected", Detail: fmt.Sprintf("%q: %v", lit, err)}
		return cs
	}
	obs := tm.UnixNano()
	cs.Coq = GApp("KConst", GStr(lit), GZ(lo), GZ(hi), GZ(obs))
	name := strings.ToLower(strings.Trim(lit, " "))
	period := map[string]int64{"minute": 60e9, "hour": 3600e9, "day": 86400e9, "week": 7 * 86400e9}[name]
	u := tm.UTC()
	switch {
	case obs > hi:
		cs.Oracle = &Violation{Class: "lql-constant-later-than-now", Detail: fmt.Sprintf("%q -> %d, now <= %d", lit, obs, hi)}
	case obs <= lo-period:
		cs.Oracle = &Violation{Class: "lql-constant-out-of-period", Detail: fmt.Sprintf("%q -> %d, now >= %d: a whole period back or more", lit, obs, lo)}
	case name != "minute" && (u.Minute() != 0 || u.Second() != 0 || u.Nanosecond() != 0 || (name != "hour" && u.Hour() != 0) || (name == "week" && u.Weekday() != time.Sunday)):
		cs.Oracle = &Violation{Class: "lql-constant-not-on-boundary", Detail: fmt.Sprintf("%q -> %s", lit, u.Format(time.RFC3339Nano))}
	case name == "minute" && u.Second() != 0:
		cs.Oracle = &Violation{Class: "lql-constant-not-on-boundary", Detail: fmt.Sprintf("%q -> %s", lit, u.Format(time.RFC3339Nano))}
	}
	return cs
}

// caseUser: date.NewDefaultParser(user formats...): the user's formats are asked first, then the collector's list; with no
// user format it is the package's default parser, which date.Parse uses. text is written in format f for c (f == "": any text).
func caseUser(usr []string, f string, c *Civil, text string) Case {
	p := date.NewDefaultParser(usr...)
	var tm time.Time
	var ff *date.Format
	var tmD time.Time
	var errD error
	now := withNow(func() {
		tm, ff = p.Parse([]byte(text))
		tmD, errD = date.Parse([]byte(text))
	})
	obs := GNone
	if ff != nil {
		obs = GSome(GTuple(GNat(fmtIndex(p.VC20Formats(), ff)), gInst(tm)))
	}
	us := make([]string, len(usr))
	for i, u := range usr {
		us[i] = GStr(u)
	}
	cs := Case{Coq: GApp("KUser", GList(us), gNow(now), GStr(text), obs), Replay: Replay{Kind: "user", User: usr, Format: f, Civil: c, Text: text},
		NonTrivial: ff != nil, Stream: "user-formats"}
	if len(usr) == 0 {
		// date.Parse is the default parser: same verdict, same instant
		if (errD == nil) != (ff != nil) || (ff != nil && !tmD.Equal(tm)) {
			cs.Oracle = &Violation{Class: "collector-default-parse-differs", Detail: fmt.Sprintf("date.Parse(%q) = %v, %v; the default parser: %v, format found: %v", text, tmD, errD, tm, ff != nil)}
		}
	}
	if f != "" && c != nil && cs.Oracle == nil {
		fi := analyse(terms, f)
		es, en := fi.expected(*c, now)
		if ff == nil || tm.Unix() != es || int64(tm.Nanosecond()) != en {
			got := "no date"
			if ff != nil {
				got = tm.UTC().Format(time.RFC3339Nano) + " by " + ff.VC20Format()
			}
			cs.Oracle = &Violation{Class: "collector-user-format-" + slug(f) + "-wrong-instant", Detail: fmt.Sprintf("user formats %q first: %q -> %s; want %s", usr, text, got, time.Unix(es, en).UTC().Format(time.RFC3339Nano))}
		}
	}
	return cs
}

// addSplit adds a case; when its oracle verdict is one of the recorded classes, the verdict goes to a case of its own (with a
// trivially true K term) so that the K comparison of the observations stays on a case without a verdict: the driver does not
// look at a K disagreement of a case that O has already reported, and the recorded classes sit on exactly the cases (files with
// ten undated lines, am/pm in lower case) where a change of the mechanism would show in K only
func addSplit(c *Ctx, cs Case) {
	if cs.Oracle != nil && (cs.Oracle.Class == "collector-line-not-dated-after-10-undated-lines" || cs.Oracle.Class == "collector-lowercase-ampm-wrong-instant") {
		o := cs
		o.Coq = GApp("KLines", "(0, 0, 0)%Z", "[]", "[]")
		o.Key = "verdict:" + cs.Oracle.Detail
		o.NonTrivial = false
		cs.Oracle = nil
		c.Add(cs)
		c.Add(o)
		return
	}
	c.Add(cs)
}

// ---------------------------------------------------------------- generators

var offs = []int{0, 0, 60, -60, 330, -210, 765, -720, 840, -480, 120, 545}
var zeroAbbr = []string{"UTC", "GMT", "WET"}
var otherAbbr = []string{"MST", "PST", "CET", "IST", "EST", "JST"}
var trailings = []string{" INFO starting up", "\tmsg", " [main] worker ready", ", level=warn", " |pipe", "] done", " x", " -- ok", ";a=b"}

func fixedCivils() []Civil {
	cs := []Civil{
		{Y: 2019, Mo: 5, D: 25, H: 15, Mi: 7, S: 9, Ms: 123},
		{Y: 2019, Mo: 3, D: 6, H: 0, Mi: 0, S: 0, Ms: 0},
		{Y: 2021, Mo: 12, D: 31, H: 23, Mi: 59, S: 59, Ms: 999},
		{Y: 2020, Mo: 2, D: 29, H: 12, Mi: 0, S: 1, Ms: 5},
		{Y: 2001, Mo: 9, D: 1, H: 1, Mi: 2, S: 3, Ms: 40},
		{Y: 1999, Mo: 11, D: 10, H: 10, Mi: 10, S: 10, Ms: 100},
		{Y: 2000, Mo: 2, D: 29, H: 11, Mi: 59, S: 0, Ms: 1},
		{Y: 1970, Mo: 1, D: 1, H: 0, Mi: 0, S: 0, Ms: 0},
		{Y: 2038, Mo: 1, D: 19, H: 3, Mi: 14, S: 8, Ms: 0},
		{Y: 2024, Mo: 6, D: 9, H: 13, Mi: 5, S: 50, Ms: 7},
		{Y: 2023, Mo: 4, D: 11, H: 9, Mi: 30, S: 30, Ms: 500},
		{Y: 2022, Mo: 7, D: 4, H: 12, Mi: 34, S: 56, Ms: 789},
		{Y: 2018, Mo: 8, D: 16, H: 22, Mi: 0, S: 59, Ms: 10},
		{Y: 2017, Mo: 10, D: 20, H: 4, Mi: 44, S: 4, Ms: 4},
		{Y: 2025, Mo: 1, D: 31, H: 17, Mi: 17, S: 17, Ms: 170},
	}
	return cs
}

func randCivil(r *Rng, wide bool) Civil {
	c := Civil{Mo: r.Range(1, 12), H: r.PickInt(0, 1, 9, 10, 11, 12, 13, 21, 23, r.Range(0, 23)), Mi: r.PickInt(0, 5, 59, r.Range(0, 59)),
		S: r.PickInt(0, 7, 59, r.Range(0, 59)), Ms: r.PickInt(0, 1, 50, 999, r.Range(0, 999))}
	if wide {
		c.Y = r.PickInt(1000, 1001, 1582, 1600, 1677, 1899, 1900, 1969, 2068, 2069, 2262, 2400, 2999, r.Range(1000, 2999), r.Range(1000, 2999))
	} else {
		c.Y = r.PickInt(1969, 1970, 1999, 2000, 2038, 2068, r.Range(1970, 2068), r.Range(2000, 2030))
	}
	dim := time.Date(c.Y, time.Month(c.Mo)+1, 0, 0, 0, 0, 0, time.UTC).Day()
	c.D = r.PickInt(1, 9, 10, dim, r.Range(1, dim))
	return c
}

// fit adapts a civil instant to what the format can express
func fit(r *Rng, fi *fmtInfo, c Civil, now Now, lqlRange bool) Civil {
	if fi.twoDigitYear && (c.Y < 1969 || c.Y > 2068) {
		c.Y = 1969 + ((c.Y-1969)%100+100)%100
	}
	if lqlRange && (c.Y < 1678 || c.Y > 2261) {
		c.Y = 1678 + ((c.Y-1678)%584+584)%584
	}
	noDate := !strings.ContainsAny(fi.f, "YMD")
	if noDate {
		c.Y, c.Mo, c.D = now.Y, now.Mo, now.D
	} else if !fi.hasY {
		c.Y = now.Y
		if c.Mo > now.Mo {
			c.Y--
		}
	}
	dim := time.Date(c.Y, time.Month(c.Mo)+1, 0, 0, 0, 0, 0, time.UTC).Day()
	if c.D > dim {
		c.D = dim
	}
	c.Off, c.Abbr = 0, "UTC"
	if fi.hasNumZone {
		c.Off = offs[r.Intn(len(offs))]
	}
	if fi.hasAbbr {
		if c.Off == 0 {
			c.Abbr = zeroAbbr[r.Intn(len(zeroAbbr))]
		} else {
			c.Abbr = otherAbbr[r.Intn(len(otherAbbr))]
		}
	}
	return c
}

var extraFormats = []string{"YYYY.MM.DD", "hh:mm P", "D-M-YY", "YYYYMMDD", "YYYY-MM-DD HH:mm:ss,SSS", "DDDD MMMM D YYYY", "h:m:s", "MMM D YYYY",
	"YYYY-MM-DDTHH:mm:ss.SSSZZZZZ", "HH.mm.ss", "YY/MM/DD", "M/D/YYYY h:mm:ss P", "DD.MM.YYYY HH:mm:ss ZZZ",
	// a day (or a weekday name) and nothing else of the date: the noDate / hasYear flags look at each of Y, M, D
	"DD HH:mm:ss", "DDD HH:mm", "MM-DD HH:mm", "YYYY HH:mm"}

const alphabet = "0123456789 :/-.,TZ+APMapm"

func mutate(r *Rng, s string) string {
	b := []byte(s)
	if len(b) == 0 {
		return "1"
	}
	switch r.Intn(9) {
	case 0: // drop a byte
		i := r.Intn(len(b))
		b = append(b[:i], b[i+1:]...)
	case 1: // change a byte
		b[r.Intn(len(b))] = alphabet[r.Intn(len(alphabet))]
	case 2: // insert a byte
		i := r.Intn(len(b) + 1)
		b = append(b[:i], append([]byte{alphabet[r.Intn(len(alphabet))]}, b[i:]...)...)
	case 3: // truncate
		b = b[:r.Intn(len(b))]
	case 4: // prefix text
		b = append([]byte(r.PickStr("x ", "[", "at ", "12 ", "ts=", "7")), b...)
	case 5: // append digits or text
		b = append(b, []byte(r.PickStr("5", "00", " 12:00", ".5", "Z", " PM", " +0100", "123456789012"))...)
	case 6: // swap case
		i := r.Intn(len(b))
		if b[i] >= 'a' && b[i] <= 'z' {
			b[i] -= 32
		} else if b[i] >= 'A' && b[i] <= 'Z' {
			b[i] += 32
		}
	case 7: // double a blank or a separator
		i := r.Intn(len(b))
		b = append(b[:i], append([]byte{b[i]}, b[i:]...)...)
	case 8: // out-of-range field: bump a digit
		i := r.Intn(len(b))
		if b[i] >= '0' && b[i] <= '9' {
			b[i] = '0' + byte(r.Intn(10))
		}
	}
	return string(b)
}

const rule = "every format of the collector list and of the LQL list x >= 20 instants (15 fixed ones covering leap days, year ends, 1- and 2-digit fields, " +
	"hours 0/11/12/13/23, plus random ones over [1000,2999] with all months and weekdays), half of the collector texts followed by trailing text; single-format " +
	"parsers incl. user formats outside the lists; a malformed stream (one-edit mutations of valid texts, random strings over the timestamp alphabet); " +
	"int64 literals; relative literals; files of 12-45 lines through the collector's line parser (dated lines in one clean format of the collector list, runs of 0-25 lines without a date). A case is non-trivial iff the implementation parsed the text (all self cases are)."

func addCorpus(c *Ctx) {
	// witnesses of the refuted theorems of props/C20.v, replayed on the implementation first
	w := Civil{Y: 2019, Mo: 5, D: 25, H: 15, Mi: 7, S: 9, Ms: 0, Abbr: "UTC"}
	for k, f := range lists[0] {
		switch f {
		case "YYYY/MM/DD HH:mm:ss", "D/M/YYYY hh:mm:ss P":
			c.Add(caseSelf(0, k, w, ""))
		case "DDDD, YY-MMM-DD HH:mm:ss ZZZ":
			c.Add(caseSelf(0, k, Civil{Y: 2019, Mo: 3, D: 6, H: 0, Mi: 0, S: 0, Abbr: "UTC"}, ""))
		}
	}
	for k, f := range lists[1] {
		switch f {
		case "YYYY-MM-DDTHH:mm:ss", "MMM D, YYYY h:mm:ss P":
			c.Add(caseLql(analyse(terms, f).render(terms, w), true, k, w))
		}
	}
	c.Add(caseLql("2019-03-11T12:34:43", false, 0, Civil{}))
	c.Add(caseAll(0, "2019-05-25 15:07:09 imported record dated 25/05/2019 10:00:00"))
}

func run(c *Ctx) error {
	setup()
	var keep []relObs
	if c.Replay != nil {
		var rp Replay
		if err := FromJSON(c.Replay, &rp); err != nil {
			return err
		}
		switch rp.Kind {
		case "tables":
			c.Add(caseTables())
		case "compile":
			c.Add(caseCompile(rp.Format))
		case "self":
			c.Add(caseSelf(rp.List, rp.K, *rp.Civil, rp.Trailing))
		case "one":
			c.Add(caseOne(rp.Format, rp.Text))
		case "all":
			c.Add(caseAll(rp.List, rp.Text))
		case "lql":
			c.Add(caseLql(rp.Text, false, 0, Civil{}))
		case "lqlself":
			c.Add(caseLql(rp.Text, true, rp.K, *rp.Civil))
		case "rel":
			c.Add(caseRel(rp.Text, rp.Exact, &keep))
		case "const":
			c.Add(caseConst(rp.Text))
		case "user":
			c.Add(caseUser(rp.User, rp.Format, rp.Civil, rp.Text))
		case "lines":
			cs, err := caseLines(rp.K, rp.Lines, rp.Seek-1)
			if err != nil {
				return err
			}
			addSplit(c, cs)
		default:
			return fmt.Errorf("unknown case kind %q", rp.Kind)
		}
		return c.Finish(rule)
	}
	r := c.Rng
	c.Add(caseTables())
	addCorpus(c)
	seenF := map[string]bool{}
	for _, f := range append(append(append([]string{}, lists[0]...), lists[1]...), extraFormats...) {
		if !seenF[f] {
			seenF[f] = true
			c.Add(caseCompile(f))
		}
	}
	now := today()
	per := 9 * c.Scale // random instants per format on top of the 15 fixed ones
	if c.Tier == "thorough" {
		per *= 4
	}
	if c.Search {
		per *= 4
	}
	var validTexts []string
	for li := 0; li < 2; li++ {
		for k, f := range lists[li] {
			fi := analyse(terms, f)
			if !fi.known {
				c.Tag("format-with-unknown-token")
				continue
			}
			civs := fixedCivils()
			for i := 0; i < per; i++ {
				civs = append(civs, randCivil(r, !fi.twoDigitYear))
			}
			for i, cv := range civs {
				cv = fit(r, fi, cv, now, li == 1)
				if li == 0 {
					tr := ""
					if i%2 == 1 {
						tr = trailings[r.Intn(len(trailings))]
					}
					c.Add(caseSelf(0, k, cv, tr))
				} else {
					lit := fi.render(terms, cv)
					if i%7 == 3 {
						lit = " " + lit + "  "
					}
					c.Add(caseLql(lit, true, k, cv))
					if i%5 == 0 { // the same list without the lower-casing
						c.Add(caseSelf(1, k, cv, ""))
					}
				}
				if i < 3 {
					validTexts = append(validTexts, fi.render(terms, cv))
				}
				if i%6 == 2 {
					c.Add(caseOne(f, fi.render(terms, cv)+r.PickStr("", "", " tail", "5")))
				}
			}
		}
	}
	// the pairs of C20_claim_pairs: formats that differ in digit widths only (D/DD, M/MM, h/hh, _D/DD) and the formats with a
	// time of day behind `MM.DD.YY` (whose unescaped dots match colons): more instants, with one- and two-digit days, months
	// and hours in every combination, so that an earlier format that can claim the text does (the oracle names it if the
	// instant differs)
	twin := func(f string) string {
		t := strings.Replace(f, "_D", "D", -1)
		for _, p := range [][2]string{{"DDDD", "\x01"}, {"DDD", "\x02"}, {"MMMM", "\x03"}, {"MMM", "\x04"}} {
			t = strings.Replace(t, p[0], p[1], -1)
		}
		for _, p := range [][2]string{{"DD", "D"}, {"MM", "M"}, {"hh", "h"}} {
			t = strings.Replace(t, p[0], p[1], -1)
		}
		return t
	}
	for li := 0; li < 2; li++ {
		groups := map[string]int{}
		seenDots := false
		for _, f := range lists[li] {
			groups[twin(f)]++
		}
		for k, f := range lists[li] {
			fi := analyse(terms, f)
			paired := groups[twin(f)] > 1 || (seenDots && strings.Contains(f, "HH:mm"))
			if f == "MM.DD.YY" {
				seenDots = true
			}
			if !fi.known || !paired {
				continue
			}
			for i := 0; i < 8; i++ {
				cv := randCivil(r, !fi.twoDigitYear)
				cv.D, cv.Mo, cv.H = []int{3, 17, 9, 28}[i%4], []int{4, 11, 12, 7}[(i/2)%4], []int{5, 15, 11, 0, 23, 9, 12, 20}[i]
				cv = fit(r, fi, cv, now, li == 1)
				if li == 0 {
					c.Add(caseSelf(0, k, cv, ""))
				} else {
					c.Add(caseLql(fi.render(terms, cv), true, k, cv))
				}
			}
		}
	}
	// user formats outside the lists, alone
	for _, f := range extraFormats {
		fi := analyse(terms, f)
		if !fi.known {
			continue
		}
		for i := 0; i < 4; i++ {
			cv := fit(r, fi, randCivil(r, true), now, false)
			c.Add(caseOne(f, fi.render(terms, cv)))
		}
	}
	// zone abbreviations that are not UTC (the model follows Go with Local = UTC: offset 0); no oracle
	for _, z := range []string{"PST", "MSK", "CEST", "GMT+3", "ChST", "WITA", "AB", "ABCDEF", "utc"} {
		c.Add(caseOne("YYYY-MM-DD HH:mm:ss ZZZ", "2019-03-11 12:00:00 "+z))
		c.Add(caseAll(0, "2019-03-11 12:00:00 "+z))
	}
	// malformed / edge stream
	ne := c.N(260)
	for i := 0; i < ne; i++ {
		var s string
		if i%4 == 3 {
			s = string(r.Bytes(r.Range(0, 24), []byte(alphabet)))
		} else {
			s = mutate(r, validTexts[r.Intn(len(validTexts))])
			if r.Chance(1, 4) {
				s = mutate(r, s)
			}
		}
		if i%3 == 0 {
			c.Add(caseLql(s, false, 0, Civil{}))
		} else {
			c.Add(caseAll(i%2, s))
		}
	}
	// integer literals
	ints := []int64{0, 1, -1, 9, 10, 2019, 20190311, 1552262400, 1552262400000000000, math.MaxInt64, math.MinInt64, math.MaxInt64 - 1, -1000000007}
	for i := 0; i < c.N(40); i++ {
		ints = append(ints, r.I64()>>uint(r.Intn(64)))
	}
	for i, v := range ints {
		lit := strconv.FormatInt(v, 10)
		if i%9 == 4 {
			lit = " " + lit + " "
		}
		if i%11 == 5 && v >= 0 {
			lit = "+" + lit
		}
		c.Add(caseLql(lit, false, 0, Civil{}))
	}
	// ... and literals that look relative but are not (no number, two dots, letters, no unit): the relative reader refuses them
	// and the literal goes on to the constants, the formats and the integer reader
	// only blanks are trimmed around a literal (strings.Trim(s, " ")), not tabs or line breaks
	for _, s := range []string{"\t5", "5\n", "\tminute", "minute\n", "-1h\t", " \t2019-03-11 12:00:00", "2019-03-11 12:00:00\n ", "\u00a05"} {
		c.Add(caseLql(s, false, 0, Civil{}))
	}
	// leading zeros: decimal, not octal; a sign; the ends of int32 / uint32
	for _, s := range []string{"010", "0017", "-010", "00", "-0", "+0", "0000000000000000000001", "2147483647", "2147483648", "-2147483649", "4294967295", "4294967296"} {
		c.Add(caseLql(s, false, 0, Civil{}))
	}
	for _, s := range []string{"9223372036854775808", "-9223372036854775809", "12a", "1_000", "0x10", "1e3", "", " ", "--5", "+-5",
		"-h", "-m", "-d", "-.h", "-1.2.3h", "-xm", "-1..5d", "-5", "-5s", "-5w", "-", "-1h2m", "- 1h", "-1 h", "minutes", "hours", "daily", "wee", "now"} {
		c.Add(caseLql(s, false, 0, Civil{}))
	}
	// relative literals
	for _, s := range []string{"-0m", "-1m", "-15m", "-1h", "-1.5h", "-24h", "-1d", "-0.25d", "-7d", "-90M", " -3h ", "-2.5H", "-0.5m", "-365d", "-1000000m", "-.5h", "-5.h"} {
		c.Add(caseRel(s, true, &keep))
	}
	for i := 0; i < c.N(40); i++ {
		unit := r.PickStr("m", "h", "d")
		if r.Chance(1, 2) {
			c.Add(caseRel(fmt.Sprintf("-%d%s", r.PickInt(0, 1, 2, 59, 60, 61, 1440, r.Intn(100000)), unit), true, &keep))
		} else {
			c.Add(caseRel(fmt.Sprintf("-%d.%0*d%s", r.Intn(500), r.Range(1, 6), r.Intn(1000), unit), false, &keep))
		}
	}
	// ... and the ends: the longest duration a time.Duration holds is 106751.99 days; behind it the conversion overflows
	for _, s := range []string{"-106751d", "-106751.9d", "-106752d", "-200000d", "-2562047h", "-2562048h", "-153722867m", "-153722868m", "-99999999999999999999d"} {
		c.Add(caseRel(s, false, &keep))
	}
	// fields at and beyond what a calendar / a clock / a zone has
	for _, b := range fieldBounds {
		c.Add(caseOneEdge(b.f, b.text, b.reject))
	}
	// the am/pm marker in lower case: the regular expression of P admits it (am|AM|pm|PM); the text denotes the same instant
	for li := 0; li < 2; li++ {
		for k, f := range lists[li] {
			fi := analyse(terms, f)
			if !fi.known || !strings.Contains(f, " P") {
				continue
			}
			for _, h := range []int{0, 9, 12, 15, 23} {
				cv := fit(r, fi, Civil{Y: 2019, Mo: 12, D: 31, H: h, Mi: 59, S: 58}, now, li == 1)
				text := fi.render(terms, cv)
				low := strings.Replace(strings.Replace(text, "AM", "am", 1), "PM", "pm", 1)
				var tm time.Time
				var ff *date.Format
				nw := withNow(func() { tm, ff = parsers[li].Parse([]byte(low + " job done")) })
				obs := GNone
				if ff != nil {
					obs = GSome(GTuple(GNat(fmtIndex(parsers[li].VC20Formats(), ff)), gInst(tm)))
				}
				cs := Case{Coq: GApp("KAll", GNat(li), gNow(nw), GStr(low+" job done"), obs), Replay: Replay{Kind: "all", List: li, Text: low + " job done"},
					NonTrivial: true, Stream: "ampm-lower"}
				es, en := fi.expected(cv, nw)
				if ff == nil || tm.Unix() != es || int64(tm.Nanosecond()) != en {
					got := "no date"
					if ff != nil {
						got = tm.UTC().Format(time.RFC3339Nano) + " by " + ff.VC20Format()
					}
					cs.Oracle = &Violation{Class: "collector-lowercase-ampm-wrong-instant", Detail: fmt.Sprintf("%q (format %d %q of list %d with the marker in lower case) -> %s; want %s", low, k, f, li, got, time.Unix(es, en).UTC().Format(time.RFC3339Nano))}
				}
				addSplit(c, cs)
			}
		}
	}
	// LQL literals at and beyond the instants an int64 of nanoseconds holds (the value wraps: model wrap64)
	for _, s := range []string{"2262-04-11 23:47:16.854", "2262-04-11 23:47:16.855", "2262-04-12", "1677-09-21 00:12:43.146", "1677-09-21 00:12:43.145", "1677-09-20",
		"2999-12-31 23:59:59", "1000-01-01", "1970-01-01 00:00:00", "1969-12-31 23:59:59.999", "2038-01-19 03:14:08", "1901-12-13 20:45:52"} {
		c.Add(caseLql(s, false, 0, Civil{}))
	}
	// named constants
	for _, s := range []string{"minute", "hour", "day", "week", "MINUTE", "Hour", " day ", "WeeK", "  week", "hour  "} {
		c.Add(caseConst(s))
	}
	// date.NewDefaultParser with the user's formats in front of the collector's list, and without any (= date.Parse)
	for i := 0; i < c.N(48); i++ {
		var usr []string
		for j := r.PickInt(0, 1, 1, 2, 3); j > 0; j-- {
			usr = append(usr, extraFormats[r.Intn(len(extraFormats))])
		}
		all := append(append([]string{}, usr...), lists[0]...)
		f := all[r.Intn(len(all))]
		if len(usr) > 0 && r.Chance(1, 2) {
			f = usr[r.Intn(len(usr))]
		}
		fi := analyse(terms, f)
		if !fi.known {
			continue
		}
		cv := fit(r, fi, randCivil(r, !fi.twoDigitYear), now, false)
		text := fi.render(terms, cv) + r.PickStr("", "", " msg", ", x=1")
		switch {
		case i%6 == 5:
			c.Add(caseUser(usr, "", nil, mutate(r, text)))
		case len(usr) > 0 && f == usr[0]:
			c.Add(caseUser(usr, f, &cv, text)) // the first user format is asked first: its text gets its instant
		default:
			c.Add(caseUser(usr, "", nil, text))
		}
	}
	// files through the collector's line parser
	{
		w := Civil{Y: 2019, Mo: 5, D: 25, H: 15, Mi: 7, S: 9, Abbr: "UTC"}
		for k, f := range lists[0] {
			if f == "YYYY-MM-DD HH:mm:ss" { // the witness of C20_line_refuted
				var ls []FileLine
				for i := 0; i < 10; i++ {
					ls = append(ls, FileLine{Text: "  at some.stack.Frame(x)"})
				}
				ls = append(ls, FileLine{Dated: true, Civil: &w, Text: "2019-05-25 15:07:09 done"})
				cs, err := caseLines(k, ls, -1)
				if err != nil {
					return err
				}
				addSplit(c, cs)
			}
		}
		// a designed file: every boundary of the state machine is followed by dated lines with distinct dates, so that the
		// first line the parser looks at again is visible: 10 failures -> skipping 10; a failed parsing phase doubles it (20,
		// 40); a detection resets it to 10; and a long tail with a dated line now and then (80, 100)
		for k, f := range lists[0] {
			if f == "YYYY-MM-DD HH:mm:ss" {
				var ls []FileLine
				n := 0
				dated := func(cnt int) {
					for i := 0; i < cnt; i++ {
						n++
						cv := Civil{Y: 2019, Mo: 1 + n%12, D: 1 + n%28, H: n % 24, Mi: n % 60, S: n % 60, Abbr: "UTC"}
						ls = append(ls, FileLine{Dated: true, Civil: &cv, Text: analyse(terms, f).render(terms, cv) + " step"})
					}
				}
				und := func(cnt int) {
					for i := 0; i < cnt; i++ {
						ls = append(ls, FileLine{Text: undated[(len(ls)+i)%len(undated)]})
					}
				}
				dated(1)
				und(9)
				dated(2) // nine failures are not ten
				und(10)
				dated(14) // skipping 10, then dated lines: the 11th is looked at
				und(10 + 10 + 10 + 20 + 10)
				dated(45) // skipping 40: the 41st is looked at, the phase length is back to 10
				und(10)
				dated(25) // ... so only 10 of these are skipped
				und(10 + 10 + 10 + 20 + 10 + 40 + 10 + 80 + 10)
				dated(105) // skipping 100 (80 doubled is 160? no: doubled while below 100)
				und(3)
				dated(2)
				cs, err := caseLines(k, ls, -1)
				if err != nil {
					return err
				}
				addSplit(c, cs)
			}
		}
		for i := 0; i < c.N(60); i++ {
			k, ls := genLines(r, today())
			if k < 0 {
				continue
			}
			seek := -1
			if i%3 == 0 {
				seek = r.Intn(len(ls)) // read the whole file, then go back to the start of this line and read on
			}
			cs, err := caseLines(k, ls, seek)
			if err != nil {
				return err
			}
			addSplit(c, cs)
		}
	}
	c.Note("formats", map[string]int{"collector": len(lists[0]), "lql": len(lists[1]), "terms": len(terms)})
	c.Note("instants_per_format", 15+per)
	return c.Finish(rule)
}

func main() { Main("C20", "C20K", run) }
