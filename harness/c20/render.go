package main

// The harness's own reading of the user format tokens (independent of the Coq model): the text
// of a civil instant "in a format" is what a log producer using that format writes.

import (
	"fmt"
	"strings"
	"time"

	"github.com/logrange/logrange/pkg/scanner/parser/date"
)

// Civil is an instant given by its fields, as a log producer has them.
type Civil struct {
	Y    int    `json:"y"`
	Mo   int    `json:"mo"`
	D    int    `json:"d"`
	H    int    `json:"h"`
	Mi   int    `json:"mi"`
	S    int    `json:"s"`
	Ms   int    `json:"ms"`
	Off  int    `json:"off"`  // zone offset in minutes east of UTC (used by numeric zone tokens)
	Abbr string `json:"abbr"` // zone abbreviation written for ZZZ
}

type item struct {
	term int  // index into terms, -1 for a literal byte
	lit  byte // literal byte
}

// tokenize repeats strings.Replace of date.go at item level: for each term in table order, every
// non-overlapping occurrence (left to right) of its name inside a run of still-literal bytes
// becomes one token.
func tokenize(terms [][3]string, f string) []item {
	its := make([]item, len(f))
	for i := 0; i < len(f); i++ {
		its[i] = item{term: -1, lit: f[i]}
	}
	for ti, t := range terms {
		name := t[0]
		var out []item
		i := 0
		for i < len(its) {
			ok := i+len(name) <= len(its)
			if ok {
				for k := 0; k < len(name); k++ {
					if its[i+k].term != -1 || its[i+k].lit != name[k] {
						ok = false
						break
					}
				}
			}
			if ok && len(name) > 0 {
				out = append(out, item{term: ti})
				i += len(name)
			} else {
				out = append(out, its[i])
				i++
			}
		}
		its = out
	}
	return its
}

var monthsLong = []string{"January", "February", "March", "April", "May", "June", "July", "August", "September", "October", "November", "December"}
var daysLong = []string{"Sunday", "Monday", "Tuesday", "Wednesday", "Thursday", "Friday", "Saturday"}

func hour12(h int) int {
	h %= 12
	if h == 0 {
		h = 12
	}
	return h
}

// renderTok writes one user token; ok=false for a token name the harness has no reading for.
func renderTok(name string, c Civil) (string, bool) {
	wd := int(time.Date(c.Y, time.Month(c.Mo), c.D, 0, 0, 0, 0, time.UTC).Weekday())
	off := c.Off
	sign := "+"
	if off < 0 {
		sign = "-"
		off = -off
	}
	switch name {
	case "YYYY":
		return fmt.Sprintf("%04d", c.Y), true
	case "YY":
		return fmt.Sprintf("%02d", c.Y%100), true
	case "MMMM":
		return monthsLong[c.Mo-1], true
	case "MMM":
		return monthsLong[c.Mo-1][:3], true
	case "MM":
		return fmt.Sprintf("%02d", c.Mo), true
	case "M":
		return fmt.Sprintf("%d", c.Mo), true
	case "DDDD":
		return daysLong[wd], true
	case "DDD":
		return daysLong[wd][:3], true
	case "DD":
		return fmt.Sprintf("%02d", c.D), true
	case "_D":
		return fmt.Sprintf("%2d", c.D), true
	case "D":
		return fmt.Sprintf("%d", c.D), true
	case "HH":
		return fmt.Sprintf("%02d", c.H), true
	case "hh":
		return fmt.Sprintf("%02d", hour12(c.H)), true
	case "h":
		return fmt.Sprintf("%d", hour12(c.H)), true
	case "mm":
		return fmt.Sprintf("%02d", c.Mi), true
	case "m":
		return fmt.Sprintf("%d", c.Mi), true
	case "ss":
		return fmt.Sprintf("%02d", c.S), true
	case "s":
		return fmt.Sprintf("%d", c.S), true
	case ".SSS":
		return fmt.Sprintf(".%03d", c.Ms), true
	case "P":
		if c.H >= 12 {
			return "PM", true
		}
		return "AM", true
	case "ZZZZZ":
		return fmt.Sprintf("%s%02d:%02d", sign, off/60, off%60), true
	case "ZZZZ":
		return fmt.Sprintf("%s%02d%02d", sign, off/60, off%60), true
	case "ZZZ":
		return c.Abbr, true
	}
	return "", false
}

// fmtInfo is what the harness derives from a format string
type fmtInfo struct {
	f                                                        string
	toks                                                     []item
	names                                                    []string // token names in order ("" for literals)
	hasY, hasMo, hasD, hasH, has12, hasP, hasMi, hasS, hasMs bool
	hasNumZone, hasAbbr                                      bool
	twoDigitYear                                             bool
	known                                                    bool
}

func analyse(terms [][3]string, f string) *fmtInfo {
	fi := &fmtInfo{f: f, toks: tokenize(terms, f), known: true}
	for _, it := range fi.toks {
		if it.term < 0 {
			fi.names = append(fi.names, "")
			continue
		}
		n := terms[it.term][0]
		fi.names = append(fi.names, n)
		switch n {
		case "YYYY":
			fi.hasY = true
		case "YY":
			fi.hasY, fi.twoDigitYear = true, true
		case "MMMM", "MMM", "MM", "M":
			fi.hasMo = true
		case "DDDD", "DDD":
		case "DD", "_D", "D":
			fi.hasD = true
		case "HH":
			fi.hasH = true
		case "hh", "h":
			fi.hasH, fi.has12 = true, true
		case "mm", "m":
			fi.hasMi = true
		case "ss", "s":
			fi.hasS = true
		case ".SSS":
			fi.hasMs = true
		case "P":
			fi.hasP = true
		case "ZZZZZ", "ZZZZ":
			fi.hasNumZone = true
		case "ZZZ":
			fi.hasAbbr = true
		default:
			fi.known = false
		}
	}
	return fi
}

func (fi *fmtInfo) render(terms [][3]string, c Civil) string {
	var sb strings.Builder
	for i, it := range fi.toks {
		if it.term < 0 {
			sb.WriteByte(it.lit)
			continue
		}
		s, _ := renderTok(fi.names[i], c)
		sb.WriteString(s)
	}
	return sb.String()
}

// Now is the civil date of "now" (UTC; the harness forces time.Local = UTC)
type Now struct {
	Y  int `json:"y"`
	Mo int `json:"mo"`
	D  int `json:"d"`
}

// expected is the oracle's reading: the instant the text denotes, to the format's precision
// (fields the format does not write are zero; UTC when the format writes no zone; no date => today;
// no year => the current year, or the previous one when the month is later than the current month —
// the documented rule of adjustYear).
func (fi *fmtInfo) expected(c Civil, now Now) (sec int64, nsec int64) {
	y, mo, d := c.Y, c.Mo, c.D
	if !fi.hasMo {
		mo = 1
	}
	if !fi.hasD {
		d = 1
	}
	noDate := !strings.ContainsAny(fi.f, "YMD")
	if noDate {
		y, mo, d = now.Y, now.Mo, now.D
	} else if !fi.hasY {
		y = now.Y
		if mo > now.Mo {
			y--
		}
	}
	h, mi, s, ms := c.H, c.Mi, c.S, c.Ms
	if !fi.hasH {
		h = 0
	}
	if fi.has12 && !fi.hasP {
		h = hour12(h) // a 12-hour clock without am/pm writes only this
	}
	if !fi.hasMi {
		mi = 0
	}
	if !fi.hasS {
		s = 0
	}
	if !fi.hasMs {
		ms = 0
	}
	off := 0
	if fi.hasNumZone {
		off = c.Off
	}
	t := time.Date(y, time.Month(mo), d, h, mi, s, ms*1000000, time.UTC)
	return t.Unix() - int64(off)*60, int64(t.Nanosecond())
}

var _ = date.KnownFormats
