module verifharness

go 1.12

require (
	github.com/dustin/go-humanize v1.0.0
	github.com/jrivets/log4g v0.0.0-20191016233753-c02c5046dc98
	github.com/logrange/linker v0.0.0-20190313060137-63e2b15b4d15
	github.com/logrange/logrange v0.0.0
	github.com/logrange/range v0.0.0-20210205081507-1d621ca07fd2
)

replace github.com/logrange/logrange => /repo
