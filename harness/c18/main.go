// C18 harness: drives the real forwarder worker (pkg/forwarder worker.run through the hook
// VC18Start: real NewForwarder/loadState/mergeDescs/persistState/runPersistState, injected sink)
// in lock-step with an event script against a scripted api.Client (the "server": a list of events,
// positions are decimal indexes) and a recording/failing sink; the storage is the real file
// storage. The worker's 5 s sleeps are under the driver's control through the worker's context
// (Done() blocks until the driver ends the sleep; Err() is nil until the stop). Projection: the requests the server saw, every hand-over to
// the sink with its verdict, desc position after a commit, the Position written to
// forwarder.json, the position a restarted worker begins with, the worker's exit.
package main

import (
	"context"
	"encoding/json"
	"errors"
	"fmt"
	"io/ioutil"
	"os"
	"path/filepath"
	"strconv"
	"sync"
	"sync/atomic"
	"time"

	"github.com/logrange/logrange/api"
	"github.com/logrange/logrange/pkg/forwarder"
	"github.com/logrange/logrange/pkg/forwarder/sink"
	"github.com/logrange/logrange/pkg/storage"
	. "verifharness/common"
)

const waitDeadline = 40 * time.Second

// Op is one script event (1:1 with model/Forwarder.v `ev`, except stopctx = EStop; EPersist)
type Op struct {
	K   string `json:"k"`             // app | begin | q | sink | commit | persist | stop | stopctx | restart
	N   int    `json:"n,omitempty"`   // app: number of events; q ok: k
	Out string `json:"out,omitempty"` // q: ok | empty | terr | serr
	Ok  bool   `json:"ok,omitempty"`  // sink verdict
	G   bool   `json:"g,omitempty"`   // q: fill the (to be ignored) result with garbage
}

type Replay struct {
	Ops      []Op `json:"ops"`
	UsePipe  bool `json:"ensurePipe,omitempty"` // worker config without Pipe.Name: EnsurePipe is called
	StepsMax int  `json:"-"`
}

// ---------- the worker's context: every utils.Sleep(ctx, 5s) of the worker lasts until the driver ends it ----------
// Done() is only called by utils.Sleep (the scripted client ignores the context). The call hands a
// "sleep gate" to the driver and BLOCKS until the driver opens it (or the context is cancelled), then
// returns a closed channel: the sleep ends at once and its 5 s timer never matters, because
// time.After is only evaluated after Done() has returned. Err() is nil until the context is cancelled.
type fastCtx struct {
	mu     sync.Mutex
	err    error
	gate   chan struct{}
	gates  chan chan struct{}
	killed chan struct{}
}

var closedCh = func() chan struct{} { c := make(chan struct{}); close(c); return c }()

func newFastCtx(killed chan struct{}) *fastCtx {
	return &fastCtx{gates: make(chan chan struct{}), killed: killed}
}
func (c *fastCtx) Deadline() (time.Time, bool)       { return time.Time{}, false }
func (c *fastCtx) Value(key interface{}) interface{} { return nil }
func (c *fastCtx) Done() <-chan struct{} {
	c.mu.Lock()
	if c.err != nil {
		c.mu.Unlock()
		return closedCh
	}
	g := make(chan struct{})
	c.gate = g
	c.mu.Unlock()
	select {
	case c.gates <- g:
	case <-c.killed:
		return closedCh
	}
	select {
	case <-g:
	case <-c.killed:
	}
	return closedCh
}
func (c *fastCtx) Err() error {
	c.mu.Lock()
	defer c.mu.Unlock()
	return c.err
}
func (c *fastCtx) open(g chan struct{}) {
	c.mu.Lock()
	if c.gate == g && g != nil {
		close(g)
		c.gate = nil
	}
	c.mu.Unlock()
}
func (c *fastCtx) cancel() {
	c.mu.Lock()
	c.err = context.Canceled
	if c.gate != nil {
		close(c.gate)
		c.gate = nil
	}
	c.mu.Unlock()
}

// ---------- scripted server ----------
type qreply struct {
	events []*api.LogEvent
	next   string
	err    error // transport error
	serr   error // res.Err
}
type qcall struct {
	pos   string
	off   int    // QueryRequest.Offset: the server skips that many events from Pos (C16's contract)
	limit int    // QueryRequest.Limit
	query string // QueryRequest.Query
	reply chan qreply
}
type sclient struct {
	arrive  chan *qcall
	dead    chan struct{}
	ensures int32
}

var errDead = errors.New("connection closed")

func (c *sclient) Query(ctx context.Context, req *api.QueryRequest, res *api.QueryResult) error {
	call := &qcall{pos: req.Pos, off: req.Offset, limit: req.Limit, query: req.Query, reply: make(chan qreply, 1)}
	select {
	case c.arrive <- call:
	case <-c.dead:
		return errDead
	}
	select {
	case r := <-call.reply:
		res.Events = r.events
		res.NextQueryRequest = *req
		res.NextQueryRequest.Pos = r.next
		res.NextQueryRequest.Offset = 0 // the server has applied it
		res.NextQueryRequest.ReqId = 77
		res.Err = r.serr
		return r.err
	case <-c.dead:
		return errDead
	}
}
func (c *sclient) Write(ctx context.Context, tags, fields string, evs []*api.LogEvent, res *api.WriteResult) error {
	return errors.New("not scripted")
}
func (c *sclient) Execute(ctx context.Context, req api.ExecRequest) (api.ExecResult, error) {
	return api.ExecResult{}, errors.New("not scripted")
}
func (c *sclient) EnsurePipe(ctx context.Context, p api.Pipe, res *api.PipeCreateResult) error {
	atomic.AddInt32(&c.ensures, 1)
	res.Pipe = p
	res.Pipe.Destination = "logrange.pipe=" + p.Name
	return nil
}
func (c *sclient) Close() error { return nil }

// ---------- recording sink ----------
type scall struct {
	ids    []int64
	fields []string
	reply  chan bool
}
type rsink struct {
	arrive chan *scall
	dead   chan struct{}
	closed int32
}

func (s *rsink) OnEvent(events []*api.LogEvent) error {
	ids := make([]int64, len(events))
	fields := make([]string, len(events))
	for i, e := range events {
		v, err := strconv.ParseInt(e.Message, 10, 64)
		if err != nil {
			v = -1
		}
		ids[i] = v
		fields[i] = e.Fields
	}
	call := &scall{ids: ids, fields: fields, reply: make(chan bool, 1)}
	select {
	case s.arrive <- call:
	case <-s.dead:
		return errDead
	}
	select {
	case ok := <-call.reply:
		if ok {
			return nil
		}
		return errors.New("sink rejected")
	case <-s.dead:
		return errDead
	}
}
func (s *rsink) Close() error { atomic.AddInt32(&s.closed, 1); return nil }

// ---------- storage wrapper: counts writes; a crashed process' writes no longer reach the disk ----------
type cstorage struct {
	inner  storage.Storage
	writes int32
	frozen int32
}

func (s *cstorage) ReadData(key string) ([]byte, error) { return s.inner.ReadData(key) }
func (s *cstorage) WriteData(key string, val []byte) error {
	if atomic.LoadInt32(&s.frozen) != 0 {
		return errDead
	}
	err := s.inner.WriteData(key, val)
	atomic.AddInt32(&s.writes, 1)
	return err
}

// ---------- one forwarder process ----------
type proc struct {
	h     *forwarder.VC18Handle
	cl    *sclient
	sk    *rsink
	st    *cstorage
	wctx  *fastCtx
	pstop context.CancelFunc
	dead  chan struct{}
}

type driver struct {
	dir     string
	usePipe bool
	store   []int64
	nextId  int64
	p       *proc
	// where the real worker is blocked: it is ALWAYS blocked in exactly one of these (or has exited)
	phase   string        // head | inquery | insink | accepted | exited   (the script's view)
	pq      *qcall        // inquery: the pending query
	ps      *scall        // insink: the pending sink call
	psStart int           // insink: position the batch was read at
	query   string        // the Query text of the first request
	gate    chan struct{} // head: the worker sleeps after a failure; closing the gate ends the sleep
	bufQ    *qcall        // head/accepted: the worker already sits in its next Query (no sleep on that path)
	bufExit bool          // head/accepted: the worker already left the loop

	evs []string // Coq events
	obs []string // Coq observations
	o   oracle
	tag map[string]int
	err error
}

// effPos: where the server starts reading for the request: Pos moved by Offset (not below 0)
func effPos(q *qcall) (int, bool) {
	pos, ok := posOf(q.pos)
	if !ok {
		return 0, false
	}
	pos += q.off
	if pos < 0 {
		pos = 0
	}
	return pos, true
}

func posOf(s string) (int, bool) {
	if s == "" {
		return 0, true
	}
	v, err := strconv.Atoi(s)
	if err != nil || v < 0 {
		return 0, false
	}
	return v, true
}

func (d *driver) cfg() *forwarder.Config {
	pc := &forwarder.PipeConfig{Name: "logrange.pipe=p1"}
	if d.usePipe {
		pc = &forwarder.PipeConfig{From: "a=b"}
	}
	return &forwarder.Config{
		Workers:                []*forwarder.WorkerConfig{{Name: "w1", Pipe: pc, Sink: &sink.Config{Type: sink.SnkTypeStdout}}},
		StateStoreIntervalSec:  3600,
		SyncWorkersIntervalSec: 3600,
	}
}

func (d *driver) start() error {
	inner, err := storage.NewStorage(&storage.Config{Type: storage.TypeFile, Location: d.dir})
	if err != nil {
		return err
	}
	dead := make(chan struct{})
	p := &proc{cl: &sclient{arrive: make(chan *qcall), dead: dead}, sk: &rsink{arrive: make(chan *scall), dead: dead},
		st: &cstorage{inner: inner}, wctx: newFastCtx(dead), dead: dead}
	pctx, pstop := context.WithCancel(context.Background())
	p.pstop = pstop
	h, err := forwarder.VC18Start(p.wctx, pctx, d.cfg(), p.cl, p.st, p.sk)
	if err != nil {
		pstop()
		return err
	}
	p.h = h
	d.p = p
	d.phase = "head"
	d.pq, d.ps, d.bufQ, d.bufExit, d.gate = nil, nil, nil, false, nil
	return nil
}

// kill ends the current process without letting it write anything any more
func (d *driver) kill() {
	p := d.p
	if p == nil {
		return
	}
	atomic.StoreInt32(&p.st.frozen, 1)
	close(p.dead)
	p.wctx.cancel()
	p.pstop()
	select {
	case <-p.h.Done():
	case <-time.After(waitDeadline):
		d.err = fmt.Errorf("worker did not exit after kill")
	}
	p.h.Close()
	d.p = nil
}

func (d *driver) other(code int, class, detail string) {
	d.obs = append(d.obs, GApp("OOther", GNat(code)))
	d.o.fail(class, detail)
}

// settle waits until the worker is blocked again (sleeping, in Query, in the sink) or has exited.
// wantSink: the worker is expected in the sink. Returns false on a deviation (recorded).
func (d *driver) settle(wantSink bool, where string) bool {
	select {
	case g := <-d.p.wctx.gates:
		if wantSink {
			d.p.wctx.open(g)
			d.other(3, "batch-not-handed-to-sink", "the worker went to sleep instead of handing the batch over "+where)
			return false
		}
		d.gate = g
	case q := <-d.p.cl.arrive:
		if wantSink {
			q.reply <- qreply{err: errDead}
			d.other(3, "batch-not-handed-to-sink", "the worker queried again instead of handing the batch over "+where)
			return false
		}
		d.bufQ = q
	case s := <-d.p.sk.arrive:
		if !wantSink {
			s.reply <- false
			d.other(1, "handover-without-successful-query", fmt.Sprintf("sink handed %v %s, without a successful query before it", s.ids, where))
			return false
		}
		d.ps = s
	case <-d.p.h.Done():
		if wantSink {
			d.other(3, "batch-not-handed-to-sink", "the worker exited instead of handing the batch over "+where)
			return false
		}
		d.bufExit = true
	case <-time.After(waitDeadline):
		d.other(9, "worker-stuck", "the worker neither slept, queried, called the sink nor exited within the deadline "+where)
		return false
	}
	return true
}

func (d *driver) readPersisted() (int, error) {
	data, err := ioutil.ReadFile(filepath.Join(d.dir, "forwarder.json"))
	if err != nil {
		if os.IsNotExist(err) {
			return 0, nil
		}
		return 0, err
	}
	var l []struct{ Position string }
	if err := json.Unmarshal(data, &l); err != nil {
		return 0, fmt.Errorf("forwarder.json: %v (%q)", err, data)
	}
	if len(l) != 1 {
		return 0, fmt.Errorf("forwarder.json: %d descriptors (%q)", len(l), data)
	}
	v, ok := posOf(l[0].Position)
	if !ok {
		return 0, fmt.Errorf("forwarder.json: position %q", l[0].Position)
	}
	return v, nil
}

func gIds(ids []int64) string { return GListZ(ids) }

// forced reports that the real worker has already passed its loop head (it does so at once after a
// commit, after a restart, and when a sleep was cut by the context): the script's next worker event
// must be `begin`, nothing that the loop head would see may be scheduled before it.
func (d *driver) forced() bool { return d.phase == "head" && (d.bufQ != nil || d.bufExit) }

// apply executes one script event; returns false when the case must end (deviation or error)
func (d *driver) apply(op Op) bool {
	switch op.K {
	case "app":
		var es []int64
		for i := 0; i < op.N; i++ {
			d.nextId++
			es = append(es, d.nextId*3+1)
		}
		d.store = append(d.store, es...)
		d.evs = append(d.evs, GApp("EAppend", gIds(es)))
	case "begin":
		d.evs = append(d.evs, "EBegin")
		if d.phase != "head" {
			return true
		}
		if d.gate != nil {
			d.p.wctx.open(d.gate)
			d.gate = nil
			if !d.settle(false, "after a sleep") {
				return false
			}
			if d.gate != nil {
				d.other(5, "slept-twice", "two sleeps in a row")
				return false
			}
		}
		if d.bufExit {
			d.bufExit = false
			d.phase = "exited"
			d.obs = append(d.obs, "OExit")
			if atomic.LoadInt32(&d.p.sk.closed) != 1 {
				d.tag["exit-without-sink-close"]++
			}
			return true
		}
		q := d.bufQ
		d.bufQ = nil
		pos, okp := effPos(q)
		if !okp {
			q.reply <- qreply{err: errDead}
			d.other(2, "request-position-unknown", fmt.Sprintf("request position %q was never issued by the server", q.pos))
			return false
		}
		if q.off != 0 {
			d.tag["request-with-offset"]++
		}
		if q.limit <= 0 {
			d.o.fail("request-without-limit", fmt.Sprintf("request with Limit %d: the server returns nothing for it", q.limit))
		}
		if d.query == "" {
			d.query = q.query
		} else if q.query != d.query {
			d.o.fail("request-query-changed", fmt.Sprintf("request query %q, the first request asked %q", q.query, d.query))
		}
		d.pq = q
		d.phase = "inquery"
		d.obs = append(d.obs, GApp("OReq", GNat(pos)))
		d.o.req(pos)
	case "q":
		switch op.Out {
		case "ok":
			d.evs = append(d.evs, GApp("EQueryRet", GApp("QOk", GNat(op.N))))
		case "empty":
			d.evs = append(d.evs, GApp("EQueryRet", "QEmpty"))
		case "terr":
			d.evs = append(d.evs, GApp("EQueryRet", "QTransportErr"))
		default:
			d.evs = append(d.evs, GApp("EQueryRet", "QServerErr"))
		}
		if d.phase != "inquery" {
			return true
		}
		pos, _ := effPos(d.pq)
		lo, hi := pos, pos+op.N
		if lo > len(d.store) {
			lo = len(d.store)
		}
		if hi > len(d.store) {
			hi = len(d.store)
		}
		mk := func(ids []int64) []*api.LogEvent {
			r := make([]*api.LogEvent, len(ids))
			for i, id := range ids {
				r[i] = &api.LogEvent{Timestamp: id, Message: strconv.FormatInt(id, 10), Tags: "a=b"}
			}
			return r
		}
		garbage := mk([]int64{-7, -8})
		q := d.pq
		d.pq = nil
		if op.Out == "ok" && hi > lo {
			q.reply <- qreply{events: mk(d.store[lo:hi]), next: strconv.Itoa(hi)}
			d.psStart = lo
			if !d.settle(true, fmt.Sprintf("(events %v returned at position %d)", d.store[lo:hi], lo)) {
				return false
			}
			d.phase = "insink"
			return true
		}
		r := qreply{next: q.pos}
		if q.off != 0 {
			r.next = strconv.Itoa(pos)
		}
		switch op.Out {
		case "ok", "empty":
			if op.G {
				r.next = strconv.Itoa(pos + 2) // a position the worker must not adopt
			}
		case "terr":
			r.err = errors.New("transport error")
			if op.G {
				r.events, r.next = garbage, strconv.Itoa(pos+2)
			}
		default:
			r.serr = errors.New("server error")
			if op.G {
				r.events, r.next = garbage, strconv.Itoa(pos+2)
			}
		}
		q.reply <- r
		d.phase = "head"
		return d.settle(false, "after a failed or empty query")
	case "sink":
		d.evs = append(d.evs, GApp("ESinkRet", GBool(op.Ok)))
		if d.phase != "insink" {
			return true
		}
		s := d.ps
		d.ps = nil
		d.obs = append(d.obs, GApp("OSink", GNat(d.psStart), gIds(s.ids), GBool(op.Ok)))
		d.o.sink(d.psStart, s.ids, op.Ok, d.store)
		s.reply <- op.Ok
		if !op.Ok {
			d.phase = "head"
			return d.settle(false, "after a rejected batch")
		}
		// the commit follows at once; when the worker shows up again it is done
		d.phase = "accepted"
		if !d.settle(false, "after an accepted batch") {
			return false
		}
		if d.gate != nil {
			d.p.wctx.open(d.gate)
			d.other(6, "slept-after-accept", "the worker slept after the sink accepted")
			return false
		}
	case "commit":
		d.evs = append(d.evs, "ECommit")
		if d.phase != "accepted" {
			return true
		}
		pos, ok := posOf(d.p.h.Position())
		if !ok {
			d.other(4, "position-unknown", d.p.h.Position())
			return false
		}
		d.obs = append(d.obs, GApp("OPos", GNat(pos)))
		d.o.pos(pos)
		d.phase = "head"
	case "persist", "stopctx":
		if op.K == "stopctx" {
			d.evs = append(d.evs, "EStop")
			w0 := atomic.LoadInt32(&d.p.st.writes)
			hadGate := d.gate != nil
			d.p.wctx.cancel() // ends a sleep, as cancelling a real context does
			d.gate = nil
			d.p.pstop() // the persister goroutine writes the state one last time
			t0 := time.Now()
			for atomic.LoadInt32(&d.p.st.writes) == w0 {
				if time.Since(t0) > waitDeadline {
					d.evs = append(d.evs, "EPersist")
					d.other(9, "final-persist-missing", "no state write within the deadline after the context was cancelled")
					return false
				}
				time.Sleep(200 * time.Microsecond)
			}
			if hadGate && !d.settle(false, "after the context was cancelled during a sleep") {
				d.evs = append(d.evs, "EPersist")
				return false
			}
		} else if err := d.p.h.Persist(); err != nil {
			d.err = err
			return false
		}
		d.evs = append(d.evs, "EPersist")
		pos, err := d.readPersisted()
		if err != nil {
			d.err = err
			return false
		}
		d.obs = append(d.obs, GApp("OPersisted", GNat(pos)))
		d.o.persisted(pos)
	case "stop":
		d.evs = append(d.evs, "EStop")
		d.p.h.StopGracefully()
	case "restart":
		d.evs = append(d.evs, "ERestart")
		d.kill()
		if d.err != nil {
			return false
		}
		if err := d.start(); err != nil {
			d.err = err
			return false
		}
		pos, ok := posOf(d.p.h.Position())
		if !ok {
			d.other(4, "position-unknown", d.p.h.Position())
			return false
		}
		d.obs = append(d.obs, GApp("ORestart", GNat(pos)))
		d.o.restart(pos)
		return d.settle(false, "after the start")
	default:
		d.err = fmt.Errorf("unknown op %q", op.K)
		return false
	}
	return true
}

// ---------- the oracle: the property on the observations (independent of the Coq model) ----------
type oracle struct {
	cur, hw, pers int
	viol          *Violation
	rejThenAcc    bool
	lastRejected  bool
	accepted      [][2]int // [start, end) of the accepted batches
}

func (o *oracle) fail(class, detail string) {
	if o.viol == nil {
		o.viol = &Violation{Class: class, Detail: detail}
	}
}
func (o *oracle) req(pos int) {
	if pos != o.cur {
		o.fail("request-not-at-first-undelivered", fmt.Sprintf("request for position %d, last accepted batch ended at %d", pos, o.cur))
	}
}
func (o *oracle) sink(start int, ids []int64, ok bool, store []int64) {
	if start != o.cur {
		o.fail("handover-not-at-first-undelivered", fmt.Sprintf("sink handed events from position %d, last accepted batch ended at %d", start, o.cur))
	}
	if len(ids) == 0 {
		o.fail("handover-empty", "sink called with no events")
	}
	for i, id := range ids {
		if start+i >= len(store) || store[start+i] != id {
			o.fail("handover-not-stored-order", fmt.Sprintf("sink handed %v at position %d; partition there: %v", ids, start, store[minInt(start, len(store)):minInt(start+len(ids), len(store))]))
			break
		}
	}
	if ok {
		if o.lastRejected {
			o.rejThenAcc = true
		}
		o.lastRejected = false
		o.accepted = append(o.accepted, [2]int{start, start + len(ids)})
		o.cur = start + len(ids)
		if o.cur > o.hw {
			o.hw = o.cur
		}
	} else {
		o.lastRejected = true
	}
}
func (o *oracle) pos(p int) {
	if p != o.cur {
		o.fail("position-not-after-last-accepted", fmt.Sprintf("desc position %d, last accepted batch ended at %d", p, o.cur))
	}
}
func (o *oracle) persisted(p int) {
	if p > o.cur {
		o.fail("persisted-ahead-of-accepted", fmt.Sprintf("forwarder.json holds position %d, last accepted batch ended at %d", p, o.cur))
	}
	o.pers = p
}
func (o *oracle) restart(p int) {
	if p > o.hw {
		o.fail("restart-skips-events", fmt.Sprintf("restart resumes at %d, only positions below %d were ever accepted", p, o.hw))
	} else if p != o.pers {
		o.fail("restart-not-at-persisted", fmt.Sprintf("restart resumes at %d, forwarder.json held %d", p, o.pers))
	}
	o.cur = p
	o.lastRejected = false
}

// finish: every position below the high-water mark was in an accepted batch
func (o *oracle) finish() {
	cov := make([]bool, o.hw)
	for _, a := range o.accepted {
		for i := a[0]; i < a[1] && i < o.hw; i++ {
			cov[i] = true
		}
	}
	for i, c := range cov {
		if !c {
			o.fail("event-skipped", fmt.Sprintf("position %d was never in an accepted batch although %d was reached", i, o.hw))
			return
		}
	}
}

func minInt(a, b int) int {
	if a < b {
		return a
	}
	return b
}

// ---------- generation (online: the next event is drawn knowing the phase the real worker is in) ----------
func (d *driver) draw(r *Rng, stopped *bool) Op {
	x := r.Intn(100)
	qop := func() Op {
		y := r.Intn(100)
		switch {
		case y < 58:
			return Op{K: "q", Out: "ok", N: r.PickInt(0, 1, 1, 2, 3, 5, 1000), G: r.Chance(1, 2)}
		case y < 70:
			return Op{K: "q", Out: "empty", G: r.Chance(1, 2)}
		case y < 85:
			return Op{K: "q", Out: "terr", G: r.Chance(1, 2)}
		default:
			return Op{K: "q", Out: "serr", G: r.Chance(1, 2)}
		}
	}
	common := func(x int) (Op, bool) { // events enabled everywhere
		switch {
		case x < 8:
			return Op{K: "persist"}, true
		case x < 15:
			return Op{K: "app", N: r.PickInt(1, 1, 2, 3, 7)}, true
		case x < 18:
			*stopped = true
			return Op{K: "stop"}, true
		case x < 20:
			if *stopped {
				return Op{K: "persist"}, true
			}
			*stopped = true
			return Op{K: "stopctx"}, true
		case x < 25:
			*stopped = false
			return Op{K: "restart"}, true
		case x < 27: // an event that is not enabled here (a no-op for model and driver)
			return []Op{{K: "commit"}, {K: "sink", Ok: true}, qop(), {K: "begin"}}[r.Intn(4)], true
		}
		return Op{}, false
	}
	switch d.phase {
	case "head":
		if d.forced() { // the real worker is already past its loop head
			switch {
			case x < 8:
				return Op{K: "persist"}
			case x < 14:
				return Op{K: "app", N: r.PickInt(1, 2, 5)}
			case x < 18:
				*stopped = false
				return Op{K: "restart"}
			}
			return Op{K: "begin"}
		}
		if op, ok := common(x); ok { // the worker sleeps after a failure
			return op
		}
		return Op{K: "begin"}
	case "inquery":
		if op, ok := common(x); ok {
			return op
		}
		return qop()
	case "insink":
		if op, ok := common(x); ok {
			return op
		}
		return Op{K: "sink", Ok: r.Chance(3, 5)}
	case "accepted":
		if x < 10 {
			return Op{K: "app", N: r.PickInt(1, 2)}
		}
		return Op{K: "commit"}
	default: // exited
		switch {
		case x < 60:
			*stopped = false
			return Op{K: "restart"}
		case x < 80:
			return Op{K: "persist"}
		case x < 90:
			return Op{K: "app", N: 2}
		}
		return Op{K: "begin"}
	}
}

func runCase(rp *Replay, r *Rng) (*Case, error) {
	dir := TempDir("c18")
	defer RemoveAll(dir)
	d := &driver{dir: dir, usePipe: rp.UsePipe, tag: map[string]int{}}
	if err := d.start(); err != nil {
		return nil, err
	}
	if !d.settle(false, "after the start") {
		d.kill()
		return nil, fmt.Errorf("the worker did not start: %v", d.o.viol)
	}
	if r == nil {
		for _, op := range rp.Ops {
			if !d.apply(op) {
				break
			}
		}
	} else {
		stopped := false
		d.apply(Op{K: "app", N: r.PickInt(0, 1, 3, 6, 12)})
		rp.Ops = append(rp.Ops, Op{K: "app", N: len(d.store)})
		for i := 0; i < rp.StepsMax; i++ {
			op := d.draw(r, &stopped)
			rp.Ops = append(rp.Ops, op)
			if !d.apply(op) {
				break
			}
		}
	}
	ensures := int32(0)
	if d.p != nil {
		ensures = atomic.LoadInt32(&d.p.cl.ensures)
	}
	d.kill()
	if d.err != nil {
		return nil, d.err
	}
	d.o.finish()
	tags := []string{fmt.Sprintf("len:%d", len(rp.Ops)/20*20)}
	for k := range d.tag {
		tags = append(tags, k)
	}
	if rp.UsePipe {
		tags = append(tags, "ensure-pipe")
		if ensures == 0 {
			tags = append(tags, "ensure-pipe-not-called")
		}
	}
	if d.o.rejThenAcc {
		tags = append(tags, "reject-then-accept")
	}
	if d.o.hw > d.o.cur {
		tags = append(tags, "redelivery-after-restart")
	}
	return &Case{
		Coq:        GApp("KRun", GList(d.evs), GList(d.obs)),
		Replay:     rp,
		NonTrivial: d.o.rejThenAcc,
		Oracle:     d.o.viol,
		Stream:     "script",
		Tags:       tags,
	}, nil
}

// corpus: deterministic cases that always run first
func corpus() []Replay {
	q := func(out string, n int) Op { return Op{K: "q", Out: out, N: n, G: true} }
	return []Replay{
		{Ops: []Op{{K: "app", N: 5}, {K: "begin"}, q("terr", 0), {K: "begin"}, q("ok", 2), {K: "sink"}, {K: "begin"}, q("ok", 3),
			{K: "sink", Ok: true}, {K: "commit"}, {K: "persist"}, {K: "begin"}, q("serr", 0), {K: "begin"}, q("ok", 9), {K: "persist"},
			{K: "sink", Ok: true}, {K: "commit"}, {K: "restart"}, {K: "begin"}, q("ok", 1), {K: "stop"}, {K: "sink", Ok: true}, {K: "commit"},
			{K: "begin"}, {K: "persist"}, {K: "restart"}, {K: "begin"}, q("ok", 1000), {K: "sink", Ok: true}, {K: "commit"}}},
		{UsePipe: true, Ops: []Op{{K: "app", N: 3}, {K: "begin"}, q("ok", 2), {K: "stopctx"}, {K: "sink", Ok: true}, {K: "commit"},
			{K: "begin"}, {K: "restart"}, {K: "begin"}, q("empty", 0), {K: "begin"}, q("ok", 1000), {K: "sink"}, {K: "begin"}, q("ok", 1000),
			{K: "sink", Ok: true}, {K: "commit"}, {K: "persist"}}},
	}
}

const rule = "event scripts (10-70 events drawn online over partition growth, loop head, query ok(k)/empty/transport error/server error with or without garbage in the ignored result, sink accept/reject, commit, persist tick, graceful stop by flag, stop by context with the persister's final write, crash/restart; 2 % not-enabled events) driven against the real worker; a case is non-trivial iff a rejected batch was followed by an accepted one; distinct by the Coq case term"

func main() {
	Main("C18", "C18K", func(c *Ctx) error {
		if c.Replay != nil {
			var e2e struct {
				E2E        bool `json:"e2e"`
				Total      int  `json:"total"`
				RejectPage int  `json:"rejectPage"`
			}
			if err := FromJSON(c.Replay, &e2e); err == nil && e2e.E2E {
				cs, err := runE2E(e2e.Total, e2e.RejectPage)
				if err != nil {
					return err
				}
				c.Add(*cs)
				return c.Finish(rule)
			}
			var rr struct {
				RealRun bool `json:"realrun"`
			}
			if err := FromJSON(c.Replay, &rr); err == nil && rr.RealRun {
				cs, err := runRealRun()
				if err != nil {
					return err
				}
				c.Add(*cs)
				return c.Finish(rule)
			}
			var sup SupReplay
			if err := FromJSON(c.Replay, &sup); err == nil && sup.Sup {
				cs, err := runSup(sup)
				if err != nil {
					return err
				}
				c.Add(*cs)
				return c.Finish(rule)
			}
			var srp SinkReplay
			if err := FromJSON(c.Replay, &srp); err == nil && srp.Sink {
				cs, err := runSink(srp)
				if err != nil {
					return err
				}
				c.Add(*cs)
				return c.Finish(rule)
			}
			var rp Replay
			if err := FromJSON(c.Replay, &rp); err != nil {
				return err
			}
			cs, err := runCase(&rp, nil)
			if err != nil {
				return err
			}
			c.Add(*cs)
			return c.Finish(rule)
		}
		// end-to-end against the real server: page 1 accepted, page 2 rejected and retried, page 3 accepted
		e2e, err := runE2E(2100, 2)
		if err != nil {
			return err
		}
		c.Add(*e2e)
		cor := corpus()
		n := c.N(700)
		type job struct {
			rp *Replay
			r  *Rng
		}
		jobs := make([]job, 0, n+len(cor))
		for i := range cor {
			jobs = append(jobs, job{rp: &cor[i]})
		}
		for i := 0; i < n; i++ {
			r := c.Rng.Fork()
			jobs = append(jobs, job{rp: &Replay{UsePipe: r.Chance(1, 4), StepsMax: r.PickInt(10, 25, 40, 70)}, r: r})
		}
		res := make([]*Case, len(jobs))
		errs := make([]error, len(jobs))
		Parallel(len(jobs), 12, func(i int) { res[i], errs[i] = runCase(jobs[i].rp, jobs[i].r) })
		for i := range jobs {
			if errs[i] != nil {
				return errs[i]
			}
			if i < len(cor) {
				res[i].Stream = "corpus"
			}
			c.Add(*res[i])
		}
		// the real syslog sink on a scripted connection
		ns := c.N(150)
		sjobs := []SinkReplay{{Sink: true, Q0: 1, Accept: true, Batches: [][]int{{0, 1, 2}, {0, 1, 2}}}}
		for i := 0; i < ns; i++ {
			sjobs = append(sjobs, genSink(c.Rng.Fork()))
		}
		sres := make([]*Case, len(sjobs))
		serrs := make([]error, len(sjobs))
		Parallel(len(sjobs), 8, func(i int) { sres[i], serrs[i] = runSink(sjobs[i]) })
		for i := range sjobs {
			if serrs[i] != nil {
				return serrs[i]
			}
			c.Add(*sres[i])
		}
		// the real supervisor (several workers, configuration reloads, restarts) driven step by step
		supJobs := supCorpus()
		for i := 0; i < c.N(24); i++ {
			supJobs = append(supJobs, genSup(c.Rng.Fork()))
		}
		supRes := make([]*Case, len(supJobs))
		supErrs := make([]error, len(supJobs))
		var realRun *Case
		var realErr error
		realDone := make(chan struct{})
		go func() { realRun, realErr = runRealRun(); close(realDone) }()
		Parallel(len(supJobs), 8, func(i int) { supRes[i], supErrs[i] = runSup(supJobs[i]) })
		<-realDone
		if realErr != nil {
			return realErr
		}
		c.Add(*realRun)
		for i := range supJobs {
			if supErrs[i] != nil {
				return supErrs[i]
			}
			c.Add(*supRes[i])
		}
		return c.Finish(rule)
	})
}
