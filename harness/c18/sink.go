package main

// Stream "sink": the REAL syslog sink (pkg/forwarder/sink, pkg/syslog) on a scripted connection.
// The sink is built by sink.NewSink (it dials a local listener), then its logger is put on one end of a net.Pipe
// (hook VC18SetConn): the other end takes q0 lines and closes, which makes the next write fail deterministically
// (TCP would report the failure at an unpredictable later write). A reconnect goes to the local listener, which is
// either closed (connection refused) or accepts and takes everything. Batches are handed to OnEvent one after the
// other, the way the forwarder retries; what every connection received is compared with model/SyslogSink.v (K) and
// with the contract (O): a call that reports success has sent its whole batch in order; a call that reports an error
// has sent a strict prefix and nothing after the event whose write failed.

import (
	"bufio"
	"fmt"
	"net"
	"regexp"
	"strconv"
	"sync"
	"time"

	"github.com/logrange/logrange/api"
	"github.com/logrange/logrange/pkg/forwarder/sink"
	. "verifharness/common"
)

type SinkReplay struct {
	Sink    bool    `json:"sink"`
	Q0      int     `json:"q0"`     // lines the first connection takes before it dies; -1: it never dies
	Accept  bool    `json:"accept"` // reconnects: accepted (unbounded) / refused
	Batches [][]int `json:"batches"`
}

var evRe = regexp.MustCompile(`ev-(\d+)-c(\d+)`)

// a received line: the event id and the OnEvent call that sent it
type rline struct{ id, call int }

func readLines(c net.Conn, max int) []rline {
	var ids []rline
	rd := bufio.NewReader(c)
	for max < 0 || len(ids) < max {
		line, err := rd.ReadString('\n')
		if m := evRe.FindStringSubmatch(line); m != nil && err == nil {
			id, _ := strconv.Atoi(m[1])
			cl, _ := strconv.Atoi(m[2])
			ids = append(ids, rline{id, cl})
		}
		if err != nil {
			break
		}
	}
	return ids
}

func genSink(r *Rng) SinkReplay {
	rp := SinkReplay{Sink: true, Accept: r.Chance(2, 3)}
	nb := r.Range(1, 3)
	id := 0
	total := 0
	for b := 0; b < nb; b++ {
		n := r.PickInt(1, 2, 3, 3, 4, 5, 7)
		var batch []int
		for i := 0; i < n; i++ {
			batch = append(batch, id)
			id++
		}
		rp.Batches = append(rp.Batches, batch)
		total += n
		if r.Chance(1, 3) { // the forwarder retries a rejected batch: the same events again
			rp.Batches = append(rp.Batches, batch)
			total += n
		}
	}
	if r.Chance(1, 6) {
		rp.Q0 = -1
	} else {
		rp.Q0 = r.Intn(total + 1)
	}
	return rp
}

func runSink(rp SinkReplay) (*Case, error) {
	ln, err := net.Listen("tcp", "127.0.0.1:0")
	if err != nil {
		return nil, err
	}
	var mu sync.Mutex
	var tcp [][]rline // per accepted connection, in accept order
	var wg sync.WaitGroup
	accepted := make(chan struct{}, 64)
	acceptDone := make(chan struct{})
	go func() {
		defer close(acceptDone)
		for {
			c, err := ln.Accept()
			if err != nil {
				return
			}
			mu.Lock()
			k := len(tcp)
			tcp = append(tcp, nil)
			mu.Unlock()
			wg.Add(1)
			accepted <- struct{}{}
			go func() {
				defer wg.Done()
				ids := readLines(c, -1)
				c.Close()
				mu.Lock()
				tcp[k] = ids
				mu.Unlock()
			}()
		}
	}()
	snk, err := sink.NewSink(&sink.Config{Type: sink.SnkTypeSyslog, Params: sink.Params{
		"Protocol": "tcp", "RemoteAddr": ln.Addr().String()}})
	if err != nil {
		ln.Close()
		return nil, fmt.Errorf("NewSink: %v", err)
	}
	lg := sink.VC18SyslogLogger(snk)
	if lg == nil {
		ln.Close()
		return nil, fmt.Errorf("not a syslog sink")
	}
	select {
	case <-accepted:
	case <-time.After(10 * time.Second):
		ln.Close()
		return nil, fmt.Errorf("the sink did not connect")
	}
	cli, srv := net.Pipe()
	if old := lg.VC18SetConn(cli); old != nil {
		old.Close() // the initial TCP connection (index 0 of tcp): receives nothing
	}
	if !rp.Accept {
		ln.Close()
	}
	var pipeIds []rline
	pdone := make(chan struct{})
	go func() {
		pipeIds = readLines(srv, rp.Q0)
		srv.Close()
		close(pdone)
	}()
	var oks []bool
	for k, b := range rp.Batches {
		evs := make([]*api.LogEvent, len(b))
		for i, id := range b {
			evs[i] = &api.LogEvent{Timestamp: int64(1000 + id), Message: fmt.Sprintf("ev-%d-c%d\n", id, k), Tags: "a=b"}
		}
		done := make(chan error, 1)
		go func() { done <- snk.OnEvent(evs) }()
		select {
		case err := <-done:
			oks = append(oks, err == nil)
		case <-time.After(20 * time.Second):
			ln.Close()
			return nil, fmt.Errorf("OnEvent did not return")
		}
	}
	snk.Close()
	cli.Close()
	if rp.Accept {
		// every connection the sink made is established (connect returned), possibly still waiting in the listener's
		// backlog: let the accept loop take what is pending, then stop it
		ln.(*net.TCPListener).SetDeadline(time.Now().Add(400 * time.Millisecond))
		<-acceptDone
		ln.Close()
	}
	<-pdone
	wg.Wait()
	mu.Lock()
	rconns := [][]rline{pipeIds}
	if len(tcp) > 1 {
		rconns = append(rconns, tcp[1:]...)
	}
	mu.Unlock()
	conns := make([][]int, len(rconns))
	perCall := make([][]int, len(rp.Batches)) // what each call sent, in the order it was sent
	for i, c := range rconns {
		for _, l := range c {
			conns[i] = append(conns[i], l.id)
			if l.call >= 0 && l.call < len(perCall) {
				perCall[l.call] = append(perCall[l.call], l.id)
			}
		}
	}

	// ---- oracle: what a call sent is a prefix of its batch, in order; all of it iff it reported success
	var viol *Violation
	for k, b := range rp.Batches {
		sent := perCall[k]
		j := 0
		for j < len(b) && j < len(sent) && sent[j] == b[j] {
			j++
		}
		switch {
		case j < len(sent):
			viol = &Violation{Class: "sink-wrote-after-failed-event", Detail: fmt.Sprintf("call %d: OnEvent(%v) sent %v: not a prefix of the batch (something after an event whose write failed was sent); connections received %v", k, b, sent, conns)}
		case oks[k] && j < len(b):
			viol = &Violation{Class: "sink-acknowledged-batch-not-delivered", Detail: fmt.Sprintf("call %d: OnEvent(%v) returned nil but sent only %v; connections received %v", k, b, sent, conns)}
		case !oks[k] && j == len(b):
			viol = &Violation{Class: "sink-rejected-delivered-batch", Detail: fmt.Sprintf("call %d: OnEvent(%v) returned an error but the whole batch was sent; connections received %v", k, b, conns)}
		}
		if viol != nil {
			break
		}
	}

	// ---- Gallina
	q0 := "None"
	if rp.Q0 >= 0 {
		q0 = GSome(GNat(rp.Q0))
	}
	dial := "None"
	if rp.Accept {
		dial = "(Some None)"
	}
	dials := make([]string, 24)
	for i := range dials {
		dials[i] = dial
	}
	gb := make([]string, len(rp.Batches))
	for i, b := range rp.Batches {
		z := make([]int64, len(b))
		for k, x := range b {
			z[k] = int64(x)
		}
		gb[i] = GListZ(z)
	}
	gok := make([]string, len(oks))
	for i, o := range oks {
		gok[i] = GBool(o)
	}
	gc := make([]string, len(conns))
	for i, c := range conns {
		z := make([]int64, len(c))
		for k, x := range c {
			z[k] = int64(x)
		}
		gc[i] = GListZ(z)
	}
	failed := false
	for _, o := range oks {
		if !o {
			failed = true
		}
	}
	return &Case{Coq: GApp("KSink", q0, GList(dials), GList(gb), GList(gok), GList(gc)), Replay: rp,
		NonTrivial: failed, Stream: "sink", Oracle: viol,
		Tags: []string{fmt.Sprintf("sink-accept:%v", rp.Accept), fmt.Sprintf("sink-failed:%v", failed)}}, nil
}
