package main

// End-to-end stream of the C18 harness: the real forwarder worker against the REAL server (in-process,
// real rpc client). It exercises the one assumption of the model - the server contract "a query at
// position p answers with the events from p on" - on the worker's own retry path: after a rejected batch
// the worker repeats a request whose ReqId names a cached cursor that has already moved on.

import (
	"context"
	"fmt"
	"strconv"
	"time"

	"github.com/logrange/logrange/api"
	"github.com/logrange/logrange/pkg/forwarder"
	"github.com/logrange/logrange/pkg/forwarder/sink"
	"github.com/logrange/logrange/pkg/storage"
	. "verifharness/common"
)

type wres struct {
	n    int
	next string
	err  error
	serr error
}
type wcall struct {
	pos     string
	goAhead chan struct{}
	result  chan wres
}

// wclient forwards every Query to the real client when the driver says so
type wclient struct {
	api.Client
	arrive chan *wcall
	dead   chan struct{}
}

func (c *wclient) Query(ctx context.Context, req *api.QueryRequest, res *api.QueryResult) error {
	call := &wcall{pos: req.Pos, goAhead: make(chan struct{}), result: make(chan wres, 1)}
	select {
	case c.arrive <- call:
	case <-c.dead:
		return errDead
	}
	select {
	case <-call.goAhead:
	case <-c.dead:
		return errDead
	}
	err := c.Client.Query(context.Background(), req, res)
	call.result <- wres{n: len(res.Events), next: res.NextQueryRequest.Pos, err: err, serr: res.Err}
	return err
}

type stored struct {
	id     int64
	fields string
}

// runE2E: 2100 events with distinct fields; page 1 accepted, page 2 rejected and retried, rest accepted
func runE2E(total int, rejectPage int) (*Case, error) {
	srv, err := StartServer(ServerOpts{})
	if err != nil {
		return nil, err
	}
	defer srv.Stop()
	tags := "name=c18e2e"
	var st []stored
	for i := 0; i < total; i++ {
		f := "" // two of three events carry no fields (the server re-uses its event buffer)
		if i%3 == 2 {
			f = fmt.Sprintf("k=v%d", i)
		}
		st = append(st, stored{id: int64(i*3 + 1), fields: f})
	}
	for lo := 0; lo < total; lo += 300 {
		hi := lo + 300
		if hi > total {
			hi = total
		}
		var evs []*api.LogEvent
		for _, s := range st[lo:hi] {
			evs = append(evs, &api.LogEvent{Timestamp: s.id, Message: strconv.FormatInt(s.id, 10), Fields: s.fields})
		}
		var wr api.WriteResult
		if err := srv.Client.Write(context.Background(), tags, "", evs, &wr); err != nil || wr.Err != nil {
			return nil, fmt.Errorf("e2e write: %v %v", err, wr.Err)
		}
	}
	readable := func() bool {
		n, pos := 0, ""
		for {
			var res api.QueryResult
			if err := srv.Client.Query(context.Background(), &api.QueryRequest{Query: "SELECT FROM " + tags, Pos: pos, Limit: 1000}, &res); err != nil || res.Err != nil {
				return false
			}
			if len(res.Events) == 0 {
				return n == total
			}
			n += len(res.Events)
			pos = res.NextQueryRequest.Pos
		}
	}
	if !WaitFor(30*time.Second, readable) {
		return nil, fmt.Errorf("e2e: written events did not become readable")
	}

	dir := TempDir("c18e")
	defer RemoveAll(dir)
	inner, err := storage.NewStorage(&storage.Config{Type: storage.TypeFile, Location: dir})
	if err != nil {
		return nil, err
	}
	dead := make(chan struct{})
	cl := &wclient{Client: srv.Client, arrive: make(chan *wcall), dead: dead}
	sk := &rsink{arrive: make(chan *scall), dead: dead}
	wctx := newFastCtx(dead)
	cfg := &forwarder.Config{
		Workers:                []*forwarder.WorkerConfig{{Name: "w1", Pipe: &forwarder.PipeConfig{Name: tags}, Sink: &sink.Config{Type: sink.SnkTypeStdout}}},
		StateStoreIntervalSec:  3600,
		SyncWorkersIntervalSec: 3600,
	}
	h, err := forwarder.VC18Start(wctx, nil, cfg, cl, &cstorage{inner: inner}, sk)
	if err != nil {
		return nil, err
	}
	defer func() {
		close(dead)
		wctx.cancel()
		select {
		case <-h.Done():
		case <-time.After(waitDeadline):
		}
		h.Close()
	}()

	var o oracle
	var evs, obs []string
	ids := make([]int64, total)
	for i, s := range st {
		ids[i] = s.id
	}
	evs = append(evs, GApp("EAppend", GListZ(ids)))
	posIdx := map[string]int{"": 0}
	staleFields := ""
	page := 0
rounds:
	for delivered := 0; delivered < total; {
		// the worker arrives in Query (after a sleep if the previous round failed)
		var call *wcall
		for call == nil {
			select {
			case g := <-wctx.gates:
				wctx.open(g)
			case call = <-cl.arrive:
			case <-time.After(waitDeadline):
				o.fail("e2e-worker-stuck", fmt.Sprintf("the worker did not send its next request within %v (%d of %d events delivered; last hand-over %d)", waitDeadline, delivered, total, page))
				break rounds
			}
		}
		evs = append(evs, "EBegin")
		idx, known := posIdx[call.pos]
		if !known {
			o.fail("request-position-unknown", fmt.Sprintf("request position %q was never issued by the server", call.pos))
			break
		}
		obs = append(obs, GApp("OReq", GNat(idx)))
		o.req(idx)
		close(call.goAhead)
		r := <-call.result
		if r.err != nil || r.serr != nil {
			o.fail("e2e-request-refused-by-the-server", fmt.Sprintf("the real server refused the worker's request at position %d: %v %v", idx, r.err, r.serr))
			break rounds
		}
		evs = append(evs, GApp("EQueryRet", GApp("QOk", GNat(r.n))))
		if r.n == 0 {
			o.fail("e2e-request-returns-nothing", fmt.Sprintf("the real server returned no events for the worker's request at position %d of %d", idx, total))
			break rounds
		}
		posIdx[r.next] = idx + r.n
		var s *scall
		select {
		case s = <-sk.arrive:
		case <-time.After(waitDeadline):
			o.fail("e2e-worker-stuck", fmt.Sprintf("the worker got %d events at position %d and did not hand them to the sink within %v", r.n, idx, waitDeadline))
			break rounds
		}
		page++
		accept := page != rejectPage
		evs = append(evs, GApp("ESinkRet", GBool(accept)))
		obs = append(obs, GApp("OSink", GNat(idx), GListZ(s.ids), GBool(accept)))
		storeIds := ids
		o.sink(idx, s.ids, accept, storeIds)
		// the content of the events (the model and the K projection only see the ids)
		for i, f := range s.fields {
			if idx+i < total && s.ids[i] == st[idx+i].id && f != st[idx+i].fields && staleFields == "" {
				staleFields = fmt.Sprintf("event %d at position %d was handed to the sink with fields %q, stored with %q (hand-over %d, a retry of a rejected batch: %v)",
					s.ids[i], idx+i, f, st[idx+i].fields, page, page == rejectPage+1)
			}
		}
		s.reply <- accept
		if accept {
			delivered = idx + len(s.ids)
			evs = append(evs, "ECommit")
			// the commit is done when the worker shows up again; that arrival is consumed by the next round
			var next *wcall
			for next == nil {
				select {
				case next = <-cl.arrive:
				case <-time.After(waitDeadline):
					o.fail("e2e-worker-stuck", fmt.Sprintf("the sink accepted the batch at position %d and the worker did not come back with its next request within %v", idx, waitDeadline))
					break rounds
				}
			}
			p, okp := posIdx[h.Position()]
			if !okp {
				o.fail("position-unknown", h.Position())
				break
			}
			obs = append(obs, GApp("OPos", GNat(p)))
			o.pos(p)
			if delivered < total {
				go func() { cl.arrive <- next }() // hand the arrival back to the loop head
			}
		}
	}
	if o.viol == nil {
		o.finish()
	}
	if o.viol == nil && staleFields != "" {
		o.fail("retried-batch-carries-stale-fields-from-server", staleFields)
	}
	return &Case{
		Coq:        GApp("KRun", GList(evs), GList(obs)),
		Replay:     map[string]interface{}{"e2e": true, "total": total, "rejectPage": rejectPage},
		NonTrivial: true,
		Oracle:     o.viol,
		Stream:     "e2e",
		Tags:       []string{"e2e-real-server"},
	}, nil
}
