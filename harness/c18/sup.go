package main

// Stream "sup": the REAL forwarder supervisor (NewForwarder, init = loadState + sync, the body of the runSyncWorkers
// loop = Config.Reload + toDescs + mergeDescs + syncWorkers, persistState) with real workers and real syslog sinks
// (sink.NewSink dialling a local TCP collector), driven step by step through the hook VC18Sup (the tickers are replaced
// by the driver). The "server" is a fake api.Client holding one event list per destination; a Query blocks until there
// is something to return (so a worker never goes into its 5 s sleep) or the context ends.
//
// After every step the worker map and the descriptors are compared with model/Supervisor.v (K), and an oracle that
// knows only the property judges what the collector received: per worker name the connections follow each other
// (no two workers deliver for one name at the same time), every connection carries a gap-free run of the destination
// in stored order, a run starts at 0 or where the persisted/continued position says, and after the configuration has
// been stable for two syncs every configured worker runs and has delivered everything.

import (
	"bufio"
	"context"
	"encoding/json"
	"errors"
	"fmt"
	"net"
	"regexp"
	"sort"
	"strconv"
	"strings"
	"sync"
	"sync/atomic"
	"time"

	"github.com/logrange/logrange/api"
	"github.com/logrange/logrange/pkg/forwarder"
	"github.com/logrange/logrange/pkg/forwarder/sink"
	"github.com/logrange/logrange/pkg/storage"
	. "verifharness/common"
)

type SupCfg struct {
	N int `json:"n"` // worker name
	K int `json:"k"` // configuration number
}

type SupOp struct {
	K    string   `json:"k"` // sync | exit | deliver | startfail | persist | restart
	Cfg  []SupCfg `json:"cfg,omitempty"`
	New  bool     `json:"new,omitempty"` // sync: a new configuration is loaded
	Name int      `json:"name,omitempty"`
	Cnt  int      `json:"cnt,omitempty"`
}

type SupReplay struct {
	Sup  bool     `json:"sup"`
	Cfg0 []SupCfg `json:"cfg0"`
	Ops  []SupOp  `json:"ops"`
}

// names >= 100 take their destination from EnsurePipe (Pipe.From), the others name it (Pipe.Name)
func supDest(n int) string { return fmt.Sprintf("logrange.pipe=d%d", n) }
func supName(n int) string { return fmt.Sprintf("w%d", n) }

// ---------- the fake server ----------
type supClient struct {
	mu         sync.Mutex
	stores     map[string][]int64
	failEnsure map[string]bool // one-shot: the next EnsurePipe for that pipe name fails
	ensures    map[string]int
	paused     bool                     // no query is answered: the driver is taking a view
	holdEnsure map[string]chan struct{} // EnsurePipe of that pipe name waits for the channel to be closed (then fails if armed)
}

var supFromRe = regexp.MustCompile(`^SELECT FROM (\S+)$`)

func (c *supClient) pause(b bool) {
	c.mu.Lock()
	c.paused = b
	c.mu.Unlock()
}
func (c *supClient) size(dest string) int {
	c.mu.Lock()
	defer c.mu.Unlock()
	return len(c.stores[dest])
}
func (c *supClient) appendN(dest string, k int) {
	c.mu.Lock()
	for i := 0; i < k; i++ {
		c.stores[dest] = append(c.stores[dest], int64(len(c.stores[dest])))
	}
	c.mu.Unlock()
}
func (c *supClient) Query(ctx context.Context, req *api.QueryRequest, res *api.QueryResult) error {
	m := supFromRe.FindStringSubmatch(req.Query)
	if m == nil {
		return fmt.Errorf("fake server: unexpected query %q", req.Query)
	}
	dest := m[1]
	pos := 0
	if req.Pos != "" {
		v, err := strconv.Atoi(req.Pos)
		if err != nil {
			return fmt.Errorf("fake server: unknown position %q", req.Pos)
		}
		pos = v
	}
	pos += req.Offset
	if pos < 0 {
		pos = 0
	}
	for {
		c.mu.Lock()
		st := c.stores[dest]
		if !c.paused && pos < len(st) && req.Limit > 0 {
			hi := len(st)
			if hi-pos > req.Limit {
				hi = pos + req.Limit
			}
			for _, id := range st[pos:hi] {
				res.Events = append(res.Events, &api.LogEvent{Timestamp: 1000 + id, Message: fmt.Sprintf("sv=%s=%d=", dest, id), Tags: "a=b"})
			}
			c.mu.Unlock()
			res.NextQueryRequest = *req
			res.NextQueryRequest.Pos = strconv.Itoa(hi)
			res.NextQueryRequest.Offset = 0
			return nil
		}
		c.mu.Unlock()
		select {
		case <-ctx.Done():
			return ctx.Err()
		case <-time.After(2 * time.Millisecond):
		}
	}
}
func (c *supClient) Write(ctx context.Context, tags, fields string, evs []*api.LogEvent, res *api.WriteResult) error {
	return errors.New("not scripted")
}
func (c *supClient) Execute(ctx context.Context, req api.ExecRequest) (api.ExecResult, error) {
	return api.ExecResult{}, errors.New("not scripted")
}
func (c *supClient) EnsurePipe(ctx context.Context, p api.Pipe, res *api.PipeCreateResult) error {
	c.mu.Lock()
	gate := c.holdEnsure[p.Name]
	c.ensures[p.Name]++
	c.mu.Unlock()
	if gate != nil {
		select {
		case <-gate:
		case <-ctx.Done():
			return ctx.Err()
		}
	}
	c.mu.Lock()
	defer c.mu.Unlock()
	if c.failEnsure[p.Name] {
		delete(c.failEnsure, p.Name)
		return errors.New("fake server: not reachable")
	}
	res.Pipe = p
	res.Pipe.Destination = "logrange.pipe=d" + strings.TrimPrefix(p.Name, "w")
	return nil
}
func (c *supClient) Close() error { return nil }

// ---------- the collector ----------
type supLine struct {
	conn int
	dest string
	id   int
}
type supCollector struct {
	ln    net.Listener
	mu    sync.Mutex
	lines []supLine
	conns int
	wg    sync.WaitGroup
}

var supLineRe = regexp.MustCompile(`sv=([^=]+=[^=]+)=(\d+)=`)

func newSupCollector() (*supCollector, error) {
	ln, err := net.Listen("tcp", "127.0.0.1:0")
	if err != nil {
		return nil, err
	}
	col := &supCollector{ln: ln}
	go func() {
		for {
			c, err := ln.Accept()
			if err != nil {
				return
			}
			col.mu.Lock()
			k := col.conns
			col.conns++
			col.mu.Unlock()
			col.wg.Add(1)
			go func() {
				defer col.wg.Done()
				defer c.Close()
				// the syslog writer frames by length, not by line: scan the byte stream for complete markers
				rd := bufio.NewReader(c)
				var buf []byte
				chunk := make([]byte, 4096)
				for {
					n, err := rd.Read(chunk)
					buf = append(buf, chunk[:n]...)
					for {
						loc := supLineRe.FindSubmatchIndex(buf)
						if loc == nil {
							break
						}
						id, _ := strconv.Atoi(string(buf[loc[4]:loc[5]]))
						col.mu.Lock()
						col.lines = append(col.lines, supLine{k, string(buf[loc[2]:loc[3]]), id})
						col.mu.Unlock()
						buf = buf[loc[1]:]
					}
					if err != nil {
						return
					}
				}
			}()
		}
	}()
	return col, nil
}
func (col *supCollector) count(dest string) int {
	col.mu.Lock()
	defer col.mu.Unlock()
	n := 0
	for _, l := range col.lines {
		if l.dest == dest {
			n++
		}
	}
	return n
}

// ---------- the driver ----------
type supDriver struct {
	dir       string
	cli       *supClient
	col       *supCollector
	cur       []SupCfg // what ReloadFn returns
	sup       *forwarder.VC18Sup
	cancel    context.CancelFunc
	ctx       context.Context
	evs       []string // Gallina events
	views     []string // Gallina views, one per event (after it)
	viol      *Violation
	lastPos   map[string]int // descriptor identity -> last position seen
	steps     int
	delivered map[string]int // dest -> lines expected at the collector so far
	deadAddr  string         // an address nobody listens on
}

func (d *supDriver) fail(class, detail string) {
	if d.viol == nil {
		d.viol = &Violation{Class: class, Detail: detail}
	}
}

func (d *supDriver) mkConfig(cs []SupCfg) *forwarder.Config {
	cfg := forwarder.NewDefaultConfig()
	cfg.StateStoreIntervalSec, cfg.SyncWorkersIntervalSec = 3600, 3600
	cfg.Workers = []*forwarder.WorkerConfig{}
	for _, c := range cs {
		wt := float64(3 + c.K) // a number of a configuration file: what encoding/json makes of it (the state file is JSON too)
		addr := d.col.ln.Addr().String()
		if c.K >= 50 {
			addr = d.deadAddr
		}
		wc := &forwarder.WorkerConfig{Name: supName(c.N),
			Sink: &sink.Config{Type: sink.SnkTypeSyslog, Params: sink.Params{"Protocol": "tcp", "RemoteAddr": addr, "WriteTimeoutSec": wt}}}
		if c.N >= 100 {
			wc.Pipe = &forwarder.PipeConfig{From: "a=b"}
		} else {
			wc.Pipe = &forwarder.PipeConfig{Name: supDest(c.N)}
		}
		cfg.Workers = append(cfg.Workers, wc)
	}
	cfg.ReloadFn = func() (*forwarder.Config, error) { return d.mkConfig(d.cur), nil }
	return cfg
}

// configurations numbered 50 and above point the sink at an address nobody listens on: sink.NewSink fails
func gNoSink(cs []SupCfg) string {
	var xs []string
	for _, c := range cs {
		if c.K >= 50 {
			xs = append(xs, GNat(c.N))
		}
	}
	return GList(xs)
}

func gSupCfg(cs []SupCfg) string {
	xs := make([]string, len(cs))
	for i, c := range cs {
		xs[i] = GPair(GNat(c.N), GNat(c.K))
	}
	return GList(xs)
}

func nameNum(s string) int {
	v, _ := strconv.Atoi(strings.TrimPrefix(s, "w"))
	return v
}

// view: the worker map (name, state, the worker's descriptor is the forwarder's) and the descriptors (name, position)
func (d *supDriver) view() string {
	ws := d.sup.Workers()
	wv := make([]string, len(ws))
	for i, w := range ws {
		wv[i] = GPair(GNat(nameNum(w.Name)), GPair(GNat(int(w.State)), GBool(w.Current)))
	}
	ds := d.sup.Descs()
	names := make([]string, 0, len(ds))
	for n := range ds {
		names = append(names, n)
	}
	sort.Strings(names)
	dv := make([]string, len(names))
	for i, n := range names {
		p, _ := posOf(ds[n])
		dv[i] = GPair(GNat(nameNum(n)), GNat(p))
	}
	return GPair(GList(wv), GList(dv))
}

func (d *supDriver) push(ev string) {
	d.evs = append(d.evs, ev)
	d.views = append(d.views, GSome(d.view()))
}

// pushBlind: an event whose view cannot be taken (the implementation is already further on)
func (d *supDriver) pushBlind(ev string) {
	d.evs = append(d.evs, ev)
	d.views = append(d.views, GNone)
}

// baseline: under pause, right after a start or a sync: positions of descriptors seen for the first time
func (d *supDriver) baseline() {
	for _, w := range d.sup.Workers() {
		if _, ok := d.lastPos[w.Desc]; !ok {
			p, _ := posOf(w.Position)
			d.lastPos[w.Desc] = p
		}
	}
}

// settle: every worker that still runs (state 0) delivers everything its destination holds; the movement of each
// descriptor's position is reported to the model as SDeliver events. A worker whose start failed (or that is dead for
// another reason) does not move: after the deadline that is left to K and to the final oracle.
func (d *supDriver) settle(wait bool, final bool) {
	d.cli.pause(false)
	deadline := time.Now().Add(1500 * time.Millisecond)
	for {
		ws := d.sup.Workers()
		done := true
		for _, w := range ws {
			if w.State != 0 {
				continue
			}
			p, _ := posOf(w.Position)
			if p < d.cli.size(supDest(nameNum(w.Name))) {
				done = false
			}
		}
		if done || !wait || time.Now().After(deadline) {
			var moved []string
			for _, w := range ws {
				p, _ := posOf(w.Position)
				old, ok := d.lastPos[w.Desc]
				if !ok {
					old = 0
				}
				if p > old {
					moved = append(moved, GApp("SDeliver", GNat(nameNum(w.Name)), GNat(p-old)))
					d.delivered[supDest(nameNum(w.Name))] += p - old
				}
				d.lastPos[w.Desc] = p
			}
			// the collector has everything that was sent before the next step begins
			for t := 0; t < 400; t++ {
				ok := true
				for dest, n := range d.delivered {
					if d.col.count(dest) < n {
						ok = false
					}
				}
				if ok {
					break
				}
				time.Sleep(2 * time.Millisecond)
			}
			for i, m := range moved {
				if final && i == len(moved)-1 {
					d.push(m)
				} else {
					d.pushBlind(m)
				}
			}
			return
		}
		time.Sleep(3 * time.Millisecond)
	}
}

func (d *supDriver) start(cs []SupCfg) error {
	d.cur = cs
	ctx, cancel := context.WithCancel(context.Background())
	st, err := storage.NewStorage(&storage.Config{Type: storage.TypeFile, Location: d.dir})
	if err != nil {
		cancel()
		return err
	}
	sup, err := forwarder.VC18NewSup(d.mkConfig(cs), d.cli, st)
	if err != nil {
		cancel()
		return err
	}
	d.sup, d.ctx, d.cancel = sup, ctx, cancel
	d.cli.pause(true)
	return sup.Init(ctx)
}

func (d *supDriver) stored() string {
	st, err := storage.NewStorage(&storage.Config{Type: storage.TypeFile, Location: d.dir})
	if err != nil {
		return "[]"
	}
	data, err := st.ReadData("forwarder.json")
	if err != nil || len(data) == 0 {
		return "[]"
	}
	var arr []struct {
		Worker struct {
			Name string
		}
		Position string
	}
	if err := json.Unmarshal(data, &arr); err != nil {
		d.fail("sup-state-file-unreadable", err.Error())
		return "[]"
	}
	raw := map[string]string{}
	names := make([]string, 0, len(arr))
	for _, a := range arr {
		if _, dup := raw[a.Worker.Name]; dup {
			d.fail("sup-state-file-duplicate-name", a.Worker.Name)
		}
		raw[a.Worker.Name] = a.Position
		names = append(names, a.Worker.Name)
	}
	sort.Strings(names)
	xs := make([]string, len(names))
	for i, n := range names {
		p, _ := posOf(raw[n])
		xs[i] = GPair(GNat(nameNum(n)), GNat(p))
	}
	return GList(xs)
}

func runSup(rp SupReplay) (*Case, error) {
	col, err := newSupCollector()
	if err != nil {
		return nil, err
	}
	defer col.ln.Close()
	d := &supDriver{dir: TempDir("c18sup"), col: col, lastPos: map[string]int{}, delivered: map[string]int{},
		cli: &supClient{stores: map[string][]int64{}, failEnsure: map[string]bool{}, ensures: map[string]int{}}}
	defer RemoveAll(d.dir)
	if dl, err := net.Listen("tcp", "127.0.0.1:0"); err == nil {
		d.deadAddr = dl.Addr().String()
		dl.Close()
	}
	// a sink that cannot connect must be refused by sink.NewSink (runWorker then fails and the next sync tries again); a
	// sink value that is handed out nevertheless breaks the worker at its first batch - then the scenario is not run
	sinkOk := true
	if snk, err := sink.NewSink(&sink.Config{Type: sink.SnkTypeSyslog, Params: sink.Params{"Protocol": "tcp", "RemoteAddr": d.deadAddr}}); err == nil {
		sinkOk = false
		what := "no panic"
		func() {
			defer func() {
				if r := recover(); r != nil {
					what = fmt.Sprintf("panic: %v", r)
				}
			}()
			e := snk.OnEvent([]*api.LogEvent{{Timestamp: 1, Message: "x", Tags: "a=b"}})
			what = fmt.Sprintf("OnEvent returned %v", e)
		}()
		d.fail("sink-created-without-connection", fmt.Sprintf("sink.NewSink for the syslog address %s, where nobody listens, returned no error; handing it a batch: %s", d.deadAddr, what))
	}
	if !sinkOk {
		// run the scenario without the unreachable sinks
		clean := func(cs []SupCfg) []SupCfg {
			var r []SupCfg
			for _, c := range cs {
				if c.K < 50 {
					r = append(r, c)
				}
			}
			return r
		}
		rp.Cfg0 = clean(rp.Cfg0)
		for i := range rp.Ops {
			rp.Ops[i].Cfg = clean(rp.Ops[i].Cfg)
		}
	}
	// something to deliver from the first moment on
	for _, c := range rp.Cfg0 {
		d.cli.appendN(supDest(c.N), 2)
	}
	if err := d.start(rp.Cfg0); err != nil {
		return nil, fmt.Errorf("sup start: %v", err)
	}
	defer func() { d.cancel(); d.sup.Close() }()
	d.baseline()
	view0 := d.view() // the view after init
	d.settle(true, true)
	storedViews := []string{}
	for _, op := range rp.Ops {
		switch op.K {
		case "sync":
			if op.New {
				d.cur = op.Cfg
				for _, c := range op.Cfg {
					if d.cli.size(supDest(c.N)) == 0 {
						d.cli.appendN(supDest(c.N), 1)
					}
				}
			}
			d.cli.pause(true)
			d.sup.Sync(d.ctx)
			d.baseline()
			if op.New {
				d.push(GApp("SSync", GSome(gSupCfg(op.Cfg)), gNoSink(d.cur)))
			} else {
				d.push(GApp("SSync", GNone, gNoSink(d.cur)))
			}
			d.settle(true, true)
		case "startfail":
			// the next start of the worker under Name (an EnsurePipe worker) fails in getPipe; it takes effect with the sync
			// that starts it: arm, sync, wait for the EnsurePipe call
			pn := supName(op.Name)
			d.cli.mu.Lock()
			d.cli.failEnsure[pn] = true
			before := d.cli.ensures[pn]
			d.cli.mu.Unlock()
			if op.New {
				d.cur = op.Cfg
				for _, c := range op.Cfg {
					if d.cli.size(supDest(c.N)) == 0 {
						d.cli.appendN(supDest(c.N), 1)
					}
				}
			}
			d.cli.pause(true)
			d.sup.Sync(d.ctx)
			d.baseline()
			// no view here: the new worker's getPipe may have failed already (its state is then "stopped"), or not yet
			if op.New {
				d.pushBlind(GApp("SSync", GSome(gSupCfg(op.Cfg)), gNoSink(d.cur)))
			} else {
				d.pushBlind(GApp("SSync", GNone, gNoSink(d.cur)))
			}
			consumed := false
			for t := 0; t < 500; t++ {
				d.cli.mu.Lock()
				consumed = d.cli.ensures[pn] > before && !d.cli.failEnsure[pn]
				d.cli.mu.Unlock()
				if consumed {
					break
				}
				time.Sleep(2 * time.Millisecond)
			}
			d.cli.mu.Lock()
			delete(d.cli.failEnsure, pn)
			d.cli.mu.Unlock()
			if consumed {
				time.Sleep(20 * time.Millisecond) // run returns right after the failed call
				d.push(GApp("SStartFail", GNat(op.Name)))
			}
			d.settle(true, true)
		case "startfailheld":
			// the worker under Name (an EnsurePipe worker, not configured so far) is started, its EnsurePipe stays pending; a
			// new configuration replaces its descriptor (the worker is told to stop: state stopping); then the pending
			// EnsurePipe fails: the worker must end up stopped, so that the next sync can start the worker of the new descriptor
			pn := supName(op.Name)
			gate := make(chan struct{})
			d.cli.mu.Lock()
			if d.cli.holdEnsure == nil {
				d.cli.holdEnsure = map[string]chan struct{}{}
			}
			d.cli.holdEnsure[pn] = gate
			d.cli.failEnsure[pn] = true
			before := d.cli.ensures[pn]
			d.cli.mu.Unlock()
			if len(op.Cfg) < 2 {
				continue
			}
			// Cfg = others..., (Name, A), (Name, B): first the configuration with A, then the one with B
			second := op.Cfg
			alt := append([]SupCfg{}, second[:len(second)-1]...)
			for _, c := range op.Cfg {
				if d.cli.size(supDest(c.N)) == 0 {
					d.cli.appendN(supDest(c.N), 1)
				}
			}
			d.cur = alt
			d.cli.pause(true)
			d.sup.Sync(d.ctx)
			d.baseline()
			d.push(GApp("SSync", GSome(gSupCfg(alt)), gNoSink(d.cur)))
			pending := false
			for t := 0; t < 500; t++ {
				d.cli.mu.Lock()
				pending = d.cli.ensures[pn] > before
				d.cli.mu.Unlock()
				if pending {
					break
				}
				time.Sleep(2 * time.Millisecond)
			}
			repl := append(append([]SupCfg{}, second[:len(alt)-1]...), second[len(second)-1])
			d.cur = repl
			d.sup.Sync(d.ctx)
			d.baseline()
			d.push(GApp("SSync", GSome(gSupCfg(repl)), gNoSink(d.cur)))
			close(gate)
			d.cli.mu.Lock()
			delete(d.cli.holdEnsure, pn)
			d.cli.mu.Unlock()
			stopped := false
			if pending {
				for t := 0; t < 1000; t++ {
					for _, x := range d.sup.Workers() {
						if nameNum(x.Name) == op.Name && x.State == 2 {
							stopped = true
						}
					}
					if stopped {
						break
					}
					time.Sleep(2 * time.Millisecond)
				}
				if stopped {
					d.push(GApp("SStartFail", GNat(op.Name)))
				} else {
					d.fail("sup-failed-start-of-a-replaced-worker-not-stopped", fmt.Sprintf("w%d: its descriptor was replaced while its EnsurePipe was pending, then EnsurePipe failed: the worker is not marked stopped within 2 s (the worker of the new descriptor can never start)", op.Name))
				}
			}
			d.cli.mu.Lock()
			delete(d.cli.failEnsure, pn)
			d.cli.mu.Unlock()
			d.settle(true, true)
		case "exit":
			// a stopping worker is brought to its loop head by one more event
			var w *forwarder.VC18WorkerInfo
			for _, x := range d.sup.Workers() {
				if nameNum(x.Name) == op.Name && x.State == 1 {
					y := x
					w = &y
				}
			}
			if w == nil {
				continue
			}
			d.cli.appendN(supDest(op.Name), 1)
			gone := false
			for t := 0; t < 1500; t++ {
				for _, x := range d.sup.Workers() {
					if nameNum(x.Name) == op.Name && x.State == 2 {
						gone = true
					}
				}
				if gone {
					break
				}
				time.Sleep(2 * time.Millisecond)
			}
			d.settle(false, false)
			if gone {
				d.push(GApp("SExit", GNat(op.Name)))
			} else {
				d.fail("sup-stopping-worker-does-not-stop", fmt.Sprintf("worker w%d was told to stop, got one more event and did not stop within 3 s", op.Name))
			}
		case "deliver":
			running := false
			for _, x := range d.sup.Workers() {
				if nameNum(x.Name) == op.Name && x.State == 0 {
					running = true
				}
			}
			if !running {
				continue
			}
			d.cli.appendN(supDest(op.Name), op.Cnt)
			d.settle(true, true)
		case "persist":
			if err := d.sup.Persist(); err != nil {
				d.fail("sup-persist-failed", err.Error())
			}
			d.push("SPersist")
			storedViews = append(storedViews, GPair(GNat(len(d.evs)), d.stored()))
		case "restart":
			d.cancel()
			d.sup.Close()
			for _, c := range op.Cfg {
				if d.cli.size(supDest(c.N)) == 0 {
					d.cli.appendN(supDest(c.N), 1)
				}
			}
			if err := d.start(op.Cfg); err != nil {
				d.fail("sup-restart-failed", err.Error())
				return d.finish(rp, view0, storedViews), nil
			}
			d.lastPos = map[string]int{}
			d.baseline() // under pause: the positions loaded from the state file (or 0 for new descriptors)
			d.push(GApp("SRestart", gSupCfg(op.Cfg), gNoSink(op.Cfg)))
			d.settle(true, true)
		}
	}
	// ---- the end: the configuration stays, stopping workers reach their loop heads, two syncs
	for round := 0; round < 2; round++ {
		d.cli.pause(true)
		d.sup.Sync(d.ctx)
		d.baseline()
		d.push(GApp("SSync", GNone, gNoSink(d.cur)))
		d.settle(true, true)
		for _, x := range d.sup.Workers() {
			if x.State == 1 {
				n := nameNum(x.Name)
				d.cli.appendN(supDest(n), 1)
				for t := 0; t < 1500; t++ {
					st := int32(1)
					for _, y := range d.sup.Workers() {
						if y.Name == x.Name {
							st = y.State
						}
					}
					if st == 2 {
						break
					}
					time.Sleep(2 * time.Millisecond)
				}
				d.settle(false, false)
				d.push(GApp("SExit", GNat(n)))
			}
		}
	}
	d.cli.pause(true)
	d.sup.Sync(d.ctx)
	d.baseline()
	d.push(GApp("SSync", GNone, gNoSink(d.cur)))
	d.settle(true, true)
	return d.finish(rp, view0, storedViews), nil
}

func (d *supDriver) finish(rp SupReplay, view0 string, storedViews []string) *Case {
	// ---- oracle 1: after a stable configuration every configured worker runs on the current descriptor and has
	// delivered everything
	ws := map[int]forwarder.VC18WorkerInfo{}
	for _, w := range d.sup.Workers() {
		ws[nameNum(w.Name)] = w
	}
	for _, c := range d.cur {
		if c.K >= 50 {
			if _, ok := ws[c.N]; ok {
				d.fail("sup-worker-without-sink", fmt.Sprintf("w%d is configured with a sink that cannot connect and has a worker", c.N))
			}
			continue
		}
		w, ok := ws[c.N]
		sz := d.cli.size(supDest(c.N))
		p, _ := posOf(w.Position)
		switch {
		case !ok:
			d.fail("sup-configured-worker-missing", fmt.Sprintf("w%d is configured; after two syncs with an unchanged configuration the worker map has no entry for it", c.N))
		case w.State != 0 || !w.Current:
			d.fail("sup-configured-worker-not-running", fmt.Sprintf("w%d is configured; after two syncs with an unchanged configuration its worker has state %d (0 = running), current descriptor: %v", c.N, w.State, w.Current))
		case p != sz:
			d.fail("sup-configured-worker-not-delivering", fmt.Sprintf("w%d is configured and its worker is marked running, but its position stays at %d of %d stored events (a worker whose start failed is never replaced)", c.N, p, sz))
		}
	}
	// ---- oracle 2: what the collector received
	time.Sleep(30 * time.Millisecond)
	d.col.mu.Lock()
	lines := append([]supLine{}, d.col.lines...)
	d.col.mu.Unlock()
	type run struct{ first, last, n int }
	perDest := map[string][]int{} // connection order per destination
	runs := map[string]map[int]*run{}
	lastConnOf := map[string]int{}
	for _, l := range lines {
		if runs[l.dest] == nil {
			runs[l.dest] = map[int]*run{}
		}
		r := runs[l.dest][l.conn]
		if r == nil {
			r = &run{first: l.id, last: l.id - 1}
			runs[l.dest][l.conn] = r
			perDest[l.dest] = append(perDest[l.dest], l.conn)
		} else if lastConnOf[l.dest] != l.conn {
			d.fail("sup-two-workers-deliver-for-one-name", fmt.Sprintf("destination %s: connection %d delivers event %d after connection %d has started delivering (two workers at a time)", l.dest, l.conn, l.id, lastConnOf[l.dest]))
		}
		lastConnOf[l.dest] = l.conn
		if l.id != r.last+1 {
			d.fail("sup-delivery-not-in-stored-order", fmt.Sprintf("destination %s connection %d: event %d after event %d", l.dest, l.conn, l.id, r.last))
		}
		r.last = l.id
		r.n++
	}
	for dest, conns := range perDest {
		hw := 0
		for _, cn := range conns {
			r := runs[dest][cn]
			if r.first > hw {
				d.fail("sup-delivery-skips-events", fmt.Sprintf("destination %s: a worker started delivering at event %d, only events below %d had been delivered", dest, r.first, hw))
			}
			if r.last+1 > hw {
				hw = r.last + 1
			}
		}
	}
	for _, c := range d.cur {
		if c.K >= 50 {
			continue
		}
		dest := supDest(c.N)
		sz := d.cli.size(dest)
		conns := perDest[dest]
		got := 0
		if len(conns) > 0 {
			got = runs[dest][conns[len(conns)-1]].last + 1
		}
		if got != sz && d.viol == nil {
			var rs []string
			for _, cn := range conns {
				r := runs[dest][cn]
				rs = append(rs, fmt.Sprintf("conn %d: events %d..%d", cn, r.first, r.last))
			}
			d.fail("sup-configured-worker-not-delivering", fmt.Sprintf("w%d: the collector has events up to %d of %d (%s)", c.N, got, sz, strings.Join(rs, "; ")))
		}
	}
	cfgs := 0
	for _, op := range rp.Ops {
		if op.New || op.K == "restart" {
			cfgs++
		}
	}
	return &Case{Coq: GApp("KSup", gSupCfg(rp.Cfg0), gNoSink(rp.Cfg0), view0, GList(d.evs), GList(d.views), GList(storedViews)), Replay: rp,
		NonTrivial: cfgs >= 1, Stream: "sup", Oracle: d.viol,
		Tags: []string{fmt.Sprintf("sup-reconfigs:%d", cfgs)}}
}

func genSup(r *Rng) SupReplay {
	pool := []int{1, 2, 3, 100, 101}
	pick := func() []SupCfg {
		var cs []SupCfg
		for _, n := range pool {
			if r.Chance(3, 5) {
				k := r.Intn(3)
				if r.Chance(1, 8) {
					k = 50 // a sink that cannot connect
				}
				cs = append(cs, SupCfg{N: n, K: k})
			}
		}
		return cs
	}
	rp := SupReplay{Sup: true, Cfg0: pick()}
	cur := rp.Cfg0
	names := func() []int {
		m := map[int]bool{}
		for _, c := range cur {
			m[c.N] = true
		}
		var ns []int
		for _, n := range pool {
			if m[n] {
				ns = append(ns, n)
			}
		}
		return ns
	}
	n := r.Range(4, 10)
	for i := 0; i < n; i++ {
		x := r.Intn(100)
		switch {
		case x < 30:
			c := pick()
			rp.Ops = append(rp.Ops, SupOp{K: "sync", New: true, Cfg: c})
			cur = c
		case x < 40:
			rp.Ops = append(rp.Ops, SupOp{K: "sync"})
		case x < 55:
			rp.Ops = append(rp.Ops, SupOp{K: "exit", Name: pool[r.Intn(len(pool))]})
		case x < 72:
			if ns := names(); len(ns) > 0 {
				rp.Ops = append(rp.Ops, SupOp{K: "deliver", Name: ns[r.Intn(len(ns))], Cnt: r.Range(1, 4)})
			}
		case x < 82:
			rp.Ops = append(rp.Ops, SupOp{K: "persist"})
		case x < 92:
			c := pick()
			rp.Ops = append(rp.Ops, SupOp{K: "restart", Cfg: c})
			cur = c
		default:
			// a start failure of an EnsurePipe worker that is not configured yet: configure it now
			var cand []int
			have := map[int]bool{}
			for _, c := range cur {
				have[c.N] = true
			}
			for _, nn := range []int{100, 101} {
				if !have[nn] {
					cand = append(cand, nn)
				}
			}
			if len(cand) == 0 {
				continue
			}
			nn := cand[r.Intn(len(cand))]
			c := append(append([]SupCfg{}, cur...), SupCfg{N: nn, K: r.Intn(3)})
			rp.Ops = append(rp.Ops, SupOp{K: "startfail", Name: nn, New: true, Cfg: c})
			cur = c
		}
	}
	return rp
}

func supCorpus() []SupReplay {
	return []SupReplay{
		// configuration changed, removed, added; persisted; restarted with another configuration
		{Sup: true, Cfg0: []SupCfg{{1, 0}, {2, 0}}, Ops: []SupOp{
			{K: "deliver", Name: 1, Cnt: 3}, {K: "persist"},
			{K: "sync", New: true, Cfg: []SupCfg{{2, 1}, {3, 0}}}, {K: "exit", Name: 1}, {K: "exit", Name: 2}, {K: "sync"},
			{K: "deliver", Name: 2, Cnt: 2}, {K: "persist"}, {K: "restart", Cfg: []SupCfg{{2, 1}, {3, 1}, {1, 0}}},
			{K: "deliver", Name: 3, Cnt: 1}, {K: "persist"}}},
		// a configured sink cannot connect: no worker (and no crash); once the address is right the worker runs
		{Sup: true, Cfg0: []SupCfg{{1, 0}, {2, 50}}, Ops: []SupOp{
			{K: "deliver", Name: 1, Cnt: 2}, {K: "sync"}, {K: "persist"},
			{K: "sync", New: true, Cfg: []SupCfg{{1, 0}, {2, 1}}}, {K: "deliver", Name: 2, Cnt: 2},
			{K: "sync", New: true, Cfg: []SupCfg{{1, 50}, {2, 1}}}, {K: "exit", Name: 1}, {K: "sync"}, {K: "persist"},
			{K: "restart", Cfg: []SupCfg{{1, 0}, {2, 1}}}, {K: "deliver", Name: 1, Cnt: 1}}},
		// a worker's descriptor is replaced while its start is pending, then the start fails
		{Sup: true, Cfg0: []SupCfg{{1, 0}}, Ops: []SupOp{
			{K: "startfailheld", Name: 100, Cfg: []SupCfg{{1, 0}, {100, 0}, {100, 1}}}, {K: "sync"}, {K: "deliver", Name: 100, Cnt: 2}, {K: "persist"}}},
		// the start of a worker fails once (the server is not reachable when it asks for its pipe)
		{Sup: true, Cfg0: []SupCfg{{1, 0}}, Ops: []SupOp{
			{K: "startfail", Name: 100, New: true, Cfg: []SupCfg{{1, 0}, {100, 0}}}, {K: "sync"}, {K: "deliver", Name: 100, Cnt: 2}, {K: "persist"}}},
	}
}

var _ = atomic.AddInt32

// runRealRun: the real Forwarder.Run (init, the sync ticker, the persist ticker) with one-second intervals, one worker, a
// real syslog sink: everything is delivered, a persist tick writes the position, a configuration change arrives through
// the sync ticker, the context ends and the final persist holds the last position. Oracle only (the tickers are not
// scripted); the steps themselves are what the stream sup compares with the model.
func runRealRun() (*Case, error) {
	col, err := newSupCollector()
	if err != nil {
		return nil, err
	}
	defer col.ln.Close()
	d := &supDriver{dir: TempDir("c18run"), col: col, lastPos: map[string]int{}, delivered: map[string]int{},
		cli: &supClient{stores: map[string][]int64{}, failEnsure: map[string]bool{}, ensures: map[string]int{}}}
	defer RemoveAll(d.dir)
	d.cur = []SupCfg{{N: 1, K: 0}}
	d.cli.appendN(supDest(1), 5)
	cfg := d.mkConfig(d.cur)
	cfg.StateStoreIntervalSec, cfg.SyncWorkersIntervalSec = 1, 1
	st, err := storage.NewStorage(&storage.Config{Type: storage.TypeFile, Location: d.dir})
	if err != nil {
		return nil, err
	}
	f, err := forwarder.NewForwarder(cfg, d.cli, st)
	if err != nil {
		return nil, err
	}
	ctx, cancel := context.WithCancel(context.Background())
	defer cancel()
	if err := f.Run(ctx); err != nil {
		d.fail("run-start-failed", err.Error())
	}
	waitFor := func(what string, cond func() bool, to time.Duration) bool {
		dl := time.Now().Add(to)
		for time.Now().Before(dl) {
			if cond() {
				return true
			}
			time.Sleep(5 * time.Millisecond)
		}
		d.fail("run-"+what, fmt.Sprintf("not within %v", to))
		return false
	}
	storedPos := func(name string) int {
		data, err := st.ReadData("forwarder.json")
		if err != nil || len(data) == 0 {
			return -1
		}
		var arr []struct {
			Worker   struct{ Name string }
			Position string
		}
		if json.Unmarshal(data, &arr) != nil {
			return -1
		}
		for _, a := range arr {
			if a.Worker.Name == name {
				p, _ := posOf(a.Position)
				return p
			}
		}
		return -1
	}
	if d.viol == nil {
		waitFor("events-not-delivered", func() bool { return col.count(supDest(1)) >= 5 }, 3*time.Second)
		waitFor("position-not-persisted-by-the-ticker", func() bool { return storedPos("w1") == 5 }, 3*time.Second)
		// a second worker arrives through the sync ticker
		d.cli.appendN(supDest(2), 3)
		d.cur = []SupCfg{{N: 1, K: 0}, {N: 2, K: 0}}
		waitFor("worker-of-a-reloaded-configuration-not-started", func() bool { return col.count(supDest(2)) >= 3 }, 4*time.Second)
		d.cli.appendN(supDest(1), 2)
		waitFor("events-not-delivered", func() bool { return col.count(supDest(1)) >= 7 }, 3*time.Second)
	}
	cancel()
	if err := f.Close(); err != nil {
		d.fail("run-close", err.Error())
	}
	if d.viol == nil {
		if p := storedPos("w1"); p != 7 {
			d.fail("run-final-persist", fmt.Sprintf("after the context ended and Close returned forwarder.json holds position %d for w1, 7 events were accepted", p))
		} else if p := storedPos("w2"); p != 3 {
			d.fail("run-final-persist", fmt.Sprintf("after the context ended and Close returned forwarder.json holds position %d for w2, 3 events were accepted", p))
		}
	}
	return &Case{Coq: GApp("KSup", "[]", "[]", GPair("[]", "[]"), "[]", "[]", "[]"), Replay: map[string]interface{}{"realrun": true},
		NonTrivial: true, Stream: "realrun", Oracle: d.viol, Key: "realrun"}, nil
}
