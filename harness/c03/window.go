package main

// The window between a chunk iterator's io.EOF and the chunk selector's look at the chunk list: a decorated
// cursor.ItFactory (around the server's own one, nothing of /repo is replaced) hands out journals whose chunks report
// the io.EOF of their iterators and whose Chunks() calls are reported; a step with Win set has its appends written (and
// flushed: readable) inside the first Chunks() call that follows an io.EOF of the appended partition's chunk iterator
// during the page - exactly where partition.JIterator.Get has taken eofPos and asks the selector what comes next.

import (
	"context"
	"io"
	"runtime"
	"strings"
	"sync"

	"github.com/logrange/logrange/pkg/cursor"
	"github.com/logrange/logrange/pkg/lql"
	"github.com/logrange/logrange/pkg/model/tag"
	"github.com/logrange/range/pkg/records"
	"github.com/logrange/range/pkg/records/chunk"
	"github.com/logrange/range/pkg/records/journal"
)

type window struct {
	mu     sync.Mutex
	armed  bool
	kind   string // "" : after the chunk iterator's io.EOF, inside the next Chunks() call; "count": right after the chunk selector has read a chunk's Count() for its status (getChunkStatus / rebuildChunkStatuses) - the count it decides by
	src    string // journal the write goes to
	eof    bool   // its chunk iterator has reported io.EOF during this page
	fired  bool
	action func() error
	err    error
}

func (w *window) onEOF(src string) {
	w.mu.Lock()
	if w.armed && src == w.src {
		w.eof = true
	}
	w.mu.Unlock()
}

// onCount: the chunk selector has just read the count of a chunk of the journal (the value is on its way back)
func (w *window) onCount(src string) {
	w.mu.Lock()
	if !(w.armed && w.kind == "count" && src == w.src && !w.fired) {
		w.mu.Unlock()
		return
	}
	caller := ""
	if pc, _, _, ok := runtime.Caller(2); ok {
		caller = runtime.FuncForPC(pc).Name()
	}
	if !(strings.HasSuffix(caller, "getChunkStatus") || strings.HasSuffix(caller, "rebuildChunkStatuses")) {
		w.mu.Unlock()
		return
	}
	w.fired = true
	act := w.action
	w.mu.Unlock()
	err := act()
	w.mu.Lock()
	w.err = err
	w.mu.Unlock()
}

func (w *window) onChunks(src string) {
	w.mu.Lock()
	fire := w.armed && w.kind == "" && src == w.src && w.eof && !w.fired
	if fire {
		w.fired = true
	}
	act := w.action
	w.mu.Unlock()
	if fire {
		err := act()
		w.mu.Lock()
		w.err = err
		w.mu.Unlock()
	}
}

type winItf struct {
	cursor.ItFactory
	w *window
}

func (f *winItf) GetJournals(ctx context.Context, tagsCond *lql.Source, maxLimit int) (map[tag.Line]journal.Journal, error) {
	m, err := f.ItFactory.GetJournals(ctx, tagsCond, maxLimit)
	for k, j := range m {
		m[k] = &winJrnl{j, f.w}
	}
	return m, err
}

func (f *winItf) GetJournal(ctx context.Context, src string) (tag.Set, journal.Journal, error) {
	ts, j, err := f.ItFactory.GetJournal(ctx, src)
	if err == nil {
		j = &winJrnl{j, f.w}
	}
	return ts, j, err
}

type winJrnl struct {
	journal.Journal
	w *window
}

func (j *winJrnl) Chunks() journal.ChnksController { return &winCC{j.Journal.Chunks(), j} }

type winCC struct {
	journal.ChnksController
	j *winJrnl
}

func (cc *winCC) Chunks(ctx context.Context) (chunk.Chunks, error) {
	cc.j.w.onChunks(cc.j.Name())
	cks, err := cc.ChnksController.Chunks(ctx)
	res := make(chunk.Chunks, len(cks))
	for i, c := range cks {
		res[i] = &winChunk{c, cc.j}
	}
	return res, err
}

type winChunk struct {
	chunk.Chunk
	j *winJrnl
}

func (c *winChunk) Count() uint32 {
	v := c.Chunk.Count()
	c.j.w.onCount(c.j.Name())
	return v
}

func (c *winChunk) Iterator() (chunk.Iterator, error) {
	it, err := c.Chunk.Iterator()
	if err != nil {
		return it, err
	}
	return &winCI{it, c.j}, nil
}

type winCI struct {
	chunk.Iterator
	j *winJrnl
}

func (ci *winCI) Get(ctx context.Context) (records.Record, error) {
	rec, err := ci.Iterator.Get(ctx)
	if err == io.EOF {
		ci.j.w.onEOF(ci.j.Name())
	}
	return rec, err
}
