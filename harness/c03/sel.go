package main

import (
	"context"
	"fmt"
	"time"

	"github.com/logrange/logrange/api"
)

// SelectSpec: the read goes through the project's own client loop api.Select (api/client.go) instead of a
// scripted chain; every Query the loop issues is recorded as a step of kind "same".
type SelectSpec struct {
	Limit  int      `json:"limit"`            // total limit given to api.Select (may exceed QueryMaxLimit)
	Stream bool     `json:"stream,omitempty"` // streamMode
	Wait   bool     `json:"wait,omitempty"`   // WaitTimeout = 1
	Apps   []SelApp `json:"apps,omitempty"`   // appended before the n-th Query of the loop (n >= 1)
	steps  []Step   // recorded
}

type SelApp struct {
	Before int     `json:"before"`
	Apps   []Batch `json:"a"`
}

// recQuerier is the api.Querier handed to api.Select: it forwards to the runner, which records and checks the page
type recQuerier struct {
	r      *runner
	spec   *SelectSpec
	cur    *api.QueryRequest
	calls  int
	err    error
	stop   context.CancelFunc
	want   int
	got    int
	capped bool
}

func (q *recQuerier) Query(ctx context.Context, req *api.QueryRequest, res *api.QueryResult) error {
	q.calls++
	if q.calls > 60+q.want {
		// the loop does not come to an end (in stream mode: the expected events never all arrived)
		q.r.fail("select-no-termination", fmt.Sprintf("api.Select(limit=%d, stream=%v) issued %d queries and delivered %d of the %d expected events", q.spec.Limit, q.spec.Stream, q.calls, q.got, q.want))
		q.capped = true
		q.stop()
		return context.Canceled
	}
	st := Step{Kind: "same", Limit: int64(req.Limit), Wait: req.WaitTimeout > 0, Rpc: true}
	for _, a := range q.spec.Apps {
		if a.Before == q.calls-1 {
			st.Apps = append(st.Apps, a.Apps...)
		}
	}
	r := q.r
	if len(r.pages) == 0 {
		first, err := r.startIdx(r.rp.Start)
		if err != nil {
			q.err = err
			return err
		}
		r.first = first
	}
	// the loop must send exactly the NextQueryRequest it got (with its own limit and timeout)
	if req.ReqId != q.cur.ReqId || req.Pos != q.cur.Pos || req.Query != q.cur.Query || req.Offset != 0 {
		r.fail("select-request", fmt.Sprintf("query %d of api.Select sends id=%d pos=%q, the previous result said id=%d pos=%q", q.calls, req.ReqId, req.Pos, q.cur.ReqId, q.cur.Pos))
	}
	apps, err := r.applyAppends(st.Apps)
	if err != nil {
		q.err = err
		return err
	}
	for _, b := range st.Apps {
		for _, e := range b.Evs {
			if r.rp.Flt.match(e) {
				q.want++
			}
		}
	}
	r.coqApps = append(r.coqApps, apps)
	out, err := r.exec(st, *req)
	if err != nil {
		q.err = err
		return err
	}
	if r.aborted {
		q.stop()
		return context.Canceled
	}
	q.spec.steps = append(q.spec.steps, st)
	*res = *out
	nx := out.NextQueryRequest
	q.cur = &nx
	q.got += len(out.Events)
	if q.spec.Stream && q.got >= q.want && q.calls > lastApp(q.spec) {
		q.stop() // stream mode never ends by itself: stop once everything expected was delivered
	}
	return nil
}

func lastApp(s *SelectSpec) int {
	m := 0
	for _, a := range s.Apps {
		if a.Before > m {
			m = a.Before
		}
	}
	return m
}

// runSelect drives api.Select and evaluates what its handler received
func (r *runner) runSelect(spec *SelectSpec) error {
	ctx, cancel := context.WithTimeout(context.Background(), 45*time.Second)
	defer cancel()
	wt := 0
	if spec.Wait {
		wt = 1
	}
	first := &api.QueryRequest{Query: r.rp.Flt.query(), Pos: r.rp.Start, Limit: spec.Limit, WaitTimeout: wt}
	q := &recQuerier{r: r, spec: spec, cur: first, stop: cancel}
	start0, err := r.startIdx(r.rp.Start)
	if err != nil {
		return err
	}
	q.want = len(r.expected(start0, 1<<30))
	var handled []*api.LogEvent
	emptyHandled := false
	err = api.Select(ctx, q, first, spec.Stream, func(res *api.QueryResult) {
		if len(res.Events) == 0 {
			emptyHandled = true
		}
		for _, e := range res.Events {
			c := *e
			handled = append(handled, &c)
		}
	})
	if q.err != nil {
		return q.err
	}
	if q.capped || r.aborted {
		return nil
	}
	if err != nil {
		r.fail("select-error", fmt.Sprintf("api.Select: %v", err))
		return nil
	}
	if ctx.Err() == context.DeadlineExceeded {
		r.fail("select-no-termination", fmt.Sprintf("api.Select still running after 45s, %d queries, %d events", q.calls, q.got))
	}
	if emptyHandled {
		r.fail("select-empty-handled", "handler called with an empty result")
	}
	// what the handler saw = the first min(limit, all) matching events in order (stream mode: all)
	all := r.expected(start0, 1<<30)
	want := all
	if !spec.Stream && len(want) > spec.Limit {
		want = want[:spec.Limit]
	}
	if len(handled) != len(want) {
		r.fail("select-count", fmt.Sprintf("api.Select(limit=%d, stream=%v) handed over %d events, expected %d of %d matching", spec.Limit, spec.Stream, len(handled), len(want), len(all)))
		return nil
	}
	for i := range want {
		h, w := handled[i], want[i]
		if h.Timestamp != w.e.Ts || h.Message != w.e.Msg || h.Fields != w.e.Flds || h.Tags != r.parts[w.part].tags {
			r.fail("select-content", fmt.Sprintf("event #%d handed over by api.Select is (%s %d %q %q), expected (%d %q %q)", i, h.Tags, h.Timestamp, h.Message, h.Fields, w.e.Ts, w.e.Msg, w.e.Flds))
			break
		}
	}
	return nil
}
