// C03 harness: paged and resumed reading. Builds small multi-partition stores on the real in-process
// server (tiny chunks, so that page edges meet chunk edges), reads them in pages through
// backend.Querier.Query and the RPC querier with generated limit scripts and resume kinds (same cached
// cursor, cursor evicted by the provider's sweep, ReqId zeroed, only Pos kept, previous request retried),
// appends between pages, and records every page (events, parsed Pos, ReqId != 0) as a Gallina term for the
// model (coq/model/Paging.v). The oracle O evaluates the property on the implementation's pages against the
// harness' own record of what was written (independent of the Coq model).
package main

import (
	"context"
	"fmt"
	"io"
	"io/ioutil"
	"sort"
	"strings"
	"sync"
	"sync/atomic"
	"time"

	"github.com/logrange/logrange/api"
	"github.com/logrange/logrange/pkg/cursor"
	"github.com/logrange/range/pkg/records/journal"
	. "verifharness/common"
)

// ---------------------------------------------------------------------------- case description (replayable)

type Ev struct {
	Ts   int64  `json:"t"`
	Msg  string `json:"m"`
	Flds string `json:"f,omitempty"`
}

type Batch struct {
	Part int  `json:"p"`
	Evs  []Ev `json:"e"`
}

type Step struct {
	Kind  string  `json:"k"` // same | evict | zero | posonly | retry
	Limit int64   `json:"l"`
	Wait  bool    `json:"w,omitempty"`   // WaitTimeout = 1 (the server caches the cursor)
	Rpc   bool    `json:"rpc,omitempty"` // through the RPC querier instead of backend.Querier
	Apps  []Batch `json:"a,omitempty"`   // appended before the page
	// Pre: a request sent before the page of this step (after its appends), judged by the oracle alone:
	//   badpos:<text>   the current ReqId with a Pos that does not parse (the request must fail; a cached cursor of the
	//                   query is dropped by it: the model sees the page that follows as one after an eviction)
	//   badpos0:<text>  the same without ReqId
	//   badarg:<what>   the current ReqId and Pos with limit -1 / WaitTimeout -1 / WaitTimeout 61: refused, nothing changes
	//   otherquery      the current ReqId and Pos with another query text (ApplyState refuses: the server answers from a
	//                   new cursor under a new id, the cached one stays as it is)
	//   nosource        a query whose FROM matches no partition: an empty page whose NextQueryRequest is still that query
	//   nosourcewait    the same with WaitTimeout=1: the request comes back empty when the second is over
	Pre string `json:"pre,omitempty"`
	// Wake: the request is sent first (WaitTimeout 60) and waits at the end of the data; Apps (one event) are written
	// while it waits; for the model this is the page after the append
	Wake bool `json:"wake,omitempty"`
	// Win: Apps (one partition) are written and flushed inside the page, in the window between the io.EOF of that
	// partition's chunk iterator and the chunk selector's next look at the chunks (window.go); for the model they are
	// appends before the NEXT page (theorem C03_eof_window: the position the page returns is the one before them)
	Win bool `json:"win,omitempty"`
	// WinKind: "" = the window after the chunk iterator's io.EOF; "count" = right after the chunk selector has read the
	// count of the partition's chunk for its status (a page that starts at the end of the data: the count it decides by)
	WinKind string `json:"wink,omitempty"`
}

type Filter struct {
	Needle string `json:"needle,omitempty"`
	Range  bool   `json:"range,omitempty"`
	Lo     int64  `json:"lo,omitempty"`
	Hi     int64  `json:"hi,omitempty"`
}

type Replay struct {
	Name  string      `json:"name,omitempty"`
	Chunk int64       `json:"chunk"` // MaxChunkSize
	Init  []Batch     `json:"init"`
	Flt   Filter      `json:"flt"`
	Start string      `json:"start"` // "", head, tail
	Steps []Step      `json:"steps"`
	Bulk  int         `json:"bulk,omitempty"`   // that many more events "k", ts 5000+i, written to partition 0 after Init
	Sel   *SelectSpec `json:"select,omitempty"` // read through api.Select instead of the scripted steps
	// Post: run after the script, judged by the oracle alone. "late-partition[:rpc]": a request with WaitTimeout=1 over a
	// source that matches no partition (it must come back empty when the time is over, not before, still naming the
	// query); then the partition is created and the CHAINED request must deliver its events
	Post string `json:"post,omitempty"`
}

// ---------------------------------------------------------------------------- reference state of one run

type chunkInfo struct {
	Id  uint64
	Cnt int
}

type partRef struct {
	src    string
	tags   string
	evs    []Ev        // everything written, in write order
	layout []chunkInfo // chunks as the server reports them
}

type pageObs struct {
	evs   []*api.LogEvent
	pos   map[string]journal.Pos
	posS  string
	id    uint64
	short bool
}

type runner struct {
	srv                 *Server
	rp                  *Replay
	byPart              map[int]*partRef // harness partition number -> reference
	parts               []*partRef       // sorted by src (the model's store order)
	viol                *Violation
	coqApps             [][]string // per step: Gallina appends
	pages               []pageObs
	st0                 string
	first               []int          // per partition: index of the first record the whole read covers
	startS              string         // the Pos string of the first request (rp.Start, or what an @-start resolved to)
	startG              string         // the same as a Gallina pos_t
	kindOv              map[int]string // per step: the model's kind when it differs from the script's (after a badpos prelude)
	win                 *window        // the decorated ItFactory's trigger (only when the script has Win steps)
	winApps             []string       // Gallina appends written inside the window of the last page: they belong to the next step
	winObs              []string       // per window page: the Gallina observation for C03K.eof_ok
	winHits             int
	winObsAdded         bool
	kTrunc              int            // >= 0: the model's run is compared up to (not including) this page - the page of a window whose flush rolled the chunk over (known finding: the run model has no step that loses records; the window itself is compared through eof_ok)
	winFired, winRolled bool           // the last window step: the flush was placed; it added a chunk
	pres                map[string]int // distribution of the preludes
	aborted             bool           // a query failed: reported through the oracle, the script stops
	hung                bool           // a query did not return: the server is left behind (its Stop could block)
	// distribution
	kinds       map[string]int
	edgePage    bool
	retryCached int
}

func (r *runner) fail(class, detail string) {
	if r.viol == nil {
		r.viol = &Violation{Class: class, Detail: detail}
	}
}

func (f Filter) match(e Ev) bool {
	if f.Needle != "" && !strings.Contains(e.Msg, f.Needle) {
		return false
	}
	if f.Range && (e.Ts < f.Lo || e.Ts > f.Hi) {
		return false
	}
	return true
}

func (f Filter) any() bool { return f.Needle != "" || f.Range }

func (f Filter) query() string {
	q := "SELECT"
	if f.Range {
		q += fmt.Sprintf(" RANGE [\"%d\":\"%d\"]", f.Lo, f.Hi)
	}
	if f.Needle != "" {
		q += fmt.Sprintf(" WHERE msg contains \"%s\"", f.Needle)
	}
	return q + " LIMIT 100000"
}

func (f Filter) coq() string {
	switch {
	case f.Needle != "" && f.Range:
		return GApp("FBoth", GStr(f.Needle), GZ(f.Lo), GZ(f.Hi))
	case f.Needle != "":
		return GApp("FContains", GStr(f.Needle))
	case f.Range:
		return GApp("FRange", GZ(f.Lo), GZ(f.Hi))
	}
	return "FNone"
}

func gEv(e Ev) string {
	return fmt.Sprintf("(mkEv %s %s %s)", GZ(e.Ts), GStr(e.Msg), GStr(e.Flds))
}

func gEvs(es []Ev) string {
	it := make([]string, len(es))
	for i, e := range es {
		it[i] = gEv(e)
	}
	return GList(it)
}

func tagsOf(part int) string { return fmt.Sprintf("c=x,p=%d", part) }

func (r *runner) write(b Batch) error {
	evs := make([]*api.LogEvent, len(b.Evs))
	for i, e := range b.Evs {
		evs[i] = &api.LogEvent{Timestamp: e.Ts, Message: e.Msg, Fields: e.Flds}
	}
	var wr api.WriteResult
	if err := r.srv.Client.Write(context.Background(), tagsOf(b.Part), "", evs, &wr); err != nil {
		return err
	}
	if wr.Err != nil {
		return wr.Err
	}
	pr := r.byPart[b.Part]
	if pr == nil {
		pr = &partRef{}
		r.byPart[b.Part] = pr
	}
	pr.evs = append(pr.evs, b.Evs...)
	return nil
}

// readLayout asks the server for partitions and chunk layouts; ok when every partition shows all its records
func (r *runner) readLayout() (map[string][]chunkInfo, map[string]string, bool, error) {
	ctx := context.Background()
	js, err := r.srv.Partitions.GetJournals(ctx, nil, 50)
	if err != nil {
		return nil, nil, false, err
	}
	lay := map[string][]chunkInfo{}
	srcOf := map[string]string{}
	for tl, j := range js {
		cks, _ := j.Chunks().Chunks(ctx)
		var l []chunkInfo
		for _, c := range cks {
			l = append(l, chunkInfo{uint64(c.Id()), int(c.Count())})
		}
		lay[string(tl)] = l
		srcOf[string(tl)] = j.Name()
		r.srv.Partitions.Release(j.Name())
	}
	ok := len(lay) == len(r.byPart)
	for pn, pr := range r.byPart {
		l, have := lay[tagsOf(pn)]
		if !have {
			ok = false
			continue
		}
		n := 0
		for _, c := range l {
			n += c.Cnt
		}
		if n != len(pr.evs) {
			ok = false
		}
	}
	return lay, srcOf, ok, nil
}

// sync waits until everything written is readable and refreshes the layouts
func (r *runner) sync() error {
	var lay map[string][]chunkInfo
	var srcOf map[string]string
	var lerr error
	ok := WaitFor(30*time.Second, func() bool {
		var good bool
		lay, srcOf, good, lerr = r.readLayout()
		return lerr != nil || good
	})
	if lerr != nil {
		return lerr
	}
	if !ok {
		return fmt.Errorf("written records did not become readable within 30s: %v", lay)
	}
	for pn, pr := range r.byPart {
		pr.tags = tagsOf(pn)
		pr.src = srcOf[pr.tags]
		pr.layout = lay[pr.tags]
	}
	return nil
}

func (r *runner) coqStore() string {
	var ps []string
	for _, pr := range r.parts {
		var cs []string
		off := 0
		for _, c := range pr.layout {
			cs = append(cs, fmt.Sprintf("(mkCh %s %s)", GN(c.Id), gEvs(pr.evs[off:off+c.Cnt])))
			off += c.Cnt
		}
		ps = append(ps, fmt.Sprintf("(mkPart %s %s %s)", GStr(pr.src), GStr(pr.tags), GList(cs)))
	}
	return GList(ps)
}

// applyAppends writes the batches, waits, and returns the Gallina appends derived from the layout change
func (r *runner) applyAppends(apps []Batch) ([]string, error) {
	if len(apps) == 0 {
		return nil, nil
	}
	old := map[*partRef][]chunkInfo{}
	for _, pr := range r.parts {
		old[pr] = append([]chunkInfo{}, pr.layout...)
	}
	for _, b := range apps {
		if r.byPart[b.Part] == nil {
			return nil, fmt.Errorf("append to a partition that does not exist: %d", b.Part)
		}
		if err := r.write(b); err != nil {
			return nil, err
		}
	}
	if err := r.sync(); err != nil {
		return nil, err
	}
	var res []string
	for pi, pr := range r.parts {
		o := old[pr]
		off := 0
		for _, c := range pr.layout {
			oc := -1
			for _, x := range o {
				if x.Id == c.Id {
					oc = x.Cnt
				}
			}
			switch {
			case oc == c.Cnt:
			case oc >= 0:
				res = append(res, fmt.Sprintf("(mkApp %s %s %s)", GNat(pi), GN(c.Id), gEvs(pr.evs[off+oc:off+c.Cnt])))
			default:
				res = append(res, fmt.Sprintf("(mkApp %s %s %s)", GNat(pi), GN(c.Id), gEvs(pr.evs[off:off+c.Cnt])))
			}
			off += c.Cnt
		}
	}
	return res, nil
}

func parsePos(s string) (map[string]journal.Pos, error) {
	m := map[string]journal.Pos{}
	if s == "" {
		return m, nil
	}
	for _, v := range strings.Split(s, ":") {
		kv := strings.Split(v, "=")
		if len(kv) != 2 {
			return nil, fmt.Errorf("bad pos %q", s)
		}
		p, err := journal.ParsePos(kv[1])
		if err != nil {
			return nil, err
		}
		m[kv[0]] = p
	}
	return m, nil
}

func flatIndex(l []chunkInfo, p journal.Pos) int {
	n := 0
	for _, c := range l {
		if c.Id < uint64(p.CId) {
			n += c.Cnt
		} else if c.Id == uint64(p.CId) {
			k := int(p.Idx)
			if k > c.Cnt {
				k = c.Cnt
			}
			n += k
		}
	}
	return n
}

// startIdx: per partition (r.parts order), the index of the first record a request position covers
func (r *runner) startIdx(pos string) ([]int, error) {
	res := make([]int, len(r.parts))
	lp := strings.ToLower(pos)
	if lp == "" || lp == "head" {
		return res, nil
	}
	if lp == "tail" {
		for i, pr := range r.parts {
			res[i] = len(pr.evs)
		}
		return res, nil
	}
	m, err := parsePos(pos)
	if err != nil {
		return nil, err
	}
	for i, pr := range r.parts {
		if p, ok := m[pr.src]; ok {
			res[i] = flatIndex(pr.layout, p)
		}
	}
	return res, nil
}

type xev struct {
	part int
	idx  int
	e    Ev
}

// expected page: the first `limit` matching events, by timestamp, from the start indices (timestamps are
// pairwise different and increase with the write order, so the time-ordered merge is unique)
func (r *runner) expected(start []int, limit int) []xev {
	var all []xev
	for i, pr := range r.parts {
		for k := start[i]; k < len(pr.evs); k++ {
			if r.rp.Flt.match(pr.evs[k]) {
				all = append(all, xev{i, k, pr.evs[k]})
			}
		}
	}
	sort.Slice(all, func(a, b int) bool { return all[a].e.Ts < all[b].e.Ts })
	if len(all) > limit {
		all = all[:limit]
	}
	return all
}

// doQuery sends the request under a watchdog: a request that does not come back within 30 s (a request
// with WaitTimeout=1 that finds nothing takes 1 s) is reported as a hang
func (r *runner) doQuery(req *api.QueryRequest, rpc bool) (*api.QueryResult, error) {
	type out struct {
		res *api.QueryResult
		err error
	}
	ch := make(chan out, 1)
	go func() {
		res, err := r.doQuery0(req, rpc)
		ch <- out{res, err}
	}()
	select {
	case o := <-ch:
		return o.res, o.err
	case <-time.After(30 * time.Second):
		r.hung = true
		atomic.AddInt32(&hangs, 1)
		return nil, errHang
	}
}

var errHang = fmt.Errorf("the request did not return within 30s")

// hangs counts requests that did not come back (each costs its case 30 s and leaves a spinning or sleeping request in the
// server): after a few the remaining generated cases are not started - the verdict is there, the run should end
var hangs int32

func (r *runner) doQuery0(req *api.QueryRequest, rpc bool) (*api.QueryResult, error) {
	ctx := context.Background()
	if rpc {
		var res api.QueryResult
		if err := r.srv.Client.Query(ctx, req, &res); err != nil {
			return nil, err
		}
		if res.Err != nil {
			return nil, res.Err
		}
		return &res, nil
	}
	rq := *req
	res, err := r.srv.Querier.Query(ctx, &rq)
	if err != nil && err != io.EOF {
		return nil, err
	}
	if res == nil {
		return nil, fmt.Errorf("nil result")
	}
	return res, nil
}

// page runs one step: appends, the request built from the resume kind, the observation, the page-level oracle
func (r *runner) page(st Step, cur, prev *api.QueryRequest) (used *api.QueryRequest, next *api.QueryRequest, err error) {
	var apps []string
	if !st.Wake && !st.Win {
		apps, err = r.applyAppends(st.Apps)
		if err != nil {
			return nil, nil, err
		}
	}
	if len(r.winApps) > 0 {
		apps = append(append([]string{}, r.winApps...), apps...)
		r.winApps = nil
	}
	r.coqApps = append(r.coqApps, apps)
	if st.Pre != "" {
		if err := r.prelude(st, cur); err != nil {
			return nil, nil, err
		}
	}
	wt := 0
	if st.Wait {
		wt = 1
	}
	var req api.QueryRequest
	switch st.Kind {
	case "same":
		req = *cur
	case "evict":
		if n := cursor.VC03EvictIdle(r.srv.Provider); n != 0 {
			return nil, nil, fmt.Errorf("eviction left %d cursors", n)
		}
		req = *cur
	case "zero":
		req = *cur
		req.ReqId = 0
	case "posonly":
		req = api.QueryRequest{Query: cur.Query, Pos: cur.Pos}
	case "retry":
		req = *prev
	default:
		return nil, nil, fmt.Errorf("unknown kind %q", st.Kind)
	}
	req.Limit = int(st.Limit)
	req.WaitTimeout = wt
	if st.Wake {
		req.WaitTimeout = 60
	}
	req.Offset = 0
	res, err := r.exec(st, req)
	if err != nil {
		return nil, nil, err
	}
	return &api.QueryRequest{ReqId: req.ReqId, Query: req.Query, Pos: req.Pos}, &res.NextQueryRequest, nil
}

// exec sends one request, records the page and evaluates the page-level oracle
func (r *runner) exec(st Step, req api.QueryRequest) (*api.QueryResult, error) {
	wasCached := req.ReqId != 0 && cursor.VC03Cached(r.srv.Provider, req.ReqId)
	start, err := r.startIdx(req.Pos)
	if err != nil {
		return nil, err
	}
	lim := int(st.Limit)
	if lim > 10000 {
		lim = 10000
	}
	var res *api.QueryResult
	var want []xev
	if st.Wake {
		var apps []string
		res, apps, err = r.wakeQuery(&req, st)
		if r.aborted {
			// a verdict (reported through r.fail): the script stops here
			r.coqApps = r.coqApps[:len(r.coqApps)-1]
			return &api.QueryResult{NextQueryRequest: req}, nil
		}
		if err != nil {
			return nil, err
		}
		r.coqApps[len(r.coqApps)-1] = apps
	} else if st.Win {
		want = r.expected(start, lim)
		res, err = r.winQuery(&req, st)
		if err == nil && res != nil {
			// a flush that starts a new chunk is found by the selector and read by this very page: then the appends
			// count as written before the page (for the oracle and for the model)
			if seen := r.expected(start, lim); len(seen) != len(want) && sameEvents(r, res.Events, seen) {
				want = seen
				r.coqApps[len(r.coqApps)-1] = append(r.coqApps[len(r.coqApps)-1], r.winApps...)
				r.winApps = nil
			}
		}
	} else {
		want = r.expected(start, lim)
		res, err = r.doQuery(&req, st.Rpc)
	}
	if st.Wake {
		want = r.expected(start, lim)
	}
	if err != nil {
		// the implementation refused or failed a well-formed request: a verdict, not a harness failure
		cls := "query-error"
		if err == errHang {
			cls = "query-hang"
		}
		r.fail(cls, fmt.Sprintf("page %d kind=%s limit=%d pos=%q: %v", len(r.pages)+1, st.Kind, st.Limit, req.Pos, err))
		r.aborted = true
		r.coqApps = r.coqApps[:len(r.coqApps)-1]
		return &api.QueryResult{NextQueryRequest: req}, nil
	}
	nx := res.NextQueryRequest
	pm, err := parsePos(nx.Pos)
	if err != nil {
		// the returned Pos is not a list of concrete positions (a symbolic one such as "tail" would be resolved anew by
		// every following request): a verdict, not a harness failure; the script goes on, the whole-read oracle
		// then shows what the client loses
		r.fail("pos-not-concrete", fmt.Sprintf("page %d kind=%s limit=%d pos=%q: the returned Pos %q is not of the form src=position:...", len(r.pages)+1, st.Kind, st.Limit, req.Pos, nx.Pos))
		pm = map[string]journal.Pos{}
	}
	evs := make([]*api.LogEvent, len(res.Events))
	for i, e := range res.Events {
		c := *e
		evs[i] = &c
	}
	r.pages = append(r.pages, pageObs{evs: evs, pos: pm, posS: nx.Pos, id: nx.ReqId, short: len(evs) < lim})
	r.kinds[st.Kind]++

	// ---- oracle on this page
	backOnCached := wasCached && st.Kind == "retry"
	if backOnCached {
		r.retryCached++
	}
	okContent, onlyFields := len(evs) == len(want), true
	for i := 0; okContent && i < len(evs); i++ {
		w := want[i]
		if evs[i].Tags != r.parts[w.part].tags || evs[i].Timestamp != w.e.Ts || evs[i].Message != w.e.Msg {
			okContent, onlyFields = false, false
		}
	}
	if len(evs) != len(want) {
		onlyFields = false
	}
	fieldsOk := true
	if okContent {
		for i := range evs {
			if evs[i].Fields != want[i].e.Flds {
				fieldsOk = false
			}
		}
	}
	detail := func() string {
		return fmt.Sprintf("page %d kind=%s limit=%d cached=%v pos=%q: got %s want %s", len(r.pages), st.Kind, st.Limit, wasCached, req.Pos, showGot(evs), showWant(want))
	}
	switch {
	case okContent && fieldsOk:
	case st.Win && r.winRolled:
		r.fail("eof-window-rollover", detail()+fmt.Sprintf("; the flush inside the EOF window grew the chunk the reader stood at the end of AND started a new chunk (chunks of %s: %v)", r.byPart[st.Apps[0].Part].tags, r.byPart[st.Apps[0].Part].layout))
	case backOnCached && okContent && onlyFields && !r.rp.Flt.any() && len(r.parts) == 1:
		r.fail("retry-cached-stale-fields", detail())
	case backOnCached && (r.rp.Flt.any() || len(r.parts) > 1):
		r.fail("retry-cached-stale-peek", detail())
	case okContent:
		r.fail("page-fields", detail())
	default:
		r.fail("page-content", detail())
	}
	if len(evs) > lim {
		r.fail("limit-exceeded", detail())
	}
	// position bookkeeping: the returned Pos names every partition and accounts for exactly the delivered
	// and the skipped (non-matching) records
	for i, pr := range r.parts {
		p, ok := pm[pr.src]
		if !ok {
			r.fail("pos-missing-source", fmt.Sprintf("page %d: %q lacks %s", len(r.pages), nx.Pos, pr.src))
			continue
		}
		end := flatIndex(pr.layout, p)
		var wantP []Ev
		for k := start[i]; k < end && k < len(pr.evs); k++ {
			if r.rp.Flt.match(pr.evs[k]) {
				wantP = append(wantP, pr.evs[k])
			}
		}
		var gotP []*api.LogEvent
		for _, e := range evs {
			if e.Tags == pr.tags {
				gotP = append(gotP, e)
			}
		}
		same := end >= start[i] && len(gotP) == len(wantP)
		for k := 0; same && k < len(gotP); k++ {
			if gotP[k].Timestamp != wantP[k].Ts {
				same = false
			}
		}
		if !same {
			if backOnCached && (r.rp.Flt.any() || len(r.parts) > 1) {
				r.fail("retry-cached-stale-peek", detail())
			} else {
				r.fail("pos-accounting", fmt.Sprintf("page %d partition %s: start %d, returned pos %s = index %d, delivered %d, matching in between %d",
					len(r.pages), pr.tags, start[i], p.String(), end, len(gotP), len(wantP)))
			}
		}
		// a page edge within one record of a chunk edge?
		off := 0
		for _, c := range pr.layout {
			for _, d := range []int{-1, 0, 1} {
				if end == off+c.Cnt+d && len(pr.layout) > 1 {
					r.edgePage = true
				}
			}
			off += c.Cnt
		}
	}
	out := *res
	out.NextQueryRequest = nx
	return &out, nil
}

// prelude: a request outside the model's script, judged by the oracle (see Step.Pre)
func (r *runner) prelude(st Step, cur *api.QueryRequest) error {
	kind, arg := st.Pre, ""
	if i := strings.Index(st.Pre, ":"); i >= 0 {
		kind, arg = st.Pre[:i], st.Pre[i+1:]
	}
	if r.pres == nil {
		r.pres = map[string]int{}
	}
	r.pres[kind]++
	step := len(r.coqApps) - 1
	switch kind {
	case "badpos", "badpos0":
		req := api.QueryRequest{ReqId: cur.ReqId, Query: cur.Query, Pos: arg, Limit: 3}
		if kind == "badpos0" {
			req.ReqId = 0
		}
		wasCached := req.ReqId != 0 && cursor.VC03Cached(r.srv.Provider, req.ReqId)
		res, err := r.doQuery(&req, st.Rpc)
		if err == errHang {
			r.fail("query-hang", fmt.Sprintf("step %d: request with Pos %q", step+1, arg))
			r.aborted = true
			return nil
		}
		if err == nil {
			r.fail("bad-pos-accepted", fmt.Sprintf("step %d: the request with Pos %q was answered (%d events, next Pos %q) instead of refused", step+1, arg, len(res.Events), res.NextQueryRequest.Pos))
		}
		if wasCached {
			// the cached cursor of this query stood elsewhere: it was dropped, and the failed request left nothing behind
			if cursor.VC03Cached(r.srv.Provider, req.ReqId) {
				r.fail("bad-pos-left-cursor", fmt.Sprintf("step %d: after the refused request with Pos %q a cursor is cached under id %d", step+1, arg, req.ReqId))
			}
			if st.Kind == "same" {
				if r.kindOv == nil {
					r.kindOv = map[int]string{}
				}
				r.kindOv[step] = "REvict"
			}
		}
	case "badarg":
		req := api.QueryRequest{ReqId: cur.ReqId, Query: cur.Query, Pos: cur.Pos, Limit: 3}
		switch arg {
		case "limit-1":
			req.Limit = -1
		case "wait-1":
			req.WaitTimeout = -1
		case "wait61":
			req.WaitTimeout = 61
		default:
			return fmt.Errorf("unknown badarg %q", arg)
		}
		wasCached := req.ReqId != 0 && cursor.VC03Cached(r.srv.Provider, req.ReqId)
		res, err := r.doQuery(&req, st.Rpc)
		if err == errHang {
			r.fail("query-hang", fmt.Sprintf("step %d: request with %s", step+1, arg))
			r.aborted = true
			return nil
		}
		if err == nil {
			r.fail("bad-arg-accepted", fmt.Sprintf("step %d: the request with %s was answered (%d events) instead of refused", step+1, arg, len(res.Events)))
		}
		if wasCached && !cursor.VC03Cached(r.srv.Provider, req.ReqId) {
			r.fail("bad-arg-took-cursor", fmt.Sprintf("step %d: the refused request with %s removed the cached cursor %d", step+1, arg, req.ReqId))
		}
	case "otherquery":
		oflt := Filter{Needle: "k"}
		if r.rp.Flt.Needle != "" {
			oflt = Filter{}
		}
		req := api.QueryRequest{ReqId: cur.ReqId, Query: oflt.query(), Pos: cur.Pos, Limit: 3}
		wasCached := req.ReqId != 0 && cursor.VC03Cached(r.srv.Provider, req.ReqId)
		start, err := r.startIdx(req.Pos)
		if err != nil {
			return err
		}
		save := r.rp.Flt
		r.rp.Flt = oflt
		want := r.expected(start, 3)
		r.rp.Flt = save
		res, err := r.doQuery(&req, st.Rpc)
		if err != nil {
			r.fail("query-error", fmt.Sprintf("step %d: the current ReqId with another query: %v", step+1, err))
			if err == errHang {
				r.aborted = true
			}
			return nil
		}
		ok := len(res.Events) == len(want)
		for i := 0; ok && i < len(want); i++ {
			e := res.Events[i]
			if e.Timestamp != want[i].e.Ts || e.Message != want[i].e.Msg || e.Fields != want[i].e.Flds || e.Tags != r.parts[want[i].part].tags {
				ok = false
			}
		}
		if !ok {
			r.fail("other-query-page", fmt.Sprintf("step %d: ReqId %d (cached=%v) with the query %q from %q: got %s want %s", step+1, req.ReqId, wasCached, req.Query, req.Pos, showGot(res.Events), showWant(want)))
		}
		if wasCached && (res.NextQueryRequest.ReqId == req.ReqId || !cursor.VC03Cached(r.srv.Provider, req.ReqId)) {
			r.fail("other-query-took-cursor", fmt.Sprintf("step %d: the request with another query came back with ReqId %d; cursor %d still cached: %v", step+1, res.NextQueryRequest.ReqId, req.ReqId, cursor.VC03Cached(r.srv.Provider, req.ReqId)))
		}
	case "nosource", "nosourcewait":
		q := "SELECT FROM c=nosuchpartition LIMIT 100000"
		req := api.QueryRequest{Query: q, Pos: arg, Limit: 3}
		if kind == "nosourcewait" {
			req.WaitTimeout = 1
		}
		t0 := time.Now()
		res, err := r.doQuery(&req, st.Rpc)
		if err != nil {
			cls := "query-error"
			if err == errHang {
				cls = "query-hang"
				r.aborted = true
			}
			r.fail(cls, fmt.Sprintf("step %d: a query over no partition (WaitTimeout=%d): %v", step+1, req.WaitTimeout, err))
			return nil
		}
		if kind == "nosourcewait" && time.Since(t0) < 900*time.Millisecond {
			r.fail("no-source-wait-early", fmt.Sprintf("step %d: a query with WaitTimeout=1 over no partition came back after %v", step+1, time.Since(t0)))
		}
		if len(res.Events) != 0 {
			r.fail("no-source-events", fmt.Sprintf("step %d: a query over no partition delivered %s", step+1, showGot(res.Events)))
		}
		if res.NextQueryRequest.Query != q {
			r.fail("no-source-next-request", fmt.Sprintf("step %d: the NextQueryRequest of a query over no partition carries the query %q instead of %q (a client that chains it reads something else)", step+1, res.NextQueryRequest.Query, q))
		}
	default:
		return fmt.Errorf("unknown prelude %q", st.Pre)
	}
	return nil
}

// ---- requests woken by an append: the schedule hook of pkg/cursor reports a request that is about to sleep in
// WaitNewData (one call per partition of the cursor); the hook is process-wide, the cases run in parallel: waiters are
// keyed by the journal name
var wakeMu sync.Mutex
var wakeCh = map[string]chan struct{}{}

func c03Hook(point, src string) {
	if point != "wait-new-data" {
		return
	}
	wakeMu.Lock()
	ch := wakeCh[src]
	wakeMu.Unlock()
	if ch != nil {
		select {
		case ch <- struct{}{}:
		default:
		}
	}
}

// wakeQuery sends the request, waits until it sleeps at the end of the data of every partition, writes st.Apps and
// returns the answer together with the Gallina appends
func (r *runner) wakeQuery(req *api.QueryRequest, st Step) (*api.QueryResult, []string, error) {
	chs := make([]chan struct{}, len(r.parts))
	wakeMu.Lock()
	for i, pr := range r.parts {
		chs[i] = make(chan struct{}, 4)
		wakeCh[pr.src] = chs[i]
	}
	wakeMu.Unlock()
	defer func() {
		wakeMu.Lock()
		for _, pr := range r.parts {
			delete(wakeCh, pr.src)
		}
		wakeMu.Unlock()
	}()
	type out struct {
		res *api.QueryResult
		err error
	}
	done := make(chan out, 1)
	go func() {
		// (through backend.Querier: the RPC server serves the requests of one connection one after the other, the
		// harness's write over the same client connection would wait behind the sleeping query)
		res, err := r.doQuery0(req, false)
		done <- out{res, err}
	}()
	deadline := time.After(30 * time.Second)
	for i := range chs {
		select {
		case <-chs[i]:
		case o := <-done:
			if o.err == nil {
				r.fail("wait-returned-early", fmt.Sprintf("page %d: the request with WaitTimeout=60 at the end of the data (pos %q) came back with %d events before anything was written", len(r.pages)+1, req.Pos, len(o.res.Events)))
			} else {
				r.fail("query-error", fmt.Sprintf("page %d (waiting request, pos %q): %v", len(r.pages)+1, req.Pos, o.err))
			}
			r.aborted = true
			return nil, nil, nil
		case <-deadline:
			r.fail("query-hang", fmt.Sprintf("page %d: the request with WaitTimeout=60 (pos %q) neither returned nor went to sleep within 30s", len(r.pages)+1, req.Pos))
			r.aborted, r.hung = true, true
			atomic.AddInt32(&hangs, 1)
			return nil, nil, nil
		}
	}
	apps, err := r.applyAppends(st.Apps)
	if err != nil {
		return nil, nil, err
	}
	select {
	case o := <-done:
		if o.err != nil {
			r.fail("query-error", fmt.Sprintf("page %d (woken request, pos %q): %v", len(r.pages)+1, req.Pos, o.err))
			r.aborted = true
			return nil, apps, nil
		}
		return o.res, apps, nil
	case <-time.After(30 * time.Second):
		r.fail("query-hang", fmt.Sprintf("page %d: the waiting request (pos %q) did not return within 30s after %d events were appended and readable", len(r.pages)+1, req.Pos, len(st.Apps)))
		r.aborted, r.hung = true, true
		atomic.AddInt32(&hangs, 1)
		return nil, apps, nil
	}
}

// latePartition: see Replay.Post
func (r *runner) latePartition(rpc bool) error {
	const tags = "c=late,p=0"
	q := "SELECT FROM c=late LIMIT 100000"
	req := api.QueryRequest{Query: q, Pos: "tail", Limit: 10, WaitTimeout: 1}
	t0 := time.Now()
	res, err := r.doQuery(&req, rpc)
	if err != nil {
		cls := "query-error"
		if err == errHang {
			cls = "query-hang"
		}
		r.fail(cls, fmt.Sprintf("post: a query with WaitTimeout=1 over a source that matches no partition: %v", err))
		return nil
	}
	if time.Since(t0) < 900*time.Millisecond {
		r.fail("no-source-wait-early", fmt.Sprintf("post: a query with WaitTimeout=1 over no partition came back after %v", time.Since(t0)))
	}
	if len(res.Events) != 0 {
		r.fail("no-source-events", fmt.Sprintf("post: a query over no partition delivered %s", showGot(res.Events)))
	}
	next := res.NextQueryRequest
	if next.Query != q {
		r.fail("no-source-next-request", fmt.Sprintf("post: the NextQueryRequest of a query over no partition carries the query %q instead of %q", next.Query, q))
		return nil
	}
	// the partition comes into being
	evs := []*api.LogEvent{{Timestamp: 900001, Message: "late1"}, {Timestamp: 900002, Message: "late2", Fields: "a=b"}, {Timestamp: 900003, Message: "late3"}}
	var wr api.WriteResult
	if err := r.srv.Client.Write(context.Background(), tags, "", evs, &wr); err != nil {
		return err
	}
	if wr.Err != nil {
		return wr.Err
	}
	var lerr error
	ok := WaitFor(30*time.Second, func() bool {
		js, err := r.srv.Partitions.GetJournals(context.Background(), nil, 50)
		if err != nil {
			lerr = err
			return true
		}
		n := 0
		for tl, j := range js {
			if string(tl) == tags {
				cks, _ := j.Chunks().Chunks(context.Background())
				for _, c := range cks {
					n += int(c.Count())
				}
			}
			r.srv.Partitions.Release(j.Name())
		}
		return n == len(evs)
	})
	if lerr != nil {
		return lerr
	}
	if !ok {
		return fmt.Errorf("the late partition did not become readable within 30s")
	}
	// the chained request reads it
	next.Limit, next.WaitTimeout = 10, 0
	res, err = r.doQuery(&next, rpc)
	if err != nil {
		cls := "query-error"
		if err == errHang {
			cls = "query-hang"
		}
		r.fail(cls, fmt.Sprintf("post: the chained request %+v of a no-source answer: %v", next, err))
		return nil
	}
	same := len(res.Events) == len(evs)
	for i := 0; same && i < len(evs); i++ {
		g := res.Events[i]
		if g.Tags != tags || g.Timestamp != evs[i].Timestamp || g.Message != evs[i].Message || g.Fields != evs[i].Fields {
			same = false
		}
	}
	if !same {
		r.fail("no-source-chain-lost", fmt.Sprintf("post: the partition %s was created after the empty answer; the chained request (query %q, pos %q) delivered %s instead of its %d events", tags, next.Query, next.Pos, showGot(res.Events), len(evs)))
	}
	return nil
}

// winQuery sends the request (through backend.Querier: the write inside the window goes over the harness's RPC
// connection, which the server serves one request at a time) with st.Apps written inside the EOF window
func (r *runner) winQuery(req *api.QueryRequest, st Step) (*api.QueryResult, error) {
	if r.win == nil || len(st.Apps) == 0 {
		return nil, fmt.Errorf("a window step needs the decorated ItFactory and appends")
	}
	pr := r.byPart[st.Apps[0].Part]
	if pr == nil {
		return nil, fmt.Errorf("window step: unknown partition %d", st.Apps[0].Part)
	}
	for _, b := range st.Apps {
		if b.Part != st.Apps[0].Part {
			return nil, fmt.Errorf("window step: one partition only")
		}
	}
	before := append([]chunkInfo{}, pr.layout...)
	r.winObsAdded = false
	var apps []string
	w := r.win
	w.mu.Lock()
	w.armed, w.src, w.eof, w.fired, w.err = true, pr.src, false, false, nil
	w.kind = st.WinKind
	w.action = func() error {
		var err error
		apps, err = r.applyAppends(st.Apps)
		return err
	}
	w.mu.Unlock()
	res, err := r.doQuery(req, false)
	w.mu.Lock()
	fired, werr := w.fired, w.err
	w.armed = false
	w.mu.Unlock()
	if werr != nil {
		return nil, werr
	}
	r.winFired, r.winRolled = fired, fired && len(pr.layout) > len(before)
	if !fired {
		// the page did not run into the end of that partition: the appends are written now (same meaning for the model)
		var aerr error
		apps, aerr = r.applyAppends(st.Apps)
		if aerr != nil {
			return nil, aerr
		}
	} else {
		r.winHits++
	}
	r.winApps = apps
	if err == nil && fired && res != nil {
		// the observation for the model's eof_step: chunks before, chunks after, and the position the reader went on from -
		// where the first event lies that the page delivered from behind the data it had seen (the code: the flush is read
		// by this very page), or the returned position when it delivered none of it
		lay := func(l []chunkInfo) string {
			var cs []string
			for _, c := range l {
				cs = append(cs, GTuple(GN(c.Id), GN(uint64(c.Cnt))))
			}
			return GList(cs)
		}
		nBefore := 0
		for _, c := range before {
			nBefore += c.Cnt
		}
		beyond := false
		for _, e := range res.Events {
			if e.Tags != pr.tags {
				continue
			}
			k := -1
			for i := range pr.evs {
				if pr.evs[i].Ts == e.Timestamp {
					k = i
				}
			}
			if k >= nBefore {
				off := 0
				for _, c := range pr.layout {
					if k < off+c.Cnt {
						r.winObs = append(r.winObs, GTuple(lay(before), lay(pr.layout), GTuple(GN(c.Id), GN(uint64(k-off))), GBool(st.WinKind == "count")))
						beyond = true
						break
					}
					off += c.Cnt
				}
				break
			}
		}
		if !beyond {
			if pm, perr := parsePos(res.NextQueryRequest.Pos); perr == nil {
				if p, ok := pm[pr.src]; ok {
					r.winObs = append(r.winObs, GTuple(lay(before), lay(pr.layout), GTuple(GN(uint64(p.CId)), GN(uint64(p.Idx))), GBool(st.WinKind == "count")))
				}
			}
		}
	}
	return res, err
}

func sameEvents(r *runner, got []*api.LogEvent, want []xev) bool {
	if len(got) != len(want) {
		return false
	}
	for i, w := range want {
		g := got[i]
		if g.Tags != r.parts[w.part].tags || g.Timestamp != w.e.Ts || g.Message != w.e.Msg || g.Fields != w.e.Flds {
			return false
		}
	}
	return true
}

func showGot(evs []*api.LogEvent) string {
	var sb strings.Builder
	for _, e := range evs {
		fmt.Fprintf(&sb, "(%s %d %q %q)", e.Tags, e.Timestamp, e.Message, e.Fields)
	}
	return "[" + sb.String() + "]"
}

func showWant(evs []xev) string {
	var sb strings.Builder
	for _, e := range evs {
		fmt.Fprintf(&sb, "(p%d %d %q %q)", e.part, e.e.Ts, e.e.Msg, e.e.Flds)
	}
	return "[" + sb.String() + "]"
}

// chainOracle: the property over the whole paged read (scripts without retries)
func (r *runner) chainOracle() {
	hasRetry := false
	for _, s := range r.rp.Steps {
		if s.Kind == "retry" {
			hasRetry = true
		}
	}
	if hasRetry || len(r.pages) == 0 {
		return
	}
	start, _ := r.startIdxAtFirst()
	seen := map[int64]bool{}
	var all []*api.LogEvent
	for _, p := range r.pages {
		for _, e := range p.evs {
			if seen[e.Timestamp] {
				r.fail("duplicate", fmt.Sprintf("event ts=%d delivered twice", e.Timestamp))
			}
			seen[e.Timestamp] = true
			all = append(all, e)
		}
	}
	finished := r.pages[len(r.pages)-1].short
	for i, pr := range r.parts {
		var want []Ev
		for k := start[i]; k < len(pr.evs); k++ {
			if r.rp.Flt.match(pr.evs[k]) {
				want = append(want, pr.evs[k])
			}
		}
		var got []*api.LogEvent
		for _, e := range all {
			if e.Tags == pr.tags {
				got = append(got, e)
			}
		}
		if len(got) > len(want) {
			r.fail("partition-extra", fmt.Sprintf("%s: %d delivered, %d stored matching", pr.tags, len(got), len(want)))
			continue
		}
		for k := range got {
			if got[k].Timestamp != want[k].Ts || got[k].Message != want[k].Msg {
				r.fail("partition-order", fmt.Sprintf("%s: delivered #%d is ts=%d, stored matching #%d is ts=%d", pr.tags, k, got[k].Timestamp, k, want[k].Ts))
				break
			}
			if got[k].Fields != want[k].Flds {
				r.fail("partition-fields", fmt.Sprintf("%s: ts=%d delivered with fields %q, stored %q", pr.tags, got[k].Timestamp, got[k].Fields, want[k].Flds))
				break
			}
		}
		if finished && len(got) != len(want) {
			r.fail("partition-missing", fmt.Sprintf("%s: read to the end, %d delivered, %d stored matching", pr.tags, len(got), len(want)))
		}
	}
	// the same multiset as one unlimited read
	nmatch := 0
	for _, pr := range r.parts {
		for _, e := range pr.evs {
			if r.rp.Flt.match(e) {
				nmatch++
			}
		}
	}
	// (one request returns at most QueryMaxLimit events: the comparison needs a store that fits)
	// (a read that starts behind the data - tail, @past - has no single-read counterpart: a later request from that
	// position starts behind what was appended meanwhile)
	if finished && strings.ToLower(r.rp.Start) != "tail" && r.rp.Start != "@past" && r.rp.Start != "@maxidx" && nmatch < 10000 {
		res, err := r.doQuery(&api.QueryRequest{Query: r.rp.Flt.query(), Pos: r.startS, Limit: 10000}, true)
		if err != nil {
			r.fail("single-read-failed", err.Error())
			return
		}
		a := make([]string, 0, len(all))
		for _, e := range all {
			a = append(a, fmt.Sprintf("%s|%d|%s|%s", e.Tags, e.Timestamp, e.Message, e.Fields))
		}
		b := make([]string, 0, len(res.Events))
		for _, e := range res.Events {
			b = append(b, fmt.Sprintf("%s|%d|%s|%s", e.Tags, e.Timestamp, e.Message, e.Fields))
		}
		sort.Strings(a)
		sort.Strings(b)
		if strings.Join(a, "\n") != strings.Join(b, "\n") {
			r.fail("multiset", fmt.Sprintf("pages delivered %d events, a single read %d; they differ as multisets", len(a), len(b)))
		}
	}
}

func (r *runner) startIdxAtFirst() ([]int, error) { return r.first, nil }

func main() {
	Main("C03", "C03K", func(c *Ctx) error {
		nofile := NoFileLimit()
		if c.Replay != nil {
			cursor.VC11SetHook(c03Hook)
			var rp Replay
			if err := FromJSON(c.Replay, &rp); err != nil {
				return err
			}
			cs, err := runCase(&rp, nil)
			if err != nil {
				return err
			}
			c.Add(*cs)
			return c.Finish(rule)
		}
		cursor.VC11SetHook(c03Hook)
		c.ShardSize = 45 // several shards, evaluated in parallel by the driver
		var jobs []job
		var bulk []job // the 10500-event case takes the model ~10 s: it goes last, into the smallest shard
		for _, rp := range corpus() {
			rp := rp
			if rp.Bulk > 0 {
				bulk = append(bulk, job{rp: &rp})
				continue
			}
			jobs = append(jobs, job{rp: &rp})
		}
		for _, rp := range emptyFirst() {
			rp := rp
			jobs = append(jobs, job{rp: &rp})
		}
		for _, rp := range rangeGrow() {
			rp := rp
			jobs = append(jobs, job{rp: &rp})
		}
		for _, rp := range resumePaths() {
			rp := rp
			jobs = append(jobs, job{rp: &rp})
		}
		for _, rp := range eofWindow() {
			rp := rp
			jobs = append(jobs, job{rp: &rp})
		}
		// exhaustive small scope: every limit sequence over {1,2,3} of length L on a 7-event/3-chunk store, cached and
		// uncached, then drained
		L := 3
		if c.Tier == "thorough" {
			L = 4
		}
		for _, rp := range exhaustive(L) {
			rp := rp
			jobs = append(jobs, job{rp: &rp})
		}
		// (NewRng(seed) of common is an arithmetic progression in the seed: the streams of seed s and s+1 are
		// shifted copies of one another. Scramble the seed first so that different seeds give different cases.)
		root := NewRng(mix64(c.Seed))
		// quick tier: 200 generated cases after the ~140 deterministic ones; the volume is in the thorough tier
		n := c.N(200)
		if n > 900 {
			// every in-process server leaves the descriptors of its chunk writers open (the journal controller
			// has no Shutdown, see C07): stay well below RLIMIT_NOFILE; the thorough tier uses more seeds instead
			n = 900
		}
		// (the deterministic streams and these cases were taken at 40 descriptors a case (a run that held 20000 had about 1300 cases): NoFileLimit
		// raised the limit where it may; where it may not, the generated cases are cut to what the limit carries)
		if budget := (int(nofile) - 2000) / 40; len(jobs)+len(bulk)+n > budget {
			n = budget - len(jobs) - len(bulk)
			if n < 50 {
				n = 50
			}
		}
		for i := 0; i < n; i++ {
			jobs = append(jobs, job{gen: root.Fork()})
		}
		jobs = append(bulk, jobs...) // (run first: writing its events takes the harness a few seconds)
		res := make([]*Case, len(jobs))
		errs := make([]error, len(jobs))
		Parallel(len(jobs), 12, func(i int) {
			j := jobs[i]
			if atomic.LoadInt32(&hangs) >= 4 {
				return // (res[i] stays nil: not started)
			}
			if j.rp != nil {
				res[i], errs[i] = runCase(j.rp, nil)
			} else {
				rp, cg := genCase(j.gen)
				res[i], errs[i] = runCase(rp, cg)
			}
		})
		for i := range jobs {
			if errs[i] != nil {
				return fmt.Errorf("case %d: %v", i, errs[i])
			}
		}
		for i := len(bulk); i < len(jobs); i++ {
			if res[i] != nil {
				c.Add(*res[i])
			}
		}
		for i := 0; i < len(bulk); i++ {
			if res[i] != nil {
				c.Add(*res[i])
			}
		}
		if n := atomic.LoadInt32(&hangs); n >= 4 {
			c.Note("stopped_after_hangs", n)
		}
		if fds, err := ioutil.ReadDir("/proc/self/fd"); err == nil {
			c.Note("open_fds_at_end", len(fds))
		}
		return c.Finish(rule)
	})
}

type job struct {
	rp  *Replay
	gen *Rng
}

const rule = "eof-window: RANGE walks with a flush placed between a chunk iterator's EOF and the selector's look at the chunk; range-grow: RANGE on a server-kept cursor whose lower bound lies above everything a partition holds at the first page, then in-range appends into the same chunk / new chunks, resumed in each kind; empty-first: reads whose first page is empty (Pos tail, or head with a WHERE that matches nothing stored yet), then appends, then resumed in each kind, cached and uncached, 1-2 partitions; stores of 1-4 partitions with 2-40 events in chunks of 1-6 records (pairwise different timestamps), with/without WHERE and RANGE; page scripts with limits from {1,2,3,7,chunk+-1,total+-1,10001} and resume kinds same/evict/zero/posonly (+retry in the retry stream), cached (WaitTimeout) and uncached, appends before ~30% of the pages, then drained to the end; a case is non-trivial iff it has >= 3 pages and some page ended within one record of a chunk edge, or it used a resume kind other than `same`; distinct by the hash of store+script+observations"

func mix64(z uint64) uint64 {
	z = (z ^ (z >> 33)) * 0xff51afd7ed558ccd
	z = (z ^ (z >> 33)) * 0xc4ceb9fe1a85ec53
	z ^= z >> 33
	return z*2862933555777941757 + 3037000493
}

func exhaustive(L int) []Replay {
	var evs []Batch
	for i := 1; i <= 7; i++ {
		f := ""
		if i%3 == 0 {
			f = fmt.Sprintf("n=%d", i)
		}
		evs = append(evs, Batch{Part: 0, Evs: []Ev{{int64(1000 + i), fmt.Sprintf("m%05d", i), f}}})
	}
	var res []Replay
	n := 1
	for i := 0; i < L; i++ {
		n *= 3
	}
	kinds := []string{"same", "evict", "zero", "posonly"}
	for code := 0; code < n; code++ {
		for _, wait := range []bool{false, true} {
			rp := Replay{Name: fmt.Sprintf("exhaustive-%d-%v", code, wait), Chunk: 60, Init: evs}
			x := code
			for i := 0; i < L; i++ {
				rp.Steps = append(rp.Steps, Step{Kind: kinds[(code+i)%4], Limit: int64(x%3 + 1), Wait: wait, Rpc: (code+i)%2 == 0})
				x /= 3
			}
			rp.Steps[0].Kind = "same"
			for i := 0; i < 4; i++ { // 4 x 3 >= 7: the read ends with a short page
				rp.Steps = append(rp.Steps, Step{Kind: "same", Limit: 3, Wait: false})
			}
			res = append(res, rp)
		}
	}
	return res
}
