package main

import (
	"fmt"
	"sort"
	"strings"
	"time"

	"github.com/logrange/logrange/api"
	"github.com/logrange/logrange/pkg/cursor"
	"github.com/logrange/range/pkg/records/chunk"
	"github.com/logrange/range/pkg/records/journal"
	. "verifharness/common"
)

// caseGen drives the adaptive part of a generated case (the page script depends on the layout the server chose)
type caseGen struct {
	g           *Rng
	retry       bool // retry stream
	waitMode    int  // 0 never, 1 always, 2 mixed
	nsteps      int
	ts          int64
	seq         int
	fldMode     int // 0 mixed, 1 all, 2 none
	nparts      int
	made        int
	drain       bool
	rangeAppend bool // RANGE on a cached cursor, one chunk per partition, appends into that chunk
	msgMode     int  // 0: fixed-width "k00012" (most cases), 1: messages of every length incl. empty, quotes, non-ASCII, invalid UTF-8
}

// texts for msgMode 1 (the WHERE needle "k" occurs in some of them, at the start, in the middle, at the end, never)
var oddMsgs = []string{"", "k", "z", " k ", "\"k\"", "line1\nline2 k", "tab\there", "zzzzzzzzzzzzzzzzzzzzzzzzzzzzzzzzzzzzzzzzzzzzzzzzzzzzzzzzzzzzzzk",
	"\xc3\xa9t\xc3\xa9 k", "\xff\xfe invalid utf8", "{\"json\":\"k\"}", "a=b,c=d", "K upper only"}

func (cg *caseGen) event(marker string) Ev {
	cg.ts += int64(cg.g.Range(1, 3))
	cg.seq++
	if marker == "" {
		marker = cg.g.PickStr("k", "z", "k")
	}
	e := Ev{Ts: cg.ts, Msg: fmt.Sprintf("%s%05d", marker, cg.seq%100000)}
	if cg.msgMode == 1 && cg.g.Chance(2, 3) {
		e.Msg = cg.g.PickStr(oddMsgs...)
		if cg.g.Chance(1, 2) {
			e.Msg += fmt.Sprintf("#%d", cg.seq)
		}
	}
	switch cg.fldMode {
	case 0:
		if cg.g.Chance(2, 5) {
			e.Flds = fmt.Sprintf("f=v%d", cg.seq)
		}
	case 1:
		e.Flds = fmt.Sprintf("f=v%d", cg.seq)
	}
	if e.Flds != "" && cg.msgMode == 1 && cg.g.Chance(1, 2) {
		e.Flds = fmt.Sprintf("a=%d,b=zz", cg.seq)
	}
	return e
}

func genCase(g *Rng) (*Replay, *caseGen) {
	cg := &caseGen{g: g, ts: 1000}
	cg.retry = g.Chance(1, 4)
	cg.waitMode = g.PickInt(0, 1, 1, 2)
	if cg.retry {
		cg.waitMode = g.PickInt(1, 1, 1, 2)
	}
	cg.nsteps = g.Range(2, 8)
	cg.fldMode = g.PickInt(0, 0, 0, 0, 1, 2)
	cg.nparts = g.PickInt(1, 1, 2, 2, 3, 4, 5)
	if g.Chance(1, 5) {
		cg.msgMode = 1
	}
	if g.Chance(1, 8) {
		cg.ts = -3000 // timestamps below and across zero (never with RANGE: see below)
	}
	if cg.retry {
		cg.nparts = g.PickInt(1, 1, 2)
	}
	if !cg.retry && g.Chance(1, 8) {
		cg.rangeAppend = true
		cg.ts = 1000
		cg.waitMode = 1
		cg.nparts = g.PickInt(1, 1, 2)
	}
	rp := &Replay{Chunk: int64(g.PickInt(30, 60, 60, 100, 100, 150, 250, 1000000))}
	n := g.PickInt(2, 3, 5, 8, 8, 12, 12, 20, 30, 40)
	if n < cg.nparts {
		n = cg.nparts
	}
	// events in timestamp order, dealt to partitions; consecutive events of one partition form a batch
	var cur *Batch
	for i := 0; i < n; i++ {
		p := g.Intn(cg.nparts)
		if i < cg.nparts {
			p = i
		}
		e := cg.event("")
		if cur != nil && cur.Part == p && len(cur.Evs) < 6 && !g.Chance(1, 4) {
			cur.Evs = append(cur.Evs, e)
			continue
		}
		if cur != nil {
			rp.Init = append(rp.Init, *cur)
		}
		cur = &Batch{Part: p, Evs: []Ev{e}}
	}
	rp.Init = append(rp.Init, *cur)
	switch x := g.Intn(100); {
	case x < 50:
	case x < 72:
		rp.Flt.Needle = "k"
	case x < 88:
		rp.Flt.Range = true
	default:
		rp.Flt.Needle = "k"
		rp.Flt.Range = true
	}
	if cg.retry {
		// (the chunk-window skipping of RANGE queries is not modelled: its interplay with the stale state of a
		// retried cursor would not be predictable)
		rp.Flt.Range = false
	}
	if cg.ts < 1000 {
		rp.Flt.Range = false // (the RANGE bounds below are written for timestamps from 1000 on; negative ones are C02's and C05's)
	}
	if rp.Flt.Range {
		lo := 1000 + int64(g.Intn(int(cg.ts-1000)+2)) - 1
		hi := lo + int64(g.Intn(int(cg.ts-lo)+60))
		if g.Chance(1, 4) {
			hi = cg.ts + 1000000
		}
		if g.Chance(1, 5) {
			lo = 0
		}
		rp.Flt.Lo, rp.Flt.Hi = lo, hi
	}
	rp.Start = g.PickStr("", "", "", "", "", "", "", "", "head", "tail", "Head", "TAIL") // (the corner positions are read case-insensitively)
	if cg.rangeAppend {
		// RANGE on a server-cached cursor, every partition in one chunk, appends land in that chunk
		rp.Chunk = 1000000
		rp.Flt.Range = true
		// (also lower bounds above everything stored so far: the chunk is outside the range until it grows)
		rp.Flt.Lo = pickInt64(g, 0, 1000, 1000+int64(g.Intn(int(cg.ts-1000)+1)), 1000+int64(g.Intn(int(cg.ts-1000)+1)), cg.ts+1, cg.ts+int64(g.Range(2, 6)))
		rp.Flt.Hi = pickInt64(g, cg.ts+1000000, cg.ts+1000000, cg.ts+int64(g.Intn(40)), cg.ts-int64(g.Intn(5)))
		rp.Start = ""
	}
	if !cg.retry && !cg.rangeAppend && g.Chance(1, 7) {
		// the read goes through api.Select
		total := 0
		for _, b := range rp.Init {
			total += len(b.Evs)
		}
		sp := &SelectSpec{Stream: g.Chance(1, 3), Wait: g.Chance(1, 2)}
		sp.Limit = g.PickInt(1, 2, 3, 7, total-1, total, total+3, 12000)
		if sp.Limit < 1 {
			sp.Limit = 1
		}
		if sp.Stream {
			sp.Limit = g.PickInt(1, 2, 3, 7, 10001)
		}
		if g.Chance(1, 2) {
			na := g.Range(1, 2)
			befores := make([]int, na)
			for a := range befores {
				befores[a] = g.Range(1, 3)
			}
			sort.Ints(befores) // timestamps must grow with the write order
			for a := 0; a < na; a++ {
				sa := SelApp{Before: befores[a]}
				ba := Batch{Part: g.Intn(cg.nparts)}
				ne := g.Range(1, 4)
				for i := 0; i < ne; i++ {
					ba.Evs = append(ba.Evs, cg.event(""))
				}
				sa.Apps = []Batch{ba}
				sp.Apps = append(sp.Apps, sa)
			}
		}
		rp.Sel = sp
	}
	return rp, cg
}

// next produces the next step of the script, or false when the script is complete
func (cg *caseGen) next(r *runner, cur *api.QueryRequest) (Step, bool) {
	g := cg.g
	lastShort := len(r.pages) > 0 && r.pages[len(r.pages)-1].short
	if cg.made >= cg.nsteps {
		// drain: read on until a short page shows the end (only for scripts the chain oracle covers)
		if cg.retry || lastShort || cg.made >= cg.nsteps+60 {
			return Step{}, false
		}
		cg.drain = true
	}
	cg.made++
	st := Step{Kind: "same", Rpc: g.Chance(1, 2)}
	total, maxChunk := 0, 1
	for _, pr := range r.parts {
		total += len(pr.evs)
		for _, c := range pr.layout {
			if c.Cnt > maxChunk {
				maxChunk = c.Cnt
			}
		}
	}
	if cg.drain {
		st.Limit = int64(g.PickInt(3, 7, 7, maxChunk+1))
		st.Kind = g.PickStr("same", "same", "same", "evict", "zero", "posonly")
	} else {
		// (QueryMaxLimit = 10000: 9999 and 10000 are served uncached and unclamped, 10001 clamped and cached; 0 reads nothing)
		st.Limit = int64(g.PickInt(1, 1, 1, 2, 2, 2, 3, 3, 3, 7, 7, maxChunk-1, maxChunk, maxChunk+1, total-1, total, total+1, total-1, total, total+1, 10001, 10001, 10000, 9999, 0))
		if st.Limit < 0 {
			st.Limit = 1
		}
		if len(r.pages) > 0 {
			if cg.retry {
				st.Kind = g.PickStr("same", "same", "same", "retry", "retry", "retry", "evict", "zero", "posonly")
			} else {
				st.Kind = g.PickStr("same", "same", "same", "same", "evict", "evict", "zero", "zero", "posonly", "posonly")
			}
		}
		if len(r.pages) > 0 && (g.Chance(3, 10) || (cg.rangeAppend && g.Chance(1, 2))) {
			nb := g.Range(1, 2)
			for b := 0; b < nb; b++ {
				ba := Batch{Part: g.Intn(len(r.parts))}
				// the harness partition numbers are those of byPart; pick an existing one
				keys := make([]int, 0, len(r.byPart))
				for k := range r.byPart {
					keys = append(keys, k)
				}
				sort.Ints(keys)
				ba.Part = keys[g.Intn(len(keys))]
				ne := g.Range(1, 4)
				for i := 0; i < ne; i++ {
					ba.Evs = append(ba.Evs, cg.event(""))
				}
				st.Apps = append(st.Apps, ba)
			}
		}
	}
	switch cg.waitMode {
	case 1:
		st.Wait = true
	case 2:
		st.Wait = g.Chance(1, 2)
	}
	// a waiting request that finds nothing blocks for a second: keep those rare
	if st.Wait {
		pos := cur.Pos
		if st.Kind == "retry" {
			pos = ""
		}
		if start, err := r.startIdx(pos); err == nil {
			pending := 0
			for _, b := range st.Apps {
				for _, e := range b.Evs {
					if r.rp.Flt.match(e) {
						pending++
					}
				}
			}
			if len(r.expected(start, 1)) == 0 && pending == 0 && !g.Chance(1, 8) {
				st.Wait = false
			}
		}
	}
	if cg.retry && len(r.parts) > 1 {
		// A retried request whose Pos names the position the cached cursor stands at, but lists the partitions in another
		// order (State.Pos is written in Go map order, anew by every page), is served by a new cursor: the provider compares
		// the strings. Whether that happens is not predictable, and it shows (a new cursor of an uncached request gives no
		// ReqId back): with several partitions a page is retried only after a page that moved the position.
		if st.Limit == 0 {
			st.Limit = 1
		}
		if st.Kind == "retry" && len(r.pages) > 0 && len(r.pages[len(r.pages)-1].evs) == 0 {
			st.Kind = "same"
		}
	}
	if st.Limit == 0 && !st.Wait {
		st.Rpc = false // (the RPC querier answers limit 0 without WaitTimeout with an empty message: see docs/C03.md)
	}
	return st, true
}

func runCase(rp *Replay, cg *caseGen) (*Case, error) {
	srv, err := StartServer(ServerOpts{MaxChunkSize: rp.Chunk})
	if err != nil {
		return nil, err
	}
	cursor.VC03SetTimeouts(srv.Provider, time.Hour, time.Hour)
	r := &runner{srv: srv, rp: rp, byPart: map[int]*partRef{}, kinds: map[string]int{}, kTrunc: -1}
	for _, st := range rp.Steps {
		if st.Win && r.win == nil {
			r.win = &window{}
			w := r.win
			if !cursor.VC04WrapItFactory(srv.Provider, func(f cursor.ItFactory) cursor.ItFactory { return &winItf{f, w} }) {
				return nil, fmt.Errorf("the provider's ItFactory cannot be decorated")
			}
		}
	}
	defer func() {
		if r.hung {
			// a request is still spinning inside the server: do not wait for its shutdown
			go srv.Stop()
			return
		}
		srv.Stop()
	}()
	for _, b := range rp.Init {
		if err := r.write(b); err != nil {
			return nil, err
		}
	}
	for done := 0; done < rp.Bulk; {
		b := Batch{Part: 0}
		for i := 0; i < 1500 && done < rp.Bulk; i++ {
			b.Evs = append(b.Evs, Ev{Ts: int64(5000 + done), Msg: "k"})
			done++
		}
		if err := r.write(b); err != nil {
			return nil, err
		}
	}
	if err := r.sync(); err != nil {
		return nil, err
	}
	for _, pr := range r.byPart {
		r.parts = append(r.parts, pr)
	}
	sort.Slice(r.parts, func(a, b int) bool { return r.parts[a].src < r.parts[b].src })
	r.st0 = r.coqStore()

	if err := r.resolveStart(); err != nil {
		return nil, err
	}
	cur := &api.QueryRequest{Query: rp.Flt.query(), Pos: r.startS}
	prev := cur
	step := func(st Step) error {
		if len(r.pages) == 0 {
			// the start indices of the whole read are those at the time of the first page (matters for "tail")
			if len(st.Apps) > 0 {
				return fmt.Errorf("appends before the first page are part of the initial store")
			}
			first, err := r.startIdx(r.startS)
			if err != nil {
				return err
			}
			r.first = first
		}
		used, next, err := r.page(st, cur, prev)
		if err != nil {
			return err
		}
		prev, cur = used, next
		return nil
	}
	_ = step
	if rp.Sel != nil {
		rp.Sel.steps = nil
		if err := r.runSelect(rp.Sel); err != nil {
			return nil, err
		}
		rp.Steps = rp.Sel.steps
	} else if cg == nil {
		for _, st := range rp.Steps {
			if err := step(st); err != nil {
				return nil, err
			}
			if r.aborted {
				break
			}
		}
	} else {
		for {
			st, ok := cg.next(r, cur)
			if !ok || r.aborted {
				break
			}
			rp.Steps = append(rp.Steps, st)
			if err := step(st); err != nil {
				return nil, err
			}
		}
	}
	r.chainOracle()
	if strings.HasPrefix(rp.Post, "late-partition") && !r.aborted && !r.hung {
		if err := r.latePartition(strings.HasSuffix(rp.Post, ":rpc")); err != nil {
			return nil, err
		}
	}

	// ---- the Gallina case
	var gsteps, gobs []string
	for i, st := range rp.Steps {
		if i >= len(r.coqApps) || (r.kTrunc >= 0 && i >= r.kTrunc) {
			break // aborted, or the page of a rolled-over window
		}
		k := map[string]string{"same": "RSame", "evict": "REvict", "zero": "RZero", "posonly": "RPosOnly", "retry": "RRetry"}[st.Kind]
		if ov, ok := r.kindOv[i]; ok {
			k = ov
		}
		gsteps = append(gsteps, fmt.Sprintf("(mkStep %s %s %s %s)", k, GN(uint64(st.Limit)), GBool(st.Wait), GList(r.coqApps[i])))
	}
	for pi, p := range r.pages {
		if r.kTrunc >= 0 && pi >= r.kTrunc {
			break
		}
		var evs []string
		for _, e := range p.evs {
			evs = append(evs, GTuple(GStr(e.Tags), GZ(e.Timestamp), GStr(e.Message), GStr(e.Fields)))
		}
		var pl []string
		seen := map[string]bool{}
		for _, pr := range r.parts {
			if ps, ok := p.pos[pr.src]; ok {
				pl = append(pl, gPos(pr.src, ps))
				seen[pr.src] = true
			}
		}
		var extra []string
		for s := range p.pos {
			if !seen[s] {
				extra = append(extra, s)
			}
		}
		sort.Strings(extra)
		for _, s := range extra {
			pl = append(pl, gPos(s, p.pos[s]))
		}
		gobs = append(gobs, GTuple(GList(evs), GList(pl), GBool(p.id != 0)))
	}
	start := r.startG
	coq := GApp("KRun", r.st0, rp.Flt.coq(), start, GList(gsteps), GList(gobs))
	if len(r.winObs) > 0 {
		coq = GApp("KRunW", r.st0, rp.Flt.coq(), start, GList(gsteps), GList(gobs), GList(r.winObs))
	}
	if rp.Bulk > 0 {
		// a large generated store: compact form (the literal would take minutes to parse)
		if len(rp.Init) != 0 || rp.Flt.any() || start != "PHead" || len(r.parts) != 1 {
			return nil, fmt.Errorf("bulk cases are single-partition, unfiltered, from the head")
		}
		pr := r.parts[0]
		var cks, bobs []string
		for _, c := range pr.layout {
			cks = append(cks, GTuple(GN(c.Id), GN(uint64(c.Cnt))))
		}
		for i := range r.coqApps {
			if len(r.coqApps[i]) != 0 {
				return nil, fmt.Errorf("bulk cases have no appends")
			}
		}
		for _, p := range r.pages {
			first, n := uint64(0), uint64(len(p.evs))
			ok := true
			for k, e := range p.evs {
				if k == 0 {
					first = uint64(e.Timestamp - 5000)
				}
				if e.Tags != pr.tags || e.Message != "k" || e.Fields != "" || e.Timestamp != int64(5000+first)+int64(k) {
					ok = false
				}
			}
			if !ok {
				first, n = 1<<40, 1 // not a run of generated events: a page the model cannot produce
			}
			var pl []string
			if ps, have := p.pos[pr.src]; have {
				pl = append(pl, gPos(pr.src, ps))
			}
			bobs = append(bobs, GTuple(GN(first), GN(n), GList(pl), GBool(p.id != 0)))
		}
		coq = GApp("KBulk", GStr(pr.src), GStr(pr.tags), GList(cks), GList(gsteps), GList(bobs))
	}

	// ---- classification
	other := 0
	for k, n := range r.kinds {
		if k != "same" {
			other += n
		}
	}
	stream := "chain"
	if strings.HasPrefix(rp.Name, "exhaustive-") {
		stream = "exhaustive"
	} else if strings.HasPrefix(rp.Name, "empty-first-") {
		stream = "empty-first"
	} else if strings.HasPrefix(rp.Name, "range-grow-") {
		stream = "range-grow"
	} else if strings.HasPrefix(rp.Name, "eof-window-") {
		stream = "eof-window"
	} else if strings.HasPrefix(rp.Name, "resume-") {
		stream = "resume-paths"
	} else if rp.Name != "" {
		stream = "corpus"
	} else if rp.Sel != nil {
		stream = "select"
	} else if cg != nil && cg.retry {
		stream = "retry"
	} else if cg != nil && cg.rangeAppend {
		stream = "range-append"
	}
	if rp.Sel != nil {
		other++ // the client loop is a resume discipline of its own
	}
	tags := []string{fmt.Sprintf("parts:%d", len(r.parts)), fmt.Sprintf("pages:%s", bucket(len(r.pages)))}
	for k, n := range r.kinds {
		for i := 0; i < n; i++ {
			tags = append(tags, "kind:"+k)
		}
	}
	if rp.Flt.Needle != "" {
		tags = append(tags, "where")
	}
	if rp.Flt.Range {
		tags = append(tags, "range")
	}
	if r.edgePage {
		tags = append(tags, "page-edge-at-chunk-edge")
	}
	if r.retryCached > 0 {
		tags = append(tags, "retry-on-cached-cursor")
	}
	apps := 0
	cached := 0
	for _, st := range rp.Steps {
		if len(st.Apps) > 0 {
			apps++
		}
		if st.Wait || st.Limit > 10000 {
			cached++
		}
	}
	if apps > 0 {
		tags = append(tags, "appends")
	}
	if cached > 0 {
		tags = append(tags, "cached-pages")
	}
	if strings.ToLower(rp.Start) == "tail" {
		tags = append(tags, "start-tail")
	}
	if strings.HasPrefix(rp.Start, "@") {
		tags = append(tags, "start-"+rp.Start[1:])
	}
	for k, n := range r.pres {
		for i := 0; i < n; i++ {
			tags = append(tags, "pre:"+k)
		}
	}
	for i := 0; i < r.winHits; i++ {
		tags = append(tags, "flush-in-eof-window")
	}
	for _, st := range rp.Steps {
		if st.Win {
			tags = append(tags, "window-step")
		}
		if st.Wake {
			tags = append(tags, "woken-page")
		}
		if st.Limit == 0 {
			tags = append(tags, "limit-0")
		}
	}
	return &Case{
		Coq:        coq,
		Replay:     rp,
		NonTrivial: (len(r.pages) >= 3 && r.edgePage) || other > 0,
		Oracle:     r.viol,
		Stream:     stream,
		Tags:       tags,
	}, nil
}

func gPos(src string, p journal.Pos) string {
	return GTuple(GStr(src), GTuple(GN(uint64(p.CId)), GN(uint64(p.Idx))))
}

func bucket(n int) string {
	switch {
	case n <= 2:
		return "1-2"
	case n <= 5:
		return "3-5"
	case n <= 10:
		return "6-10"
	}
	return "11+"
}

// corpus: deterministic witnesses, always run first
func corpus() []Replay {
	one := func(es ...Ev) []Batch {
		var bs []Batch
		for _, e := range es {
			bs = append(bs, Batch{Part: 0, Evs: []Ev{e}})
		}
		return bs
	}
	return []Replay{
		{ // the witness of C03_retry_refuted: e1 without fields is re-read after e2 (secret=x) was peeked
			Name: "stale-fields-on-retry", Chunk: 1000000,
			Init: one(Ev{1001, "m00001", ""}, Ev{1002, "m00002", ""}, Ev{1003, "m00003", "secret=x"}, Ev{1004, "m00004", ""}),
			Steps: []Step{{Kind: "same", Limit: 1, Wait: true}, {Kind: "same", Limit: 1, Wait: true}, {Kind: "retry", Limit: 1, Wait: true},
				{Kind: "same", Limit: 7, Wait: true}},
		},
		{ // retry with a WHERE filter: the fiterator keeps the peeked event
			Name: "stale-peek-on-retry-filter", Chunk: 1000000, Flt: Filter{Needle: "k"},
			Init: one(Ev{1001, "k00001", ""}, Ev{1002, "k00002", ""}, Ev{1003, "k00003", "a=b"}, Ev{1004, "k00004", ""}),
			Steps: []Step{{Kind: "same", Limit: 1, Wait: true}, {Kind: "same", Limit: 1, Wait: true}, {Kind: "retry", Limit: 2, Wait: true},
				{Kind: "same", Limit: 7, Wait: true}},
		},
		{ // retry over two partitions: the Mixer keeps its selection
			Name: "stale-peek-on-retry-mixer", Chunk: 1000000,
			Init: []Batch{{0, []Ev{{1001, "m00001", ""}, {1003, "m00003", ""}, {1005, "m00005", ""}}}, {1, []Ev{{1002, "m00002", ""}, {1004, "m00004", "a=b"}}}},
			Steps: []Step{{Kind: "same", Limit: 1, Wait: true}, {Kind: "same", Limit: 2, Wait: true}, {Kind: "retry", Limit: 2, Wait: true},
				{Kind: "same", Limit: 7, Wait: true}},
		},
		{ // api.Select with a total limit above QueryMaxLimit over more than QueryMaxLimit matching events:
			// the server clamps the first page to 10000 (and caches the cursor); the loop must go on until an empty page
			Name: "select-over-max-limit", Chunk: 6000, Bulk: 10500,
			Sel: &SelectSpec{Limit: 12000},
		},
		{ // api.Select, stream mode with a waiting (cached) cursor, appends into the last chunk between queries
			Name: "select-stream-appends", Chunk: 1000000, Flt: Filter{Range: true, Lo: 1002, Hi: 900000},
			Init: one(Ev{1001, "m00001", ""}, Ev{1002, "m00002", "a=b"}, Ev{1003, "m00003", ""}),
			Sel: &SelectSpec{Limit: 2, Stream: true, Wait: true, Apps: []SelApp{{Before: 2, Apps: []Batch{{0, []Ev{{1004, "m00004", ""}, {1005, "m00005", "c=d"}}}}},
				{Before: 3, Apps: []Batch{{0, []Ev{{1006, "m00006", ""}}}}}}},
		},
		{ // api.Select in stream mode from Pos "tail": the first page is empty, the loop has to go on with the concrete
			// position that page returned (not with "tail" again); events arrive before its 2nd, 3rd and 4th query
			Name: "select-stream-from-tail", Chunk: 1000000, Start: "tail",
			Init: one(Ev{1001, "m00001", ""}, Ev{1002, "m00002", "a=b"}, Ev{1003, "m00003", ""}),
			Sel: &SelectSpec{Limit: 2, Stream: true, Apps: []SelApp{{Before: 1, Apps: []Batch{{0, []Ev{{1004, "m00004", ""}, {1005, "m00005", "c=d"}}}}},
				{Before: 2, Apps: []Batch{{0, []Ev{{1006, "m00006", ""}}}}}, {Before: 3, Apps: []Batch{{0, []Ev{{1007, "m00007", ""}, {1008, "m00008", ""}, {1009, "m00009", ""}}}}}}},
		},
		{ // the plain chain on a 7-event/3-chunk store, every resume kind, page edges on chunk edges
			Name: "chain-all-kinds", Chunk: 60,
			Init: one(Ev{1001, "m00001", ""}, Ev{1002, "m00002", "a=b"}, Ev{1003, "m00003", ""}, Ev{1004, "m00004", "c=d"}, Ev{1005, "m00005", ""},
				Ev{1006, "m00006", ""}, Ev{1007, "m00007", "e=f"}),
			Steps: []Step{{Kind: "same", Limit: 1, Wait: true}, {Kind: "same", Limit: 2, Wait: true}, {Kind: "evict", Limit: 1, Wait: true},
				{Kind: "zero", Limit: 1, Wait: true, Rpc: true}, {Kind: "posonly", Limit: 1}, {Kind: "same", Limit: 7, Rpc: true}},
		},
	}
}

// emptyFirst: reads whose first page is empty - the request names Pos "tail", or "head"/"" with a WHERE condition no
// stored event meets yet - then events are appended and the read is resumed in each of the resume kinds, with a
// server-cached cursor (limit above QueryMaxLimit: cached without waiting) and without, over 1 and 2 partitions.
// The position the empty page returns must be a concrete one: what is appended after it has to be delivered.
func emptyFirst() []Replay {
	var out []Replay
	n := 0
	for _, start := range []string{"tail", "head", ""} {
		for _, kind := range []string{"same", "evict", "zero", "posonly"} {
			for _, cached := range []bool{false, true} {
				n++
				nparts := 1 + n%2
				rp := Replay{Name: fmt.Sprintf("empty-first-%s-%s-%v-%d", start, kind, cached, nparts), Chunk: int64([]int{60, 1000000}[(n/2)%2]), Start: start}
				marker := "m"
				if start != "tail" {
					// nothing stored matches; the appended events do
					rp.Flt = Filter{Needle: "q"}
					marker = "q"
				}
				ts := int64(1000)
				ev := func(mk string) Ev {
					ts++
					e := Ev{Ts: ts, Msg: fmt.Sprintf("%s%05d", mk, ts%100000)}
					if ts%3 == 0 {
						e.Flds = fmt.Sprintf("f=v%d", ts)
					}
					return e
				}
				for p := 0; p < nparts; p++ {
					rp.Init = append(rp.Init, Batch{Part: p, Evs: []Ev{ev("m"), ev("m")}})
				}
				apps := func(k int) []Batch {
					var bs []Batch
					for p := 0; p < nparts; p++ {
						b := Batch{Part: p}
						for i := 0; i < k; i++ {
							b.Evs = append(b.Evs, ev(marker))
						}
						bs = append(bs, b)
					}
					return bs
				}
				first := int64(3)
				if cached {
					first = 10001
				}
				rp.Steps = []Step{{Kind: "same", Limit: first, Rpc: n%3 == 0},
					{Kind: kind, Limit: 2, Apps: apps(2), Rpc: n%2 == 0},
					{Kind: "same", Limit: first, Apps: apps(1)},
					{Kind: kind, Limit: 7, Rpc: n%3 == 1}}
				out = append(out, rp)
			}
		}
	}
	return out
}

// rangeGrow: RANGE queries on a cursor the server keeps (limit above QueryMaxLimit or WaitTimeout: the cursor's chunk
// selector with its per-chunk windows survives between the pages) whose lower bound lies above everything a partition
// holds when the first page is read - the chunk is wholly outside the range then - followed by appends inside the
// range: into that same chunk (one large chunk) or into it and new chunks (small chunks), then the read is resumed in
// each resume kind. With one partition the first page is empty; with two, the second partition has an event in the
// range already, the first one has none. What is appended in range after the first page has to be delivered.
func rangeGrow() []Replay {
	var out []Replay
	n := 0
	for _, kind := range []string{"same", "evict", "zero", "posonly"} {
		for _, chunk := range []int64{1000000, 100} {
			for nparts := 1; nparts <= 2; nparts++ {
				n++
				rp := Replay{Name: fmt.Sprintf("range-grow-%s-%d-%d", kind, chunk, nparts), Chunk: chunk}
				ts := int64(1000)
				ev := func() Ev {
					ts++
					e := Ev{Ts: ts, Msg: fmt.Sprintf("m%05d", ts%100000)}
					if ts%3 == 0 {
						e.Flds = fmt.Sprintf("f=v%d", ts)
					}
					return e
				}
				for p := 0; p < nparts; p++ {
					rp.Init = append(rp.Init, Batch{Part: p, Evs: []Ev{ev(), ev()}})
				}
				// one partition: the range begins after everything stored; two: at the last stored event (of partition 1)
				lo := ts + 1
				if nparts == 2 {
					lo = ts
				}
				rp.Flt = Filter{Range: true, Lo: lo, Hi: ts + 1000000}
				apps := func(k int) []Batch {
					var bs []Batch
					for p := 0; p < nparts; p++ {
						b := Batch{Part: p}
						for i := 0; i < k; i++ {
							b.Evs = append(b.Evs, ev())
						}
						bs = append(bs, b)
					}
					return bs
				}
				rp.Steps = []Step{{Kind: "same", Limit: 10001, Rpc: n%3 == 0},
					{Kind: kind, Limit: 2, Wait: true, Apps: apps(2), Rpc: n%2 == 0},
					{Kind: "same", Limit: 1, Wait: true, Apps: apps(3)},
					{Kind: kind, Limit: 10001, Apps: apps(1), Rpc: n%3 == 1},
					{Kind: "same", Limit: 10001}}
				out = append(out, rp)
			}
		}
	}
	return out
}

// resolveStart turns rp.Start into the Pos string of the first request and its Gallina form. Besides "", head and tail
// there are positions built from the chunk layout the server chose (what a client may hold after chunks were removed,
// or a Pos it put together itself):
//
//	@mid     every partition inside its first chunk (index 1)
//	@subset  the first partition is not named, the others are at @mid; a source the store does not have is named too
//	@gap     a chunk id between the first chunk and the next one (as after a removed chunk), index 3
//	@over    the first chunk with an index beyond its records; @end: exactly its number of records; @maxidx: the last
//	         chunk with the largest index (what "tail" is made of)
//	@past    a chunk id above the last chunk
func (r *runner) resolveStart() error {
	s := r.rp.Start
	switch strings.ToLower(s) {
	case "", "head":
		r.startS, r.startG = s, "PHead"
		return nil
	case "tail":
		r.startS, r.startG = s, "PTail"
		return nil
	}
	if !strings.HasPrefix(s, "@") {
		return fmt.Errorf("unknown start %q", s)
	}
	var ss, gs []string
	for i, pr := range r.parts {
		if len(pr.layout) == 0 {
			return fmt.Errorf("partition without chunks")
		}
		c0, cl := pr.layout[0], pr.layout[len(pr.layout)-1]
		var p journal.Pos
		switch s {
		case "@mid":
			p = journal.Pos{CId: chunk.Id(c0.Id), Idx: 1}
		case "@subset":
			if i == 0 {
				continue
			}
			p = journal.Pos{CId: chunk.Id(c0.Id), Idx: 1}
		case "@gap":
			p = journal.Pos{CId: chunk.Id(c0.Id + 1), Idx: 3}
		case "@over":
			p = journal.Pos{CId: chunk.Id(c0.Id), Idx: uint32(c0.Cnt + 5)}
		case "@end":
			p = journal.Pos{CId: chunk.Id(c0.Id), Idx: uint32(c0.Cnt)}
		case "@maxidx":
			p = journal.Pos{CId: chunk.Id(cl.Id), Idx: 0xFFFFFFFF}
		case "@past":
			p = journal.Pos{CId: chunk.Id(cl.Id + 7), Idx: 0}
		default:
			return fmt.Errorf("unknown start %q", s)
		}
		ss = append(ss, pr.src+"="+p.String())
		gs = append(gs, gPos(pr.src, p))
	}
	if s == "@subset" {
		p := journal.Pos{CId: 77, Idx: 1}
		ss = append(ss, "FFFF00000000AAAA="+p.String())
		gs = append(gs, gPos("FFFF00000000AAAA", p))
	}
	r.startS, r.startG = strings.Join(ss, ":"), GApp("PList", GList(gs))
	return nil
}

// resumePaths: deterministic scripts for the ways a walk is resumed that the generated chains do not take
func resumePaths() []Replay {
	evs := func(p int, from int64, n int, marker string) Batch {
		b := Batch{Part: p}
		for i := 0; i < n; i++ {
			ts := from + int64(i)
			e := Ev{Ts: ts, Msg: fmt.Sprintf("%s%05d", marker, ts%100000)}
			if ts%3 == 0 {
				e.Flds = fmt.Sprintf("f=v%d", ts)
			}
			b.Evs = append(b.Evs, e)
		}
		return b
	}
	one := func(p int, ts int64) []Batch { return []Batch{evs(p, ts, 1, "k")} }
	var out []Replay
	// positions a client can hold that do not name a record of the store as it is, over 1-3 partitions and small chunks
	for _, start := range []string{"@mid", "@subset", "@gap", "@over", "@end", "@maxidx", "@past"} {
		for nparts := 1; nparts <= 3; nparts += 2 {
			rp := Replay{Name: fmt.Sprintf("resume-start-%s-%d", start[1:], nparts), Chunk: 100, Start: start}
			ts := int64(1001)
			for round := 0; round < 3; round++ {
				for p := 0; p < nparts; p++ {
					rp.Init = append(rp.Init, evs(p, ts, 3, "k"))
					ts += 3
				}
			}
			rp.Steps = []Step{{Kind: "same", Limit: 2, Wait: true}, {Kind: "same", Limit: 3, Wait: true, Rpc: true}, {Kind: "posonly", Limit: 2},
				{Kind: "same", Limit: 10001, Apps: one(0, ts)}, {Kind: "same", Limit: 7}}
			out = append(out, rp)
		}
	}
	// requests that cannot be served in the middle of a walk, with the walk's ReqId and without: the walk goes on
	bad := []string{"garbage", "x=zz", "a=b=c", "x=ZZZZZZZZZZZZZZZZ00000001", ":", "x=0000000000000001zzzzzzzz"}
	for i, b := range bad {
		for _, cached := range []bool{true, false} {
			rp := Replay{Name: fmt.Sprintf("resume-badpos-%d-%v", i, cached), Chunk: int64([]int{100, 1000000}[i%2])}
			if i%2 == 1 {
				rp.Flt = Filter{Needle: "k"}
			}
			nparts := 1 + i%2
			ts := int64(1001)
			for p := 0; p < nparts; p++ {
				rp.Init = append(rp.Init, evs(p, ts, 4, "k"))
				ts += 4
			}
			w := cached
			rp.Steps = []Step{{Kind: "same", Limit: 2, Wait: w}, {Kind: "same", Limit: 1, Wait: w, Pre: "badpos:" + b, Rpc: i%2 == 0},
				{Kind: "same", Limit: 2, Wait: w, Pre: "badpos0:" + b}, {Kind: "zero", Limit: 1, Wait: w, Pre: "badpos:" + b, Rpc: i%2 == 1},
				{Kind: "same", Limit: 10001}, {Kind: "same", Limit: 7}}
			out = append(out, rp)
		}
	}
	// requests with arguments out of range in the middle of a walk (negative limit, WaitTimeout below 0 and above
	// QueryMaxWaitTimeout = 60): refused, the walk goes on
	for i := 0; i < 2; i++ {
		rp := Replay{Name: fmt.Sprintf("resume-badarg-%d", i), Chunk: 1000000}
		rp.Init = []Batch{evs(0, 1001, 4, "k")}
		rp.Steps = []Step{{Kind: "same", Limit: 1, Wait: true}, {Kind: "same", Limit: 1, Wait: true, Pre: "badarg:limit-1"},
			// (backend.Querier only: the RPC encoding carries the limit as an unsigned number, -1 arrives as 4294967295)
			{Kind: "same", Limit: 1, Wait: true, Pre: "badarg:wait-1", Rpc: i == 1}, {Kind: "same", Limit: 1, Pre: "badarg:wait61", Rpc: i == 1}, {Kind: "same", Limit: 7}}
		out = append(out, rp)
	}
	// the walk's ReqId with another query text (ApplyState refuses, the answer comes from a new cursor), in the middle of a
	// cached and of an uncached walk
	for i, cached := range []bool{true, false, true, false} {
		rp := Replay{Name: fmt.Sprintf("resume-otherquery-%d", i), Chunk: int64([]int{100, 1000000}[i/2])}
		if i >= 2 {
			rp.Flt = Filter{Needle: "k"}
		}
		nparts := 1 + i%2
		ts := int64(1001)
		for p := 0; p < nparts; p++ {
			rp.Init = append(rp.Init, evs(p, ts, 2, "k"), evs(p, ts+2, 2, "z"))
			ts += 4
		}
		w := cached
		rp.Steps = []Step{{Kind: "same", Limit: 2, Wait: w}, {Kind: "same", Limit: 1, Wait: w, Pre: "otherquery", Rpc: i%2 == 0},
			{Kind: "same", Limit: 1, Wait: w, Apps: one(0, ts)}, {Kind: "evict", Limit: 1, Wait: w, Pre: "otherquery"},
			{Kind: "zero", Limit: 10001, Pre: "otherquery", Rpc: true}, {Kind: "same", Limit: 7}}
		out = append(out, rp)
	}
	// a query over no partition (nothing to read from yet): an empty page, and the client is told to go on with that query;
	// with a WaitTimeout it comes back when the time is over; after the script the partition of such a query is created
	// and the chained request has to deliver it
	for i, pos := range []string{"", "tail"} {
		rp := Replay{Name: fmt.Sprintf("resume-nosource-%d", i), Chunk: 1000000, Post: []string{"late-partition", "late-partition:rpc"}[i]}
		rp.Init = []Batch{evs(0, 1001, 3, "k")}
		rp.Steps = []Step{{Kind: "same", Limit: 1, Wait: true}, {Kind: "same", Limit: 1, Wait: true, Pre: "nosource:" + pos, Rpc: i == 1},
			{Kind: "same", Limit: 1, Wait: true, Pre: "nosourcewait:" + pos, Rpc: i == 0}, {Kind: "same", Limit: 7}}
		out = append(out, rp)
	}
	// pages of limit 0 in the middle of a walk (the position is settled, nothing is delivered)
	for i := 0; i < 4; i++ {
		rp := Replay{Name: fmt.Sprintf("resume-limit0-%d", i), Chunk: int64([]int{100, 1000000}[i%2])}
		if i >= 2 {
			rp.Flt = Filter{Needle: "k"}
		}
		nparts := 1 + i%2
		ts := int64(1001)
		for p := 0; p < nparts; p++ {
			rp.Init = append(rp.Init, evs(p, ts, 2, "k"), evs(p, ts+2, 2, "z"))
			ts += 4
		}
		rp.Steps = []Step{{Kind: "same", Limit: 0, Wait: true, Rpc: i%2 == 0}, {Kind: "same", Limit: 1, Wait: true}, {Kind: "same", Limit: 0},
			{Kind: "same", Limit: 2, Wait: true, Rpc: true}, {Kind: "same", Limit: 0, Wait: true, Rpc: i%2 == 1, Apps: one(0, ts)},
			{Kind: "posonly", Limit: 0}, {Kind: "same", Limit: 10001}, {Kind: "same", Limit: 7}}
		out = append(out, rp)
	}
	// a waiting page in the middle of a walk that is woken by an append (one event: it becomes readable at once)
	for i := 0; i < 6; i++ {
		rp := Replay{Name: fmt.Sprintf("resume-woken-%d", i), Chunk: int64([]int{100, 1000000, 100}[i%3])}
		switch i % 3 {
		case 1:
			rp.Flt = Filter{Needle: "k"}
		case 2:
			rp.Flt = Filter{Range: true, Lo: 1002, Hi: 2000000}
		}
		nparts := 1 + i%2
		ts := int64(1001)
		for p := 0; p < nparts; p++ {
			rp.Init = append(rp.Init, evs(p, ts, 3, "k"))
			ts += 3
		}
		rp.Steps = []Step{{Kind: "same", Limit: 10001, Wait: true}, {Kind: "same", Limit: 3, Wake: true, Wait: true, Apps: one(0, ts)},
			{Kind: "same", Limit: 1, Wake: true, Wait: true, Apps: one(nparts-1, ts+1)},
			{Kind: "evict", Limit: 2, Wake: true, Wait: true, Apps: one(0, ts+2)},
			{Kind: "same", Limit: 10001, Apps: []Batch{evs(nparts-1, ts+3, 2, "k")}}, {Kind: "same", Limit: 7}}
		out = append(out, rp)
	}
	return out
}

// eofWindow: RANGE walks (partition.JIterator) whose page runs into the end of a partition while a writer's flush lands
// between the chunk iterator's io.EOF and the chunk selector's look at the chunk (window.go): the page returns the position
// of the first record it did not read, the following pages - in every resume kind, on a kept cursor or a new one - deliver
// the flushed events, each once
func eofWindow() []Replay {
	var out []Replay
	n := 0
	for _, kind := range []string{"same", "evict", "zero", "posonly"} {
		for _, cached := range []bool{true, false} {
			for nparts := 1; nparts <= 2; nparts++ {
				n++
				rp := Replay{Name: fmt.Sprintf("eof-window-%s-%v-%d", kind, cached, nparts), Chunk: 1000000}
				ts := int64(1000)
				ev := func() Ev {
					ts++
					e := Ev{Ts: ts, Msg: fmt.Sprintf("m%05d", ts%100000)}
					if ts%3 == 0 {
						e.Flds = fmt.Sprintf("f=v%d", ts)
					}
					return e
				}
				for p := 0; p < nparts; p++ {
					rp.Init = append(rp.Init, Batch{Part: p, Evs: []Ev{ev(), ev(), ev(), ev()}})
				}
				rp.Flt = Filter{Range: true, Lo: int64([]int{0, 1002}[n%2]), Hi: ts + 1000000}
				app := func(p, k int) []Batch {
					b := Batch{Part: p}
					for i := 0; i < k; i++ {
						b.Evs = append(b.Evs, ev())
					}
					return []Batch{b}
				}
				big := int64(100)
				if cached {
					big = 10001
				}
				rp.Steps = []Step{{Kind: "same", Limit: 2, Wait: cached},
					{Kind: "same", Limit: big, Wait: cached, Win: true, Apps: app(nparts-1, 3)},
					{Kind: kind, Limit: 2, Wait: cached, Apps: app(0, 3)},
					{Kind: "same", Limit: big, Wait: cached, Win: true, Apps: app(0, 2)},
					{Kind: kind, Limit: 1, Wait: cached}, {Kind: "same", Limit: 10001}, {Kind: "same", Limit: 7}}
				out = append(out, rp)
			}
		}
	}
	// the other window: a page that STARTS at the end of the data (a cursor rebuilt from the Pos, or the kept one); the
	// flush lands right after the chunk selector has read the chunk's count for its status - the count it decides
	// "nothing left" by: the position it answers with is that count, the flushed events are for the following pages
	for i, kind := range []string{"posonly", "same", "evict", "zero"} {
		cached := i%2 == 1
		nparts := 1 + i%2
		rp := Replay{Name: fmt.Sprintf("eof-window-count-%s-%d", kind, nparts), Chunk: 1000000}
		ts := int64(1000)
		ev := func() Ev {
			ts++
			return Ev{Ts: ts, Msg: fmt.Sprintf("m%05d", ts%100000)}
		}
		for p := 0; p < nparts; p++ {
			rp.Init = append(rp.Init, Batch{Part: p, Evs: []Ev{ev(), ev(), ev()}})
		}
		rp.Flt = Filter{Range: true, Lo: 0, Hi: ts + 1000000}
		app := func(p, k int) []Batch {
			b := Batch{Part: p}
			for n := 0; n < k; n++ {
				b.Evs = append(b.Evs, ev())
			}
			return []Batch{b}
		}
		big := int64(100)
		if cached {
			big = 10001
		}
		rp.Steps = []Step{{Kind: "same", Limit: big},
			{Kind: kind, Limit: big, Win: true, WinKind: "count", Apps: app(0, 3)},
			{Kind: kind, Limit: 2}, {Kind: "same", Limit: big, Win: true, WinKind: "count", Apps: app(nparts-1, 2)},
			{Kind: "same", Limit: big}, {Kind: kind, Limit: 7}}
		out = append(out, rp)
	}
	// small chunks: the flush in the window goes into a new chunk (the page reads it at once), or - two writes, the first
	// fits into the reader's chunk, the second does not - extends the chunk AND starts a new one
	for i, ch := range []int64{150, 200} {
		rp := Replay{Name: fmt.Sprintf("eof-window-rollover-%d", i), Chunk: ch, Flt: Filter{Range: true, Lo: 0, Hi: 2001004}}
		mk := func(from, n int) []Ev {
			var es []Ev
			for k := 0; k < n; k++ {
				ts := int64(from + k)
				es = append(es, Ev{Ts: ts, Msg: fmt.Sprintf("m%05d", ts%100000)})
			}
			return es
		}
		rp.Init = []Batch{{Part: 0, Evs: mk(1001, 4)}}
		rp.Steps = []Step{{Kind: "same", Limit: 2, Wait: true},
			{Kind: "same", Limit: 10001, Wait: true, Win: true, Apps: []Batch{{Part: 0, Evs: mk(1005, 1)}, {Part: 0, Evs: mk(1006, 6)}}},
			{Kind: "same", Limit: 10001}, {Kind: "same", Limit: 7}}
		out = append(out, rp)
	}
	return out
}

// pickInt64 picks one of the values
func pickInt64(g *Rng, vs ...int64) int64 { return vs[g.Intn(len(vs))] }
