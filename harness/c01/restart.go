package main

import (
	"context"
	"fmt"
	"io"
	"os"
	"sort"

	"github.com/logrange/logrange/api"
	"github.com/logrange/logrange/pkg/model"
	"github.com/logrange/logrange/pkg/model/field"
	. "verifharness/common"
)

// ---------------------------------------------------------------- clean stop and start
//
// runRestart: a history in segments (requests of kind "restart" separate them). Every segment runs on a server over the
// same directory whose write buffers are flushed once a minute only (WriteFlushMs = 60000): when the segment's last write
// is acknowledged the tail of every partition it wrote to is still in the chunk writers' buffers. The server is then
// stopped the regular way (context cancelled, Shutdown of every component) and started again; after the last segment
// it is stopped and started once more and every partition is read back through both queriers. C01: an acknowledged
// write is read back intact, once, in write order - also after a clean stop and start
// (acknowledged-lost-after-clean-restart). K: the same segments through run_segs / restart (C01_restart).
func runRestart(rp E2EReplay) (*e2eOut, error) {
	dir := TempDir("c01-restart")
	defer os.RemoveAll(dir)
	ctx := context.Background()
	out := &e2eOut{}
	fail := func(class, detail string) {
		if out.viol == nil {
			out.viol = &Violation{Class: class, Detail: detail}
		}
	}
	var srv *Server
	start := func(flushMs int) error {
		s, err := StartServer(ServerOpts{Dir: dir, MaxChunkSize: rp.MaxChunk, MaxRecordSize: rp.MaxRec, WriteFlushMs: flushMs})
		if err != nil {
			return fmt.Errorf("server start: %v", err)
		}
		tuneFds(s)
		srv = s
		return nil
	}
	if err := start(60000); err != nil {
		return nil, err
	}
	defer func() { srv.Stop() }()
	ftab, ntab, kvtab := newTab(), newTab(), newTab()
	expected := map[string][]expEv{}
	var keys []string
	var acks []string
	segs := [][]string{nil}
	restarts, tails := 0, 0
	dirty := map[string]bool{} // partitions written to since the last start
	for i, rq := range rp.Reqs {
		if rq.Kind == "restart" {
			if len(dirty) > tails {
				tails = len(dirty)
			}
			srv.Stop()
			if err := start(60000); err != nil {
				return nil, err
			}
			restarts++
			dirty = map[string]bool{}
			segs = append(segs, nil)
			continue
		}
		key, kok := normTags(rq.Tags)
		ntab.add(rq.Tags, []byte(key), kok)
		if !kok {
			return nil, fmt.Errorf("restart case with bad tags %q", rq.Tags)
		}
		if _, ok := expected[key]; !ok {
			expected[key] = nil
			keys = append(keys, key)
		}
		dirty[key] = true
		switch rq.Kind {
		case "rpc":
			var res api.WriteResult
			if err := srv.Client.Write(ctx, rq.Tags, rq.Flds, toApis(rq.Aes), &res); err != nil {
				return nil, fmt.Errorf("rpc write: %v", err)
			}
			acks = append(acks, GBool(res.Err == nil))
			segs[len(segs)-1] = append(segs[len(segs)-1], GApp("RpcW", fmt.Sprintf("{| w_tags := %s; w_flds := %s; w_evs := %s |}", GStr(rq.Tags), GStr(rq.Flds), gAEs(rq.Aes))))
			addFparse(ftab, rq.Flds)
			wf, ferr := writeFields(rq.Flds, fail)
			if ferr != nil {
				return nil, fmt.Errorf("restart case with write-level fields that do not parse: %q", rq.Flds)
			}
			if res.Err != nil {
				fail("ack-mismatch", fmt.Sprintf("request %d: rejected: %v", i, res.Err))
				continue
			}
			for _, e := range rq.Aes {
				addFparse(ftab, e.Flds)
				expected[key] = append(expected[key], expEv{e.Ts, e.Msg, append(append([]byte{}, wf...), eventFields(e.Flds, fail)...), 0})
			}
		case "dir":
			evs := make([]model.LogEvent, len(rq.Les))
			for k, e := range rq.Les {
				evs[k] = toModel(e)
			}
			err := srv.Partitions.Write(ctx, rq.Tags, &sliceIt{evs: evs}, true)
			acks = append(acks, GBool(err == nil))
			segs[len(segs)-1] = append(segs[len(segs)-1], GApp("DirW", GStr(rq.Tags), gLEs(rq.Les)))
			if err != nil {
				fail("ack-mismatch", fmt.Sprintf("request %d (direct): rejected: %v", i, err))
				continue
			}
			for _, e := range rq.Les {
				expected[key] = append(expected[key], expEv{e.Ts, e.Msg, e.Flds, 0})
			}
		default:
			return nil, fmt.Errorf("restart case with a %s request", rq.Kind)
		}
	}
	if len(dirty) > tails {
		tails = len(dirty)
	}
	// the stop and start before the reads
	srv.Stop()
	if err := start(5); err != nil {
		return nil, err
	}
	restarts++
	sort.Strings(keys)
	var reads []string
	for _, key := range keys {
		exp := expected[key]
		q := "SELECT FROM {" + key + "} LIMIT 10000"
		var qres api.QueryResult
		if err := srv.Client.Query(ctx, &api.QueryRequest{Query: q, Limit: 10000}, &qres); err != nil {
			return nil, fmt.Errorf("rpc query: %v", err)
		}
		bres, berr := srv.Querier.Query(ctx, &api.QueryRequest{Query: q, Limit: 10000})
		if berr == io.EOF {
			berr = nil
		}
		for _, e := range exp {
			kvtab.add(string(e.flds), []byte(field.Fields(string(e.flds)).AsKVString()), true)
		}
		if qres.Err != nil {
			reads = append(reads, GPair(GStr(key), gErr))
			if len(exp) > 0 {
				fail("acknowledged-lost-after-clean-restart", fmt.Sprintf("partition %s: %d events acknowledged before the stop, the read after the start fails: %v", key, len(exp), qres.Err))
			}
			continue
		}
		var got []RV
		for _, e := range qres.Events {
			got = append(got, RV{e.Timestamp, []byte(e.Message), e.Tags, e.Fields})
		}
		reads = append(reads, GPair(GStr(key), gOk(gRVs(got))))
		if berr != nil || len(bres.Events) != len(got) {
			fail("rpc-vs-backend", fmt.Sprintf("partition %s after the restart: rpc %d events, backend err=%v", key, len(got), berr))
		}
		switch {
		case len(got) < len(exp):
			fail("acknowledged-lost-after-clean-restart", fmt.Sprintf("partition %s: %d events acknowledged, %d read back after %d clean stop(s) and start(s) (the missing ones are the tail that was in the write buffer at the stop)", key, len(exp), len(got), restarts))
		case len(got) > len(exp):
			fail("readback-events-extra", fmt.Sprintf("partition %s: %d events acknowledged, %d read back after the restart", key, len(exp), len(got)))
		default:
			for i, e := range exp {
				g := got[i]
				if g.Ts != e.ts || string(g.Msg) != string(e.msg) || g.Tags != key || g.Flds != field.Fields(string(e.flds)).AsKVString() {
					fail("readback-after-restart-differs", fmt.Sprintf("partition %s event %d: read (%d, %q, %q), written (%d, %q, %q)", key, i, g.Ts, g.Msg, g.Flds, e.ts, e.msg, field.Fields(string(e.flds)).AsKVString()))
					break
				}
			}
		}
	}
	var segTerms []string
	for _, sg := range segs {
		segTerms = append(segTerms, GList(sg))
	}
	out.coq = GApp("KRestart", gCfg(rp.MaxChunk, rp.MaxRec), ftab.gallina(), ntab.gallina(), kvtab.gallinaKV(), GList(segTerms), GList(acks), GList(reads))
	out.nontriv = tails >= 2
	out.tags = append(out.tags, fmt.Sprintf("restart:stops=%d", restarts), fmt.Sprintf("restart:partitions-with-buffered-tail=%d", tails), fmt.Sprintf("restart:maxchunk=%d", rp.MaxChunk))
	return out, nil
}
