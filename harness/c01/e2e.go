package main

import (
	"context"
	"fmt"
	"github.com/logrange/range/pkg/records/chunk/chunkfs"
	"io"
	"io/ioutil"
	"sort"
	"strings"
	"sync"
	"syscall"
	"time"

	"github.com/logrange/logrange/api"
	"github.com/logrange/logrange/api/rpc"
	"github.com/logrange/logrange/pkg/model"
	"github.com/logrange/logrange/pkg/model/field"
	"github.com/logrange/logrange/pkg/model/tag"
	"github.com/logrange/range/pkg/records"
	"github.com/logrange/range/pkg/utils/encoding/xbinary"
	. "verifharness/common"
)

// ---------------------------------------------------------------- end-to-end cases

type Req struct {
	Kind string `json:"kind"` // rpc | dir | raw
	Tags string `json:"tags,omitempty"`
	Flds string `json:"flds,omitempty"` // write-level fields (kv text), rpc only
	Aes  []AE   `json:"aes,omitempty"`  // rpc
	Les  []LE   `json:"les,omitempty"`  // dir
	Body []byte `json:"body,omitempty"` // raw
}

type E2EReplay struct {
	Kind     string `json:"kind"` // e2e | conc
	MaxChunk int64  `json:"max_chunk"`
	MaxRec   int64  `json:"max_rec"`
	Reqs     []Req  `json:"reqs,omitempty"`
	// conc: one partition, one batch per writer
	Batches [][]LE `json:"batches,omitempty"`
	Note    string `json:"note,omitempty"`
	// pos: the partition service runs without the journal controller's configuration (no limit on the write path)
	NoLimit bool `json:"no_limit,omitempty"`
	// tail: also the request validation of both queriers, a wait that expires, requests after the server stopped
	Extras bool `json:"extras,omitempty"`
}

// the MaxRecordSize the readers work with: 0 in the configuration means the dependency's default
func effRec(maxRec int64) int64 {
	if maxRec <= 0 {
		return chunkfs.ChnkMaxRecordSize
	}
	return maxRec
}

const flushDeadline = 20 * time.Second

// fdPressure: more than 70 % of the process's file descriptor limit is in use. Stopped servers leak the
// descriptors of their chunk reader pools (the journal controller has no Shutdown); when the limit of the
// environment is low, writes start failing for that reason and not because of the code under test: such a run is an
// infrastructure error, never a verdict.
func fdPressure() (bool, string) {
	var rl syscall.Rlimit
	if syscall.Getrlimit(syscall.RLIMIT_NOFILE, &rl) != nil {
		return false, ""
	}
	ents, err := ioutil.ReadDir("/proc/self/fd")
	if err != nil {
		return false, ""
	}
	if uint64(len(ents))*10 > rl.Cur*7 {
		return true, fmt.Sprintf("%d of %d file descriptors in use", len(ents), rl.Cur)
	}
	return false, ""
}

// tuneFds: the chunk configuration is read when a journal is created (first write), so it can still be adjusted
// here: idle chunk writers give their file descriptors back after 1 s instead of 30 s, and the reader pool is
// small. With MaxChunkSize of a few dozen bytes a case makes dozens of chunks; nothing here changes what is
// written or read.
func tuneFds(srv *Server) {
	srv.Cfg.JrnlCtrlConfig.WriteIdleSec = 1
}

// model.Iterator over a slice of LogEvents (what a direct caller of partition.Service.Write passes)
type sliceIt struct {
	evs []model.LogEvent
	i   int
}

func (s *sliceIt) Next(ctx context.Context) {
	if s.i < len(s.evs) {
		s.i++
	}
}
func (s *sliceIt) Get(ctx context.Context) (model.LogEvent, tag.Line, error) {
	if s.i >= len(s.evs) {
		return model.LogEvent{}, tag.EmptyLine, io.EOF
	}
	return s.evs[s.i], tag.EmptyLine, nil
}
func (s *sliceIt) Release()                        {}
func (s *sliceIt) SetBackward(bool)                { panic("not supported") }
func (s *sliceIt) CurrentPos() records.IteratorPos { return s.i }

// canonical tag line of a tags text, as tindex.GetOrCreateJournal identifies the partition
func normTags(t string) (string, bool) {
	ts, err := tag.Parse(t)
	if err != nil || ts.IsEmpty() {
		return "", false
	}
	return string(ts.Line()), true
}

// expected (by the property, computed by the harness with the real field functions) stored event
type expEv struct {
	ts   int64
	msg  []byte
	flds []byte // binary
	opt  int    // > 0: event of a REJECTED write (segment id): a prefix of such a write may be stored, nothing of it has to be
}

// resolve decides for the events of rejected writes whether they are there: a rejected write may have stored a
// prefix of its events (in order, each at most once) before it failed
func resolve(exp []expEv, got []RV) []expEv {
	var res []expEv
	gi := 0
	dropped := 0
	for _, e := range exp {
		if e.opt == 0 {
			res = append(res, e)
			gi++
			continue
		}
		if e.opt != dropped && gi < len(got) && got[gi].Ts == e.ts && string(got[gi].Msg) == string(e.msg) {
			res = append(res, e)
			gi++
			continue
		}
		dropped = e.opt
	}
	return res
}

func mandatory(exp []expEv) int {
	n := 0
	for _, e := range exp {
		if e.opt == 0 {
			n++
		}
	}
	return n
}

// plainKV is the harness's own reading of a field text whose meaning is beyond doubt: name=value pairs, separated by
// commas, of plain characters (no blanks, quotes, braces, separators), names not empty. The stored form is every piece
// behind a one-byte length prefix, so a piece of more than 255 bytes cannot be stored (tooLong).
func plainKV(kv string) (bin []byte, tooLong, plain bool) {
	if kv == "" {
		return nil, false, true
	}
	for _, pair := range strings.Split(kv, ",") {
		nv := strings.Split(pair, "=")
		if len(nv) != 2 || len(nv[0]) == 0 {
			return nil, false, false
		}
		for _, piece := range nv {
			for i := 0; i < len(piece); i++ {
				c := piece[i]
				if !(c >= 'a' && c <= 'z' || c >= 'A' && c <= 'Z' || c >= '0' && c <= '9' || c == '_' || c == '.' || c == '-' || c == '@' || c == '>') {
					return nil, false, false
				}
			}
			if len(piece) > 255 {
				tooLong = true
			}
			bin = append(bin, byte(len(piece)))
			bin = append(bin, piece...)
		}
	}
	if tooLong {
		return nil, true, true
	}
	return bin, false, true
}

var errPieceTooLong = fmt.Errorf("a field name or value of more than 255 bytes cannot be stored")

func longestPiece(kv string) int {
	m := 0
	for _, pair := range strings.Split(kv, ",") {
		for _, piece := range strings.Split(pair, "=") {
			if len(piece) > m {
				m = len(piece)
			}
		}
	}
	return m
}

// writeFields: the binary write-level fields of a request and whether the text is accepted, by the real constructor;
// for plain texts by the harness's own reading, and the constructor is held against it (oracle class
// plain-fields-misparsed: e.g. a piece that does not fit the one-byte length prefix accepted and stored mis-framed)
func writeFields(kv string, complain func(class, detail string)) ([]byte, error) {
	f, err := field.NewFieldsFromKVString(kv)
	ref, long, plain := plainKV(kv)
	if !plain {
		if err != nil {
			return nil, err
		}
		return []byte(f), nil
	}
	if long {
		if err == nil {
			complain("plain-fields-misparsed", fmt.Sprintf("NewFieldsFromKVString accepted a field text with a name or value of %d bytes (the length prefix is one byte) and made the %d bytes list %x... of it", longestPiece(kv), len(f), []byte(f)[:min(len(f), 24)]))
		}
		return nil, errPieceTooLong
	}
	if err != nil || string(f) != string(ref) {
		complain("plain-fields-misparsed", fmt.Sprintf("NewFieldsFromKVString(%q) = %x, %v; the pairs are %x", kv, []byte(f), err, ref))
	}
	return ref, nil
}

// eventFields: field.Parse of an event's own field text (a text that does not parse gives no fields), held against the
// harness's own reading for plain texts
func eventFields(kv string, complain func(class, detail string)) []byte {
	f := []byte(field.Parse(kv))
	ref, _, plain := plainKV(kv)
	if !plain {
		return f
	}
	if string(f) != string(ref) {
		complain("plain-fields-misparsed", fmt.Sprintf("field.Parse of an event's fields with a longest piece of %d bytes = %d bytes %x...; the harness reads %d bytes (nothing when a piece exceeds 255 bytes)", longestPiece(kv), len(f), f[:min(len(f), 24)], len(ref)))
	}
	return ref
}

// decodable prefix of a raw body: (tags, write-level fields text, declared count, events)
func decodeBody(body []byte) (tags, flds string, declared int, evs []AE, ok bool) {
	guarded(func() {
		idx, t, err := xbinary.UnmarshalString(body, true)
		if err != nil {
			return
		}
		n, f, err := xbinary.UnmarshalString(body[idx:], true)
		if err != nil {
			return
		}
		idx += n
		n, ln, err := xbinary.UnmarshalUint32(body[idx:])
		if err != nil {
			return
		}
		idx += n
		tags, flds, declared, ok = t, f, int(ln), true
		for i := 0; i < int(ln) && i <= len(body); i++ {
			le, m, err := rpc.VC01UnmarshalLogEvent(body[idx:], true)
			if err != nil {
				return
			}
			idx += m
			evs = append(evs, fromApi(&le))
		}
	})
	return
}

type e2eOut struct {
	coq      string
	viol     *Violation
	nontriv  bool
	tags     []string
	maxChunk int
}

func runE2E(rp E2EReplay) (*e2eOut, error) {
	srv, err := StartServer(ServerOpts{MaxChunkSize: rp.MaxChunk, MaxRecordSize: rp.MaxRec, WriteFlushMs: 5})
	if err != nil {
		return nil, fmt.Errorf("server start: %v", err)
	}
	defer srv.Stop()
	tuneFds(srv)
	ctx := context.Background()
	out := &e2eOut{}
	pressure := ""
	fail := func(class, detail string) {
		if p, how := fdPressure(); p && pressure == "" {
			pressure = how
		}
		if out.viol == nil {
			out.viol = &Violation{Class: class, Detail: detail}
		}
	}
	ftab, ntab, kvtab := newTab(), newTab(), newTab()
	expected := map[string][]expEv{} // by canonical line: what the property says the partition holds
	var keys []string
	addKey := func(k string) {
		if _, ok := expected[k]; !ok {
			expected[k] = nil
			keys = append(keys, k)
		}
	}
	var acks []string
	var coqReqs []string
	oversize := map[string]bool{}
	bothLevels, truncPkt, longField := false, false, false

	for i, rq := range rp.Reqs {
		switch rq.Kind {
		case "rpc":
			var res api.WriteResult
			if err := srv.Client.Write(ctx, rq.Tags, rq.Flds, toApis(rq.Aes), &res); err != nil {
				return nil, fmt.Errorf("rpc write: %v", err)
			}
			ack := res.Err == nil
			acks = append(acks, GBool(ack))
			coqReqs = append(coqReqs, GApp("RpcW", fmt.Sprintf("{| w_tags := %s; w_flds := %s; w_evs := %s |}", GStr(rq.Tags), GStr(rq.Flds), gAEs(rq.Aes))))
			key, kok := normTags(rq.Tags)
			ntab.add(rq.Tags, []byte(key), kok)
			addFparse(ftab, rq.Flds)
			wf, ferr := writeFields(rq.Flds, fail)
			for _, e := range rq.Aes {
				addFparse(ftab, e.Flds)
			}
			if longestPiece(rq.Flds) >= 250 {
				longField = true
			}
			// the property: a write the server cannot serve back must be rejected, not acknowledged
			var bins [][]byte
			firstBig := -1
			for k, e := range rq.Aes {
				ef := eventFields(e.Flds, fail)
				if len(wf) > 0 && len(ef) > 0 {
					bothLevels = true
				}
				if longestPiece(e.Flds) >= 250 {
					longField = true
				}
				bin := append(append([]byte{}, wf...), ef...)
				bins = append(bins, bin)
				if firstBig < 0 && int64(recordSize(e.Msg, bin)) > rp.MaxRec {
					firstBig = k
				}
			}
			should := kok && ferr == nil && firstBig < 0
			switch {
			case ack && kok && ferr == nil && firstBig >= 0:
				oversize[key] = true // reported when the read fails (class oversize-record-acknowledged-unreadable)
			case ack != should:
				fail("ack-mismatch", fmt.Sprintf("request %d: acknowledged=%v, expected %v (tags ok=%v, fields err=%v, oversize record=%v, server err=%v)", i, ack, should, kok, ferr, firstBig >= 0, res.Err))
			}
			if kok && ferr == nil {
				addKey(key)
				seg := 0
				n := len(rq.Aes)
				if !ack {
					seg, n = i+1, firstBig
					if n < 0 {
						n = 0
					}
				}
				for k := 0; k < n; k++ {
					expected[key] = append(expected[key], expEv{rq.Aes[k].Ts, rq.Aes[k].Msg, bins[k], seg})
				}
			}
		case "dir":
			evs := make([]model.LogEvent, len(rq.Les))
			for k, e := range rq.Les {
				evs[k] = toModel(e)
			}
			err := srv.Partitions.Write(ctx, rq.Tags, &sliceIt{evs: evs}, true)
			ack := err == nil
			acks = append(acks, GBool(ack))
			coqReqs = append(coqReqs, GApp("DirW", GStr(rq.Tags), gLEs(rq.Les)))
			key, kok := normTags(rq.Tags)
			ntab.add(rq.Tags, []byte(key), kok)
			firstBig := -1
			for k, e := range rq.Les {
				if firstBig < 0 && int64(recordSize(e.Msg, e.Flds)) > rp.MaxRec {
					firstBig = k
				}
			}
			should := kok && firstBig < 0
			switch {
			case ack && kok && firstBig >= 0:
				oversize[key] = true
			case ack != should:
				fail("ack-mismatch", fmt.Sprintf("request %d (direct): acknowledged=%v, expected %v (tags ok=%v, oversize record=%v, err=%v)", i, ack, should, kok, firstBig >= 0, err))
			}
			if kok {
				addKey(key)
				seg := 0
				n := len(rq.Les)
				if !ack {
					seg, n = i+1, firstBig
					if n < 0 {
						n = 0
					}
				}
				for k := 0; k < n; k++ {
					e := rq.Les[k]
					expected[key] = append(expected[key], expEv{e.Ts, e.Msg, e.Flds, seg})
				}
			}
		case "raw":
			var err error
			p := guarded(func() { err = rpc.VC01Ingest(ctx, srv.Partitions, rq.Body) })
			if p {
				// a panic inside the decoders is C13's subject; the history ends here for the model too
				return nil, fmt.Errorf("raw body panicked the ingestor (generator must avoid these): %x", rq.Body)
			}
			ack := err == nil
			acks = append(acks, GBool(ack))
			coqReqs = append(coqReqs, GApp("RawW", GBytes(rq.Body)))
			t, f, declared, evs, ok := decodeBody(rq.Body)
			if ok {
				key, kok := normTags(t)
				ntab.add(t, []byte(key), kok)
				addFparse(ftab, f)
				for _, e := range evs {
					addFparse(ftab, e.Flds)
				}
				wf, ferr := writeFields(f, fail)
				if kok && ferr == nil {
					addKey(key)
					seg, n := 0, len(evs)
					var bins [][]byte
					firstBig := -1
					for k, e := range evs {
						bin := append(append([]byte{}, wf...), eventFields(e.Flds, fail)...)
						bins = append(bins, bin)
						if firstBig < 0 && int64(recordSize(e.Msg, bin)) > rp.MaxRec {
							firstBig = k
						}
					}
					if ack && firstBig >= 0 {
						oversize[key] = true
					}
					if !ack && firstBig < 0 && declared <= len(evs) {
						fail("ack-mismatch", fmt.Sprintf("request %d (raw): a complete packet with accepted tags and fields and no oversize record was rejected: %v", i, err))
					}
					if !ack {
						// rejected: a prefix may have been stored (the write path is streaming): the events before the
						// record that cannot be served back, or the events a truncated packet does carry
						seg, n = i+1, firstBig
						if n < 0 {
							n = 0
							if declared > len(evs) {
								n = len(evs)
							}
						}
					}
					for k := 0; k < n; k++ {
						expected[key] = append(expected[key], expEv{evs[k].Ts, evs[k].Msg, bins[k], seg})
					}
				}
				if ack && (!kok || ferr != nil) {
					fail("ack-mismatch", fmt.Sprintf("request %d (raw): acknowledged although tags ok=%v, fields err=%v", i, kok, ferr))
				}
				if declared > len(evs) {
					truncPkt = true
				}
				if ack && kok && declared > len(evs) {
					fail("truncated-packet-acknowledged", fmt.Sprintf("request %d: the packet declares %d events, %d decode; the write was acknowledged", i, declared, len(evs)))
				}
			} else if ack {
				fail("undecodable-packet-acknowledged", fmt.Sprintf("request %d", i))
			}
		default:
			return nil, fmt.Errorf("unknown request kind %q", rq.Kind)
		}
	}

	// wait until everything acknowledged is flushed (the confirmed record count of the partition reaches
	// the number of acknowledged records), then read back
	sort.Strings(keys)
	var reads, chunks []string
	multiChunk := false
	perPart := map[string][]RV{}
	for _, key := range keys {
		want := mandatory(expected[key])
		var info struct {
			recs   uint64
			chunks []uint32
			jid    string
		}
		look := func() bool {
			pi, err := srv.Partitions.GetParitionInfo(key)
			if err != nil {
				return false
			}
			info.recs = pi.Records
			info.jid = pi.JournalId
			info.chunks = info.chunks[:0]
			for _, c := range pi.Chunks {
				info.chunks = append(info.chunks, c.Records)
			}
			return pi.Records >= uint64(want)
		}
		okFlush := WaitFor(flushDeadline, look)
		if !okFlush {
			fail("acknowledged-not-readable", fmt.Sprintf("partition %s: %d records acknowledged, %d confirmed after %s", key, want, info.recs, flushDeadline))
		}
		// records of REJECTED writes may still sit in the write buffer (nobody has to wait for them): flush them
		// explicitly so that the read below and the chunk counts see a settled partition
		if info.jid != "" {
			if _, j, err := srv.Partitions.GetJournal(ctx, info.jid); err == nil {
				j.Sync()
				srv.Partitions.Release(info.jid)
				look()
			}
		}
		var cs []string
		nz := 0
		for _, c := range info.chunks {
			if c > 0 {
				cs = append(cs, GN(uint64(c)))
				nz++
			}
		}
		if nz >= 2 {
			multiChunk = true
		}
		if nz > out.maxChunk {
			out.maxChunk = nz
		}
		chunks = append(chunks, GPair(GStr(key), GList(cs)))

		// read back: RPC and in-process backend
		q := "SELECT FROM {" + key + "} LIMIT 10000"
		var qres api.QueryResult
		if err := srv.Client.Query(ctx, &api.QueryRequest{Query: q, Limit: 10000}, &qres); err != nil {
			return nil, fmt.Errorf("rpc query: %v", err)
		}
		bres, berr := srv.Querier.Query(ctx, &api.QueryRequest{Query: q, Limit: 10000})
		if berr == io.EOF {
			berr = nil // the backend querier hands the end of the stream through
		}
		if (qres.Err == nil) != (berr == nil) {
			fail("rpc-vs-backend", fmt.Sprintf("partition %s: rpc err=%v backend err=%v", key, qres.Err, berr))
		}
		if qres.Err != nil {
			reads = append(reads, GPair(GStr(key), gErr))
			if oversize[key] && strings.Contains(qres.Err.Error(), "Too small buffer for read") {
				fail("oversize-record-acknowledged-unreadable", fmt.Sprintf("partition %s: a record larger than MaxRecordSize=%d was acknowledged; reading the partition fails: %v", key, rp.MaxRec, qres.Err))
			} else {
				fail("read-failed", fmt.Sprintf("partition %s: %v", key, qres.Err))
			}
			continue
		}
		var got []RV
		for _, e := range qres.Events {
			got = append(got, RV{e.Timestamp, []byte(e.Message), e.Tags, e.Fields})
		}
		reads = append(reads, GPair(GStr(key), gOk(gRVs(got))))
		perPart[key] = got
		if berr == nil {
			if len(bres.Events) != len(got) {
				fail("rpc-vs-backend", fmt.Sprintf("partition %s: %d vs %d events", key, len(got), len(bres.Events)))
			} else {
				for i, e := range bres.Events {
					if e.Timestamp != got[i].Ts || e.Message != string(got[i].Msg) || e.Tags != got[i].Tags || e.Fields != got[i].Flds {
						fail("rpc-vs-backend", fmt.Sprintf("partition %s event %d", key, i))
						break
					}
				}
			}
		}
		// oracle: read-back == acknowledged events (order, multiplicity, content)
		exp := resolve(expected[key], got)
		for _, e := range exp {
			kvtab.add(string(e.flds), []byte(field.Fields(string(e.flds)).AsKVString()), true)
		}
		if len(got) != len(exp) {
			fail(classifyCount(got, exp), fmt.Sprintf("partition %s: %d events acknowledged, %d read back", key, len(exp), len(got)))
		} else {
			for i, e := range exp {
				g := got[i]
				switch {
				case g.Ts != e.ts:
					fail("readback-timestamp", fmt.Sprintf("partition %s event %d: ts %d, written %d", key, i, g.Ts, e.ts))
				case string(g.Msg) != string(e.msg):
					fail(classifyMsg(got, exp), fmt.Sprintf("partition %s event %d: message %q, written %q", key, i, g.Msg, e.msg))
				case g.Tags != key:
					fail("readback-tags", fmt.Sprintf("partition %s event %d: tags %q", key, i, g.Tags))
				case g.Flds != field.Fields(string(e.flds)).AsKVString():
					fail("readback-fields", fmt.Sprintf("partition %s event %d: fields %q, expected %q", key, i, g.Flds, field.Fields(string(e.flds)).AsKVString()))
				default:
					// the text the reader gets means the fields that were written: it parses back to the stored list
					if back, err := field.NewFieldsFromKVString(g.Flds); err != nil || string(back) != string(e.flds) {
						fail("readback-fields-reparse", fmt.Sprintf("partition %s event %d: fields text %q parses to %x (%v), written %x", key, i, g.Flds, []byte(back), err, e.flds))
					}
				}
			}
		}
	}
	// one query over all partitions (the merge of the sources, model.Mixer), read in pages of 3 on a server-side cursor
	// (WaitTimeout > 0: the cursor is kept between the pages, the event it has looked at is copied out of the read
	// buffers when the cursor is released): restricted to a partition it is the read of that partition - same events,
	// same order, same content
	if len(keys) >= 2 && out.viol == nil {
		totalEv := 0
		for _, key := range keys {
			totalEv += len(perPart[key])
		}
		by := map[string][]RV{}
		next := api.QueryRequest{Query: "SELECT LIMIT 10000", Limit: 3, WaitTimeout: 1}
		for n, pages := 0, 0; n < totalEv && pages < totalEv+2; pages++ {
			var mres api.QueryResult
			if err := srv.Client.Query(ctx, &next, &mres); err != nil {
				return nil, fmt.Errorf("rpc query: %v", err)
			}
			if mres.Err != nil {
				fail("merged-read-differs", fmt.Sprintf("page %d of the query over all partitions failed: %v", pages, mres.Err))
				break
			}
			if len(mres.Events) == 0 {
				break
			}
			for _, e := range mres.Events {
				by[e.Tags] = append(by[e.Tags], RV{e.Timestamp, []byte(e.Message), e.Tags, e.Fields})
				n++
			}
			next = mres.NextQueryRequest
			next.Limit, next.WaitTimeout = 3, 1
		}
		for _, key := range keys {
			single := perPart[key]
			if len(by[key]) != len(single) {
				fail("merged-read-differs", fmt.Sprintf("partition %s: %d events in the read of the partition, %d in the merged read", key, len(single), len(by[key])))
				continue
			}
			for i, e := range single {
				m := by[key][i]
				if m.Ts != e.Ts || string(m.Msg) != string(e.Msg) || m.Flds != e.Flds {
					fail("merged-read-differs", fmt.Sprintf("partition %s event %d: %d %q %q in the merged read, %d %q %q in the read of the partition", key, i, m.Ts, m.Msg, m.Flds, e.Ts, e.Msg, e.Flds))
					break
				}
			}
		}
		out.tags = append(out.tags, "e2e:merged-read")
	}
	// every stored field value that may be read: make sure the as_kv table covers what the model computes
	for _, exp := range expected {
		for _, e := range exp {
			kvtab.add(string(e.flds), []byte(field.Fields(string(e.flds)).AsKVString()), true)
		}
	}
	wes := make([]string, len(acks))
	for i := range wes {
		wes[i] = GNone
	}
	if pressure != "" {
		return nil, fmt.Errorf("the harness process is running out of file descriptors (%s): raise `ulimit -n`; no verdict", pressure)
	}
	out.coq = GApp("KE2E", gCfg(rp.MaxChunk, rp.MaxRec), ftab.gallina(), ntab.gallina(), kvtab.gallinaKV(), GList(coqReqs),
		GList(acks), GList(wes), GList(reads), GList(chunks))
	out.nontriv = multiChunk || bothLevels
	if multiChunk {
		out.tags = append(out.tags, "e2e:multi-chunk")
	}
	if longField {
		out.tags = append(out.tags, "e2e:field-at-length-limit")
	}
	if bothLevels {
		out.tags = append(out.tags, "e2e:fields-on-both-levels")
	}
	if truncPkt {
		out.tags = append(out.tags, "e2e:truncated-packet")
	}
	out.tags = append(out.tags, fmt.Sprintf("e2e:partitions=%d", len(keys)), fmt.Sprintf("e2e:maxchunk=%d", rp.MaxChunk))
	out.tags = append(out.tags, inputTags(rp)...)
	return out, nil
}

func classifyCount(got []RV, exp []expEv) string {
	if len(got) < len(exp) {
		return "readback-events-missing"
	}
	return "readback-events-extra"
}

func classifyMsg(got []RV, exp []expEv) string {
	// same multiset, different order?
	a := make([]string, len(got))
	b := make([]string, len(exp))
	for i := range got {
		a[i] = string(got[i].Msg)
		b[i] = string(exp[i].msg)
	}
	sort.Strings(a)
	sort.Strings(b)
	if strings.Join(a, "\x00") == strings.Join(b, "\x00") {
		return "readback-order"
	}
	return "readback-message"
}

// size of the stored record of an event: header, ts, varint+msg, [varint+fields]
func recordSize(msg, flds []byte) int {
	n := 1 + 8 + xbinary.WritebleBytesSize(msg)
	if len(flds) > 0 {
		n += xbinary.WritebleBytesSize(flds)
	}
	return n
}

// ---------------------------------------------------------------- concurrent writers

func runConc(rp E2EReplay) (*e2eOut, error) {
	srv, err := StartServer(ServerOpts{MaxChunkSize: rp.MaxChunk, MaxRecordSize: rp.MaxRec, WriteFlushMs: 5, NoRPC: true})
	if err != nil {
		return nil, fmt.Errorf("server start: %v", err)
	}
	defer srv.Stop()
	tuneFds(srv)
	ctx := context.Background()
	out := &e2eOut{}
	const tags = "conc=1"
	var wg sync.WaitGroup
	start := make(chan struct{})
	errs := make([]error, len(rp.Batches))
	total := 0
	byMsg := map[string][2]int{}
	// what the property expects of writer w: its events before the first oversize one are stored; it fails iff
	// there is an oversize one
	stored := make([]int, len(rp.Batches))
	for w, b := range rp.Batches {
		stored[w] = len(b)
		for i, e := range b {
			byMsg[string(e.Msg)] = [2]int{w, i}
			if stored[w] == len(b) && int64(recordSize(e.Msg, e.Flds)) > rp.MaxRec {
				stored[w] = i
			}
		}
		total += stored[w]
		wg.Add(1)
		go func(w int, b []LE) {
			defer wg.Done()
			evs := make([]model.LogEvent, len(b))
			for k, e := range b {
				evs[k] = toModel(e)
			}
			<-start
			errs[w] = srv.Partitions.Write(ctx, tags, &sliceIt{evs: evs}, true)
		}(w, b)
	}
	close(start)
	wg.Wait()
	oversized := false
	for w, e := range errs {
		big := stored[w] < len(rp.Batches[w])
		oversized = oversized || big
		if e != nil && !big {
			if p, how := fdPressure(); p {
				return nil, fmt.Errorf("the harness process is running out of file descriptors (%s): raise `ulimit -n`; no verdict", how)
			}
			out.viol = &Violation{Class: "concurrent-write-failed", Detail: fmt.Sprintf("writer %d: %v", w, e)}
		}
		if e == nil && big && out.viol == nil {
			out.viol = &Violation{Class: "oversize-record-acknowledged-unreadable", Detail: fmt.Sprintf("writer %d: event %d exceeds MaxRecordSize=%d; the write was acknowledged", w, stored[w], rp.MaxRec)}
		}
	}
	var confirmed uint64
	if !WaitFor(flushDeadline, func() bool {
		pi, err := srv.Partitions.GetParitionInfo(tags)
		if err != nil {
			return false
		}
		confirmed = pi.Records
		return pi.Records >= uint64(total)
	}) && out.viol == nil {
		out.viol = &Violation{Class: "acknowledged-not-readable", Detail: fmt.Sprintf("%d acknowledged, %d confirmed", total, confirmed)}
	}
	res, err := srv.Querier.Query(ctx, &api.QueryRequest{Query: "SELECT FROM {" + tags + "} LIMIT 10000", Limit: 10000})
	if err != nil && err != io.EOF {
		if out.viol == nil {
			out.viol = &Violation{Class: "read-failed", Detail: fmt.Sprintf("partition %s: %v", tags, err)}
		}
		res = &api.QueryResult{}
	}
	// observation: (writer, record) in journal order; oracle: each writer's events exactly once, in its order
	var obs []string
	next := make([]int, len(rp.Batches))
	switches := 0
	last := -1
	for _, e := range res.Events {
		id, ok := byMsg[e.Message]
		if !ok {
			if out.viol == nil {
				out.viol = &Violation{Class: "concurrent-unknown-event", Detail: fmt.Sprintf("%q", e.Message)}
			}
			continue
		}
		w, i := id[0], id[1]
		orig := rp.Batches[w][i]
		if i != next[w] && out.viol == nil {
			out.viol = &Violation{Class: "concurrent-writer-order", Detail: fmt.Sprintf("writer %d: event %d read where %d was expected", w, i, next[w])}
		}
		next[w] = i + 1
		if (e.Timestamp != orig.Ts || e.Fields != field.Fields(string(orig.Flds)).AsKVString()) && out.viol == nil {
			out.viol = &Violation{Class: "concurrent-content", Detail: fmt.Sprintf("writer %d event %d", w, i)}
		}
		if w != last {
			switches++
			last = w
		}
		obs = append(obs, GPair(GNat(w), GBytes(marshalLE(orig))))
	}
	for w := range rp.Batches {
		if next[w] < stored[w] && out.viol == nil {
			out.viol = &Violation{Class: "concurrent-events-missing", Detail: fmt.Sprintf("writer %d: %d of %d events read back", w, next[w], stored[w])}
		}
		if next[w] > stored[w] && out.viol == nil {
			out.viol = &Violation{Class: "concurrent-events-extra", Detail: fmt.Sprintf("writer %d: %d events read back, %d were due (the next one is oversize)", w, next[w], stored[w])}
		}
	}
	var bs []string
	for _, b := range rp.Batches {
		bs = append(bs, gLEs(b))
	}
	out.coq = GApp("KConc", gCfg(rp.MaxChunk, rp.MaxRec), GList(bs), GList(obs))
	out.nontriv = switches > len(rp.Batches)
	if out.nontriv {
		out.tags = append(out.tags, "conc:interleaved")
	} else {
		out.tags = append(out.tags, "conc:serial")
	}
	if oversized {
		out.tags = append(out.tags, "conc:oversize-event")
	}
	return out, nil
}

// ---------------------------------------------------------------- write events (StartPos / EndPos)

// runPos: direct writes on the storage-only server; every acknowledged non-empty write must emit one
// WriteEvent whose StartPos/EndPos delimit exactly its records
func runPos(rp E2EReplay) (*e2eOut, error) {
	ms, err := startMini(rp.MaxChunk, rp.MaxRec)
	if err != nil {
		return nil, err
	}
	defer ms.Stop()
	limitRec := effRec(rp.MaxRec)
	if rp.NoLimit {
		// a partition.Service that was not given the journal controller's configuration knows no limit
		ms.Partitions.JCfg = nil
	}
	ctx := context.Background()
	out := &e2eOut{}
	pressure := ""
	fail := func(class, detail string) {
		if p, how := fdPressure(); p && pressure == "" {
			pressure = how
		}
		if out.viol == nil {
			out.viol = &Violation{Class: class, Detail: detail}
		}
	}
	ntab := newTab()
	type wev struct {
		key      string
		n        int
		before   int
		have     bool
		s, e     [2]uint64 // chunk id, idx
		observed bool
	}
	var evs []wev
	var acks, coqReqs []string
	count := map[string]int{}
	var keys []string
	oversized := false
	for i, rq := range rp.Reqs {
		if rq.Kind != "dir" {
			return nil, fmt.Errorf("pos case with a %s request", rq.Kind)
		}
		les := make([]model.LogEvent, len(rq.Les))
		for k, e := range rq.Les {
			les[k] = toModel(e)
		}
		err := ms.Partitions.Write(ctx, rq.Tags, &sliceIt{evs: les}, false)
		ack := err == nil
		acks = append(acks, GBool(ack))
		coqReqs = append(coqReqs, GApp("DirW", GStr(rq.Tags), gLEs(rq.Les)))
		key, kok := normTags(rq.Tags)
		ntab.add(rq.Tags, []byte(key), kok)
		// the events before the first oversize one are stored; the batch is acknowledged iff there is none
		nst := len(rq.Les)
		for k, e := range rq.Les {
			if nst == len(rq.Les) && !rp.NoLimit && int64(recordSize(e.Msg, e.Flds)) > limitRec {
				nst = k
			}
		}
		if nst < len(rq.Les) {
			oversized = true
		}
		should := kok && nst == len(rq.Les)
		switch {
		case ack && kok && !should:
			fail("oversize-record-acknowledged-unreadable", fmt.Sprintf("request %d (direct): event %d exceeds MaxRecordSize=%d; the write was acknowledged", i, nst, limitRec))
		case ack != should:
			fail("ack-mismatch", fmt.Sprintf("request %d (direct): acknowledged=%v, tags ok=%v, oversize event=%v, err=%v", i, ack, kok, nst < len(rq.Les), err))
		}
		w := wev{key: key, n: nst, before: count[key]}
		expectEvent := kok && nst > 0
		// the event is sent before Write returns (buffered channel): when one is due it is there at once; when none
		// is due a short look makes sure there is none
		d := 30 * time.Millisecond
		if expectEvent {
			d = 10 * time.Second
		}
		c2, cancel := context.WithTimeout(ctx, d)
		we, werr := ms.Partitions.GetWriteEvent(c2)
		cancel()
		if werr == nil {
			w.have = true
			w.s = [2]uint64{uint64(we.StartPos.CId), uint64(we.StartPos.Idx)}
			w.e = [2]uint64{uint64(we.EndPos.CId), uint64(we.EndPos.Idx)}
			if string(we.Tags.Line()) != key {
				fail("write-event-tags", fmt.Sprintf("request %d: event tags %q, partition %q", i, we.Tags.Line(), key))
			}
		}
		if expectEvent != w.have {
			fail("write-event-presence", fmt.Sprintf("request %d: %d records stored, acknowledged=%v, event emitted=%v", i, nst, ack, w.have))
		}
		w.observed = true
		evs = append(evs, w)
		if kok {
			if _, ok := count[key]; !ok {
				keys = append(keys, key)
			}
			count[key] += nst
		}
	}
	// final chunk layout of every partition
	sort.Strings(keys)
	type ck struct {
		id  uint64
		cnt uint32
	}
	layout := map[string][]ck{}
	var chunks []string
	multi := false
	for _, key := range keys {
		pi, err := ms.Partitions.GetParitionInfo(key)
		if err != nil {
			return nil, fmt.Errorf("partition info %s: %v", key, err)
		}
		if _, j, err := ms.Partitions.GetJournal(ctx, pi.JournalId); err == nil {
			j.Sync()
			ms.Partitions.Release(pi.JournalId)
		}
		pi, err = ms.Partitions.GetParitionInfo(key)
		if err != nil {
			return nil, fmt.Errorf("partition info %s: %v", key, err)
		}
		var cs []string
		for _, c := range pi.Chunks {
			if c.Records > 0 {
				layout[key] = append(layout[key], ck{uint64(c.Id), c.Records})
				cs = append(cs, GN(uint64(c.Records)))
			}
		}
		if len(cs) >= 2 {
			multi = true
		}
		chunks = append(chunks, GPair(GStr(key), GList(cs)))
		if int(pi.Records) != count[key] {
			fail("acknowledged-not-readable", fmt.Sprintf("partition %s: %d records acknowledged, %d stored", key, count[key], pi.Records))
		}
	}
	// rank (1-based, among the non-empty chunks) and offset of a position
	rank := func(key string, cid uint64) (int, int, bool) {
		off := 0
		for i, c := range layout[key] {
			if c.id == cid {
				return i + 1, off, true
			}
			off += int(c.cnt)
		}
		return 0, 0, false
	}
	spans := false
	var wes []string
	for i, w := range evs {
		if !w.have {
			wes = append(wes, GSome(GNone))
			continue
		}
		rs, offs, ok1 := rank(w.key, w.s[0])
		re, offe, ok2 := rank(w.key, w.e[0])
		if !ok1 || !ok2 {
			fail("write-event-positions", fmt.Sprintf("request %d: event names a chunk the partition does not have", i))
			wes = append(wes, GNone)
			continue
		}
		if offs+int(w.s[1]) != w.before || offe+int(w.e[1]) != w.before+w.n {
			fail("write-event-positions", fmt.Sprintf("request %d: the batch is records [%d,%d) of the partition, the event says [%d,%d)", i, w.before, w.before+w.n, offs+int(w.s[1]), offe+int(w.e[1])))
		}
		if rs != re {
			spans = true
		}
		wes = append(wes, GSome(GSome(GPair(GPair(GN(uint64(rs)), GN(w.s[1])), GPair(GN(uint64(re)), GN(w.e[1]))))))
	}
	if pressure != "" {
		return nil, fmt.Errorf("the harness process is running out of file descriptors (%s): raise `ulimit -n`; no verdict", pressure)
	}
	cfgTerm := gCfg(rp.MaxChunk, limitRec)
	if rp.NoLimit {
		cfgTerm = gCfgW(rp.MaxChunk, limitRec, 0)
		out.tags = append(out.tags, "pos:no-write-limit")
	}
	if rp.MaxRec <= 0 {
		out.tags = append(out.tags, "pos:default-max-record-size")
	}
	out.coq = GApp("KE2E", cfgTerm, "[]", ntab.gallina(), "[]", GList(coqReqs),
		GList(acks), GList(wes), "[]", GList(chunks))
	out.nontriv = multi
	if spans {
		out.tags = append(out.tags, "pos:event-spans-chunks")
	}
	if oversized {
		out.tags = append(out.tags, "pos:oversize-event")
	}
	out.tags = append(out.tags, fmt.Sprintf("pos:maxchunk=%d", rp.MaxChunk))
	return out, nil
}

// inputTags names the input classes a history holds (for the distribution in the evidence file)
func inputTags(rp E2EReplay) []string {
	set := map[string]bool{}
	if rp.MaxRec < 4096 {
		set["in:small-max-record-size"] = true
	}
	lower := map[string]string{}
	for i, rq := range rp.Reqs {
		set["in:req-"+rq.Kind] = true
		n := len(rq.Aes) + len(rq.Les)
		switch {
		case rq.Kind != "raw" && n == 0:
			set["in:batch-empty"] = true
		case n == 1:
			set["in:batch-of-1"] = true
		case n >= 17:
			set["in:batch>=17"] = true
		}
		if n > 255 {
			set["in:batch>255"] = true
		}
		if key, ok := normTags(rq.Tags); ok {
			l := strings.ToLower(key)
			if k0, seen := lower[l]; seen && k0 != key {
				set["in:partitions-differ-in-case-only"] = true
			}
			lower[l] = key
		} else if rq.Kind != "raw" {
			set["in:tags-rejected"] = true
		}
		if i > 0 && rq.Kind != "raw" && fmt.Sprintf("%v", rq) == fmt.Sprintf("%v", rp.Reqs[i-1]) && n > 0 {
			set["in:same-request-twice"] = true
		}
		if strings.Count(rq.Flds, "=") > 20 {
			set["in:fields>20-pairs"] = true
		}
		var wf []byte
		if rq.Kind == "rpc" {
			if f, err := field.NewFieldsFromKVString(rq.Flds); err == nil {
				wf = []byte(f)
			} else {
				set["in:write-level-fields-rejected"] = true
			}
		}
		type ev struct {
			ts   int64
			msg  []byte
			flds []byte
		}
		var evs []ev
		for _, e := range rq.Aes {
			if strings.Count(e.Flds, "=") > 20 {
				set["in:fields>20-pairs"] = true
			}
			evs = append(evs, ev{e.Ts, e.Msg, append(append([]byte{}, wf...), []byte(field.Parse(e.Flds))...)})
		}
		for _, e := range rq.Les {
			evs = append(evs, ev{e.Ts, e.Msg, e.Flds})
		}
		for k, e := range evs {
			switch sz := int64(recordSize(e.msg, e.flds)); {
			case sz == rp.MaxRec:
				set["in:record=max-record-size"] = true
			case sz == rp.MaxRec+1:
				set["in:record=max-record-size+1"] = true
			case sz == rp.MaxRec-1:
				set["in:record=max-record-size-1"] = true
			}
			switch len(e.msg) {
			case 0:
				set["in:message-empty"] = true
			case 127, 128:
				set["in:message-127|128"] = true
			}
			if e.ts == 9223372036854775807 || e.ts == -9223372036854775808 {
				set["in:timestamp-int64-end"] = true
			}
			if e.ts == 0 || e.ts == -1 {
				set["in:timestamp-0|-1"] = true
			}
			if k > 0 && e.ts == evs[k-1].ts && string(e.msg) == string(evs[k-1].msg) && string(e.flds) == string(evs[k-1].flds) {
				set["in:same-event-twice"] = true
			}
			if k > 0 && e.ts < evs[k-1].ts {
				set["in:timestamps-not-ascending"] = true
			}
		}
	}
	var res []string
	for k := range set {
		res = append(res, k)
	}
	sort.Strings(res)
	return res
}
