package main

import (
	"fmt"

	. "verifharness/common"
)

// Gallina emitters for the vocabulary of model/LogEvent.v, Wire.v, Write.v and kcheck/C01K.v

type LE struct {
	Ts   int64  `json:"ts"`
	Msg  []byte `json:"msg"`
	Flds []byte `json:"flds"` // binary fields
}

type AE struct {
	Ts   int64  `json:"ts"`
	Msg  []byte `json:"msg"`
	Tags string `json:"tags,omitempty"`
	Flds string `json:"flds,omitempty"` // kv text
}

func gLE(e LE) string {
	return fmt.Sprintf("{| le_ts := %s; le_msg := %s; le_flds := %s |}", GZ(e.Ts), GBytes(e.Msg), GBytes(e.Flds))
}

func gAE(e AE) string {
	return fmt.Sprintf("{| ae_ts := %s; ae_msg := %s; ae_tags := %s; ae_flds := %s |}", GZ(e.Ts), GBytes(e.Msg), GStr(e.Tags), GStr(e.Flds))
}

func gLEs(l []LE) string {
	it := make([]string, len(l))
	for i, e := range l {
		it[i] = gLE(e)
	}
	return GList(it)
}

func gAEs(l []AE) string {
	it := make([]string, len(l))
	for i, e := range l {
		it[i] = gAE(e)
	}
	return GList(it)
}

// outcome constructors
func gOk(a string) string { return "(Ok " + a + ")" }

const gErr = "Err"
const gPanic = "Panic"

type RV struct {
	Ts   int64
	Msg  []byte
	Tags string
	Flds string
}

func gRV(e RV) string {
	return fmt.Sprintf("{| rv_ts := %s; rv_msg := %s; rv_tags := %s; rv_flds := %s |}", GZ(e.Ts), GBytes(e.Msg), GStr(e.Tags), GStr(e.Flds))
}

func gRVs(l []RV) string {
	it := make([]string, len(l))
	for i, e := range l {
		it[i] = gRV(e)
	}
	return GList(it)
}

// the servers of the harness are linked with the journal controller's configuration, so the write path of
// partition.Service applies the limit the readers have (w_limit = max_rec)
func gCfgW(maxChunk, maxRec, wLimit int64) string {
	return fmt.Sprintf("{| max_chunk := %s; max_rec := %s; w_limit := %s |}", GZ(maxChunk), GZ(maxRec), GZ(wLimit))
}

func gCfg(maxChunk, maxRec int64) string {
	return fmt.Sprintf("{| max_chunk := %s; max_rec := %s; w_limit := %s |}", GZ(maxChunk), GZ(maxRec), GZ(maxRec))
}

// table of a parameter function: list (bytes * outcome bytes)
type tabEntry struct {
	k  string
	ok bool
	v  []byte
}

type otab struct {
	seen map[string]bool
	ents []tabEntry
}

func newTab() *otab { return &otab{seen: map[string]bool{}} }

func (t *otab) add(k string, v []byte, ok bool) {
	if t.seen[k] {
		return
	}
	t.seen[k] = true
	t.ents = append(t.ents, tabEntry{k, ok, v})
}

func (t *otab) gallina() string {
	it := make([]string, len(t.ents))
	for i, e := range t.ents {
		if e.ok {
			it[i] = GPair(GStr(e.k), gOk(GBytes(e.v)))
		} else {
			it[i] = GPair(GStr(e.k), gErr)
		}
	}
	return GList(it)
}

func (t *otab) gallinaKV() string {
	it := make([]string, len(t.ents))
	for i, e := range t.ents {
		it[i] = GPair(GStr(e.k), GBytes(e.v))
	}
	return GList(it)
}
