package main

import (
	"context"
	"fmt"
	"io"
	"strings"

	"github.com/logrange/logrange/api"
	"github.com/logrange/logrange/api/rpc"
	"github.com/logrange/logrange/pkg/model"
	"github.com/logrange/logrange/pkg/model/field"
	"github.com/logrange/range/pkg/records"
	"github.com/logrange/range/pkg/utils/encoding/xbinary"
	. "verifharness/common"
)

// ---------------------------------------------------------------- generators of values

var tsPool = []int64{0, 1, -1, 1 << 62, -(1 << 62), 9223372036854775807, -9223372036854775808, 1569888000000000000, 255, 256, 65535}

func genTs(r *Rng) int64 {
	if r.Chance(1, 2) {
		return tsPool[r.Intn(len(tsPool))]
	}
	return r.I64() >> uint(r.Intn(64))
}

func genMsg(r *Rng) []byte {
	switch r.Intn(10) {
	case 0:
		return []byte{}
	case 1:
		return append(append([]byte("a"), 0, 0), r.Bytes(r.Intn(4), nil)...)
	case 2:
		b := r.Bytes(r.Range(1, 12), nil)
		for i := range b {
			b[i] |= 0x80
		}
		return b
	case 3:
		return r.Bytes(r.Range(1, 40), nil)
	case 4:
		// around the step of the length prefix from one byte to two (127 | 128)
		return r.Bytes(r.PickInt(126, 127, 127, 128, 128, 129, r.Range(120, 140)), []byte("abcdefghij \n\"=,{}"))
	default:
		return r.Bytes(r.Range(1, 24), []byte("abcdefghijklmnopqrstuvwxyz 0123456789:=,\"{}\\\n"))
	}
}

// names and values incl. the ones the printer has to quote only at an edge of the text (a brace at the beginning of the
// first name / the end of the last value) or because of their first character (separator, quote, blank, back quote)
var fldKeys = []string{"a", "host", "k1", "", "x y", "\xff\x00", "name", "{k", "k}", " k", "=k", "`k"}
var fldVals = []string{"", "1", "v", "a=b", "x,y", "\"q\"", "\x80\x81", "long-value-0123456789", "v}", "{v", ",x", "=x", "\"x", "x ", " x", "`x"}

// binary fields made by the real constructor, or (raw) any bytes
func genBinFields(r *Rng, raw bool) []byte {
	switch r.Intn(6) {
	case 0, 1:
		return []byte{}
	case 2:
		if raw {
			return r.Bytes(r.Range(1, 20), nil)
		}
		fallthrough
	default:
		n := r.Range(1, 3)
		var kv []string
		for i := 0; i < n; i++ {
			kv = append(kv, fldKeys[r.Intn(len(fldKeys))], fldVals[r.Intn(len(fldVals))])
		}
		f, err := field.NewFieldsFromSlice(kv...)
		if err != nil {
			panic(err)
		}
		return []byte(f)
	}
}

// kv texts for write-level and event-level fields; the last ones do not parse
var kvPool = []string{"", "", "f=1", "host=h1,dc=x", "k=\"a,b\"", "a=b, c=d", "{e=5}", "m=", "z=\"q=r\"", "novalue", "a=b,c", "=v", "q=\"unterminated",
	// values the printer has to quote (blank at an end, leading back quote), braces around nothing, an unbalanced brace,
	// quoted literals that do not unquote
	"k=\" lead\"", "k=\"trail \",j=1", "k=\"`bq\"", "{}", "  ", "{a=b", "a=`x", "a=\"x\\q\""}

func genKV(r *Rng) string {
	if r.Chance(1, 40) {
		return manyKV(r.PickInt(19, 20, 21, 25), "k")
	}
	return kvPool[r.Intn(len(kvPool))]
}

// n plain pairs: the field parser splits into a fixed array of 40 pieces first (20 pairs), more have to work as well
func manyKV(n int, name string) string {
	var sb strings.Builder
	for i := 0; i < n; i++ {
		if i > 0 {
			sb.WriteByte(',')
		}
		fmt.Fprintf(&sb, "%s%d=v%d", name, i, i*7)
	}
	return sb.String()
}

func genAE(r *Rng) AE {
	e := AE{Ts: genTs(r), Msg: genMsg(r), Flds: genKV(r)}
	if r.Chance(1, 4) {
		e.Tags = r.PickStr("x=y", "ignored", "a=1,b=2")
	}
	return e
}

func toApi(e AE) *api.LogEvent {
	return &api.LogEvent{Timestamp: e.Ts, Message: string(e.Msg), Tags: e.Tags, Fields: e.Flds}
}

func toApis(l []AE) []*api.LogEvent {
	res := make([]*api.LogEvent, len(l))
	for i, e := range l {
		res[i] = toApi(e)
	}
	return res
}

func fromApi(e *api.LogEvent) AE {
	return AE{Ts: e.Timestamp, Msg: []byte(e.Message), Tags: e.Tags, Flds: e.Fields}
}

func toModel(e LE) model.LogEvent {
	return model.LogEvent{Timestamp: e.Ts, Msg: append([]byte{}, e.Msg...), Fields: field.Fields(string(e.Flds))}
}

func fromModel(e model.LogEvent) LE {
	return LE{Ts: e.Timestamp, Msg: append([]byte{}, e.Msg...), Flds: []byte(string(e.Fields))}
}

// guarded runs f; reports whether it panicked
func guarded(f func()) (panicked bool) {
	defer func() {
		if r := recover(); r != nil {
			panicked = true
		}
	}()
	f()
	return false
}

// mutations of a valid encoding: the malformed stream
func mangle(r *Rng, b []byte) ([]byte, string) {
	b = append([]byte{}, b...)
	if len(b) == 0 {
		return r.Bytes(r.Range(0, 6), nil), "random"
	}
	switch r.Intn(7) {
	case 0, 1:
		return b[:r.Intn(len(b))], "truncated"
	case 2:
		i := r.Intn(len(b))
		b[i] = byte(r.U64())
		return b, "byte-corrupted"
	case 3:
		i := r.Intn(len(b))
		b[i] |= 0x80
		return b, "bit7-set"
	case 4:
		i := r.Intn(len(b) + 1)
		ins := [][]byte{{0xff, 0xff, 0xff, 0xff, 0xff, 0xff, 0xff, 0xff, 0xff, 0x01}, {0xff, 0xff, 0xff, 0xff, 0xff, 0xff, 0xff, 0xff, 0x7f}, {0x80, 0x80, 0x80, 0x80, 0x80, 0x80, 0x80, 0x80, 0x80, 0x80, 0x80, 0x01}}[r.Intn(3)]
		return append(append(append([]byte{}, b[:i]...), ins...), b[i:]...), "huge-varint-inserted"
	case 5:
		return append(b, r.Bytes(r.Range(1, 5), nil)...), "suffix"
	default:
		return r.Bytes(r.Range(0, 14), nil), "random"
	}
}

// ---------------------------------------------------------------- unit cases

type UnitReplay struct {
	Kind  string   `json:"kind"`
	N     uint64   `json:"n,omitempty"`
	K     int      `json:"k,omitempty"`
	Buf   []byte   `json:"buf,omitempty"`
	Prev  *LE      `json:"prev,omitempty"`
	Le    *LE      `json:"le,omitempty"`
	Recs  [][]byte `json:"recs,omitempty"`
	Ae    *AE      `json:"ae,omitempty"`
	Aes   []AE     `json:"aes,omitempty"`
	Tags  string   `json:"tags,omitempty"`
	Flds  string   `json:"flds,omitempty"`
	Ops   []bool   `json:"ops,omitempty"`
	Shape string   `json:"shape,omitempty"`
}

func unitCase(rp UnitReplay) (*Case, error) {
	cs := &Case{Replay: rp, Stream: "unit-" + rp.Kind}
	if rp.Shape != "" {
		cs.Tags = append(cs.Tags, rp.Kind+":"+rp.Shape)
	}
	switch rp.Kind {
	case "varint":
		var buf [10]byte
		n, err := xbinary.MarshalUint(uint(rp.N), buf[:])
		if err != nil {
			return nil, err
		}
		enc := buf[:n]
		sz := xbinary.WritableUintSize(rp.N)
		cs.Coq = GApp("KVarint", GN(rp.N), GBytes(enc), GNat(sz))
		// oracle: round trip, size table
		m, v, err := xbinary.UnmarshalUint(enc)
		if err != nil || m != n || uint64(v) != rp.N {
			cs.Oracle = &Violation{Class: "varint-roundtrip", Detail: fmt.Sprintf("%d -> %x -> %d (%v)", rp.N, enc, v, err)}
		} else if sz != n {
			cs.Oracle = &Violation{Class: "varint-size-table", Detail: fmt.Sprintf("%d: WritableUintSize=%d, encoded in %d", rp.N, sz, n)}
		}
		cs.NonTrivial = rp.N > 127
	case "vardec":
		var n int
		var v uint
		var err error
		p := guarded(func() { n, v, err = xbinary.UnmarshalUint(rp.Buf) })
		obs := gErr
		if p {
			obs = gPanic
		} else if err == nil {
			obs = gOk(GPair(GN(uint64(v)), GNat(n)))
		}
		cs.Coq = GApp("KVarDec", GBytes(rp.Buf), obs)
		cs.NonTrivial = err == nil && n > 1
	case "bytesdec":
		var n int
		var v []byte
		var err error
		p := guarded(func() { n, v, err = xbinary.UnmarshalBytes(rp.Buf, true) })
		obs := gErr
		if p {
			obs = gPanic
		} else if err == nil {
			obs = gOk(GPair(GBytes(v), GNat(n)))
		}
		cs.Coq = GApp("KBytesDec", GBytes(rp.Buf), obs)
		cs.NonTrivial = p || err == nil
		if p {
			cs.Tags = append(cs.Tags, "bytesdec:panic")
		}
	case "fixed":
		var enc []byte
		if rp.K == 8 {
			enc = make([]byte, 8)
			xbinary.MarshalUint64(rp.N, enc)
			_, v, _ := xbinary.UnmarshalUint64(enc)
			if v != rp.N {
				cs.Oracle = &Violation{Class: "fixed-roundtrip", Detail: fmt.Sprint(rp.N)}
			}
		} else {
			enc = make([]byte, 4)
			xbinary.MarshalUint32(uint32(rp.N), enc)
			_, v, _ := xbinary.UnmarshalUint32(enc)
			if uint64(v) != rp.N {
				cs.Oracle = &Violation{Class: "fixed-roundtrip", Detail: fmt.Sprint(rp.N)}
			}
		}
		cs.Coq = GApp("KFixed", GNat(rp.K), GN(rp.N), GBytes(enc))
		cs.NonTrivial = rp.N > 255
	case "leenc":
		le := toModel(*rp.Le)
		sz := le.WritableSize()
		buf := make([]byte, sz)
		n, err := le.Marshal(buf)
		cs.Coq = GApp("KLeEnc", gLE(*rp.Le), GNat(sz), GBytes(buf))
		// oracle: size exact; unmarshal into a fresh struct gives the event back
		var back model.LogEvent
		m, err2 := back.Unmarshal(buf, true)
		got := fromModel(back)
		if err != nil || n != sz {
			cs.Oracle = &Violation{Class: "logevent-size", Detail: fmt.Sprintf("WritableSize=%d Marshal wrote %d err=%v", sz, n, err)}
		} else if err2 != nil || m != n || got.Ts != rp.Le.Ts || string(got.Msg) != string(rp.Le.Msg) || string(got.Flds) != string(rp.Le.Flds) {
			cs.Oracle = &Violation{Class: "logevent-roundtrip", Detail: fmt.Sprintf("%+v -> %x -> %+v (%v)", *rp.Le, buf, got, err2)}
		}
		cs.NonTrivial = len(rp.Le.Flds) > 0 || len(rp.Le.Msg) > 127
	case "leencshort":
		le := toModel(*rp.Le)
		full := make([]byte, le.WritableSize())
		le.Marshal(full)
		sz := int(rp.N)
		buf := make([]byte, sz)
		n, err := le.Marshal(buf)
		cs.Coq = GApp("KLeEncShort", gLE(*rp.Le), GNat(sz), GBytes(buf))
		// oracle: a buffer that is too small gets an error, and nothing but a prefix of the encoding is written into it
		k := 0
		for k < sz && k < len(full) && buf[k] == full[k] {
			k++
		}
		rest := true
		for _, b := range buf[k:] {
			rest = rest && b == 0
		}
		switch {
		case sz < len(full) && err == nil:
			cs.Oracle = &Violation{Class: "logevent-marshal-short-no-error", Detail: fmt.Sprintf("%+v needs %d bytes; Marshal into %d bytes returned n=%d and no error", *rp.Le, len(full), sz, n)}
		case !rest:
			cs.Oracle = &Violation{Class: "logevent-marshal-short-garbage", Detail: fmt.Sprintf("%+v: Marshal into %d bytes left %x, the encoding is %x", *rp.Le, sz, buf, full)}
		}
		cs.NonTrivial = sz > 9
	case "ledec":
		le := toModel(*rp.Prev)
		var err error
		p := guarded(func() { _, err = le.Unmarshal(rp.Buf, true) })
		obs := gErr
		if p {
			obs = gPanic
		} else if err == nil {
			obs = gOk(gLE(fromModel(le)))
		}
		cs.Coq = GApp("KLeDec", gLE(*rp.Prev), GBytes(rp.Buf), obs)
		// oracle: a record that carries no fields (header bit 0 clear) decodes to an event without fields, whatever
		// the reused struct held before
		if !p && err == nil && len(rp.Buf) > 0 && rp.Buf[0]&1 == 0 && len(le.Fields) != 0 {
			cs.Oracle = &Violation{Class: "logevent-stale-fields", Detail: fmt.Sprintf("record %x has no fields; Unmarshal into a struct holding fields %q delivered fields %q", rp.Buf, string(rp.Prev.Flds), string(le.Fields))}
		}
		cs.NonTrivial = p || err == nil
	case "leiter":
		it := &recIt{recs: rp.Recs}
		var lei model.LogEventIterator
		lei.Wrap("t=1", it)
		var got []LE
		var ferr error
		p := guarded(func() {
			for {
				le, _, err := lei.Get(context.Background())
				if err == io.EOF {
					return
				}
				if err != nil {
					ferr = err
					return
				}
				got = append(got, fromModel(le))
				lei.Next(context.Background())
			}
		})
		obs := gOk(gLEs(got))
		if p {
			obs = gPanic
		} else if ferr != nil {
			obs = gErr
		}
		cs.Coq = GApp("KLeIter", GList(mapBytes(rp.Recs)), obs)
		cs.NonTrivial = len(rp.Recs) >= 2
	case "apienc":
		enc, n, err := rpc.VC01WriteLogEvent(toApi(*rp.Ae))
		if err != nil {
			return nil, err
		}
		cs.Coq = GApp("KApiEnc", gAE(*rp.Ae), GBytes(enc))
		back, m, err2 := rpc.VC01UnmarshalLogEvent(enc, true)
		if n != len(enc) || rpc.VC01LogEventSize(toApi(*rp.Ae)) != len(enc) {
			cs.Oracle = &Violation{Class: "apievent-size", Detail: fmt.Sprintf("n=%d size=%d len=%d", n, rpc.VC01LogEventSize(toApi(*rp.Ae)), len(enc))}
		} else if err2 != nil || m != n || !sameAE(fromApi(&back), *rp.Ae) {
			cs.Oracle = &Violation{Class: "apievent-roundtrip", Detail: fmt.Sprintf("%+v -> %+v (%v)", *rp.Ae, back, err2)}
		}
		cs.NonTrivial = len(rp.Ae.Msg) > 0
	case "apidec":
		var le api.LogEvent
		var n int
		var err error
		p := guarded(func() { le, n, err = rpc.VC01UnmarshalLogEvent(rp.Buf, true) })
		obs := gErr
		if p {
			obs = gPanic
		} else if err == nil {
			obs = gOk(GPair(gAE(fromApi(&le)), GNat(n)))
		}
		cs.Coq = GApp("KApiDec", GBytes(rp.Buf), obs)
		cs.NonTrivial = p || err == nil
	case "wpenc":
		enc, sz, err := rpc.VC01EncodeWritePacket(rp.Tags, rp.Flds, toApis(rp.Aes))
		if err != nil {
			return nil, err
		}
		cs.Coq = GApp("KWpEnc", GStr(rp.Tags), GStr(rp.Flds), gAEs(rp.Aes), GBytes(enc))
		if sz != len(enc) {
			cs.Oracle = &Violation{Class: "writepacket-size", Detail: fmt.Sprintf("WritableSize=%d, written %d", sz, len(enc))}
		}
		cs.NonTrivial = len(rp.Aes) >= 2
	case "evsenc":
		qr := &api.QueryResult{Events: toApis(rp.Aes), NextQueryRequest: api.QueryRequest{ReqId: rp.N, Query: "select", Pos: "tail", Limit: 10}}
		enc, sz, err := rpc.VC01WriteQueryResult(qr)
		if err != nil {
			return nil, err
		}
		enc2, err := rpc.VC01BuildQueryResult(toApis(rp.Aes), &qr.NextQueryRequest)
		if err != nil {
			return nil, err
		}
		cs.Coq = GApp("KEvsEnc", gAEs(rp.Aes), GBytes(enc))
		back, n, err2 := rpc.VC01UnmarshalQueryResult(enc)
		switch {
		case sz != len(enc):
			cs.Oracle = &Violation{Class: "queryresult-size", Detail: fmt.Sprintf("size %d, written %d", sz, len(enc))}
		case string(enc2) != string(enc):
			cs.Oracle = &Violation{Class: "queryresult-builder-differs", Detail: fmt.Sprintf("%x vs %x", enc, enc2)}
		case err2 != nil || n != len(enc) || len(back.Events) != len(rp.Aes):
			cs.Oracle = &Violation{Class: "queryresult-roundtrip", Detail: fmt.Sprintf("%v n=%d", err2, n)}
		default:
			for i, e := range back.Events {
				if !sameAE(fromApi(e), rp.Aes[i]) {
					cs.Oracle = &Violation{Class: "queryresult-roundtrip", Detail: fmt.Sprintf("event %d: %+v vs %+v", i, *e, rp.Aes[i])}
				}
			}
		}
		cs.NonTrivial = len(rp.Aes) >= 2
	case "evsdec":
		evs, n, ok := decodeEventList(rp.Buf)
		obs := gErr
		if ok {
			obs = gOk(GPair(gAEs(evs), GNat(n)))
		} else if n == -2 {
			obs = gPanic
		}
		// the real decoder allocates the slice from the count before reading anything: keep it away from huge counts
		if _, ln, e := xbinary.UnmarshalUint32(rp.Buf); e == nil && ln <= 100000 {
			var res *api.QueryResult
			var err error
			p := guarded(func() { res, _, err = rpc.VC01UnmarshalQueryResult(rp.Buf) })
			if !p && err == nil && (!ok || len(res.Events) != len(evs)) {
				cs.Oracle = &Violation{Class: "queryresult-count", Detail: fmt.Sprintf("result decoded with %d events, the event list has %d (ok=%v)", len(res.Events), len(evs), ok)}
			}
			// a result cut anywhere (inside the count, an event, or the request that follows the events) does not decode
			if !p && err == nil && strings.HasPrefix(rp.Shape, "strict-prefix") && cs.Oracle == nil {
				cs.Oracle = &Violation{Class: "queryresult-truncated-accepted", Detail: fmt.Sprintf("%d bytes, a strict prefix of an encoded result (%s), decoded without error to %d events", len(rp.Buf), rp.Shape, len(res.Events))}
			}
		}
		cs.Coq = GApp("KEvsDec", GBytes(rp.Buf), obs)
		cs.NonTrivial = ok && len(evs) > 0
	case "wpiter":
		return wpIterCase(rp, cs)
	default:
		return nil, fmt.Errorf("unknown unit kind %q", rp.Kind)
	}
	return cs, nil
}

func sameAE(a, b AE) bool {
	return a.Ts == b.Ts && string(a.Msg) == string(b.Msg) && a.Tags == b.Tags && a.Flds == b.Flds
}

func mapBytes(l [][]byte) []string {
	res := make([]string, len(l))
	for i, b := range l {
		res[i] = GBytes(b)
	}
	return res
}

// decodeEventList decodes "count, events" with the real decoders the way unmarshalQueryResult walks them.
// n == -2: a decoder panicked
func decodeEventList(buf []byte) (evs []AE, n int, ok bool) {
	p := guarded(func() {
		k, ln, err := xbinary.UnmarshalUint32(buf)
		if err != nil {
			return
		}
		nn := k
		evs = []AE{}
		for i := 0; i < int(ln); i++ {
			le, m, err := rpc.VC01UnmarshalLogEvent(buf[nn:], true)
			if err != nil {
				evs = nil
				return
			}
			nn += m
			evs = append(evs, fromApi(&le))
		}
		n, ok = nn, true
	})
	if p {
		return nil, -2, false
	}
	if !ok {
		return nil, -1, false
	}
	return evs, n, true
}

// records.Iterator over a slice of records
type recIt struct {
	recs [][]byte
	i    int
}

func (r *recIt) Next(ctx context.Context) {
	if r.i < len(r.recs) {
		r.i++
	}
}
func (r *recIt) Get(ctx context.Context) (records.Record, error) {
	if r.i >= len(r.recs) {
		return nil, io.EOF
	}
	return r.recs[r.i], nil
}
func (r *recIt) Release()                        {}
func (r *recIt) SetBackward(bool)                {}
func (r *recIt) CurrentPos() records.IteratorPos { return r.i }

// collectKV walks a write packet body with the real decoders and returns every kv text the packet
// iterator can meet (write-level fields text, per-event fields texts)
func collectKV(buf []byte) (kvs []string) {
	guarded(func() {
		idx, _, err := xbinary.UnmarshalString(buf, true)
		if err != nil {
			return
		}
		n, flds, err := xbinary.UnmarshalString(buf[idx:], true)
		if err != nil {
			return
		}
		kvs = append(kvs, flds)
		idx += n
		n, ln, err := xbinary.UnmarshalUint32(buf[idx:])
		if err != nil {
			return
		}
		idx += n
		for i := 0; i < int(ln) && i < len(buf); i++ {
			le, m, err := rpc.VC01UnmarshalLogEvent(buf[idx:], true)
			if err != nil {
				return
			}
			kvs = append(kvs, le.Fields)
			idx += m
		}
	})
	return
}

func addFparse(t *otab, kv string) []byte {
	f, err := field.NewFieldsFromKVString(kv)
	t.add(kv, []byte(f), err == nil)
	if err != nil {
		return nil
	}
	return []byte(f)
}

func wpIterCase(rp UnitReplay, cs *Case) (*Case, error) {
	ftab := newTab()
	for _, kv := range collectKV(rp.Buf) {
		addFparse(ftab, kv)
	}
	var w rpc.VC01WpIter
	var ierr error
	p := guarded(func() { ierr = w.Init(rp.Buf) })
	init := gErr
	var obs, ops []string
	oks := 0
	if p {
		init = gPanic
	} else if ierr == nil {
		init = gOk(GStr(w.Tags()))
		fresh, served := true, 0
		for _, op := range rp.Ops {
			ops = append(ops, GBool(op))
			if !op {
				w.Next()
				fresh = true
				continue
			}
			var le model.LogEvent
			var err error
			pp := guarded(func() { le, err = w.Get() })
			if pp {
				// a Get that panicked leaves the real iterator in an unspecified state: the script ends there
				obs = append(obs, gPanic)
				break
			}
			switch {
			case err == io.EOF:
				obs = append(obs, gOk("None"))
				// oracle: the end of the packet may be announced only after as many events as the packet declares
				if served < w.Recs() && cs.Oracle == nil {
					cs.Oracle = &Violation{Class: "packet-iterator-eof-before-count", Detail: fmt.Sprintf("the packet declares %d events; Get reported io.EOF after serving %d", w.Recs(), served)}
				}
			case err != nil:
				obs = append(obs, gErr)
			default:
				oks++
				if fresh {
					served++
					fresh = false
				}
				obs = append(obs, gOk("(Some "+gLE(fromModel(le))+")"))
			}
		}
	}
	cs.Coq = GApp("KWpIter", ftab.gallina(), GBytes(rp.Buf), init, GList(ops), GList(obs))
	cs.NonTrivial = oks >= 2
	return cs, nil
}

func min(a, b int) int {
	if a < b {
		return a
	}
	return b
}

// ---------------------------------------------------------------- unit streams

func genLE(r *Rng, raw bool) LE {
	return LE{Ts: genTs(r), Msg: genMsg(r), Flds: genBinFields(r, raw)}
}

func marshalLE(e LE) []byte {
	le := toModel(e)
	buf := make([]byte, le.WritableSize())
	le.Marshal(buf)
	return buf
}

func genScript(r *Rng, recs int) []bool {
	var ops []bool
	n := recs + r.Range(1, 3)
	for i := 0; i < n; i++ {
		switch r.Intn(8) {
		case 0:
			ops = append(ops, true, true, false)
		case 1:
			ops = append(ops, false, true, false)
		case 2:
			ops = append(ops, true, false, false)
		default:
			ops = append(ops, true, false)
		}
	}
	return ops
}

func unitJobs(c *Ctx) []UnitReplay {
	r := c.Rng.Fork()
	var jobs []UnitReplay
	// varints: every width boundary, then random widths
	for k := uint(0); k <= 63; k += 7 {
		for _, d := range []int64{-1, 0, 1} {
			v := uint64(int64(uint64(1)<<k) + d)
			jobs = append(jobs, UnitReplay{Kind: "varint", N: v})
		}
	}
	jobs = append(jobs, UnitReplay{Kind: "varint", N: ^uint64(0)}, UnitReplay{Kind: "varint", N: 1 << 63}, UnitReplay{Kind: "varint", N: (1 << 63) - 1})
	for i := 0; i < c.N(30); i++ {
		jobs = append(jobs, UnitReplay{Kind: "varint", N: r.U64() >> uint(r.Intn(64))})
	}
	// varint decoding of malformed buffers
	fixedBufs := [][]byte{{}, {0x80}, {0xff, 0xff, 0xff, 0xff, 0xff, 0xff, 0xff, 0xff, 0xff, 0x01}, {0xff, 0xff, 0xff, 0xff, 0xff, 0xff, 0xff, 0xff, 0xff, 0x7f},
		{0x80, 0x80, 0x80, 0x80, 0x80, 0x80, 0x80, 0x80, 0x80, 0x80, 0x80, 0x80, 0x05}, {0x81, 0x00}, {0x00, 0x01}, {0xff, 0xff, 0xff, 0xff, 0xff, 0xff, 0xff, 0xff, 0xff, 0xff, 0xff, 0x7f, 0x33}}
	for _, b := range fixedBufs {
		jobs = append(jobs, UnitReplay{Kind: "vardec", Buf: b, Shape: "fixed"})
		jobs = append(jobs, UnitReplay{Kind: "bytesdec", Buf: append(append([]byte{}, b...), 1, 2, 3), Shape: "fixed"})
	}
	for i := 0; i < c.N(50); i++ {
		var buf [10]byte
		n, _ := xbinary.MarshalUint(uint(r.U64()>>uint(r.Intn(64))), buf[:])
		b, shape := mangle(r, buf[:n])
		jobs = append(jobs, UnitReplay{Kind: "vardec", Buf: b, Shape: shape})
	}
	for i := 0; i < c.N(70); i++ {
		v := genMsg(r)
		enc := make([]byte, xbinary.WritebleBytesSize(v))
		xbinary.MarshalBytes(v, enc)
		if r.Chance(1, 3) {
			jobs = append(jobs, UnitReplay{Kind: "bytesdec", Buf: append(enc, r.Bytes(r.Intn(4), nil)...), Shape: "valid"})
		} else {
			b, shape := mangle(r, enc)
			jobs = append(jobs, UnitReplay{Kind: "bytesdec", Buf: b, Shape: shape})
		}
	}
	// length prefixes around 2^63 (the int conversion)
	for _, v := range []uint64{1 << 63, (1 << 63) - 1, (1 << 63) - 3, ^uint64(0), (1 << 63) + 5, 1 << 62} {
		var buf [10]byte
		n, _ := xbinary.MarshalUint(uint(v), buf[:])
		jobs = append(jobs, UnitReplay{Kind: "bytesdec", Buf: append(append([]byte{}, buf[:n]...), 7, 7), Shape: "length-near-2^63"})
	}
	for i := 0; i < c.N(10); i++ {
		jobs = append(jobs, UnitReplay{Kind: "fixed", K: 8, N: r.U64() >> uint(r.Intn(64))})
		jobs = append(jobs, UnitReplay{Kind: "fixed", K: 4, N: uint64(uint32(r.U64() >> uint(r.Intn(64))))})
	}
	// LogEvent
	for i := 0; i < c.N(70); i++ {
		e := genLE(r, true)
		jobs = append(jobs, UnitReplay{Kind: "leenc", Le: &e})
	}
	for i := 0; i < c.N(30); i++ {
		e := genLE(r, false)
		full := len(marshalLE(e))
		// below the size: anywhere, and at the part boundaries (header, timestamp, inside/after the length prefixes)
		sz := r.Intn(full)
		switch r.Intn(4) {
		case 0:
			sz = r.PickInt(0, 1, 8, 9, 10, 11)
		case 1:
			sz = full - r.Range(1, 3)
		}
		if sz >= full || sz < 0 {
			sz = full - 1
		}
		jobs = append(jobs, UnitReplay{Kind: "leencshort", Le: &e, N: uint64(sz)})
	}
	for i := 0; i < c.N(110); i++ {
		e := genLE(r, true)
		prev := LE{}
		if r.Chance(2, 3) {
			prev = genLE(r, false)
		}
		buf := marshalLE(e)
		shape := "valid"
		switch r.Intn(6) {
		case 0, 1:
		case 2:
			buf[0] ^= 1
			shape = "header-bit0-flipped"
		case 3:
			buf[0] = byte(r.U64())
			shape = "header-random"
		default:
			buf, shape = mangle(r, buf)
		}
		jobs = append(jobs, UnitReplay{Kind: "ledec", Prev: &prev, Buf: buf, Shape: shape})
	}
	for i := 0; i < c.N(35); i++ {
		n := r.Range(0, 5)
		var recs [][]byte
		for k := 0; k < n; k++ {
			recs = append(recs, marshalLE(genLE(r, false)))
		}
		shape := "valid"
		if n > 0 && r.Chance(1, 5) {
			k := r.Intn(n)
			recs[k], shape = mangle(r, recs[k])
		}
		jobs = append(jobs, UnitReplay{Kind: "leiter", Recs: recs, Shape: shape})
	}
	// rpc codecs
	for i := 0; i < c.N(40); i++ {
		e := genAE(r)
		jobs = append(jobs, UnitReplay{Kind: "apienc", Ae: &e})
	}
	for i := 0; i < c.N(60); i++ {
		enc, _, _ := rpc.VC01WriteLogEvent(toApi(genAE(r)))
		shape := "valid"
		if r.Chance(2, 3) {
			enc, shape = mangle(r, enc)
		}
		jobs = append(jobs, UnitReplay{Kind: "apidec", Buf: enc, Shape: shape})
	}
	genPacket := func() (string, string, []AE) {
		n := r.PickInt(0, 1, 1, 2, 3, 5)
		var evs []AE
		for k := 0; k < n; k++ {
			evs = append(evs, genAE(r))
		}
		return r.PickStr("a=1", "name=app,host=h", "", "{x=y}", "\xff=\x00"), genKV(r), evs
	}
	for i := 0; i < c.N(25); i++ {
		t, f, evs := genPacket()
		jobs = append(jobs, UnitReplay{Kind: "wpenc", Tags: t, Flds: f, Aes: evs})
	}
	for i := 0; i < c.N(110); i++ {
		t, f, evs := genPacket()
		enc, _, _ := rpc.VC01EncodeWritePacket(t, f, toApis(evs))
		shape := "valid"
		switch r.Intn(9) {
		case 0, 1, 2, 3:
		case 4, 5:
			// the count says more (or fewer) events than there are
			idx := len(enc)
			for _, e := range evs {
				idx -= rpc.VC01LogEventSize(toApi(e))
			}
			if len(evs) > 0 && r.Chance(1, 2) {
				enc[idx-1] -= byte(r.Range(1, len(evs)))
				shape = "count-too-small"
			} else {
				enc[idx-1] += byte(r.Range(1, 3))
				shape = "count-too-large"
			}
		case 6:
			// cut inside the 4 bytes of the count: init fails
			idx := len(enc)
			for _, e := range evs {
				idx -= rpc.VC01LogEventSize(toApi(e))
			}
			enc, shape = enc[:idx-r.Range(1, 4)], "cut-in-count"
		default:
			enc, shape = mangle(r, enc)
		}
		jobs = append(jobs, UnitReplay{Kind: "wpiter", Buf: enc, Ops: genScript(r, len(evs)), Shape: shape})
	}
	for i := 0; i < c.N(15); i++ {
		_, _, evs := genPacket()
		jobs = append(jobs, UnitReplay{Kind: "evsenc", Aes: evs, N: r.U64()})
	}
	for i := 0; i < c.N(25); i++ {
		_, _, evs := genPacket()
		qr := &api.QueryResult{Events: toApis(evs), NextQueryRequest: api.QueryRequest{Query: "q", Limit: 3}}
		enc, _, _ := rpc.VC01WriteQueryResult(qr)
		shape := "valid"
		evsLen := 4
		for _, e := range evs {
			evsLen += rpc.VC01LogEventSize(toApi(e))
		}
		switch r.Intn(6) {
		case 0:
			enc, shape = enc[:r.Intn(4)], "strict-prefix:cut-in-count"
		case 1:
			enc, shape = enc[:evsLen+r.Intn(len(enc)-evsLen)], "strict-prefix:cut-in-next-request"
		case 2:
			if evsLen > 4 {
				enc, shape = enc[:4+r.Intn(evsLen-4)], "strict-prefix:cut-in-events"
			}
		case 3, 4:
			enc, shape = mangle(r, enc)
		}
		jobs = append(jobs, UnitReplay{Kind: "evsdec", Buf: enc, Shape: shape})
	}
	// one event with fields: Marshal into every buffer size below its size; field lists of one byte (header bit and size
	// depend on len(Fields) > 0, whatever the list is); a packet whose count is at the ends of uint32
	{
		e := LE{Ts: -2, Msg: r.Bytes(130, []byte("m")), Flds: []byte("\x01k\x03v=1")}
		full := len(marshalLE(e))
		for sz := 0; sz < full; sz++ {
			if sz < 14 || sz > full-10 || sz%16 == 0 {
				e2 := e
				jobs = append(jobs, UnitReplay{Kind: "leencshort", Le: &e2, N: uint64(sz)})
			}
		}
		for _, f := range [][]byte{{0}, {'A'}, {0, 0}, {1, 'k', 0}} {
			e1 := LE{Ts: 7, Msg: []byte("one-byte-fields"), Flds: f}
			jobs = append(jobs, UnitReplay{Kind: "leenc", Le: &e1})
			jobs = append(jobs, UnitReplay{Kind: "ledec", Prev: &LE{Flds: []byte("\x01p\x01q")}, Buf: marshalLE(e1), Shape: "valid"})
		}
		evs := []AE{{Ts: 1, Msg: []byte("a")}, {Ts: 2, Msg: []byte("b")}}
		for _, cnt := range [][]byte{{0xff, 0xff, 0xff, 0xff}, {0x80, 0, 0, 0}, {0x7f, 0xff, 0xff, 0xff}, {0, 0, 1, 2}, {0, 0, 0, 0}} {
			enc, _, _ := rpc.VC01EncodeWritePacket("a=1", "", toApis(evs))
			idx := len(enc)
			for _, e := range evs {
				idx -= rpc.VC01LogEventSize(toApi(e))
			}
			copy(enc[idx-4:idx], cnt)
			jobs = append(jobs, UnitReplay{Kind: "wpiter", Buf: enc, Ops: []bool{true, false, true, false, true, true, false, true}, Shape: "count-at-uint32-ends"})
		}
	}
	// one result, cut at every position of its count and of the request that follows the events
	{
		evs := []AE{{Ts: 5, Msg: []byte("m"), Flds: "f=1"}}
		qr := &api.QueryResult{Events: toApis(evs), NextQueryRequest: api.QueryRequest{ReqId: 7, Query: "select", Pos: "tail", WaitTimeout: 3, Offset: -2, Limit: 10}}
		enc, _, _ := rpc.VC01WriteQueryResult(qr)
		evsLen := 4 + rpc.VC01LogEventSize(toApi(evs[0]))
		for cut := 0; cut < len(enc); cut++ {
			if cut < 4 {
				jobs = append(jobs, UnitReplay{Kind: "evsdec", Buf: enc[:cut], Shape: "strict-prefix:cut-in-count"})
			} else if cut >= evsLen {
				jobs = append(jobs, UnitReplay{Kind: "evsdec", Buf: enc[:cut], Shape: "strict-prefix:cut-in-next-request"})
			}
		}
	}
	return jobs
}
