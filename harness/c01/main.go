// C01 harness: acknowledged writes are read back intact, exactly once, in write order.
//
// (i) unit level: the byte codecs of the write/read path (xbinary varints and length-prefixed bytes,
// model.LogEvent Marshal/Unmarshal and LogEventIterator, rpc writeLogEvent/unmarshalLogEvent,
// writePacket encoder, wpIterator init/Get/Next, query-result event list) are driven through the
// export_c01_verif.go wrappers on structured and malformed buffers; every observation is recorded in
// the vocabulary of kcheck/C01K.v and compared there with the model functions of coq/model.
// (ii) end to end: an in-process server per case with a small MaxChunkSize; histories of write
// requests over 1-3 partitions through the RPC client, directly through partition.Service.Write and
// as raw request bodies; read back through the RPC querier and the in-process backend querier;
// projection: acknowledgements, per partition the list (ts, msg, tags, fields) and the record count
// of every chunk. (iii) K concurrent writers on one partition: the journal order is validated against
// the model's step granularity (one Journal.Write call = one atomic step).
// Oracle O (independent of the model): read-back == acknowledged events (order, multiplicity, content).
package main

import (
	"bytes"
	"encoding/json"
	"fmt"
	"io/ioutil"
	"os"
	"os/exec"
	"path/filepath"
	"sort"
	"strings"
	"sync"
	"syscall"
	"time"

	"github.com/logrange/logrange/api/rpc"
	"github.com/logrange/logrange/pkg/model/field"
	. "verifharness/common"
)

const rule = "unit stream: a case is non-trivial iff the decoder got past the first field / the encoding has more than one part (per kind: varint > 127, >= 2 events served, fields present, ...); " +
	"end-to-end stream: non-trivial iff some partition ends with >= 2 non-empty chunks (a batch met a roll-over) or an event carries fields on both levels (write-level and its own); " +
	"concurrent stream: non-trivial iff the journal order switches between writers more often than there are writers; distinct by the hash of the Gallina term"

type Replay struct {
	Unit *UnitReplay `json:"unit,omitempty"`
	E2E  *E2EReplay  `json:"e2e,omitempty"`
}

func mkCase(rp Replay) (*Case, error) {
	switch {
	case rp.Unit != nil:
		cs, err := unitCase(*rp.Unit)
		if err != nil {
			return nil, err
		}
		cs.Replay = rp
		return cs, nil
	case rp.E2E != nil && rp.E2E.Kind == "e2e":
		o, err := runE2E(*rp.E2E)
		if err != nil {
			return nil, err
		}
		return &Case{Coq: o.coq, Replay: rp, NonTrivial: o.nontriv, Oracle: o.viol, Stream: "e2e", Tags: o.tags}, nil
	case rp.E2E != nil && rp.E2E.Kind == "pos":
		o, err := runPos(*rp.E2E)
		if err != nil {
			return nil, err
		}
		return &Case{Coq: o.coq, Replay: rp, NonTrivial: o.nontriv, Oracle: o.viol, Stream: "pos", Tags: o.tags}, nil
	case rp.E2E != nil && rp.E2E.Kind == "restart":
		o, err := runRestart(*rp.E2E)
		if err != nil {
			return nil, err
		}
		return &Case{Coq: o.coq, Replay: rp, NonTrivial: o.nontriv, Oracle: o.viol, Stream: "restart", Tags: o.tags}, nil
	case rp.E2E != nil && rp.E2E.Kind == "tail":
		o, err := runTail(*rp.E2E)
		if err != nil {
			return nil, err
		}
		return &Case{Coq: o.coq, Replay: rp, NonTrivial: o.nontriv, Oracle: o.viol, Stream: "tail", Tags: o.tags}, nil
	case rp.E2E != nil && rp.E2E.Kind == "conc":
		o, err := runConc(*rp.E2E)
		if err != nil {
			return nil, err
		}
		return &Case{Coq: o.coq, Replay: rp, NonTrivial: o.nontriv, Oracle: o.viol, Stream: "conc", Tags: o.tags,
			Key: fmt.Sprintf("%s-%p", o.coq, o)}, nil
	}
	return nil, fmt.Errorf("empty replay")
}

// ---------------------------------------------------------------- end-to-end generators

var partPool = [][]string{
	{"p=1,app=a", "app=a, p=1", "{p=1,app=a}", "p=1 , app=a"},
	{"p=2,app=a", "{app=a,p=2}", "app=a,p=2"},
	{"p=3,app=b", "app=b,p=3"},
	// differs from the first one only in the case of a letter; a value with a blank inside; a prefix of another value
	{"p=1,app=A", "app=A,p=1"},
	{"p=1,app=\"a b\"", "app=\"a b\" , p=1"},
	{"p=1,app=ab", "app=ab,p=1"},
}
var badTags = []string{"", "novalue", "{p=1", "a=b=c,,"}

// a field text with a name or a value at the limit of the one-byte length prefix: 254, 255 (stored), 256, 257 bytes
// (cannot be stored: a write-level text is rejected, an event's own text gives no fields)
func genLongKV(r *Rng) string {
	n := r.PickInt(254, 255, 255, 256, 256, 257)
	piece := string(r.Bytes(n, []byte("abcdefghijklmnopqrstuvwxyz0123456789")))
	var kv string
	if r.Chance(1, 4) {
		kv = piece + "=v"
	} else {
		kv = "k=" + piece
	}
	switch r.Intn(3) {
	case 0:
		kv = "host=h1," + kv
	case 1:
		kv = kv + ",z=9"
	}
	return kv
}

func genBatchAE(r *Rng, n int, budget *int) []AE {
	var evs []AE
	for i := 0; i < n; i++ {
		e := AE{Ts: genTs(r), Msg: genMsg(r), Flds: genKV(r)}
		if r.Chance(1, 30) && *budget > 600 {
			e.Flds = genLongKV(r)
			*budget -= 260
		}
		if len(e.Msg) > 60 && *budget < 400 {
			e.Msg = e.Msg[:10]
		}
		*budget -= len(e.Msg) + 30
		evs = append(evs, e)
	}
	return evs
}

// sameShape: consecutive events whose records have the same layout (same message length, same fields length) and
// differ only in content: what a reader that compares or caches by shape, or keeps a reference into a reused read
// buffer, gets wrong
func sameShapeAEs(r *Rng, n int, budget *int) []AE {
	base := int64(r.Range(1000, 5000))
	mlen := r.Range(1, 10)
	two := r.Chance(1, 2)
	var evs []AE
	for i := 0; i < n; i++ {
		msg := []byte(strings.Repeat("m", mlen-1) + string(rune('a'+(i*7)%26)))
		f := fmt.Sprintf("f=%d", (i*3+1)%10)
		if two {
			f = fmt.Sprintf("host=h%d,dc=%c", (i*3+1)%10, rune('p'+i%9))
		}
		if r.Chance(1, 6) {
			f = "" // a record without fields between records with fields
		}
		*budget -= len(msg) + 30
		if i > 0 && r.Chance(1, 5) {
			// the same event again (same timestamp, message, fields): both are stored
			evs = append(evs, evs[len(evs)-1])
			continue
		}
		evs = append(evs, AE{Ts: base + int64(i), Msg: msg, Flds: f})
	}
	return evs
}

func sameShapeLEs(r *Rng, n int, budget *int) []LE {
	var les []LE
	for _, e := range sameShapeAEs(r, n, budget) {
		les = append(les, LE{Ts: e.Ts, Msg: e.Msg, Flds: []byte(field.Parse(e.Flds))})
	}
	return les
}

func genE2E(r *Rng) E2EReplay {
	rp := E2EReplay{Kind: "e2e", MaxRec: 4096}
	rp.MaxChunk = int64(r.PickInt(40, 60, 100, 150, 300, 300, 1000, 4000, 65536))
	if r.Chance(1, 10) {
		rp.MaxRec = int64(r.PickInt(40, 64, 100)) // some records will exceed it
	}
	exact := rp.MaxRec < 4096 && r.Chance(1, 2)
	nparts := r.Range(1, 3)
	// the partitions of the case: any of the pool (among them pairs that differ in the case of a letter only)
	perm := r.Perm(len(partPool))
	budget := 1800
	nreq := r.Range(1, 7)
	for i := 0; i < nreq && budget > 0; i++ {
		p := partPool[perm[r.Intn(nparts)]]
		tags := p[r.Intn(len(p))]
		if r.Chance(1, 12) {
			tags = badTags[r.Intn(len(badTags))]
		}
		n := r.PickInt(0, 1, 1, 2, 3, 5, 8, 17)
		if i > 0 && r.Chance(1, 10) {
			// the previous request once more: written twice, stored twice
			prev := rp.Reqs[len(rp.Reqs)-1]
			if prev.Kind != "raw" && len(prev.Flds) < 200 {
				budget -= 40 * (len(prev.Aes) + len(prev.Les))
				rp.Reqs = append(rp.Reqs, prev)
				continue
			}
		}
		switch x := r.Intn(10); {
		case x < 6 && n >= 2 && r.Chance(1, 3):
			rp.Reqs = append(rp.Reqs, Req{Kind: "rpc", Tags: tags, Flds: r.PickStr("", "", "w=1"), Aes: sameShapeAEs(r, n, &budget)})
		case x < 6 && budget > 1000 && r.Chance(1, 6):
			// write-level fields at the length limit: every event of the batch carries them
			if n > 3 {
				n = 3
			}
			budget -= 270 * (n + 1)
			rp.Reqs = append(rp.Reqs, Req{Kind: "rpc", Tags: tags, Flds: genLongKV(r), Aes: genBatchAE(r, n, &budget)})
		case x < 6:
			rp.Reqs = append(rp.Reqs, Req{Kind: "rpc", Tags: tags, Flds: genKV(r), Aes: genBatchAE(r, n, &budget)})
		case x < 9 && n >= 2 && r.Chance(1, 3):
			rp.Reqs = append(rp.Reqs, Req{Kind: "dir", Tags: tags, Les: sameShapeLEs(r, n, &budget)})
		case x < 9:
			var les []LE
			for k := 0; k < n; k++ {
				e := genLE(r, false)
				if len(e.Msg) > 60 && budget < 400 {
					e.Msg = e.Msg[:10]
				}
				budget -= len(e.Msg) + len(e.Flds) + 20
				les = append(les, e)
			}
			rp.Reqs = append(rp.Reqs, Req{Kind: "dir", Tags: tags, Les: les})
		default:
			evs := genBatchAE(r, r.Range(1, 4), &budget)
			body, _, _ := rpc.VC01EncodeWritePacket(tags, genKV(r), toApis(evs))
			// truncate inside the event list or raise the count: the packet iterator serves the decodable prefix
			hdr := len(body)
			for _, e := range evs {
				hdr -= rpc.VC01LogEventSize(toApi(e))
			}
			switch r.Intn(4) {
			case 0:
				body = body[:hdr+r.Intn(len(body)-hdr+1)]
			case 1:
				body[hdr-1] += byte(r.Range(1, 3))
			case 2:
				body = body[:r.Intn(hdr+1)]
			case 3:
				body[hdr-1] -= byte(r.Range(1, len(evs))) // fewer declared than carried: the rest is ignored
			}
			rp.Reqs = append(rp.Reqs, Req{Kind: "raw", Body: body})
		}
	}
	if exact {
		// records of exactly MaxRecordSize (stored, readable) and MaxRecordSize+1 bytes (refused): 1 + 8 + 1 + message
		p := partPool[perm[0]]
		at := r.Bytes(int(rp.MaxRec)-10, []byte("abcdefgh"))
		rp.Reqs = append(rp.Reqs, Req{Kind: "dir", Tags: p[0], Les: []LE{{Ts: 7, Msg: at}}},
			Req{Kind: "rpc", Tags: p[0], Aes: []AE{{Ts: 8, Msg: append(append([]byte{}, at...), 'x')}}})
	}
	return rp
}

// direct writes to 1-2 partitions of the storage-only server; the write events are observed
func genPos(r *Rng) E2EReplay {
	rp := E2EReplay{Kind: "pos", MaxRec: 4096, MaxChunk: int64(r.PickInt(40, 60, 100, 150, 300, 1000))}
	if r.Chance(1, 5) {
		rp.MaxRec = int64(r.PickInt(40, 64, 100)) // some records will exceed it: the batch is rejected at that event
	}
	if r.Chance(1, 6) {
		rp.NoLimit = true // the service does not know the limit: nothing is rejected for its size
	}
	nparts := r.Range(1, 2)
	budget := 1500
	nreq := r.Range(2, 7)
	for i := 0; i < nreq && budget > 0; i++ {
		p := partPool[r.Intn(nparts)]
		tags := p[r.Intn(len(p))]
		if r.Chance(1, 15) {
			tags = badTags[r.Intn(len(badTags))]
		}
		n := r.PickInt(0, 1, 1, 2, 3, 5, 8, 13)
		var les []LE
		for k := 0; k < n; k++ {
			e := genLE(r, false)
			if len(e.Msg) > 60 {
				e.Msg = e.Msg[:12]
			}
			budget -= len(e.Msg) + len(e.Flds) + 20
			les = append(les, e)
		}
		rp.Reqs = append(rp.Reqs, Req{Kind: "dir", Tags: tags, Les: les})
	}
	return rp
}

func genConc(r *Rng) E2EReplay {
	rp := E2EReplay{Kind: "conc", MaxRec: 4096, MaxChunk: int64(r.PickInt(60, 120, 200, 400))}
	if r.Chance(1, 4) {
		rp.MaxRec = int64(r.PickInt(36, 40, 48)) // events with longer fields exceed it: their writer stops there, failed
	}
	k := r.Range(2, 4)
	for w := 0; w < k; w++ {
		n := r.Range(4, 12)
		var b []LE
		for i := 0; i < n; i++ {
			msg := []byte(fmt.Sprintf("w%d-%03d-", w, i))
			msg = append(msg, r.Bytes(r.Intn(12), []byte("xyz"))...)
			b = append(b, LE{Ts: int64(1000*w + i), Msg: msg, Flds: genBinFields(r, false)})
		}
		rp.Batches = append(rp.Batches, b)
	}
	return rp
}

// reading while writing: one partition, an initial batch, then 1-4 batches (rpc or direct) that arrive while a reader
// waits at the end of the partition
func genTail(r *Rng) E2EReplay {
	rp := E2EReplay{Kind: "tail", MaxRec: 4096, MaxChunk: int64(r.PickInt(60, 150, 400, 4000))}
	tags := r.PickStr("tail=1,app=t", "app=t, tail=1")
	ts := int64(r.Range(100, 5000))
	nb := r.Range(2, 5)
	for b := 0; b < nb; b++ {
		n := r.Range(1, 4)
		if r.Chance(1, 2) {
			var aes []AE
			for i := 0; i < n; i++ {
				ts += int64(r.Range(0, 3))
				aes = append(aes, AE{Ts: ts, Msg: []byte(fmt.Sprintf("b%d-e%d-%s", b, i, r.Bytes(r.Intn(10), []byte("xyz")))), Flds: r.PickStr("", "", "f=1", "host=h1,dc=x")})
			}
			rp.Reqs = append(rp.Reqs, Req{Kind: "rpc", Tags: tags, Flds: r.PickStr("", "w=1"), Aes: aes})
		} else {
			var les []LE
			for i := 0; i < n; i++ {
				ts += int64(r.Range(0, 3))
				les = append(les, LE{Ts: ts, Msg: []byte(fmt.Sprintf("b%d-d%d-%s", b, i, r.Bytes(r.Intn(10), []byte("xyz")))), Flds: genBinFields(r, false)})
			}
			rp.Reqs = append(rp.Reqs, Req{Kind: "dir", Tags: tags, Les: les})
		}
	}
	return rp
}

// clean stops and starts: 1-3 segments; every segment writes to 2-4 partitions (RPC and direct), the last writes of a
// segment come right before the stop, so that their tails are still in the write buffers
func genRestart(r *Rng) E2EReplay {
	rp := E2EReplay{Kind: "restart", MaxRec: 4096, MaxChunk: int64(r.PickInt(150, 400, 1000, 4096, 65536))}
	nparts := r.Range(2, 4)
	perm := r.Perm(len(partPool))
	ts := int64(r.Range(100, 5000))
	nseg := r.Range(1, 3)
	for sgi := 0; sgi < nseg; sgi++ {
		if sgi > 0 {
			rp.Reqs = append(rp.Reqs, Req{Kind: "restart"})
		}
		order := r.Perm(nparts)
		nw := r.Range(nparts, nparts+2)
		for w := 0; w < nw; w++ {
			p := partPool[perm[order[w%nparts]]]
			tags := p[r.Intn(len(p))]
			n := r.PickInt(1, 2, 3, 5, 9)
			if r.Chance(1, 2) {
				var aes []AE
				for i := 0; i < n; i++ {
					ts += int64(r.Range(0, 2))
					aes = append(aes, AE{Ts: ts, Msg: []byte(fmt.Sprintf("s%d-w%d-e%d-%s", sgi, w, i, r.Bytes(r.Intn(12), []byte("xyz")))), Flds: r.PickStr("", "", "f=1", "host=h1,dc=x")})
				}
				rp.Reqs = append(rp.Reqs, Req{Kind: "rpc", Tags: tags, Flds: r.PickStr("", "w=1"), Aes: aes})
			} else {
				var les []LE
				for i := 0; i < n; i++ {
					ts += int64(r.Range(0, 2))
					les = append(les, LE{Ts: ts, Msg: []byte(fmt.Sprintf("s%d-w%d-d%d-%s", sgi, w, i, r.Bytes(r.Intn(12), []byte("xyz")))), Flds: genBinFields(r, false)})
				}
				rp.Reqs = append(rp.Reqs, Req{Kind: "dir", Tags: tags, Les: les})
			}
		}
	}
	return rp
}

// deterministic corpus: always first
func corpus() []Replay {
	big := make([]byte, 1500)
	for i := range big {
		big[i] = 'x'
	}
	// witness of C01_reject_unlimited_refuted (the code before its repair acknowledged the record above MaxRecordSize,
	// then the partition could not be read): the write must be rejected and the partition stay readable
	oversize := E2EReplay{Kind: "e2e", MaxChunk: 65536, MaxRec: 1000, Note: "witness of C01_reject_unlimited_refuted: must be rejected", Reqs: []Req{
		{Kind: "rpc", Tags: "p=1,app=a", Aes: []AE{{Ts: 1, Msg: []byte("small")}}},
		{Kind: "rpc", Tags: "p=1,app=a", Aes: []AE{{Ts: 2, Msg: big}}},
		{Kind: "rpc", Tags: "p=1,app=a", Aes: []AE{{Ts: 3, Msg: []byte("after")}}},
	}}
	// a packet whose count says 2 events but which carries 1 (witness of C01_reject_truncated_eof_refuted): must be
	// rejected; the event it carries may be stored
	body, _, _ := rpc.VC01EncodeWritePacket("p=1,app=a", "", toApis([]AE{{Ts: 7, Msg: []byte("only")}}))
	hdr := len(body) - rpc.VC01LogEventSize(toApi(AE{Ts: 7, Msg: []byte("only")}))
	body[hdr-1] = 2
	trunc := E2EReplay{Kind: "e2e", MaxChunk: 65536, MaxRec: 4096, Note: "witness of C01_reject_truncated_eof_refuted: must be rejected", Reqs: []Req{{Kind: "raw", Body: body}}}
	// roll-over inside a batch with fields on both levels
	roll := E2EReplay{Kind: "e2e", MaxChunk: 100, MaxRec: 4096, Reqs: []Req{
		{Kind: "rpc", Tags: "p=1,app=a", Flds: "host=h1", Aes: []AE{{Ts: 1, Msg: []byte("0123456789012345678901234567890123456789"), Flds: "e=1"}, {Ts: 2, Msg: []byte("b")}, {Ts: 3, Msg: []byte("0123456789012345678901234567890123456789"), Flds: "x=y"},
			{Ts: 4, Msg: []byte("0123456789012345678901234567890123456789")}, {Ts: 5, Msg: []byte{}}, {Ts: -6, Msg: []byte{0, 255}}}},
		{Kind: "dir", Tags: "app=a, p=1", Les: []LE{{Ts: 9, Msg: []byte("direct")}}},
	}}
	// field names/values at the limit of the one-byte length prefix (255 stored, 256 and 257 not), write-level and
	// per event. The 256 bytes value is built so that, should it be stored with its length wrapped to 0, the list
	// still scans (as other pairs) and the read shows the different fields instead of crashing the reader
	v256 := "@" + strings.Repeat("a", 64) + ">" + strings.Repeat("b", 62) + "@" + strings.Repeat("c", 64) + ">" + strings.Repeat("d", 62)
	v255, v257 := v256[:255], v256+"e"
	three := func(base int64, own string) []AE {
		return []AE{{Ts: base, Msg: []byte("m0"), Flds: own}, {Ts: base + 1, Msg: []byte("m1")}, {Ts: base + 2, Msg: []byte("m2"), Flds: "a=1"}}
	}
	limit := E2EReplay{Kind: "e2e", MaxChunk: 65536, MaxRec: 4096, Note: "field names and values of 255 / 256 / 257 bytes", Reqs: []Req{
		{Kind: "rpc", Tags: "p=1,app=a", Flds: "host=h1,k=" + v255, Aes: three(10, "e=5")},
		{Kind: "rpc", Tags: "p=1,app=a", Flds: "host=h1,k=" + v256, Aes: three(20, "")},
		{Kind: "rpc", Tags: "p=1,app=a", Flds: "host=h1,k=" + v257, Aes: three(30, "")},
		{Kind: "rpc", Tags: "p=1,app=a", Flds: v256[:255] + "=n", Aes: three(40, "")},
		{Kind: "rpc", Tags: "p=1,app=a", Flds: v256 + "=n", Aes: three(50, "")},
		{Kind: "rpc", Tags: "p=1,app=a", Flds: "w=1", Aes: three(60, "k="+v255)},
		{Kind: "rpc", Tags: "p=1,app=a", Flds: "w=1", Aes: three(70, "k="+v256)},
		{Kind: "rpc", Tags: "p=1,app=a", Flds: "", Aes: three(80, "k="+v257+",x=y")},
	}}
	// reading while writing, with the extras: request validation of both queriers, a wait that expires, requests after
	// the server stopped
	tail := E2EReplay{Kind: "tail", MaxChunk: 200, MaxRec: 4096, Extras: true, Reqs: []Req{
		{Kind: "rpc", Tags: "tail=1,app=t", Flds: "w=1", Aes: []AE{{Ts: 1, Msg: []byte("first"), Flds: "f=1"}, {Ts: 2, Msg: []byte("second")}}},
		{Kind: "dir", Tags: "tail=1,app=t", Les: []LE{{Ts: 3, Msg: []byte("third-direct")}, {Ts: 4, Msg: []byte("fourth-direct"), Flds: []byte("\x01k\x01v")}}},
		{Kind: "rpc", Tags: "tail=1,app=t", Aes: []AE{{Ts: 5, Msg: []byte("fifth")}}},
	}}
	// MaxRecordSize 0 in the configuration: writers and readers work with the dependency's default (16384); a record
	// above it is rejected, one just below it is stored and its write event is right
	mk := func(n int, c byte) []byte { return []byte(strings.Repeat(string(rune(c)), n)) }
	defRec := E2EReplay{Kind: "pos", MaxChunk: 65536, MaxRec: 0, Note: "MaxRecordSize=0: the default limit", Reqs: []Req{
		{Kind: "dir", Tags: "p=1,app=a", Les: []LE{{Ts: 1, Msg: []byte("small")}}},
		{Kind: "dir", Tags: "p=1,app=a", Les: []LE{{Ts: 2, Msg: []byte("before")}, {Ts: 3, Msg: mk(16384, 'o')}, {Ts: 4, Msg: []byte("after the oversize one")}}},
		{Kind: "dir", Tags: "p=1,app=a", Les: []LE{{Ts: 5, Msg: mk(16384-12, 'f')}}},
		// records of exactly 16384 (the limit: taken) and 16385 bytes (refused): 1 + 8 + 2 + message
		{Kind: "dir", Tags: "p=1,app=a", Les: []LE{{Ts: 6, Msg: mk(16384-11, 'g')}}},
		{Kind: "dir", Tags: "p=1,app=a", Les: []LE{{Ts: 7, Msg: mk(16384-10, 'h')}}},
	}}
	// a service without the configuration: no limit, the same oversize record is taken
	noLim := E2EReplay{Kind: "pos", MaxChunk: 1000, MaxRec: 64, NoLimit: true, Note: "no write limit (w_limit = 0)", Reqs: []Req{
		{Kind: "dir", Tags: "p=1,app=a", Les: []LE{{Ts: 1, Msg: []byte("small")}, {Ts: 2, Msg: mk(100, 'b')}, {Ts: 3, Msg: []byte("after")}}},
	}}
	// ---- boundaries (generator audit): the exact value and both neighbours of every size the mechanism compares
	// records of MaxRecordSize-1, MaxRecordSize (both stored and readable) and MaxRecordSize+1 bytes (rejected), through
	// the RPC and directly, without and with fields (record = 1 + 8 + prefix + message [+ prefix + fields])
	atRec := E2EReplay{Kind: "e2e", MaxChunk: 65536, MaxRec: 100, Note: "records of MaxRecordSize-1 / MaxRecordSize / MaxRecordSize+1 bytes", Reqs: []Req{
		{Kind: "rpc", Tags: "p=1,app=a", Aes: []AE{{Ts: 1, Msg: mk(89, 'a')}}},
		{Kind: "rpc", Tags: "p=1,app=a", Aes: []AE{{Ts: 2, Msg: mk(90, 'b')}}},
		{Kind: "rpc", Tags: "p=1,app=a", Aes: []AE{{Ts: 3, Msg: mk(91, 'c')}}},
		{Kind: "dir", Tags: "p=1,app=a", Les: []LE{{Ts: 4, Msg: mk(90, 'd')}, {Ts: 5, Msg: mk(91, 'e')}, {Ts: 6, Msg: mk(1, 'f')}}},
		{Kind: "rpc", Tags: "p=1,app=a", Flds: "f=1", Aes: []AE{{Ts: 7, Msg: mk(85, 'g')}, {Ts: 8, Msg: mk(84, 'h')}}},
		{Kind: "rpc", Tags: "p=1,app=a", Flds: "f=1", Aes: []AE{{Ts: 9, Msg: mk(86, 'i')}}},
		{Kind: "rpc", Tags: "p=1,app=a", Aes: []AE{{Ts: 10, Msg: mk(86, 'j'), Flds: "f=1"}, {Ts: 11, Msg: mk(85, 'k'), Flds: "f=1"}}},
	}}
	// chunk sizes at the sum of whole records: every record takes 4 + 26 bytes of the chunk; MaxChunkSize 59 / 60 / 61
	edge := func(mc int64) *E2EReplay {
		var aes []AE
		for i := 0; i < 7; i++ {
			aes = append(aes, AE{Ts: int64(100 + i), Msg: mk(16, byte('a'+i))})
		}
		return &E2EReplay{Kind: "e2e", MaxChunk: mc, MaxRec: 4096, Note: "chunk size at a whole number of records", Reqs: []Req{
			{Kind: "rpc", Tags: "p=1,app=a", Aes: aes[:5]}, {Kind: "dir", Tags: "p=1,app=a", Les: []LE{{Ts: 200, Msg: mk(16, 'x')}, {Ts: 201, Msg: mk(16, 'y')}}}, {Kind: "rpc", Tags: "p=1,app=a", Aes: aes[5:]}}}
	}
	// one batch of 260 events (more than one byte of the count, more than the 4096 bytes the result builder starts
	// with, several chunks), message lengths around the step of the length prefix (127 | 128)
	var manyAes []AE
	for i := 0; i < 260; i++ {
		m := []byte(fmt.Sprintf("e%03d", i))
		if i%64 == 63 {
			m = mk(126+i/64%4, byte('A'+i/64))
		}
		manyAes = append(manyAes, AE{Ts: int64(1000 + i/2), Msg: m})
	}
	many := E2EReplay{Kind: "e2e", MaxChunk: 1000, MaxRec: 4096, Note: "260 events in one batch", Reqs: []Req{{Kind: "rpc", Tags: "p=2,app=a", Flds: "w=1", Aes: manyAes}}}
	// equal neighbours: the same batch twice (RPC and direct), the same event twice inside a batch, partitions whose tags
	// differ in the case of a letter only / are prefixes of each other / hold a blank, the same content in all of them
	same := []AE{{Ts: 5, Msg: []byte("same"), Flds: "f=1"}, {Ts: 5, Msg: []byte("same"), Flds: "f=1"}, {Ts: 5, Msg: []byte("samf"), Flds: "f=1"}}
	sameLes := []LE{{Ts: 5, Msg: []byte("same"), Flds: []byte("\x01f\x011")}, {Ts: 5, Msg: []byte("same"), Flds: []byte("\x01f\x011")}}
	twins := E2EReplay{Kind: "e2e", MaxChunk: 150, MaxRec: 4096, Note: "the same batch twice; partitions that differ in case only", Reqs: []Req{
		{Kind: "rpc", Tags: "p=1,app=a", Aes: same}, {Kind: "rpc", Tags: "p=1,app=a", Aes: same},
		{Kind: "rpc", Tags: "p=1,app=A", Aes: same}, {Kind: "rpc", Tags: "P=1,app=a", Aes: same[:1]},
		{Kind: "dir", Tags: "app=a,p=1", Les: sameLes}, {Kind: "dir", Tags: "app=a,p=1", Les: sameLes},
		{Kind: "rpc", Tags: "p=1,app=ab", Aes: same[2:]}, {Kind: "rpc", Tags: "p=1,app=\"a b\"", Aes: same[:2]},
		{Kind: "rpc", Tags: "p=1,app=a", Aes: nil}, {Kind: "dir", Tags: "p=1,app=a", Les: nil},
	}}
	// more pairs than the 20 the field parser's fixed array holds, on both levels; 19 / 20 / 21 pairs
	pairs := E2EReplay{Kind: "e2e", MaxChunk: 65536, MaxRec: 4096, Note: "19 / 20 / 21 / 25 field pairs", Reqs: []Req{
		{Kind: "rpc", Tags: "p=3,app=b", Flds: manyKV(19, "w"), Aes: []AE{{Ts: 1, Msg: []byte("m1"), Flds: manyKV(21, "e")}}},
		{Kind: "rpc", Tags: "p=3,app=b", Flds: manyKV(20, "w"), Aes: []AE{{Ts: 2, Msg: []byte("m2"), Flds: manyKV(20, "e")}}},
		{Kind: "rpc", Tags: "p=3,app=b", Flds: manyKV(21, "w"), Aes: []AE{{Ts: 3, Msg: []byte("m3"), Flds: manyKV(19, "e")}}},
		{Kind: "rpc", Tags: "p=3,app=b", Flds: manyKV(25, "w"), Aes: []AE{{Ts: 4, Msg: []byte("m4"), Flds: manyKV(25, "e")}, {Ts: 5, Msg: []byte("m5")}}},
	}}
	// the count of a packet at the ends of uint32 (two events carried): rejected, the two events may be stored
	hugeBody, _, _ := rpc.VC01EncodeWritePacket("p=1,app=a", "", toApis(same[:2]))
	hdr2 := len(hugeBody) - 2*rpc.VC01LogEventSize(toApi(same[0]))
	copy(hugeBody[hdr2-4:hdr2], []byte{0xff, 0xff, 0xff, 0xff})
	halfBody := append([]byte{}, hugeBody...)
	copy(halfBody[hdr2-4:hdr2], []byte{0x80, 0, 0, 0})
	counts := E2EReplay{Kind: "e2e", MaxChunk: 65536, MaxRec: 4096, Note: "packet counts 0xffffffff and 0x80000000", Reqs: []Req{{Kind: "raw", Body: hugeBody}, {Kind: "raw", Body: halfBody}}}
	// clean stop and start with unflushed tails in four partitions (and in three of them again after the first restart):
	// 30 events per partition and segment, chunks of 1000 bytes (full chunks are synced when the writer moves on, the
	// last one of every partition is in the write buffer at the stop)
	batch := func(seg, p, n int) []AE {
		var aes []AE
		for i := 0; i < n; i++ {
			aes = append(aes, AE{Ts: int64(1000*seg + i), Msg: []byte(fmt.Sprintf("seg%d-part%d-event%02d-0123456789", seg, p, i)), Flds: "f=1"})
		}
		return aes
	}
	restart := E2EReplay{Kind: "restart", MaxChunk: 1000, MaxRec: 4096, Note: "clean stop with buffered tails in 4 partitions, twice", Reqs: []Req{
		{Kind: "rpc", Tags: "p=1,app=a", Flds: "w=1", Aes: batch(0, 1, 30)}, {Kind: "rpc", Tags: "p=2,app=a", Aes: batch(0, 2, 30)},
		{Kind: "rpc", Tags: "p=3,app=b", Aes: batch(0, 3, 30)}, {Kind: "dir", Tags: "p=1,app=A", Les: []LE{{Ts: 1, Msg: []byte("direct-0")}, {Ts: 2, Msg: []byte("direct-1"), Flds: []byte("\x01k\x01v")}}},
		{Kind: "restart"},
		{Kind: "rpc", Tags: "p=2,app=a", Aes: batch(1, 2, 30)}, {Kind: "rpc", Tags: "p=3,app=b", Aes: batch(1, 3, 7)}, {Kind: "dir", Tags: "p=1,app=A", Les: []LE{{Ts: 3, Msg: []byte("direct-2")}}},
		{Kind: "restart"},
		{Kind: "restart"},
	}}
	return []Replay{{E2E: &oversize}, {E2E: &trunc}, {E2E: &roll}, {E2E: &limit}, {E2E: &tail}, {E2E: &defRec}, {E2E: &noLim}, {E2E: &restart},
		{E2E: &atRec}, {E2E: edge(59)}, {E2E: edge(60)}, {E2E: edge(61)}, {E2E: &many}, {E2E: &twins}, {E2E: &pairs}, {E2E: &counts}}
}

// ---------------------------------------------------------------- crash isolation
// The end-to-end cases run the whole server in-process. A code change that makes a server goroutine panic
// (nothing recovers on the RPC path) or spin for ever would take the harness down with it and the verdict
// would be lost. So these cases run in a child process (this binary, C01_CHILD set): the child appends one
// JSON line per finished case; when it dies or hangs the parent re-runs the cases that were in flight one by
// one and turns a repeated crash / hang into an oracle verdict with that case as the replay.

type childRes struct {
	Idx        int        `json:"idx"`
	Coq        string     `json:"coq"`
	NonTrivial bool       `json:"nontrivial"`
	Oracle     *Violation `json:"oracle,omitempty"`
	Tags       []string   `json:"tags,omitempty"`
	Stream     string     `json:"stream"`
	Key        string     `json:"key,omitempty"`
	Err        string     `json:"err,omitempty"`
}

const dummyCoq = "(KVarint 0%N [x00] 1%nat)"

func childMain(jobsFile, outFile string) {
	Quiet()
	// as many file descriptors as the hard limit allows (chunk writers keep theirs until the idle time-out)
	var rl syscall.Rlimit
	if syscall.Getrlimit(syscall.RLIMIT_NOFILE, &rl) == nil && rl.Cur < rl.Max {
		rl.Cur = rl.Max
		syscall.Setrlimit(syscall.RLIMIT_NOFILE, &rl)
	}
	data, err := ioutil.ReadFile(jobsFile)
	if err != nil {
		fmt.Fprintln(os.Stderr, err)
		os.Exit(2)
	}
	var jobs []struct {
		Idx int    `json:"idx"`
		Rp  Replay `json:"rp"`
	}
	if err := json.Unmarshal(data, &jobs); err != nil {
		fmt.Fprintln(os.Stderr, err)
		os.Exit(2)
	}
	f, err := os.OpenFile(outFile, os.O_CREATE|os.O_WRONLY|os.O_APPEND, 0644)
	if err != nil {
		fmt.Fprintln(os.Stderr, err)
		os.Exit(2)
	}
	var mu sync.Mutex
	emit := func(v interface{}) {
		b, _ := json.Marshal(v)
		mu.Lock()
		f.Write(append(b, '\n'))
		mu.Unlock()
	}
	Parallel(len(jobs), 8, func(i int) {
		emit(map[string]int{"start": jobs[i].Idx})
		cs, err := mkCase(jobs[i].Rp)
		r := childRes{Idx: jobs[i].Idx}
		if err != nil {
			r.Err = err.Error()
		} else {
			r.Coq, r.NonTrivial, r.Oracle, r.Tags, r.Stream, r.Key = cs.Coq, cs.NonTrivial, cs.Oracle, cs.Tags, cs.Stream, cs.Key
		}
		emit(r)
	})
	f.Close()
	os.Exit(0)
}

// runChild runs the jobs (index -> replay) in one child; returns the finished results, the indices that were
// started but not finished, and how the child ended ("" = clean)
func runChild(c *Ctx, jobs map[int]Replay, timeout time.Duration) (map[int]childRes, []int, string, error) {
	dir, err := ioutil.TempDir(os.Getenv("VERIF_SCRATCH"), "lrv-c01child-")
	if err != nil {
		return nil, nil, "", err
	}
	defer os.RemoveAll(dir)
	type jb struct {
		Idx int    `json:"idx"`
		Rp  Replay `json:"rp"`
	}
	var lst []jb
	for i, rp := range jobs {
		lst = append(lst, jb{i, rp})
	}
	sort.Slice(lst, func(a, b int) bool { return lst[a].Idx < lst[b].Idx })
	data, _ := json.Marshal(lst)
	jf, of := filepath.Join(dir, "jobs.json"), filepath.Join(dir, "out.jsonl")
	if err := ioutil.WriteFile(jf, data, 0644); err != nil {
		return nil, nil, "", err
	}
	exe, err := os.Executable()
	if err != nil {
		return nil, nil, "", err
	}
	scratch := filepath.Join(dir, "scratch")
	os.MkdirAll(scratch, 0755)
	cmd := exec.Command(exe)
	cmd.Env = append(os.Environ(), "C01_CHILD="+jf, "C01_CHILD_OUT="+of, "VERIF_SCRATCH="+scratch, "TMPDIR="+scratch)
	var stderr bytes.Buffer
	cmd.Stderr = &stderr
	if err := cmd.Start(); err != nil {
		return nil, nil, "", err
	}
	done := make(chan error, 1)
	go func() { done <- cmd.Wait() }()
	how := ""
	deadline := time.After(timeout)
	tick := time.NewTicker(500 * time.Millisecond)
	defer tick.Stop()
wait:
	for {
		select {
		case e := <-done:
			if e != nil {
				tail := stderr.String()
				if len(tail) > 1500 {
					tail = tail[:1500]
				}
				how = "crashed: " + e.Error() + ": " + tail
			}
			break wait
		case <-deadline:
			cmd.Process.Kill()
			<-done
			how = fmt.Sprintf("did not finish within %s", timeout)
			break wait
		case <-tick.C:
			// a write loop that never ends fills the disk: the cases here store a few KB
			if sz, nf := dirSize(scratch); sz > 256<<20 || nf > 50000 {
				cmd.Process.Kill()
				<-done
				how = fmt.Sprintf("did not finish: it had written %d MB in %d files to its data directory when it was stopped (runaway write)", sz>>20, nf)
				break wait
			}
		}
	}
	res := map[int]childRes{}
	started := map[int]bool{}
	if out, err := ioutil.ReadFile(of); err == nil {
		for _, line := range strings.Split(string(out), "\n") {
			if line == "" {
				continue
			}
			var st struct {
				Start *int `json:"start"`
			}
			if json.Unmarshal([]byte(line), &st) == nil && st.Start != nil {
				started[*st.Start] = true
				continue
			}
			var r childRes
			if json.Unmarshal([]byte(line), &r) == nil {
				res[r.Idx] = r
			}
		}
	}
	var inflight []int
	for i := range started {
		if _, ok := res[i]; !ok {
			inflight = append(inflight, i)
		}
	}
	sort.Ints(inflight)
	return res, inflight, how, nil
}

func dirSize(d string) (int64, int) {
	var n int64
	files := 0
	filepath.Walk(d, func(_ string, fi os.FileInfo, err error) error {
		if err == nil && !fi.IsDir() {
			n += fi.Size()
			files++
		}
		return nil
	})
	return n, files
}

// runIsolated runs all jobs in child processes and returns one result per job. A child hosts at most 25 cases:
// a stopped server keeps the file descriptors of its chunk writers until their idle time-out (the journal
// controller has no Shutdown), so a long-lived process would run out of descriptors.
func runIsolated(c *Ctx, jobs map[int]Replay) (map[int]childRes, error) {
	var idx []int
	for i := range jobs {
		idx = append(idx, i)
	}
	sort.Ints(idx)
	all := map[int]childRes{}
	for lo := 0; lo < len(idx); lo += 25 {
		hi := lo + 25
		if hi > len(idx) {
			hi = len(idx)
		}
		part := map[int]Replay{}
		for _, i := range idx[lo:hi] {
			part[i] = jobs[i]
		}
		res, err := runIsolatedPart(c, part)
		if err != nil {
			return nil, err
		}
		stop := false
		for i, r := range res {
			all[i] = r
			if o := r.Oracle; o != nil && (o.Class == "server-crashed" || o.Class == "request-did-not-return") {
				stop = true
			}
		}
		if stop {
			for _, i := range idx[hi:] {
				all[i] = childRes{Idx: i, Stream: "skipped"}
			}
			break
		}
	}
	return all, nil
}

func runIsolatedPart(c *Ctx, jobs map[int]Replay) (map[int]childRes, error) {
	all := map[int]childRes{}
	todo := map[int]Replay{}
	for i, rp := range jobs {
		todo[i] = rp
	}
	for round := 0; len(todo) > 0 && round < 20; round++ {
		res, inflight, how, err := runChild(c, todo, 150*time.Second)
		if err != nil {
			return nil, err
		}
		// a case that reports a harness error next to siblings (e.g. "too many open files" while a sibling runs
		// away) is not final: it is re-run alone like the cases that were in flight
		for i, r := range res {
			if r.Err != "" && len(todo) > 1 {
				inflight = append(inflight, i)
				continue
			}
			all[i] = r
			delete(todo, i)
		}
		if how == "" && len(inflight) == 0 {
			break
		}
		if how == "" {
			how = "finished, with harness errors in some cases"
		}
		// the child died or hung: pin down which of the cases in flight does it, each alone in its own child
		type one struct {
			r   map[int]childRes
			how string
			err error
		}
		ones := make([]one, len(inflight))
		Parallel(len(inflight), 8, func(k int) {
			i := inflight[k]
			r1, _, how1, err := runChild(c, map[int]Replay{i: todo[i]}, 75*time.Second)
			ones[k] = one{r1, how1, err}
		})
		for k, i := range inflight {
			if ones[k].err != nil {
				return nil, ones[k].err
			}
			if r, ok := ones[k].r[i]; ok && ones[k].how == "" {
				all[i] = r
			} else {
				cls := "server-crashed"
				if strings.HasPrefix(ones[k].how, "did not finish") {
					cls = "request-did-not-return"
				}
				all[i] = childRes{Idx: i, Coq: dummyCoq, Stream: "e2e", Oracle: &Violation{Class: cls, Detail: "running this case alone, the process hosting the server " + ones[k].how}}
			}
			delete(todo, i)
		}
		if len(inflight) == 0 {
			return nil, fmt.Errorf("child %s with no case in flight", how)
		}
		// a case that kills or hangs the server on its own is the verdict: the remaining cases are not run
		confirmed := false
		for _, i := range inflight {
			if o := all[i].Oracle; o != nil && (o.Class == "server-crashed" || o.Class == "request-did-not-return") {
				confirmed = true
			}
		}
		if confirmed {
			c.Note("cases_not_run_after_crash", len(todo))
			for i := range todo {
				all[i] = childRes{Idx: i, Stream: "skipped"}
			}
			return all, nil
		}
	}
	if len(todo) > 0 {
		return nil, fmt.Errorf("%d cases could not be run", len(todo))
	}
	return all, nil
}

func fromChild(r childRes, rp Replay) (Case, error) {
	if r.Err != "" {
		return Case{}, fmt.Errorf("%s", r.Err)
	}
	return Case{Coq: r.Coq, Replay: rp, NonTrivial: r.NonTrivial, Oracle: r.Oracle, Stream: r.Stream, Tags: r.Tags, Key: r.Key}, nil
}

func main() {
	if jf := os.Getenv("C01_CHILD"); jf != "" {
		childMain(jf, os.Getenv("C01_CHILD_OUT"))
		return
	}
	Main("C01", "C01K", func(c *Ctx) error {
		if c.Replay != nil {
			var rp Replay
			if err := FromJSON(c.Replay, &rp); err != nil {
				return err
			}
			if rp.E2E != nil {
				res, err := runIsolated(c, map[int]Replay{0: rp})
				if err != nil {
					return err
				}
				cs, err := fromChild(res[0], rp)
				if err != nil {
					return err
				}
				c.Add(cs)
				return c.Finish(rule)
			}
			cs, err := mkCase(rp)
			if err != nil {
				return err
			}
			c.Add(*cs)
			return c.Finish(rule)
		}
		jobs := corpus()
		for _, u := range unitJobs(c) {
			u := u
			jobs = append(jobs, Replay{Unit: &u})
		}
		r := c.Rng.Fork()
		for i := 0; i < c.N(110); i++ {
			e := genE2E(r.Fork())
			jobs = append(jobs, Replay{E2E: &e})
		}
		for i := 0; i < c.N(14); i++ {
			e := genConc(r.Fork())
			jobs = append(jobs, Replay{E2E: &e})
		}
		for i := 0; i < c.N(6); i++ {
			e := genTail(r.Fork())
			jobs = append(jobs, Replay{E2E: &e})
		}
		for i := 0; i < c.N(5); i++ {
			e := genRestart(r.Fork())
			jobs = append(jobs, Replay{E2E: &e})
		}
		for i := 0; i < c.N(40); i++ {
			e := genPos(r.Fork())
			jobs = append(jobs, Replay{E2E: &e})
		}
		res := make([]*Case, len(jobs))
		errs := make([]error, len(jobs))
		iso := map[int]Replay{}
		for i, j := range jobs {
			if j.E2E != nil {
				iso[i] = j
			}
		}
		var isoRes map[int]childRes
		var isoErr error
		var wg sync.WaitGroup
		wg.Add(1)
		go func() { defer wg.Done(); isoRes, isoErr = runIsolated(c, iso) }()
		Parallel(len(jobs), 4, func(i int) {
			if jobs[i].Unit != nil {
				res[i], errs[i] = mkCase(jobs[i])
			}
		})
		wg.Wait()
		if isoErr != nil {
			return isoErr
		}
		for i := range jobs {
			if jobs[i].E2E != nil {
				if isoRes[i].Stream == "skipped" {
					continue
				}
				cs, err := fromChild(isoRes[i], jobs[i])
				res[i], errs[i] = &cs, err
			}
			if errs[i] != nil {
				return fmt.Errorf("case %d: %v", i, errs[i])
			}
			c.Add(*res[i])
		}
		return c.Finish(rule)
	})
}
