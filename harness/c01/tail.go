package main

import (
	"context"
	"fmt"
	"io"
	"time"

	"github.com/logrange/logrange/api"
	"github.com/logrange/logrange/pkg/model"
	"github.com/logrange/logrange/pkg/model/field"
	. "verifharness/common"
)

// ---------------------------------------------------------------- reading while writing
//
// runTail: one partition; the first request is written and flushed, then a reader pages through the partition with
// WaitTimeout > 0 - alternately through the RPC querier and backend.Querier, on one server-side cursor - while the other
// requests are written one by one. A page requested at the end of the partition blocks in WaitNewData until a write
// wakes it (or the timeout expires). Whatever the interleaving is, the concatenation of the pages is the concatenation
// of the acknowledged batches: every event once, in write order, intact. The same history goes to the model (KE2E):
// the pages together are its read_back.
// With Extras (corpus): before the reader starts both queriers are asked the same invalid / clamped / empty requests and
// must agree; after everything was read a page waits for its whole timeout and comes back empty, without error; after
// the server stopped neither a write nor a query is answered as if it had worked.
func runTail(rp E2EReplay) (*e2eOut, error) {
	srv, err := StartServer(ServerOpts{MaxChunkSize: rp.MaxChunk, MaxRecordSize: rp.MaxRec, WriteFlushMs: 5})
	if err != nil {
		return nil, fmt.Errorf("server start: %v", err)
	}
	defer srv.Stop()
	tuneFds(srv)
	ctx := context.Background()
	out := &e2eOut{}
	fail := func(class, detail string) {
		if out.viol == nil {
			out.viol = &Violation{Class: class, Detail: detail}
		}
	}
	if len(rp.Reqs) == 0 || len(rp.Reqs[0].Aes)+len(rp.Reqs[0].Les) == 0 {
		return nil, fmt.Errorf("tail case without an initial batch")
	}
	tags := rp.Reqs[0].Tags
	key, kok := normTags(tags)
	if !kok {
		return nil, fmt.Errorf("tail case with bad tags %q", tags)
	}
	ftab, ntab, kvtab := newTab(), newTab(), newTab()
	ntab.add(tags, []byte(key), true)
	var exp []expEv
	var acks, coqReqs []string
	write := func(i int, rq Req) error {
		if rq.Tags != tags {
			return fmt.Errorf("tail case with two partitions")
		}
		switch rq.Kind {
		case "rpc":
			var res api.WriteResult
			if err := srv.Client.Write(ctx, rq.Tags, rq.Flds, toApis(rq.Aes), &res); err != nil {
				return fmt.Errorf("rpc write: %v", err)
			}
			acks = append(acks, GBool(res.Err == nil))
			coqReqs = append(coqReqs, GApp("RpcW", fmt.Sprintf("{| w_tags := %s; w_flds := %s; w_evs := %s |}", GStr(rq.Tags), GStr(rq.Flds), gAEs(rq.Aes))))
			addFparse(ftab, rq.Flds)
			wf, ferr := writeFields(rq.Flds, fail)
			if ferr != nil {
				return fmt.Errorf("tail case with write-level fields that do not parse: %q", rq.Flds)
			}
			if res.Err != nil {
				fail("ack-mismatch", fmt.Sprintf("request %d: rejected: %v", i, res.Err))
			}
			for _, e := range rq.Aes {
				addFparse(ftab, e.Flds)
				exp = append(exp, expEv{e.Ts, e.Msg, append(append([]byte{}, wf...), eventFields(e.Flds, fail)...), 0})
			}
		case "dir":
			evs := make([]model.LogEvent, len(rq.Les))
			for k, e := range rq.Les {
				evs[k] = toModel(e)
			}
			err := srv.Partitions.Write(ctx, rq.Tags, &sliceIt{evs: evs}, true)
			acks = append(acks, GBool(err == nil))
			coqReqs = append(coqReqs, GApp("DirW", GStr(rq.Tags), gLEs(rq.Les)))
			if err != nil {
				fail("ack-mismatch", fmt.Sprintf("request %d (direct): rejected: %v", i, err))
			}
			for _, e := range rq.Les {
				exp = append(exp, expEv{e.Ts, e.Msg, e.Flds, 0})
			}
		default:
			return fmt.Errorf("tail case with a %s request", rq.Kind)
		}
		return nil
	}
	confirmed := func(n int) bool {
		return WaitFor(flushDeadline, func() bool {
			pi, err := srv.Partitions.GetParitionInfo(key)
			return err == nil && pi.Records >= uint64(n)
		})
	}
	if err := write(0, rp.Reqs[0]); err != nil {
		return nil, err
	}
	if !confirmed(len(exp)) {
		fail("acknowledged-not-readable", fmt.Sprintf("partition %s: %d records acknowledged, not confirmed after %s", key, len(exp), flushDeadline))
	}
	query := "SELECT FROM {" + key + "} LIMIT 10000"
	viaRPC := func(req api.QueryRequest) (*api.QueryResult, error) {
		var res api.QueryResult
		if err := srv.Client.Query(ctx, &req, &res); err != nil {
			return nil, err
		}
		return &res, res.Err
	}
	viaBackend := func(req api.QueryRequest) (*api.QueryResult, error) {
		res, err := srv.Querier.Query(ctx, &req)
		if err == io.EOF {
			err = nil // the backend querier hands the end of the stream through
		}
		return res, err
	}
	if rp.Extras {
		n0 := len(exp)
		// a negative limit: refused by backend.Querier (over RPC the limit travels as uint32, there is no negative one)
		if _, e := viaBackend(api.QueryRequest{Query: query, Limit: -1}); e == nil {
			fail("query-validation", "backend.Querier answered a query with limit -1")
		}
		if _, e := viaBackend(api.QueryRequest{Query: query, Limit: 5, WaitTimeout: -1}); e == nil {
			fail("query-validation", "backend.Querier answered a query with WaitTimeout -1")
		}
		type probe struct {
			what    string
			req     api.QueryRequest
			wantErr bool
			wantN   int
		}
		for _, p := range []probe{
			{"WaitTimeout above the maximum", api.QueryRequest{Query: query, Limit: 5, WaitTimeout: 61}, true, 0},
			{"a query text that does not parse", api.QueryRequest{Query: "SELECT FROM {" + key, Limit: 5}, true, 0},
			{"limit 0, not waiting", api.QueryRequest{Query: query, Limit: 0}, false, 0},
			{"limit above the maximum (clamped)", api.QueryRequest{Query: query, Limit: 20000}, false, n0},
			{"limit one above the maximum (clamped)", api.QueryRequest{Query: query, Limit: 10001}, false, n0},
			{"WaitTimeout at the maximum (data is there: answers at once)", api.QueryRequest{Query: query, Limit: 10000, WaitTimeout: 60}, false, n0},
		} {
			r1, e1 := viaRPC(p.req)
			r2, e2 := viaBackend(p.req)
			n1, n2 := -1, -1
			if e1 == nil && r1 != nil {
				n1 = len(r1.Events)
			}
			if e2 == nil && r2 != nil {
				n2 = len(r2.Events)
			}
			switch {
			case (e1 != nil) != p.wantErr || (e2 != nil) != p.wantErr:
				fail("query-validation", fmt.Sprintf("%s: rpc err=%v, backend err=%v, an error expected: %v", p.what, e1, e2, p.wantErr))
			case !p.wantErr && (n1 != p.wantN || n2 != p.wantN):
				fail("rpc-vs-backend", fmt.Sprintf("%s: rpc returned %d events, backend %d, the partition holds %d", p.what, n1, n2, p.wantN))
			case !p.wantErr && p.wantN > 0 && (r1.NextQueryRequest.Limit != 10000 || r2.NextQueryRequest.Limit != 10000):
				fail("query-validation", fmt.Sprintf("%s: the next request carries limit %d (rpc) / %d (backend), expected the clamped 10000", p.what, r1.NextQueryRequest.Limit, r2.NextQueryRequest.Limit))
			}
		}
	}

	// the reader
	total := len(exp)
	for _, rq := range rp.Reqs[1:] {
		total += len(rq.Aes) + len(rq.Les)
	}
	var got []RV
	pages, emptyPages := 0, 0
	var readErr error
	done := make(chan struct{})
	next := api.QueryRequest{Query: query, Limit: 10000, WaitTimeout: 2}
	readSome := func(until int, deadline time.Time) {
		for len(got) < until && time.Now().Before(deadline) && readErr == nil {
			pager := viaRPC
			if pages%2 == 1 {
				pager = viaBackend
			}
			res, err := pager(next)
			pages++
			if err != nil {
				readErr = fmt.Errorf("page %d: %v", pages, err)
				return
			}
			if len(res.Events) == 0 {
				emptyPages++
			}
			for _, e := range res.Events {
				got = append(got, RV{e.Timestamp, []byte(e.Message), e.Tags, e.Fields})
			}
			next = res.NextQueryRequest
			next.WaitTimeout = 2
		}
	}
	go func() {
		defer close(done)
		readSome(total, time.Now().Add(30*time.Second))
	}()
	for i, rq := range rp.Reqs[1:] {
		// give the reader the time to reach the end and block there (nothing depends on it: a reader that is not there
		// yet simply finds the events)
		time.Sleep(40 * time.Millisecond)
		if err := write(i+1, rq); err != nil {
			return nil, err
		}
	}
	<-done
	if rp.Extras && readErr == nil && len(got) == total {
		// nothing more comes: the page waits for its timeout and is empty; then the same through the other querier
		next.WaitTimeout = 1
		for _, pager := range []func(api.QueryRequest) (*api.QueryResult, error){viaRPC, viaBackend} {
			req := next
			req.WaitTimeout = 1
			t0 := time.Now()
			res, err := pager(req)
			switch {
			case err != nil:
				fail("tail-wait-expired-error", fmt.Sprintf("a page at the end of the partition with WaitTimeout=1 failed after %s: %v", time.Since(t0), err))
			case len(res.Events) != 0:
				fail("tail-events-extra", fmt.Sprintf("a page at the end of the partition returned %d events, everything had been read", len(res.Events)))
			default:
				next = res.NextQueryRequest
			}
		}
	}
	switch {
	case readErr != nil:
		fail("read-failed", fmt.Sprintf("partition %s: %v", key, readErr))
	case len(got) < len(exp):
		fail("tail-events-missing", fmt.Sprintf("partition %s: %d events acknowledged, the waiting reader got %d in %d pages", key, len(exp), len(got), pages))
	case len(got) > len(exp):
		fail("tail-events-extra", fmt.Sprintf("partition %s: %d events acknowledged, the waiting reader got %d in %d pages", key, len(exp), len(got), pages))
	default:
		for i, e := range exp {
			g := got[i]
			if g.Ts != e.ts || string(g.Msg) != string(e.msg) || g.Tags != key || g.Flds != field.Fields(string(e.flds)).AsKVString() {
				fail("tail-content", fmt.Sprintf("partition %s event %d: read (%d, %q, %q, %q), written (%d, %q, fields %q)", key, i, g.Ts, g.Msg, g.Tags, g.Flds, e.ts, e.msg, field.Fields(string(e.flds)).AsKVString()))
				break
			}
		}
	}
	for _, e := range exp {
		kvtab.add(string(e.flds), []byte(field.Fields(string(e.flds)).AsKVString()), true)
	}
	wes := make([]string, len(acks))
	for i := range wes {
		wes[i] = GNone
	}
	reads := []string{GPair(GStr(key), gOk(gRVs(got)))}
	if readErr != nil {
		reads = []string{GPair(GStr(key), gErr)}
	}
	out.coq = GApp("KE2E", gCfg(rp.MaxChunk, rp.MaxRec), ftab.gallina(), ntab.gallina(), kvtab.gallinaKV(), GList(coqReqs),
		GList(acks), GList(wes), GList(reads), "[]")
	out.nontriv = len(rp.Reqs) >= 3
	out.tags = append(out.tags, fmt.Sprintf("tail:batches=%d", len(rp.Reqs)))
	if pages > len(rp.Reqs) {
		out.tags = append(out.tags, "tail:more-pages-than-batches")
	}
	if rp.Extras {
		out.tags = append(out.tags, "tail:extras")
		// after the server stopped nothing is answered as if it had worked
		srv.Stop()
		var wres api.WriteResult
		werr := srv.Client.Write(ctx, tags, "", toApis([]AE{{Ts: 1, Msg: []byte("late")}}), &wres)
		if werr == nil && wres.Err == nil {
			fail("write-after-stop-acknowledged", "a write sent after the server stopped came back without a transport error and without WriteResult.Err")
		}
		var qres api.QueryResult
		qerr := srv.Client.Query(ctx, &api.QueryRequest{Query: query, Limit: 5}, &qres)
		if qerr == nil && qres.Err == nil {
			fail("query-after-stop-answered", fmt.Sprintf("a query sent after the server stopped came back without any error (%d events)", len(qres.Events)))
		}
	}
	return out, nil
}
