package main

import (
	"context"
	"fmt"
	"os"
	"path"

	"github.com/jrivets/log4g"
	"github.com/logrange/linker"
	"github.com/logrange/logrange/pkg/partition"
	"github.com/logrange/logrange/pkg/tindex"
	"github.com/logrange/logrange/pkg/tmindex"
	"github.com/logrange/logrange/server"
	"github.com/logrange/range/pkg/cluster/model"
	"github.com/logrange/range/pkg/kv/inmem"
	"github.com/logrange/range/pkg/records/journal/ctrlr"
	"github.com/logrange/range/pkg/utils/bytes"
	. "verifharness/common"
)

// miniServer is the storage half of the server (tag index, time index, journal controller, partition
// service) without pipes, cursors and RPC: nobody but the harness consumes the partition service's
// WriteEvents, so StartPos/EndPos of every write can be observed.
type miniServer struct {
	dir        string
	Partitions *partition.Service
	inj        *linker.Injector
	cancel     context.CancelFunc
}

func startMini(maxChunk, maxRec int64) (ms *miniServer, err error) {
	Quiet()
	ms = &miniServer{dir: TempDir("mini")}
	cfg := server.GetDefaultConfig()
	cfg.BaseDir = ms.dir
	cfg.JrnlCtrlConfig.MaxChunkSize = maxChunk
	cfg.JrnlCtrlConfig.MaxRecordSize = maxRec
	cfg.JrnlCtrlConfig.WriteFlushMs = 5
	cfg.JrnlCtrlConfig.WriteIdleSec = 1 // idle chunk writers return their file descriptors quickly
	cfg.JrnlCtrlConfig.JournalsDir = path.Join(cfg.BaseDir, "db")
	ctx, cancel := context.WithCancel(context.Background())
	ms.cancel = cancel
	ms.Partitions = partition.NewService()
	injector := linker.New()
	injector.SetLogger(log4g.GetLogger("injector"))
	injector.Register(
		linker.Component{Name: "HostRegistryConfig", Value: cfg},
		linker.Component{Name: "JournalControllerConfig", Value: &cfg.JrnlCtrlConfig},
		linker.Component{Name: "tindexInMemCfg", Value: &tindex.InMemConfig{WorkingDir: path.Join(cfg.BaseDir, "tindex")}},
		linker.Component{Name: "", Value: &tmindex.TsIndexerConfig{Dir: path.Join(cfg.BaseDir, "cindex")}},
		linker.Component{Name: "mainCtx", Value: ctx},
		linker.Component{Name: "", Value: new(bytes.Pool)},
		linker.Component{Name: "", Value: inmem.New()},
		linker.Component{Name: "", Value: tindex.NewInmemService()},
		linker.Component{Name: "", Value: ms.Partitions},
		linker.Component{Name: "", Value: tmindex.NewTsIndexer()},
		linker.Component{Name: "", Value: model.NewHostRegistry()},
		linker.Component{Name: "", Value: model.NewJournalCatalog()},
		linker.Component{Name: "", Value: ctrlr.NewJournalController()},
	)
	defer func() {
		if r := recover(); r != nil {
			cancel()
			os.RemoveAll(ms.dir)
			ms, err = nil, fmt.Errorf("mini server init panic: %v", r)
		}
	}()
	injector.Init(ctx)
	ms.inj = injector
	return ms, nil
}

func (ms *miniServer) Stop() {
	ms.cancel()
	func() {
		defer func() { recover() }()
		ms.inj.Shutdown()
	}()
	os.RemoveAll(ms.dir)
}
