package main

// Stream "showparts" / "adminexec": LQL statements with hostile numbers executed by the real admin path
// (backend.Admin.Execute on an in-process server): SHOW PARTITIONS / SHOW PIPES with any int64 as OFFSET and
// LIMIT, DESCRIBE, TRUNCATE DRYRUN with extreme sizes. The answer is a result or an error, never a panic.
// K: model/DecAdmin.v parts_page for SHOW PARTITIONS (how many partitions are listed).

import (
	"context"
	"fmt"
	"regexp"
	"strconv"
	"sync"

	"github.com/logrange/logrange/api"
	. "verifharness/common"
)

const adminParts = 3

var (
	adminOnce sync.Once
	adminSrv  *Server
	adminErr  error
)

func adminServer() (*Server, error) {
	adminOnce.Do(func() {
		adminSrv, adminErr = StartServer(ServerOpts{})
		if adminErr != nil {
			return
		}
		for i := 0; i < adminParts; i++ {
			var wr api.WriteResult
			if err := adminSrv.Client.Write(context.Background(), fmt.Sprintf("c13adm=x,p=%d", i), "", []*api.LogEvent{{Timestamp: int64(i + 1), Message: "m"}}, &wr); err != nil {
				adminErr = err
				return
			} else if wr.Err != nil {
				adminErr = wr.Err
				return
			}
		}
		ok := WaitFor(20e9, func() bool {
			out, err := adminSrv.Exec("SHOW PARTITIONS c13adm=x")
			return err == nil && listedRe.FindStringSubmatch(out) != nil && listedRe.FindStringSubmatch(out)[1] == strconv.Itoa(adminParts)
		})
		if !ok {
			adminErr = fmt.Errorf("the partitions of the admin stream did not show up")
		}
	})
	return adminSrv, adminErr
}

func stopAdminServer() {
	if adminSrv != nil {
		adminSrv.Stop()
	}
}

var listedRe = regexp.MustCompile(`^(\d+) partitions \(starting with offset=`)

// mkShowParts: in[0] = offset, in[1] = limit (decimal texts; "" = clause absent)
func mkShowParts(off, lim []byte) Case {
	srv, err := adminServer()
	if err != nil {
		return Case{Coq: GApp("KOracleOnly", GNat(7)), Tags: []string{"infra"}}
	}
	q := "SHOW PARTITIONS c13adm=x"
	o, l := int64(0), int64(4294967295)
	if len(off) > 0 {
		q += " OFFSET " + string(off)
		o, _ = strconv.ParseInt(string(off), 10, 64)
	}
	if len(lim) > 0 {
		q += " LIMIT " + string(lim)
		l, _ = strconv.ParseInt(string(lim), 10, 64)
	}
	r := guard(func() (interface{}, error) {
		out, err := srv.Exec(q)
		if err != nil {
			return nil, err
		}
		m := listedRe.FindStringSubmatch(out)
		if m == nil {
			return nil, fmt.Errorf("unexpected answer %q", out)
		}
		n, _ := strconv.Atoi(m[1])
		return n, nil
	})
	term := coqOutcome(r, func(v interface{}) string { return GNat(v.(int)) })
	var viol1 *Violation
	if r.class == clPanic {
		viol1 = viol("admin-execute-panics", fmt.Sprintf("%q: the admin path panics (%s: %s)", q, r.frame, r.pmsg))
	} else if r.class == clHang {
		viol1 = viol("hang-showparts", q)
	}
	return Case{Coq: GApp("KShowParts", GNat(adminParts), GZ(o), GZ(l), term), Oracle: viol1, NonTrivial: len(off)+len(lim) > 0, Tags: []string{r.class}}
}

// mkAdminExec: any statement; oracle only
func mkAdminExec(stmt []byte) Case {
	srv, err := adminServer()
	if err != nil {
		return Case{Coq: GApp("KOracleOnly", GNat(8)), Tags: []string{"infra"}}
	}
	r := guard(func() (interface{}, error) {
		_, err := srv.Exec(string(stmt))
		return nil, err
	})
	var viol1 *Violation
	if r.class == clPanic {
		viol1 = viol("admin-execute-panics", fmt.Sprintf("%q: the admin path panics (%s: %s)", stmt, r.frame, r.pmsg))
	} else if r.class == clHang {
		viol1 = viol("hang-adminexec", string(stmt))
	}
	return Case{Coq: GApp("KOracleOnly", GNat(8)), Oracle: viol1, NonTrivial: true, Tags: []string{r.class}}
}

var hostileInts = []string{"-1", "-5", "0", "1", "2", "3", "4", "999", "1000", "1001", "4294967295", "4294967296", "-4294967296",
	"9223372036854775807", "-9223372036854775808", "2147483648", "-2147483649"}

func genAdmin(r *Rng, add func(kind string, in ...[]byte), n int) {
	// the witnesses first
	add("showparts", []byte("-1"), nil)
	add("showparts", nil, []byte("-5"))
	add("showparts", []byte("1"), []byte("1"))
	for i := 0; i < n; i++ {
		var o, l []byte
		if r.Chance(3, 4) {
			o = []byte(hostileInts[r.Intn(len(hostileInts))])
		}
		if r.Chance(3, 4) {
			l = []byte(hostileInts[r.Intn(len(hostileInts))])
		}
		add("showparts", o, l)
	}
	for _, h := range hostileInts {
		add("adminexec", []byte("SHOW PIPES OFFSET "+h))
		add("adminexec", []byte("SHOW PIPES LIMIT "+h))
		add("adminexec", []byte("SHOW PIPES OFFSET "+h+" LIMIT "+hostileInts[r.Intn(len(hostileInts))]))
		add("adminexec", []byte("TRUNCATE DRYRUN c13adm=x MINSIZE "+h))
		add("adminexec", []byte("TRUNCATE DRYRUN c13adm=x MAXSIZE "+h+" MAXDBSIZE "+hostileInts[r.Intn(len(hostileInts))]))
	}
	for _, s := range []string{"DESCRIBE PARTITION c13adm=x", "DESCRIBE PARTITION {c13adm=x,p=0}", "DESCRIBE PARTITION {nosuch=1}", "DESCRIBE PIPE nosuch",
		"SHOW PARTITIONS {c13adm=x}", "SHOW PARTITIONS nosuch=1 OFFSET 5", "TRUNCATE DRYRUN nosuch=1 BEFORE \"-1\"", "TRUNCATE DRYRUN c13adm=x BEFORE \"-9223372036854775808\""} {
		add("adminexec", []byte(s))
	}
}
