package main

import (
	"bytes"
	"encoding/binary"
	"fmt"
	"strings"
	"unicode"

	"github.com/logrange/logrange/api"
	"github.com/logrange/logrange/api/rpc"
	"github.com/logrange/logrange/pkg/model"
	"github.com/logrange/logrange/pkg/model/field"
	. "verifharness/common"
)

func job(kind string, in ...[]byte) Replay {
	rp := Replay{Kind: kind}
	for _, b := range in {
		rp.In = append(rp.In, hx(b))
	}
	return rp
}

// ---- encoders of the harness (independent of /repo; cross-checked against the client encoders) ----

func varint(v uint64) []byte {
	var b []byte
	for v > 127 {
		b = append(b, 128|byte(v&127))
		v >>= 7
	}
	return append(b, byte(v))
}

type lenField struct{ off, width int } // a varint length field inside an encoding

type enc struct {
	buf  []byte
	lens []lenField
	u32s []int // offsets of 4-byte counters
}

func (e *enc) str(s string) {
	v := varint(uint64(len(s)))
	e.lens = append(e.lens, lenField{len(e.buf), len(v)})
	e.buf = append(e.buf, v...)
	e.buf = append(e.buf, s...)
}
func (e *enc) u64(v uint64) {
	var b [8]byte
	binary.BigEndian.PutUint64(b[:], v)
	e.buf = append(e.buf, b[:]...)
}
func (e *enc) u32(v uint32) {
	var b [4]byte
	binary.BigEndian.PutUint32(b[:], v)
	e.u32s = append(e.u32s, len(e.buf))
	e.buf = append(e.buf, b[:]...)
}
func (e *enc) u16(v uint16) {
	var b [2]byte
	binary.BigEndian.PutUint16(b[:], v)
	e.buf = append(e.buf, b[:]...)
}

type apiEv struct {
	ts                int64
	msg, tags, fields string
}

func encWp(tags, fields string, evs []apiEv) *enc {
	e := &enc{}
	e.str(tags)
	e.str(fields)
	e.u32(uint32(len(evs)))
	for _, ev := range evs {
		e.u64(uint64(ev.ts))
		e.str(ev.msg)
		e.str(ev.tags)
		e.str(ev.fields)
	}
	return e
}

func encQr(q *api.QueryRequest) *enc {
	e := &enc{}
	e.u64(q.ReqId)
	e.str(q.Query)
	e.str(q.Pos)
	e.u16(uint16(q.WaitTimeout))
	e.u32(uint32(int32(q.Offset)))
	e.u32(uint32(q.Limit))
	return e
}

func encLe(ts int64, msg string, flds string, hdr byte) *enc {
	e := &enc{}
	e.buf = append(e.buf, hdr)
	e.u64(uint64(ts))
	e.str(msg)
	if hdr&1 != 0 {
		e.str(flds)
	}
	return e
}

// the huge / odd varints put in place of a length field
var hostileVarints = [][]byte{
	{0xff, 0xff, 0xff, 0xff, 0xff, 0xff, 0xff, 0xff, 0xff, 0x01},             // 2^64-1 ... bit 63 set
	{0x80, 0x80, 0x80, 0x80, 0x80, 0x80, 0x80, 0x80, 0x80, 0x01},             // exactly 2^63
	{0xff, 0xff, 0xff, 0xff, 0xff, 0xff, 0xff, 0xff, 0x7f},                   // 2^63-1: ln+idx overflows
	{0xf6, 0xff, 0xff, 0xff, 0xff, 0xff, 0xff, 0xff, 0x7f},                   // 2^63-10
	{0xff, 0xff, 0xff, 0xff, 0xff, 0xff, 0xff, 0xff, 0xff, 0x7f},             // 10th group 0x7f: only bit 63 survives the shift
	{0x80, 0x80, 0x80, 0x80, 0x80, 0x80, 0x80, 0x80, 0x80, 0x80, 0x00},       // over-long zero, shift 70
	{0x81, 0x80, 0x80, 0x80, 0x80, 0x80, 0x80, 0x80, 0x80, 0x80, 0x80, 0x7f}, // 1 with groups shifted out
	{0xff, 0xff, 0xff, 0xff, 0x0f},                                           // 2^32-1
	{0x80},                                                                   // unterminated
}

// mutations of a valid encoding: truncations, length-field corruptions, counter corruptions, byte flips
func mutations(r *Rng, e *enc, allTrunc bool, nTrunc int) [][]byte {
	var out [][]byte
	if allTrunc {
		for i := 0; i < len(e.buf); i++ {
			out = append(out, append([]byte{}, e.buf[:i]...))
		}
	} else {
		for k := 0; k < nTrunc; k++ {
			out = append(out, append([]byte{}, e.buf[:r.Intn(len(e.buf)+1)]...))
		}
		for _, lf := range e.lens { // the cuts next to every length field
			for _, c := range []int{lf.off, lf.off + lf.width} {
				if c <= len(e.buf) {
					out = append(out, append([]byte{}, e.buf[:c]...))
				}
			}
		}
	}
	repl := func(off, width int, by []byte) []byte {
		b := append([]byte{}, e.buf[:off]...)
		b = append(b, by...)
		return append(b, e.buf[off+width:]...)
	}
	for _, lf := range e.lens {
		cur, _ := binary.Uvarint(e.buf[lf.off:])
		rest := uint64(len(e.buf) - lf.off - lf.width)
		for _, v := range []uint64{0, cur + 1, cur - 1, 0x7f, 0x80, 0xff, rest, rest + 1, cur + 128} {
			if v != cur && v < 1<<62 {
				out = append(out, repl(lf.off, lf.width, varint(v)))
			}
		}
		for _, hv := range hostileVarints {
			out = append(out, repl(lf.off, lf.width, hv))
		}
	}
	for _, off := range e.u32s {
		cur := binary.BigEndian.Uint32(e.buf[off:])
		for _, v := range []uint32{0, cur + 1, cur - 1, 0xffffffff, 0x80000000, 1 << 24} {
			if v != cur {
				var b [4]byte
				binary.BigEndian.PutUint32(b[:], v)
				out = append(out, repl(off, 4, b[:]))
			}
		}
	}
	for k := 0; k < 4 && len(e.buf) > 0; k++ {
		b := append([]byte{}, e.buf...)
		b[r.Intn(len(b))] = byte(r.U64())
		out = append(out, b)
	}
	return out
}

func sample(r *Rng, xs [][]byte, n int) [][]byte {
	if len(xs) <= n {
		return xs
	}
	p := r.Perm(len(xs))
	out := make([][]byte, n)
	for i := 0; i < n; i++ {
		out[i] = xs[p[i]]
	}
	return out
}

// ---- text generators ----

var fieldNames = []string{"a", "b", "name", "k8s.pod", "x y", "", "A", "é", "{n", " n", "n=", "`n", "n\""}

func genValue(r *Rng) string {
	switch r.Intn(14) {
	case 0:
		return ""
	case 1:
		return "v" + fmt.Sprint(r.Intn(100))
	case 2:
		return " padded "
	case 3:
		return `"quoted, with = and \" esc"`
	case 4:
		return "`back,quoted=`"
	case 5:
		return `"\u00e9\x41\101\n\t\\"`
	case 6:
		return "\"" + strings.Repeat("\x80", r.PickInt(1, 3, 84, 85, 86, 90, 120)) + "\""
	case 7:
		return "\"caf\xc3\xa9 \xe2\x82\xac\""
	case 8:
		return `"unterminated`
	case 9:
		return "{x}"
	case 10:
		return strings.Repeat("z", r.PickInt(254, 255, 256, 300))
	case 11:
		return "\"" + strings.Repeat("y", r.PickInt(252, 253, 254)) + "\""
	case 12:
		return string(r.Bytes(r.Range(1, 6), []byte("ab \"\\`{}=,\x80\xef\xbf\xbd")))
	}
	return "plain"
}

func genKv(r *Rng) string {
	n := r.PickInt(0, 1, 1, 2, 2, 3, 5)
	var parts []string
	for i := 0; i < n; i++ {
		k := fieldNames[r.Intn(len(fieldNames))]
		if r.Chance(1, 6) {
			k = " " + k + " "
		}
		parts = append(parts, k+"="+genValue(r))
	}
	s := strings.Join(parts, r.PickStr(",", ", ", " , "))
	switch r.Intn(8) {
	case 0:
		s = "{" + s + "}"
	case 1:
		s = " { " + s + " } "
	case 2:
		s = "{{" + s + "}"
	case 3:
		s = s + "}"
	}
	return s
}

func mutateText(r *Rng, s string, alphabet []byte) string {
	b := []byte(s)
	switch r.Intn(4) {
	case 0:
		if len(b) > 0 {
			i := r.Intn(len(b))
			b = append(b[:i], b[i+1:]...)
		}
	case 1:
		i := r.Intn(len(b) + 1)
		b = append(b[:i], append([]byte{alphabet[r.Intn(len(alphabet))]}, b[i:]...)...)
	case 2:
		if len(b) > 0 {
			b[r.Intn(len(b))] = alphabet[r.Intn(len(alphabet))]
		}
	case 3:
		b = b[:r.Intn(len(b)+1)]
	}
	return string(b)
}

var kvAlphabet = []byte("ab \"\\`{}=,\x80\n")

func genFieldsBin(r *Rng) []byte {
	n := r.PickInt(0, 1, 2, 2, 3, 4, 6)
	var b []byte
	for i := 0; i < n; i++ {
		var v string
		if i%2 == 0 {
			v = fieldNames[r.Intn(len(fieldNames))]
		} else {
			v = r.PickStr("", "v1", "with,comma", "k=v", "sp ace", "q\"uote", "\x80\xff", strings.Repeat("w", r.PickInt(1, 200, 255)),
				" lead", "trail ", "`bq`", "br}", "{br", "\"", strings.Repeat("\"", 200))
		}
		b = append(b, byte(len(v)))
		b = append(b, v...)
	}
	return b
}

func mutateFieldsBin(r *Rng, f []byte) []byte {
	b := append([]byte{}, f...)
	switch r.Intn(5) {
	case 0:
		return b[:r.Intn(len(b)+1)]
	case 1: // corrupt a length byte
		i := 0
		var offs []int
		for i < len(b) {
			offs = append(offs, i)
			i += int(b[i]) + 1
		}
		if len(offs) > 0 {
			o := offs[r.Intn(len(offs))]
			b[o] = byte(r.PickInt(0, int(b[o])+1, int(b[o])-1, 255, 128, len(b)-o-1, len(b)-o))
		}
		return b
	case 2:
		return append(b, byte(r.PickInt(0, 1, 2, 200)))
	case 3:
		if len(b) > 0 {
			b[r.Intn(len(b))] = byte(r.U64())
		}
		return b
	}
	return append(b, r.Bytes(r.Range(1, 4), nil)...)
}

func genFormat(r *Rng) string {
	elems := []string{"{msg}", "{MSG}", "{msg.json()}", "{Msg.Json()}", "{vars}", "{ vars }", "{vars:a}", "{vars:name}", "{VARS:k8s.pod}", "{vars:}",
		"{ts}", "{ts.format(15:04:05.000)}", "{ts.format()}", "{ts.format(2006}", "{TS.FORMAT(Jan)}", "{{", "{}", "{", "}", "text ", "\t", "é", "\x80", "{msg",
		"{unknown}", "{vars:\xc4\xb0}", "{\xe2\x84\xaa}", "{vars:a b }", "{msg.json}", "{ts.format(x)y}", ":", "app:"}
	n := r.Range(0, 6)
	var sb strings.Builder
	for i := 0; i < n; i++ {
		sb.WriteString(elems[r.Intn(len(elems))])
	}
	return sb.String()
}

func genPos(r *Rng) string {
	hexd := "0123456789abcdefABCDEF"
	mk := func(n int) string { return string(r.Bytes(n, []byte(hexd))) }
	switch r.Intn(12) {
	case 0:
		return ""
	case 1:
		return mk(24)
	case 2:
		return mk(23)
	case 3:
		return mk(25)
	case 4:
		b := []byte(mk(24))
		b[r.Intn(24)] = r.Bytes(1, []byte("gG_+- xX.\x80"))[0]
		return string(b)
	case 5:
		return strings.Repeat("f", 24)
	case 6:
		return "0x" + mk(22)
	case 7:
		return mk(r.Range(0, 40))
	case 8:
		return "+" + mk(15) + "-" + mk(7)
	}
	return mk(24)
}

func genStatePos(r *Rng) string {
	switch r.Intn(10) {
	case 0:
		return r.PickStr("tail", "TAIL", "Tail", "head", "HEAD", "", "ta\xc4\xb0l", "tai\xc5\x80", "heaD", "\xe2\x84\xaa", "tails", " head")
	case 1:
		return string(r.Bytes(r.Range(1, 12), []byte("ab:=0f\x80")))
	}
	n := r.Range(1, 3)
	var parts []string
	for i := 0; i < n; i++ {
		j := r.PickStr("j1", "00000001", "", "a=b", "é")
		parts = append(parts, j+r.PickStr("=", "=", "=", "", "==")+genPos(r))
	}
	return strings.Join(parts, r.PickStr(":", ":", "::", ""))
}

func genEscapeIn(r *Rng) []byte {
	switch r.Intn(8) {
	case 0:
		return r.Bytes(r.Range(0, 30), []byte("abc \"\\\n\r\t\x00\x01\x1f\x7f"))
	case 1:
		return []byte(r.PickStr("café", "€uro", "日本語", "a\u2028b", "\U0001F600", "<html>&", "\ufffe", "\uffff"))
	case 2:
		return r.Bytes(r.Range(1, 12), []byte("a\x80\xbf\xc0\xc3\xa9\xe2\x82\xac\xf0\x9f\x98\x80\xed\xa0\xff"))
	case 3: // never the triple EF BF BD
		b := r.Bytes(r.Range(1, 16), nil)
		return bytes.ReplaceAll(b, []byte("\xef\xbf\xbd"), []byte("\xef\xbf\xbe"))
	case 4:
		return []byte(r.PickStr("\xef\xbf", "\xef\xbf\xbe", "\xef\xbf\xbc", "\xbf\xbd", "\xef\xbd\xbf", "x\xef\xbf", "\xef"))
	}
	return r.Bytes(r.Range(0, 20), []byte("abcxyz 0123{}[]:,\"\\/\b\f"))
}

func genUnquoteIn(r *Rng) []byte {
	esc := []string{`\a`, `\b`, `\f`, `\n`, `\r`, `\t`, `\v`, `\\`, `\"`, `\'`, `\x41`, `\xff`, `\xg1`, `\x4`, `\u00e9`, `\ud800`, `\udfff`, `\uffff`, `\u12`, `\U0001F600`,
		`\U00110000`, `\Uffffffff`, `\U0010ffff`, `\101`, `\377`, `\400`, `\08`, `\1`, `\z`, `\`, "a", "b", " ", "é", "€", "\x80", "\xc3", "\xe2\x82", "\xf0\x9f\x98\x80", "\xed\xa0\x80", "\n", "\r", "`", "'", `"`, "\xef\xbf\xbd"}
	q := r.PickStr(`"`, `"`, `"`, "`")
	var sb strings.Builder
	sb.WriteString(q)
	n := r.Range(0, 7)
	for i := 0; i < n; i++ {
		sb.WriteString(esc[r.Intn(len(esc))])
	}
	if !r.Chance(1, 10) {
		sb.WriteString(q)
	}
	if r.Chance(1, 12) {
		sb.WriteString(r.PickStr("x", q, " "))
	}
	return []byte(sb.String())
}

func genRuneIn(r *Rng) []byte {
	if r.Chance(1, 2) { // a valid encoding, possibly damaged in one byte or cut
		runes := []rune{0x41, 0x7f, 0x80, 0x7ff, 0x800, 0xfff, 0x1000, 0xd7ff, 0xe000, 0xfffd, 0xffff, 0x10000, 0x3ffff, 0x40000, 0xfffff, 0x100000, 0x10ffff, 0x130, 0x212a}
		b := []byte(string(runes[r.Intn(len(runes))]))
		switch r.Intn(4) {
		case 0:
			b[r.Intn(len(b))] ^= byte(r.PickInt(0x80, 0x40, 0x20, 0x10, 0x01))
		case 1:
			b = b[:r.Intn(len(b)+1)]
		}
		return append(b, r.Bytes(r.Range(0, 2), nil)...)
	}
	lead := []byte{0x00, 0x41, 0x7f, 0x80, 0xbf, 0xc0, 0xc1, 0xc2, 0xdf, 0xe0, 0xe1, 0xec, 0xed, 0xee, 0xef, 0xf0, 0xf1, 0xf3, 0xf4, 0xf5, 0xff}
	cont := []byte{0x7f, 0x80, 0x8f, 0x90, 0x9f, 0xa0, 0xbf, 0xc0, 0x41}
	b := []byte{lead[r.Intn(len(lead))]}
	n := r.Range(0, 4)
	for i := 0; i < n; i++ {
		b = append(b, cont[r.Intn(len(cont))])
	}
	return b
}

// kv texts that end where the scanner is in the middle of something: inside a quotation that is never closed,
// right after the back slash of an escape (SplitString's `endIdx++` steps one past the end: endIdx == len+1),
// after an escaped quote, inside back quotes. Found missing by the seeded change C13-4 (the final append
// moved before the unclosed-quotation check).
var kvEscapeAtEnd = []string{
	"\\", "\"", "\"\\", "\"\\\\", "\"\\\"", "\"\\\"\"", "a=\\", "a=\"", "a=\\\"", "a=\"\\", "a=\"b\\", "a=\"b\\\\", "a=\"b\\\\\\", "a=\"b\\\"",
	"a=\"b\\\"\"", "a=b,c=\"\\", "a=b,c=\"d\\", "a=\"b\",c=\"\\", " b =\"\\", "a=\"b\\ ", "a=\"b,c=d\\", "\"a\\", "\"a=b\\", "a\"=\\",
	"a=`", "a=`b", "a=`b\\", "`\\", "a=`b\"\\", "a=\"`\\", "a=`\"`\\", "a=\"b\\\x80", "a=\"\x80\\",
}

// kvEntryPoints feeds one kv text to every entry point that splits kv text: the scanners themselves, the
// fields parser, the tag parser, the write packet (as tags, packet fields and fields of the first and of the
// second event) and the {..} source of an LQL statement
func kvEntryPoints(add func(kind string, in ...[]byte), t string) {
	for _, v := range []string{t, "{" + t + "}"} {
		add("split", []byte(v))
		add("rcb", []byte(v))
		add("fromkv", []byte(v))
		add("tagparse", []byte(v))
	}
	add("trim", []byte(t))
	add("lql", []byte("select from "+t+" limit 1"))
	add("lql", []byte("select from {"+t+"} limit 1"))
	add("lqledge", []byte("SELECT FROM {@} LIMIT 1"), []byte(t))
	add("wp", encWp(t, "", []apiEv{{1, "m", "", ""}}).buf)
	add("wp", encWp("a=b", t, []apiEv{{1, "m", "", ""}}).buf)
	add("wp", encWp("a=b", "c=d", []apiEv{{1, "m", "", t}}).buf)
	add("wp", encWp("a=b", "", []apiEv{{1, "m", "", "e=f"}, {2, "n", t, t}}).buf)
}

// ---- the whole generation ----

func generate(c *Ctx) []Replay {
	r := c.Rng
	var jobs []Replay
	add := func(kind string, in ...[]byte) { jobs = append(jobs, job(kind, in...)) }

	// -- the boundary corpus (boundary.go): one input per comparison / constant of the mechanism files, always first
	boundaryCorpus(c, c.Tier == "thorough", add)
	// -- deterministic corpus: the witnesses of the refuted theorems and of the recorded findings
	huge := []byte{0xff, 0xff, 0xff, 0xff, 0xff, 0xff, 0xff, 0xff, 0xff, 0x01}
	// the length varint 2^64-1 (-1 as an int): the dependency's function panics (kind bytes: environment, compared by K), the /repo
	// decoders, which read it through the guarded utils.UnmarshalBytes/UnmarshalString, return an error
	add("bytes", huge)                                                     // C13_total_bytes_unguarded_refuted
	add("wp", huge)                                                        // C13_total_wp_unguarded_refuted: the code refuses the packet
	add("qr", append([]byte{0, 0, 0, 0, 0, 0, 0, 1}, huge...))             // C13_total_qr_unguarded_refuted
	add("apile", append([]byte{0, 0, 0, 0, 0, 0, 0, 1}, huge...))          // C13_total_apile_unguarded_refuted
	add("leu", nil, append([]byte{0x20, 0, 0, 0, 0, 0, 0, 0, 1}, huge...)) // C13_total_le_unguarded_refuted
	// ... in the second and third string field, and inside the events of a write packet
	add("qr", append(append([]byte{0, 0, 0, 0, 0, 0, 0, 1, 1, 'q'}, huge...), 0, 0, 0, 0, 0, 0, 0, 0, 0, 0))
	add("apile", append([]byte{0, 0, 0, 0, 0, 0, 0, 1, 1, 'm', 0}, huge...))
	add("leu", []byte{1, 'a', 1, 'b'}, append([]byte{0x21, 0, 0, 0, 0, 0, 0, 0, 1, 1, 'm'}, huge...))
	add("wp", append([]byte{3, 't', '=', '1'}, huge...))
	add("wp", append([]byte{3, 't', '=', '1', 0, 0, 0, 0, 1, 0, 0, 0, 0, 0, 0, 0, 1}, huge...))
	add("wp", append([]byte{3, 't', '=', '1', 0, 0, 0, 0, 2, 0, 0, 0, 0, 0, 0, 0, 1, 1, 'm', 0, 0, 0, 0, 0, 0, 0, 0, 0, 2, 0}, huge...))
	// 2^64-1 (-1 as an int), 2^63, 2^63-1 and 2^63-10 (positive ints; ln+idx wraps), bit 63 alone
	for _, hv := range hostileVarints[:5] {
		add("bytes", hv)
		add("leu", nil, bytesViaLeU(hv))
		add("wp", hv)
	}
	add("escape", []byte("\xef\xbf\xbd")) // C13_total_escape_unadvanced_refuted: the code returns
	expanding := []byte("a=\"" + strings.Repeat("\x80", 86) + "\"")
	add("fromkv", expanding) // C13_stored_wf_raw_limit_refuted: the code refuses the text
	add("wp", encWp("t=1", string(expanding), []apiEv{{1, "m", "", ""}}).buf)
	add("stored-e2e", expanding)
	// the one-byte length prefix: names and values of exactly 255 / 256 / 257 stored bytes, plain, quoted, back-quoted, with blanks around
	for _, n := range []int{254, 255, 256, 257} {
		z := strings.Repeat("z", n)
		add("fromkv", []byte("a="+z))
		add("fromkv", []byte(z+"=1"))
		add("fromkv", []byte("a=\""+z+"\""))
		add("fromkv", []byte("a=`"+z+"`"))
		add("fromkv", []byte("a= "+z+" ,b=2"))
	}
	add("stored-e2e", []byte("a=b,c=\"d,e\""))
	for _, t := range kvEscapeAtEnd {
		kvEntryPoints(add, t)
	}
	add("value", []byte{1, 'a'}, []byte("a")) // C13_check_value_refuted
	add("check", []byte{1, 'a'})
	add("where", []byte(`msg LIKE "[a"`), []byte("m"), nil)
	add("where", []byte(`fields:a LIKE "[a"`), []byte("m"), []byte{1, 'a', 1, 'b'})
	add("where", []byte(`msg LIKE "a*"`), []byte("abc"), nil)
	// every kind of condition the builder must refuse at every position of OR chains, AND chains, negated and
	// nested groups (an error of ANY operand must reach the caller; otherwise the text is accepted with a nil
	// function inside the closure and the first evaluation that reaches it kills the server goroutine)
	nrej := 0
	for _, t := range whereRejectTexts() {
		add("where", []byte(t), []byte("hello a"), []byte{1, 'a', 1, 'b'})
		nrej++
	}
	c.Note("where reject shapes", fmt.Sprintf("%d texts = %d unevaluable conditions x %d positions/shapes + controls; each evaluated on %d events", nrej, len(whereBad), len(whereShapes), 1+len(whereExtraEvents)))

	// -- write packets
	evPool := func() []apiEv {
		n := r.PickInt(0, 1, 1, 2, 3)
		evs := make([]apiEv, n)
		for i := range evs {
			evs[i] = apiEv{ts: r.I64() >> uint(r.PickInt(0, 1, 30, 62)), msg: r.PickStr("", "m", "hello world", "\x00\xff", strings.Repeat("L", 130)),
				tags: r.PickStr("", "t=v"), fields: r.PickStr("", "", genKv(r), "f=1", "bad=", "x")}
		}
		return evs
	}
	for i := 0; i < c.N(1); i++ { // small packets: every truncation and every mutation
		e := encWp(r.PickStr("a=b", "", "{a=b,c=d}"), r.PickStr("", "f=v", "f=\"x,y\""), []apiEv{{ts: int64(i) - 1, msg: r.PickStr("m", "msg1"), fields: r.PickStr("", "g=h")}, {ts: 7, msg: "", tags: "t"}}[:r.Range(1, 2)])
		for _, m := range mutations(r, e, true, 0) {
			add("wp", m)
		}
		add("wp", e.buf)
	}
	for i := 0; i < c.N(14); i++ {
		evs := evPool()
		tags, flds := r.PickStr("a=b", "name=app1,ip=\"1.2.3.4\"", "", "{}"), genKv(r)
		e := encWp(tags, flds, evs)
		add("wp", e.buf)
		aevs := make([]*api.LogEvent, len(evs))
		for k, ev := range evs {
			aevs[k] = &api.LogEvent{Timestamp: ev.ts, Message: ev.msg, Tags: ev.tags, Fields: ev.fields}
		}
		if ref := rpc.VC13EncodeWritePacket(tags, flds, aevs); !bytes.Equal(ref, e.buf) {
			c.Note("encoder-mismatch-wp", hx(e.buf)+" vs "+hx(ref))
		}
		for _, m := range sample(r, mutations(r, e, false, 4), 10) {
			add("wp", m)
		}
	}
	// -- query requests
	for i := 0; i < c.N(5); i++ {
		q := &api.QueryRequest{ReqId: r.U64() >> uint(r.PickInt(0, 40, 63)), Query: r.PickStr("", "select limit 10", "SELECT FROM a=b WHERE msg contains \"x\""),
			Pos: r.PickStr("", "tail", genStatePos(r)), WaitTimeout: r.PickInt(0, 1, 65535), Offset: r.PickInt(0, -1, 5, -2147483648, 2147483647), Limit: r.PickInt(0, 1, 1000, 4294967295)}
		e := encQr(q)
		if ref := rpc.VC13EncodeQueryRequest(q); !bytes.Equal(ref, e.buf) {
			c.Note("encoder-mismatch-qr", hx(e.buf)+" vs "+hx(ref))
		}
		add("qr", e.buf)
		ms := mutations(r, e, i == 0, 4)
		if i > 0 {
			ms = sample(r, ms, 12)
		}
		for _, m := range ms {
			add("qr", m)
		}
	}
	// -- api log events and stored records
	for i := 0; i < c.N(5); i++ {
		e := &enc{}
		e.u64(r.U64())
		e.str(r.PickStr("", "m", "message text"))
		e.str(r.PickStr("", "a=b"))
		e.str(r.PickStr("", "f=1,g=2"))
		add("apile", e.buf)
		for _, m := range sample(r, mutations(r, e, i == 0, 4), 14+40*b2i(i == 0)) {
			add("apile", m)
		}
	}
	for i := 0; i < c.N(6); i++ {
		flds := genFieldsBin(r)
		hdr := byte(r.PickInt(0x20, 0x21, 0x21, 0x00, 0x01, 0xff, 0x22))
		e := encLe(r.I64(), r.PickStr("", "m", "stored message"), string(flds), hdr)
		prev := []byte(r.PickStr("", "\x01p\x01q"))
		if hdr == 0x20 || hdr == 0x21 {
			le := model.LogEvent{Timestamp: int64(binary.BigEndian.Uint64(e.buf[1:9])), Fields: field.Fields(flds)}
			_ = le
		}
		add("leu", prev, e.buf)
		for _, m := range sample(r, mutations(r, e, i == 0, 4), 12+30*b2i(i == 0)) {
			add("leu", prev, m)
		}
	}
	// -- varints and length-prefixed bytes
	for _, hv := range hostileVarints {
		add("uint", hv)
		add("bytes", hv)
		add("bytes", append(append([]byte{}, hv...), 'x', 'y'))
		// the same bytes through the guarded utils.UnmarshalBytes (message of a stored record)
		add("leu", nil, bytesViaLeU(hv))
		add("leu", nil, bytesViaLeU(append(append([]byte{}, hv...), 'x', 'y')))
	}
	for i := 0; i < c.N(15); i++ {
		v := r.U64() >> uint(r.Intn(64))
		b := varint(v)
		add("uint", b)
		add("uint", append(append([]byte{}, b...), r.Bytes(r.Range(0, 3), nil)...))
		add("uint", b[:r.Intn(len(b)+1)])
		add("uint", r.Bytes(r.Range(0, 14), []byte{0x80, 0xff, 0x81, 0x00, 0x01, 0x7f}))
		n := r.Range(0, 20)
		body := r.Bytes(n, nil)
		full := append(varint(uint64(n)), body...)
		add("bytes", full)
		cut := full[:r.Intn(len(full)+1)]
		add("bytes", cut)
		off := append(varint(uint64(n+r.Range(-2, 2)+200*b2i(r.Chance(1, 5)))), body...)
		add("bytes", off)
		add("leu", nil, bytesViaLeU(full))
		add("leu", nil, bytesViaLeU(cut))
		add("leu", nil, bytesViaLeU(off))
	}
	for i := 0; i < c.N(15); i++ {
		rb := r.Bytes(r.Range(0, 30), nil)
		add("wp", rb)
		add("qr", rb)
		add("leu", nil, rb)
	}
	// -- kv texts -> fields
	for i := 0; i < c.N(45); i++ {
		s := genKv(r)
		add("fromkv", []byte(s))
		if r.Chance(1, 2) {
			add("fromkv", []byte(mutateText(r, s, kvAlphabet)))
		}
	}
	for i := 0; i < c.N(25); i++ {
		add("fromkv", r.Bytes(r.Range(0, 12), kvAlphabet))
	}
	// -- kv texts cut inside a quotation, ending with an escape; the scanners on every kv text shape
	for i := 0; i < c.N(12); i++ {
		s := genKv(r)
		if q := strings.LastIndexByte(s, '"'); q >= 0 && r.Chance(1, 2) {
			s = s[:q+1]
		} else if s != "" && r.Chance(2, 3) {
			s += r.PickStr(",", ", ", "") + fieldNames[r.Intn(len(fieldNames))] + "=\""
		} else {
			s += "\""
		}
		s += string(r.Bytes(r.Range(0, 4), []byte("ab =,\\\"`\x80"))) + r.PickStr("\\", "\\", "\\\\", "\\\"", "")
		kvEntryPoints(add, s)
	}
	for i := 0; i < c.N(20); i++ {
		s := genKv(r)
		if r.Chance(1, 2) {
			s = mutateText(r, s, kvAlphabet)
		}
		add("split", []byte(s))
		add("rcb", []byte(s))
		add("trim", []byte(r.PickStr("", " ", "  ")+s+r.PickStr("", " ", "   ")))
	}
	for i := 0; i < c.N(15); i++ {
		b := r.Bytes(r.Range(0, 10), kvAlphabet)
		add("split", b)
		add("rcb", b)
		add("trim", b)
	}
	// -- binary field lists: Check, Value, AsKVString
	for i := 0; i < c.N(30); i++ {
		f := genFieldsBin(r)
		if r.Chance(1, 2) {
			f = mutateFieldsBin(r, f)
		}
		name := []byte(fieldNames[r.Intn(len(fieldNames))])
		add("check", f)
		add("value", f, name)
		add("askv", f)
	}
	for i := 0; i < c.N(15); i++ {
		f := r.Bytes(r.Range(0, 8), []byte{0, 1, 2, 3, 'a', 'b', ',', '=', '"', ' ', '`', '{', '}'})
		add("check", f)
		add("value", f, []byte(r.PickStr("a", "", "ab")))
		add("askv", f)
	}
	// -- positions
	for i := 0; i < c.N(40); i++ {
		add("pos", []byte(genPos(r)))
		add("applypos", []byte(genStatePos(r)))
	}
	// -- format strings and their evaluation on events with well-formed and malformed fields
	for i := 0; i < c.N(60); i++ {
		f := genFormat(r)
		if r.Chance(1, 3) {
			f = mutateText(r, f, []byte("{}: a(\x80"))
		}
		add("fmtparse", []byte(f))
		flds := genFieldsBin(r)
		if r.Chance(1, 4) {
			flds = mutateFieldsBin(r, flds)
		}
		msg := []byte(r.PickStr("", "msg", "q\"uote\n", "caf\xc3\xa9\x80", "r\xef\xbf\xbdx\x80"))
		tl := []byte(r.PickStr("", "", "a=b,c=d", "name=app1,a=\"x y\"", "{a=b}", "a=\"b\\", "a", "=", "\x80=\x80"))
		add("fmteval", []byte(f), msg, flds, tl) // compared with the model when it has no timestamp element / tag look-up, else oracle only
		if !fmtEvalOk([]byte(f), msg, tl) && fmtEvalOk([]byte(f), msg, nil) {
			add("fmteval", []byte(f), msg, flds, nil)
		}
	}
	// -- EscapeJsonStr
	for i := 0; i < c.N(70); i++ {
		add("escape", genEscapeIn(r))
	}
	// -- environment functions the models rely on
	for i := 0; i < c.N(90); i++ {
		add("unquote", genUnquoteIn(r))
	}
	for i := 0; i < c.N(60); i++ {
		add("rune", genRuneIn(r))
	}
	kws := []string{"tail", "head", "", "msg", "msg.json()", "ts", "vars", "ts.format(", "vars:"}
	for i := 0; i < c.N(30); i++ {
		kw := kws[r.Intn(len(kws))]
		s := []byte(kw)
		for k := range s {
			if r.Chance(1, 3) {
				s[k] = byte(unicode.ToUpper(rune(s[k])))
			}
		}
		st := string(s)
		if r.Chance(1, 3) {
			st = strings.Replace(st, r.PickStr("i", "I"), "\xc4\xb0", 1)
		}
		if r.Chance(1, 5) {
			st = mutateText(r, st, []byte("ab\xc4\xb0\xe2\x84\xaa\x80"))
		}
		add("lower", []byte(st), []byte(kw))
	}
	// -- oracle-only: LQL texts, tag texts, JSON request bodies
	toks := []string{"select", "SELECT", "from", "where", "limit", "offset", "position", "range", "and", "or", "not", "(", ")", "{", "}", "[", "]", "=", "!=", "<", ">", "like", "contains", "prefix",
		"msg", "ts", "fields:a", "a", "\"x\"", "'y'", "\"[a\"", "10", "-5", ",", ":", "tail", "upper(", "lower(", "\"2019-01-01T00:00:00Z\"", "truncate", "show", "describe", "pipes", "partitions", "create", "delete", "pipe", "dryrun", "minsize", "1G", "\x80", "\"unterminated", "`"}
	for i := 0; i < c.N(60); i++ {
		n := r.Range(0, 14)
		var sb strings.Builder
		for k := 0; k < n; k++ {
			sb.WriteString(toks[r.Intn(len(toks))])
			sb.WriteString(r.PickStr(" ", " ", ""))
		}
		add("lql", []byte(sb.String()))
		if r.Chance(1, 2) {
			add("where", []byte(sb.String()), []byte("msg"), genFieldsBin(r))
		}
	}
	// -- systematic edge literals at every lexical position that takes a string / number / time / size / ident
	for _, t := range lqlTemplates {
		add("lqledge", []byte(t)) // every literal of lqlEdgeLits in this template
	}
	c.Note("lql edge literals", fmt.Sprintf("%d templates x %d literals", len(lqlTemplates), len(lqlEdgeLits)))
	for _, l := range lqlEdgeLits {
		v := strings.Trim(l, "\"'")
		add("lqltime", []byte(v))
		add("lqlrel", []byte(v))
	}
	for i := 0; i < c.N(40); i++ {
		v := r.Bytes(r.Range(0, 6), []byte("--mhdMHD 15.eE+x\x80\xc4\xb0"))
		if r.Chance(1, 2) {
			v = append([]byte("-"), v...)
		}
		add("lqlrel", v)
		add("lqltime", v)
	}
	for _, depth := range []int{10, 500, 2000} {
		add("lql", []byte("select where "+strings.Repeat("(", depth)+"a=b"+strings.Repeat(")", depth)))
		add("lql", []byte("select where "+strings.Repeat("not ", depth)+"a=b"))
		add("where", []byte(strings.Repeat("(", depth)+"msg contains \"m\""+strings.Repeat(")", depth)), []byte("m"), nil)
	}
	for i := 0; i < c.N(25); i++ {
		add("where", []byte(r.PickStr("msg", "fields:a", "fields:zz", "ts", "upper(msg)", "lower(fields:a)")+" "+r.PickStr("like", "LIKE", "contains", "=", "<", "prefix", "suffix", "!=", ">=")+" "+
			r.PickStr("\"[a\"", "\"a*\"", "\"\\\\\"", "\"[]\"", "x", "\"2019-01-01T00:00:00Z\"", "\"\"", "\"[a-\"")), []byte("abc"), genFieldsBin(r))
	}
	for i := 0; i < c.N(30); i++ {
		s := genKv(r)
		if r.Chance(1, 2) {
			s = mutateText(r, s, kvAlphabet)
		}
		add("tagparse", []byte(s))
	}
	for i := 0; i < c.N(20); i++ {
		s := r.PickStr(`{"Query":"show pipes"}`, `{"name":"p","tagsCond":"a=b"}`, `{"Query":1}`, `[`, `{"Query":"\ud800"}`, "", "null", `{"Query":{"a":[`+strings.Repeat("[", 200))
		add("jsonreq", []byte(mutateText(r, s, []byte("{}[]\":,\\\x80"))))
	}
	genAdmin(r, add, c.N(40))
	genRpc(c, r, add)
	bigLengthCases(c.Tier == "thorough", add)
	return jobs
}

// '@' is the hole
var lqlTemplates = []string{
	"SELECT @", "SELECT @ LIMIT 1", "SELECT FROM @", "SELECT FROM a=@", "SELECT FROM a=b AND c like @",
	"SELECT RANGE @", "SELECT RANGE [@:@]", "SELECT RANGE [@:\"-1m\"]", "SELECT RANGE [\"-1h\":@]", "SELECT RANGE [@", "SELECT RANGE @ LIMIT 1",
	"SELECT WHERE ts > @", "SELECT WHERE ts <= @", "SELECT WHERE ts = @ AND msg contains x", "SELECT WHERE NOT (ts != @)",
	"SELECT WHERE msg contains @", "SELECT WHERE msg like @", "SELECT WHERE fields:a = @", "SELECT WHERE fields:a like @", "SELECT WHERE lower(msg) prefix @", "SELECT WHERE upper(fields:a) suffix @",
	"SELECT WHERE @ = 1", "SELECT WHERE @", "SELECT POSITION @", "SELECT OFFSET @", "SELECT LIMIT @", "SELECT OFFSET @ LIMIT @",
	"TRUNCATE BEFORE @", "TRUNCATE DRYRUN a=b BEFORE @", "TRUNCATE MINSIZE @", "TRUNCATE DRYRUN a=b MINSIZE @ MAXSIZE @", "TRUNCATE MAXSIZE @", "TRUNCATE MAXDBSIZE @", "TRUNCATE @",
	"SHOW PARTITIONS @", "SHOW PARTITIONS a=@", "SHOW PARTITIONS OFFSET @ LIMIT @", "SHOW PIPES OFFSET @", "SHOW PIPES LIMIT @", "SHOW @",
	"DESCRIBE PARTITION @", "DESCRIBE PIPE @", "DESCRIBE @",
	"CREATE PIPE @", "CREATE PIPE p FROM @", "CREATE PIPE p FROM a=@", "CREATE PIPE p WHERE ts < @", "CREATE PIPE p WHERE msg like @", "CREATE PIPE p FROM a=b WHERE fields:a contains @",
	"DELETE PIPE @", "DELETE @",
	"ts > @", "ts < @ OR ts >= @", "a = @", "{a=@}",
	// an operand the builder refuses next to operands that are fine: first, middle, last of OR / AND chains, negated, nested
	"SELECT WHERE ts < @ OR msg contains m", "SELECT WHERE msg contains zz OR ts < @", "SELECT WHERE msg contains zz OR ts < @ OR fields:a = b",
	"SELECT WHERE msg like @ OR fields:a = b", "SELECT WHERE fields:a = c OR lower(fields:a) like @", "SELECT WHERE msg contains m AND msg like @", "SELECT WHERE msg like @ AND msg contains m",
	"SELECT WHERE @ = 1 OR msg contains m", "SELECT WHERE msg contains zz OR @ = 1", "SELECT WHERE NOT (@ = 1 OR msg contains m)", "SELECT WHERE msg contains m AND (fields:a = c OR NOT ts >= @)",
	"CREATE PIPE p WHERE msg like @ OR msg contains m", "CREATE PIPE p FROM a=b WHERE ts < @ OR fields:a = b", "msg like @ OR msg contains m", "NOT ts < @ OR msg contains m", "foo = @ OR msg contains m",
	"SELECT FROM c like @ OR a=b", "SELECT FROM a=x OR c like @", "SELECT FROM a=b AND NOT (c like @ OR a=b)", "SHOW PARTITIONS c like @ OR a=b",
}

var lqlEdgeLits = []string{
	`""`, `''`, `" "`, `'   '`, `"x"`, `'-'`, `"-"`, `"-1"`, `"-m"`, `"-1m"`, `" -1.5H "`, `"-.h"`, `"--1m"`, `"-1e999d"`,
	`-`, `-1`, `0`, `+`, `.`, `99999999999999999999999999`, `1e999`, `18446744073709551616`, `9223372036854775808`, `-9223372036854775809`, `1G`, `99999999999T`, `1kib`,
	`"`, `'`, `"\\"`, `{}`, `{ }`, `{a}`, `x`, `_`, ``, `tail`, `"[a"`, `"\x80"`,
}

func b2i(b bool) int {
	if b {
		return 1
	}
	return 0
}

// envChecks: exhaustive checks of the two facts about Go's unicode tables that model/DecUtf8.v states
func envChecks(c *Ctx) {
	var ascii []string
	for ru := rune(0x80); ru <= unicode.MaxRune; ru++ {
		if l := unicode.ToLower(ru); l < 0x80 {
			ascii = append(ascii, fmt.Sprintf("U+%04X->%c", ru, l))
		}
	}
	c.Note("non-ascii runes whose lower case is ascii (model assumes exactly U+0130->i, U+212A->k)", ascii)
}

// the `where` kind's reject stream: B = a condition that passes the grammar and that BuildWhereExpFunc must refuse,
// G1..G3 = conditions that are fine (true on some of the events the closure is evaluated on, false on others, so
// that a closure that was accepted is really called at every position: || and && short-circuit)
var whereBad = []string{
	`foo = 1`, `limit = 5`, `fields: = 1`, `name = app`, `ts < "yesterday"`, `ts = "2019-01-01T00:00:00Z"`, `ts contains 5`,
	`msg like "["`, `lower(fields:a) LIKE "[a"`, `msg = "a"`, `msg >= a`, `trim(msg) contains "a"`, `upper(fields:a, msg) = "B"`, `upper(lower()) = 1`,
}

var whereShapes = []string{
	"B",
	"B OR G1", "G1 OR B", "G2 OR B", "B OR G1 OR G2", "G1 OR B OR G2", "G1 OR G2 OR B", "G2 OR G3 OR B",
	"B AND G1", "G1 AND B", "G2 AND B", "B AND G1 AND G2", "G1 AND B AND G2", "G1 AND G3 AND B",
	"NOT B", "NOT B OR G1", "G2 OR NOT B", "G1 AND NOT B", "NOT B AND G1",
	"(B)", "((B)) OR G1", "G2 OR ((B))", "(B OR G1) AND G3", "(G2 OR B) AND G3", "G1 AND (G2 OR B)", "G1 AND (B OR G2)",
	"G2 OR (B AND G1)", "G2 OR (G1 AND B)", "NOT (B OR G1)", "NOT (G2 OR B)", "NOT (G1 AND B) OR G2", "G2 OR NOT (G1 AND B)",
	"G2 OR NOT (G2 OR B)", "B AND G1 OR G2", "G1 AND B OR G2", "G2 OR G1 AND B", "G2 OR B AND G1", "G3 AND (G1 OR (G2 OR (B)))",
	"NOT (NOT (B)) OR G1", "G2 OR NOT (NOT (G2 OR NOT B))",
}

func whereRejectTexts() []string {
	good := strings.NewReplacer("G1", `msg contains "a"`, "G2", `fields:a = b`, "G3", `ts > 0`)
	var out []string
	for _, b := range append(append([]string{}, whereBad...), `msg prefix "h"` /* control: a condition that is fine */) {
		for _, sh := range whereShapes {
			out = append(out, good.Replace(strings.Replace(sh, "B", b, 1)))
		}
	}
	return out
}
