package main

import (
	"encoding/hex"
	"fmt"
	"os"
	"os/exec"
	"runtime/debug"
	"strings"
	"time"

	. "verifharness/common"
)

// outcome classes of one real call
const (
	clOk    = "ok"
	clErr   = "error"
	clPanic = "panic"
	clHang  = "hang"
)

// watchdog: "hang" = no result within this time on an input of at most 64 KB (DESIGN section 8, C13)
const hangDeadline = 10 * time.Second

type result struct {
	class string
	val   interface{} // decoded value when ok
	frame string      // function that panicked (first non-runtime frame)
	pmsg  string      // panic message
}

// guard runs f under recover() and the watchdog. f returns (value, error).
func guard(f func() (interface{}, error)) result {
	ch := make(chan result, 1)
	go func() {
		defer func() {
			if r := recover(); r != nil {
				ch <- result{class: clPanic, frame: panicFrame(string(debug.Stack())), pmsg: fmt.Sprint(r)}
			}
		}()
		v, err := f()
		if err != nil {
			ch <- result{class: clErr}
			return
		}
		ch <- result{class: clOk, val: v}
	}()
	t := time.NewTimer(hangDeadline)
	defer t.Stop()
	select {
	case r := <-ch:
		return r
	case <-t.C:
		// the goroutine is abandoned (it keeps spinning until the process exits)
		return result{class: clHang}
	}
}

// panicFrame extracts the innermost non-runtime function from a stack taken inside the deferred
// recover handler: the frames below the line "panic(...)".
func panicFrame(stack string) string {
	lines := strings.Split(stack, "\n")
	seenPanic := false
	for _, l := range lines {
		if strings.HasPrefix(l, "\t") {
			continue
		}
		if strings.HasPrefix(l, "panic(") {
			seenPanic = true
			continue
		}
		if !seenPanic {
			continue
		}
		if strings.HasPrefix(l, "runtime.") || strings.HasPrefix(l, "runtime/") {
			continue
		}
		if i := strings.LastIndex(l, "("); i > 0 {
			l = l[:i]
		}
		if i := strings.LastIndex(l, "/"); i >= 0 {
			l = l[i+1:]
		}
		return l
	}
	return "?"
}

// coqOutcome renders the observation as a Gallina `outcome` term
func coqOutcome(r result, okTerm func(v interface{}) string) string {
	switch r.class {
	case clOk:
		return GApp("Ok", okTerm(r.val))
	case clErr:
		return "Err"
	case clPanic:
		return "Panic"
	}
	return "OutOfFuel"
}

// ---- child process mode: calls that are expected to hang or to kill the process ----

// childMain is entered when the binary is started as `c13 child <mode> <hex>`
func childMain(mode, arg string) {
	in, err := hex.DecodeString(arg)
	if err != nil {
		fmt.Println("badarg")
		os.Exit(3)
	}
	Quiet()
	fmt.Println("ready")
	switch mode {
	case "escape":
		out := realEscape(string(in))
		fmt.Println("ok " + hex.EncodeToString([]byte(out)))
	case "stored":
		childStored(string(in))
	case "rpcsrv":
		childRpcSrv()
	default:
		os.Exit(3)
	}
	os.Exit(0)
}

type childRes struct {
	class string // ok | panic | hang | error
	out   string
}

// runChild starts the child and waits for its answer. The watchdog clock starts when the child
// has reported "ready" (so a slow process start on a loaded machine is not mistaken for a hang); a
// child that has not answered by the deadline is killed and reported as "hang".
func runChild(mode string, in []byte, deadline time.Duration) childRes {
	cmd := exec.Command(os.Args[0], "child", mode, hex.EncodeToString(in))
	if mode == "stored" {
		dir := TempDir("c13e2e")
		defer RemoveAll(dir)
		cmd.Env = append(os.Environ(), "C13_CHILD_DIR="+dir)
	}
	pr, pw, err := os.Pipe()
	if err != nil {
		return childRes{class: "error", out: err.Error()}
	}
	cmd.Stdout = pw
	cmd.Stderr = pw
	if err := cmd.Start(); err != nil {
		pw.Close()
		pr.Close()
		return childRes{class: "error", out: err.Error()}
	}
	pw.Close()
	ready := make(chan struct{})
	outCh := make(chan string, 1)
	go func() {
		var sb strings.Builder
		buf := make([]byte, 4096)
		signalled := false
		for {
			n, e := pr.Read(buf)
			sb.Write(buf[:n])
			if !signalled && strings.Contains(sb.String(), "ready\n") {
				signalled = true
				close(ready)
			}
			if e != nil {
				break
			}
		}
		if !signalled {
			close(ready)
		}
		outCh <- sb.String()
	}()
	done := make(chan error, 1)
	go func() { done <- cmd.Wait() }()
	select {
	case <-ready:
	case <-time.After(120 * time.Second):
		cmd.Process.Kill()
		<-done
		return childRes{class: "error", out: "child did not start"}
	}
	t := time.NewTimer(deadline)
	defer t.Stop()
	select {
	case err := <-done:
		out := strings.Replace(<-outCh, "ready\n", "", 1)
		pr.Close()
		if err != nil {
			if strings.Contains(out, "panic:") || strings.Contains(out, "goroutine ") {
				return childRes{class: clPanic, out: out}
			}
			return childRes{class: "error", out: out}
		}
		return childRes{class: clOk, out: out}
	case <-t.C:
		cmd.Process.Kill()
		<-done
		<-outCh
		pr.Close()
		return childRes{class: clHang}
	}
}
