package main

// The boundary corpus: a fixed set of inputs that runs first on every check, one class per comparison /
// constant of the mechanism files (generator audit, docs/C13.md "Input distribution"): lengths at the
// ends of the varint widths with real bodies, declared lengths and counts that exceed what is there by
// exactly one, valid encodings followed by garbage, field lists with equal / prefix / case-differing
// names and 255-byte items, kv texts at the 40-string buffer of NewFieldsFromKVString, every separator /
// quotation shape, the format-string index tests, EscapeJsonStr at 0x1f/0x20/0x7f/0x80 and at the ends of
// the UTF-8 ranges, position strings at 23/24/25 digits. Every case is an ordinary case of its kind (K and
// oracle as for the generated ones).

import (
	"strings"
)

func rep(s string, n int) string { return strings.Repeat(s, n) }

func cat(bs ...[]byte) []byte {
	var out []byte
	for _, b := range bs {
		out = append(out, b...)
	}
	return out
}

func boundaryCorpus(c interface{ N(int) int }, thorough bool, add func(kind string, in ...[]byte)) {
	leHdr := func(h byte) []byte { return []byte{h, 0, 0, 0, 0, 0, 0, 0, 1} }
	ts8 := []byte{0, 0, 0, 0, 0, 0, 0, 9}

	// ---- 1. lengths at the ends of the varint widths, with the body that long, one byte short, one byte more
	lens := []int{0, 1, 2, 126, 127, 128, 129, 255, 256}
	for _, n := range lens {
		body := []byte(rep("m", n))
		full := cat(varint(uint64(n)), body)
		add("bytes", full)
		add("bytes", full[:len(full)-b2i(n > 0)])
		add("bytes", cat(full, []byte{'+'}))
		add("apile", cat(ts8, full, []byte{0, 0}))
		add("apile", cat(ts8, []byte{0}, full, []byte{0}))
		add("apile", cat(ts8, []byte{0, 0}, full))
		add("qr", cat(ts8, full, []byte{0, 0, 0, 0, 0, 0, 0, 0, 0, 0, 5}))
		add("qr", cat(ts8, []byte{0}, full, []byte{0, 0, 0, 0, 0, 0, 0, 0, 0, 5}))
		add("wp", cat(full, []byte{0, 0, 0, 0, 0}))                                                         // tags of n bytes (not a kv text: the iterator does not parse them)
		add("leu", []byte{1, 'p', 1, 'q'}, cat(leHdr(0x21), []byte{1, 'm'}, varint(uint64(n)), body))       // fields of n bytes
		add("leu", []byte{1, 'p', 1, 'q'}, cat(leHdr(0x21), []byte{1, 'm'}, varint(uint64(n)), body[:n/2])) // ... half of them there
		add("leu", nil, cat(leHdr(0x20), full))                                                             // message of exactly n bytes
		add("leu", nil, cat(leHdr(0x20), full[:len(full)-b2i(n > 0)]))                                      // one byte short
		add("leu", nil, cat(leHdr(0x20), varint(uint64(n+1)), body))                                        // declared one more than there is
		add("leu", nil, cat(leHdr(0x20), full, []byte{0xff}))                                               // one byte of garbage after the record
		add("wp", cat([]byte{3, 'a', '=', 'b', 0, 0, 0, 0, 1}, ts8, full, []byte{0, 0}))                    // one event with a message of n bytes
	}
	// declared lengths at the ends of the integer types, nothing (or little) there
	for _, v := range []uint64{1<<31 - 1, 1 << 31, 1<<32 - 1, 1 << 32, 1<<32 + 1, 1<<62 - 1, 1 << 62, 1<<63 - 11, 1<<63 - 10, 1<<63 - 9} {
		lv := varint(v)
		add("bytes", lv)
		add("bytes", cat(lv, []byte("xyz")))
		add("leu", nil, cat(leHdr(0x20), lv, []byte("xyz")))
		add("wp", cat(lv, []byte("xyz")))
		add("wp", cat([]byte{0}, lv, []byte("xyz")))
		add("qr", cat(ts8, lv, []byte("xyz")))
		add("apile", cat(ts8, []byte{0, 0}, lv))
	}
	// non-canonical varints: over-long 0, 1, 127, 128; the decoders accept them
	for _, lv := range [][]byte{{0x80, 0x00}, {0x81, 0x00}, {0xff, 0x00}, {0x80, 0x81, 0x00}, {0x80, 0x80, 0x80, 0x80, 0x80, 0x80, 0x80, 0x80, 0x80, 0x00}, {0x83, 0x80, 0x80, 0x80, 0x80, 0x80, 0x80, 0x80, 0x80, 0x00}} {
		add("uint", lv)
		add("bytes", cat(lv, []byte("abc")))
		add("leu", nil, cat(leHdr(0x20), lv, []byte("abc")))
		add("wp", cat(lv, []byte("abc"), []byte{0, 0, 0, 0, 0}))
	}

	// ---- 2. counts: n events in the packet, the counter says n-1, n, n+1, 0, 2^32-1
	ev := func(i int) []byte {
		return cat([]byte{0, 0, 0, 0, 0, 0, 0, byte(i + 1)}, []byte{2, 'm', byte('0' + i)}, []byte{0}, []byte{3, 'e', '=', byte('0' + i)})
	}
	for n := 0; n <= 3; n++ {
		var evs []byte
		for i := 0; i < n; i++ {
			evs = cat(evs, ev(i))
		}
		for _, cnt := range []uint32{uint32(n), uint32(n) + 1, uint32(n) - 1, 0, 0xffffffff, 0x80000000, uint32(n) + 2} {
			add("wp", cat([]byte{3, 'a', '=', 'b', 3, 'f', '=', 'g'}, u32b(cnt), evs))
		}
	}

	// ---- 3. a valid encoding followed by garbage / by itself
	vwp := encWp("a=b", "f=g", []apiEv{{1, "m", "", "e=1"}}).buf
	vqr := cat(ts8, []byte{6, 's', 'e', 'l', 'e', 'c', 't', 4, 't', 'a', 'i', 'l', 0, 1, 0xff, 0xff, 0xff, 0xff, 0, 0, 0, 5})
	vap := cat(ts8, []byte{1, 'm', 3, 't', '=', 'v', 3, 'f', '=', '1'})
	for _, g := range [][]byte{{0}, {0xff}, []byte("garbage...."), {0xff, 0xff, 0xff, 0xff, 0xff, 0xff, 0xff, 0xff, 0xff, 0x01}} {
		add("wp", cat(vwp, g))
		add("qr", cat(vqr, g))
		add("apile", cat(vap, g))
		add("leu", nil, cat(leHdr(0x20), []byte{1, 'm'}, g))
		add("leu", []byte{1, 'p', 1, 'q'}, cat(leHdr(0x21), []byte{1, 'm', 4, 1, 'a', 1, 'b'}, g))
	}
	add("wp", cat(vwp, vwp))
	add("qr", cat(vqr, vqr))
	add("apile", cat(vap, vap))
	// the header byte of a stored record: bit 0 alone decides whether fields follow
	for _, h := range []byte{0x00, 0x01, 0x02, 0x20, 0x21, 0x7f, 0x80, 0xfe, 0xff} {
		add("leu", []byte{1, 'p', 1, 'q'}, cat(leHdr(h), []byte{1, 'm'}))                          // no field bytes
		add("leu", []byte{1, 'p', 1, 'q'}, cat(leHdr(h), []byte{1, 'm', 4, 1, 'a', 1, 'b'}))       // field bytes
		add("leu", []byte{1, 'p', 1, 'q'}, cat(leHdr(h), []byte{1, 'm', 0}))                       // empty fields
		add("leu", nil, cat([]byte{h}, []byte{0, 0, 0, 0, 0, 0, 0}))                               // timestamp one byte short
		add("leu", nil, cat([]byte{h}, []byte{0x80, 0, 0, 0, 0, 0, 0, 0}, []byte{0}))              // the smallest int64
		add("leu", nil, cat([]byte{h}, []byte{0x7f, 0xff, 0xff, 0xff, 0xff, 0xff, 0xff, 0xff, 0})) // the largest
	}

	// ---- 4. binary field lists: empty / one / many, equal names, prefixes, case, a value that equals a later name, 255-byte items
	fl := func(items ...string) []byte {
		var b []byte
		for _, it := range items {
			b = append(b, byte(len(it)))
			b = append(b, it...)
		}
		return b
	}
	z255 := rep("z", 255)
	var many []string
	for i := 0; i < 60; i++ {
		many = append(many, "k"+string(rune('A'+i%26))+string(rune('a'+i/26)), "v"+string(rune('0'+i%10)))
	}
	lists := [][]byte{nil, fl("a", "b"), fl("a", ""), fl("", "b"), fl("", ""), fl("a", "1", "a", "2"), fl("a", "1", "A", "2"), fl("A", "1", "a", "2"), fl("ab", "1", "a", "2"), fl("a", "1", "ab", "2"),
		fl("a", "b", "b", "c"), fl("b", "a", "a", "x"), fl("x", "a", "a", "y"), fl("ab", "1", "ba", "2"), fl("a", "b", "c"), fl("a"), fl(z255, z255), fl("a", z255, z255, "b"), fl(z255[:254], "v", z255, "w"),
		fl(many...), fl(many[:39]...), fl(many[:40]...), fl(many[:41]...), fl("a", "b,c", "d", "e=f", "g", " h ", "i", "\"", "j", "`", "k", "{", "l", "}"), fl("a", "\x80", "\xef\xbf\xbd", "v"),
		{1}, {0}, {0, 0}, {0, 0, 0}, {255}, {2, 'a'}, {1, 'a', 2, 'b'}, {1, 'a', 1, 'b', 1}, {1, 'a', 1, 'b', 0}}
	for _, f := range lists {
		add("check", f)
		add("askv", f)
		names := []string{"a", "A", "ab", "b", ""}
		if len(f) > 200 {
			names = []string{"a", z255, z255[:254], "kAa", "kHc", "kZb", "v0"}
		}
		for _, nm := range names {
			add("value", f, []byte(nm))
		}
		add("fmteval", []byte("{vars:a}|{vars:A}|{vars:ab}|{vars}"), []byte("m"), f, []byte("t=v,a=tagA"))
		add("fmteval", []byte("{vars:a}|{vars:A}|{vars:ab}|{vars}"), []byte("m"), f, nil)
		add("where", []byte("fields:a = 1 OR fields:ab = 2 OR fields:A = 2"), []byte("m"), f)
	}

	// ---- 5. kv texts: every separator / quotation shape, equal and case-differing keys, the 40-string buffer (20 pairs)
	kvs := []string{"", " ", "  ", "=", ",", "a", "a=", "=b", "=", "a=b", "a=b,", ",a=b", "a=b,,c=d", "a==b", "a=b=c", "a=b,c", "a,b=c", "a,b", "a=1,a=2", "A=1,a=2", "a=b, a =c", " a = b ", "a= b ,c= d ",
		"a =b", "a= b", "a=b ", " a=b", "a=\"\"", "a=``", "a=\" b \"", "a=` b `", "a=\"b\"c", "a=b\"c\"", "a=\"b\"\"c\"", "a=\"b,c=d\"", "a=`b,c=d`", "a=\"b\\\"c\"", "a=\"b\\\\\"", "\"a\"=b", "`a`=b", "\"a=b\"=c", "\"a,b\"=c",
		"a='b'", "a='b,c'", "é=ü", "a=\x80", "a=\xef\xbf\xbd", "a=b\n", "a=b\x00c", "a=\"\\n\"", "a=\"\\x\"", "a=\"\\u12\"", "a=\"b\nc\"", "a=`b\nc`", "a=\"b", "a=`b", "a=b\"", "a=b`", "a=\"b`", "a=`b\"",
		"{", "}", "{}", "{ }", "{{}}", "{{ }}", "{a=b}", " { a=b } ", "{{a=b}}", "{{a=b}", "{a=b}}", "}{", "}a=b{", "{a=b},", "{a=b}{c=d}", "{a={b}}", "a={b}", "a=\"{b}\"", "{ a=b , c=d }", "{}a=b", "a=b{}",
		"a=" + z255, "a=" + z255 + "z", z255 + "=1", z255 + "z=1", "a=\"" + z255 + "\"", "a=\"" + z255 + "z\"", "a=" + rep("é", 127), "a=" + rep("é", 128), "a=\"" + rep("\\n", 255) + "\"", "a=\"" + rep("\\n", 256) + "\"",
		"a=\"" + rep("\\u00e9", 127) + "\"", "a=\"" + rep("\\u00e9", 128) + "\"", "a= " + z255 + " ", "a=" + rep(" ", 300) + "b"}
	for _, np := range []int{1, 2, 19, 20, 21, 39, 40, 41, 60} {
		var ps []string
		for i := 0; i < np; i++ {
			ps = append(ps, many[2*i]+"="+many[2*i+1])
		}
		kvs = append(kvs, strings.Join(ps, ","), strings.Join(ps, " , ")+",", strings.Join(ps, ",")+",x")
	}
	for _, t := range kvs {
		add("split", []byte(t))
		add("rcb", []byte(t))
		if strings.HasPrefix(t, " ") || strings.HasSuffix(t, " ") || len(t) < 3 {
			add("trim", []byte(t))
		}
		add("fromkv", []byte(t))
		add("tagparse", []byte(t))
	}
	for _, t := range kvs[len(kvs)-27:] { // the long lists also as packet and event fields
		add("wp", encWp("a=b", t, []apiEv{{1, "m", "", t}}).buf)
	}

	// ---- 6. format strings: the index tests of NewFormatParser (len(val) > 10, val[len-1] == ')', len(val) > 5, i-startIdx > 0)
	fmts := []string{"", "x", "{", "}", "{}", "{{", "}}", "{{}", "{}}", "{{}}", "a{", "{a", "a}", "}a", "{msg}", "{msg}{msg}", "{msg}}", "{{msg}", "{{{msg}", "{msg}{", "x{msg}y", "{ msg }", "{  }", "{ }",
		"{ts}", "{ts.format(}", "{ts.format()}", "{ts.format(x)}", "{ts.format())}", "{ts.format(()}", "{ts.format(2006-01-02)}", "{ts.format(x}", "{ts.format)}", "{ts.format}", "{ts.forma(x)}", "{ts.format(x) }", "{ ts.format(x)}",
		"{TS.FORMAT(X)}", "{ts.format(\x80)}", "{ts.format({)}", "{ts.format(})}", "{vars}", "{vars:}", "{vars:a}", "{vars: a}", "{ vars:a }", "{vars:a b}", "{VARS:A}", "{vars::}", "{vars:" + z255 + "}", "{vars:" + z255 + "z}", "{vars:\x80}",
		"{msg.json()}", "{msg.json( )}", "{msg.json}", "{msg.json())}", "{MSG.JSON()}", "{msg.}", "{msg.json()x}", "{unknown}", "{\x80}", "\x80", "{\xc4\xb0}", "{m\xc5\xbfg}", "{t\xc5\xbf}", "{var\xc5\xbf}", "{\xe2\x84\xaa}",
		rep("{msg}", 40), rep("{{", 50), rep("x", 300) + "{msg}", "{vars:a}{vars:b}{vars:}"}
	for _, f := range fmts {
		add("fmtparse", []byte(f))
		add("fmteval", []byte(f), []byte("m\"\x80\xef\xbf\xbd"), fl("a", "b", "a b", "c"), []byte("t=v"))
	}

	// ---- 7. EscapeJsonStr: both sides of every byte / rune comparison; an escape first, last, twice in a row
	esc := []string{"", "a", "\x00", "\x01", "\x08", "\x09", "\x0a", "\x0b", "\x0c", "\x0d", "\x0e", "\x1f", "\x20", "\x21", "\x22", "\x23", "\x5b", "\x5c", "\x5d", "\x7e", "\x7f", "\x80", "\xbf", "\xc0", "\xc1", "\xc2", "\xc2\x7f", "\xc2\x80",
		"\xdf\xbf", "\xe0\x9f\xbf", "\xe0\xa0\x80", "\xed\x9f\xbf", "\xed\xa0\x80", "\xed\xbf\xbf", "\xee\x80\x80", "\xef\xbf\xbc", "\xef\xbf\xbd", "\xef\xbf\xbe", "\xef\xbf\xbf", "\xf0\x8f\xbf\xbf", "\xf0\x90\x80\x80", "\xf4\x8f\xbf\xbf",
		"\xf4\x90\x80\x80", "\xf5\x80\x80\x80", "\xff", "\xc3", "\xe2\x82", "\xf0\x9f\x98", "a\xc3", "a\xe2\x82", "\xc3a", "\xe2\x82a", "\x80\x80", "\x80a\x80", "a\x80", "\x80a", "\"\"", "\\\\", "\"a\"", "a\"", "\"a", "\n\n", "a\nb", "\xef\xbf\xbd\xef\xbf\xbd",
		"\xef\xbf\xbd\x80", "\x80\xef\xbf\xbd", "\xe2\x80\xa8", "\xe2\x80\xa9", "<>&", "é\"é", rep("a", 300) + "\"", "\"" + rep("a", 300), rep("\x80", 100), rep("\"", 100), rep("\xef\xbf\xbd", 50)}
	for _, e := range esc {
		add("escape", []byte(e))
	}

	// ---- 8. positions: ParsePos takes exactly 24 hex digits; applyPos splits on ':' then '='
	h24 := "0123456789abcdefABCDEF00"
	poss := []string{"", "0", rep("0", 23), rep("0", 24), rep("0", 25), rep("f", 24), rep("F", 24), rep("f", 23), rep("f", 25), h24, h24[:23], h24 + "0", "g" + h24[1:], h24[:23] + "g", h24[:15] + "g" + h24[16:], h24[:16] + "g" + h24[17:],
		"-" + h24[1:], "+" + h24[1:], h24[:16] + "-" + h24[17:], h24[:16] + "+" + h24[17:], " " + h24[1:], h24[:23] + " ", "0x" + h24[2:], rep("8", 24), "8000000000000000" + "80000000", "7fffffffffffffff" + "7fffffff", "ffffffffffffffff" + "ffffffff",
		"\x80" + h24[1:], rep("０", 8), rep("0", 48), rep("0", 1000)}
	for _, p := range poss {
		add("pos", []byte(p))
		add("applypos", []byte("j="+p))
		add("applypos", []byte(p))
	}
	for _, p := range []string{"tail", "head", "TAIL", "HEAD", "Tail", "tai", "taill", " tail", "tail ", "ta\xc4\xb0l", "tail:", ":tail", "tail=" + h24, "j=" + h24, "j=" + h24 + ":", ":j=" + h24, "j=" + h24 + ":k=" + h24, "j=" + h24 + "::k=" + h24,
		"j=" + h24 + ":j=" + h24, "j=" + h24 + ":J=" + h24, "j=", "=" + h24, "=", ":", "::", "j", "j=" + h24 + "=" + h24, "j==" + h24, "j=" + h24 + "=", "=j=" + h24, "j:" + h24, "é=" + h24, "\x80=" + h24, rep("j", 300) + "=" + h24, rep("j="+h24+":", 60) + "j=" + h24} {
		add("applypos", []byte(p))
	}
}

// bigLengthCases: the three-byte varint (16383 / 16384) with real bodies; few in the quick tier (each is 16 KB of
// case text), the wider ones in the thorough tier. Emitted last so that they do not share a shard with the corpus.
func bigLengthCases(thorough bool, add func(kind string, in ...[]byte)) {
	leHdr := []byte{0x20, 0, 0, 0, 0, 0, 0, 0, 1}
	ts8 := []byte{0, 0, 0, 0, 0, 0, 0, 9}
	big := []int{16383, 16384}
	if thorough {
		big = append(big, 16385, 65535, 65536)
	}
	for _, n := range big {
		body := []byte(rep("m", n))
		full := cat(varint(uint64(n)), body)
		add("leu", nil, cat(leHdr, full))
		if n == 16384 || thorough {
			add("wp", cat([]byte{3, 'a', '=', 'b', 0, 0, 0, 0, 1}, ts8, full, []byte{0, 0})) // the stored record of this event is marshalled and read back
		}
		if thorough {
			add("leu", nil, cat(leHdr, full[:len(full)-1]))
			add("leu", nil, cat(leHdr, varint(uint64(n+1)), body))
			add("apile", cat(ts8, full, []byte{0, 0}))
			add("qr", cat(ts8, full, []byte{0, 0, 0, 0, 0, 0, 0, 0, 0, 0, 5}))
		}
	}
}
