package main

import (
	"context"
	"fmt"
	"os"
	"time"

	"github.com/logrange/logrange/api"
	. "verifharness/common"
)

// childStored: a whole server; one event is written with the given write-level field text through
// the RPC client, then the partition is queried through RPC. Prints "ok <n>" or "rejected"; when
// the server panics in a request handler the process dies (there is no recover on the RPC path).
func childStored(fields string) {
	dir := os.Getenv("C13_CHILD_DIR")
	srv, err := StartServer(ServerOpts{Dir: dir})
	if err != nil {
		fmt.Println("start failed:", err)
		os.Exit(4)
	}
	ctx := context.Background()
	var wr api.WriteResult
	err = srv.Client.Write(ctx, "vc13=e2e", fields, []*api.LogEvent{{Timestamp: 1, Message: "m1"}}, &wr)
	if err != nil || wr.Err != nil {
		fmt.Println("rejected", err, wr.Err)
		srv.Stop()
		return
	}
	n := 0
	ok := WaitFor(15*time.Second, func() bool {
		time.Sleep(20 * time.Millisecond)
		var res api.QueryResult
		e := srv.Client.Query(ctx, &api.QueryRequest{Query: "SELECT FROM vc13=e2e LIMIT 10", Limit: 10}, &res)
		if e != nil {
			fmt.Println("query transport error:", e)
			os.Exit(5)
		}
		n = len(res.Events)
		return n > 0
	})
	if !ok {
		// acknowledged but not readable: not an observation about C13 (C01 decides that)
		fmt.Println("not-readable")
		srv.Stop()
		return
	}
	fmt.Println("ok", n)
	srv.Stop()
}
