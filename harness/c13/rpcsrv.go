package main

// Streams "rpcraw" / "rpctrunc": raw frames sent over TCP to a real server (all four endpoints the server
// registers in api/rpc/server.go: 100 ingestor write, 200 querier query, 300 admin execute, 400 pipes ensure,
// and function ids nobody registered). The RPC path has no recover(): a panic in a request decoder or in what
// the handler does with the decoded request kills the server process, so the server runs in a child process
// (`c13 child rpcsrv`), shared by the cases of one run, restarted when it died. The cases are serialised:
// when the child dies, the frame that was in flight is the failing input.
//
// Verdict per frame: answered (ok / error), connection closed by the server, or: the server process died
// (VIOLATION rpc-server-dies-fn<id>), no answer within the watchdog deadline (hang). An ok answer must decode
// (query result by the client decoder, admin/pipes results as JSON). K (model/DecWire.v): a write packet or a
// query request the model decoder refuses must not be answered with ok.

import (
	"bufio"
	"encoding/binary"
	"encoding/json"
	"fmt"
	"io"
	"net"
	"os"
	"os/exec"
	"strings"
	"sync"
	"time"

	"context"

	"github.com/logrange/logrange/api"
	"github.com/logrange/logrange/api/rpc"
	. "verifharness/common"
)

const (
	fnWrite   = 100
	fnQuery   = 200
	fnExecute = 300
	fnEnsure  = 400
)

// ---------------------------------------------------------------- the child

// childRpcSrv: a whole server with three partitions (events with fields) and one pipe; prints its address,
// serves until stdin is closed, then shuts down and exits normally.
func childRpcSrv() {
	dir := os.Getenv("C13_CHILD_DIR")
	srv, err := StartServer(ServerOpts{Dir: dir})
	if err != nil {
		fmt.Println("start failed:", err)
		os.Exit(4)
	}
	ctx := context.Background()
	for i := 0; i < 3; i++ {
		var wr api.WriteResult
		evs := []*api.LogEvent{{Timestamp: int64(10 + i), Message: "first", Fields: "a=b"}, {Timestamp: int64(20 + i), Message: "second \xef\xbf\xbd \x80", Fields: "a=\"c d\",e="},
			{Timestamp: int64(30 + i), Message: "third"}}
		if err := srv.Client.Write(ctx, fmt.Sprintf("c13rpc=x,p=%d", i), "f=g", evs, &wr); err != nil || wr.Err != nil {
			fmt.Println("start failed: write", err, wr.Err)
			os.Exit(4)
		}
	}
	// the warm-up requests are bounded: on a tree where an endpoint never answers the server must still come up,
	// so that the frames of the run get their own verdicts
	bounded := func(f func(ctx context.Context)) {
		c2, cancel := context.WithTimeout(ctx, 5*time.Second)
		defer cancel()
		done := make(chan struct{})
		go func() { defer close(done); defer func() { recover() }(); f(c2) }()
		select {
		case <-done:
		case <-c2.Done():
		}
	}
	bounded(func(c2 context.Context) {
		var pr api.PipeCreateResult
		srv.Client.EnsurePipe(c2, api.Pipe{Name: "c13pipe", TagsCond: "c13rpc=x", FilterCond: "msg contains \"first\""}, &pr)
	})
	bounded(func(c2 context.Context) {
		WaitFor(4*time.Second, func() bool {
			var res api.QueryResult
			e := srv.Client.Query(c2, &api.QueryRequest{Query: "SELECT FROM c13rpc=x LIMIT 10", Limit: 10}, &res)
			return (e == nil && len(res.Events) >= 9) || c2.Err() != nil
		})
	})
	bounded(func(c2 context.Context) { srv.Client.Execute(c2, api.ExecRequest{Query: "SHOW PARTITIONS c13rpc=x"}) })
	fmt.Println("addr", srv.Addr)
	io.Copy(io.Discard, os.Stdin)
	// the parent is done (or gone): shut down; a handler that never returns must not keep the process alive
	go func() {
		time.Sleep(20 * time.Second)
		fmt.Println("stop timed out")
		os.Exit(0)
	}()
	srv.Stop()
	fmt.Println("stopped")
}

// ---------------------------------------------------------------- the parent's handle of the child

type rpcServer struct {
	cmd   *exec.Cmd
	stdin io.WriteCloser
	addr  string
	dir   string
	done  chan struct{} // closed when the process has exited
	mu    sync.Mutex
	out   strings.Builder
}

var (
	rpcMu    sync.Mutex // serialises the rpc cases (and guards rpcCur and rpcHangs)
	rpcCur   *rpcServer
	rpcHangs = map[uint16]int{} // hangs seen per function id
	rpcNoSrv error              // the child could not be started (three attempts): the remaining rpc cases are not run
)

// after this many hangs of one endpoint its remaining frames are not sent: on a tree where every request of the
// endpoint hangs the verdicts are in, and the run must end within the harness timeout
const maxHangsPerFn = 3

func (s *rpcServer) output() string {
	s.mu.Lock()
	defer s.mu.Unlock()
	return s.out.String()
}

func startRpcServer() (*rpcServer, error) {
	s := &rpcServer{dir: TempDir("c13rpc"), done: make(chan struct{})}
	s.cmd = exec.Command(os.Args[0], "child", "rpcsrv", "00")
	s.cmd.Env = append(os.Environ(), "C13_CHILD_DIR="+s.dir)
	var err error
	if s.stdin, err = s.cmd.StdinPipe(); err != nil {
		return nil, err
	}
	pr, pw, err := os.Pipe()
	if err != nil {
		return nil, err
	}
	s.cmd.Stdout = pw
	s.cmd.Stderr = pw
	if err := s.cmd.Start(); err != nil {
		pw.Close()
		pr.Close()
		RemoveAll(s.dir)
		return nil, err
	}
	pw.Close()
	addrCh := make(chan string, 1)
	go func() {
		rd := bufio.NewReaderSize(pr, 1<<16)
		sent := false
		for {
			line, e := rd.ReadString('\n')
			s.mu.Lock()
			if s.out.Len() < 1<<20 {
				s.out.WriteString(line)
			}
			s.mu.Unlock()
			if !sent && strings.HasPrefix(line, "addr ") {
				sent = true
				addrCh <- strings.TrimSpace(line[5:])
			}
			if e != nil {
				break
			}
		}
		pr.Close()
		s.cmd.Wait()
		if !sent {
			addrCh <- ""
		}
		close(s.done)
	}()
	select {
	case a := <-addrCh:
		if a == "" {
			RemoveAll(s.dir)
			return nil, fmt.Errorf("the rpc server child did not start: %s", tail(s.output(), 300))
		}
		s.addr = a
	case <-time.After(90 * time.Second):
		s.cmd.Process.Kill()
		<-s.done
		RemoveAll(s.dir)
		return nil, fmt.Errorf("the rpc server child did not start in time")
	}
	return s, nil
}

func tail(s string, n int) string {
	if len(s) > n {
		return s[len(s)-n:]
	}
	return s
}

// died: the process exits within d
func (s *rpcServer) died(d time.Duration) bool {
	select {
	case <-s.done:
		return true
	case <-time.After(d):
		return false
	}
}

func (s *rpcServer) stop() {
	s.stdin.Close()
	if !s.died(30 * time.Second) {
		s.cmd.Process.Kill()
		<-s.done
	}
	RemoveAll(s.dir)
}

// rpcServerLocked returns the running child, starting one when there is none (rpcMu held)
func rpcServerLocked() (*rpcServer, error) {
	if rpcCur != nil && !rpcCur.died(0) {
		return rpcCur, nil
	}
	if rpcCur != nil {
		RemoveAll(rpcCur.dir)
		rpcCur = nil
	}
	if rpcNoSrv != nil {
		return nil, rpcNoSrv
	}
	var err error
	for attempt := 0; attempt < 3; attempt++ {
		var s *rpcServer
		if s, err = startRpcServer(); err == nil {
			rpcCur = s
			return s, nil
		}
	}
	rpcNoSrv = err
	return nil, err
}

func stopRpcServer() {
	rpcMu.Lock()
	defer rpcMu.Unlock()
	if rpcCur != nil {
		if !rpcCur.died(0) {
			rpcCur.stop()
		} else {
			RemoveAll(rpcCur.dir)
		}
		rpcCur = nil
	}
}

// ---------------------------------------------------------------- one frame

func frame(reqId uint32, fn uint16, declared uint32, body []byte) []byte {
	b := make([]byte, 10, 10+len(body))
	binary.BigEndian.PutUint32(b, reqId)
	binary.BigEndian.PutUint16(b[4:], fn)
	binary.BigEndian.PutUint32(b[6:], declared)
	return append(b, body...)
}

type rpcAnswer struct {
	class string // ok | error | closed | panic | hang | infra
	body  []byte // response body (ok) or error text (error)
	info  string
}

// readAnswer reads the response for reqId from the connection
func readAnswer(conn net.Conn, reqId uint32, deadline time.Duration) (ok bool, body []byte, err error) {
	conn.SetReadDeadline(time.Now().Add(deadline))
	for {
		var h [10]byte
		if _, err = io.ReadFull(conn, h[:]); err != nil {
			return
		}
		id, code, sz := binary.BigEndian.Uint32(h[:]), binary.BigEndian.Uint16(h[4:]), binary.BigEndian.Uint32(h[6:])
		if sz > 64<<20 {
			return false, nil, fmt.Errorf("response declares %d bytes", sz)
		}
		body = make([]byte, sz)
		if _, err = io.ReadFull(conn, body); err != nil {
			return
		}
		if id == reqId {
			return code == 0, body, nil
		}
	}
}

func probeBody() []byte {
	return encQr(&api.QueryRequest{ReqId: 0, Query: "SELECT FROM c13rpc=x LIMIT 1", Limit: 0}).buf
}

// panicExcerpt: the panic message and the innermost frame of /repo or of the dependency in the child's output
func panicExcerpt(out string) (fn, msg string) {
	i := strings.Index(out, "panic:")
	if i < 0 {
		if i = strings.Index(out, "fatal error:"); i < 0 {
			return "?", tail(out, 200)
		}
	}
	rest := out[i:]
	msg = rest
	if j := strings.IndexByte(msg, '\n'); j >= 0 {
		msg = msg[:j]
	}
	fn = "?"
	for _, l := range strings.Split(rest, "\n") {
		if strings.HasPrefix(l, "github.com/logrange/") {
			if k := strings.LastIndex(l, "("); k > 0 {
				l = l[:k]
			}
			if k := strings.LastIndex(l, "/"); k >= 0 {
				l = l[k+1:]
			}
			fn = l
			break
		}
	}
	return
}

// hung: a server that does not answer is killed (a handler may be spinning); the next case starts a new one
func hung(srv *rpcServer) rpcAnswer {
	srv.cmd.Process.Kill()
	<-srv.done
	RemoveAll(srv.dir)
	if rpcCur == srv {
		rpcCur = nil
	}
	return rpcAnswer{class: clHang}
}

// sendFrame: one connection, one frame (declared = the body size the header announces; when it is larger than
// the body the write side is closed after the frame), then - unless the frame is expected to be answered
// itself - a probe request that must be answered: the server is alive and still serves this connection's
// successor. rpcMu must be held.
func sendFrame(fn uint16, declared uint32, body []byte, deadline time.Duration) rpcAnswer {
	srv, err := rpcServerLocked()
	if err != nil {
		return rpcAnswer{class: "infra", info: err.Error()}
	}
	dead := func(wait time.Duration) *rpcAnswer {
		if srv.died(wait) {
			f, m := panicExcerpt(srv.output())
			RemoveAll(srv.dir)
			rpcCur = nil
			return &rpcAnswer{class: clPanic, info: f + ": " + m}
		}
		return nil
	}
	conn, err := net.DialTimeout("tcp", srv.addr, 10*time.Second)
	if err != nil {
		if a := dead(3 * time.Second); a != nil {
			return *a
		}
		return rpcAnswer{class: "infra", info: err.Error()}
	}
	defer conn.Close()
	conn.SetWriteDeadline(time.Now().Add(10 * time.Second))
	registered := fn == fnWrite || fn == fnQuery || fn == fnExecute || fn == fnEnsure
	exact := int(declared) == len(body)
	conn.Write(frame(7, fn, declared, body))
	if exact && registered {
		ok, rb, err := readAnswer(conn, 7, deadline)
		if err == nil {
			if ok {
				return rpcAnswer{class: clOk, body: rb}
			}
			return rpcAnswer{class: clErr, body: rb}
		}
		if a := dead(3 * time.Second); a != nil {
			return *a
		}
		if ne, isNet := err.(net.Error); isNet && ne.Timeout() {
			return hung(srv)
		}
		return rpcAnswer{class: "closed", info: err.Error()}
	}
	// no answer is due (unknown function id) or the frame lies about its size: the connection's fate is the
	// dependency's business; the server must survive and answer a probe on a fresh connection
	if exact {
		conn.Write(frame(8, fnQuery, uint32(len(probeBody())), probeBody()))
		if ok, _, err := readAnswer(conn, 8, deadline); err == nil && ok {
			return rpcAnswer{class: clOk}
		}
	} else if tc, isTcp := conn.(*net.TCPConn); isTcp {
		tc.CloseWrite()
		conn.SetReadDeadline(time.Now().Add(2 * time.Second))
		io.Copy(io.Discard, conn)
	}
	if a := dead(20 * time.Millisecond); a != nil {
		return *a
	}
	c2, err := net.DialTimeout("tcp", srv.addr, 10*time.Second)
	if err != nil {
		if a := dead(3 * time.Second); a != nil {
			return *a
		}
		return rpcAnswer{class: "infra", info: err.Error()}
	}
	defer c2.Close()
	c2.SetWriteDeadline(time.Now().Add(10 * time.Second))
	c2.Write(frame(9, fnQuery, uint32(len(probeBody())), probeBody()))
	if _, _, err := readAnswer(c2, 9, deadline); err != nil {
		if a := dead(3 * time.Second); a != nil {
			return *a
		}
		if ne, isNet := err.(net.Error); isNet && ne.Timeout() {
			return hung(srv)
		}
		return rpcAnswer{class: "infra", info: "probe: " + err.Error()}
	}
	return rpcAnswer{class: "closed"}
}

// waitOf: the wait timeout a query request body asks for (0 when the body does not decode)
func waitOf(body []byte) int {
	w := 0
	func() {
		defer func() { recover() }()
		if _, qr, err := rpc.VC13UnmarshalQueryRequest(body); err == nil {
			w = qr.WaitTimeout
		}
	}()
	return w
}

// mkRpcRaw: in[0] = function id (2 bytes, big endian), in[1] = the body, in[2] (optional) = the body size the
// frame header declares (4 bytes) when it differs from the real one
func mkRpcRaw(fnb, body, decl []byte) Case { return mkRpc(fnb, body, decl, false) }

// mkRpcValid: the well-formed request of an endpoint, as the client sends it: it must be answered with ok. An
// endpoint that refuses it cannot be driven by this stream any further (nothing behind the refusal is reached)
func mkRpcValid(fnb, body []byte) Case { return mkRpc(fnb, body, nil, true) }

func mkRpc(fnb, body, decl []byte, mustOk bool) Case {
	for len(fnb) < 2 {
		fnb = append([]byte{0}, fnb...)
	}
	fn := binary.BigEndian.Uint16(fnb)
	declared := uint32(len(body))
	if len(decl) == 4 {
		declared = binary.BigEndian.Uint32(decl)
		if declared > 1<<20 {
			declared = 1 << 20 // the frame layer (dependency) allocates what the header declares
		}
		if int(declared) < len(body)-9 {
			declared = uint32(len(body) - 9) // the rest must not form a second frame header (it could declare 4 GB)
		}
	}
	tagp := fmt.Sprintf("fn%d-", fn)
	if fn == fnQuery && int(declared) == len(body) {
		if w := waitOf(body); w > 1 && w <= 60 {
			// a well-formed request to wait: answering late is what it asks for
			return Case{Coq: GApp("KOracleOnly", GNat(9)), Tags: []string{tagp + "skipped-wait"}}
		}
	}
	rpcMu.Lock()
	if rpcHangs[fn] >= maxHangsPerFn {
		rpcMu.Unlock()
		return Case{Coq: GApp("KOracleOnly", GNat(9)), Tags: []string{tagp + "skipped-after-hangs"}}
	}
	a := sendFrame(fn, declared, body, hangDeadline)
	if a.class == clHang {
		rpcHangs[fn]++
	}
	rpcMu.Unlock()
	var o *Violation
	if mustOk && a.class == clErr {
		o = viol(fmt.Sprintf("rpc-valid-request-refused-fn%d", fn), fmt.Sprintf("the well-formed request fn=%d body=%s is refused: %s", fn, hx(body), a.body))
	}
	switch a.class {
	case clPanic:
		o = viol(fmt.Sprintf("rpc-server-dies-fn%d", fn), fmt.Sprintf("the server process dies on the request fn=%d body=%s (declared size %d): %s", fn, hx(body), declared, a.info))
	case clHang:
		o = viol(fmt.Sprintf("hang-rpc-fn%d", fn), fmt.Sprintf("no answer within the deadline to fn=%d body=%s", fn, hx(body)))
	case clOk:
		if int(declared) == len(body) {
			o = answerDecodes(fn, body, a.body)
		}
	}
	coq := GApp("KOracleOnly", GNat(9))
	if (a.class == clOk || a.class == clErr) && int(declared) == len(body) && (fn == fnWrite || fn == fnQuery) && len(body) <= 600 {
		coq = GApp("KRpc", GNat(int(fn)), GBytes(body), GBool(a.class == clOk))
	}
	nt := a.class == clOk || a.class == clErr
	return Case{Coq: coq, Oracle: o, NonTrivial: nt, Tags: []string{tagp + a.class}}
}

// answerDecodes: the response encoders: an ok answer must be what the client decoders accept
func answerDecodes(fn uint16, req, resp []byte) *Violation {
	bad := func(why string) *Violation {
		return viol(fmt.Sprintf("rpc-answer-undecodable-fn%d", fn), fmt.Sprintf("request %s: the ok answer %s %s", hx(req), hx(resp), why))
	}
	switch fn {
	case fnQuery:
		if len(resp) == 0 {
			return nil // cEmptyResponse: limit 0
		}
		r := guard(func() (interface{}, error) {
			n, _, err := rpc.VC13UnmarshalQueryResult(resp)
			if err == nil && n != len(resp) {
				return nil, fmt.Errorf("%d of %d bytes read", n, len(resp))
			}
			return nil, err
		})
		if r.class != clOk {
			return bad("is not a query result (" + r.class + ")")
		}
	case fnExecute:
		var res api.ExecResult
		if err := json.Unmarshal(resp, &res); err != nil {
			return bad("is not an ExecResult: " + err.Error())
		}
	case fnEnsure:
		var res api.PipeCreateResult
		if err := json.Unmarshal(resp, &res); err != nil {
			return bad("is not a PipeCreateResult: " + err.Error())
		}
	}
	return nil
}

// ---------------------------------------------------------------- generators

func fnb(fn int) []byte { return []byte{byte(fn >> 8), byte(fn)} }

func u32b(v uint32) []byte {
	var b [4]byte
	binary.BigEndian.PutUint32(b[:], v)
	return b[:]
}

func jsonBody(v interface{}) []byte {
	b, _ := json.Marshal(v)
	return b
}

// statements of every kind with extreme numbers, odd names and hostile literals, executed through the wire
var rpcStatements = []string{
	"SHOW PARTITIONS", "SHOW PARTITIONS c13rpc=x OFFSET 1 LIMIT 1", "SHOW PARTITIONS OFFSET -1", "SHOW PARTITIONS LIMIT -9223372036854775808",
	"SHOW PARTITIONS OFFSET 9223372036854775807 LIMIT 9223372036854775807", "SHOW PARTITIONS {c13rpc=x,p=0}", "SHOW PARTITIONS c13rpc like \"[\"",
	"SHOW PIPES", "SHOW PIPES OFFSET -1", "SHOW PIPES LIMIT -1", "SHOW PIPES OFFSET 9223372036854775807", "SHOW PIPES OFFSET -9223372036854775808 LIMIT 9223372036854775807",
	"SHOW PIPES OFFSET 1 LIMIT 0", "SHOW PIPES OFFSET 4294967296 LIMIT 4294967296", "SHOW PIPES LIMIT 99999999999999999999",
	"DESCRIBE PARTITION c13rpc=x", "DESCRIBE PARTITION {c13rpc=x,p=0}", "DESCRIBE PARTITION {}", "DESCRIBE PARTITION {nosuch=1}", "DESCRIBE PARTITION {a=\"b\\}", "DESCRIBE PARTITION \"\"",
	"DESCRIBE PIPE c13pipe", "DESCRIBE PIPE nosuch", "DESCRIBE PIPE \"\"", "DESCRIBE PIPE \"a b\"", "DESCRIBE PIPE \xc4\xb0", "DESCRIBE PIPE " + "n" + strings.Repeat("x", 300), "DESCRIBE",
	"TRUNCATE DRYRUN c13rpc=x MINSIZE 0", "TRUNCATE DRYRUN c13rpc=x MINSIZE -1", "TRUNCATE DRYRUN c13rpc=x MAXSIZE 9223372036854775807", "TRUNCATE DRYRUN c13rpc=x MAXSIZE 18446744073709551615",
	"TRUNCATE DRYRUN c13rpc=x MAXSIZE 18446744073709551616", "TRUNCATE DRYRUN MAXDBSIZE 1", "TRUNCATE DRYRUN MAXDBSIZE 0 MINSIZE 9223372036854775808", "TRUNCATE DRYRUN c13rpc=x MAXSIZE 1G MINSIZE 1kb",
	"TRUNCATE DRYRUN c13rpc=x MAXSIZE 99999999999G", "TRUNCATE DRYRUN c13rpc=x BEFORE \"-1m\"", "TRUNCATE DRYRUN c13rpc=x BEFORE \"\"", "TRUNCATE DRYRUN c13rpc=x BEFORE \"-\"",
	"TRUNCATE DRYRUN c13rpc=x BEFORE \"-9223372036854775808\"", "TRUNCATE DRYRUN c13rpc=x BEFORE \"9223372036854775807\"", "TRUNCATE DRYRUN c13rpc=x BEFORE \"-99999999999999999999h\"",
	"TRUNCATE DRYRUN {a=\"b\\} MAXSIZE 1", "TRUNCATE DRYRUN nosuch=1 MAXSIZE 1", "TRUNCATE nosuch=1 MAXSIZE 1", "TRUNCATE",
	"CREATE PIPE c13p2 FROM c13rpc=x WHERE msg contains \"a\"", "CREATE PIPE c13p2", "CREATE PIPE c13pipe FROM c13rpc=x", "CREATE PIPE \"\"", "CREATE PIPE c13p3 FROM {a=\"b\\}",
	"CREATE PIPE c13p3 FROM c13rpc=x WHERE msg like \"[a\"", "CREATE PIPE c13p3 FROM c13rpc=x WHERE ts > \"-\"", "CREATE PIPE c13p3 WHERE fields:a = 1 OR NOT (ts < 5)", "DELETE PIPE c13p2", "DELETE PIPE nosuch", "DELETE PIPE \"\"",
	"SELECT FROM c13rpc=x LIMIT 1", "SELECT", "select \"{msg.json()} {vars:a} {ts.format(2006)}\" from c13rpc=x where fields:a = \"b\" limit 2", "SELECT LIMIT -1", "SELECT OFFSET -9223372036854775808 LIMIT 9223372036854775807",
	"SELECT RANGE [\"-1h\":\"-\"]", "SELECT POSITION tail LIMIT 1", "SELECT POSITION \"a=b:c\" LIMIT 1", "", " ", "\x00", "SHOW", "show pipes offset", "\xef\xbf\xbd", "SHOW PARTITIONS " + strings.Repeat("(", 200) + "a=b" + strings.Repeat(")", 200),
}

var rpcQueries = []string{
	"SELECT FROM c13rpc=x LIMIT 5", "select from c13rpc=x", "SELECT FROM {c13rpc=x,p=1}", "SELECT", "SELECT FROM nosuch=1", "SELECT FROM c13rpc=x AND p>0 OR p like \"[01]\"",
	"SELECT FROM upper(c13rpc)=X AND lower(p) != \"1\" AND p contains \"\" AND p prefix \"0\" AND p suffix \"2\" OR NOT p <= \"1\" AND p >= 0 AND p < 9", "SELECT FROM upper(c13rpc, p)=X", "SELECT FROM nofn(p)=1", "SELECT FROM c13rpc like \"[\"", "SELECT FROM c13rpc=x AND p like \"[\"", "SELECT FROM p like \"[\" AND c13rpc=x", "SELECT FROM c13rpc=x OR p like \"[\"",
	"SELECT FROM c13rpc=x WHERE msg contains a AND msg like \"[\"", "SELECT FROM c13rpc=x WHERE msg like \"[\" AND msg contains a", "SELECT FROM c13rpc=x WHERE msg contains a OR fields:a like \"[\"", "SELECT FROM c13rpc=x WHERE ts contains 5", "SELECT FROM c13rpc=x WHERE upper(msg, msg) = A",
	"SELECT FROM c13rpc=x WHERE msg contains \"first\"", "SELECT FROM c13rpc=x WHERE fields:a = \"b\" OR fields:a like \"c*\" OR fields:e = \"\" OR fields:zz != 1",
	"SELECT FROM c13rpc=x WHERE upper(fields:a) = B AND lower(msg) prefix s AND NOT msg suffix d", "SELECT FROM c13rpc=x WHERE ts > 15 AND ts <= \"2030-01-01T00:00:00Z\" AND ts != \"-1h\"",
	"SELECT FROM c13rpc=x WHERE ts < \"-\"", "SELECT FROM c13rpc=x WHERE ts = \"\"", "SELECT FROM c13rpc=x WHERE msg like \"[a\"", "SELECT FROM c13rpc=x WHERE fields:a like \"[a\"", "SELECT FROM c13rpc=x WHERE ts like 5",
	"SELECT \"{msg.json()}|{vars:a}|{vars}|{ts.format(15:04)}|{ts}|{msg}\" FROM c13rpc=x", "SELECT \"{vars:\" FROM c13rpc=x", "SELECT \"{ts.format(}\" FROM c13rpc=x", "SELECT \"{{\" FROM c13rpc=x",
	"SELECT FROM c13rpc=x RANGE [\"-1h\":]", "SELECT FROM c13rpc=x RANGE [5:25]", "SELECT FROM c13rpc=x RANGE [\"\":\"-\"]", "SELECT FROM c13rpc=x RANGE \"-9223372036854775808\"",
	"SELECT FROM c13rpc=x POSITION tail", "SELECT FROM c13rpc=x POSITION head OFFSET 2", "SELECT FROM c13rpc=x POSITION tail OFFSET -2 LIMIT 3", "SELECT FROM c13rpc=x OFFSET -9223372036854775808", "SELECT FROM c13rpc=x OFFSET 9223372036854775807",
	"SELECT FROM c13rpc=x POSITION \"zz=0000000000000000:q\"", "SELECT FROM {a=\"b\\}", "SHOW PIPES", "TRUNCATE c13rpc=x MAXSIZE 1", "", "\x80", "select from", "SELECT FROM c13rpc=x LIMIT 99999999999999999999",
}

func genRpc(c *Ctx, r *Rng, add func(kind string, in ...[]byte)) {
	raw := func(fn int, body []byte) { add("rpcraw", fnb(fn), body) }
	huge := hostileVarints[0]
	validWp := encWp("c13rpc=x,p=0", "f=g", []apiEv{{41, "m1", "", "a=b"}, {42, "m2", "", ""}})
	validQr := encQr(&api.QueryRequest{Query: "SELECT FROM c13rpc=x LIMIT 5", Limit: 5})
	validEx := jsonBody(api.ExecRequest{Query: "SHOW PARTITIONS"})
	validPipe := jsonBody(api.Pipe{Name: "c13pipe", TagsCond: "c13rpc=x", FilterCond: "msg contains \"first\""})
	valid := map[int][]byte{fnWrite: validWp.buf, fnQuery: validQr.buf, fnExecute: validEx, fnEnsure: validPipe}

	// -- byte level: every registered function id with the bodies no well-behaved client sends
	for _, fn := range []int{fnWrite, fnQuery, fnExecute, fnEnsure} {
		add("rpcvalid", fnb(fn), valid[fn])
		raw(fn, valid[fn])
		for _, b := range [][]byte{nil, huge, append([]byte{0, 0, 0, 0, 0, 0, 0, 1}, huge...), {0}, {0xff}, []byte("{"), []byte("null"), []byte("[]"), []byte("\"x\""), []byte("{}"), []byte("7"),
			[]byte("{\"Query\":1}"), []byte("{\"Query\":null,\"Name\":null}"), []byte("{\"Query\":[\"SHOW PIPES\"],\"Name\":{}}"), []byte("{\"Query\":\"SHOW PIPES\",\"Query\":2}"),
			[]byte("{\"Query\":\"\\ud800\",\"Name\":\"\\ud800\",\"TagsCond\":\"\\u0000\"}"), []byte("{\"Query\":\"SHOW PIPES\""), []byte("{\"Query\":\"\x80\xff\",\"Name\":\"\x80\"}"),
			[]byte("{\"Name\":\"n\",\"TagsCond\":5}"), []byte("{\"name\":\"c13pipe\",\"tagscond\":\"c13rpc=x\",\"FILTERCOND\":\"msg like \\\"[a\\\"\"}"), []byte("{\"Query\":" + strings.Repeat("[", 300)),
			[]byte("{\"Query\":\"" + strings.Repeat("\\", 301)), r.Bytes(r.Range(1, 40), nil), r.Bytes(r.Range(1, 12), []byte{0x80, 0xff, 0x00, 0x01, 0x7f, '{', '"'})} {
			raw(fn, b)
		}
		// the valid body of every other endpoint
		for _, other := range []int{fnWrite, fnQuery, fnExecute, fnEnsure} {
			if other != fn {
				raw(fn, valid[other])
			}
		}
		// truncations of the valid body and frames that lie about the size of their body
		v := valid[fn]
		for _, cut := range []int{1, len(v) / 2, len(v) - 1} {
			raw(fn, v[:cut])
		}
		for _, d := range []int{1, 9} {
			add("rpcraw", fnb(fn), v, u32b(uint32(len(v)-d)))
		}
		for _, d := range []uint32{uint32(len(v) + 1), uint32(len(v) + 300), 0xffffffff} {
			add("rpcraw", fnb(fn), v, u32b(d))
		}
	}
	// -- function ids nobody registered: skipped, the connection goes on
	for _, fn := range []int{0, 1, 99, 101, 201, 0x7fff, 0x8000, 0xffff} {
		raw(fn, nil)
		raw(fn, validWp.buf)
	}
	// -- write packets: length / counter corruptions, hostile varints in every field, kv texts cut inside a quotation
	for _, m := range sample(r, mutations(r, validWp, false, 4), c.N(30)) {
		raw(fnWrite, m)
	}
	raw(fnWrite, append([]byte{3, 't', '=', '1'}, huge...))
	raw(fnWrite, append([]byte{3, 't', '=', '1', 0, 0, 0, 0, 1, 0, 0, 0, 0, 0, 0, 0, 1}, huge...))
	raw(fnWrite, append([]byte{3, 't', '=', '1', 0, 0, 0, 0, 2, 0, 0, 0, 0, 0, 0, 0, 1, 1, 'm', 0, 0, 0, 0, 0, 0, 0, 0, 0, 2, 0}, huge...))
	for _, hv := range hostileVarints[:5] {
		raw(fnWrite, hv)
	}
	for i := 0; i < c.N(10); i++ {
		t := kvEscapeAtEnd[r.Intn(len(kvEscapeAtEnd))]
		switch i % 3 {
		case 0:
			raw(fnWrite, encWp(t, "", []apiEv{{1, "m", "", ""}}).buf)
		case 1:
			raw(fnWrite, encWp("c13rpc=x,p=0", t, []apiEv{{1, "m", "", ""}}).buf)
		default:
			raw(fnWrite, encWp("c13rpc=x,p=0", "", []apiEv{{1, "m", "", "e=f"}, {2, "n", t, t}}).buf)
		}
	}
	for i := 0; i < c.N(8); i++ {
		raw(fnWrite, encWp(r.PickStr("c13rpc=x,p=0", "c13rpc=x,p=7", "", "{}", "c13rpc=x", "{c13rpc=x,p=\"1\"}", "a=", "=b", strings.Repeat("t", 300)+"=1"), genKv(r),
			[]apiEv{{r.I64() >> uint(r.PickInt(0, 1, 40)), r.PickStr("", "m", "\xef\xbf\xbd\x80\x00"), r.PickStr("", "t=v"), genKv(r)}}).buf)
	}
	raw(fnWrite, encWp("c13rpc=x,p=0", "", []apiEv{{-9223372036854775808, "min", "", ""}, {9223372036854775807, "max", "", ""}, {0, "", "", ""}}).buf)
	// -- query requests: valid shape, hostile contents (every statement / condition kind, positions, offsets, limits)
	offs := []int{0, 0, 1, -1, 5, -5, 2147483647, -2147483648}
	lims := []int{5, 5, 1, 0, 3, 10000, 10001, 2147483647, 4294967295}
	for i, q := range rpcQueries {
		rq := &api.QueryRequest{ReqId: uint64(r.PickInt(0, 0, 1, 77)), Query: q, Pos: r.PickStr("", "", "tail", "head", genStatePos(r)), Offset: offs[r.Intn(len(offs))], Limit: lims[r.Intn(len(lims))]}
		if i < 3 {
			rq.Pos, rq.Offset, rq.Limit = "", 0, 5
		}
		raw(fnQuery, encQr(rq).buf)
	}
	for _, w := range []int{1, 61, 65535} {
		raw(fnQuery, encQr(&api.QueryRequest{Query: "SELECT FROM c13rpc=x", Pos: "tail", Limit: 2, WaitTimeout: w}).buf)
	}
	// both sides of the constants of the endpoint: QueryMaxWaitTimeout (60 is accepted - there is data, so nothing waits -
	// 61 is refused above), QueryMaxLimit (10000 kept, 10001 clipped and the cursor cached), Offset at the ends of int32
	for _, q := range []*api.QueryRequest{{Query: "SELECT FROM c13rpc=x", Limit: 2, WaitTimeout: 60}, {Query: "SELECT FROM c13rpc=x", Limit: 10000}, {Query: "SELECT FROM c13rpc=x", Limit: 10001},
		{Query: "SELECT FROM c13rpc=x", Limit: 9999}, {Query: "SELECT FROM c13rpc=x", Limit: 1, Offset: 2147483647}, {Query: "SELECT FROM c13rpc=x", Limit: 1, Offset: -2147483648},
		{Query: "SELECT FROM c13rpc=x", Pos: "tail", Limit: 1, Offset: -1}, {Query: "SELECT FROM c13rpc=x", Pos: "tail", Limit: 3, Offset: -9}, {Query: "SELECT FROM c13rpc=x", Pos: "tail", Limit: 3, Offset: -10},
		{Query: "SELECT FROM c13rpc=x", Pos: "head", Limit: 3, Offset: 8}, {Query: "SELECT FROM c13rpc=x", Pos: "head", Limit: 3, Offset: 9}, {Query: "SELECT FROM c13rpc=x", Pos: "head", Limit: 3, Offset: 10},
		{ReqId: 18446744073709551615, Query: "SELECT FROM c13rpc=x", Limit: 1}, {ReqId: 9223372036854775808, Query: "SELECT FROM c13rpc=x", Limit: 1, WaitTimeout: 1}} {
		raw(fnQuery, encQr(q).buf)
		raw(fnQuery, encQr(q).buf) // the same request twice: both are sent (the second is not recorded as a case of its own)
	}
	// a continued query: the request the server hands back (its id, position) is sent again, and with a broken position
	add("rpccont", []byte("SELECT FROM c13rpc=x LIMIT 2"))
	add("rpccont", []byte("SELECT FROM c13rpc=x WHERE msg contains \"d\" POSITION tail OFFSET -4 LIMIT 1"))
	for _, m := range sample(r, mutations(r, validQr, false, 4), c.N(25)) {
		raw(fnQuery, m)
	}
	// -- admin execute: every statement kind through the wire
	for _, s := range rpcStatements {
		raw(fnExecute, jsonBody(api.ExecRequest{Query: s}))
	}
	for _, h := range hostileInts {
		raw(fnExecute, jsonBody(api.ExecRequest{Query: "SHOW PIPES OFFSET " + h + " LIMIT " + hostileInts[r.Intn(len(hostileInts))]}))
		raw(fnExecute, jsonBody(api.ExecRequest{Query: "SHOW PARTITIONS c13rpc=x OFFSET " + hostileInts[r.Intn(len(hostileInts))] + " LIMIT " + h}))
	}
	for i := 0; i < c.N(15); i++ {
		raw(fnExecute, []byte(mutateText(r, string(jsonBody(api.ExecRequest{Query: rpcStatements[r.Intn(len(rpcStatements))]})), []byte("{}[]\":,\\\x80"))))
	}
	// -- ensure pipe: names, tag conditions, filters
	names := []string{"c13pipe", "c13p4", "", " ", "a b", "a/b", "..", "\xc4\xb0", "\x00", "n\"q", strings.Repeat("n", 300), "{x}", "a=b"}
	tcs := []string{"c13rpc=x", "", "{c13rpc=x,p=0}", "c13rpc=x AND p>0", "{a=\"b\\}", "a=\"b\\", "c13rpc like \"[\"", "upper(c13rpc)=X OR NOT p<1", "nofn(a)=1", "a=b,c", "logrange.pipe=c13pipe", "\x80", "(", genKv(r)}
	fcs := []string{"", "msg contains \"first\"", "fields:a = b OR ts > 5", "msg like \"[a\"", "ts < \"-\"", "ts > \"2030-01-01T00:00:00Z\"", "fields:a like \"[a\"", "upper(msg) prefix F AND NOT lower(fields:e) suffix \"\"", "a=b", "(", "\x80", "msg"}
	// definitions that differ from an existing one only in the case of a letter (name, condition keyword, value), or in blanks; twice each
	for _, p := range []api.Pipe{{Name: "c13pipe", TagsCond: "c13rpc=x", FilterCond: "msg contains \"first\""}, {Name: "C13PIPE", TagsCond: "c13rpc=x", FilterCond: "msg contains \"first\""},
		{Name: "c13pipe", TagsCond: "C13RPC=x", FilterCond: "msg contains \"first\""}, {Name: "c13pipe", TagsCond: "c13rpc=X", FilterCond: "msg contains \"first\""}, {Name: "c13pipe", TagsCond: "c13rpc=x", FilterCond: "MSG CONTAINS \"first\""},
		{Name: "c13pipe", TagsCond: "c13rpc=x", FilterCond: "msg contains \"First\""}, {Name: "c13pipe", TagsCond: " c13rpc = x ", FilterCond: "msg  contains  \"first\""}, {Name: "c13pipe", TagsCond: "{c13rpc=x}", FilterCond: "(msg contains \"first\")"},
		{Name: "c13pipe ", TagsCond: "c13rpc=x", FilterCond: "msg contains \"first\""}} {
		raw(fnEnsure, jsonBody(p))
		raw(fnEnsure, append(jsonBody(p), ' '))
	}
	for _, st := range []string{"DELETE PIPE c13p7", "CREATE PIPE c13p7 FROM c13rpc=x", "CREATE PIPE c13p7 FROM c13rpc=x", "CREATE PIPE C13P7 FROM c13rpc=x", "DELETE PIPE c13p7", "DELETE PIPE c13p7", "DESCRIBE PIPE c13p7", "DESCRIBE PIPE C13PIPE"} {
		raw(fnExecute, jsonBody(api.ExecRequest{Query: st}))
		raw(fnExecute, append(jsonBody(api.ExecRequest{Query: st}), ' '))
	}
	raw(fnEnsure, jsonBody(api.Pipe{Name: "c13pipe", TagsCond: "c13rpc=x", FilterCond: "msg contains \"second\""})) // the existing name with another filter
	raw(fnEnsure, jsonBody(api.Pipe{Name: "c13pipe", TagsCond: "c13rpc=x", FilterCond: "msg contains \"first\"", Destination: "a=\"b\\"}))
	for _, n := range names {
		raw(fnEnsure, jsonBody(api.Pipe{Name: n, TagsCond: "c13rpc=x", FilterCond: ""}))
	}
	for _, t := range tcs {
		raw(fnEnsure, jsonBody(api.Pipe{Name: "c13p5", TagsCond: t, FilterCond: fcs[r.Intn(len(fcs))]}))
	}
	for _, f := range fcs {
		raw(fnEnsure, jsonBody(api.Pipe{Name: "c13p6", TagsCond: tcs[r.Intn(4)], FilterCond: f}))
	}
	for i := 0; i < c.N(10); i++ {
		raw(fnEnsure, []byte(mutateText(r, string(jsonBody(api.Pipe{Name: names[r.Intn(len(names))], TagsCond: tcs[r.Intn(len(tcs))], FilterCond: fcs[r.Intn(len(fcs))]})), []byte("{}[]\":,\\\x80"))))
	}
	// a write after the pipes exist: the pipe filters run on it (in the server process)
	raw(fnWrite, encWp("c13rpc=x,p=1", "f=g", []apiEv{{51, "first again", "", "a=b"}, {52, "\xef\xbf\xbd", "", "a=\"\\\"\""}}).buf)
	raw(fnQuery, encQr(&api.QueryRequest{Query: "SELECT FROM logrange.pipe=c13pipe LIMIT 5", Limit: 5}).buf)
}

// mkRpcCont: a query, then the continuation request taken from its answer, then the same continuation with the
// position cut / replaced: what a client that lost its state, or a hostile one, sends back
func mkRpcCont(q []byte) Case {
	// WaitTimeout > 0 makes the server keep the cursor: the continuations meet the cached cursor (ApplyState)
	first := encQr(&api.QueryRequest{Query: string(q), Limit: 2, WaitTimeout: 1}).buf
	var o *Violation
	tg := ""
	step := func(body []byte) (next *api.QueryRequest) {
		rpcMu.Lock()
		if rpcHangs[fnQuery] >= maxHangsPerFn {
			rpcMu.Unlock()
			return nil
		}
		a := sendFrame(fnQuery, uint32(len(body)), body, hangDeadline)
		if a.class == clHang {
			rpcHangs[fnQuery]++
		}
		rpcMu.Unlock()
		switch a.class {
		case clPanic:
			if o == nil {
				o = viol("rpc-server-dies-fn200", fmt.Sprintf("the server process dies on the continued query %s: %s", hx(body), a.info))
			}
		case clHang:
			if o == nil {
				o = viol("hang-rpc-fn200", "no answer to the continued query "+hx(body))
			}
		case clOk:
			if len(a.body) > 0 {
				r := guard(func() (interface{}, error) {
					_, res, err := rpc.VC13UnmarshalQueryResult(a.body)
					return res, err
				})
				if r.class == clOk {
					res := r.val.(api.QueryResult)
					return &res.NextQueryRequest
				} else if o == nil {
					o = viol("rpc-answer-undecodable-fn200", "query "+hx(body)+": answer "+hx(a.body))
				}
			}
		}
		if len(tg) < 40 {
			tg += "-" + a.class
		}
		return nil
	}
	if nx := step(first); nx != nil {
		tg = "-continued"
		step(encQr(nx).buf)
		for _, p := range []string{nx.Pos + ":", strings.TrimRight(nx.Pos, "0123456789abcdefABCDEF"), strings.Replace(nx.Pos, "=", "==", 1), nx.Pos + nx.Pos, "head", strings.ToUpper(nx.Pos), nx.Pos[:len(nx.Pos)/2]} {
			c := *nx
			c.Pos = p
			step(encQr(&c).buf)
		}
		c := *nx
		c.Query = "SELECT FROM {c13rpc=x,p=2} LIMIT 1" // the id of a cached cursor with another query
		step(encQr(&c).buf)
		c = *nx
		c.Offset, c.Limit = -2147483648, 1
		step(encQr(&c).buf)
	}
	return Case{Coq: GApp("KOracleOnly", GNat(10)), Oracle: o, NonTrivial: true, Tags: []string{"cont" + tg}}
}
