// C14 harness: the real tindex.Service (and the real partition.Service GetJournals / Release /
// Truncate / deleteJournal / truncateGlobally on top of it, with a stub journal controller) is
// driven by an explicit scheduler.  Every actor runs its client procedures in its own goroutine
// and parks (blocks on a channel) between API calls, inside visitor callbacks and inside the stub
// journal calls; a call that is in a tindex retry loop is recognised by its goroutine being
// asleep inside pkg/tindex (a positive observation, re-validated after every state change by
// making the goroutine pass the tindex lock once).  After every scheduler step the table
// (src, tag, readers, exclusive) of the live partitions is read through the hook
// pkg/tindex/export_c14_verif.go and recorded with the step for the Coq model to compare.
package main

import (
	"fmt"
	"os"
	"sort"
	"strings"

	. "verifharness/common"
)

type Replay struct {
	Kind   string   `json:"kind"`
	Pre    int      `json:"pre"`
	Progs  [][]Proc `json:"progs"`
	Picks  []int    `json:"picks"`
	Ops    []ROp    `json:"ops,omitempty"`
	Script []Phase  `json:"script,omitempty"`
	EOps   []EOp    `json:"eops,omitempty"`
}

// Phase is one element of a scripted (adaptive) schedule: actor A is stepped while it is
// schedulable until it parks with code Until (-1: until it finishes or is seen spinning), at most
// Max steps (0: 40).  The Go map order decides how many scheduler steps a visit needs before it
// arrives somewhere, so a scenario such as "the visitor is inside its first callback, now delete
// the other partition" cannot be written as a fixed list of picks.
// Fuse: the steps of this phase are not followed by the re-validation of the spinners and the
// table read; they are merged with the next scheduler step into one group of observations (the
// spinners then see the effects of both steps at once, in whatever real-time order they wake up).
type Phase struct {
	A     int  `json:"a"`
	Until int  `json:"until"`
	Max   int  `json:"max,omitempty"`
	Fuse  bool `json:"fuse,omitempty"`
}

type event struct {
	i     int
	hint  int // -1 none
	obs   string
	snap  []row
	hasSn bool
}

func gObs(code int, l []int) string {
	sort.Ints(l)
	return fmt.Sprintf("(OPark %d %s)", code, gNats(l))
}

func (e event) Coq() string {
	h := "None"
	if e.hint >= 0 {
		h = fmt.Sprintf("(Some %d)", e.hint)
	}
	return fmt.Sprintf("KEv %d %s %s", e.i, h, e.obs)
}

// groupCoq renders one scheduler step: its observations and the table read after it
func groupCoq(evs []event) string {
	it := make([]string, len(evs))
	sn := "None"
	for k, e := range evs {
		it[k] = e.Coq()
		if e.hasSn {
			sn = "(Some " + gSnap(e.snap) + ")"
		}
	}
	return "([" + strings.Join(it, "; ") + "], " + sn + ")"
}

type result struct {
	events   []event
	groups   [][]event
	picks    []int
	viol     *Violation
	spins    int
	maxExcl  int
	deleted  int
	steps    int
	finished bool
	leaks    int
	fused    int
	scriptSteps int
	recreate int // a tag line got a new source while a waiting visit was under way
}

func (r *result) fail(class, detail string) {
	if r.viol == nil {
		r.viol = &Violation{Class: class, Detail: detail}
	}
}

// observe turns the scheduler's view of actor a after a step into the model's observation
func (w *world) observe(a *actorT) (obs string, hint int) {
	switch a.status {
	case stSpinning:
		return "OSpin", -1
	case stDead:
		return "OPanic", -1
	}
	ev := a.lastPark
	l := make([]int, len(ev.srcs))
	for k, s := range ev.srcs {
		l[k] = w.index(s)
	}
	hint = -1
	if ev.code >= 2 && len(l) == 1 {
		hint = l[0]
	}
	return gObs(ev.code, l), hint
}

// the oracle: the property evaluated on the implementation's own observations
func (w *world) oracle(res *result, prev, cur []row, stepped []*actorT) {
	pm := map[int]row{}
	for _, r := range prev {
		pm[r.idx] = r
	}
	cm := map[int]row{}
	nex := 0
	for _, r := range cur {
		cm[r.idx] = r
		if r.readers < 0 {
			res.fail("negative-readers", fmt.Sprintf("partition %d readers=%d", r.idx, r.readers))
		}
		if r.excl {
			nex++
			if r.readers != 1 {
				res.fail("exclusive-with-other-holders", fmt.Sprintf("partition %d exclusive with readers=%d", r.idx, r.readers))
			}
		}
	}
	if nex > res.maxExcl {
		res.maxExcl = nex
	}
	// A retry loop waits for an exclusive lock to go away.  At this point nobody runs (every actor
	// is parked, finished, or was seen asleep in a retry loop after it passed the service lock on
	// this very table), and neither a retry iteration nor a released spinner on its way to its
	// next park sets or clears an exclusive flag: so some present partition must be exclusive.
	// Otherwise the actor waits for something that is not in the index any more, i.e. for ever.
	for _, a := range w.actors {
		if a.status == stSpinning && nex == 0 {
			res.fail("spin-without-locked-partition", fmt.Sprintf("actor %d (%s) is in a tindex retry loop although no partition of the index is exclusively locked: it waits for a descriptor that was removed", a.idx, a.cur.K))
		}
	}
	// distribution: a tag line got a new source id while a waiting visit was under way
	for _, r := range cur {
		if _, ok := pm[r.idx]; ok {
			continue
		}
		again := false
		for s, t := range w.srcTag {
			if t == r.tag && w.srcIdx[s] != r.idx {
				again = true
			}
		}
		if !again {
			continue
		}
		for _, a := range w.actors {
			wv := (a.cur.K == "visit" && !a.cur.Skip) || a.cur.K == "query"
			if wv && (a.status == stSpinning || (a.status == stParked && a.lastPark.code == 2)) {
				res.recreate++
				break
			}
		}
	}
	for _, r := range prev {
		if _, ok := cm[r.idx]; !ok {
			res.deleted++
			if !r.excl || r.readers != 1 {
				res.fail("deleted-while-in-use", fmt.Sprintf("partition %d removed; before the step exclusive=%v readers=%d", r.idx, r.excl, r.readers))
			}
		}
	}
	for _, a := range stepped {
		if a.limitViol != "" {
			res.fail("getjournals-limit", a.limitViol)
		}
	}
	// a partition just handed to a client is present and not exclusive
	for _, a := range stepped {
		if a.status != stParked {
			if a.status == stDead {
				res.fail("panic", fmt.Sprintf("actor %d: %v", a.idx, a.lastPark.panicv))
			}
			continue
		}
		if c := a.lastPark.code; c == 1 || c == 2 || c == 4 {
			for _, s := range a.lastPark.srcs {
				r, ok := cm[w.index(s)]
				if !ok {
					res.fail("acquired-deleted-partition", fmt.Sprintf("actor %d was handed %d which is not in the index", a.idx, w.index(s)))
				} else if r.excl {
					res.fail("acquired-exclusive-partition", fmt.Sprintf("actor %d was handed %d which is exclusively locked", a.idx, r.idx))
				} else if r.readers < 1 {
					res.fail("held-without-count", fmt.Sprintf("actor %d holds %d but readers=%d", a.idx, r.idx, r.readers))
				}
			}
		}
	}
}

// step resumes actor a, waits for its outcome, re-validates every spinning actor, records the
// events and the table, runs the oracle.  fuse: only resume and wait; the observation is kept in
// w.pending and becomes part of the group of the next step.
func (w *world) step(res *result, a *actorT, prev []row, fuse bool) ([]row, error) {
	a.resume <- struct{}{}
	if err := w.waitOutcome(a); err != nil {
		return nil, err
	}
	res.picks = append(res.picks, a.idx)
	res.steps++
	if fuse && a.status != stDead {
		w.pending = append(w.pending, a)
		res.fused++
		return prev, nil
	}
	return w.settle(res, append(w.pending, a), prev)
}

// settle closes a group of resumed actors: spinners are re-validated, the table is read, the
// observations are recorded, the oracle runs
func (w *world) settle(res *result, group []*actorT, prev []row) ([]row, error) {
	w.pending = nil
	inGroup := func(b *actorT) bool {
		for _, c := range group {
			if c == b {
				return true
			}
		}
		return false
	}
	dead := false
	for _, b := range group {
		if b.status == stDead {
			dead = true
		}
	}
	last := group[len(group)-1] // the actor resumed last: its observation is fresh
	for _, b := range w.actors {
		if !dead && b != last && b.status == stSpinning {
			// (also an earlier member of a fused group that was seen spinning: what it saw may be stale)
			wasIn := inGroup(b)
			if err := w.recheck(b); err != nil {
				return nil, err
			}
			if !wasIn {
				group = append(group, b)
			}
			dead = b.status == stDead
		}
	}
	if dead {
		// Release / UnlockExclusively panic with the service lock held: nothing can be read any more
		var g []event
		for _, b := range group {
			o, h := w.observe(b)
			g = append(g, event{i: b.idx, hint: h, obs: o})
			if b.status == stDead {
				res.fail("panic", fmt.Sprintf("actor %d: %v", b.idx, b.lastPark.panicv))
			}
		}
		res.groups = append(res.groups, g)
		return prev, nil
	}
	cur, err := w.snapshot()
	if err != nil {
		return nil, err
	}
	var g []event
	for k, b := range group {
		o, h := w.observe(b)
		ev := event{i: b.idx, hint: h, obs: o}
		if k == len(group)-1 {
			ev.snap, ev.hasSn = cur, true
		}
		if b.status == stSpinning {
			res.spins++
		}
		g = append(g, ev)
	}
	res.groups = append(res.groups, g)
	w.oracle(res, prev, cur, group)
	return cur, nil
}

func (w *world) schedulable() []*actorT {
	var l []*actorT
	for _, a := range w.actors {
		if a.status == stParked {
			l = append(l, a)
		}
	}
	return l
}

// runCase executes a schedule: the script (if any), then the picks (an unschedulable pick ends the
// prefix), then random choices, then a round-robin drain until every actor has finished.
func runCase(pre int, progs [][]Proc, script []Phase, picks []int, choose func(n int) int, maxSteps int) (*result, error) {
	w, err := newWorld(pre, progs)
	if err != nil {
		return nil, err
	}
	defer w.close()
	res := &result{}
	prev, err := w.snapshot()
	if err != nil {
		return nil, err
	}
	dead := false
	stepF := func(a *actorT, fuse bool) error {
		cur, err := w.step(res, a, prev, fuse)
		if err != nil {
			return err
		}
		prev = cur
		for _, b := range w.actors {
			if b.status == stDead {
				dead = true
			}
		}
		return nil
	}
	stepA := func(a *actorT) error { return stepF(a, false) }
	for _, ph := range script {
		if ph.A < 0 || ph.A >= len(w.actors) {
			continue
		}
		a := w.actors[ph.A]
		max := ph.Max
		if max <= 0 {
			max = 40
		}
		for n := 0; n < max && !dead && res.viol == nil && a.status == stParked; n++ {
			if err := stepF(a, ph.Fuse); err != nil {
				return nil, err
			}
			if a.status == stParked && ph.Until >= 0 && a.lastPark.code == ph.Until {
				break
			}
		}
	}
	if len(w.pending) > 0 {
		// a fused step that nothing followed
		cur, err := w.settle(res, w.pending, prev)
		if err != nil {
			return nil, err
		}
		prev = cur
	}
	res.scriptSteps = len(res.picks)
	for _, p := range picks {
		if dead || res.viol != nil {
			break
		}
		if p < 0 || p >= len(w.actors) || w.actors[p].status != stParked {
			break
		}
		if err := stepA(w.actors[p]); err != nil {
			return nil, err
		}
	}
	for n := 0; choose != nil && n < maxSteps && !dead && res.viol == nil; n++ {
		l := w.schedulable()
		if len(l) == 0 {
			break
		}
		if err := stepA(l[choose(len(l))]); err != nil {
			return nil, err
		}
	}
	rr := 0
	for n := 0; n < 400 && !dead && res.viol == nil; n++ {
		l := w.schedulable()
		if len(l) == 0 {
			break
		}
		rr++
		if err := stepA(l[rr%len(l)]); err != nil {
			return nil, err
		}
	}
	if dead || res.viol != nil {
		return res, nil
	}
	// quiescence or deadlock
	spinning := 0
	for _, a := range w.actors {
		if a.status == stSpinning {
			spinning++
		}
		if a.status == stParked {
			res.fail("drain-too-long", "actors still running after the drain bound")
			return res, nil
		}
	}
	if spinning > 0 {
		res.fail("deadlock", fmt.Sprintf("%d actors spin forever and nobody else can run", spinning))
		return res, nil
	}
	res.finished = true
	// counts at quiescence: every acquisition was matched by one release
	failed := map[int]int{}
	for _, a := range w.actors {
		for _, s := range a.failed {
			failed[w.index(s)]++
			res.leaks++
		}
	}
	var generic, leak []string
	for _, r := range prev {
		if r.excl {
			generic = append(generic, fmt.Sprintf("partition %d left exclusive", r.idx))
		}
		if r.readers != 0 {
			if r.readers == failed[r.idx] {
				leak = append(leak, fmt.Sprintf("partition %d readers=%d after %d failed journal opens inside GetJournals", r.idx, r.readers, failed[r.idx]))
			} else {
				generic = append(generic, fmt.Sprintf("partition %d readers=%d at quiescence (failed opens: %d)", r.idx, r.readers, failed[r.idx]))
			}
		}
	}
	if len(generic) > 0 {
		res.fail("count-nonzero-at-quiescence", strings.Join(generic, "; "))
	} else if len(leak) > 0 {
		res.fail("getjournals-open-failure-leaks-partition", strings.Join(leak, "; "))
	}
	return res, nil
}

func mkCase(rp Replay, choose func(n int) int, maxSteps int, stream string) (*Case, error) {
	if rp.Kind == "raw" {
		return mkRaw(rp)
	}
	if strings.HasPrefix(rp.Kind, "e2e-") {
		return mkE2E(rp.EOps, rp.Kind == "e2e-async", stream)
	}
	res, err := runCase(rp.Pre, rp.Progs, rp.Script, rp.Picks, choose, maxSteps)
	if err != nil {
		return nil, err
	}
	progs := make([]string, len(rp.Progs))
	for i, p := range rp.Progs {
		it := make([]string, len(p))
		for k, q := range p {
			it[k] = q.Coq()
		}
		progs[i] = "[" + strings.Join(it, "; ") + "]"
	}
	evs := make([]string, len(res.groups))
	for i, g := range res.groups {
		evs[i] = groupCoq(g)
	}
	out := rp
	out.Picks = res.picks[res.scriptSteps:] // a replay runs the script again (adaptive), then these
	tags := []string{fmt.Sprintf("actors:%d", len(rp.Progs))}
	if res.spins > 0 {
		tags = append(tags, "spin-observed")
	}
	if res.deleted > 0 {
		tags = append(tags, "partition-deleted")
	}
	if res.maxExcl > 1 {
		tags = append(tags, "two-exclusive-at-once")
	}
	if res.leaks > 0 {
		tags = append(tags, "journal-open-failed")
	}
	if res.recreate > 0 {
		tags = append(tags, "recreated-under-waiting-visit")
	}
	seen := map[string]bool{}
	for _, pr := range rp.Progs {
		for _, q := range pr {
			switch {
			case q.K == "write" && q.Real && q.Abort < 0:
				seen["real-write"] = true
			case q.K == "write" && q.Real:
				seen[fmt.Sprintf("real-write-outcome-%d", q.Abort)] = true
			case q.K == "byid" && q.Real:
				seen["real-getjournal-by-id"] = true
			case q.K == "visit" && q.Real:
				seen["real-partitions-listing"] = true
			case q.K == "trunc" && (len(q.Ofail) > 0 || len(q.Gfail) > 0):
				seen["truncate-open-failure"] = true
			case q.K == "query" && q.Limit < 50:
				seen["query-small-limit"] = true
			}
		}
	}
	for k := range seen {
		tags = append(tags, k)
	}
	sort.Strings(tags[1:])
	if res.fused > 0 {
		tags = append(tags, "fused-steps")
	}
	if res.finished {
		tags = append(tags, "quiescent")
	}
	return &Case{
		Coq:        fmt.Sprintf("KRun %d [%s] [%s]", rp.Pre, strings.Join(progs, "; "), strings.Join(evs, "; ")),
		Replay:     out,
		NonTrivial: res.steps >= 4 && (res.spins > 0 || res.deleted > 0 || res.maxExcl > 0 || len(rp.Progs) > 1),
		Oracle:     res.viol,
		Stream:     stream,
		Tags:       tags,
	}, nil
}

const rule = "schedules of 1-4 client actors (Write/GetJournal brackets, GetJournalTags brackets, the four Visit flavours with early abort, the real GetJournals with failing journal opens and limits, the real Truncate with deleteJournal/truncateGlobally) over 2-3 tag lines on the real tindex service: a corpus of fixed witnesses, every schedule of <= 6 scheduler steps for 2 actors x 2 partitions for a set of program pairs (then drained round-robin), random schedules up to 60 steps for 3-4 actors, and scripted (adaptive) schedules of the family \"a partition of a waiting visit's snapshot is deleted and its tag line re-created under a new source id while the visit is parked in a callback / blocked on an exclusively locked partition / spinning (Delete and GetOrCreateJournal fused into one observation group)\", continued at random; plus end-to-end sessions on a real in-process server (queries with good and unparsable positions, kept / re-positioned / swept cursors, writes with batches failing on the first record or in the middle, TRUNCATE in its modes, DESCRIBE / SHOW PARTITIONS, pipes, index rebuilds; single-client sessions compared with the model operation by operation, concurrent ones checked at quiescence); non-trivial iff >= 4 scheduler steps and (>= 2 actors or a spin, an exclusive lock or a deletion was observed)"

func main() {
	Main("C14", "C14K", func(c *Ctx) error {
		c.ShardSize = 100
		if c.Replay != nil {
			var rp Replay
			if err := FromJSON(c.Replay, &rp); err != nil {
				return err
			}
			cs, err := mkCase(rp, nil, 0, "replay")
			if err != nil {
				return err
			}
			c.Add(*cs)
			return c.Finish(rule)
		}
		type job struct {
			rp     Replay
			rng    *Rng
			max    int
			stream string
		}
		var jobs []job
		for _, rp := range corpus() {
			jobs = append(jobs, job{rp: rp, stream: "corpus"})
		}
		for _, pp := range exhaustivePairs() {
			for s := 0; s < 64; s++ {
				picks := make([]int, 6)
				for k := 0; k < 6; k++ {
					picks[k] = (s >> uint(k)) & 1
				}
				jobs = append(jobs, job{rp: Replay{Kind: "exh", Pre: 2, Progs: pp, Picks: picks}, stream: "exhaustive"})
			}
		}
		for i := 0; i < c.N(260); i++ {
			r := c.Rng.Fork()
			jobs = append(jobs, job{rp: genRandom(r), rng: r, max: 60, stream: "random"})
		}
		for i := 0; i < c.N(200); i++ {
			jobs = append(jobs, job{rp: genRaw(c.Rng.Fork()), stream: "raw"})
		}
		for _, rp := range limitCorpus() {
			jobs = append(jobs, job{rp: rp, stream: "corpus"})
		}
		for _, rp := range writeCorpus() {
			jobs = append(jobs, job{rp: rp, stream: "corpus"})
		}
		for _, rp := range openFailCorpus() {
			jobs = append(jobs, job{rp: rp, stream: "corpus"})
		}
		// raw: the boundaries of the three count tests (LockExclusively readers == 1, Release readers <= 0,
		// UnlockExclusively readers != 1) from both sides, and operations on a removed source (all no-ops / NotFound)
		jobs = append(jobs,
			job{rp: Replay{Kind: "raw", Pre: 1, Ops: []ROp{{K: "lock", P: 0}, {K: "acqi", P: 0, Lock: true}, {K: "lock", P: 0}, {K: "unlock", P: 0}, {K: "acqi", P: 0, Lock: true}, {K: "lock", P: 0}, {K: "rel", P: 0}, {K: "lock", P: 0}, {K: "unlock", P: 0}, {K: "rel", P: 0}, {K: "rel", P: 0}}}, stream: "raw"},
			job{rp: Replay{Kind: "raw", Pre: 1, Ops: []ROp{{K: "acqi", P: 0, Lock: true}, {K: "lock", P: 0}, {K: "del", P: 0}, {K: "del", P: 0}, {K: "unlock", P: 0}, {K: "rel", P: 0}, {K: "lock", P: 0}, {K: "acqi", P: 0, Lock: true}, {K: "acqt", Tag: 0, Create: false}, {K: "acqt", Tag: 0, Create: true}, {K: "rel", P: 1}, {K: "rel", P: 1}}}, stream: "raw"},
			job{rp: Replay{Kind: "raw", Pre: 2, Ops: []ROp{{K: "acqi", P: 1, Lock: false}, {K: "lock", P: 1}, {K: "del", P: 1}, {K: "acqi", P: 1, Lock: true}, {K: "rel", P: 1}, {K: "acqi", P: 7, Lock: true}, {K: "del", P: 7}, {K: "unlock", P: 7}}}, stream: "raw"})
		// fixed raw histories for branches the random ones never take: Release of a partition its
		// holder has locked exclusively (panic), UnlockExclusively of a partition that is merely held
		jobs = append(jobs,
			job{rp: Replay{Kind: "raw", Pre: 0, Ops: []ROp{{K: "acqt", Tag: 0, Create: true}, {K: "lock", P: 0}, {K: "rel", P: 0}}}, stream: "raw"},
			job{rp: Replay{Kind: "raw", Pre: 1, Ops: []ROp{{K: "acqi", P: 0, Lock: true}, {K: "acqi", P: 0, Lock: true}, {K: "lock", P: 0}, {K: "rel", P: 0}, {K: "lock", P: 0}, {K: "rel", P: 0}}}, stream: "raw"},
			job{rp: Replay{Kind: "raw", Pre: 1, Ops: []ROp{{K: "acqi", P: 0, Lock: true}, {K: "unlock", P: 0}}}, stream: "raw"})
		// (generated last: the streams above are the same cases as before this stream existed)
		for i := 0; i < c.N(150); i++ {
			r := c.Rng.Fork()
			jobs = append(jobs, job{rp: genRecreate(r), rng: r, max: 20, stream: "recreate"})
		}
		res := make([]*Case, len(jobs))
		errs := make([]error, len(jobs))
		Parallel(len(jobs), 4, func(i int) {
			j := jobs[i]
			var choose func(n int) int
			if j.rng != nil {
				choose = j.rng.Intn
			}
			res[i], errs[i] = mkCase(j.rp, choose, j.max, j.stream)
		})
		for i := range jobs {
			if errs[i] != nil {
				return errs[i]
			}
			c.Add(*res[i])
		}
		// end-to-end sessions on a real in-process server (generated last, see above).  The sync
		// sessions first: if one of them has a verdict, the concurrent sessions are not run (a panic
		// of the code under test in a goroutine of the server cannot be recovered by the harness).
		var sess [][]EOp
		for _, ops := range e2eCorpus() {
			sess = append(sess, ops)
		}
		for _, ops := range pipeCorpus() {
			sess = append(sess, ops)
		}
		ncorp := len(sess)
		for i := 0; i < c.N(19); i++ {
			sess = append(sess, genE2EOps(c.Rng.Fork(), false))
		}
		for i := 0; i < c.N(3); i++ {
			sess = append(sess, genPipeOps(c.Rng.Fork()))
		}
		var asess [][]EOp
		for i := 0; i < c.N(6); i++ {
			asess = append(asess, genE2EOps(c.Rng.Fork(), true))
		}
		if c.Tier == "thorough" || os.Getenv("VERIF_C14_IDLE") != "" {
			// (10-12 s each: thorough tier only) sessions whose pipe workers end on their own before the pipes are deleted
			for i := 0; i < 3; i++ {
				asess = append(asess, append(genE2EOps(c.Rng.Fork(), true), EOp{K: "idle"}))
			}
		}
		eres := make([]*Case, len(sess))
		eerr := make([]error, len(sess))
		Parallel(len(sess), 4, func(i int) {
			st := "e2e-sync"
			if i < ncorp {
				st = "e2e-corpus"
			}
			eres[i], eerr[i] = mkE2E(sess[i], false, st)
		})
		failed := false
		for i := range sess {
			if eerr[i] != nil {
				return eerr[i]
			}
			c.Add(*eres[i])
			failed = failed || eres[i].Oracle != nil
		}
		if !failed {
			ares := make([]*Case, len(asess))
			aerr := make([]error, len(asess))
			Parallel(len(asess), 3, func(i int) { ares[i], aerr[i] = mkE2E(asess[i], true, "e2e-async") })
			for i := range asess {
				if aerr[i] != nil {
					return aerr[i]
				}
				c.Add(*ares[i])
			}
		}
		return c.Finish(rule)
	})
}
