package main

import (
	"fmt"
	"strings"

	. "verifharness/common"
)

// ROp is one raw tindex API call of the single-caller histories (misuse included)
type ROp struct {
	K      string `json:"k"` // acqt | acqi | rel | lock | unlock | del
	Tag    int    `json:"tag,omitempty"`
	Create bool   `json:"create,omitempty"`
	P      int    `json:"p,omitempty"`
	Lock   bool   `json:"lock,omitempty"`
}

func (o ROp) Coq() string {
	switch o.K {
	case "acqt":
		return fmt.Sprintf("OAcqT %d %s", o.Tag, gB(o.Create))
	case "acqi":
		return fmt.Sprintf("OAcqI %d %s", o.P, gB(o.Lock))
	case "rel":
		return fmt.Sprintf("ORel %d", o.P)
	case "lock":
		return fmt.Sprintf("OLock %d", o.P)
	case "unlock":
		return fmt.Sprintf("OUnlock %d", o.P)
	case "del":
		return fmt.Sprintf("ODel %d", o.P)
	}
	panic("bad raw op " + o.K)
}

func gSnap(rows []row) string {
	it := make([]string, len(rows))
	for k, r := range rows {
		it[k] = fmt.Sprintf("(%d, %d, %s, %s)", r.idx, r.tag, GZ(int64(r.readers)), gB(r.excl))
	}
	return "[" + strings.Join(it, "; ") + "]"
}

// genRaw: mostly well-formed scripts (acquire, lock, delete/unlock, release) over 3 tag lines, with
// misuse sprinkled in (20%): the generator keeps a rough guess of which source index a tag line
// has, only to aim its arguments
func genRaw(r *Rng) Replay {
	pre := r.Range(0, 3)
	cur := map[int]int{}
	next := pre
	for t := 0; t < pre; t++ {
		cur[t] = t
	}
	var ops []ROp
	nb := r.PickInt(2, 4, 7)
	for b := 0; b < nb; b++ {
		t := r.Intn(3)
		if r.Chance(1, 5) {
			p := r.Intn(next + 2)
			switch r.Intn(6) {
			case 0:
				ops = append(ops, ROp{K: "rel", P: p})
			case 1:
				ops = append(ops, ROp{K: "lock", P: p})
			case 2:
				ops = append(ops, ROp{K: "unlock", P: p})
			case 3:
				ops = append(ops, ROp{K: "del", P: p})
			case 4:
				ops = append(ops, ROp{K: "acqi", P: p, Lock: r.Chance(1, 2)})
			default:
				ops = append(ops, ROp{K: "acqt", Tag: t, Create: false})
			}
			continue
		}
		p, ok := cur[t]
		if !ok {
			p = next
			next++
			cur[t] = p
		}
		if r.Chance(1, 3) {
			ops = append(ops, ROp{K: "acqi", P: p, Lock: true})
		} else {
			ops = append(ops, ROp{K: "acqt", Tag: t, Create: true})
		}
		extra := 0
		if r.Chance(1, 4) { // a second holder: the lock must fail
			ops = append(ops, ROp{K: "acqi", P: p, Lock: true})
			extra = 1
		}
		switch r.Intn(4) {
		case 0:
			ops = append(ops, ROp{K: "rel", P: p})
		case 1:
			ops = append(ops, ROp{K: "lock", P: p}, ROp{K: "acqt", Tag: t, Create: true}, ROp{K: "unlock", P: p}, ROp{K: "rel", P: p})
		case 2:
			ops = append(ops, ROp{K: "lock", P: p}, ROp{K: "del", P: p}, ROp{K: "unlock", P: p}, ROp{K: "rel", P: p})
			if extra == 0 {
				delete(cur, t)
			}
		default:
			ops = append(ops, ROp{K: "del", P: p}, ROp{K: "rel", P: p})
		}
		for k := 0; k < extra; k++ {
			ops = append(ops, ROp{K: "rel", P: p})
		}
	}
	return Replay{Kind: "raw", Pre: pre, Ops: ops}
}

func call(f func()) (pv interface{}) {
	defer func() { pv = recover() }()
	f()
	return nil
}

func mkRaw(rp Replay) (*Case, error) {
	w, err := newWorld(rp.Pre, nil)
	if err != nil {
		return nil, err
	}
	defer w.close()
	prev, err := w.snapshot()
	if err != nil {
		return nil, err
	}
	var viol *Violation
	fail := func(class, detail string) {
		if viol == nil {
			viol = &Violation{Class: class, Detail: detail}
		}
	}
	var items []string
	locks, dels, panics := 0, 0, 0
	for _, o := range rp.Ops {
		pm := map[int]row{}
		byTag := map[int]row{}
		for _, r := range prev {
			pm[r.idx] = r
			byTag[r.tag] = r
		}
		res := ""
		panicked := false
		src := w.srcOf(o.P)
		before, known := pm[o.P]
		switch o.K {
		case "acqt":
			if r, ok := byTag[o.Tag]; ok && r.excl {
				res = "RWouldSpin" // the call would retry forever: not issued
				break
			}
			var s string
			var e error
			if o.Create {
				s, _, e = w.ti.GetOrCreateJournal(tagLine(o.Tag))
			} else {
				s, _, e = w.ti.GetJournal(tagLine(o.Tag))
			}
			if e != nil {
				res = "RNotFound"
			} else {
				res = fmt.Sprintf("(RGot %d)", w.index(s))
			}
		case "acqi":
			if known && before.excl {
				res = "RWouldSpin"
				break
			}
			if _, e := w.ti.GetJournalTags(src, o.Lock); e != nil {
				res = "RNotFound"
			} else {
				res = fmt.Sprintf("(RGot %d)", o.P)
			}
		case "rel":
			if pv := call(func() { w.ti.Release(src) }); pv != nil {
				res, panicked = "RPanic", true
				if known && !before.excl && before.readers > 0 {
					fail("release-panicked-on-held-partition", fmt.Sprintf("%v", pv))
				}
			} else {
				res = "RUnit"
				if known && (before.excl || before.readers <= 0) {
					fail("release-misuse-not-detected", fmt.Sprintf("partition %d exclusive=%v readers=%d released silently", o.P, before.excl, before.readers))
				}
			}
		case "lock":
			ok := w.ti.LockExclusively(src)
			res = fmt.Sprintf("(RBool %s)", gB(ok))
			if ok {
				locks++
				if !known || before.excl || before.readers != 1 {
					fail("locked-while-in-use", fmt.Sprintf("LockExclusively(%d) succeeded with exclusive=%v readers=%d", o.P, before.excl, before.readers))
				}
			}
		case "unlock":
			if pv := call(func() { w.ti.UnlockExclusively(src) }); pv != nil {
				res, panicked = "RPanic", true
			} else {
				res = "RUnit"
			}
		case "del":
			e := w.ti.Delete(src)
			switch {
			case e == nil:
				res = "(RDel 0)"
				dels++
				if !known || !before.excl {
					fail("deleted-while-in-use", fmt.Sprintf("Delete(%d) succeeded without the exclusive lock (readers=%d)", o.P, before.readers))
				}
			case !known:
				res = "(RDel 1)"
			default:
				res = "(RDel 2)"
			}
		}
		cur := prev
		if panicked {
			panics++ // the service lock stays locked after a panic: the history ends here
		} else {
			if cur, err = w.snapshot(); err != nil {
				return nil, err
			}
			for _, r := range cur {
				if r.readers < 0 {
					fail("negative-readers", fmt.Sprintf("partition %d readers=%d", r.idx, r.readers))
				}
			}
		}
		items = append(items, fmt.Sprintf("(%s, %s, %s)", o.Coq(), res, gSnap(cur)))
		prev = cur
		if panicked {
			break
		}
	}
	tags := []string{}
	if locks > 0 {
		tags = append(tags, "raw-locked")
	}
	if dels > 0 {
		tags = append(tags, "raw-deleted")
	}
	if panics > 0 {
		tags = append(tags, "raw-panic")
	}
	return &Case{
		Coq:        fmt.Sprintf("KOps %d [%s]", rp.Pre, strings.Join(items, "; ")),
		Replay:     rp,
		NonTrivial: locks > 0 || dels > 0 || panics > 0,
		Oracle:     viol,
		Stream:     "raw",
		Tags:       tags,
	}, nil
}
