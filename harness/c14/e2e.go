// C14 end-to-end stream: the USERS of the tag index on a real in-process server (common.StartServer,
// wired like server.Start): cursors through backend.Querier and the cursor provider (newCursor with
// good / unparsable positions, kept cursors, re-positioned cursors, eviction through the provider's
// sweep), partition.Service.Write (good batches, batches failing on the first record, in the middle,
// on an iterator error, unparsable tags; through the RPC client too), TRUNCATE (dry run, real,
// MAXDBSIZE, refused deletions because a cursor holds the partition), DESCRIBE PARTITION (GetJournal
// bracket + the time index rebuilder), SHOW PARTITIONS (waiting visit), pipes (workers: cursor over
// the source, Write into the destination).
//
//   sync sessions : one client, operation after operation.  After every operation the table
//                   (src, tag, readers, exclusive) is read through pkg/tindex VC14Snapshot.
//                   O: readers(p) = number of kept cursors over p, nothing exclusive, no panic.
//                   K: every operation is one client procedure of model/TIndex.v (PWrite, PQuery,
//                   PVisit, PTrunc) run by its own actor to its end (or to CHold for a kept
//                   cursor) with the same mstep_f the theorems are about; the tables are compared.
//   async sessions: several clients at once, pipes copying, rebuilds; then quiescence (clients
//                   joined, pipes deleted, the provider's cache swept empty, the rebuilder idle)
//                   and O: every count is zero, nothing is locked (polled, generous deadline).
package main

import (
	"context"
	"fmt"
	"io"
	"os"
	"sort"
	"strings"
	"sync"
	"sync/atomic"
	"time"

	"github.com/logrange/logrange/api"
	"github.com/logrange/logrange/pkg/cursor"
	"github.com/logrange/logrange/pkg/model"
	"github.com/logrange/logrange/pkg/model/tag"
	"github.com/logrange/logrange/pkg/partition"
	"github.com/logrange/logrange/pkg/tindex"
	"github.com/logrange/range/pkg/records"

	. "verifharness/common"
)

// EOp is one client operation of an end-to-end session
type EOp struct {
	K    string `json:"k"`              // write | query | cont | evict | trunc | describe | show | pipe | hold | rebuild | serve
	Tag  int    `json:"tag,omitempty"`  // write, describe: the tag line p=t<Tag>
	M    []int  `json:"m,omitempty"`    // query, trunc, show, pipe: tag lines of the FROM condition
	N    int    `json:"n,omitempty"`    // write: records; query: limit
	Fail string `json:"fail,omitempty"` // write: "" | first | middle | iter | badtags | emptytags ; query: "" | badpos | badquery
	Rpc  bool   `json:"rpc,omitempty"`  // write through the RPC client
	Keep bool   `json:"keep,omitempty"` // query: the cursor stays in the provider's cache
	Cur  int    `json:"cur,omitempty"`  // query keep: slot to remember it in; cont: slot to continue
	Pos  string `json:"pos,omitempty"`  // query: "" | head | tail ; cont: next | stale | bad
	Flt  int    `json:"flt,omitempty"`  // query: 0 none, 1 WHERE, 2 RANGE, 3 both, 4 WHERE that does not compile
	Dry  bool   `json:"dry,omitempty"`  // trunc: DRYRUN
	Mode int    `json:"mode,omitempty"` // trunc: 0 plain (deletes empty partitions), 1 MAXSIZE 1 (drops chunks), 2 MAXDBSIZE 1 (global), 3 BEFORE now
	Who  int    `json:"who,omitempty"`  // async: client number
	// write (not rpc, at least one record accepted): operations carried out DURING the write, at the schedule
	// hook "write-event" of partition.Service.Write (the writer holds the partition);
	// query with Wait: operations carried out while the request waits for new data at the end of its
	// partitions (hook "wait-new-data" of the cursor; the cursor holds them)
	During []EOp `json:"during,omitempty"`
	Wait   bool  `json:"wait,omitempty"` // query: WaitTimeout 1 from the tail
	Alt    bool  `json:"alt,omitempty"`  // write: another spelling of the same tag line (p="t<n>")
}

// schedule hooks of pkg/partition and pkg/cursor are process-wide: sessions run side by side, so the
// hook is dispatched by the goroutine that writes ("g:<gid>") or by the source that is waited on ("s:<src>")
var e2eHooks sync.Map
var e2eHookOnce sync.Once

func e2eInstallHooks() {
	e2eHookOnce.Do(func() {
		partition.VC10SetHook(func(point, src string) {
			if f, ok := e2eHooks.Load(fmt.Sprintf("g:%d", curGid())); ok {
				f.(func(point, src string))(point, src)
			}
		})
		cursor.VC11SetHook(func(point, src string) {
			if f, ok := e2eHooks.Load("s:" + src); ok {
				f.(func(point, src string))(point, src)
			}
		})
	})
}

const e2eMaxRec = 1024

// sliceIt is the iterator a client hands to partition.Service.Write
type sliceIt struct {
	evs    []model.LogEvent
	i      int
	failAt int // Get at this index answers an error (-1: never)
}

func (s *sliceIt) Next(ctx context.Context) { s.i++ }
func (s *sliceIt) Get(ctx context.Context) (model.LogEvent, tag.Line, error) {
	if s.i == s.failAt {
		return model.LogEvent{}, "", fmt.Errorf("harness: the source of the batch failed at record %d", s.i)
	}
	if s.i >= len(s.evs) {
		return model.LogEvent{}, "", io.EOF
	}
	return s.evs[s.i], "", nil
}
func (s *sliceIt) Release()                          {}
func (s *sliceIt) SetBackward(bool)                  {}
func (s *sliceIt) CurrentPos() records.IteratorPos   { return s.i }

type keptCur struct {
	req   api.QueryRequest // the request that continues it
	first api.QueryRequest // the request it was created by (a stale position later on)
	m     []int
	srcs  []int // oracle's view: the partitions it holds
	actor int   // K: the actor that runs its PQuery
}

type sessEv struct {
	actor int
	hold  bool
	snap  []row
}

type e2e struct {
	srv     *Server
	t0      time.Time
	srcIdx  map[string]int
	srcs    []string
	tagOf   map[int]int // source index -> tag
	ts      int64
	kept    map[int]*keptCur
	progs   []string // K: one procedure per actor
	evs     []sessEv
	viol    *Violation
	stuck   bool // a panic left the tindex mutex locked: the server cannot be used or stopped
	prev    []row
	counts  map[string]int
	noK     bool
	// sync sessions: the workers of the time index rebuilder are held (VC02HoldRebuilder) and its requests
	// are served by the session itself (VC02ServeQueued = the rebuilder's own serve): a panic of the code
	// under test is a verdict then, not the end of the process.  Normally after every operation;
	// between a "hold" and the next "serve" operation they wait in the list (deferServe).
	held       bool
	deferServe bool
	spill      int // kept cursors pushed out of their slot by a later one (they stay in the cache): unique keys
	mu         sync.Mutex
	stuckCh    chan struct{}
	stuckOnce  sync.Once
	abandoned  bool // the session's goroutine never came back: nothing but viol may be read
	pipes   map[string]bool
}

func (e *e2e) fail(class, detail string) {
	e.mu.Lock()
	if e.viol == nil {
		e.viol = &Violation{Class: class, Detail: detail}
	}
	e.mu.Unlock()
}

// setStuck: the index mutex stays locked after a panic inside tindex: whoever goes back into the code
// under test (the write or the request an operation was nested in) will never return.  The session's
// goroutine is abandoned by runSync when this is signalled.
func (e *e2e) setStuck() {
	e.stuck = true
	e.stuckOnce.Do(func() { close(e.stuckCh) })
}

// guarded runs f in this goroutine and turns a panic of the code under test into a verdict
func (e *e2e) guarded(who string, f func()) (panicked bool) {
	defer func() {
		if r := recover(); r != nil {
			panicked = true
			msg := fmt.Sprint(r)
			switch {
			case strings.Contains(msg, "was not acquired"):
				e.fail("e2e-double-release:"+who, "tindex.Release panicked: "+msg)
				e.setStuck() // Release panics with the index mutex held
			case strings.Contains(msg, "locked exclusively") || strings.Contains(msg, "UnlockExclusively"):
				e.fail("e2e-locked-left:"+who, "panic: "+msg)
				e.setStuck()
			default:
				e.fail("e2e-panic:"+who, "panic: "+msg)
			}
		}
	}()
	f()
	return false
}

func newE2E() (*e2e, error) {
	e2eInstallHooks()
	srv, err := StartServer(ServerOpts{MaxRecordSize: e2eMaxRec, MaxChunkSize: 4096})
	if err != nil {
		return nil, err
	}
	// the provider's own sweeper must not decide when a kept cursor goes
	cursor.VC03SetTimeouts(srv.Provider, time.Hour, time.Hour)
	return &e2e{srv: srv, t0: time.Now(), srcIdx: map[string]int{}, tagOf: map[int]int{}, ts: 1000,
		kept: map[int]*keptCur{}, counts: map[string]int{}, pipes: map[string]bool{}, stuckCh: make(chan struct{})}, nil
}

func (e *e2e) close() {
	if e.stuck || e.viol != nil {
		// a panic may have left the index mutex locked (or Shutdown will run into the same defect while
		// it closes the cached cursors): Stop may never return.  The server is abandoned then.
		done := make(chan struct{})
		go func() {
			defer func() { recover() }()
			e.srv.Stop()
			close(done)
		}()
		select {
		case <-done:
		case <-time.After(3 * time.Second):
			if e.srv.OwnDir {
				os.RemoveAll(e.srv.Dir)
			}
		}
		return
	}
	e.srv.Stop()
}

// table reads the index through the hook; sources are numbered in creation order
func (e *e2e) table() ([]row, error) {
	rows := tindex.VC14Snapshot(e.srv.TIndex)
	var fresh []string
	for _, r := range rows {
		if _, ok := e.srcIdx[r.Src]; !ok {
			fresh = append(fresh, r.Src)
		}
	}
	sort.Strings(fresh) // newSrc() is increasing; in a sync session there is at most one anyway
	for _, s := range fresh {
		e.srcIdx[s] = len(e.srcs)
		e.srcs = append(e.srcs, s)
	}
	res := make([]row, 0, len(rows))
	for _, r := range rows {
		if !r.InTmap || strings.HasSuffix(r.Src, "#tmap-only") {
			return nil, fmt.Errorf("tmap/smap disagree on %s", r.Src)
		}
		i := e.srcIdx[r.Src]
		e.tagOf[i] = tagOfLine(r.Tags)
		if e.tagOf[i] < 0 {
			e.tagOf[i] = 900 // a pipe's destination partition
		}
		res = append(res, row{idx: i, tag: e.tagOf[i], readers: r.Readers, excl: r.Exclusive})
	}
	sort.Slice(res, func(i, j int) bool { return res[i].idx < res[j].idx })
	return res, nil
}

func fromCond(m []int) string {
	parts := make([]string, len(m))
	for i, t := range m {
		parts[i] = tagLine(t)
	}
	return strings.Join(parts, " OR ")
}

func (e *e2e) batch(op EOp) *sliceIt {
	it := &sliceIt{failAt: -1}
	n := op.N
	if n < 1 {
		n = 1
	}
	for i := 0; i < n; i++ {
		e.ts += 10
		it.evs = append(it.evs, model.LogEvent{Timestamp: e.ts, Msg: []byte(fmt.Sprintf("msg a %d of t%d", e.ts, op.Tag))})
	}
	big := model.LogEvent{Timestamp: e.ts + 1, Msg: []byte(strings.Repeat("x", 4*e2eMaxRec))}
	switch op.Fail {
	case "first":
		it.evs = append([]model.LogEvent{big}, it.evs...)
	case "middle":
		k := 1 + (n-1)/2
		it.evs = append(it.evs[:k:k], append([]model.LogEvent{big}, it.evs[k:]...)...)
	case "iter":
		it.failAt = 1 + (n-1)/2
	}
	return it
}

func (e *e2e) liveMatching(m []int) []int {
	var l []int
	for _, r := range e.prev {
		if has(m, r.tag) {
			l = append(l, r.idx)
		}
	}
	return l
}

func (e *e2e) newActor(proc string) int {
	e.progs = append(e.progs, proc)
	return len(e.progs) - 1
}

func (e *e2e) queryText(op EOp) string {
	q := "SELECT FROM " + fromCond(op.M)
	if op.Fail == "badquery" {
		return "SELECT FROM FROM " + fromCond(op.M)
	}
	if op.Flt == 2 || op.Flt == 3 {
		q += " RANGE [\"1\":\"99999999999\"]"
	}
	switch op.Flt {
	case 1, 3:
		q += " WHERE msg CONTAINS \"a\""
	case 4:
		q += " WHERE msg LIKE \"[\"" // does the filter compile? either way the partitions must be released
	}
	return q
}

// do executes one operation. K events are appended to e.evs by settle().
func (e *e2e) do(op EOp) (who string, acts []sessEv) {
	ctx := context.Background()
	srv := e.srv
	switch op.K {
	case "write":
		who = "write"
		if op.Fail != "" {
			who = "write-fail-" + op.Fail
		}
		tags := tagLine(op.Tag)
		switch op.Fail {
		case "badtags":
			tags = "p=t=,," // no partition is ever acquired
		case "emptytags":
			tags = ""
		}
		if op.Alt && op.Fail == "" {
			tags = fmt.Sprintf("p=\"t%d\"", op.Tag) // not the key of tmap: parsed, then found by its canonical line
		}
		it := e.batch(op)
		var err error
		wa := -1
		if op.Fail != "badtags" && op.Fail != "emptytags" {
			wa = e.newActor(fmt.Sprintf("(PWrite %d true)", op.Tag))
		}
		if len(op.During) > 0 && !e.noK && wa >= 0 && !(op.Rpc && it.failAt < 0) {
			key := fmt.Sprintf("g:%d", curGid())
			fired := false
			e2eHooks.Store(key, func(point, src string) {
				if point != "write-event" || fired {
					return
				}
				fired = true
				e.during("write-holding", wa, []string{src}, op.During)
			})
			defer e2eHooks.Delete(key)
		}
		if op.Rpc && it.failAt < 0 {
			evs := make([]*api.LogEvent, len(it.evs))
			for i, le := range it.evs {
				evs[i] = &api.LogEvent{Timestamp: le.Timestamp, Message: string(le.Msg)}
			}
			var wr api.WriteResult
			err = srv.Client.Write(ctx, tags, "", evs, &wr)
			if err == nil && wr.Err != nil {
				err = wr.Err
			}
		} else {
			e.guarded(who, func() { err = srv.Partitions.Write(ctx, tags, it, false) })
		}
		if err == nil && !e.noK {
			// (sync sessions) the chunk writer flushes a few ms later; until then the journal's size is 0
			// and TRUNCATE treats the partition as empty: wait until the records can be read, so that
			// what a following TRUNCATE does depends on the session only
			q := api.QueryRequest{Query: "SELECT FROM " + tagLine(op.Tag), Pos: "tail", Offset: -1, Limit: 1}
			WaitFor(10*time.Second, func() bool {
				seen := false
				e.guarded(who, func() {
					qq := q
					r, qerr := srv.Querier.Query(ctx, &qq)
					seen = r != nil && len(r.Events) > 0 && (qerr == nil || qerr == io.EOF)
				})
				return seen || e.stuck
			})
		}
		if (op.Fail == "") != (err == nil) {
			// not a C14 matter, but the generator relies on it
			e.counts["write-outcome-unexpected"]++
		}
		if wa >= 0 {
			acts = append(acts, sessEv{actor: wa})
		}
	case "query":
		who = "query"
		if op.Fail != "" {
			who = "query-" + op.Fail
		}
		req := api.QueryRequest{Query: e.queryText(op), Limit: op.N}
		switch op.Pos {
		case "head", "tail":
			req.Pos = op.Pos
		}
		if op.Fail == "badpos" {
			req.Pos = "not-a-position"
		}
		if op.Keep {
			req.Limit = 20000 // above QueryMaxLimit: the backend corrects it and caches the cursor
		}
		a := -1
		heldIdx := e.liveMatching(op.M)
		var hookDone chan struct{}
		var hookState int32 // 0 not started, 1 started (nested operations under way or done), 2 switched off
		if op.Wait && op.Fail == "" && !e.noK && len(e.liveMatching(op.M)) > 0 {
			// the request reaches the end of its partitions at once and waits (1 s at most) for new data
			// holding them; the operations of op.During run meanwhile, in the goroutine of the hook
			req.Pos, req.Limit, req.WaitTimeout = "tail", 5, 1
			a = e.newActor(fmt.Sprintf("(PQuery %s 50 None)", gNats(op.M)))
			hookDone = make(chan struct{})
			var keys []string
			var held []string
			for _, p := range e.liveMatching(op.M) {
				held = append(held, e.srcs[p])
			}
			for _, sname := range held {
				k := "s:" + sname
				keys = append(keys, k)
				e2eHooks.Store(k, func(point, src string) {
					if point != "wait-new-data" || !atomic.CompareAndSwapInt32(&hookState, 0, 1) {
						return
					}
					defer close(hookDone)
					e.during("query-waiting", a, held, op.During)
				})
			}
			defer func() {
				for _, k := range keys {
					e2eHooks.Delete(k)
				}
			}()
		}
		var res *api.QueryResult
		var err error
		e.guarded(who, func() {
			res, err = srv.Querier.Query(ctx, &req)
			if err == io.EOF {
				err = nil // the end of the data was reached: the result is there
			}
		})
		waited := false
		if hookDone != nil {
			if !atomic.CompareAndSwapInt32(&hookState, 0, 2) {
				// the hook has started: its operations belong to this request (the main goroutine was
				// blocked in Query meanwhile, or the cursor is cached by now: it holds the partitions either way)
				<-hookDone
				waited = true
			}
			delete(e.kept, -2)
		}
		if op.Fail == "badquery" {
			break // refused before anything is acquired
		}
		if a < 0 {
			a = e.newActor(fmt.Sprintf("(PQuery %s 50 None)", gNats(op.M)))
		}
		kept := false
		if op.Wait && req.WaitTimeout > 0 {
			op.Keep = true // a request with a wait time-out is cached
		}
		if op.Keep && err == nil && res != nil && res.NextQueryRequest.ReqId != 0 && cursor.VC03Cached(srv.Provider, res.NextQueryRequest.ReqId) {
			if old, ok := e.kept[op.Cur]; ok {
				// the slot is taken: the old cursor stays in the cache under another slot
				e.spill++
				e.kept[1000+e.spill] = old
			}
			first := req
			first.ReqId = res.NextQueryRequest.ReqId
			srcs := e.liveMatching(op.M)
			if waited {
				srcs = heldIdx // what it acquired when it started, whatever was created or removed meanwhile
			}
			e.kept[op.Cur] = &keptCur{req: res.NextQueryRequest, first: first, m: op.M, srcs: srcs, actor: a}
			kept = true
			who = "query-kept"
		}
		if waited && kept {
			// K has the actor at CHold already (recorded when the wait began)
		} else {
			acts = append(acts, sessEv{actor: a, hold: kept})
		}
	case "cont":
		kc, ok := e.kept[op.Cur]
		if !ok {
			return "", nil
		}
		who = "cursor-continue-" + op.Pos
		req := kc.req
		req.Limit = 20000
		switch op.Pos {
		case "stale":
			req = kc.first
			req.Limit = 20000
		case "bad":
			req.Pos = "not-a-position"
		}
		var res *api.QueryResult
		var err error
		e.guarded(who, func() {
			res, err = srv.Querier.Query(ctx, &req)
			if err == io.EOF {
				err = nil // the end of the data was reached: the result is there
			}
		})
		if req.Pos == kc.req.Pos {
			// the cached cursor is used as it is
			if err == nil && res != nil {
				kc.req = res.NextQueryRequest
			}
			break
		}
		// the provider drops the cached cursor and builds a new one from the requested position
		acts = append(acts, sessEv{actor: kc.actor})
		delete(e.kept, op.Cur)
		a := e.newActor(fmt.Sprintf("(PQuery %s 50 None)", gNats(kc.m)))
		if err == nil && res != nil && res.NextQueryRequest.ReqId != 0 && cursor.VC03Cached(srv.Provider, res.NextQueryRequest.ReqId) {
			first := req
			e.kept[op.Cur] = &keptCur{req: res.NextQueryRequest, first: first, m: kc.m, srcs: e.liveMatching(kc.m), actor: a}
			acts = append(acts, sessEv{actor: a, hold: true})
		} else {
			acts = append(acts, sessEv{actor: a})
		}
	case "evict":
		who = "provider-sweep"
		left := -1
		e.guarded(who, func() { left = cursor.VC03EvictIdle(srv.Provider) })
		busy := 0
		if e.kept[-2] != nil {
			busy = 1 // the request that is waiting for new data right now: its cursor is busy, not idle
		}
		if left > busy {
			// one pass of the provider's sweep does not promise to drop every expired idle cursor (its walk
			// over the ring can pass one by when a busy cursor stands in the ring): such a cursor is still open
			// and still a legitimate holder.  C14 asks that the counts are what the OPEN cursors explain; that
			// the cache runs empty is demanded at the end of the session only (repeated sweeps, polled).
			e.counts["sweep-left-an-idle-cursor"]++
		}
		var slots []int
		for s := range e.kept {
			if s >= 0 {
				slots = append(slots, s)
			}
		}
		sort.Ints(slots)
		for _, s := range slots {
			if cursor.VC03Cached(srv.Provider, e.kept[s].req.ReqId) {
				continue // not swept: the cursor is open, it keeps its partitions
			}
			acts = append(acts, sessEv{actor: e.kept[s].actor})
			delete(e.kept, s)
		}
	case "trunc":
		who = "truncate"
		q := "TRUNCATE"
		if op.Dry {
			q += " DRYRUN"
		}
		q += " " + fromCond(op.M)
		switch op.Mode {
		case 1:
			q += " MAXSIZE 6000"
		case 2:
			q += " MAXDBSIZE 1"
		case 3:
			q += fmt.Sprintf(" BEFORE \"%d\"", time.Now().Add(time.Hour).UnixNano())
		}
		e.guarded(who, func() { srv.Exec(q) })
		// the procedure is made in settle(): its `zero` list is what the table says was removed
		acts = append(acts, sessEv{actor: -1})
	case "describe":
		who = "describe-partition"
		e.guarded(who, func() {
			if _, err := srv.Exec("DESCRIBE PARTITION {" + tagLine(op.Tag) + "}"); err != nil {
				e.counts["describe-refused"]++ // no such partition
			}
		})
		acts = append(acts, sessEv{actor: e.newActor(fmt.Sprintf("(PWrite %d false)", op.Tag))})
	case "hold":
		// from now on rebuild requests wait in the rebuilder's list (as they do when its 10 workers are busy)
		e.deferServe = e.held
		who = "rebuilder-hold"
	case "rebuild":
		// a reader that works with the chunk list it got a moment ago asks for the time index of every
		// chunk to be rebuilt (what JIterator / cselector / DESCRIBE do when the index of a chunk is unusable)
		who = "rebuild-requests"
		n := 0
		e.guarded(who, func() {
			pi, err := srv.Partitions.GetParitionInfo(tagLine(op.Tag))
			if err != nil {
				return
			}
			for _, ci := range pi.Chunks {
				srv.Partitions.GetTmIndexRebuilder().RebuildIndex(pi.JournalId, ci.Id, true)
				n++
			}
		})
		if n > 1 {
			e.counts["rebuild-requests-for-several-chunks"]++
		}
		acts = append(acts, sessEv{actor: e.newActor(fmt.Sprintf("(PWrite %d false)", op.Tag))})
	case "serve":
		// the rebuilder gets to its list (its own serve function, request by request)
		who = "rebuilder-serve"
		if e.held {
			n := 0
			e.guarded(who, func() { n = len(srv.Partitions.VC02ServeQueued()) })
			if n > 0 && e.deferServe {
				e.counts["rebuild-requests-served-late"]++
			}
			e.deferServe = false
		}
	case "show":
		who = "show-partitions"
		e.guarded(who, func() { srv.Exec("SHOW PARTITIONS " + fromCond(op.M)) })
		acts = append(acts, sessEv{actor: e.newActor(fmt.Sprintf("(PVisit false false %s None)", gNats(op.M)))})
	}
	return who, acts
}

// rebuilderIdle: no index rebuild request is queued or being served (a positive observation)
func (e *e2e) rebuilderIdle() bool {
	if e.held {
		if !e.deferServe {
			n := 0
			if e.guarded("rebuilder-serve", func() { n = len(e.srv.Partitions.VC02ServeQueued()) }) {
				return true
			}
			if n > 0 {
				e.counts["rebuild-requests-served"]++
			}
		}
		return true // (deferred: they wait until a "serve" operation; the end of the session serves what is left)
	}
	return WaitFor(15*time.Second, func() bool { return len(e.srv.Partitions.VC02Queued()) == 0 })
}

// during: the outer operation (actor a of K) holds the partitions srcs right now; this is recorded
// (K: the actor has reached CHold; O: one more holder), then the nested operations run one by one
func (e *e2e) during(who string, a int, srcs []string, nested []EOp) {
	if e.stuck || e.viol != nil {
		return
	}
	// the partitions may be new: the table numbers them
	if _, err := e.table(); err != nil {
		return
	}
	h := &keptCur{actor: a}
	for _, sname := range srcs {
		if i, ok := e.srcIdx[sname]; ok {
			h.srcs = append(h.srcs, i)
		}
	}
	slot := -1
	if who == "query-waiting" {
		slot = -2
	}
	e.kept[slot] = h
	e.counts["during:"+who]++
	if err := e.settle(EOp{K: who}, who, []sessEv{{actor: a, hold: true}}); err != nil {
		e.fail("e2e-harness", err.Error())
	}
	for _, op := range nested {
		if e.stuck || e.viol != nil {
			break
		}
		op.During = nil
		op.Wait = false
		e.counts["during:"+who+":"+op.K]++
		if err := e.syncStep(op); err != nil {
			e.fail("e2e-harness", err.Error())
		}
	}
	if slot == -1 {
		delete(e.kept, slot)
	}
}

// syncStep: one operation of a sync session, then the table, the oracle and the K events
func (e *e2e) syncStep(op EOp) error {
	who, acts := e.do(op)
	if who == "" {
		return nil
	}
	return e.settle(op, who, acts)
}

// settle: after an operation (or at a point inside one): the table, the oracle and the K events
func (e *e2e) settle(op EOp, who string, acts []sessEv) error {
	e.counts["op:"+who]++
	if e.stuck || e.viol != nil {
		return nil
	}
	if !e.rebuilderIdle() {
		e.fail("e2e-rebuilder-stuck", "the time index rebuilder does not finish")
		return nil
	}
	if e.stuck || e.viol != nil {
		return nil
	}
	// O: readers = number of kept cursors over the partition; nothing exclusive; what vanished was unused.
	// A table that disagrees is read again for a while before it counts: partition.Service.cleanupTsIndex
	// (15 s after start, then every minute) brackets every partition for a moment.  A leak or a
	// consumed acquisition stays.
	want := map[int]int{}
	for _, kc := range e.kept {
		for _, p := range kc.srcs {
			want[p]++
		}
	}
	var cur []row
	var err error
	var cm map[int]row
	bad := [2]string{}
	WaitFor(5*time.Second, func() bool {
		bad = [2]string{}
		if cur, err = e.table(); err != nil {
			return true
		}
		cm = map[int]row{}
		for _, r := range cur {
			cm[r.idx] = r
			switch {
			case bad[0] != "":
			case r.excl:
				bad = [2]string{"e2e-locked-left:" + who, fmt.Sprintf("partition %d (p=t%d) is exclusively locked after the operation", r.idx, r.tag)}
			case r.readers > want[r.idx]:
				bad = [2]string{"e2e-count-leak:" + who, fmt.Sprintf("partition %d (p=t%d): count %d after the operation, %d cursors are open on it", r.idx, r.tag, r.readers, want[r.idx])}
			case r.readers < want[r.idx]:
				bad = [2]string{"e2e-double-release:" + who, fmt.Sprintf("partition %d (p=t%d): count %d after the operation although %d cursors are open on it", r.idx, r.tag, r.readers, want[r.idx])}
			}
		}
		return bad[0] == ""
	})
	if err != nil {
		return err
	}
	if bad[0] != "" {
		e.fail(bad[0], bad[1])
	}
	var gone []int
	for _, r := range e.prev {
		if _, ok := cm[r.idx]; !ok {
			gone = append(gone, r.tag)
			if want[r.idx] > 0 {
				e.fail("e2e-deleted-while-in-use:"+who, fmt.Sprintf("partition %d (p=t%d) was removed while %d cursors are open on it", r.idx, r.tag, want[r.idx]))
			}
		}
	}
	if len(gone) > 0 {
		e.counts["partition-deleted"]++
	}
	if op.K == "trunc" && len(e.kept) > 0 {
		e.counts["truncate-with-open-cursors"]++
	}
	// K events: the last one carries the table (the one O has accepted: no passer-by is in it)
	if !e.noK && len(acts) > 0 {
		for k := range acts {
			if acts[k].actor < 0 {
				acts[k].actor = e.newActor(fmt.Sprintf("(PTrunc %s %s [] false None [] [])", gNats(op.M), gNats(gone)))
			}
		}
		acts[len(acts)-1].snap = cur
		e.evs = append(e.evs, acts...)
	}
	e.prev = cur
	return nil
}

// quiesce: stop everything that uses the index, then every count must be zero and nothing locked
func (e *e2e) quiesce(who string) error {
	if e.stuck || e.viol != nil {
		return nil
	}
	var names []string
	for n := range e.pipes {
		names = append(names, n)
	}
	sort.Strings(names)
	for _, n := range names {
		e.guarded("delete-pipe", func() { e.srv.Exec("DELETE PIPE " + n) })
	}
	// the provider's cache runs empty: busy cursors (pipe workers on their way out) are released first
	left := -1
	ok := WaitFor(20*time.Second, func() bool {
		if e.guarded("provider-sweep", func() { left = cursor.VC03EvictIdle(e.srv.Provider) }) {
			return true
		}
		return left == 0
	})
	if e.stuck || e.viol != nil {
		return nil
	}
	if !ok {
		e.fail("e2e-cursor-stuck", fmt.Sprintf("%d cursors stay busy in the provider's cache after every client and pipe has stopped", left))
		return nil
	}
	if !e.rebuilderIdle() {
		e.fail("e2e-rebuilder-stuck", "the time index rebuilder does not finish")
		return nil
	}
	// (polled: cleanupTsIndex may bracket a partition for a moment)
	var cur []row
	var terr error
	bad := ""
	WaitFor(12*time.Second, func() bool {
		// (a pipe worker that was just being started when its pipe was deleted builds its cursor, sees
		// the cancelled context and hands the cursor back to the cache: swept here)
		if e.guarded("provider-sweep", func() { cursor.VC03EvictIdle(e.srv.Provider) }) {
			return true
		}
		cur, terr = e.table()
		if terr != nil {
			return true
		}
		bad = ""
		for _, r := range cur {
			if r.excl {
				bad = fmt.Sprintf("e2e-locked-left:%s|partition %d (p=t%d) is exclusively locked (readers %d) when all activity has stopped", who, r.idx, r.tag, r.readers)
				return false
			}
			if r.readers > 0 {
				bad = fmt.Sprintf("e2e-count-leak:%s|partition %d (p=t%d): count %d when all activity has stopped (cursors closed, pipes deleted, rebuilder idle)", who, r.idx, r.tag, r.readers)
				return false
			}
			if r.readers < 0 {
				bad = fmt.Sprintf("e2e-double-release:%s|partition %d (p=t%d): count %d when all activity has stopped", who, r.idx, r.tag, r.readers)
				return false
			}
		}
		return true
	})
	if terr != nil {
		return terr
	}
	if e.stuck || e.viol != nil {
		return nil
	}
	if bad != "" {
		i := strings.Index(bad, "|")
		e.fail(bad[:i], bad[i+1:])
		return nil
	}
	e.prev = cur
	// the seeder's way of asking the same question: every partition can be locked for deletion
	for _, r := range cur {
		src := e.srcs[r.idx]
		e.guarded("quiesce-probe", func() {
			if _, err := e.srv.TIndex.GetJournalTags(src, true); err != nil {
				return
			}
			if !e.srv.TIndex.LockExclusively(src) {
				// (cleanupTsIndex may be passing by: not a verdict on its own, the counts above are)
				e.counts["probe-lock-refused"]++
			} else {
				e.srv.TIndex.UnlockExclusively(src)
			}
			e.srv.TIndex.Release(src)
		})
	}
	return nil
}

// ---------------------------------------------------------------- sessions

func runSync(ops []EOp) (*e2e, error) {
	e, err := newE2E()
	if err != nil {
		return nil, err
	}
	defer e.close()
	// the session runs in a goroutine of its own: after a panic that left the index mutex locked it
	// may never come back from the operation the panicking one was nested in
	var rerr error
	done := make(chan struct{})
	go func() {
		defer close(done)
		rerr = e.syncBody(ops)
	}()
	select {
	case <-done:
	case <-e.stuckCh:
		select {
		case <-done:
		case <-time.After(500 * time.Millisecond):
			e.abandoned = true
		}
	case <-time.After(180 * time.Second):
		e.fail("e2e-deadlock", "a sync session did not finish within 180 s")
		e.abandoned = true
	}
	if e.abandoned {
		e.stuck = true
		return e, nil
	}
	if rerr != nil {
		return nil, rerr
	}
	return e, nil
}

func (e *e2e) syncBody(ops []EOp) error {
	var err error
	if e.prev, err = e.table(); err != nil {
		return err
	}
	e.srv.Partitions.VC02HoldRebuilder()
	e.held = true
	if os.Getenv("VERIF_C14_PASSERBY") != "" {
		// self-test of the harness: a passer-by that brackets every partition all the time, the way
		// cleanupTsIndex does once a minute; the session must stay quiet
		stop := make(chan struct{})
		defer close(stop)
		go func() {
			for {
				select {
				case <-stop:
					return
				default:
				}
				for _, r := range tindex.VC14Snapshot(e.srv.TIndex) {
					func() {
						defer func() { recover() }()
						if _, err := e.srv.TIndex.GetJournalTags(r.Src, true); err == nil {
							time.Sleep(50 * time.Microsecond)
							e.srv.TIndex.Release(r.Src)
						}
					}()
				}
				time.Sleep(200 * time.Microsecond)
			}
		}()
	}
	for _, op := range ops {
		if e.stuck || e.viol != nil {
			break
		}
		if err := e.syncStep(op); err != nil {
			return err
		}
	}
	// the session ends: the rebuilder serves what is left, the provider sweeps, then everything must be unused
	if e.held && !e.stuck && e.viol == nil {
		if err := e.syncStep(EOp{K: "serve"}); err != nil {
			return err
		}
	}
	if !e.stuck && e.viol == nil {
		if err := e.syncStep(EOp{K: "evict"}); err != nil {
			return err
		}
	}
	if err := e.quiesce("sync-session"); err != nil {
		return err
	}
	return nil
}

func runAsync(ops []EOp) (*e2e, error) {
	e, err := newE2E()
	if err != nil {
		return nil, err
	}
	defer e.close()
	e.noK = true
	// the pipes first, then the clients side by side
	byWho := map[int][]EOp{}
	var whos []int
	for _, op := range ops {
		switch op.K {
		case "pipe":
			name := fmt.Sprintf("pp%d", len(e.pipes))
			if _, err := e.srv.Exec(fmt.Sprintf("CREATE PIPE %s FROM %s", name, fromCond(op.M))); err == nil {
				e.pipes[name] = true
			}
		default:
			if _, ok := byWho[op.Who]; !ok {
				whos = append(whos, op.Who)
			}
			byWho[op.Who] = append(byWho[op.Who], op)
		}
	}
	var mu sync.Mutex
	var wg sync.WaitGroup
	for _, w := range whos {
		wg.Add(1)
		go func(w int, l []EOp) {
			defer wg.Done()
			c := &e2e{srv: e.srv, t0: e.t0, srcIdx: map[string]int{}, tagOf: map[int]int{}, ts: int64(1000 + 1000000*w),
				kept: map[int]*keptCur{}, counts: map[string]int{}, noK: true, stuckCh: make(chan struct{})}
			for _, op := range l {
				if c.stuck || c.viol != nil {
					break
				}
				if op.K == "evict" {
					continue // the cache is shared: swept at the end
				}
				who, _ := c.do(op)
				c.counts["op:"+who]++
			}
			mu.Lock()
			for k, v := range c.counts {
				e.counts[k] += v
			}
			if c.viol != nil && e.viol == nil {
				e.viol = c.viol
			}
			e.stuck = e.stuck || c.stuck
			mu.Unlock()
		}(w, byWho[w])
	}
	done := make(chan struct{})
	go func() { wg.Wait(); close(done) }()
	select {
	case <-done:
	case <-time.After(60 * time.Second):
		// watchdog: a client never came back (e.g. it waits for the index mutex a panic left locked)
		mu.Lock()
		e.fail("e2e-deadlock", "a client operation did not return within 60 s")
		e.stuck = true
		mu.Unlock()
		return e, nil
	}
	if len(e.pipes) > 0 {
		e.counts["pipes"] += len(e.pipes)
		// let the workers copy: the destination partitions appear
		WaitFor(3*time.Second, func() bool {
			for _, r := range tindex.VC14Snapshot(e.srv.TIndex) {
				if strings.Contains(r.Tags, "logrange.pipe") {
					return true
				}
			}
			return false
		})
	}
	idle := false
	for _, op := range ops {
		idle = idle || op.K == "idle"
	}
	if idle && len(e.pipes) > 0 && !e.stuck && e.viol == nil {
		// the pipe workers end on their own (10 s after the last record) while their pipes still exist:
		// workerDone then looks at every source of the pipe (cleanPartitionsUnsafe: GetJournalTags without
		// acquiring) - nothing may stay acquired by that
		ended := WaitFor(30*time.Second, func() bool {
			for name := range e.pipes {
				for _, r := range tindex.VC14Snapshot(e.srv.TIndex) {
					if _, _, charged, ok := e.srv.Pipes.VC10PipeState(name, r.Src); ok && charged {
						return false
					}
				}
			}
			return true
		})
		if ended {
			e.counts["pipe-workers-ended-on-their-own"]++
		}
	}
	if err := e.quiesce("async-session"); err != nil {
		return nil, err
	}
	return e, nil
}

// ---------------------------------------------------------------- generator

func genE2EOps(r *Rng, async bool) []EOp {
	ntags := r.PickInt(2, 3, 3, 4)
	n := r.Range(14, 30)
	var ops []EOp
	sub := func() []int { return subset(r, ntags) }
	if async {
		for k := r.Range(1, 2); k > 0; k-- {
			ops = append(ops, EOp{K: "pipe", M: sub()})
		}
	}
	held := !async && r.Chance(2, 5)
	if held {
		ops = append(ops, EOp{K: "hold"})
	}
	// every tag line gets data early, so that queries and truncation have something to do
	for t := 0; t < ntags; t++ {
		if r.Chance(4, 5) {
			ops = append(ops, EOp{K: "write", Tag: t, N: r.PickInt(1, 3, 40, 120, 300), Who: t % 3})
		}
	}
	for len(ops) < n {
		x := r.Intn(100)
		var op EOp
		switch {
		case x < 30:
			op = EOp{K: "write", Tag: r.Intn(ntags), N: r.PickInt(1, 2, 5, 40, 300), Fail: r.PickStr("", "", "", "", "first", "middle", "middle", "iter", "badtags", "emptytags"), Rpc: r.Chance(1, 4)}
		case x < 55:
			op = EOp{K: "query", M: sub(), N: r.PickInt(1, 5, 1000), Pos: r.PickStr("", "", "head", "tail"), Flt: r.PickInt(0, 0, 0, 1, 2, 3, 4),
				Fail: r.PickStr("", "", "", "badpos", "badpos", "badquery"), Keep: r.Chance(1, 3), Cur: r.Intn(3)}
			if op.Keep {
				op.Fail = ""
			}
		case x < 65:
			op = EOp{K: "cont", Cur: r.Intn(3), Pos: r.PickStr("next", "next", "stale", "bad")}
		case x < 70:
			op = EOp{K: "evict"}
		case x < 84:
			op = EOp{K: "trunc", M: sub(), Dry: r.Chance(1, 3), Mode: r.PickInt(0, 1, 1, 2, 2, 2, 3)}
		case x < 88:
			op = EOp{K: "describe", Tag: r.Intn(ntags)}
		case x < 93:
			// requests for every chunk, then (mostly) a truncation that drops the older chunks before they are served
			op = EOp{K: "rebuild", Tag: r.Intn(ntags)}
			if r.Chance(2, 3) {
				op.Who = r.Intn(3)
				ops = append(ops, op)
				op = EOp{K: "trunc", M: []int{op.Tag}, Mode: r.PickInt(1, 1, 3)}
			}
		case x < 96 && held:
			op = EOp{K: "serve"}
		default:
			op = EOp{K: "show", M: sub()}
		}
		op.Who = r.Intn(3)
		if !async && r.Chance(1, 4) && ((op.K == "write" && (op.Fail == "" || op.Fail == "middle" || op.Fail == "iter")) || (op.K == "query" && op.Fail == "" && !op.Keep)) {
			// 1-3 operations DURING this one (the writer / the waiting reader holds its partitions meanwhile)
			if op.K == "query" {
				op.Wait = true
				op.Cur = r.Intn(3)
			} else {
				op.Rpc = false
			}
			for k := r.Range(1, 3); k > 0; k-- {
				var in EOp
				switch r.Intn(8) {
				case 0:
					in = EOp{K: "query", M: []int{op.Tag}, N: 5, Fail: "badpos"}
				case 1:
					in = EOp{K: "trunc", M: sub(), Mode: r.PickInt(0, 1, 2, 2, 3), Dry: r.Chance(1, 4)}
				case 2:
					in = EOp{K: "write", Tag: r.Intn(ntags), N: r.PickInt(1, 5), Fail: r.PickStr("", "", "first", "middle", "iter")}
				case 3:
					in = EOp{K: "query", M: sub(), N: 5, Keep: r.Chance(1, 2), Cur: r.Intn(3), Flt: r.PickInt(0, 4)}
				case 4:
					in = EOp{K: "evict"}
				case 5:
					in = EOp{K: "describe", Tag: r.Intn(ntags)}
				case 6:
					in = EOp{K: "cont", Cur: r.Intn(3), Pos: r.PickStr("next", "stale", "bad")}
				default:
					in = EOp{K: "show", M: sub()}
				}
				op.During = append(op.During, in)
			}
			if op.K == "query" {
				// something to wake the reader up
				op.During = append(op.During, EOp{K: "write", Tag: op.M[0], N: 2})
			}
		}
		if op.K == "write" && op.Fail == "" && r.Chance(1, 5) {
			op.Alt = true
		}
		ops = append(ops, op)
		if !async && r.Chance(1, 8) && op.K != "hold" {
			ops = append(ops, op) // the same request once more
		}
	}
	return ops
}

// fiftyOne: 51 partitions; a request over all of them is refused by GetJournals (limit 50) after the 51st
// was acquired: all released; a request over exactly 50 is served and kept; truncation in between
func fiftyOne() []EOp {
	var ops []EOp
	all := make([]int, 51)
	for t := 0; t < 51; t++ {
		all[t] = t
		ops = append(ops, EOp{K: "write", Tag: t, N: 1})
	}
	ops = append(ops, EOp{K: "query", M: all, N: 5}, EOp{K: "query", M: all[:50], N: 1, Keep: true, Cur: 0}, EOp{K: "query", M: all, N: 5, Fail: "badpos"},
		EOp{K: "trunc", M: all, Mode: 2}, EOp{K: "evict"}, EOp{K: "trunc", M: all, Mode: 2})
	return ops
}

func e2eCorpus() [][]EOp {
	return append(e2eCorpusBase(), fiftyOne())
}

func e2eCorpusBase() [][]EOp {
	return [][]EOp{
		// a cursor request with an unparsable position over an unused partition
		{{K: "write", Tag: 0, N: 3}, {K: "query", M: []int{0}, N: 5, Fail: "badpos"}},
		// ... and while another cursor is open on it; then truncation must still refuse to delete it
		{{K: "write", Tag: 0, N: 3}, {K: "write", Tag: 1, N: 2}, {K: "query", M: []int{0, 1}, N: 1, Keep: true, Cur: 0}, {K: "query", M: []int{0}, N: 5, Fail: "badpos"},
			{K: "trunc", M: []int{0, 1}, Mode: 2}, {K: "cont", Cur: 0, Pos: "next"}, {K: "evict"}, {K: "trunc", M: []int{0, 1}, Mode: 2}},
		// a batch that fails in the middle (oversize record after accepted ones), then the partition must be deletable
		{{K: "write", Tag: 0, N: 2}, {K: "write", Tag: 0, N: 4, Fail: "middle"}, {K: "trunc", M: []int{0}, Mode: 2}},
		// a batch whose source fails in the middle; one that fails on the first record of a new partition (left empty: plain TRUNCATE deletes it)
		{{K: "write", Tag: 1, N: 5, Fail: "iter"}, {K: "write", Tag: 2, N: 1, Fail: "first"}, {K: "trunc", M: []int{1, 2}, Mode: 0}, {K: "describe", Tag: 1}},
		// a dry run that enters the global phase (total size above MAXDBSIZE) must leave the partitions as
		// unused as a real one: the real truncation after it deletes them
		{{K: "write", Tag: 0, N: 40}, {K: "write", Tag: 1, N: 40}, {K: "trunc", M: []int{0, 1}, Dry: true, Mode: 2}, {K: "trunc", M: []int{0, 1}, Mode: 2}},
		// rebuild requests wait in the rebuilder's list while TRUNCATE drops the older chunks of the partition;
		// then the rebuilder serves them (chunk not found): the partition must be unused afterwards
		{{K: "hold"}, {K: "write", Tag: 0, N: 300}, {K: "write", Tag: 0, N: 300}, {K: "rebuild", Tag: 0}, {K: "trunc", M: []int{0}, Mode: 1}, {K: "serve"}, {K: "trunc", M: []int{0}, Mode: 2}},
		// DURING a write (the writer holds the partition; hook "write-event"): a cursor request with an
		// unparsable position on it, a truncation that must not delete it, a nested write, a failing nested write;
		// the same during a write that fails in the middle
		{{K: "write", Tag: 0, N: 3, During: []EOp{{K: "query", M: []int{0}, N: 5, Fail: "badpos"}, {K: "trunc", M: []int{0}, Mode: 2}, {K: "write", Tag: 0, N: 2}, {K: "write", Tag: 0, N: 4, Fail: "middle"}}},
			{K: "write", Tag: 0, N: 4, Fail: "middle", During: []EOp{{K: "query", M: []int{0}, N: 1, Keep: true, Cur: 0}, {K: "trunc", M: []int{0}, Mode: 3}, {K: "query", M: []int{0}, N: 5, Flt: 4}}},
			{K: "evict"}, {K: "trunc", M: []int{0}, Mode: 2}},
		// while a request waits for new data at the end of two partitions (hook "wait-new-data"; its cursor
		// holds them): truncation (refused), a failing write, an unparsable position, the sweep; then data arrives
		{{K: "write", Tag: 0, N: 3}, {K: "write", Tag: 1, N: 3},
			{K: "query", M: []int{0, 1}, N: 5, Wait: true, Cur: 0, During: []EOp{{K: "trunc", M: []int{0, 1}, Mode: 2}, {K: "write", Tag: 1, N: 3, Fail: "iter"}, {K: "query", M: []int{1}, N: 5, Fail: "badpos"}, {K: "evict"}, {K: "write", Tag: 2, N: 1}, {K: "write", Tag: 0, N: 2}}},
			{K: "cont", Cur: 0, Pos: "next"}, {K: "evict"}, {K: "trunc", M: []int{0, 1, 2}, Mode: 2}},
		// the same request twice; another spelling of the tag line; delete of the deleted
		{{K: "write", Tag: 0, N: 2, Alt: true}, {K: "write", Tag: 0, N: 2}, {K: "query", M: []int{0}, N: 5, Fail: "badpos"}, {K: "query", M: []int{0}, N: 5, Fail: "badpos"},
			{K: "query", M: []int{0}, N: 1, Keep: true, Cur: 0}, {K: "query", M: []int{0}, N: 1, Keep: true, Cur: 0}, {K: "evict"}, {K: "evict"},
			{K: "trunc", M: []int{0}, Mode: 2}, {K: "trunc", M: []int{0}, Mode: 2}, {K: "describe", Tag: 0}, {K: "write", Tag: 0, N: 1, Fail: "first"}, {K: "trunc", M: []int{0}}, {K: "trunc", M: []int{0}}},
		// two false alarms of the harness, minimised (docs/C14.md "false alarm corrected"): one pass of the
		// provider's sweep during a waiting request leaves an expired idle cursor in the cache (it is still
		// open: its partitions stay counted); kept cursors pushed out of their slot more than once
		{{K: "write", Tag: 1, N: 1}, {K: "write", N: 5}, {K: "query", M: []int{1, 2}, N: 1, Keep: true}, {K: "query", M: []int{0}, N: 1, Keep: true, Flt: 2}, {K: "query", M: []int{1, 0}, N: 5, Keep: true, Cur: 1, Pos: "tail", Flt: 1}, {K: "query", M: []int{1, 0}, N: 5, Keep: true, Cur: 1, Pos: "tail", Flt: 1}, {K: "query", M: []int{0, 2, 1}, N: 1, Cur: 1, During: []EOp{{K: "show", M: []int{2, 1}}, {K: "show", M: []int{0, 2}}, {K: "evict"}, {K: "write", N: 2}}, Wait: true}},
		{{K: "write", Tag: 1, N: 1}, {K: "query", M: []int{0, 2, 1}, N: 1000, Cur: 1, Pos: "tail", Flt: 1, During: []EOp{{K: "query", M: []int{2}, N: 5, Keep: true, Flt: 4}, {K: "query", M: []int{0, 2, 1}, N: 5, Cur: 2}, {K: "evict"}, {K: "write", N: 2}}, Wait: true}, {K: "query", M: []int{1, 0}, N: 1, Keep: true, Cur: 2, Flt: 1}, {K: "query", M: []int{2, 1}, N: 1, Keep: true, Cur: 1}, {K: "write", Tag: 2, N: 5, During: []EOp{{K: "cont", Cur: 2, Pos: "bad"}, {K: "describe"}, {K: "describe", Tag: 2}}}, {K: "query", M: []int{1, 2, 0}, N: 1000, Keep: true, Cur: 1, Pos: "head"}},
		// a kept cursor is re-positioned (stale position, then a bad one)
		{{K: "write", Tag: 0, N: 40}, {K: "query", M: []int{0}, N: 1, Keep: true, Cur: 1}, {K: "cont", Cur: 1, Pos: "next"}, {K: "cont", Cur: 1, Pos: "stale"}, {K: "cont", Cur: 1, Pos: "bad"}, {K: "show", M: []int{0}}},
	}
}

// mkE2E runs one session and renders it as a case
func mkE2E(ops []EOp, async bool, stream string) (*Case, error) {
	var e *e2e
	var err error
	kind := "e2e-sync"
	if len(ops) > 0 && ops[0].K == "pipe" && !async {
		kind = "e2e-pipe"
		async = true // K: the final table
		e, err = runPipe(ops)
	} else if async {
		kind = "e2e-async"
		e, err = runAsync(ops)
	} else {
		e, err = runSync(ops)
	}
	if err != nil {
		return nil, err
	}
	var tags []string
	if !e.abandoned {
		for k := range e.counts {
			tags = append(tags, "e2e-"+k)
		}
	}
	sort.Strings(tags)
	tags = append([]string{kind}, tags...)
	// K: the sync session as client procedures of the model; the async one: the final table
	var coq string
	if async || e.stuck {
		coq = fmt.Sprintf("KQuiet %s", gSnap(e.prev))
		if e.stuck || e.viol != nil {
			coq = "KQuiet []"
		}
	} else {
		it := make([]string, len(e.evs))
		for i, ev := range e.evs {
			sn := "None"
			if ev.snap != nil {
				sn = "(Some " + gSnap(ev.snap) + ")"
			}
			it[i] = fmt.Sprintf("(%d, %s, %s)", ev.actor, gB(ev.hold), sn)
		}
		progs := make([]string, len(e.progs))
		for i, p := range e.progs {
			progs[i] = "[" + p + "]"
		}
		coq = fmt.Sprintf("KSess [%s] [%s]", strings.Join(progs, "; "), strings.Join(it, "; "))
	}
	return &Case{
		Coq:        coq,
		Replay:     Replay{Kind: kind, EOps: ops},
		NonTrivial: len(ops) >= 2,
		Oracle:     e.viol,
		Stream:     stream,
		Tags:       tags,
	}, nil
}

// ---------------------------------------------------------------- pipe sessions

// A pipe session: CREATE PIPE over the tag lines M, records written to several of them (the workers copy
// them into the pipe's partition and then wait for more, their cursors holding the sources), optionally
// a kept cursor, a source emptied and deleted before the pipe ever saw it; then the pipe's cleanPartitions()
// (what the pipes cleaner does every few minutes and a worker does when it ends: it asks the index for
// every source WITHOUT acquiring it) through the hook VC14CleanPartitions, N times.  O: the table
// after each call is the table before it (class e2e-count-leak:pipe-clean / e2e-double-release:pipe-clean);
// then the usual quiescence.  K: KQuiet of the final table.
func runPipe(ops []EOp) (*e2e, error) {
	e, err := newE2E()
	if err != nil {
		return nil, err
	}
	defer e.close()
	e.noK = true
	ctx := context.Background()
	name := "ppc"
	var m []int
	for _, op := range ops {
		if e.stuck || e.viol != nil {
			break
		}
		switch op.K {
		case "pipe":
			m = op.M
			if _, err := e.srv.Exec(fmt.Sprintf("CREATE PIPE %s FROM %s", name, fromCond(op.M))); err != nil {
				return nil, fmt.Errorf("CREATE PIPE failed: %v", err)
			}
			e.pipes[name] = true
		case "evict":
			// the clients' idle cursors go; the busy ones of the pipe's workers stay
			e.guarded("provider-sweep", func() { cursor.VC03EvictIdle(e.srv.Provider) })
			e.kept = map[int]*keptCur{}
		case "write", "query", "trunc", "describe", "show", "cont":
			who, _ := e.do(op)
			e.counts["op:"+who]++
		case "pipeclean":
			// the pipe has copied everything it was told about; its workers wait for more
			copied := WaitFor(15*time.Second, func() bool {
				n := 0
				for _, r := range tindex.VC14Snapshot(e.srv.TIndex) {
					if !has(m, tagOfLine(r.Tags)) {
						continue
					}
					pos, last, _, ok := e.srv.Pipes.VC10PipeState(name, r.Src)
					if ok && pos != last {
						return false
					}
					if ok {
						n++
					}
				}
				return n >= op.N
			})
			if !copied {
				e.counts["pipe-did-not-catch-up"]++
				continue
			}
			var before []row
			stable := WaitFor(10*time.Second, func() bool {
				a, err1 := e.table()
				time.Sleep(20 * time.Millisecond)
				b, err2 := e.table()
				before = b
				return err1 == nil && err2 == nil && gSnap(a) == gSnap(b)
			})
			if !stable {
				e.counts["pipe-table-not-stable"]++
				continue
			}
			srcs := 0
			for _, r := range before {
				if has(m, r.tag) && r.readers > 0 {
					srcs++
				}
			}
			if srcs >= 2 {
				e.counts["pipe-clean-with-several-held-sources"]++
			}
			if e.guarded("pipe-clean", func() { e.srv.Pipes.VC14CleanPartitions(name) }) {
				continue
			}
			bad := [2]string{}
			WaitFor(5*time.Second, func() bool {
				bad = [2]string{}
				after, err := e.table()
				if err != nil {
					return false
				}
				am := map[int]row{}
				for _, r := range after {
					am[r.idx] = r
				}
				for _, r := range before {
					a, ok := am[r.idx]
					switch {
					case !ok:
						bad = [2]string{"e2e-deleted-while-in-use:pipe-clean", fmt.Sprintf("partition %d (p=t%d) disappeared during cleanPartitions", r.idx, r.tag)}
					case a.excl:
						bad = [2]string{"e2e-locked-left:pipe-clean", fmt.Sprintf("partition %d (p=t%d) is exclusively locked after cleanPartitions", r.idx, r.tag)}
					case a.readers > r.readers:
						bad = [2]string{"e2e-count-leak:pipe-clean", fmt.Sprintf("partition %d (p=t%d): count %d after the pipe's cleanPartitions, %d before it (the cursors of the pipe's workers and of the clients explain %d)", r.idx, r.tag, a.readers, r.readers, r.readers)}
					case a.readers < r.readers:
						bad = [2]string{"e2e-double-release:pipe-clean", fmt.Sprintf("partition %d (p=t%d): count %d after the pipe's cleanPartitions, %d before it", r.idx, r.tag, a.readers, r.readers)}
					}
					if bad[0] != "" {
						return false
					}
				}
				return true
			})
			if bad[0] != "" {
				e.fail(bad[0], bad[1])
			}
			e.counts["op:pipe-clean"]++
		}
	}
	_ = ctx
	if err := e.quiesce("pipe-session"); err != nil {
		return nil, err
	}
	return e, nil
}

func pipeCorpus() [][]EOp {
	return [][]EOp{
		// two sources copied, the workers hold them; cleanPartitions twice
		{{K: "pipe", M: []int{0, 1}}, {K: "write", Tag: 0, N: 5}, {K: "write", Tag: 1, N: 5}, {K: "pipeclean", N: 2}, {K: "pipeclean", N: 2}},
		// three sources, a kept cursor of a client on one of them, a failed write, a source that was
		// deleted again before the cleaning (the pipe forgets it), then more data and another cleaning
		{{K: "pipe", M: []int{0, 1, 2, 3}}, {K: "write", Tag: 0, N: 40}, {K: "write", Tag: 1, N: 3}, {K: "write", Tag: 2, N: 3},
			{K: "query", M: []int{1}, N: 1, Keep: true, Cur: 0}, {K: "write", Tag: 3, N: 1, Fail: "first"}, {K: "trunc", M: []int{3}},
			{K: "pipeclean", N: 3}, {K: "write", Tag: 1, N: 4, Fail: "middle"}, {K: "write", Tag: 0, N: 2}, {K: "pipeclean", N: 3}, {K: "evict"}, {K: "pipeclean", N: 3}},
	}
}

func genPipeOps(r *Rng) []EOp {
	n := r.PickInt(2, 3, 4)
	m := make([]int, n)
	for i := range m {
		m[i] = i
	}
	ops := []EOp{{K: "pipe", M: m}}
	for t := 0; t < n; t++ {
		ops = append(ops, EOp{K: "write", Tag: t, N: r.PickInt(1, 3, 40), Fail: r.PickStr("", "", "", "middle")})
	}
	if r.Chance(1, 2) {
		ops = append(ops, EOp{K: "query", M: subset(r, n), N: 1, Keep: true, Cur: 0})
	}
	for k := r.Range(1, 3); k > 0; k-- {
		ops = append(ops, EOp{K: "pipeclean", N: 2})
		if r.Chance(1, 2) {
			ops = append(ops, EOp{K: "write", Tag: r.Intn(n), N: r.PickInt(1, 5)})
		}
	}
	return ops
}
