package main

import (
	"bytes"
	"context"
	"fmt"
	"regexp"
	"runtime"
	"sort"
	"strconv"
	"strings"
	"time"

	"github.com/logrange/logrange/pkg/lql"
	"github.com/logrange/logrange/pkg/model"
	"github.com/logrange/logrange/pkg/model/tag"
	"github.com/logrange/logrange/pkg/partition"
	"github.com/logrange/logrange/pkg/tindex"
	"github.com/logrange/logrange/pkg/tmindex"
	"github.com/logrange/range/pkg/records"
	"github.com/logrange/range/pkg/records/chunk"
	"github.com/logrange/range/pkg/records/journal"
	rbytes "github.com/logrange/range/pkg/utils/bytes"
)

// Proc is one client procedure of model/TIndex.v (same constructors, same parameters).
type Proc struct {
	K      string `json:"k"` // write | byid | visit | query | trunc
	Tag    int    `json:"tag,omitempty"`
	Create bool   `json:"create,omitempty"`
	P      int    `json:"p,omitempty"`
	Lock   bool   `json:"lock,omitempty"`
	Skip   bool   `json:"skip,omitempty"`
	Norel  bool   `json:"norel,omitempty"`
	M      []int  `json:"m,omitempty"`
	Abort  int    `json:"abort"` // -1 = none: visit abort / query failat / trunc cancel
	Limit  int    `json:"limit,omitempty"`
	Zero   []int  `json:"zero,omitempty"`
	Szpos  []int  `json:"szpos,omitempty"`
	Glob   bool   `json:"glob,omitempty"`
	// write with Create: go through the real partition.Service.Write (stub journal controller / journal);
	// Abort then is the outcome: -1 all written, 0 Journals.GetOrCreate fails, 1 the journal refuses the
	// first record, 2 the batch's iterator fails after an accepted record, 3 the journal fails after an
	// accepted record.  The model's PWrite releases on every exit.
	Real bool `json:"real,omitempty"`
	// byid with Lock and Real: the real partition.Service.GetJournal / Release (Abort 0: the journal fails
	// to open, GetJournal releases); visit (waiting, releasing) with Real: the real partition.Service.Partitions
	// (Abort n: the journal of callback n fails to open = the visitor answers false there);
	// trunc: tags whose journal fails to open in the visitor of Truncate (Ofail) / in truncateGlobally (Gfail)
	Ofail []int `json:"ofail,omitempty"`
	Gfail []int `json:"gfail,omitempty"`
}

func gOptNat(n int) string {
	if n < 0 {
		return "None"
	}
	return fmt.Sprintf("(Some %d)", n)
}
func gNats(l []int) string {
	it := make([]string, len(l))
	for i, x := range l {
		it[i] = strconv.Itoa(x)
	}
	return "[" + strings.Join(it, "; ") + "]"
}
func gB(b bool) string {
	if b {
		return "true"
	}
	return "false"
}

func (p Proc) Coq() string {
	switch p.K {
	case "write":
		return fmt.Sprintf("(PWrite %d %s)", p.Tag, gB(p.Create))
	case "byid":
		return fmt.Sprintf("(PById %d %s)", p.P, gB(p.Lock))
	case "visit":
		return fmt.Sprintf("(PVisit %s %s %s %s)", gB(p.Skip), gB(p.Norel), gNats(p.M), gOptNat(p.Abort))
	case "query":
		return fmt.Sprintf("(PQuery %s %d %s)", gNats(p.M), p.Limit, gOptNat(p.Abort))
	case "trunc":
		return fmt.Sprintf("(PTrunc %s %s %s %s %s %s %s)", gNats(p.M), gNats(p.Zero), gNats(p.Szpos), gB(p.Glob), gOptNat(p.Abort), gNats(p.Ofail), gNats(p.Gfail))
	}
	panic("bad proc kind " + p.K)
}

func tagLine(t int) string { return fmt.Sprintf("p=t%d", t) }

func tagOfLine(s string) int {
	// tag lines of the harness are "p=t<n>"
	i := strings.Index(s, "p=t")
	if i < 0 {
		return -1
	}
	n, err := strconv.Atoi(strings.TrimRight(s[i+3:], "}\" "))
	if err != nil {
		return -1
	}
	return n
}

func srcCond(m []int) *lql.Source {
	var parts []string
	for _, t := range m {
		parts = append(parts, tagLine(t))
	}
	txt := strings.Join(parts, " OR ")
	if txt == "" {
		txt = "p=none"
	}
	s, err := lql.ParseSource(txt)
	if err != nil {
		panic(err)
	}
	return s
}

func has(l []int, x int) bool {
	for _, y := range l {
		if x == y {
			return true
		}
	}
	return false
}

// ---------------------------------------------------------------- park protocol

type parkEvt struct {
	code   int // 0 returned/idle, 1 holding, 2 visitor callback, 3 size check under the exclusive lock, 4 truncateGlobally element
	srcs   []string
	panicv interface{}
	done   bool
}

type actorT struct {
	w      *world
	idx    int
	prog   []Proc
	resume chan struct{}
	parkCh chan parkEvt
	gid    int64

	// per procedure
	cur     Proc
	cbCount int
	cancel  context.CancelFunc
	failed  []string // sources whose journal failed to open in GetJournals
	// verdict of the limit oracle of GetJournals (set by the actor before it parks, read by the scheduler after)
	limitViol string

	// scheduler's view
	status   int // stParked, stSpinning, stFinished, stDead
	lastPark parkEvt
}

const (
	stParked = iota
	stSpinning
	stFinished
	stDead
)

type ctxKey struct{}

func (a *actorT) park(code int, srcs ...string) {
	select {
	case a.parkCh <- parkEvt{code: code, srcs: srcs}:
	case <-a.w.quit:
		runtime.Goexit()
	}
	a.waitResume()
}

func (a *actorT) waitResume() {
	select {
	case <-a.resume:
	case <-a.w.quit:
		runtime.Goexit()
	}
}

var gidRe = regexp.MustCompile(`^goroutine (\d+) \[`)

func curGid() int64 {
	buf := make([]byte, 64)
	n := runtime.Stack(buf, false)
	m := gidRe.FindSubmatch(buf[:n])
	if m == nil {
		return -1
	}
	id, _ := strconv.ParseInt(string(m[1]), 10, 64)
	return id
}

// goroutine state of gid from a full dump: "sleep" (inside a tindex retry loop), "mutex" (waiting
// for the tindex lock), or "other"
func gstate(gid int64) string {
	buf := make([]byte, 1<<18)
	for {
		n := runtime.Stack(buf, true)
		if n < len(buf) {
			buf = buf[:n]
			break
		}
		buf = make([]byte, 2*len(buf))
	}
	hdr := []byte(fmt.Sprintf("goroutine %d [", gid))
	i := bytes.Index(buf, hdr)
	for i > 0 && buf[i-1] != '\n' {
		j := bytes.Index(buf[i+1:], hdr)
		if j < 0 {
			return "other"
		}
		i = i + 1 + j
	}
	if i < 0 {
		return "other"
	}
	blk := buf[i:]
	if e := bytes.Index(blk, []byte("\n\n")); e >= 0 {
		blk = blk[:e]
	}
	st := blk[len(hdr):]
	if e := bytes.IndexByte(st, ']'); e >= 0 {
		st = st[:e]
	}
	switch {
	case bytes.HasPrefix(st, []byte("sleep")) && calledFromTindex(blk, "time.Sleep("):
		return "sleep"
	case (bytes.HasPrefix(st, []byte("sync.Mutex.Lock")) || bytes.HasPrefix(st, []byte("semacquire"))) && calledFromTindex(blk, "sync.(*Mutex).Lock("):
		return "mutex"
	}
	return "other"
}

// calledFromTindex: in the goroutine's stack, the frame `fn` is called directly by a method of
// tindex.inmemService (so the sleep is the retry loop's, the mutex is the service lock)
func calledFromTindex(blk []byte, fn string) bool {
	lines := bytes.Split(blk, []byte("\n"))
	for i, l := range lines {
		if bytes.HasPrefix(l, []byte(fn)) {
			// lines: fn(args) / \tfile:line / caller(args)
			if i+2 < len(lines) && bytes.HasPrefix(lines[i+2], []byte("github.com/logrange/logrange/pkg/tindex.(*inmemService).")) {
				return true
			}
			return false
		}
	}
	return false
}

// ---------------------------------------------------------------- stubs

type stubCtrl struct{ w *world }

func (c *stubCtrl) Visit(ctx context.Context, cv journal.ControllerVisitorF) {}
func (c *stubCtrl) Delete(ctx context.Context, jname string) error          { return nil }
func (c *stubCtrl) GetOrCreate(ctx context.Context, jname string) (journal.Journal, error) {
	a, _ := ctx.Value(ctxKey{}).(*actorT)
	if a == nil {
		return &stubJournal{name: jname}, nil
	}
	j := &stubJournal{a: a, name: jname}
	if a.cur.K == "write" {
		// partition.Service.Write holds the partition now
		a.park(1, jname)
		if a.cur.Abort == 0 {
			return nil, fmt.Errorf("stub: journal %s cannot be opened", jname)
		}
		return j, nil
	}
	if a.cur.K == "byid" {
		// partition.Service.GetJournal holds the partition now
		a.park(1, jname)
		if a.cur.Abort == 0 {
			return nil, fmt.Errorf("stub: journal %s cannot be opened", jname)
		}
		return j, nil
	}
	if inFrame("truncateGlobally") {
		a.park(4, jname)
		if has(a.cur.Gfail, a.w.tagOfSrc(jname)) {
			return nil, fmt.Errorf("stub: journal %s cannot be opened", jname)
		}
		return j, nil
	}
	n := a.cbCount
	a.cbCount++
	if a.cur.K == "trunc" && a.cur.Abort == n && a.cancel != nil {
		a.cancel()
	}
	a.park(2, jname)
	if a.cur.K == "query" && a.cur.Abort == n {
		a.failed = append(a.failed, jname)
		return nil, fmt.Errorf("stub: journal %s cannot be opened", jname)
	}
	if a.cur.K == "visit" && a.cur.Abort == n {
		return nil, fmt.Errorf("stub: journal %s cannot be opened", jname)
	}
	if a.cur.K == "trunc" && has(a.cur.Ofail, a.w.tagOfSrc(jname)) {
		return nil, fmt.Errorf("stub: journal %s cannot be opened", jname)
	}
	return j, nil
}

func inFrame(suffix string) bool {
	pcs := make([]uintptr, 32)
	n := runtime.Callers(2, pcs)
	fr := runtime.CallersFrames(pcs[:n])
	for {
		f, more := fr.Next()
		if strings.HasSuffix(f.Function, suffix) {
			return true
		}
		if !more {
			return false
		}
	}
}

type stubJournal struct {
	a    *actorT
	name string
}

func (j *stubJournal) Name() string { return j.name }
func (j *stubJournal) Write(ctx context.Context, rit records.Iterator) (int, journal.Pos, error) {
	if j.a == nil || j.a.cur.K != "write" {
		return 0, journal.Pos{}, fmt.Errorf("stub")
	}
	take := func(max int) int {
		n := 0
		for n < max {
			if _, err := rit.Get(ctx); err != nil {
				break
			}
			rit.Next(ctx)
			n++
		}
		return n
	}
	switch j.a.cur.Abort {
	case 1:
		return 0, journal.Pos{}, fmt.Errorf("stub: the first record is refused")
	case 2:
		n := take(1) // then Write asks the iterator for the next record: it fails
		return n, journal.Pos{CId: 1, Idx: uint32(n)}, nil
	case 3:
		n := take(1)
		return n, journal.Pos{CId: 1, Idx: uint32(n)}, fmt.Errorf("stub: the journal failed after %d records", n)
	}
	n := take(1 << 20)
	return n, journal.Pos{CId: 1, Idx: uint32(n)}, nil
}
func (j *stubJournal) Count() uint64                  { return 1 }
func (j *stubJournal) Sync()                          {}
func (j *stubJournal) Chunks() journal.ChnksController { return &stubChunks{j} }
func (j *stubJournal) Size() uint64 {
	if j.a == nil {
		return 5
	}
	t := j.a.w.tagOfSrc(j.name)
	if inFrame(".deleteJournal") {
		j.a.park(3, j.name)
		if has(j.a.cur.Szpos, t) {
			return 5
		}
		return 0
	}
	if inFrame("(*Service).truncate") {
		return 5
	}
	if has(j.a.cur.Zero, t) {
		return 0
	}
	return 5
}

type stubChunks struct{ j *stubJournal }

func (c *stubChunks) JournalName() string { return c.j.name }
func (c *stubChunks) GetChunkForWrite(ctx context.Context, excludeCid chunk.Id) (chunk.Chunk, error) {
	return nil, fmt.Errorf("stub")
}
func (c *stubChunks) Chunks(ctx context.Context) (chunk.Chunks, error) { return nil, nil }
func (c *stubChunks) WaitForNewData(ctx context.Context, pos journal.Pos) error {
	return fmt.Errorf("stub")
}
func (c *stubChunks) DeleteChunks(ctx context.Context, lastCid chunk.Id, cdf journal.OnChunkDeleteF) (int, error) {
	return 0, nil
}
func (c *stubChunks) LocalFolder() string { return "" }

type stubTs struct{ tmindex.TsIndexer }

func (s *stubTs) OnWrite(src string, firstRec, lastRec uint32, rInfo tmindex.RecordsInfo) error { return nil }
func (s *stubTs) LastChunkRecordsInfo(src string) (tmindex.RecordsInfo, error) {
	return tmindex.RecordsInfo{}, fmt.Errorf("stub: no time index")
}

// ---------------------------------------------------------------- world

type row struct {
	idx, tag, readers int
	excl              bool
}

type world struct {
	ti     tindex.Service
	ps     *partition.Service
	actors []*actorT
	srcIdx map[string]int
	srcs   []string
	srcTag map[string]int
	quit   chan struct{}
	// actors resumed by fused steps whose observations wait for the next table read
	pending []*actorT
}

// close ends the case: retry loops leave with "already shut-down", parked actors exit
func (w *world) close() {
	close(w.quit)
	go w.ti.(interface{ Shutdown() }).Shutdown() // blocks for ever if a panic left the service lock locked
}

func newWorld(pre int, progs [][]Proc) (*world, error) {
	w := &world{srcIdx: map[string]int{}, srcTag: map[string]int{}, quit: make(chan struct{})}
	w.ti = tindex.NewInmemServiceWithConfig(tindex.InMemConfig{DoNotSave: true})
	w.ps = partition.NewService()
	w.ps.TIndex = w.ti
	w.ps.Journals = &stubCtrl{w}
	w.ps.TsIndexer = &stubTs{}
	w.ps.Pool = new(rbytes.Pool)
	w.ps.MainCtx = context.Background()
	for t := 0; t < pre; t++ {
		src, _, err := w.ti.GetOrCreateJournal(tagLine(t))
		if err != nil {
			return nil, err
		}
		w.ti.Release(src)
		w.index(src)
	}
	for i, p := range progs {
		a := &actorT{w: w, idx: i, prog: p, resume: make(chan struct{}), parkCh: make(chan parkEvt, 2), status: stParked}
		w.actors = append(w.actors, a)
		if len(p) == 0 {
			a.status = stFinished
			continue
		}
		ready := make(chan struct{})
		go a.run(ready)
		<-ready
	}
	return w, nil
}

func (w *world) index(src string) int {
	if i, ok := w.srcIdx[src]; ok {
		return i
	}
	i := len(w.srcs)
	w.srcIdx[src] = i
	w.srcs = append(w.srcs, src)
	return i
}

func (w *world) tagOfSrc(src string) int {
	// the visitor gets the tags with the source; the stub journal only has the name: ask the
	// table filled from the snapshots (a partition is always snapshotted before it is visited)
	if t, ok := w.srcTag[src]; ok {
		return t
	}
	return -1
}

func (w *world) srcOf(p int) string {
	if p < len(w.srcs) {
		return w.srcs[p]
	}
	return fmt.Sprintf("no-such-source-%d", p)
}

func (w *world) snapshot() ([]row, error) {
	rows := tindex.VC14Snapshot(w.ti)
	// new sources first get their index (creation order: at most one new source per scheduler step)
	var fresh []string
	for _, r := range rows {
		if _, ok := w.srcIdx[r.Src]; !ok {
			fresh = append(fresh, r.Src)
		}
	}
	if len(fresh) > 1 {
		return nil, fmt.Errorf("more than one new source in one scheduler step: %v", fresh)
	}
	for _, s := range fresh {
		w.index(s)
	}
	res := make([]row, 0, len(rows))
	for _, r := range rows {
		if !r.InTmap || strings.HasSuffix(r.Src, "#tmap-only") {
			return nil, fmt.Errorf("tmap/smap disagree on %s", r.Src)
		}
		t := tagOfLine(r.Tags)
		w.srcTag[r.Src] = t
		res = append(res, row{idx: w.srcIdx[r.Src], tag: t, readers: r.Readers, excl: r.Exclusive})
	}
	sort.Slice(res, func(i, j int) bool { return res[i].idx < res[j].idx })
	return res, nil
}

func (a *actorT) run(ready chan struct{}) {
	a.gid = curGid()
	close(ready)
	defer func() {
		if r := recover(); r != nil {
			select {
			case a.parkCh <- parkEvt{panicv: r}:
			case <-a.w.quit:
			}
		}
	}()
	a.waitResume()
	for i, p := range a.prog {
		a.exec(p)
		if i == len(a.prog)-1 {
			select {
			case a.parkCh <- parkEvt{code: 0, done: true}:
			case <-a.w.quit:
			}
			return
		}
		a.park(0)
	}
}

func (a *actorT) exec(p Proc) {
	w := a.w
	a.cur, a.cbCount, a.cancel = p, 0, nil
	ctx := context.WithValue(context.Background(), ctxKey{}, a)
	switch p.K {
	case "write":
		if p.Create && p.Real {
			it := &sliceIt{failAt: -1}
			for i := 0; i < 3; i++ {
				it.evs = append(it.evs, model.LogEvent{Timestamp: int64(100 + i), Msg: []byte("m")})
			}
			if p.Abort == 2 {
				it.failAt = 1
			}
			w.ps.Write(ctx, tagLine(p.Tag), it, true)
			return
		}
		var src string
		var err error
		if p.Create {
			src, _, err = w.ti.GetOrCreateJournal(tagLine(p.Tag))
		} else {
			src, _, err = w.ti.GetJournal(tagLine(p.Tag))
		}
		if err != nil {
			return
		}
		a.park(1, src)
		w.ti.Release(src)
	case "byid":
		src := w.srcOf(p.P)
		if p.Real && p.Lock {
			if _, _, err := w.ps.GetJournal(ctx, src); err == nil {
				w.ps.Release(src)
			}
			return
		}
		if _, err := w.ti.GetJournalTags(src, p.Lock); err != nil || !p.Lock {
			return
		}
		a.park(1, src)
		w.ti.Release(src)
	case "visit":
		if p.Real && !p.Skip && !p.Norel {
			w.ps.Partitions(ctx, srcCond(p.M), 0, 100)
			return
		}
		flags := 0
		if p.Skip {
			flags |= tindex.VF_SKIP_IF_LOCKED
		}
		if p.Norel {
			flags |= tindex.VF_DO_NOT_RELEASE
		}
		var visited []string
		n := 0
		w.ti.Visit(srcCond(p.M), func(tags tag.Set, jn string) bool {
			visited = append(visited, jn)
			a.park(2, jn)
			n++
			return p.Abort != n-1
		}, flags)
		if p.Norel {
			a.park(1, visited...)
			for _, s := range visited {
				w.ti.Release(s)
			}
		}
	case "query":
		// a single client, every journal opens: the number of partitions the condition selects is known
		matching := -1
		if len(w.actors) == 1 && p.Abort < 0 {
			matching = 0
			for _, r := range tindex.VC14Snapshot(w.ti) {
				if has(p.M, tagOfLine(r.Tags)) {
					matching++
				}
			}
		}
		res, err := w.ps.GetJournals(ctx, srcCond(p.M), p.Limit)
		if matching >= 0 {
			// O: exactly Limit partitions are served, Limit+1 and more are refused (never a silent subset)
			switch {
			case matching <= p.Limit && err != nil:
				a.limitViol = fmt.Sprintf("GetJournals over %d partitions with limit %d was refused: %v", matching, p.Limit, err)
			case matching <= p.Limit && len(res) != matching:
				a.limitViol = fmt.Sprintf("GetJournals over %d partitions with limit %d returned %d journals", matching, p.Limit, len(res))
			case matching > p.Limit && err == nil:
				a.limitViol = fmt.Sprintf("GetJournals over %d partitions with limit %d was served (%d journals)", matching, p.Limit, len(res))
			}
		}
		if err != nil {
			return
		}
		var held []string
		for _, j := range res {
			held = append(held, j.Name())
		}
		a.park(1, held...)
		// cursor.close
		for _, s := range held {
			w.ps.Release(s)
		}
	case "trunc":
		cctx, cancel := context.WithCancel(ctx)
		a.cancel = cancel
		tp := partition.TruncateParams{TagsExpr: srcCond(p.M), MaxDBSize: 1 << 60}
		if p.Glob {
			tp.MaxDBSize = 0
		}
		w.ps.Truncate(cctx, tp, nil)
		cancel()
	}
}

const deadline = 30 * time.Second

// waitOutcome waits until the running actor either parks (or finishes, or panics) or is seen
// asleep inside one of the tindex retry loops. Both are positive observations: no timing
// assumption decides between them.
func (w *world) waitOutcome(a *actorT) error {
	t0 := time.Now()
	for n := 0; ; n++ {
		select {
		case ev := <-a.parkCh:
			a.lastPark = ev
			switch {
			case ev.panicv != nil:
				a.status = stDead
			case ev.done:
				a.status = stFinished
			default:
				a.status = stParked
			}
			return nil
		default:
		}
		if n > 2 && gstate(a.gid) == "sleep" {
			a.status = stSpinning
			return nil
		}
		if time.Since(t0) > deadline {
			return fmt.Errorf("actor %d neither parked nor spinning after %v", a.idx, deadline)
		}
		if n < 50 {
			runtime.Gosched()
		} else {
			time.Sleep(100 * time.Microsecond)
		}
	}
}

// recheck decides afresh whether a spinning actor is still spinning: with the tindex lock held
// it must arrive at the lock (so whatever iteration it was sleeping in is over), then it is let
// run one more iteration on the current state.
func (w *world) recheck(a *actorT) error {
	unfreeze := tindex.VC14Freeze(w.ti)
	t0 := time.Now()
	got := false
	for !got {
		select {
		case ev := <-a.parkCh:
			a.parkCh <- ev // hand it to waitOutcome
			got = true
		default:
			if gstate(a.gid) == "mutex" {
				got = true
			} else if time.Since(t0) > deadline {
				unfreeze()
				return fmt.Errorf("spinning actor %d never reached the tindex lock", a.idx)
			} else {
				time.Sleep(100 * time.Microsecond)
			}
		}
	}
	unfreeze()
	return w.waitOutcome(a)
}
