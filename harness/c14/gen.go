package main

import (
	. "verifharness/common"
)

func wr(t int) Proc         { return Proc{K: "write", Tag: t, Create: true, Abort: -1} }
func gj(t int) Proc         { return Proc{K: "write", Tag: t, Create: false, Abort: -1} }
func byid(p int, l bool) Proc { return Proc{K: "byid", P: p, Lock: l, Abort: -1} }
func visit(skip, norel bool, m []int, abort int) Proc {
	return Proc{K: "visit", Skip: skip, Norel: norel, M: m, Abort: abort}
}
func query(m []int, limit, failat int) Proc { return Proc{K: "query", M: m, Limit: limit, Abort: failat} }
func trunc(m, zero, szpos []int, glob bool, cancel int) Proc {
	return Proc{K: "trunc", M: m, Zero: zero, Szpos: szpos, Glob: glob, Abort: cancel}
}

var both = []int{0, 1}

// corpus: fixed witnesses that always run first
func corpus() []Replay {
	return []Replay{
		// the refutation witness of C14_balanced (props/C14.v): one query whose first journal fails to open
		{Kind: "corpus", Pre: 1, Progs: [][]Proc{{query([]int{0}, 50, 0)}}, Picks: []int{0, 0}},
		// same, second of two journals fails: the first is released, the second leaks
		{Kind: "corpus", Pre: 2, Progs: [][]Proc{{query(both, 50, 1)}}, Picks: []int{0, 0, 0}},
		// truncate deletes an empty partition while a writer arrives: the writer spins, then re-creates
		{Kind: "corpus", Pre: 2, Progs: [][]Proc{{trunc(both, both, nil, false, -1)}, {wr(0), wr(1)}}, Picks: []int{0, 0, 1, 0, 0, 1}},
		// query limit reached: everything released
		{Kind: "corpus", Pre: 3, Progs: [][]Proc{{query([]int{0, 1, 2}, 2, -1)}}, Picks: []int{0, 0}},
		// two truncates compete for the same partitions, one global
		{Kind: "corpus", Pre: 2, Progs: [][]Proc{{trunc(both, nil, nil, true, -1)}, {trunc(both, both, []int{1}, false, -1)}}, Picks: []int{0, 1, 0, 1, 0, 1, 0, 1}},
		// a deletion releases two spinners at once: GetJournal (no create) and a creating Write race for the tag line
		{Kind: "corpus", Pre: 1, Progs: [][]Proc{{trunc([]int{0}, []int{0}, nil, false, -1)}, {gj(0), gj(0)}, {wr(0)}}, Picks: []int{0, 0, 1, 2, 0}},
		{Kind: "corpus", Pre: 1, Progs: [][]Proc{{trunc([]int{0}, []int{0}, nil, false, -1)}, {wr(0)}, {gj(0), gj(0)}}, Picks: []int{0, 0, 1, 2, 0}},
		// a waiting visit meets a partition that is locked, then deleted
		{Kind: "corpus", Pre: 2, Progs: [][]Proc{{trunc(both, both, nil, false, -1)}, {visit(false, false, both, -1)}}, Picks: []int{1, 0, 0, 1, 0}},
	}
}

func exhaustivePairs() [][][]Proc {
	return [][][]Proc{
		{{trunc(both, both, nil, false, -1)}, {wr(0), wr(1)}},
		{{trunc(both, []int{0}, []int{0}, true, -1)}, {query(both, 50, -1)}},
		{{trunc(both, both, nil, false, -1)}, {visit(false, false, both, -1)}},
		{{trunc(both, both, nil, false, -1)}, {trunc(both, both, nil, true, -1)}},
		{{trunc(both, []int{1}, nil, true, -1)}, {byid(1, true), byid(0, false), gj(1)}},
		{{trunc(both, both, nil, false, -1)}, {visit(false, true, both, 0), wr(0)}},
		{{trunc(both, both, []int{1}, false, -1)}, {visit(true, true, both, 0), gj(0)}},
		{{query(both, 2, -1)}, {query(both, 50, 1), wr(1)}},
		{{trunc(both, nil, nil, true, -1)}, {wr(0), wr(1)}},
		{{trunc(both, both, nil, false, 0)}, {visit(true, false, both, -1), byid(0, true)}},
	}
}

func subset(r *Rng, n int) []int {
	for {
		var l []int
		for t := 0; t < n; t++ {
			if r.Chance(2, 3) {
				l = append(l, t)
			}
		}
		if len(l) > 0 {
			// order of the tag list is irrelevant to the condition; shuffle it anyway
			p := r.Perm(len(l))
			o := make([]int, len(l))
			for i, j := range p {
				o[i] = l[j]
			}
			return o
		}
	}
}

func maybeSubset(r *Rng, n int) []int {
	if r.Chance(1, 4) {
		return nil
	}
	return subset(r, n)
}

func optN(r *Rng, num, den, hi int) int {
	if r.Chance(num, den) {
		return r.Intn(hi)
	}
	return -1
}

func genProc(r *Rng, ntags int) Proc {
	x := r.Intn(100)
	switch {
	case x < 22:
		return Proc{K: "write", Tag: r.Intn(ntags), Create: !r.Chance(1, 4), Abort: -1}
	case x < 34:
		return byid(r.Intn(ntags+2), !r.Chance(1, 4))
	case x < 52:
		return visit(r.Chance(1, 2), r.Chance(1, 2), subset(r, ntags), optN(r, 1, 3, 3))
	case x < 70:
		return query(subset(r, ntags), r.PickInt(1, 2, 3, 50, 50, 50), optN(r, 1, 4, 3))
	default:
		return trunc(subset(r, ntags), maybeSubset(r, ntags), maybeSubset(r, ntags), r.Chance(1, 2), optN(r, 1, 5, 3))
	}
}

func genRandom(r *Rng) Replay {
	ntags := r.PickInt(2, 3, 3)
	na := r.PickInt(2, 3, 3, 4, 4)
	progs := make([][]Proc, na)
	for i := range progs {
		n := r.Range(1, 3)
		for k := 0; k < n; k++ {
			progs[i] = append(progs[i], genProc(r, ntags))
		}
	}
	// at least one deleter most of the time
	if r.Chance(3, 4) {
		progs[0][0] = trunc(subset(r, ntags), subset(r, ntags), maybeSubset(r, ntags), r.Chance(1, 2), -1)
	}
	return Replay{Kind: "random", Pre: r.Range(0, ntags), Progs: progs}
}
