package main

import (
	. "verifharness/common"
)

func wr(t int) Proc         { return Proc{K: "write", Tag: t, Create: true, Abort: -1} }
func gj(t int) Proc         { return Proc{K: "write", Tag: t, Create: false, Abort: -1} }

// rwr: the real partition.Service.Write (stub journal) with outcome o (see Proc.Real)
func rwr(t, o int) Proc { return Proc{K: "write", Tag: t, Create: true, Real: true, Abort: o} }
func byid(p int, l bool) Proc { return Proc{K: "byid", P: p, Lock: l, Abort: -1} }
func visit(skip, norel bool, m []int, abort int) Proc {
	return Proc{K: "visit", Skip: skip, Norel: norel, M: m, Abort: abort}
}
func query(m []int, limit, failat int) Proc { return Proc{K: "query", M: m, Limit: limit, Abort: failat} }
func trunc(m, zero, szpos []int, glob bool, cancel int) Proc {
	return Proc{K: "trunc", M: m, Zero: zero, Szpos: szpos, Glob: glob, Abort: cancel}
}

var both = []int{0, 1}

// corpus: fixed witnesses that always run first
func corpus() []Replay {
	return []Replay{
		// the refutation witness of C14_balanced (props/C14.v): one query whose first journal fails to open
		{Kind: "corpus", Pre: 1, Progs: [][]Proc{{query([]int{0}, 50, 0)}}, Picks: []int{0, 0}},
		// same, second of two journals fails: the first is released, the second leaks
		{Kind: "corpus", Pre: 2, Progs: [][]Proc{{query(both, 50, 1)}}, Picks: []int{0, 0, 0}},
		// truncate deletes an empty partition while a writer arrives: the writer spins, then re-creates
		{Kind: "corpus", Pre: 2, Progs: [][]Proc{{trunc(both, both, nil, false, -1)}, {wr(0), wr(1)}}, Picks: []int{0, 0, 1, 0, 0, 1}},
		// query limit reached: everything released
		{Kind: "corpus", Pre: 3, Progs: [][]Proc{{query([]int{0, 1, 2}, 2, -1)}}, Picks: []int{0, 0}},
		// two truncates compete for the same partitions, one global
		{Kind: "corpus", Pre: 2, Progs: [][]Proc{{trunc(both, nil, nil, true, -1)}, {trunc(both, both, []int{1}, false, -1)}}, Picks: []int{0, 1, 0, 1, 0, 1, 0, 1}},
		// a deletion releases two spinners at once: GetJournal (no create) and a creating Write race for the tag line
		{Kind: "corpus", Pre: 1, Progs: [][]Proc{{trunc([]int{0}, []int{0}, nil, false, -1)}, {gj(0), gj(0)}, {wr(0)}}, Picks: []int{0, 0, 1, 2, 0}},
		{Kind: "corpus", Pre: 1, Progs: [][]Proc{{trunc([]int{0}, []int{0}, nil, false, -1)}, {wr(0)}, {gj(0), gj(0)}}, Picks: []int{0, 0, 1, 2, 0}},
		// a waiting visit meets a partition that is locked, then deleted
		{Kind: "corpus", Pre: 2, Progs: [][]Proc{{trunc(both, both, nil, false, -1)}, {visit(false, false, both, -1)}}, Picks: []int{1, 0, 0, 1, 0}},
		// a waiting visit (Partitions listing) is inside its first callback; the other partition of its
		// snapshot is deleted and a writer re-creates the tag line (new source id); the visit goes on:
		// it must skip the removed descriptor (looked up by SOURCE ID), not wait for it
		{Kind: "corpus", Pre: 2, Progs: [][]Proc{{visit(false, false, both, -1)}, {trunc(both, both, nil, false, -1)}, {wr(0), wr(1)}},
			Script: []Phase{{A: 0, Until: 2, Max: 1}, {A: 1, Until: -1}, {A: 2, Until: -1}, {A: 0, Until: -1}}},
		// the same under GetJournals (waiting, VF_DO_NOT_RELEASE), three tag lines
		{Kind: "corpus", Pre: 3, Progs: [][]Proc{{query(all3, 50, -1)}, {trunc(all3, all3, nil, false, -1)}, {wr(2), wr(1), wr(0)}},
			Script: []Phase{{A: 0, Until: 2, Max: 1}, {A: 1, Until: -1}, {A: 2, Until: -1}, {A: 0, Until: -1}}},
		// the visit is blocked on an exclusively locked partition x (the deleter is inside the size
		// re-check) after another partition y of its snapshot was deleted and re-created; then x is
		// deleted as well and re-created: the visit must return, having skipped both
		{Kind: "corpus", Pre: 3, Progs: [][]Proc{{visit(false, false, all3, -1)}, {trunc(all3, all3, nil, false, -1)}, {wr(0)}, {wr(1)}, {wr(2)}},
			Script: []Phase{{A: 0, Until: 2, Max: 1}, {A: 1, Until: 3}, {A: 1, Until: 3}, {A: 2, Until: -1}, {A: 3, Until: -1}, {A: 4, Until: -1}, {A: 0, Until: -1}, {A: 1, Until: -1}}},
		// the visit spins on the exclusively locked y; the lock holder deletes y and, before the
		// spinners are looked at again, a writer re-creates the tag line; then UnlockExclusively
		{Kind: "corpus", Pre: 2, Progs: [][]Proc{{visit(false, false, both, -1)}, {trunc(both, both, nil, false, -1)}, {wr(0)}, {wr(1)}},
			Script: []Phase{{A: 0, Until: 2, Max: 1}, {A: 1, Until: 3}, {A: 0, Until: -1}, {A: 1, Until: 0, Max: 1, Fuse: true}, {A: 2, Until: 0, Max: 1, Fuse: true}, {A: 3, Until: 0, Max: 1}, {A: 0, Until: -1}}},
	}
}

var all3 = []int{0, 1, 2}

// writeCorpus: partition.Service.Write on every exit, parked while it holds the partition, with a
// deleter (its LockExclusively must fail while the writer is there, and succeed afterwards), with a
// waiting visit, and arriving while the partition is exclusively locked (it spins, then creates anew)
func writeCorpus() []Replay {
	var l []Replay
	for _, o := range []int{-1, 0, 1, 2, 3} {
		l = append(l,
			Replay{Kind: "corpus", Pre: 1, Progs: [][]Proc{{rwr(0, o)}, {trunc([]int{0}, []int{0}, nil, false, -1), trunc([]int{0}, []int{0}, nil, false, -1)}}, Picks: []int{0, 1, 1, 1, 0, 1, 1, 1, 1}},
			Replay{Kind: "corpus", Pre: 1, Progs: [][]Proc{{trunc([]int{0}, []int{0}, nil, false, -1)}, {rwr(0, o)}, {query([]int{0}, 50, -1)}}, Picks: []int{0, 0, 1, 2, 0, 1, 2, 1, 2}})
	}
	l = append(l, Replay{Kind: "corpus", Pre: 0, Progs: [][]Proc{{rwr(0, 0), rwr(0, 2), rwr(0, -1)}, {visit(false, true, []int{0}, -1)}}, Picks: []int{0, 0, 0, 1, 0, 1, 0, 0, 1}})
	return l
}

// openFailCorpus: Journals.GetOrCreate failing in the other users of the index: GetJournal by source id,
// the Partitions listing, the visitor of Truncate, truncateGlobally - alone, and with a second holder
// (a writer parked on the partition / a deleter that must be able to lock it afterwards)
func openFailCorpus() []Replay {
	bi := func(p, o int) Proc { q := byid(p, true); q.Real, q.Abort = true, o; return q }
	pv := func(m []int, o int) Proc { q := visit(false, false, m, o); q.Real = true; return q }
	tf := func(m, zero []int, glob bool, of, gf []int) Proc {
		q := trunc(m, zero, nil, glob, -1)
		q.Ofail, q.Gfail = of, gf
		return q
	}
	del := trunc(both, both, nil, false, -1)
	return []Replay{
		{Kind: "corpus", Pre: 2, Progs: [][]Proc{{bi(0, 0), bi(1, -1), bi(5, 0)}, {del}}, Picks: []int{0, 0, 0, 0, 0, 0, 1, 1, 1, 1, 1, 1}},
		{Kind: "corpus", Pre: 2, Progs: [][]Proc{{bi(0, 0)}, {rwr(0, -1)}, {del}}, Picks: []int{1, 0, 2, 2, 2, 0, 1, 2, 2, 2}},
		{Kind: "corpus", Pre: 2, Progs: [][]Proc{{pv(both, 0), pv(both, 1), pv(both, -1)}, {del}}, Picks: []int{0, 0, 0, 0, 0, 0, 0, 0, 0, 1, 1, 1, 1, 1, 1}},
		{Kind: "corpus", Pre: 2, Progs: [][]Proc{{pv(both, 1)}, {del}}, Picks: []int{0, 1, 1, 0, 1, 1, 1, 0, 1}},
		{Kind: "corpus", Pre: 2, Progs: [][]Proc{{tf(both, nil, true, nil, both)}, {del}}, Picks: []int{0, 0, 0, 0, 0, 0, 0, 0, 1, 1, 1, 1, 1, 1}},
		{Kind: "corpus", Pre: 2, Progs: [][]Proc{{tf(both, nil, true, nil, []int{1})}, {rwr(1, -1)}, {del}}, Picks: []int{1, 0, 0, 0, 0, 0, 0, 0, 1, 2, 2, 2, 2, 2}},
		{Kind: "corpus", Pre: 2, Progs: [][]Proc{{tf(both, both, true, []int{0}, nil)}, {del}}, Picks: []int{0, 0, 0, 0, 0, 0, 0, 0, 1, 1, 1, 1, 1, 1}},
		{Kind: "corpus", Pre: 3, Progs: [][]Proc{{tf(all3, []int{0}, true, []int{1}, []int{2})}, {query(all3, 50, -1)}, {del}}, Picks: []int{1, 0, 0, 0, 1, 0, 0, 0, 0, 0, 2, 2, 2, 2}},
	}
}

// limitCorpus: GetJournals with a limit of exactly / one below / one above the number of partitions the
// condition selects (a cursor uses 50): exactly `limit` is served, `limit`+1 is refused with the
// last partition already in the result, and everything is released
func limitCorpus() []Replay {
	return []Replay{
		{Kind: "corpus", Pre: 2, Progs: [][]Proc{{query(both, 2, -1)}}, Picks: []int{0, 0, 0, 0}},
		{Kind: "corpus", Pre: 3, Progs: [][]Proc{{query(all3, 3, -1), query(all3, 2, -1), query(all3, 4, -1)}}, Picks: []int{0, 0, 0, 0, 0, 0, 0, 0, 0, 0, 0, 0}},
		{Kind: "corpus", Pre: 1, Progs: [][]Proc{{query([]int{0}, 1, -1)}}, Picks: []int{0, 0, 0}},
		// ... with a deleter around: whatever was acquired by the refused visit is released
		{Kind: "corpus", Pre: 3, Progs: [][]Proc{{query(all3, 2, -1)}, {trunc(all3, all3, nil, false, -1)}}, Picks: []int{0, 1, 0, 1, 0, 1, 0, 1}},
	}
}

// genRecreate: the family "a partition of a waiting visit's snapshot is deleted and its tag line
// re-created (new source id) while the visit is under way".  Actor 0 is the waiting visit (Visit
// without VF_SKIP_IF_LOCKED or GetJournals), actor 1 the deleter (Truncate), then the writers.
// The schedule is scripted up to the point where the visit goes on, then random, then drained.
//   parked : the visit stays inside its first callback while everything lockable is deleted and re-created
//   blocked: the deleter stops inside the size re-check of a second partition (exclusive): the visit
//            skips / waits, the writer of that tag line spins; then the deleter goes on
//   fused  : the visit spins on the locked partition; Delete + the writers' GetOrCreateJournal run
//            before the spinners are re-validated (one group of observations)
func genRecreate(r *Rng) Replay {
	ntags := r.PickInt(2, 3, 3)
	all := make([]int, ntags)
	for t := range all {
		all[t] = t
	}
	abort := -1
	if r.Chance(1, 4) {
		abort = r.Range(1, ntags-1)
	}
	var v Proc
	if r.Chance(1, 2) {
		v = visit(false, r.Chance(1, 2), all, abort)
	} else {
		v = query(all, r.PickInt(50, 50, 2, 3), abort)
	}
	zero := all
	if r.Chance(1, 4) {
		zero = subset(r, ntags)
	}
	var szpos []int
	if r.Chance(1, 4) {
		szpos = subset(r, ntags)
	}
	variant := r.PickStr("parked", "parked", "blocked", "blocked", "fused")
	d := trunc(all, zero, szpos, variant != "fused" && r.Chance(1, 3), -1)
	progs := [][]Proc{{v}, {d}}
	var writers []int
	if variant != "parked" || r.Chance(2, 3) {
		for _, t := range r.Perm(ntags) {
			w := []Proc{wr(t)}
			if variant != "fused" && r.Chance(1, 4) {
				w = append(w, gj(t))
			}
			writers = append(writers, len(progs))
			progs = append(progs, w)
		}
	} else {
		var w []Proc
		for _, t := range r.Perm(ntags) {
			w = append(w, wr(t))
		}
		writers = append(writers, len(progs))
		progs = append(progs, w)
	}
	if variant != "fused" && r.Chance(1, 3) {
		progs = append(progs, []Proc{genProc(r, ntags)})
	}
	sc := []Phase{{A: 0, Until: 2, Max: 1}}
	switch variant {
	case "parked":
		sc = append(sc, Phase{A: 1, Until: -1})
		for _, w := range writers {
			sc = append(sc, Phase{A: w, Until: -1})
		}
		sc = append(sc, Phase{A: 0, Until: -1})
	case "blocked":
		sc = append(sc, Phase{A: 1, Until: 3}, Phase{A: 1, Until: 3})
		for _, w := range writers {
			sc = append(sc, Phase{A: w, Until: -1})
		}
		sc = append(sc, Phase{A: 0, Until: -1}, Phase{A: 1, Until: -1})
	case "fused":
		sc = append(sc, Phase{A: 1, Until: 3}, Phase{A: 0, Until: -1}, Phase{A: 1, Until: 0, Max: 1, Fuse: true})
		for k, w := range writers {
			sc = append(sc, Phase{A: w, Until: 0, Max: 1, Fuse: k < len(writers)-1})
		}
		sc = append(sc, Phase{A: 0, Until: -1}, Phase{A: 1, Until: -1})
	}
	return Replay{Kind: "recreate-" + variant, Pre: ntags, Progs: progs, Script: sc}
}

func exhaustivePairs() [][][]Proc {
	return [][][]Proc{
		{{trunc(both, both, nil, false, -1)}, {wr(0), wr(1)}},
		{{trunc(both, []int{0}, []int{0}, true, -1)}, {query(both, 50, -1)}},
		{{trunc(both, both, nil, false, -1)}, {visit(false, false, both, -1)}},
		{{trunc(both, both, nil, false, -1)}, {trunc(both, both, nil, true, -1)}},
		{{trunc(both, []int{1}, nil, true, -1)}, {byid(1, true), byid(0, false), gj(1)}},
		{{trunc(both, both, nil, false, -1)}, {visit(false, true, both, 0), wr(0)}},
		{{trunc(both, both, []int{1}, false, -1)}, {visit(true, true, both, 0), gj(0)}},
		{{query(both, 2, -1)}, {query(both, 50, 1), wr(1)}},
		{{trunc(both, nil, nil, true, -1)}, {wr(0), wr(1)}},
		{{trunc(both, both, nil, false, 0)}, {visit(true, false, both, -1), byid(0, true)}},
		{{trunc(both, both, nil, false, -1)}, {rwr(0, 0), rwr(1, 2)}},
		{{query(both, 2, -1)}, {rwr(1, 3), rwr(0, 1)}},
	}
}

func subset(r *Rng, n int) []int {
	for {
		var l []int
		for t := 0; t < n; t++ {
			if r.Chance(2, 3) {
				l = append(l, t)
			}
		}
		if len(l) > 0 {
			// order of the tag list is irrelevant to the condition; shuffle it anyway
			p := r.Perm(len(l))
			o := make([]int, len(l))
			for i, j := range p {
				o[i] = l[j]
			}
			return o
		}
	}
}

func maybeSubset(r *Rng, n int) []int {
	if r.Chance(1, 4) {
		return nil
	}
	return subset(r, n)
}

func optN(r *Rng, num, den, hi int) int {
	if r.Chance(num, den) {
		return r.Intn(hi)
	}
	return -1
}

func genProc(r *Rng, ntags int) Proc {
	x := r.Intn(100)
	switch {
	case x < 22:
		p := Proc{K: "write", Tag: r.Intn(ntags), Create: !r.Chance(1, 4), Abort: -1}
		if p.Create && r.Chance(1, 2) {
			p.Real, p.Abort = true, r.PickInt(-1, -1, 0, 1, 2, 3)
		}
		return p
	case x < 34:
		p := byid(r.Intn(ntags+2), !r.Chance(1, 4))
		if p.Lock && r.Chance(1, 2) {
			p.Real, p.Abort = true, r.PickInt(-1, -1, 0)
		}
		return p
	case x < 52:
		p := visit(r.Chance(1, 2), r.Chance(1, 2), subset(r, ntags), optN(r, 1, 3, 3))
		if !p.Skip && !p.Norel && r.Chance(1, 2) {
			p.Real = true
		}
		return p
	case x < 70:
		return query(subset(r, ntags), r.PickInt(1, 2, 3, 50, 50, 50), optN(r, 1, 4, 3))
	default:
		p := trunc(subset(r, ntags), maybeSubset(r, ntags), maybeSubset(r, ntags), r.Chance(1, 2), optN(r, 1, 5, 3))
		if r.Chance(1, 4) {
			p.Ofail = maybeSubset(r, ntags)
			p.Gfail = maybeSubset(r, ntags)
		}
		return p
	}
}

func genRandom(r *Rng) Replay {
	ntags := r.PickInt(2, 3, 3)
	na := r.PickInt(2, 3, 3, 4, 4)
	progs := make([][]Proc, na)
	for i := range progs {
		n := r.Range(1, 3)
		for k := 0; k < n; k++ {
			progs[i] = append(progs[i], genProc(r, ntags))
		}
	}
	// at least one deleter most of the time
	if r.Chance(3, 4) {
		progs[0][0] = trunc(subset(r, ntags), subset(r, ntags), maybeSubset(r, ntags), r.Chance(1, 2), -1)
	}
	return Replay{Kind: "random", Pre: r.Range(0, ntags), Progs: progs}
}
