package main

import (
	"fmt"
	"strings"
	"time"

	. "verifharness/common"
)

// ---------------------------------------------------------------- events

// Ev is a log event as the property sees it: fields are (name, value) pairs in order, names may repeat.
type Ev struct {
	Ts     int64       `json:"ts"`
	Msg    string      `json:"msg"`
	Fields [][2]string `json:"f,omitempty"`
}

// (names that are prefixes of each other: a / ab, nam / name; the same name in another case: name / Name)
var fieldNames = []string{"a", "b", "name", "Name", "x.y", "k-1", "lvl", "n_2", "ab", "nam"}
var words = []string{"error", "Error", "ERR", "warn", "db", "timeout", "user=7", "abc", "a/b", "x*y", "[q]", "", "z", "Zeta", "日本", "a b", "10", "9", "-5"}

func genWord(r *Rng) string { return words[r.Intn(len(words))] }

func genMsg(r *Rng) string {
	n := r.PickInt(0, 1, 1, 2, 3, 4)
	ws := make([]string, n)
	for i := range ws {
		ws[i] = genWord(r)
	}
	return strings.Join(ws, r.PickStr(" ", " ", "", "-", "/"))
}

func genEvent(r *Rng, tsPool []int64) Ev {
	e := Ev{Ts: tsPool[r.Intn(len(tsPool))] + int64(r.PickInt(-1, 0, 0, 1)), Msg: genMsg(r)}
	nf := r.PickInt(0, 1, 2, 2, 3, 4)
	for i := 0; i < nf; i++ {
		name := fieldNames[r.Intn(len(fieldNames))]
		if i > 0 && r.Chance(1, 5) {
			name = e.Fields[r.Intn(i)][0] // duplicate field name
		}
		val := r.PickStr(genWord(r), genMsg(r), "")
		if r.Chance(1, 3) {
			// names and values share one pool: a VALUE that reads like a field NAME (also as the very last item)
			val = fieldNames[r.Intn(len(fieldNames))]
		}
		e.Fields = append(e.Fields, [2]string{name, val})
	}
	return e
}

// a field name that occurs as a VALUE in one of the events (Fields.Value must not take it for the name)
func (g *gen) valueThatIsAName() (string, bool) {
	var c []string
	for _, e := range g.evs {
		for _, kv := range e.Fields {
			for _, n := range fieldNames {
				if kv[1] == n {
					c = append(c, n)
				}
			}
		}
	}
	if len(c) == 0 {
		return "", false
	}
	return c[g.r.Intn(len(c))], true
}

func (e Ev) slice() []string {
	var s []string
	for _, kv := range e.Fields {
		s = append(s, kv[0], kv[1])
	}
	return s
}

// ---------------------------------------------------------------- expressions

type gen struct {
	r       *Rng
	tsPool  []int64
	kinds   map[string]bool // connective kinds used: "and","or","not","paren","func"
	edge    bool            // allow constructs that are expected to be rejected
	nolike  bool
	maxNest int
	evs     []Ev // the events the expression will be applied to: values are drawn from them
}

// a (name, value) pair that occurs in one of the events
func (g *gen) someField() (string, string, bool) {
	if len(g.evs) == 0 {
		return "", "", false
	}
	e := g.evs[g.r.Intn(len(g.evs))]
	if len(e.Fields) == 0 {
		return "", "", false
	}
	kv := e.Fields[g.r.Intn(len(e.Fields))]
	return kv[0], kv[1], true
}

func (g *gen) kw(s string) string {
	switch g.r.Intn(6) {
	case 0:
		return strings.ToLower(s)
	case 1:
		return strings.Title(strings.ToLower(s))
	case 2:
		// random per-letter case
		b := []byte(s)
		for i := range b {
			if g.r.Chance(1, 2) {
				b[i] = strings.ToLower(string(b[i]))[0]
			}
		}
		return string(b)
	}
	return s
}

func (g *gen) sp() string {
	return g.r.PickStr(" ", " ", " ", "  ", "\t", "\n", " \n ")
}

// optional blank (where the lexer does not need one)
func (g *gen) osp() string {
	return g.r.PickStr("", "", " ", " ", "  ")
}

func (g *gen) quote(v string) string {
	switch g.r.Intn(8) {
	case 0:
		if !strings.ContainsAny(v, "'\\\n") {
			return "'" + v + "'"
		}
	case 1:
		// escape-heavy double quoted form
		var sb strings.Builder
		sb.WriteByte('"')
		for _, c := range []byte(v) {
			switch {
			case c == '"' || c == '\\':
				sb.WriteByte('\\')
				sb.WriteByte(c)
			case c < 0x80 && g.r.Chance(1, 3):
				fmt.Fprintf(&sb, "\\x%02x", c)
			case c < 0x80 && g.r.Chance(1, 4):
				fmt.Fprintf(&sb, "\\%03o", c)
			case c < 0x80 && g.r.Chance(1, 4):
				fmt.Fprintf(&sb, "\\u%04x", c)
			default:
				sb.WriteByte(c)
			}
		}
		sb.WriteByte('"')
		return sb.String()
	}
	var sb strings.Builder
	sb.WriteByte('"')
	for _, c := range []byte(v) {
		switch c {
		case '"', '\\':
			sb.WriteByte('\\')
			sb.WriteByte(c)
		case '\n':
			sb.WriteString("\\n")
		case '\t':
			sb.WriteString("\\t")
		default:
			sb.WriteByte(c)
		}
	}
	sb.WriteByte('"')
	return sb.String()
}

func bareOK(v string) bool {
	if v == "" {
		return false
	}
	for i, c := range []byte(v) {
		al := c >= 'a' && c <= 'z' || c >= 'A' && c <= 'Z' || c == '_'
		if i == 0 && !al {
			return false
		}
		if !(al || c >= '0' && c <= '9' || c == '.' || c == '/' || c == '-' || c == ':') {
			return false
		}
	}
	switch strings.ToUpper(v) {
	case "SELECT", "DESCRIBE", "TRUNCATE", "DELETE", "DRYRUN", "BEFORE", "MAXSIZE", "MINSIZE", "MAXDBSIZE", "FROM", "RANGE", "WHERE", "PARTITIONS", "PARTITION", "PIPES", "SHOW", "CREATE", "PIPE", "POSITION", "LIMIT", "OFFSET", "AND", "OR", "LIKE", "CONTAINS", "PREFIX", "SUFFIX", "NOT":
		return false
	}
	return true
}

func isNum(v string) bool {
	if v == "" {
		return false
	}
	for i, c := range []byte(v) {
		if c == '-' && i == 0 && len(v) > 1 {
			continue
		}
		if c < '0' || c > '9' {
			return false
		}
	}
	return true
}

func (g *gen) value(v string) string {
	if (bareOK(v) || isNum(v)) && g.r.Chance(1, 3) {
		return v
	}
	return g.quote(v)
}

var likePats = []string{"*", "err*", "*r", "?rror", "[a-z]*", "[^a]*", "*b*", "a?b", "*/*", "\\*", "x\\*y", "[E-e]rr*", "*[0-9]", "abc", ""}
var badPats = []string{"[a", "a[", "[", "[]", "a\\", "[a-]", "[-a]", "*[", "[^", "[a-z"}

func (g *gen) strValue(op string) string {
	if strings.ToUpper(op) == "LIKE" {
		if g.edge && g.r.Chance(1, 6) {
			return g.r.PickStr(badPats...)
		}
		if g.r.Chance(1, 4) {
			return genWord(g.r) + "*"
		}
		return g.r.PickStr(likePats...)
	}
	w := genWord(g.r)
	switch g.r.Intn(5) {
	case 0:
		if len(w) > 1 {
			return w[:1+g.r.Intn(len(w)-1)]
		}
	case 1:
		return strings.ToUpper(w)
	case 2:
		return strings.ToLower(w)
	}
	return w
}

// likeable: a value a LIKE pattern can be cut from as it stands (ASCII, no pattern metacharacter, has a letter)
func likeable(v string) bool {
	letter := false
	for _, c := range []byte(v) {
		if c >= 0x80 || c < 0x20 || c == '*' || c == '?' || c == '[' || c == ']' || c == '\\' {
			return false
		}
		if c >= 'a' && c <= 'z' || c >= 'A' && c <= 'Z' {
			letter = true
		}
	}
	return letter
}

func (g *gen) likeOnFunc(pre, name, val string) string {
	r := g.r
	n := r.PickInt(1, 1, 2, 3)
	if n > g.maxNest {
		n = g.maxNest
	}
	s := pre + name
	upper := false
	for i := 0; i < n; i++ {
		upper = r.Chance(1, 2)
		fn := r.PickStr("LOWER", "lower", "LoWeR")
		if upper {
			fn = r.PickStr("UPPER", "upper", "Upper")
		}
		s = fn + g.osp() + "(" + g.osp() + s + g.osp() + ")"
	}
	g.kinds["func"] = true
	pat := strings.ToLower(val)
	if upper {
		pat = strings.ToUpper(val)
	}
	if r.Chance(1, 8) {
		pat = val // as stored: matches only if the function leaves the value alone
	}
	switch r.Intn(5) {
	case 0:
		pat = pat[:1+r.Intn(len(pat))] + "*"
	case 1:
		pat = "*" + pat[r.Intn(len(pat)):]
	case 2:
		i := r.Intn(len(pat))
		pat = pat[:i] + "?" + pat[i+1:]
	case 3:
		i := r.Intn(len(pat))
		if c := pat[i]; c >= 'a' && c <= 'z' || c >= 'A' && c <= 'Z' || c >= '0' && c <= '9' {
			pat = pat[:i] + "[" + pat[i:i+1] + "]" + pat[i+1:]
		}
	}
	return s + g.sp() + g.kw("LIKE") + g.sp() + g.value(pat)
}

var strOps = []string{"CONTAINS", "PREFIX", "SUFFIX", "LIKE"}
var symOps = []string{"=", "!=", "<", "<=", ">", ">="}

func (g *gen) wrapFuncs(operand string) string {
	n := 0
	if g.r.Chance(1, 3) {
		n = g.r.PickInt(1, 1, 2, 3)
		if n > g.maxNest {
			n = g.maxNest
		}
	}
	s := operand
	for i := 0; i < n; i++ {
		fn := g.r.PickStr("UPPER", "LOWER", "upper", "lower", "Upper", "LoWeR")
		if g.edge && g.r.Chance(1, 12) {
			fn = g.r.PickStr("TRIM", "len", "from")
		}
		g.kinds["func"] = true
		if g.edge && g.r.Chance(1, 15) {
			s = fn + g.osp() + "(" + g.osp() + s + g.osp() + "," + g.osp() + "msg" + g.osp() + ")"
		} else {
			s = fn + g.osp() + "(" + g.osp() + s + g.osp() + ")"
		}
	}
	return s
}

func (g *gen) cond() string {
	r := g.r
	k := r.Intn(100)
	switch {
	case k < 18: // ts
		operand := r.PickStr("ts", "ts", "TS", "Ts")
		if g.edge && r.Chance(1, 10) {
			operand = g.wrapFuncs(operand)
		}
		op := r.PickStr("<", ">", "<=", ">=")
		if g.edge && r.Chance(1, 10) {
			op = r.PickStr("=", "!=", g.kw("CONTAINS"))
		}
		t := g.tsPool[r.Intn(len(g.tsPool))] + int64(r.PickInt(-1, 0, 0, 1))
		v := fmt.Sprintf("%d", t)
		if r.Chance(1, 3) {
			v = g.quote(v)
		} else if r.Chance(1, 5) {
			v = g.quote(r.PickStr("2019-03-11 12:34:55", "2019-03-11", "11/03/2019 12:34:55", "2019/03/11 12:34", " 1552307695000000000 ", "yesterday", "", "2019-03-11T12:34:55Z"))
		}
		return operand + g.osp() + op + g.osp() + v
	case k < 45: // msg
		operand := g.wrapFuncs(r.PickStr("msg", "msg", "MSG", "Msg"))
		op := r.PickStr(strOps...)
		if g.nolike && op == "LIKE" {
			op = "CONTAINS"
		}
		if g.edge && r.Chance(1, 10) {
			op = r.PickStr(symOps...)
		}
		v := g.strValue(op)
		if op == "=" || len(op) <= 2 {
			return operand + g.osp() + op + g.osp() + g.value(v)
		}
		return operand + g.sp() + g.kw(op) + g.sp() + g.value(v)
	case k < 92: // fields
		name := fieldNames[r.Intn(len(fieldNames))]
		if r.Chance(1, 10) {
			name = "nosuch"
		}
		exact, haveExact := "", false
		if n, v, ok := g.someField(); ok && r.Chance(2, 3) {
			name, exact, haveExact = n, v, r.Chance(2, 3)
		}
		pre := r.PickStr("fields:", "fields:", "Fields:", "FIELDS:")
		if fn, fv, ok := g.someField(); ok && !g.nolike && g.maxNest > 0 && likeable(fv) && r.Chance(1, 6) {
			// UPPER/LOWER nest with LIKE, the pattern made from a value the field really has, in the case the
			// outermost function produces: the answer depends on the function being applied on this operator path too
			return g.likeOnFunc(pre, fn, fv)
		}
		if n, ok := g.valueThatIsAName(); ok && r.Chance(1, 4) {
			// the queried name occurs as a value: the answer is the field of that name (or ""), never what follows the value
			op := r.PickStr("=", "!=", "=", "<=", ">")
			v := r.PickStr("", genWord(r), fieldNames[r.Intn(len(fieldNames))])
			if _, fv, ok := g.someField(); ok && r.Chance(1, 2) {
				v = fv
			}
			return pre + n + g.osp() + op + g.osp() + g.value(v)
		}
		operand := g.wrapFuncs(pre + name)
		if haveExact {
			// compare with a value that really occurs (boundary of <, <=, >, >=, =, !=)
			v := exact
			if strings.Contains(operand, "(") {
				v = r.PickStr(strings.ToUpper(v), strings.ToLower(v), v)
			}
			op := r.PickStr(symOps...)
			return operand + g.osp() + op + g.osp() + g.value(v)
		}
		if r.Chance(1, 2) {
			op := r.PickStr(strOps...)
			if g.nolike && op == "LIKE" {
				op = "PREFIX"
			}
			return operand + g.sp() + g.kw(op) + g.sp() + g.value(g.strValue(op))
		}
		op := r.PickStr(symOps...)
		return operand + g.osp() + op + g.osp() + g.value(g.strValue(op))
	default: // operands the builder does not know (keywords are accepted by the parser as operands)
		if !g.edge {
			return "msg" + g.sp() + g.kw("CONTAINS") + g.sp() + g.value(genWord(r))
		}
		operand := r.PickStr("limit", "from", "foo", "fields:", "field:a", "select", "a", "message", "offset", "or1")
		return operand + g.osp() + r.PickStr("=", "<", ">=") + g.osp() + g.value(genWord(r))
	}
}

func (g *gen) xc(depth int) string {
	s := ""
	if g.r.Chance(1, 4) {
		s = g.kw("NOT") + g.sp()
		g.kinds["not"] = true
	}
	if depth > 0 && g.r.Chance(2, 5) {
		g.kinds["paren"] = true
		return s + "(" + g.osp() + g.expr(depth-1) + g.osp() + ")"
	}
	return s + g.cond()
}

func (g *gen) orc(depth int) string {
	n := g.r.PickInt(1, 1, 1, 2, 2, 3)
	parts := make([]string, n)
	for i := range parts {
		parts[i] = g.xc(depth)
	}
	if n > 1 {
		g.kinds["and"] = true
	}
	s := parts[0]
	for _, p := range parts[1:] {
		s += g.sp() + g.kw("AND") + g.sp() + p
	}
	return s
}

func (g *gen) expr(depth int) string {
	n := g.r.PickInt(1, 1, 1, 2, 2, 3)
	parts := make([]string, n)
	for i := range parts {
		parts[i] = g.orc(depth)
	}
	if n > 1 {
		g.kinds["or"] = true
	}
	s := parts[0]
	for _, p := range parts[1:] {
		s += g.sp() + g.kw("OR") + g.sp() + p
	}
	return s
}

// mutate damages a text: token-level edits and raw bytes (the malformed stream)
func mutate(r *Rng, s string) string {
	n := r.PickInt(1, 1, 2, 3)
	b := []byte(s)
	junk := []string{"(", ")", "\"", "'", " NOT ", " AND ", " OR ", "<>", "!", "#", "{", "}", "{a=b}", ",", "\\", "\x00", "\xff", "\xe2\x84\xaa", "\xc5\xbf", " limit ", "=", "5", " 5kb ", "-", ".", "[", "]", ":", "\n"}
	for i := 0; i < n; i++ {
		switch r.Intn(4) {
		case 0: // delete a span
			if len(b) > 0 {
				p := r.Intn(len(b))
				q := p + r.PickInt(1, 1, 2, 5)
				if q > len(b) {
					q = len(b)
				}
				b = append(b[:p:p], b[q:]...)
			}
		case 1: // insert junk
			p := r.Intn(len(b) + 1)
			j := junk[r.Intn(len(junk))]
			b = append(b[:p:p], append([]byte(j), b[p:]...)...)
		case 2: // replace a byte
			if len(b) > 0 {
				b[r.Intn(len(b))] = r.PickStr(junk...)[0]
			}
		case 3: // truncate
			if len(b) > 0 {
				b = b[:r.Intn(len(b))]
			}
		}
	}
	return string(b)
}

// funcOpCases: every operator under no function, UPPER, LOWER and a nest of both, for msg and a field, on
// mixed-case data, with values whose match depends on the case mapping (and their opposite-case twins)
func funcOpCases() []Replay {
	evs := []Ev{
		{Ts: 1, Msg: "Web-01 Error", Fields: [][2]string{{"host", "Web-01"}, {"lvl", "Error"}}},
		{Ts: 2, Msg: "WEB-03 error", Fields: [][2]string{{"host", "WEB-03"}}},
		{Ts: 3, Msg: "web-02 ERROR", Fields: [][2]string{{"lvl", "x"}, {"host", "web-02"}}},
		{Ts: 4, Msg: "db-1", Fields: [][2]string{{"host", "db-1"}, {"host", "web-09"}}},
		{Ts: 5, Msg: "", Fields: nil},
	}
	type fn struct {
		wrap string
		conv func(string) string
	}
	id := func(s string) string { return s }
	fns := []fn{{"%s", id}, {"UPPER(%s)", strings.ToUpper}, {"lower(%s)", strings.ToLower},
		{"Upper(LOWER(%s))", strings.ToUpper}, {"lower(upper(%s))", strings.ToLower}}
	vals := map[string][]string{
		"LIKE": {"Web-*", "*eb-0?", "[W-w]?b-*", "*"}, "CONTAINS": {"eb-0", "Error", "b-"}, "PREFIX": {"Web", "WEB-0", "d"},
		"SUFFIX": {"-01", "Error", "B-03"}, "=": {"Web-01", "web-02", ""}, "!=": {"Web-01", "WEB-03"},
		"<": {"Web-01", "web"}, "<=": {"Web-01", "WEB-03"}, ">": {"Web-01", "db"}, ">=": {"Web-01", "web-02"},
	}
	var out []Replay
	for _, operand := range []string{"msg", "fields:host", "fields:lvl"} {
		for _, f := range fns {
			for _, op := range append(append([]string{}, strOps...), symOps...) {
				for _, v := range vals[op] {
					for _, vv := range []string{f.conv(v), v, strings.ToUpper(v), strings.ToLower(v)} {
						text := fmt.Sprintf(f.wrap, operand) + " " + op + " " + fmt.Sprintf("%q", vv)
						out = append(out, Replay{Kind: "where", Stream: "funcops", Text: text, Events: evs})
					}
				}
			}
		}
	}
	return out
}

// collisionCases: a value that equals the queried field name, before the real field, instead of it, and as the last item
func collisionCases() []Replay {
	evs := []Ev{
		{Ts: 1, Msg: "a", Fields: [][2]string{{"sortby", "level"}, {"level", "error"}}},
		{Ts: 2, Msg: "b", Fields: [][2]string{{"sortby", "level"}, {"host", "h4"}}},
		{Ts: 3, Msg: "c", Fields: [][2]string{{"host", "h4"}, {"sortby", "level"}}},
		{Ts: 4, Msg: "d", Fields: [][2]string{{"level", "level"}, {"x", "level"}}},
		{Ts: 5, Msg: "e", Fields: [][2]string{{"x", "host"}, {"host", ""}, {"y", "host"}}},
	}
	var out []Replay
	for _, text := range []string{`fields:level = error`, `fields:level = ""`, `fields:level = "host"`, `fields:level != "h4"`,
		`fields:host = "h4"`, `fields:host = ""`, `fields:level = level`, `NOT fields:level = "" OR fields:host > ""`,
		`upper(fields:level) = "ERROR" or fields:sortby = level`} {
		out = append(out, Replay{Kind: "where", Stream: "collide", Text: text, Events: evs})
	}
	return out
}

// rejectCases: every kind of condition the builder must refuse (it passes the grammar) at EVERY position of OR chains,
// AND chains, negated and nested groups, next to conditions that are fine -- an error from any operand must reach the
// caller, whatever stands before or after it (a builder that looks at the error of the last operand only, or only
// when the operand stands alone, accepts the expression with a nil function inside the closure). The good
// conditions are true on some of the events and false on others, so that a closure which was accepted is really
// called at every position (|| and && short-circuit).
var rejectBad = []struct{ what, text string }{
	{"unknown-operand", `foo = 1`},
	{"unknown-operand-keyword", `limit = 5`},
	{"empty-field-name", `fields: = 1`},
	{"ts-bad-literal", `ts < "yesterday"`},
	{"ts-bad-operator", `ts = 1552307695000000000`},
	{"like-bad-pattern-msg", `msg like "["`},
	{"like-bad-pattern-field", `lower(fields:a) LIKE "[a"`},
	{"msg-bad-operator", `msg = "a"`},
	{"bad-function", `trim(msg) contains "a"`},
	{"bad-arity", `upper(fields:a, msg) = "B"`},
}

var rejectShapes = []string{
	"B",
	"B OR G1", "G1 OR B", "G2 OR B", "B OR G1 OR G2", "G1 OR B OR G2", "G1 OR G2 OR B", "G2 OR G3 OR B",
	"B AND G1", "G1 AND B", "G2 AND B", "B AND G1 AND G2", "G1 AND B AND G2", "G1 AND G3 AND B",
	"NOT B", "NOT B OR G1", "G2 OR NOT B", "G1 AND NOT B", "NOT B AND G1",
	"(B)", "((B)) OR G1", "G2 OR ((B))", "(B OR G1) AND G3", "(G2 OR B) AND G3", "G1 AND (G2 OR B)", "G1 AND (B OR G2)",
	"G2 OR (B AND G1)", "G2 OR (G1 AND B)", "NOT (B OR G1)", "NOT (G2 OR B)", "NOT (G1 AND B) OR G2", "G2 OR NOT (G1 AND B)",
	"G2 OR NOT (G2 OR B)", "B AND G1 OR G2", "G1 AND B OR G2", "G2 OR G1 AND B", "G2 OR B AND G1", "G3 AND (G1 OR (G2 OR (B)))",
	"NOT (NOT (B)) OR G1", "G2 OR NOT (NOT (G2 OR NOT B))",
}

var rejectEvents = []Ev{
	{Ts: 1552307695000000000, Msg: "hello a", Fields: [][2]string{{"a", "b"}}},
	{Ts: 1552307695000000001, Msg: "zzz", Fields: [][2]string{{"a", "c"}}},
	{Ts: 5, Msg: "", Fields: nil},
	{Ts: 7, Msg: "a", Fields: [][2]string{{"x", "y"}, {"a", "b"}}},
}

func rejectCases() (where, query []Replay) {
	good := strings.NewReplacer("G1", `msg contains "a"`, "G2", `fields:a = b`, "G3", `ts > 0`)
	for bi, b := range rejectBad {
		for si, sh := range rejectShapes {
			text := good.Replace(strings.Replace(sh, "B", b.text, 1))
			where = append(where, Replay{Kind: "where", Stream: "reject", Text: text, Events: rejectEvents})
			// a sample of them end to end (the server must answer with an error, not with events and not with a panic)
			if (bi+si)%9 == 0 {
				query = append(query, Replay{Kind: "query", Text: text, Events: rejectEvents})
			}
		}
	}
	// controls: the same shapes with a condition that is fine in place of B
	for _, sh := range rejectShapes {
		where = append(where, Replay{Kind: "where", Stream: "reject", Text: good.Replace(strings.Replace(sh, "B", `msg prefix "h"`, 1)), Events: rejectEvents})
	}
	return where, query
}

// relCases: ts conditions whose literal depends on the clock. Every literal form of parseLqlDateTime that is not an
// absolute date: relative -<number>(m|h|d) (case-insensitive, blanks trimmed, fractions) and the constants
// minute / hour / day / week. The events are dated relative to the instant the literal denotes when the case runs
// (RelEv.Off, at least a minute away), so the expected answers do not depend on the moment of the run.
var relLiterals = []string{"-90m", "-1.5h", "-2d", "-0.5D", " -3H ", "-1m", "-0.25h", "minute", "hour", "DAY", "week", " Hour "}

func relCases() []Replay {
	const min = int64(60 * 1000000000)
	offs := []int64{-48 * 60 * min, -2 * 60 * min, -5 * min, -min, min, 5 * min, 2 * 60 * min}
	evsFor := func(lit int) []RelEv {
		var evs []RelEv
		for k, o := range offs {
			evs = append(evs, RelEv{Lit: lit, Off: o, Msg: fmt.Sprintf("m%d %s", k, []string{"alpha", "beta"}[k%2])})
		}
		return evs
	}
	var out []Replay
	ops := []string{"<", ">", "<=", ">="}
	for i, lit := range relLiterals {
		for j, op := range ops {
			text := fmt.Sprintf("ts %s %q", op, lit)
			switch (i + j) % 4 {
			case 1:
				text = fmt.Sprintf("NOT ts %s %q AND msg contains \"alpha\"", op, lit)
			case 2:
				text = fmt.Sprintf("msg contains \"beta\" OR TS %s '%s'", op, lit)
			}
			out = append(out, Replay{Kind: "where", Stream: "reltime", Text: text, RelLits: []string{lit}, RelEvs: evsFor(0)})
		}
	}
	// a window between two clock-dependent instants
	w := append(evsFor(0), evsFor(1)...)
	out = append(out, Replay{Kind: "where", Stream: "reltime", Text: `ts > "-2d" AND ts < "-90m"`, RelLits: []string{"-2d", "-90m"}, RelEvs: w})
	out = append(out, Replay{Kind: "where", Stream: "reltime", Text: `ts >= "week" AND NOT ts > "hour"`, RelLits: []string{"week", "hour"}, RelEvs: w})
	// a relative literal the parser of the literal must refuse: unknown unit, no number
	out = append(out, Replay{Kind: "where", Stream: "reltime", Text: `ts > "-5w" OR ts > "-h"`, Events: []Ev{{Ts: 1, Msg: "a"}}})
	return out
}

// rpcCases: the store is written through the RPC client; the fields of an event travel as text (name="value",...)
// and the server builds the field list (field.NewFieldsFromKVString) the WHERE closure reads
func rpcCases() []Replay {
	evs := []Ev{
		{Ts: 10, Msg: "start web #0", Fields: [][2]string{{"host", "h1"}, {"level", "error"}, {"note", "disk full, retry"}}},
		{Ts: 11, Msg: "get /index #1", Fields: [][2]string{{"level", "info"}, {"host", "h2"}}},
		{Ts: 12, Msg: "no fields #2"},
		{Ts: 12, Msg: "quoted #3", Fields: [][2]string{{"note", "say \"hi\" = ok"}, {"host", ""}, {"level", "Error"}}},
		{Ts: 15, Msg: "dup #4", Fields: [][2]string{{"host", "h1"}, {"host", "h9"}, {"x.y", "level"}}},
	}
	var out []Replay
	for _, q := range []string{`fields:host = h1`, `fields:level = "error" OR fields:level = info`, `lower(fields:level) = error AND NOT fields:host = ""`,
		`fields:note contains "retry"`, `fields:note LIKE "say*ok"`, `fields:host = ""`, `fields:x.y = level OR fields:nosuch != ""`, `fields:host > h1 AND ts >= 11`} {
		out = append(out, Replay{Kind: "query", Text: q, Events: evs, Via: "rpc"})
	}
	out = append(out, Replay{Kind: "query", Text: `fields:host = h1 OR msg contains "#"`, Events: evs, Via: "rpc", Tail: 2})
	out = append(out, Replay{Kind: "query", Text: `NOT fields:level = info`, Events: evs, Via: "rpc", Range: []int64{11, 12}})
	return out
}

// edgeCorpus: deterministic cases at the boundaries of the comparisons of whereeval.go / field.go / fiterator.go, run on every
// check: string comparisons between values that are prefixes of each other, of equal length, differing in case, empty; operands
// of CONTAINS/PREFIX/SUFFIX equal to / longer than / empty against the subject; field items of 127, 128, 200 and 255 bytes (the
// length byte as a signed and as an unsigned number), a name of 255 bytes, 40 fields in one event (first, last, absent, duplicate);
// timestamps at both ends of int64 against literals at the upper end.
func edgeCorpus() (where, query []Replay) {
	// ---- string comparisons
	vals := []string{"", "a", "ab", "abc", "aB", "AB", "b", "ab ", "\u00e9", "a\u00e9"}
	var cmpEvs []Ev
	for i, v := range vals {
		cmpEvs = append(cmpEvs, Ev{Ts: int64(i + 1), Msg: v, Fields: [][2]string{{"v", v}, {"w", "ab"}}})
	}
	cmpEvs = append(cmpEvs, Ev{Ts: 100, Msg: "no v"})
	for _, op := range []string{"=", "!=", "<", "<=", ">", ">="} {
		for _, lit := range []string{`"ab"`, `""`, `"b"`} {
			where = append(where, Replay{Kind: "where", Stream: "edge-corpus", Text: "fields:v " + op + " " + lit, Events: cmpEvs})
		}
		where = append(where, Replay{Kind: "where", Stream: "edge-corpus", Text: "upper(fields:v) " + op + ` "AB" OR lower(fields:v) ` + op + ` "ab"`, Events: cmpEvs})
	}
	for _, op := range []string{"contains", "prefix", "suffix", "like"} {
		for _, lit := range []string{`"ab"`, `""`, `"abc"`, `"b"`, `"ab "`} {
			where = append(where, Replay{Kind: "where", Stream: "edge-corpus", Text: "msg " + op + " " + lit, Events: cmpEvs})
			where = append(where, Replay{Kind: "where", Stream: "edge-corpus", Text: "NOT fields:v " + op + " " + lit, Events: cmpEvs})
		}
	}
	// ---- field names that are prefixes of each other, in both orders, and a name that only occurs as the prefix of another
	preEvs := []Ev{
		{Ts: 1, Msg: "longer first", Fields: [][2]string{{"ab", "1"}, {"a", "2"}}},
		{Ts: 2, Msg: "shorter first", Fields: [][2]string{{"a", "3"}, {"ab", "4"}}},
		{Ts: 3, Msg: "only longer", Fields: [][2]string{{"abc", "5"}, {"Ab", "6"}}},
		{Ts: 4, Msg: "value is the name", Fields: [][2]string{{"x", "a"}, {"y", "ab"}}},
		{Ts: 5, Msg: "name then empty", Fields: [][2]string{{"a", ""}, {"ab", ""}}},
	}
	for _, t := range []string{`fields:a = 2`, `fields:a = 1`, `fields:ab = 1 OR fields:ab = 4`, `fields:a = ""`, `fields:ab = ""`, `fields:abc = 5`, `fields:A = 2`, `fields:a != ""`} {
		where = append(where, Replay{Kind: "where", Stream: "edge-corpus", Text: t, Events: preEvs})
	}
	query = append(query, Replay{Kind: "query", Text: `fields:a = "" OR fields:ab = 1`, Events: preEvs})
	// a request under the id of a cursor the server keeps for ANOTHER query (and its position): the new query's filter must be applied
	{
		evs := []Ev{{Ts: 1, Msg: "alpha #0"}, {Ts: 2, Msg: "beta #1"}, {Ts: 3, Msg: "alpha #2"}, {Ts: 4, Msg: "beta #3"}, {Ts: 5, Msg: "alpha #4"}}
		query = append(query, Replay{Kind: "query", Text: `msg prefix "beta"`, Events: evs, Stale: true},
			Replay{Kind: "query", Text: `NOT msg contains "#2" AND ts > 2`, Events: evs, Stale: true})
	}
	// ---- sizes of field items: the length byte at 127 / 128 / 255, many fields
	rep := func(c string, n int) string { return strings.Repeat(c, n) }
	name255 := "n" + rep("x", 254)
	var many [][2]string
	for i := 0; i < 40; i++ {
		many = append(many, [2]string{fmt.Sprintf("f%d", i), fmt.Sprintf("v%d", i)})
	}
	many = append(many, [2]string{"f7", "second f7"})
	sizeEvs := []Ev{
		{Ts: 1, Msg: "127", Fields: [][2]string{{"k", rep("a", 127)}, {"after", "x"}}},
		{Ts: 2, Msg: "128", Fields: [][2]string{{"k", rep("a", 128)}, {"after", "x"}}},
		{Ts: 3, Msg: "200", Fields: [][2]string{{"k", rep("a", 200)}, {"after", "y"}}},
		{Ts: 4, Msg: "255", Fields: [][2]string{{"k", rep("a", 255)}, {"after", "x"}}},
		{Ts: 5, Msg: "name255", Fields: [][2]string{{name255, "long name"}, {"after", "x"}, {"k", ""}}},
		{Ts: 6, Msg: "many", Fields: many},
		{Ts: 7, Msg: rep("m", 300) + " end"},
	}
	for _, t := range []string{
		`fields:k = "` + rep("a", 128) + `"`, `fields:k >= "` + rep("a", 128) + `"`, `fields:k prefix "` + rep("a", 200) + `"`, `fields:k = "` + rep("a", 255) + `"`,
		`fields:after = x`, `fields:after = x AND NOT fields:k = ""`, `fields:` + name255 + ` = "long name"`, `fields:` + name255 + `x = ""`,
		`fields:f0 = v0 OR fields:f39 = v39`, `fields:f7 = v7`, `fields:f7 = "second f7"`, `fields:f40 = ""`, `msg suffix " end" OR msg = "128"`,
	} {
		where = append(where, Replay{Kind: "where", Stream: "edge-corpus", Text: t, Events: sizeEvs})
	}
	query = append(query, Replay{Kind: "query", Text: `fields:after = x AND NOT fields:k = ""`, Events: sizeEvs},
		Replay{Kind: "query", Text: `fields:` + name255 + ` = "long name" OR fields:f39 = v39`, Events: sizeEvs, Via: "rpc"},
		Replay{Kind: "query", Text: `fields:k >= "` + rep("a", 128) + `"`, Events: sizeEvs, Via: "rpc", Twice: true})
	// ---- timestamps at the ends of int64
	tsEvs := []Ev{{Ts: -9223372036854775808, Msg: "min"}, {Ts: -1, Msg: "m1"}, {Ts: 0, Msg: "zero"}, {Ts: 1, Msg: "one"},
		{Ts: 9223372036854775806, Msg: "max-1"}, {Ts: 9223372036854775807, Msg: "max"}}
	for _, t := range []string{`ts < "9223372036854775807"`, `ts <= "9223372036854775807"`, `ts > "9223372036854775806"`, `ts >= "9223372036854775807"`,
		`ts > "0"`, `ts >= "0"`, `ts < "0"`, `ts <= "0"`, `ts < "1" AND NOT ts < "0"`, `ts > "9223372036854775808"`, `ts >= "-9223372036854775808"`} {
		where = append(where, Replay{Kind: "where", Stream: "edge-corpus", Text: t, Events: tsEvs})
	}
	query = append(query, Replay{Kind: "query", Text: `ts <= "0" OR ts >= "9223372036854775807"`, Events: tsEvs},
		Replay{Kind: "query", Text: `msg contains "m"`, Events: tsEvs, Off: 1, Lim: 2},
		Replay{Kind: "query", Text: `msg contains "m"`, Events: tsEvs, Off: 4, Lim: 5},
		Replay{Kind: "query", Text: `msg contains "m"`, Events: tsEvs, Off: 3},
		Replay{Kind: "query", Text: `NOT msg = "zero"`, Events: tsEvs, Page: 2},
		Replay{Kind: "query", Text: `NOT msg = "zero"`, Events: tsEvs, Page: 1, Twice: true},
		Replay{Kind: "query", Text: `NOT msg = "zero"`, Events: tsEvs, Lim: 5},
		Replay{Kind: "query", Text: `NOT msg = "zero"`, Events: tsEvs, Tail: 5, Twice: true})
	return where, query
}

// ampmCases: ts comparisons with 12-hour literals (hours 01..11 PM, 12 AM, 12 PM) in both forms of the list of datetime.go
// ("YYYY-MM-DD hh:mm:ss P", "D/M/YYYY hh:mm:ss P"); the instant a literal denotes is computed here (UTC: the harness pins
// time.Local), the events stand between the 12-hour reading and the reading that drops AM/PM, and on both sides of them
func ampmCases() []Replay {
	var out []Replay
	day := time.Date(2019, 3, 11, 0, 0, 0, 0, time.UTC)
	type lit struct {
		h12  int
		pm   bool
		h24  int
		mins int
	}
	lits := []lit{{2, true, 14, 10}, {1, true, 13, 0}, {11, true, 23, 59}, {12, false, 0, 30}, {12, true, 12, 5}, {9, false, 9, 15}, {7, true, 19, 45}}
	for i, l := range lits {
		ap := "AM"
		if l.pm {
			ap = "PM"
		}
		want := day.Add(time.Duration(l.h24)*time.Hour + time.Duration(l.mins)*time.Minute).UnixNano()
		wrong := day.Add(time.Duration(l.h12)*time.Hour + time.Duration(l.mins)*time.Minute).UnixNano() // AM/PM dropped
		texts := []string{fmt.Sprintf("2019-03-11 %02d:%02d:00 %s", l.h12, l.mins, ap), fmt.Sprintf("11/3/2019 %02d:%02d:00 %s", l.h12, l.mins, ap)}
		lo, hi := want, wrong
		if lo > hi {
			lo, hi = hi, lo
		}
		evs := []Ev{{Ts: lo - 60e9, Msg: "before both"}, {Ts: lo, Msg: "at the lower"}, {Ts: lo + (hi-lo)/2, Msg: "between"}, {Ts: hi, Msg: "at the upper"}, {Ts: hi + 60e9, Msg: "after both"}, {Ts: want, Msg: "at the instant"}}
		for j, t := range texts {
			op := []string{">=", "<", ">", "<="}[(i+j)%4]
			text := fmt.Sprintf("ts %s '%s'", op, t)
			if (i+j)%3 == 0 {
				text = fmt.Sprintf("NOT ts %s \"%s\" OR msg = \"between\"", op, t)
			}
			out = append(out, Replay{Kind: "where", Stream: "ampm", Text: text, Events: evs, FixedLits: map[string]int64{t: want}})
		}
	}
	return out
}
