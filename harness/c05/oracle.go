package main

import (
	"path"
	"strings"

	"github.com/logrange/logrange/pkg/lql"
)

// The oracle O of C05: the documented meaning of a WHERE expression, evaluated directly over the
// AST the real parser produced and the event as (ts, msg, ordered field pairs). It shares nothing
// with whereeval.go or with the Coq model.

type verdict struct {
	evaluable bool // every condition can be evaluated
	badLike   bool // the only reason it is not evaluable: a malformed LIKE pattern
	other     bool // some other reason
}

func innermost(id *lql.Identifier) *lql.Identifier {
	for len(id.Params) > 0 {
		id = id.Params[0]
	}
	return id
}

// funcsOK: UPPER/LOWER with exactly one parameter at every level
func funcsOK(id *lql.Identifier) bool {
	for len(id.Params) > 0 {
		if len(id.Params) != 1 {
			return false
		}
		fn := strings.ToUpper(id.Operand)
		if fn != "UPPER" && fn != "LOWER" {
			return false
		}
		id = id.Params[0]
	}
	return true
}

func applyFuncs(id *lql.Identifier, s string) string {
	if len(id.Params) == 0 {
		return s
	}
	in := applyFuncs(id.Params[0], s)
	if strings.ToUpper(id.Operand) == "UPPER" {
		return strings.ToUpper(in)
	}
	return strings.ToLower(in)
}

func fieldOf(ev Ev, name string) string {
	for _, kv := range ev.Fields {
		if kv[0] == name {
			return kv[1]
		}
	}
	return ""
}

type timeFn func(string) (int64, bool)

// checkCond classifies one condition
func checkCond(c *lql.Condition, tm timeFn, v *verdict) {
	name := strings.ToLower(innermost(c.Ident).Operand)
	op := strings.ToUpper(c.Op)
	bad := func() { v.evaluable, v.other = false, true }
	switch {
	case name == "ts":
		if len(c.Ident.Params) != 0 {
			bad()
			return
		}
		if _, ok := tm(c.Value); !ok {
			bad()
			return
		}
		if c.Op != "<" && c.Op != ">" && c.Op != "<=" && c.Op != ">=" {
			bad()
		}
	case name == "msg" || (strings.HasPrefix(name, "fields:") && len(name) >= 8):
		if !funcsOK(c.Ident) {
			bad()
			return
		}
		switch op {
		case "CONTAINS", "PREFIX", "SUFFIX":
		case "LIKE":
			if _, err := path.Match(c.Value, "abc"); err != nil {
				v.evaluable, v.badLike = false, true
			}
		case "=", "!=", "<", "<=", ">", ">=":
			if name == "msg" {
				bad()
			}
		default:
			bad()
		}
	default:
		bad()
	}
}

func classify(e *lql.Expression, tm timeFn) verdict {
	v := verdict{evaluable: true}
	var walk func(e *lql.Expression)
	walk = func(e *lql.Expression) {
		for _, oc := range e.Or {
			for _, xc := range oc.And {
				if xc.Expr != nil {
					walk(xc.Expr)
				} else {
					checkCond(xc.Cond, tm, &v)
				}
			}
		}
	}
	if e != nil {
		walk(e)
	}
	return v
}

func evalCond(c *lql.Condition, tm timeFn, ev Ev) bool {
	name := strings.ToLower(innermost(c.Ident).Operand)
	if name == "ts" {
		t, _ := tm(c.Value)
		switch c.Op {
		case "<":
			return ev.Ts < t
		case ">":
			return ev.Ts > t
		case "<=":
			return ev.Ts <= t
		default:
			return ev.Ts >= t
		}
	}
	var s string
	if name == "msg" {
		s = ev.Msg
	} else {
		s = fieldOf(ev, innermost(c.Ident).Operand[7:])
	}
	s = applyFuncs(c.Ident, s)
	switch strings.ToUpper(c.Op) {
	case "CONTAINS":
		return strings.Contains(s, c.Value)
	case "PREFIX":
		return strings.HasPrefix(s, c.Value)
	case "SUFFIX":
		return strings.HasSuffix(s, c.Value)
	case "LIKE":
		m, _ := path.Match(c.Value, s)
		return m
	case "=":
		return s == c.Value
	case "!=":
		return s != c.Value
	case "<":
		return s < c.Value
	case "<=":
		return s <= c.Value
	case ">":
		return s > c.Value
	default:
		return s >= c.Value
	}
}

// evalExpr: OR over ANDs over optionally negated atoms (NOT binds tightest, then AND, then OR)
func evalExpr(e *lql.Expression, tm timeFn, ev Ev) bool {
	if e == nil {
		return true
	}
	for _, oc := range e.Or {
		all := true
		for _, xc := range oc.And {
			var b bool
			if xc.Expr != nil {
				b = evalExpr(xc.Expr, tm, ev)
			} else {
				b = evalCond(xc.Cond, tm, ev)
			}
			if xc.Not {
				b = !b
			}
			if !b {
				all = false
				break
			}
		}
		if all {
			return true
		}
	}
	return false
}

// strings of the AST that go through ToUpper/ToLower in the builder
func astCaseStrings(e *lql.Expression, out *[]string) {
	if e == nil {
		return
	}
	for _, oc := range e.Or {
		for _, xc := range oc.And {
			if xc.Expr != nil {
				astCaseStrings(xc.Expr, out)
				continue
			}
			*out = append(*out, xc.Cond.Op)
			for id := xc.Cond.Ident; ; id = id.Params[0] {
				*out = append(*out, id.Operand)
				if len(id.Params) == 0 {
					break
				}
			}
		}
	}
}

func tsValues(e *lql.Expression, out map[string]bool) {
	if e == nil {
		return
	}
	for _, oc := range e.Or {
		for _, xc := range oc.And {
			if xc.Expr != nil {
				tsValues(xc.Expr, out)
			} else if strings.ToLower(innermost(xc.Cond.Ident).Operand) == "ts" {
				out[xc.Cond.Value] = true
			}
		}
	}
}

func likeValues(e *lql.Expression, out map[string]bool) {
	if e == nil {
		return
	}
	for _, oc := range e.Or {
		for _, xc := range oc.And {
			if xc.Expr != nil {
				likeValues(xc.Expr, out)
			} else if strings.ToUpper(xc.Cond.Op) == "LIKE" {
				out[xc.Cond.Value] = true
			}
		}
	}
}

func asciiUpper(s string) string {
	b := []byte(s)
	for i, c := range b {
		if c >= 'a' && c <= 'z' {
			b[i] = c - 32
		}
	}
	return string(b)
}

func asciiLower(s string) string {
	b := []byte(s)
	for i, c := range b {
		if c >= 'A' && c <= 'Z' {
			b[i] = c + 32
		}
	}
	return string(b)
}

// inCaseDomain: the ASCII model of ToUpper/ToLower is exact on s (and on its images)
func inCaseDomain(s string) bool {
	u, l := strings.ToUpper(s), strings.ToLower(s)
	return u == asciiUpper(s) && l == asciiLower(s) &&
		strings.ToLower(u) == asciiLower(u) && strings.ToUpper(l) == asciiUpper(l)
}
