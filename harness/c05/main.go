// C05 harness: WHERE filtering equals the reference meaning of the expression.
//
// Streams:
//
//	where  grammar-generated expressions (depth <= 6) x generated events through the real
//	       lql.ParseExpr + lql.BuildWhereExpFuncByExpression; the closure is applied to every event
//	       under recover. Recorded: parse error | build error | per event true/false/panic.
//	edge   the same with constructs the server is expected to reject, and byte/token mutations
//	lex    token-level comparison: the raw token stream of the lexer and the stream the parser sees
//	match  path.Match samples (the model of LIKE used by the correspondence check)
//	query  end-to-end: SELECT FROM {partition} WHERE e on an in-process server vs the stored events
//
// Oracle O: an independent evaluator of the documented meaning over the parsed AST (oracle.go).
package main

import (
	"context"
	"fmt"
	"io"
	"path"
	"sort"
	"strconv"
	"strings"
	"time"

	"github.com/logrange/logrange/api"
	"github.com/logrange/logrange/pkg/lql"
	"github.com/logrange/logrange/pkg/model"
	"github.com/logrange/logrange/pkg/model/field"
	"github.com/logrange/logrange/pkg/model/tag"
	"github.com/logrange/range/pkg/records"
	. "verifharness/common"
)

type Replay struct {
	Kind   string `json:"kind"` // where | lex | match | query
	Text   string `json:"text,omitempty"`
	Events []Ev   `json:"events,omitempty"`
	Pat    string `json:"pat,omitempty"`
	Name   string `json:"name,omitempty"`
	Stream string `json:"stream,omitempty"`
	// query variants
	Range []int64 `json:"range,omitempty"` // [lo, hi]: SELECT ... RANGE ["lo":"hi"] WHERE e (the filter iterator with an explicit time range)
	Tail  int     `json:"tail,omitempty"`  // > 0: SELECT ... WHERE e POSITION tail OFFSET -k (k = min(Tail, matching events)): backward through the filter iterator
	Via   string  `json:"via,omitempty"`   // "rpc": the events are written through the RPC client, their fields as the text name=value,... (field.NewFieldsFromKVString)
	Off   int     `json:"off,omitempty"`   // request Offset k > 0: the first k matching events are stepped over
	Lim   int     `json:"lim,omitempty"`   // request Limit n > 0 (default 10000): at most n events are delivered
	Page  int     `json:"page,omitempty"`  // > 0: the result is read in pages of that many events (NextQueryRequest), the pages are concatenated
	Twice bool    `json:"twice,omitempty"` // the same request is sent a second time: the answer must be the same
	// Stale: first a request with a wait timeout (its cursor is kept by the server) for SELECT ... WHERE msg contains "#" (true of the first
	// stored event), Limit 1; then the case's own query under THAT request id and the returned position: the answer must be the filter of
	// the NEW query over what follows the first event
	Stale bool `json:"stale,omitempty"`
	// reltime: clock-dependent ts literals (relative "-1.5h", constants minute/hour/day/week); the events are placed at run time
	// the instants the ts literals of the text denote, computed by the harness (not by the implementation): K and the oracle use them
	FixedLits map[string]int64 `json:"fixedlits,omitempty"`
	RelLits   []string         `json:"rellits,omitempty"`
	RelEvs  []RelEv  `json:"relevs,omitempty"`
}

// RelEv: an event dated Off nanoseconds after the instant the literal RelLits[Lit] denotes when the case runs
type RelEv struct {
	Lit int    `json:"lit"`
	Off int64  `json:"off"`
	Msg string `json:"msg"`
}

const rule = "an expression case is non-trivial iff it parses, builds and contains at least two connectives of different kinds (AND/OR/NOT/parentheses) or a function nesting; lex/match/query cases are non-trivial iff the text has at least 3 tokens / the pattern has a metacharacter / the query returned a proper non-empty subset; distinct by the hash of the input"

func guarded(f func()) (panicked bool) {
	defer func() {
		if r := recover(); r != nil {
			panicked = true
		}
	}()
	f()
	return false
}

func toLE(e Ev) (model.LogEvent, error) {
	f, err := field.NewFieldsFromSlice(e.slice()...)
	return model.LogEvent{Timestamp: e.Ts, Msg: []byte(e.Msg), Fields: f}, err
}

func gEvent(e Ev) string {
	le, _ := toLE(e)
	return GTuple(GZ(e.Ts), GStr(e.Msg), GStr(string(le.Fields)))
}

func gEvents(evs []Ev) string {
	it := make([]string, len(evs))
	for i, e := range evs {
		it[i] = gEvent(e)
	}
	return GList(it)
}

func parseTime(s string) (int64, bool) {
	t, err := lql.VC05ParseLqlDateTime(s)
	if err != nil {
		return 0, false
	}
	return t.UnixNano(), true
}

// time table of the ts literals of an expression; stable=false when a literal depends on the clock
func timeTable(e *lql.Expression) (tab string, stable bool) {
	vals := map[string]bool{}
	tsValues(e, vals)
	keys := make([]string, 0, len(vals))
	for k := range vals {
		keys = append(keys, k)
	}
	sort.Strings(keys)
	var it []string
	stable = true
	for _, k := range keys {
		t1, ok1 := parseTime(k)
		t2, ok2 := parseTime(k)
		if ok1 != ok2 || t1 != t2 {
			stable = false
		}
		if ok1 {
			it = append(it, GPair(GStr(k), GSome(GZ(t1))))
		} else {
			it = append(it, GPair(GStr(k), GNone))
		}
	}
	return GList(it), stable
}

// the table of a case whose clock-dependent literals were sampled by the harness
func timeTableFixed(e *lql.Expression, fixed map[string]int64) (string, bool) {
	vals := map[string]bool{}
	tsValues(e, vals)
	keys := make([]string, 0, len(vals))
	for k := range vals {
		keys = append(keys, k)
	}
	sort.Strings(keys)
	var it []string
	for _, k := range keys {
		if v, ok := fixed[k]; ok {
			it = append(it, GPair(GStr(k), GSome(GZ(v))))
			continue
		}
		t1, ok1 := parseTime(k)
		t2, ok2 := parseTime(k)
		if ok1 != ok2 || t1 != t2 {
			return "", false
		}
		if ok1 {
			it = append(it, GPair(GStr(k), GSome(GZ(t1))))
		} else {
			it = append(it, GPair(GStr(k), GNone))
		}
	}
	return GList(it), true
}

// ---------------------------------------------------------------- where

func whereCase(rp Replay) (*Case, error) { return whereCaseT(rp, nil) }

// relCase: ts literals that depend on the clock. The literals are sampled before and after the case; the events are
// dated relative to the sampled instants, at least a minute away from them, so that the truth of every condition does
// not depend on the few milliseconds between the samples and the builder's own reading of the clock. If a boundary
// (start of a minute/hour/day/week) passed in between, the case is dropped.
func relCase(rp Replay) (*Case, error) {
	sample := func() (map[string]int64, bool) {
		m := map[string]int64{}
		for _, l := range rp.RelLits {
			v, ok := parseTime(l)
			if !ok {
				return nil, false
			}
			m[l] = v
		}
		return m, true
	}
	now0 := time.Now()
	t0, ok := sample()
	if !ok {
		return nil, fmt.Errorf("reltime: a literal of %q does not parse", rp.RelLits)
	}
	// the documented meaning of the literal, computed here (not by the implementation): the events are dated relative
	// to it and K gets it as the value of the literal; the implementation's own reading must agree within seconds
	var litViol *Violation
	for _, l := range rp.RelLits {
		want, ok := refClockLiteral(l, now0)
		if !ok {
			return nil, fmt.Errorf("reltime: no reference meaning for the literal %q", l)
		}
		if d := t0[l] - want; d < -int64(5*time.Second) || d > int64(5*time.Second) {
			if want2, _ := refClockLiteral(l, time.Now()); want2-want >= 0 && want2-want < int64(5*time.Second) { // no boundary passed meanwhile
				litViol = &Violation{Class: "ts-literal-value-differs", Detail: fmt.Sprintf("the literal %q read at %s denotes %s, parseLqlDateTime says %s", l, now0.UTC().Format(time.RFC3339), time.Unix(0, want).UTC().Format(time.RFC3339Nano), time.Unix(0, t0[l]).UTC().Format(time.RFC3339Nano))}
			} else {
				return nil, nil
			}
		}
		t0[l] = want
	}
	rp2 := rp
	rp2.Events = nil
	for _, re := range rp.RelEvs {
		rp2.Events = append(rp2.Events, Ev{Ts: t0[rp.RelLits[re.Lit]] + re.Off, Msg: re.Msg})
	}
	cs, err := whereCaseT(rp2, t0)
	if err != nil || cs == nil {
		return cs, err
	}
	now1 := time.Now()
	for l, v := range t0 {
		w1, _ := refClockLiteral(l, now1)
		if d := w1 - v; d < 0 || d > int64(5*time.Second) {
			return nil, nil // a boundary passed (or the clock jumped) while the case ran
		}
	}
	if litViol != nil {
		cs.Oracle = litViol
	}
	cs.Replay = rp // replayable: the events are placed again when it runs
	cs.Key = "reltime:" + rp.Text + fmt.Sprint(rp.RelEvs)
	cs.NonTrivial = strings.Contains(cs.Coq, "WTrue") && strings.Contains(cs.Coq, "WFalse")
	return cs, nil
}

// refClockLiteral: the documented meaning of a clock-dependent ts literal at the instant now (lql/datetime.go, the comment of
// parseLqlDateTime): -<number>(m|h|d) = that many minutes/hours/days before now; minute / hour / day / week = the start of the
// current minute / hour / day (00:00 local) / week (Sunday 00:00 local). Case-insensitive, surrounding blanks ignored.
func refClockLiteral(lit string, now time.Time) (int64, bool) {
	l := strings.ToLower(strings.Trim(lit, " "))
	if strings.HasPrefix(l, "-") && len(l) >= 3 {
		var unit time.Duration
		switch l[len(l)-1] {
		case 'm':
			unit = time.Minute
		case 'h':
			unit = time.Hour
		case 'd':
			unit = 24 * time.Hour
		default:
			return 0, false
		}
		v, err := strconv.ParseFloat(l[1:len(l)-1], 64)
		if err != nil {
			return 0, false
		}
		return now.Add(-time.Duration(v * float64(unit))).UnixNano(), true
	}
	y, mo, d := now.Date()
	h, mi, _ := now.Clock()
	switch l {
	case "minute":
		return time.Date(y, mo, d, h, mi, 0, 0, now.Location()).UnixNano(), true
	case "hour":
		return time.Date(y, mo, d, h, 0, 0, 0, now.Location()).UnixNano(), true
	case "day":
		return time.Date(y, mo, d, 0, 0, 0, 0, now.Location()).UnixNano(), true
	case "week":
		return time.Date(y, mo, d-int(now.Weekday()), 0, 0, 0, 0, now.Location()).UnixNano(), true
	}
	return 0, false
}

func whereCaseT(rp Replay, fixed map[string]int64) (*Case, error) {
	cs := &Case{Replay: rp, Stream: rp.Stream}
	tmf := timeFn(parseTime)
	if fixed != nil {
		tmf = func(s string) (int64, bool) {
			if v, ok := fixed[s]; ok {
				return v, true
			}
			return parseTime(s)
		}
	}
	var viol *Violation
	fail := func(class, detail string) {
		if viol == nil {
			viol = &Violation{Class: class, Detail: detail}
		}
	}
	exp, perr := lql.ParseExpr(rp.Text)
	if perr != nil {
		cs.Coq = GApp("KWhere", GStr(rp.Text), "[]", gEvents(rp.Events), "WParseErr")
		cs.Tags = []string{"obs:parse-error"}
		// the text entry point must refuse what the parser refuses
		if f2, err2 := lql.BuildWhereExpFunc(rp.Text); err2 == nil {
			cs.Oracle = &Violation{Class: "where-text-entry-differs", Detail: fmt.Sprintf("%q does not parse (%v), BuildWhereExpFunc(text) accepts it (nil func: %v)", rp.Text, perr, f2 == nil)}
		}
		return cs, nil
	}
	tab, stable := timeTable(exp)
	if fixed != nil {
		tab, stable = timeTableFixed(exp, fixed)
	}
	if !stable {
		return nil, nil
	}
	var cstr []string
	astCaseStrings(exp, &cstr)
	inDomain := true
	for _, s := range cstr {
		if !inCaseDomain(s) {
			inDomain = false
		}
	}
	for _, e := range rp.Events {
		if !inCaseDomain(e.Msg) {
			inDomain = false
		}
		for _, kv := range e.Fields {
			if !inCaseDomain(kv[1]) {
				inDomain = false
			}
		}
	}
	v := classify(exp, tmf)
	f, berr := lql.BuildWhereExpFuncByExpression(exp)
	obs := "WBuildErr"
	if berr != nil {
		cs.Tags = append(cs.Tags, "obs:build-error")
		if v.evaluable {
			fail("where-evaluable-rejected", fmt.Sprintf("%q: every condition is evaluable but the build fails: %v", rp.Text, berr))
		}
	} else {
		if !v.evaluable {
			if v.badLike && !v.other {
				fail("where-like-bad-pattern-accepted", fmt.Sprintf("%q has a malformed LIKE pattern and is accepted by BuildWhereExpFunc (whereeval.go, LIKE cases: the error of the path.Match probe must be the function's result, not a shadowed err)", rp.Text))
			} else {
				fail("where-unevaluable-accepted", fmt.Sprintf("%q cannot be evaluated but is accepted", rp.Text))
			}
		}
		var rs []string
		nt, nf, np := 0, 0, 0
		for _, e := range rp.Events {
			le, err := toLE(e)
			if err != nil {
				return nil, err
			}
			var b bool
			if guarded(func() { b = f(&le) }) {
				rs = append(rs, "WPanic")
				np++
				// a filter that was accepted must be evaluable on every event, whatever the expression is
				if viol != nil && strings.HasSuffix(viol.Class, "-accepted") {
					if !strings.Contains(viol.Detail, "; evaluating the accepted filter panics") {
						viol.Detail += fmt.Sprintf("; evaluating the accepted filter panics (nil function in the closure?) on event %+v", e)
					}
				} else {
					fail("where-panic", fmt.Sprintf("%q is accepted and panics on event %+v", rp.Text, e))
				}
				continue
			}
			if b {
				rs = append(rs, "WTrue")
				nt++
			} else {
				rs = append(rs, "WFalse")
				nf++
			}
			if v.evaluable {
				if want := evalExpr(exp, tmf, e); want != b {
					fail("where-result-differs", fmt.Sprintf("%q on %+v: closure says %v, the documented meaning is %v", rp.Text, e, b, want))
				}
			}
		}
		obs = GApp("WOk", GList(rs))
		cs.Tags = append(cs.Tags, "obs:built")
		if nt > 0 && nf > 0 {
			cs.Tags = append(cs.Tags, "obs:mixed-truth")
		}
		if np > 0 {
			cs.Tags = append(cs.Tags, "obs:panic")
		}
	}
	// the text entry point (what a pipe's filter goes through): lql.BuildWhereExpFunc(text) = ParseExpr + build; it must
	// accept exactly when the expression route does and answer the same on every event
	if fixed == nil {
		f2, err2 := lql.BuildWhereExpFunc(rp.Text)
		switch {
		case (err2 == nil) != (berr == nil):
			fail("where-text-entry-differs", fmt.Sprintf("%q: BuildWhereExpFunc(text) says %v, ParseExpr+BuildWhereExpFuncByExpression says %v", rp.Text, err2, berr))
		case err2 == nil && f2 != nil && f != nil:
			for _, e := range rp.Events {
				le, _ := toLE(e)
				le2, _ := toLE(e)
				var b1, b2 bool
				p1 := guarded(func() { b1 = f(&le) })
				p2 := guarded(func() { b2 = f2(&le2) })
				if p1 != p2 || b1 != b2 {
					fail("where-text-entry-differs", fmt.Sprintf("%q on %+v: BuildWhereExpFunc(text) answers %v (panic %v), the expression route %v (panic %v)", rp.Text, e, b2, p2, b1, p1))
					break
				}
			}
		}
	}
	cs.Oracle = viol
	if !inDomain {
		// outside the domain where the ASCII model of ToUpper/ToLower is exact: oracle only
		cs.Coq = GApp("KWhere", "[]", "[]", "[]", GApp("WOk", "[]"))
		cs.Tags = append(cs.Tags, "k:skipped-non-ascii-case")
		cs.Key = "skip:" + rp.Text
		return cs, nil
	}
	cs.Coq = GApp("KWhere", GStr(rp.Text), tab, gEvents(rp.Events), obs)
	return cs, nil
}

// ---------------------------------------------------------------- lex

var tyName = map[string]string{"Keyword": "TKeyword", "Ident": "TIdent", "String": "TString", "Operator": "TOperator", "Number": "TNumber", "Tags": "TTags"}

func gToks(ts []lql.VC05Token, err error) (string, int) {
	if err != nil {
		return GNone, 0
	}
	it := make([]string, len(ts))
	for i, t := range ts {
		it[i] = GPair(tyName[t.Type], GStr(t.Value))
	}
	return GSome(GList(it)), len(ts)
}

func lexCase(rp Replay) (*Case, error) {
	raw, n := gToks(lql.VC05Lex(rp.Text))
	mapped, _ := gToks(lql.VC05LexMapped(rp.Text))
	tg := "lex:ok"
	if raw == GNone {
		tg = "lex:invalid-token"
	} else if mapped == GNone {
		tg = "lex:unquote-error"
	}
	return &Case{Coq: GApp("KLex", GStr(rp.Text), raw, mapped), Replay: rp, Stream: "lex", NonTrivial: n >= 3, Tags: []string{tg}}, nil
}

// ---------------------------------------------------------------- match

func matchCase(rp Replay) (*Case, error) {
	m, err := path.Match(rp.Pat, rp.Name)
	res := GNone
	tg := "match:bad-pattern"
	if err == nil {
		res = GSome(GBool(m))
		tg = fmt.Sprintf("match:%v", m)
	}
	return &Case{Coq: GApp("KMatch", GStr(rp.Pat), GStr(rp.Name), res), Replay: rp, Stream: "match",
		NonTrivial: strings.ContainsAny(rp.Pat, "*?[\\"), Tags: []string{tg}}, nil
}

// ---------------------------------------------------------------- query (end to end)

type sliceIt struct {
	evs []model.LogEvent
	i   int
}

func (s *sliceIt) Next(ctx context.Context) {
	if s.i < len(s.evs) {
		s.i++
	}
}
func (s *sliceIt) Get(ctx context.Context) (model.LogEvent, tag.Line, error) {
	if s.i >= len(s.evs) {
		return model.LogEvent{}, tag.EmptyLine, io.EOF
	}
	return s.evs[s.i], tag.EmptyLine, nil
}
func (s *sliceIt) Release()                        {}
func (s *sliceIt) SetBackward(bool)                { panic("not supported") }
func (s *sliceIt) CurrentPos() records.IteratorPos { return s.i }

type store struct {
	srv   *Server
	parts map[string]string // key of the event list -> partition tags
	unf   map[string][]int  // partition tags -> the unfiltered result (SELECT FROM {p} without WHERE), as indexes of the written events
	n     int
	rpc   bool // events are written through the RPC client (fields as text)
}

// unfiltered: what SELECT FROM {tags} LIMIT 10000 (no WHERE, no RANGE) returns, as indexes into evs; asked once per partition.
// The property compares a SELECT with WHERE e against the events of THIS result for which e is true.
func (st *store) unfiltered(tags string, evs []Ev) ([]int, error) {
	if u, ok := st.unf[tags]; ok {
		return u, nil
	}
	byId := map[string]int{}
	for i, e := range evs {
		byId[fmt.Sprintf("%d|%s", e.Ts, e.Msg)] = i
	}
	var res *api.QueryResult
	var qerr error
	q := "SELECT FROM {" + tags + "} LIMIT 10000"
	if guarded(func() {
		res, qerr = st.srv.Querier.Query(context.Background(), &api.QueryRequest{Query: q, Limit: 10000})
	}) {
		return nil, fmt.Errorf("%s panics", q)
	}
	if qerr != nil && qerr != io.EOF {
		return nil, fmt.Errorf("%s: %v", q, qerr)
	}
	u := []int{}
	if res != nil {
		for _, e := range res.Events {
			i, ok := byId[fmt.Sprintf("%d|%s", e.Timestamp, e.Message)]
			if !ok {
				return nil, fmt.Errorf("%s returned an event that was not written: ts=%d msg=%q", q, e.Timestamp, e.Message)
			}
			u = append(u, i)
		}
	}
	if st.unf == nil {
		st.unf = map[string][]int{}
	}
	st.unf[tags] = u
	return u, nil
}

func evKey(evs []Ev) string { return fmt.Sprintf("%v", evs) }

// partition holding exactly evs (written once, awaited until readable)
func (st *store) partition(evs []Ev) (string, error) {
	k := evKey(evs)
	if t, ok := st.parts[k]; ok {
		return t, nil
	}
	st.n++
	tags := fmt.Sprintf("c05=p%d", st.n)
	les := make([]model.LogEvent, len(evs))
	for i, e := range evs {
		le, err := toLE(e)
		if err != nil {
			return "", err
		}
		les[i] = le
	}
	if st.rpc {
		// through the RPC client: the fields travel as the text name=value,... and are parsed by the server (field.NewFieldsFromKVString)
		aevs := make([]*api.LogEvent, len(evs))
		for i, e := range evs {
			var kv []string
			for _, f := range e.Fields {
				kv = append(kv, f[0]+"="+strconv.Quote(f[1]))
			}
			aevs[i] = &api.LogEvent{Timestamp: e.Ts, Message: e.Msg, Fields: strings.Join(kv, ",")}
		}
		var wr api.WriteResult
		if err := st.srv.Client.Write(context.Background(), tags, "", aevs, &wr); err != nil {
			return "", fmt.Errorf("rpc write: %v", err)
		}
		if wr.Err != nil {
			return "", fmt.Errorf("rpc write: %v", wr.Err)
		}
	} else if err := st.srv.Partitions.Write(context.Background(), tags, &sliceIt{evs: les}, true); err != nil {
		return "", fmt.Errorf("write: %v", err)
	}
	if !WaitFor(flushDeadline, func() bool {
		pi, err := st.srv.Partitions.GetParitionInfo(tags)
		return err == nil && pi.Records >= uint64(len(evs))
	}) {
		return "", fmt.Errorf("events written to %s did not become readable", tags)
	}
	st.parts[k] = tags
	return tags, nil
}

func queryCase(st *store, rp Replay) (*Case, error) {
	cs := &Case{Replay: rp, Stream: "query"}
	tags, err := st.partition(rp.Events)
	if err != nil {
		return nil, err
	}
	var viol *Violation
	fail := func(class, detail string) {
		if viol == nil {
			viol = &Violation{Class: class, Detail: detail}
		}
	}
	unf, uerr := st.unfiltered(tags, rp.Events)
	if uerr != nil {
		return nil, uerr
	}
	if len(unf) != len(rp.Events) {
		fail("query-unfiltered-not-the-written-events", fmt.Sprintf("SELECT FROM {%s} LIMIT 10000 returns %d events (%v), %d were written and are reported readable", tags, len(unf), unf, len(rp.Events)))
	}
	q := "SELECT FROM {" + tags + "} WHERE " + rp.Text + " LIMIT 10000"
	if len(rp.Range) == 2 {
		q = fmt.Sprintf("SELECT FROM {%s} RANGE [\"%d\":\"%d\"] WHERE %s LIMIT 10000", tags, rp.Range[0], rp.Range[1], rp.Text)
	}
	exp, perr := lql.ParseExpr(rp.Text)
	tail := 0
	if rp.Tail > 0 && perr == nil {
		// backward through the filter iterator: from the tail over k matching events, then forward (k <= number of matching events)
		if v := classify(exp, parseTime); v.evaluable {
			m := 0
			for _, i := range unf {
				if evalExpr(exp, parseTime, rp.Events[i]) {
					m++
				}
			}
			tail = rp.Tail
			if tail > m {
				tail = m
			}
		}
		// (the backend takes position and offset from the request, not from the statement text)
	}
	tab := "[]"
	evaluable := false
	if perr == nil {
		var stable bool
		tab, stable = timeTable(exp)
		if !stable {
			return nil, nil
		}
		v := classify(exp, parseTime)
		evaluable = v.evaluable
		if !evaluable && v.badLike {
			// (only when the malformed pattern is accepted, i.e. a regression of whereeval.go) a nil closure would
			// panic inside the server; the stale-closure form is covered by the corpus case
			var probe bool
			f, berr := lql.BuildWhereExpFuncByExpression(exp)
			if berr == nil {
				le, _ := toLE(Ev{})
				probe = guarded(func() { f(&le) })
			}
			if probe {
				return nil, nil
			}
		}
	}
	stmt := q
	if tail > 0 {
		q += fmt.Sprintf(" [request: Pos=tail Offset=-%d]", tail) // for the reports only
	}
	if rp.Off > 0 || rp.Lim > 0 {
		q += fmt.Sprintf(" [request: Offset=%d Limit=%d]", rp.Off, rp.Lim)
	}
	if rp.Page > 0 {
		q += fmt.Sprintf(" [read in pages of %d]", rp.Page)
	}
	stale := rp.Stale && perr == nil && len(rp.Range) == 0 && tail == 0 && rp.Off == 0 && rp.Lim == 0 && rp.Page == 0 && len(unf) > 0 &&
		len(unf) == len(rp.Events) && strings.Contains(rp.Events[unf[0]].Msg, "#")
	var staleId uint64
	stalePos := ""
	if stale {
		r0, err := st.srv.Querier.Query(context.Background(), &api.QueryRequest{Query: "SELECT FROM {" + tags + "} WHERE msg contains \"#\" LIMIT 10000", Limit: 1, WaitTimeout: 1})
		if (err != nil && err != io.EOF) || r0 == nil || len(r0.Events) != 1 {
			stale = false // the preparing request did not deliver the first event (another defect's business): the plain query is asked
		} else {
			staleId, stalePos = r0.NextQueryRequest.ReqId, r0.NextQueryRequest.Pos
			q += fmt.Sprintf(" [request: ReqId of a kept cursor for WHERE msg contains \"#\", Pos=%s]", stalePos)
		}
	}
	var res *api.QueryResult
	var qerr error
	ask := func() (*api.QueryResult, error) {
		req := &api.QueryRequest{Query: stmt, Limit: 10000}
		if stale {
			req.ReqId, req.Pos = staleId, stalePos
		}
		if tail > 0 {
			req.Pos, req.Offset = "tail", -tail
		}
		if rp.Off > 0 {
			req.Offset = rp.Off
		}
		if rp.Lim > 0 {
			req.Limit = rp.Lim
		}
		if rp.Page <= 0 {
			return st.srv.Querier.Query(context.Background(), req)
		}
		// paging: every page continues where the previous one ended
		req.Limit = rp.Page
		all := &api.QueryResult{}
		for n := 0; n < 10000; n++ {
			r1, err := st.srv.Querier.Query(context.Background(), req)
			if r1 != nil {
				all.Events = append(all.Events, r1.Events...)
			}
			if err != nil && err != io.EOF {
				return all, err
			}
			if r1 == nil || len(r1.Events) == 0 {
				return all, nil
			}
			nx := r1.NextQueryRequest
			req = &nx
			req.Limit = rp.Page
		}
		return all, fmt.Errorf("paging does not end")
	}
	if guarded(func() { res, qerr = ask() }) {
		fail("query-panic", q)
		qerr = fmt.Errorf("panic")
	}
	if rp.Twice && qerr == nil || rp.Twice && qerr == io.EOF {
		var res2 *api.QueryResult
		var qerr2 error
		if guarded(func() { res2, qerr2 = ask() }) {
			fail("query-panic", q+" (second time)")
		} else if (qerr2 == nil || qerr2 == io.EOF) && res != nil && res2 != nil {
			same := len(res.Events) == len(res2.Events)
			for i := 0; same && i < len(res.Events); i++ {
				same = res.Events[i].Timestamp == res2.Events[i].Timestamp && res.Events[i].Message == res2.Events[i].Message && res.Events[i].Fields == res2.Events[i].Fields
			}
			if !same {
				fail("query-not-repeatable", fmt.Sprintf("%s: the same request a second time returns %d events, the first time %d (or other events)", q, len(res2.Events), len(res.Events)))
			}
		} else if qerr2 != nil && qerr2 != io.EOF {
			fail("query-not-repeatable", fmt.Sprintf("%s: the same request fails the second time: %v", q, qerr2))
		}
	}
	if qerr == io.EOF {
		qerr = nil
	}
	byId := map[string]int{}
	for i, e := range rp.Events {
		byId[fmt.Sprintf("%d|%s", e.Ts, e.Msg)] = i
	}
	ret := GNone
	if qerr == nil && res != nil {
		var got []int
		var it []string
		for _, e := range res.Events {
			i, ok := byId[fmt.Sprintf("%d|%s", e.Timestamp, e.Message)]
			if !ok {
				fail("query-event-altered", fmt.Sprintf("%s returned an event that was not stored: ts=%d msg=%q", q, e.Timestamp, e.Message))
				continue
			}
			le, _ := toLE(rp.Events[i])
			if e.Fields != le.Fields.AsKVString() {
				fail("query-event-altered", fmt.Sprintf("%s: fields of event %d changed: %q", q, i, e.Fields))
			}
			got = append(got, i)
			it = append(it, gEvent(rp.Events[i]))
		}
		ret = GSome(GList(it))
		if evaluable {
			// exactly those events of the unfiltered result (same partition, no WHERE, no RANGE) for which the
			// expression is true, in that order -- whatever their timestamps are
			var want []int
			for n, i := range unf {
				if stale && n == 0 {
					continue // the kept cursor delivered the first event; the position stands behind it
				}
				if len(rp.Range) == 2 && (rp.Events[i].Ts < rp.Range[0] || rp.Events[i].Ts > rp.Range[1]) {
					continue
				}
				if evalExpr(exp, parseTime, rp.Events[i]) {
					want = append(want, i)
				}
			}
			if tail > 0 {
				want = want[len(want)-tail:]
			}
			if rp.Off > 0 {
				if rp.Off >= len(want) {
					want = nil
				} else {
					want = want[rp.Off:]
				}
			}
			if rp.Lim > 0 && len(want) > rp.Lim {
				want = want[:rp.Lim]
			}
			if fmt.Sprint(got) != fmt.Sprint(want) {
				g2, w2 := append([]int{}, got...), append([]int{}, want...)
				sort.Ints(g2)
				sort.Ints(w2)
				cls := "query-filter-differs"
				if fmt.Sprint(g2) == fmt.Sprint(w2) {
					cls = "query-order-changed"
				}
				detail := fmt.Sprintf("%s: returned events %v, the documented meaning selects %v of the unfiltered result %v", q, got, want, unf)
				inGot := map[int]bool{}
				for _, i := range got {
					inGot[i] = true
				}
				for _, i := range want {
					if !inGot[i] {
						detail += fmt.Sprintf("; missing e.g. event %d (ts=%d msg=%q), which the unfiltered SELECT returns and for which the expression is true", i, rp.Events[i].Ts, rp.Events[i].Msg)
						break
					}
				}
				// the repaired defect, named narrowly (a return is a VIOLATION of this class): nothing differs except that
				// events dated BEFORE time.Time{}.UnixNano() (the earlier model.MinTimestamp, not the least int64) are missing
				var want2 []int
				below := 0
				for _, i := range want {
					if rp.Events[i].Ts < tsLow {
						below++
					} else {
						want2 = append(want2, i)
					}
				}
				if below > 0 && fmt.Sprint(got) == fmt.Sprint(want2) {
					cls = "query-where-drops-ts-below-min-timestamp"
				}
				fail(cls, detail)
			}
			cs.NonTrivial = len(want) > 0 && len(want) < len(rp.Events)
		} else if perr == nil {
			if v := classify(exp, parseTime); v.badLike && !v.other {
				fail("where-like-bad-pattern-accepted", fmt.Sprintf("%s has a malformed LIKE pattern and is answered (with the filter of the condition built before it)", q))
			} else {
				fail("where-unevaluable-accepted", fmt.Sprintf("%s is answered although the filter cannot be evaluated", q))
			}
		} else {
			fail("query-unparsable-accepted", q)
		}
	} else if evaluable && viol == nil {
		fail("where-evaluable-rejected", fmt.Sprintf("%s: %v", q, qerr))
	}
	cs.Oracle = viol
	var cstr []string
	astCaseStrings(exp, &cstr)
	for _, s := range cstr {
		if !inCaseDomain(s) {
			cs.Coq = GApp("KLex", "[]", GSome("[]"), GSome("[]"))
			cs.Key = "skip:" + q
			return cs, nil
		}
	}
	cs.Coq = GApp("KQuery", GStr(rp.Text), tab, gEvents(rp.Events), ret)
	switch {
	case len(rp.Range) == 2:
		cs.Coq = GApp("KQueryRange", GStr(rp.Text), tab, gEvents(rp.Events), GZ(rp.Range[0]), GZ(rp.Range[1]), ret)
		cs.Tags = append(cs.Tags, "query:with-range")
	case tail > 0:
		cs.Coq = GApp("KQueryTail", GStr(rp.Text), tab, gEvents(rp.Events), GNat(tail), ret)
		cs.Tags = append(cs.Tags, "query:tail-offset")
	case rp.Off > 0 || rp.Lim > 0:
		lim := rp.Lim
		if lim <= 0 {
			lim = 10000
		}
		cs.Coq = GApp("KQuerySlice", GStr(rp.Text), tab, gEvents(rp.Events), GNat(rp.Off), GNat(lim), ret)
		cs.Tags = append(cs.Tags, "query:offset-limit")
	}
	if rp.Page > 0 {
		cs.Tags = append(cs.Tags, "query:paged")
	}
	if stale {
		cs.Coq = GApp("KQuery", GStr(rp.Text), tab, gEvents(rp.Events[1:]), ret)
		cs.Tags = append(cs.Tags, "query:on-kept-cursor-of-another-query")
	}
	if rp.Twice {
		cs.Tags = append(cs.Tags, "query:twice")
	}
	if rp.Via == "rpc" {
		cs.Tags = append(cs.Tags, "query:rpc-written")
	}
	if ret == GNone {
		cs.Tags = append(cs.Tags, "query:error")
	} else {
		cs.Tags = append(cs.Tags, "query:answered")
	}
	return cs, nil
}

// ---------------------------------------------------------------- driver

func nontrivialKinds(k map[string]bool) bool {
	n := 0
	for _, c := range []string{"and", "or", "not", "paren"} {
		if k[c] {
			n++
		}
	}
	return n >= 2 || k["func"]
}

func genEvents(r *Rng, tsPool []int64, n int) []Ev {
	evs := make([]Ev, n)
	for i := range evs {
		evs[i] = genEvent(r, tsPool)
	}
	return evs
}

// events with unique (ts, msg) for the stores
func genStore(r *Rng, tsPool []int64, n int) []Ev {
	evs := genEvents(r, tsPool, n)
	for i := range evs {
		evs[i].Ts = tsPool[0] + int64(i)*3 + int64(r.Intn(3))
		if r.Chance(1, 4) && i > 0 {
			evs[i].Ts = evs[i-1].Ts // equal timestamps keep the written order inside one partition
		}
		evs[i].Msg = fmt.Sprintf("%s #%d", evs[i].Msg, i)
	}
	return evs
}

var corpus = []Replay{
	// the witnesses of the repaired defect (a malformed LIKE pattern must be a build error): before the repair of
	// whereeval.go the first built the closure of msg CONTAINS "zzz" alone (the stale closure)
	{Kind: "where", Stream: "corpus", Text: `msg CONTAINS "zzz" AND msg LIKE "[a"`, Events: []Ev{{Ts: 1, Msg: "a zzz b"}, {Ts: 2, Msg: "abc"}, {Ts: 3, Msg: "[a"}}},
	// ... and the second the nil closure, which panics on first use
	{Kind: "where", Stream: "corpus", Text: `msg LIKE "[a"`, Events: []Ev{{Ts: 1, Msg: "abc"}}},
	{Kind: "where", Stream: "corpus", Text: `fields:a LIKE "a[" OR msg PREFIX "x"`, Events: []Ev{{Ts: 1, Msg: "xyz", Fields: [][2]string{{"a", "a["}}}}},
	{Kind: "where", Stream: "corpus", Text: `NOT (ts < 10 OR msg contains "b") AND upper(lower(fields:a)) = "X" OR limit = 5`, Events: []Ev{{Ts: 11, Msg: "c", Fields: [][2]string{{"a", "x"}}}}},
	{Kind: "where", Stream: "corpus", Text: ``, Events: []Ev{{Ts: 1, Msg: "abc"}}},
	{Kind: "where", Stream: "corpus", Text: `NOT NOT msg contains a`, Events: []Ev{{Ts: 1, Msg: "abc"}}},
	{Kind: "where", Stream: "corpus", Text: `'(' msg contains a ')' 'AND' "NOT" fields:b "=" 'x'`, Events: []Ev{{Ts: 1, Msg: "abc"}}},
	{Kind: "where", Stream: "corpus", Text: "msg li\xe2\x84\xaae \"a*\" or msg \xc5\xbfuffix c", Events: []Ev{{Ts: 1, Msg: "abc"}}},
	{Kind: "lex", Text: "select\xc5\xbfelect \xe2\x84\xaa li\xe2\x84\xaae {a=b} or {c=d}\n{x} {} 5kib -5.5e+3 .5 5. 1e 1e5b 'a\\' \"a\\\"b\" <> != <= >= < > [:] fields:x.y/z-1"},
	{Kind: "lex", Text: "a \"unterminated"},
	{Kind: "lex", Text: "a = \"\\q\""},
	{Kind: "lex", Text: "a = '\\x41\\101\\u00e9\\U0001F600\\'"},
	{Kind: "lex", Text: "a = \"\\x80\\377 \xff\xc3\xa9\xe2\x82\""},
	{Kind: "query", Text: `msg CONTAINS "zzz" AND msg LIKE "[a"`, Events: []Ev{{Ts: 1, Msg: "a zzz b"}, {Ts: 2, Msg: "abc"}, {Ts: 3, Msg: "zzz [a"}}},
}

// events dated before 1970 (negative timestamps: the api timestamp is a signed int64), around 0 and at the ends of
// the range the code calls [model.MinTimestamp, model.MaxTimestamp]: a SELECT with WHERE and without RANGE must
// return every one of them for which the expression is true
var tsEvents = []Ev{
	{Ts: tsLow, Msg: "alpha lowest #0", Fields: [][2]string{{"lvl", "err"}}},
	{Ts: tsLow + 1, Msg: "beta low #1", Fields: [][2]string{{"lvl", "err"}}},
	{Ts: -86400 * 1000000000, Msg: "alpha old #2", Fields: [][2]string{{"lvl", "err"}}},
	{Ts: -2, Msg: "beta #3", Fields: [][2]string{{"lvl", "warn"}}},
	{Ts: -1, Msg: "alpha just before the epoch #4", Fields: [][2]string{{"lvl", "err"}}},
	{Ts: 0, Msg: "alpha epoch #5", Fields: [][2]string{{"lvl", "err"}}},
	{Ts: 1, Msg: "beta #6", Fields: [][2]string{{"lvl", "err"}}},
	{Ts: 5, Msg: "alpha new #7"},
	{Ts: 1552307695000000000, Msg: "alpha now #8", Fields: [][2]string{{"lvl", "warn"}}},
	{Ts: 9223372036854775806, Msg: "beta high #9", Fields: [][2]string{{"lvl", "err"}}},
	{Ts: 9223372036854775807, Msg: "alpha highest #10", Fields: [][2]string{{"lvl", "err"}}},
}

// time.Time{}.UnixNano(): what model.MinTimestamp was before it became math.MinInt64 (the lower end of the range a SELECT
// without RANGE is evaluated on); the boundary stays in the stores, events below it must be returned
const tsLow = int64(-6795364578871345152)

var tsQueries = []string{`msg prefix "alpha"`, `fields:lvl = err`, `ts < 1`, `NOT msg contains "beta"`, `ts <= 0 AND msg contains "a"`,
	`ts >= 0 OR fields:lvl = warn`, `msg contains "#"`, `NOT (ts > 5) AND upper(fields:lvl) = "ERR"`, `msg suffix "#0" OR msg suffix "#10" OR ts < 0`}

// the same with events dated before the earlier model.MinTimestamp, down to the least int64 (the repaired defect
// where-drops-ts-below-min-timestamp: the unfiltered SELECT returned them, a SELECT with WHERE and without RANGE did not)
var tsBelowEvents = []Ev{
	{Ts: -9223372036854775808, Msg: "alpha least #0", Fields: [][2]string{{"lvl", "err"}}},
	{Ts: tsLow - 1, Msg: "alpha below #1", Fields: [][2]string{{"lvl", "err"}}},
	{Ts: tsLow, Msg: "alpha lowest #2", Fields: [][2]string{{"lvl", "err"}}},
	{Ts: -1, Msg: "beta #3", Fields: [][2]string{{"lvl", "err"}}},
	{Ts: 3, Msg: "alpha #4"},
}

func tsCases() []Replay {
	var out []Replay
	for _, q := range tsQueries {
		out = append(out, Replay{Kind: "query", Text: q, Events: tsEvents})
	}
	for _, q := range []string{`msg prefix "alpha"`, `fields:lvl = err`, `NOT msg contains "beta"`, `msg contains "beta" OR ts >= 3`} {
		out = append(out, Replay{Kind: "query", Text: q, Events: tsBelowEvents})
	}
	return out
}

const flushDeadline = 30 * time.Second

func main() {
	// time literals are printed and parsed in the local zone: pin it, the verdict must not depend on the host
	time.Local = time.UTC
	Main("C05", "C05K", func(c *Ctx) error {
		var st *store
		getStore := func() (*store, error) {
			if st != nil {
				return st, nil
			}
			srv, err := StartServer(ServerOpts{NoRPC: true})
			if err != nil {
				return nil, err
			}
			st = &store{srv: srv, parts: map[string]string{}}
			return st, nil
		}
		defer func() {
			if st != nil {
				st.srv.Stop()
			}
		}()
		var rst *store
		getRpcStore := func() (*store, error) {
			if rst != nil {
				return rst, nil
			}
			srv, err := StartServer(ServerOpts{})
			if err != nil {
				return nil, err
			}
			rst = &store{srv: srv, parts: map[string]string{}, rpc: true}
			return rst, nil
		}
		defer func() {
			if rst != nil {
				rst.srv.Stop()
			}
		}()
		run := func(rp Replay) error {
			var cs *Case
			var err error
			switch rp.Kind {
			case "where":
				if len(rp.RelLits) > 0 {
					cs, err = relCase(rp)
				} else if len(rp.FixedLits) > 0 {
					cs, err = whereCaseT(rp, rp.FixedLits)
					if err == nil && cs != nil && cs.Oracle == nil {
						for l, want := range rp.FixedLits {
							if got, ok := parseTime(l); !ok || got != want {
								cs.Oracle = &Violation{Class: "ts-literal-value-differs", Detail: fmt.Sprintf("the literal %q denotes %s, parseLqlDateTime says %s (ok=%v)", l, time.Unix(0, want).UTC().Format(time.RFC3339), time.Unix(0, got).UTC().Format(time.RFC3339), ok)}
							}
						}
					}
				} else {
					cs, err = whereCase(rp)
				}
			case "lex":
				cs, err = lexCase(rp)
			case "match":
				cs, err = matchCase(rp)
			case "query":
				get := getStore
				if rp.Via == "rpc" {
					get = getRpcStore
				}
				s, e := get()
				if e != nil {
					return e
				}
				cs, err = queryCase(s, rp)
			default:
				err = fmt.Errorf("unknown case kind %q", rp.Kind)
			}
			if err != nil {
				return err
			}
			if cs == nil {
				c.Tag("dropped:clock-dependent-or-panicking-query")
				return nil
			}
			c.Add(*cs)
			return nil
		}
		if c.Replay != nil {
			var rp Replay
			if err := FromJSON(c.Replay, &rp); err != nil {
				return err
			}
			if err := run(rp); err != nil {
				return err
			}
			return c.Finish(rule)
		}
		for _, rp := range corpus {
			if err := run(rp); err != nil {
				return err
			}
		}
		for _, rp := range append(collisionCases(), funcOpCases()...) {
			if err := run(rp); err != nil {
				return err
			}
		}
		// ---- reject: every kind of unevaluable condition at every position of OR/AND chains and nested/negated groups
		rejWhere, rejQuery := rejectCases()
		for _, rp := range append(rejWhere, rejQuery...) {
			if err := run(rp); err != nil {
				return err
			}
		}
		// ---- timestamps: WHERE without RANGE over events dated before 1970, around 0 and at both ends of the range
		for _, rp := range tsCases() {
			if err := run(rp); err != nil {
				return err
			}
		}
		// ---- edge corpus: the boundaries of the comparisons (deterministic, on every check)
		ew, eq := edgeCorpus()
		for _, rp := range append(ew, eq...) {
			if err := run(rp); err != nil {
				return err
			}
		}
		c.Note("edge corpus", fmt.Sprintf("%d where cases, %d queries", len(ew), len(eq)))
		// ---- 12-hour literals (AM/PM): the instant is computed here; events between the 12-hour and the 24-hour reading
		for _, rp := range ampmCases() {
			if err := run(rp); err != nil {
				return err
			}
		}
		// ---- reltime: ts literals that depend on the clock (relative -<n>(m|h|d), constants minute/hour/day/week)
		nrel := 0
		for _, rp := range relCases() {
			if err := run(rp); err != nil {
				return err
			}
			nrel++
		}
		// ---- rpc: events written through the RPC client (fields as text), then WHERE over their fields
		for _, rp := range rpcCases() {
			if err := run(rp); err != nil {
				return err
			}
		}
		c.Note("reltime stream", fmt.Sprintf("%d cases over %d clock-dependent literals", nrel, len(relLiterals)))
		c.Note("reject stream", fmt.Sprintf("%d unevaluable conditions x %d shapes (+%d controls) as where cases, %d of them end to end", len(rejectBad), len(rejectShapes), len(rejectShapes), len(rejQuery)))
		base := int64(1552307695000000000)
		// ---- where: structured stream
		for i := 0; i < c.N(520); i++ {
			r := c.Rng.Fork()
			tsPool := []int64{base, base + 10, base + 20, 5, 0, -7}
			evs := genEvents(r, tsPool, r.PickInt(4, 6, 8))
			g := &gen{r: r, tsPool: tsPool, kinds: map[string]bool{}, edge: false, maxNest: 3, evs: evs}
			depth := r.PickInt(0, 1, 1, 2, 2, 3, 4, 6)
			text := g.expr(depth)
			rp := Replay{Kind: "where", Stream: "where", Text: text, Events: evs}
			cs, err := whereCase(rp)
			if err != nil {
				return err
			}
			if cs == nil {
				c.Tag("dropped:clock-dependent")
				continue
			}
			cs.NonTrivial = nontrivialKinds(g.kinds) && strings.HasPrefix(cs.Coq, "(KWhere") && !strings.Contains(cs.Coq, "WParseErr") && !strings.Contains(cs.Coq, "WBuildErr")
			cs.Tags = append(cs.Tags, fmt.Sprintf("depth:%d", depth))
			c.Add(*cs)
		}
		// ---- edge: rejected constructs and mutations
		for i := 0; i < c.N(260); i++ {
			r := c.Rng.Fork()
			tsPool := []int64{base, 5, 0}
			g := &gen{r: r, tsPool: tsPool, kinds: map[string]bool{}, edge: true, maxNest: 3}
			text := g.expr(r.PickInt(0, 1, 2, 3))
			if r.Chance(1, 2) {
				text = mutate(r, text)
			}
			rp := Replay{Kind: "where", Stream: "edge", Text: text, Events: genEvents(r, tsPool, 4)}
			if err := run(rp); err != nil {
				return err
			}
		}
		// ---- lex
		for i := 0; i < c.N(150); i++ {
			r := c.Rng.Fork()
			g := &gen{r: r, tsPool: []int64{base, 5}, kinds: map[string]bool{}, edge: true, maxNest: 2}
			text := g.expr(r.PickInt(0, 1, 2))
			switch r.Intn(4) {
			case 0:
				text = "SELECT " + g.quote(genWord(r)) + " FROM {a=b,c=\"d}\"} WHERE " + text + " LIMIT " + r.PickStr("5", "010", "-3", "5kb", "1.5", "1e3", "+7", "08")
			case 1:
				text = mutate(r, text)
			case 2:
				text = mutate(r, mutate(r, text))
			}
			if err := run(Replay{Kind: "lex", Text: text}); err != nil {
				return err
			}
		}
		// ---- match
		for i := 0; i < c.N(150); i++ {
			r := c.Rng.Fork()
			pat := r.PickStr(append(append([]string{}, likePats...), badPats...)...)
			if r.Chance(1, 3) {
				pat = mutate(r, pat+r.PickStr(likePats...))
			} else if r.Chance(1, 3) {
				pat = genWord(r) + pat
			}
			name := r.PickStr(genWord(r), genMsg(r), "abc")
			if err := run(Replay{Kind: "match", Pat: pat, Name: name}); err != nil {
				return err
			}
		}
		// ---- query
		nstores := 6
		var stores [][]Ev
		// stores on different parts of the time axis: now, straddling 0, well before 1970, next to the lower end of the
		// default range, next to the upper end
		storeBases := []int64{base, -30, -86400 * 1000000000 * 365, tsLow, 9223372036854775807 - 200}
		for i := 0; i < nstores; i++ {
			r := c.Rng.Fork()
			b := storeBases[i%len(storeBases)]
			if i >= len(storeBases) {
				b = storeBases[r.Intn(len(storeBases))]
			}
			stores = append(stores, genStore(r, []int64{b}, r.PickInt(12, 20, 30)))
		}
		for i := 0; i < c.N(100); i++ {
			r := c.Rng.Fork()
			evs := stores[r.Intn(nstores)]
			tsPool := []int64{evs[0].Ts, evs[len(evs)/2].Ts, evs[len(evs)-1].Ts}
			if evs[0].Ts < 0 {
				// a negative number is not a time literal of the language: compare with literals around 0 and the store's upper part
				tsPool = []int64{0, 5, 30}
				if last := evs[len(evs)-1].Ts; last >= 0 {
					tsPool = append(tsPool, last)
				}
			}
			g := &gen{r: r, tsPool: tsPool, kinds: map[string]bool{}, edge: r.Chance(1, 8), maxNest: 2, evs: evs}
			text := g.expr(r.PickInt(0, 1, 2, 3))
			rp := Replay{Kind: "query", Text: text, Events: evs}
			switch {
			case evs[0].Ts > 0 && r.Chance(1, 4):
				// WHERE together with an explicit RANGE (bounds at stored timestamps +-1): newFIterator with a time range
				a, b := r.Intn(len(evs)), r.Intn(len(evs))
				if a > b {
					a, b = b, a
				}
				rp.Range = []int64{evs[a].Ts + int64(r.PickInt(-1, 0, 0, 1)), evs[b].Ts + int64(r.PickInt(-1, 0, 0, 1))}
				if rp.Range[1] < rp.Range[0] || rp.Range[1] < 0 {
					rp.Range[1] = rp.Range[0]
				}
			case r.Chance(1, 4):
				// from the tail backward over k matching events
				rp.Tail = r.PickInt(1, 2, 3, 5, 1000)
			case r.Chance(1, 4):
				// a window of the filtered result: Offset 0..(one beyond the end), Limit 1..(beyond the end)
				rp.Off = r.PickInt(0, 1, 2, 5, len(evs)-1, len(evs), len(evs)+1)
				rp.Lim = r.PickInt(0, 1, 2, 3, len(evs), len(evs)+1)
				if rp.Off == 0 && rp.Lim == 0 {
					rp.Lim = 1
				}
			case r.Chance(1, 4):
				rp.Page = r.PickInt(1, 2, 3, 7)
			}
			rp.Twice = r.Chance(1, 6)
			rp.Stale = !rp.Twice && r.Chance(1, 6)
			if err := run(rp); err != nil {
				return err
			}
		}
		return c.Finish(rule)
	})
}
