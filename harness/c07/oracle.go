package main

import (
	"fmt"
	"sort"
	"strings"

	. "verifharness/common"
)

// The property C07 on the implementation's own observations: what the clients were told before the end of a
// session (partitions, acknowledged events, pipe definitions) against what the next start shows.

// recorded findings (known_findings.d/C07.txt): none at present; every class is a violation
var knownClasses = map[string]bool{}

// crashed: the session ended without the shutdown sequence having run (to its end)
func crashed(ss Session) bool { return ss.End != "stop" }

func eqI64(a, b []int64) bool {
	if len(a) != len(b) {
		return false
	}
	for i := range a {
		if a[i] != b[i] {
			return false
		}
	}
	return true
}

func isPrefix(a, b []int64) bool { return len(a) <= len(b) && eqI64(a, b[:len(a)]) }

func has(ss []Surgery, kind string) bool {
	for _, s := range ss {
		if s.Kind == kind {
			return true
		}
	}
	return false
}

// isSubseq: every element of a appears in b, in order
func isSubseq(a, b []int64) bool {
	j := 0
	for _, x := range a {
		for j < len(b) && b[j] != x {
			j++
		}
		if j == len(b) {
			return false
		}
		j++
	}
	return true
}

func oracle(sc *Scenario, tr *trace) (*Violation, bool, bool, []int) {
	var vs []Violation
	add := func(class, f string, a ...interface{}) {
		vs = append(vs, Violation{Class: class, Detail: fmt.Sprintf(f, a...)})
	}
	np := sc.NParts
	acked := make([][]int64, np)   // acknowledged events per partition
	flushed := make([][]int64, np) // ... of which known to be flushed
	registered := make([]bool, np)
	dropped := make([]bool, np) // truncated away completely and not written since
	tidxDamaged := false        // a tree file of the time index was damaged under an intact snapshot at some session end
	positionLost := false       // fwd scenarios: the pipe's progress file was torn
	var dstAtTear []int64
	pipes := map[string]bool{}
	flushedAny, hazard := false, false
	if len(tr.obs) == 0 || !tr.obs[0].Started {
		add("fresh-directory-refused", "the server did not start on an empty directory")
		return &vs[0], false, false, nil
	}
	if sc.Ensure {
		pipes[sc.fwdName()] = true // configured: every start ensures it
	}
	for _, e := range tr.errs {
		switch e {
		case "index-save-failed-write-acknowledged":
			add(e, "a write that creates a partition was acknowledged (or the partition is registered) although the save of the tag index failed")
		default:
			add(e, "the pipe of the server's configuration (EnsureAtStart) is not there after the first start")
		}
	}
	if tr.stepErr != "" {
		add("request-refused", "%s", tr.stepErr)
	}
	// a partition that is there can be read
	for i, o := range tr.obs {
		for p, pv := range o.Parts {
			if pv.Err != "" {
				add("partition-unreadable", "start %d: reading partition %d fails: %s", i, p, pv.Err)
			}
		}
	}
	for i, o := range tr.pre {
		for p, pv := range o.Parts {
			if pv.Err != "" {
				add("partition-unreadable", "session %d, before its end: reading partition %d fails: %s", i, p, pv.Err)
			}
		}
	}
	// what an event carries is what was written, at every read of the scenario
	for i, o := range tr.obs {
		if len(o.Bad) > 0 {
			add("event-content-differs", "start %d: %s", i, strings.Join(o.Bad, "; "))
		}
	}
	for i, o := range tr.pre {
		if len(o.Bad) > 0 {
			add("event-content-differs", "session %d, before its end: %s", i, strings.Join(o.Bad, "; "))
		}
	}
	// the removal of a partition: the directory has to go before the index record (a crash in between must not leave data
	// without a record: the server would refuse to start)
	for i, o := range tr.drops {
		if o == "record-first" {
			add("drop-removes-record-before-directory", "partition removal %d of the scenario: the tag index without the partition's record was in place before the partition's directory was removed", i)
		}
	}
	// partitions whose time index got ahead of the journal: acknowledged records were lost at the end of a session
	tainted := make([]bool, np)
	// a crash (or the substitution of an older snapshot) leaves cindex.dat behind the chunks; the staleness persists over later
	// sessions - also cleanly stopped ones - as long as nothing makes the time index look at the partition's chunks again:
	// the cause is remembered per partition until a RANGE answer for it is complete again
	staleCause := make([]string, np)
	taintList := func() []int {
		var l []int
		for p, t := range tainted {
			if t {
				l = append(l, p)
			}
		}
		return l
	}
	for si, ss := range sc.Sessions {
		if si+1 >= len(tr.obs) || !tr.obs[si].Started || si >= len(tr.pre) {
			break
		}
		pre := tr.pre[si]
		for _, st := range ss.Steps {
			switch st.Op {
			case "write":
				registered[st.Part] = true
				dropped[st.Part] = false
				acked[st.Part] = append(acked[st.Part], st.Ts...)
			case "drop":
				// truncated away completely: the partition, what it held and what its time index said are gone
				registered[st.Part], acked[st.Part], flushed[st.Part] = false, nil, nil
				dropped[st.Part], tainted[st.Part] = true, false
			case "burst":
				for _, n := range st.Create {
					pipes[n] = true
				}
				for _, n := range st.Delete {
					delete(pipes, n)
				}
			case "fwdpipe":
				pipes[sc.fwdName()] = true
			case "round":
				// everything is flushed, the pipe has forwarded the source's flushed events (once, in order), its destination
				// is flushed; the write of the round is acknowledged
				for p := range acked {
					flushed[p] = append([]int64{}, acked[p]...)
				}
				dst := np - 1
				acked[dst] = append([]int64{}, acked[0]...)
				flushed[dst] = append([]int64{}, acked[0]...)
				registered[dst] = true // the worker's (possibly empty) write registers the destination
				if len(flushed[dst]) > 0 {
					flushedAny = true
				}
				registered[0] = true
				acked[0] = append(acked[0], st.Ts...)
			case "sync":
				for p := range acked {
					flushed[p] = append([]int64{}, acked[p]...)
					if len(flushed[p]) > 0 {
						flushedAny = true
					}
				}
			case "pipe":
				pipes[st.Name] = true
			case "delpipe":
				delete(pipes, st.Name)
			}
		}
		taintedInSession := append([]bool{}, tainted...) // lost records at an earlier end, not truncated away since
		if crashed(ss) || len(ss.Surgery) > 0 {
			hazard = true
		}
		for p := range acked {
			if len(acked[p]) != len(flushed[p]) {
				hazard = true // a graceful stop has to flush them; a crash may lose them ...
				if crashed(ss) {
					tainted[p] = true // ... and then the time index describes records the journal does not have
				}
			}
		}
		// in the session, just before its end: a time-range query must show every event in the range that a plain read
		// shows (the harness asked again for a while: an index found inconsistent by a write is rebuilt in the background)
		for p := 0; p < np && p < len(pre.Parts); p++ {
			if !pre.Parts[p].Exists || rangeComplete(sc, pre.Parts[p].Events, pre.Ranges[p]) {
				if pre.Parts[p].Exists {
					staleCause[p] = "" // the index covers the chunk again
				}
				continue
			}
			if so := tr.obs[si]; !so.Blind && p < len(so.Parts) && so.Parts[p].Exists && !rangeComplete(sc, so.Parts[p].Events, so.Ranges[p]) {
				continue // already short at the start of this session: reported (and classified) there
			}
			reason := "unexplained-in-session"
			if si > 0 {
				prev := sc.Sessions[si-1]
				switch {
				case taintedInSession[p]:
					reason = "index-ahead-of-journal"
				case has(prev.Surgery, "cindex-stale"):
					reason = "cindex-stale"
				case crashed(prev):
					reason = "after-kill"
				case staleCause[p] != "":
					reason = staleCause[p]
				}
			}
			add("range-hides-events:"+reason, "session %d, before its end: partition %d holds %v, RANGE [%d:%d] answers %v", si, p, pre.Parts[p].Events, sc.Range[0], sc.Range[1], pre.Ranges[p])
		}
		for p := range staleCause {
			if has(ss.Surgery, "cindex-stale") {
				staleCause[p] = "cindex-stale"
			} else if crashed(ss) && staleCause[p] == "" {
				staleCause[p] = "after-kill"
			}
		}
		// a partition whose directory the surgery removed was being truncated away when the server crashed: the removal was
		// not acknowledged, the partition may still be there, but what it held is gone (with what its time index said)
		wiped := make([]bool, np)
		for _, g := range ss.Surgery {
			if g.Kind == "drop-window" && g.Part < np && registered[g.Part] {
				acked[g.Part], flushed[g.Part] = nil, nil
				tainted[g.Part], staleCause[g.Part] = false, ""
				wiped[g.Part] = true
			}
		}
		if has(ss.Surgery, "progress-torn") && !positionLost {
			positionLost = true
			dstAtTear = append([]int64{}, acked[np-1]...)
		}
		if has(ss.Surgery, "tidx-short") || has(ss.Surgery, "tidx-zero") || has(ss.Surgery, "tidx-drop") {
			tidxDamaged = true
		}
		S := ss.Surgery
		o := tr.obs[si+1]
		if o.Blind {
			// nothing was asked at this start: what the next session finds is checked at its end and at the start after it
			// (the generator ends the session before a blind start with everything flushed, so nothing may be lost here)
			continue
		}
		where := fmt.Sprintf("start %d (session ended by %s, surgery %v)", si+1, ss.End, S)
		if !o.Started && (has(S, "tindex-damaged") || has(S, "pipes-damaged") || has(S, "record-removed")) {
			break // a file damaged from outside (no saver leaves it so): the refusal is the loader's duty, the model decides (K)
		}
		if !o.Started {
			reason := "unexplained-after-" + ss.End
			switch {
			case strings.Contains(o.Err, "tindex") && strings.Contains(o.Err, "inconsistent") && has(S, "drop-window"):
				reason = "tindex-orphan"
			case strings.Contains(o.Err, "tindex") && strings.Contains(o.Err, "inconsistent") && has(S, "tindex-torn"):
				reason = "tindex-renamed" // the saver had moved tindex.dat away when it died
			case strings.Contains(o.Err, "tindex") && strings.Contains(o.Err, "JSON") && has(S, "tindex-torn"):
				reason = "tindex-torn"
			case strings.Contains(o.Err, "pipe.Service") && pipes["s"]:
				reason = "pipe-name-collides-with-registry-file" // the pipe named "s": its pipe<name>.dat is pipes.dat
			case strings.Contains(o.Err, "pipe.Service") && has(S, "progress-torn"):
				reason = "pipe-progress-torn"
			case strings.Contains(o.Err, "pipe.Service") && ss.End == "crash-stop":
				reason = "pipes-torn"
			}
			add("refuses-start:"+reason, "%s: the server refuses to start: %s", where, o.Err)
			break
		}
		for p := range wiped {
			if wiped[p] && !o.Parts[p].Exists {
				registered[p] = false // the removal went through
			}
		}
		var want []string
		for n := range pipes {
			want = append(want, n)
		}
		sort.Strings(want)
		for p := 0; p < np; p++ {
			pv := o.Parts[p]
			if registered[p] && !pv.Exists {
				reason := "unexplained-after-" + ss.End
				if has(S, "tindex-torn") {
					reason = "tindex-renamed" // the saver had moved tindex.dat away when it died
				}
				add("partition-lost:"+reason, "%s: partition %d was acknowledged and is gone", where, p)
				registered[p], acked[p], flushed[p] = false, nil, nil
				continue
			}
			if !registered[p] {
				if pv.Exists && dropped[p] {
					add("dropped-partition-back-after-"+ss.End, "%s: partition %d was truncated away completely and is there again (events %v)", where, p, pv.Events)
					dropped[p] = false
				} else if pv.Exists {
					add("partition-appeared", "%s: partition %d was never written", where, p)
				}
				continue
			}
			switch {
			case eqI64(pv.Events, acked[p]):
			case sc.Kind == "fwd" && p == np-1 && positionLost:
				// after a crash that cost the pipe its position nothing is claimed about its progress: it may pass events
				// over; it must not forward one twice, invent one or lose what its destination held
				if !isPrefix(dstAtTear, pv.Events) || !isSubseq(pv.Events, acked[0]) {
					add("events-differ-after-"+ss.End, "%s: partition %d (destination of the pipe that lost its position): held %v, the source was told %v, now %v", where, p, dstAtTear, acked[0], pv.Events)
				}
			case isPrefix(flushed[p], pv.Events) && isPrefix(pv.Events, acked[p]):
				// a crash may lose what was not flushed yet; a graceful stop may not
				if !crashed(ss) {
					add("clean-stop-loses-acknowledged-events", "%s: partition %d: acknowledged %v, after the graceful stop and restart %v", where, p, acked[p], pv.Events)
				}
			default:
				add("events-differ-after-"+ss.End, "%s: partition %d: acknowledged %v (flushed %v), now %v", where, p, acked[p], flushed[p], pv.Events)
			}
			// time-range queries: nothing that was visible in the range before the end is hidden now, nothing is invented
			var inr []int64
			for _, t := range pv.Events {
				if t >= sc.Range[0] && t <= sc.Range[1] {
					inr = append(inr, t)
				}
			}
			var before []int64
			if p < len(pre.Ranges) && !wiped[p] {
				before = pre.Ranges[p]
			}
			// (timestamps increase per partition and the bounds fall between timestamps, so the answer is exactly the
			// events in range: ties and out-of-order arrivals, where the index itself errs, are C02's business)
			if !isSubseq(before, o.Ranges[p]) || !isSubseq(inr, o.Ranges[p]) {
				reason := "unexplained-after-" + ss.End
				if tainted[p] {
					reason = "index-ahead-of-journal"
				} else if has(S, "cindex-stale") {
					reason = "cindex-stale"
				} else if crashed(ss) {
					reason = "after-kill"
				} else if staleCause[p] != "" {
					reason = staleCause[p]
				} else if tidxDamaged {
					reason = "tidx-damaged" // the index trees were damaged under an intact snapshot earlier in this scenario
				}
				add("range-hides-events:"+reason, "%s: partition %d holds %v, RANGE [%d:%d] answered %v before and answers %v now", where, p, pv.Events, sc.Range[0], sc.Range[1], before, o.Ranges[p])
			} else if !isSubseq(o.Ranges[p], inr) {
				add("range-invents-events", "%s: partition %d holds %v, RANGE [%d:%d] answers %v", where, p, pv.Events, sc.Range[0], sc.Range[1], o.Ranges[p])
			} else {
				staleCause[p] = "" // complete: the index covers the chunks again
			}
			acked[p] = append([]int64{}, pv.Events...)
			flushed[p] = append([]int64{}, pv.Events...)
		}
		if fmt.Sprint(want) != fmt.Sprint(o.Pipes) && !(len(want) == 0 && len(o.Pipes) == 0) {
			lost, back := false, false
			have := map[string]bool{}
			for _, n := range o.Pipes {
				have[n] = true
				if !pipes[n] {
					back = true
				}
			}
			for n := range pipes {
				if !have[n] {
					lost = true
				}
			}
			crashy := crashed(ss)
			switch {
			case crashy && lost:
				add("crash-loses-pipe-definition", "%s: acknowledged pipes %v, after the crash %v", where, want, o.Pipes)
			case crashy && back:
				add("crash-resurrects-deleted-pipe", "%s: acknowledged pipes %v, after the crash %v", where, want, o.Pipes)
			default:
				add("pipes-differ-after-"+ss.End, "%s: acknowledged pipes %v, now %v", where, want, o.Pipes)
			}
			pipes = have
		}
	}
	for i := range vs {
		if !knownClasses[vs[i].Class] {
			return &vs[i], flushedAny, hazard, taintList()
		}
	}
	if len(vs) > 0 {
		return &vs[0], flushedAny, hazard, taintList()
	}
	return nil, flushedAny, hazard, taintList()
}
