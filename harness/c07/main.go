// C07 harness: the assembled server runs in a child process of this binary ("serve" mode); the parent runs
// scenarios - histories of writes / flushes / pipe operations ending in a graceful stop or a SIGKILL, optional
// file surgery on the stopped directory (the crash-shaped states of the metadata savers), restart - and
// records what the restarted server shows. K: the Coq model (model/Persist.v) predicts the same observation
// from the scenario; O: the property on the observations (what was acknowledged before is there after).
package main

import (
	"bufio"
	"encoding/json"
	"fmt"
	"io"
	"os"
	"os/exec"
	"syscall"
	"time"

	. "verifharness/common"
)

type child struct {
	cmd *exec.Cmd
	in  *json.Encoder
	out *bufio.Reader
	w   interface{ Close() error }
}

const answerDeadline = 60 * time.Second

func startChild(dir string, flushMs int) (*child, bool, string, error) {
	return startChildLim(dir, flushMs, -1)
}

// startRealChild: the child's server is run by server.Start (see real.go)
func startRealChild(dir string) (*child, bool, string, error) {
	return startChildMode("serve-real", dir, 20, -1)
}

// crashStart: the server is started with the file size limit k (see crashAtFileSize): the first saver of the start-up
// sequence that writes more than k bytes to a file dies inside the write. Returns how the start ended:
// "died:<signal>", "refused" (Init failed before any such write) or "started" (no write reached the limit; the
// process is then killed, which is a session without steps ended by SIGKILL).
func crashStart(dir string, k int64) (string, error) {
	cmd := exec.Command(os.Args[0], "serve", dir, "600000", fmt.Sprint(k))
	stdin, err := cmd.StdinPipe()
	if err != nil {
		return "", err
	}
	stdout, err := cmd.StdoutPipe()
	if err != nil {
		return "", err
	}
	if err := cmd.Start(); err != nil {
		return "", err
	}
	c := &child{cmd: cmd, in: json.NewEncoder(stdin), out: bufio.NewReader(stdout), w: stdin}
	a, rerr := c.read()
	if rerr == nil && a.Started {
		c.kill()
		return "started", nil
	}
	if rerr == nil {
		cmd.Wait()
		return "refused", nil
	}
	if rerr != io.EOF {
		c.kill()
		return "", fmt.Errorf("crash injection at start: %v", rerr)
	}
	return waitDeath(cmd), nil
}

func waitDeath(cmd *exec.Cmd) string {
	err := cmd.Wait()
	if ee, ok := err.(*exec.ExitError); ok {
		if ws, ok := ee.Sys().(syscall.WaitStatus); ok && ws.Signaled() {
			if ws.Signal() == syscall.SIGXFSZ {
				return "died:SIGXFSZ"
			}
			return fmt.Sprintf("died:signal-%d", int(ws.Signal()))
		}
		return fmt.Sprintf("exited:%d", ee.ExitCode())
	}
	return "exited:0"
}

func startChildLim(dir string, flushMs int, lim int64) (*child, bool, string, error) {
	return startChildMode("serve", dir, flushMs, lim)
}

// startEnsureChild: the forwarding pipe is in the server's configuration (EnsureAtStart)
func startEnsureChild(dir string, flushMs int, name string) (*child, bool, string, error) {
	return startChildMode("serve", dir, flushMs, -1, "ensure:"+name)
}

func startChildMode(mode, dir string, flushMs int, lim int64, more ...string) (*child, bool, string, error) {
	cmd := exec.Command(os.Args[0], append([]string{mode, dir, fmt.Sprint(flushMs), fmt.Sprint(lim)}, more...)...)
	stdin, err := cmd.StdinPipe()
	if err != nil {
		return nil, false, "", err
	}
	stdout, err := cmd.StdoutPipe()
	if err != nil {
		return nil, false, "", err
	}
	cmd.Stderr = nil
	if err := cmd.Start(); err != nil {
		return nil, false, "", err
	}
	c := &child{cmd: cmd, in: json.NewEncoder(stdin), out: bufio.NewReader(stdout), w: stdin}
	a, err := c.read()
	if err != nil {
		cmd.Process.Kill()
		cmd.Wait()
		return nil, false, "", fmt.Errorf("child did not report: %v", err)
	}
	if !a.Started {
		cmd.Wait()
		return nil, false, a.Err, nil
	}
	return c, true, "", nil
}

func (c *child) read() (Ans, error) {
	type res struct {
		a   Ans
		err error
	}
	ch := make(chan res, 1)
	go func() {
		line, err := c.out.ReadBytes('\n')
		if err != nil {
			ch <- res{err: err}
			return
		}
		var a Ans
		err = json.Unmarshal(line, &a)
		ch <- res{a, err}
	}()
	select {
	case r := <-ch:
		return r.a, r.err
	case <-time.After(answerDeadline):
		return Ans{}, fmt.Errorf("no answer from the server process within %v", answerDeadline)
	}
}

func (c *child) do(cmd Cmd) (Ans, error) {
	if err := c.in.Encode(cmd); err != nil {
		return Ans{}, err
	}
	a, err := c.read()
	if err != nil {
		return a, err
	}
	if !a.Ok {
		return a, fmt.Errorf("%s: %s", cmd.Op, a.Err)
	}
	return a, nil
}

// stop: graceful shutdown, the process exits by itself
func (c *child) stop() error {
	if _, err := c.do(Cmd{Op: "stop"}); err != nil {
		c.kill()
		return err
	}
	done := make(chan error, 1)
	go func() { done <- c.cmd.Wait() }()
	select {
	case <-done:
		return nil
	case <-time.After(answerDeadline):
		c.kill()
		return fmt.Errorf("server process did not exit after a graceful stop")
	}
}

// crashStop: the shutdown sequence starts under the file size limit k: its first saver that writes more than k bytes to
// a file dies inside the write. Returns "died:<signal>", or "stopped" when the whole sequence ran (no write reached k).
func (c *child) crashStop(k int64) (string, error) {
	if err := c.in.Encode(Cmd{Op: "stop", Lim: &k}); err != nil {
		c.kill()
		return "", err
	}
	_, rerr := c.read()
	if rerr != nil && rerr != io.EOF {
		c.kill()
		return "", fmt.Errorf("crash injection at stop: %v", rerr)
	}
	done := make(chan string, 1)
	go func() { done <- waitDeath(c.cmd) }()
	select {
	case how := <-done:
		if rerr == nil {
			return "stopped", nil
		}
		return how, nil
	case <-time.After(answerDeadline):
		c.kill()
		return "", fmt.Errorf("server process neither died nor exited after a stop under a file size limit")
	}
}

// crashCreate: a write to a partition that does not exist yet, under the file size limit k: the partition's record makes
// the tag index longer than k, the process dies inside the save of the index (the write is not acknowledged).
// Returns "died:<signal>", or "survived" when the write was answered (the process is then killed).
func (c *child) crashCreate(tags string, k int64) (string, error) {
	if err := c.in.Encode(Cmd{Op: "write", Tags: tags, Ts: []int64{1}, Lim: &k}); err != nil {
		c.kill()
		return "", err
	}
	_, rerr := c.read()
	if rerr == nil {
		c.kill()
		return "survived", nil
	}
	if rerr != io.EOF {
		c.kill()
		return "", fmt.Errorf("crash injection at a partition creation: %v", rerr)
	}
	return waitDeath(c.cmd), nil
}

// kill: SIGKILL, nothing gets a chance to run
func (c *child) kill() {
	c.cmd.Process.Signal(syscall.SIGKILL)
	c.cmd.Wait()
}

func main() {
	if len(os.Args) > 1 && os.Args[1] == "serve" {
		Quiet()
		serveMain(os.Args[2:])
		return
	}
	if len(os.Args) > 1 && os.Args[1] == "serve-real" {
		Quiet()
		serveRealMain(os.Args[2:])
		return
	}
	Main("C07", "C07K", run)
}
