package main

import (
	"fmt"
	"sort"
	"strings"

	. "verifharness/common"
)

// the numbers of the pipes in the model: pa..pd never match a partition, pf forwards; "s" is the name whose progress file
// pipe<name>.dat is pipes.dat (reg_twin in model/Persist.v is 5)
var pipeNames = []string{"pa", "pb", "pc", "pd", fwdPipe, "s",
	"PA", "P A", "x/y", "ÿ☃", "", "../up", "n" + strings.Repeat("n", 199), "P F"}

// idlePool: the names for pipes that never match a partition (simple names, the registry's twin "s", a name that differs
// from another in case only, names with a blank, a slash, non-ASCII letters, the empty name, a path that climbs, 200 bytes)
var idlePool = []string{"pa", "pb", "pc", "pd", "s", "PA", "P A", "x/y", "ÿ☃", "", "../up", "n" + strings.Repeat("n", 199)}

// lqlPool: names the LQL statement CREATE PIPE <name> can carry (stream real)
var lqlPool = []string{"pa", "pb", "pc", "pd", "s", "PA"}

// fwdPool: names of the forwarding pipe (its progress file is pipe<escaped name>.dat)
var fwdPool = []string{fwdPipe, fwdPipe, "s", "x/y", "P F"}

func pipeIndex(n string) int {
	for i, p := range pipeNames {
		if p == n {
			return i
		}
	}
	var k int
	if _, err := fmt.Sscanf(n, "b%d", &k); err == nil {
		return 100 + k // the pipes of the concurrent bursts
	}
	return -1
}

// ---------------------------------------------------------------- generator

// tearPoints: where a file is cut: n per mille of its length (0..999), 1000+b = after b bytes, 2000+b = b bytes before its
// end (always a proper prefix: see tornPrefix)
var tearPoints = []int{0, 1, 250, 500, 900, 999, 1001, 1002, 1017, 2001, 2002, 2009}

// tsBases: what is added to every timestamp of a scenario (the generators count up from 10): small positive numbers;
// numbers around zero (the time index uses "MaxTs > 0" for "known"); negative ones; today's nanoseconds; both ends of int64
var tsBases = []int64{0, 0, 0, 0, -37, -1000003, 1600000000000000000, 9223372036854775807 - 100000, -9223372036854775808 + 100000}

// restyle: the dimensions every generator shares, chosen per scenario: the base of the timestamps, ties (a write whose
// first two events carry the same timestamp), the shape of the partitions' tags, a small chunk size (many chunks per
// partition)
func restyle(sc *Scenario, r *Rng) {
	base := tsBases[r.Intn(len(tsBases))]
	ties := r.Chance(1, 6)
	for si := range sc.Sessions {
		for ti := range sc.Sessions[si].Steps {
			st := &sc.Sessions[si].Steps[ti]
			if len(st.Ts) >= 2 && ties && sc.Kind != "fwd" {
				st.Ts[1] = st.Ts[0]
			}
			for i := range st.Ts {
				st.Ts[i] += base
			}
		}
	}
	sc.Range[0] += base
	sc.Range[1] += base
	sc.TagStyle = r.PickInt(0, 0, 0, 1, 2, 3, 4)
	if sc.Kind == "gen" && r.Chance(1, 5) {
		sc.Chunk = r.PickInt(300, 1000, 4000) // bytes: a chunk takes a handful of events
		// a chunk that is full is flushed when the writer moves on: a crash then loses the unflushed tail of the LAST chunk
		// only, which the model (one buffer per partition) does not tell: with many chunks a crash comes after a flush
		for si := range sc.Sessions {
			if sc.Sessions[si].End != "stop" {
				sc.Sessions[si].Steps = append(sc.Sessions[si].Steps, Step{Op: "sync"})
			}
		}
	}
}

// genFwd: a pipe from partition 0 to its destination partition (the last one), graceful restarts only: rounds of "flush,
// write to the source, wait for the pipe to catch up with what is flushed"; the destination must hold every flushed
// source event exactly once, also after the pipe resumed from its persisted progress
func genFwd(r *Rng) Scenario {
	sc := Scenario{Kind: "fwd", NParts: 2, Pipe: r.PickStr(fwdPool...)}
	nsess := r.PickInt(2, 2, 3)
	var next int64
	var all []int64
	for s := 0; s < nsess; s++ {
		ss := Session{End: "stop"}
		if s == 0 {
			sc.Ensure = r.Chance(1, 3)
			if !sc.Ensure {
				ss.Steps = append(ss.Steps, Step{Op: "fwdpipe", Name: sc.Pipe})
			}
		}
		for k, rounds := 0, r.Range(1, 3); k < rounds; k++ {
			var ts []int64
			for i, n := 0, r.Range(1, 4); i < n; i++ {
				next += int64(r.Range(1, 3))
				ts = append(ts, next*10)
			}
			all = append(all, ts...)
			ss.Steps = append(ss.Steps, Step{Op: "round", Ts: ts})
		}
		if s == nsess-1 && r.Chance(1, 3) {
			// the last session ends by SIGKILL (after a crash nothing is claimed about the pipe's progress: the scenario ends
			// with the start that follows): the server has to start, the pipe has to be there
			ss.End = "kill"
		} else if r.Chance(1, 3) {
			// a crash inside the in-place rewrite of the pipe's progress file (as left by its last save)
			ss.Surgery = []Surgery{{Kind: "progress-torn", Name: sc.Pipe, K: r.PickInt(tearPoints...)}}
		}
		sc.Sessions = append(sc.Sessions, ss)
	}
	a, b := all[r.Intn(len(all))], all[r.Intn(len(all))]
	if a > b {
		a, b = b, a
	}
	sc.Range = [2]int64{a - 5, b + 5}
	return sc
}

// genReal: the server is run by server.Start and driven through its RPC endpoint only; the flush timer runs (20 ms), a
// "sync" waits until what was acknowledged can be read. Graceful stops (the context of server.Start is cancelled) may
// come right after an acknowledgement; a SIGKILL comes after a sync
func genReal(r *Rng) Scenario {
	sc := Scenario{Kind: "real", NParts: r.PickInt(1, 2, 2)}
	next := make([]int64, sc.NParts)
	exists := map[string]bool{}
	written := make([]bool, sc.NParts)
	var all []int64
	for s, nsess := 0, r.PickInt(1, 2, 2, 3); s < nsess; s++ {
		ss := Session{End: "stop"}
		if r.Chance(1, 3) {
			ss.End = "kill"
		}
		for k, nsteps := 0, r.Range(1, 5); k < nsteps; k++ {
			switch x := r.Intn(100); {
			case x < 5:
				for q := 0; q < sc.NParts; q++ {
					if written[q] {
						written[q] = false
						ss.Steps = append(ss.Steps, Step{Op: "drop", Part: q})
						break
					}
				}
			case x < 60:
				p := r.Intn(sc.NParts)
				var ts []int64
				for i, n := 0, r.Range(1, 3); i < n; i++ {
					next[p] += int64(r.Range(1, 3))
					ts = append(ts, next[p]*10+int64(p))
				}
				all = append(all, ts...)
				written[p] = true
				ss.Steps = append(ss.Steps, Step{Op: "write", Part: p, Ts: ts})
				if r.Chance(1, 2) {
					ss.Steps = append(ss.Steps, Step{Op: "sync"})
				}
			case x < 85:
				n := r.PickStr(lqlPool...)
				if !exists[n] {
					exists[n] = true
					ss.Steps = append(ss.Steps, Step{Op: "pipe", Name: n})
				}
			default:
				for _, n := range lqlPool {
					if exists[n] {
						delete(exists, n)
						ss.Steps = append(ss.Steps, Step{Op: "delpipe", Name: n})
						break
					}
				}
			}
		}
		if ss.End == "kill" {
			ss.Steps = append(ss.Steps, Step{Op: "sync"})
		}
		sc.Sessions = append(sc.Sessions, ss)
	}
	sc.Range = [2]int64{1, 100}
	if len(all) > 0 {
		a, b := all[r.Intn(len(all))], all[r.Intn(len(all))]
		if a > b {
			a, b = b, a
		}
		sc.Range = [2]int64{a - 5, b + 5}
	}
	return sc
}

// genBurst: one session of bursts of concurrent pipe creations and deletions (every burst creates w new pipes and deletes
// the pipes of the burst before), ended by SIGKILL - at once when, after a burst, the definitions' file is not what was
// acknowledged; then the start: the definitions must be the acknowledged ones
func genBurst(r *Rng, bursts int) Scenario {
	sc := Scenario{Kind: "burst", NParts: 1, Range: [2]int64{1, 100}}
	w := r.PickInt(6, 12, 24)
	ss := Session{End: "kill"}
	var prev []string
	for b := 0; b < bursts; b++ {
		// two sets of names take turns (a deleted name is created again two bursts later; small numbers for the model)
		var cr []string
		for i := 0; i < w; i++ {
			cr = append(cr, fmt.Sprintf("b%d", (b%2)*w+i))
		}
		ss.Steps = append(ss.Steps, Step{Op: "burst", Create: cr, Delete: prev})
		prev = cr
	}
	sc.Sessions = []Session{ss}
	return sc
}

func genScenario(r *Rng) Scenario {
	if r.Chance(1, 25) {
		return genBurst(r, 60)
	}
	sc := genShape(r)
	restyle(&sc, r)
	return sc
}

func genShape(r *Rng) Scenario {
	if r.Chance(1, 12) {
		return genFwd(r)
	}
	if r.Chance(1, 12) {
		return genReal(r)
	}
	sc := Scenario{Kind: "gen", NParts: r.PickInt(1, 2, 2, 3)}
	written := make([]bool, sc.NParts) // the partition exists (as far as the generator can tell)
	next := make([]int64, sc.NParts)   // next timestamp step per partition
	exists := map[string]bool{}
	nsess := r.PickInt(1, 1, 2, 2, 3)
	var all []int64
	for s := 0; s < nsess; s++ {
		ss := Session{End: "stop"}
		switch x := r.Intn(100); {
		case x < 32:
			ss.End = "kill"
		case x < 45:
			ss.End, ss.EndK = "crash-stop", r.PickInt(tearPoints...)
		case x < 53:
			ss.End, ss.EndK = "crash-create", r.PickInt(1, 5, 15, 25, 35)
		}
		if s > 0 && r.Chance(1, 4) {
			// a blind start: the first thing the server is asked is a write. Everything of the session before has to be
			// flushed (a crash must not lose anything: what is there is checked later only), and half of the time that
			// session ended gracefully and lost its time-index snapshot
			ss.Blind = true
			prev := &sc.Sessions[s-1]
			if prev.End != "stop" {
				prev.Steps = append(prev.Steps, Step{Op: "sync"})
			} else if len(prev.Surgery) == 0 && r.Chance(2, 3) {
				prev.Surgery = []Surgery{{Kind: r.PickStr("cindex-drop", "cindex-torn"), K: r.PickInt(tearPoints...)}}
			}
			p := r.Intn(sc.NParts)
			for q := 0; q < sc.NParts; q++ {
				if written[q] {
					p = q
				}
			}
			next[p] += int64(r.Range(1, 3))
			ts := []int64{next[p]*10 + int64(p)}
			all = append(all, ts...)
			written[p] = true
			ss.Steps = append(ss.Steps, Step{Op: "write", Part: p, Ts: ts}, Step{Op: "sync"})
			if r.Chance(1, 3) {
				// ... with the index rebuilder held: the session is that one write (once more, sometimes), flushed or not, and
				// its end: the chunk's info is still marked partial when the snapshot is written
				ss.Hold = true
				ss.Steps = ss.Steps[:1]
				if r.Chance(1, 2) {
					next[p] += int64(r.Range(1, 3))
					ts2 := []int64{next[p]*10 + int64(p)}
					all = append(all, ts2...)
					ss.Steps = append(ss.Steps, Step{Op: "write", Part: p, Ts: ts2})
				}
				if r.Chance(1, 2) || ss.End != "stop" {
					ss.Steps = append(ss.Steps, Step{Op: "sync"})
				}
				sc.Sessions = append(sc.Sessions, ss)
				continue
			}
		}
		nsteps := r.Range(0, 6) // 0: the server is started and stopped (or killed) at once
		for k := 0; k < nsteps; k++ {
			x := r.Intn(100)
			if r.Chance(1, 20) {
				// the same request again, requests about what is not there: a pipe that exists is created, a pipe or a partition
				// that does not exist is removed, nothing is flushed twice (none of it may change anything)
				switch r.Intn(4) {
				case 0:
					ss.Steps = append(ss.Steps, Step{Op: "pipe", Name: r.PickStr(idlePool...)})
					exists[ss.Steps[len(ss.Steps)-1].Name] = true
				case 1:
					n := r.PickStr(idlePool...)
					delete(exists, n)
					ss.Steps = append(ss.Steps, Step{Op: "delpipe", Name: n})
				case 2:
					p := r.Intn(sc.NParts)
					written[p] = false
					ss.Steps = append(ss.Steps, Step{Op: "drop", Part: p})
				default:
					ss.Steps = append(ss.Steps, Step{Op: "sync"}, Step{Op: "sync"})
				}
				continue
			}
			switch {
			case x < 6:
				var have []int
				for q := 0; q < sc.NParts; q++ {
					if written[q] {
						have = append(have, q)
					}
				}
				if len(have) > 0 {
					p := have[r.Intn(len(have))]
					written[p] = false
					ss.Steps = append(ss.Steps, Step{Op: "drop", Part: p})
				}
			case x < 9:
				ss.Steps = append(ss.Steps, Step{Op: "failcreate"})
			case x < 50:
				p := r.Intn(sc.NParts)
				written[p] = true
				n := r.Range(1, 3)
				var ts []int64
				for i := 0; i < n; i++ {
					next[p] += int64(r.Range(1, 3))
					ts = append(ts, next[p]*10+int64(p))
				}
				all = append(all, ts...)
				ss.Steps = append(ss.Steps, Step{Op: "write", Part: p, Ts: ts})
			case x < 75:
				ss.Steps = append(ss.Steps, Step{Op: "sync"})
			case x < 90:
				n := r.PickStr(idlePool...)
				if !exists[n] {
					exists[n] = true
					ss.Steps = append(ss.Steps, Step{Op: "pipe", Name: n})
				}
			default:
				var have []string
				for _, n := range idlePool {
					if exists[n] {
						have = append(have, n)
					}
				}
				if len(have) > 0 {
					n := have[r.Intn(len(have))]
					delete(exists, n)
					ss.Steps = append(ss.Steps, Step{Op: "delpipe", Name: n})
				}
			}
		}
		if ss.End == "stop" && r.Chance(1, 2) {
			kinds := []string{"tindex-torn", "tindex-torn", "drop-window", "cindex-drop", "cindex-torn", "cindex-stale", "cindex-stale", "tidx-drop", "tidx-short", "tidx-zero"}
			n := r.PickInt(1, 1, 1, 2)
			for i := 0; i < n; i++ {
				ss.Surgery = append(ss.Surgery, Surgery{Kind: kinds[r.Intn(len(kinds))], K: r.PickInt(tearPoints...), Part: r.Intn(sc.NParts)})
			}
		}
		if ss.End != "stop" && r.Chance(1, 6) {
			// a second crash right after the first: the start that follows dies inside the tag-index save
			ss.Surgery = append(ss.Surgery, Surgery{Kind: "tindex-torn", K: r.PickInt(tearPoints...)})
		}
		// (the pipe definitions survive a crash: the generator's picture of which pipes exist stays as it is)
		sc.Sessions = append(sc.Sessions, ss)
	}
	// the probe range: around a timestamp that was written
	if len(all) > 0 {
		a := all[r.Intn(len(all))]
		b := all[r.Intn(len(all))]
		if a > b {
			a, b = b, a
		}
		// the bounds never coincide with a timestamp (all are 10k+p, p < 3): ties at a RANGE bound are C02's business
		sc.Range = [2]int64{a + int64(r.PickInt(-5, -5, 4, 5)), b + int64(r.PickInt(-4, 5, 5, 14))}
	} else {
		sc.Range = [2]int64{1, 100}
	}
	return sc
}

// seq: n timestamps from..., step apart
func seq(from int64, n int, step int64) []int64 {
	ts := make([]int64, n)
	for i := range ts {
		ts[i] = from + int64(i)*step
	}
	return ts
}

// thoroughCorpus: the fixed cases that are too slow for the quick tier: a chunk of more events than the time index tolerates
// as a gap (5000); every cut of the files a crash can tear - the tag index's save at the end of Init (the process dies after b
// bytes, b = 0..), the pipe's progress file and the time-index snapshot (every prefix)
func thoroughCorpus() []Scenario {
	w := func(p int, ts ...int64) Step { return Step{Op: "write", Part: p, Ts: ts} }
	sy := Step{Op: "sync"}
	res := []Scenario{
		{Kind: "corpus", NParts: 1, Range: [2]int64{26005, 26095}, Sessions: []Session{{Steps: []Step{w(0, seq(10, 5300, 10)...), sy}, End: "stop"}, {Steps: []Step{w(0, 53100), sy}, End: "stop", Surgery: []Surgery{{Kind: "cindex-drop"}}}, {Blind: true, Steps: []Step{w(0, 53200), sy}, End: "stop"}}},
	}
	for b := 0; b < 90; b++ {
		res = append(res, Scenario{Kind: "corpus", NParts: 2, Range: [2]int64{15, 25}, Sessions: []Session{{Steps: []Step{w(0, 10, 20, 30), w(1, 5), sy}, End: "stop", Surgery: []Surgery{{Kind: "tindex-torn", K: 1000 + b}}}, {Steps: []Step{w(1, 15)}, End: "stop"}}})
	}
	for b := 0; b < 150; b++ {
		res = append(res, Scenario{Kind: "fwd", NParts: 2, Range: [2]int64{15, 25}, Sessions: []Session{{Steps: []Step{{Op: "fwdpipe", Name: fwdPipe}, {Op: "round", Ts: []int64{10, 20}}, {Op: "round", Ts: []int64{30}}}, End: "stop", Surgery: []Surgery{{Kind: "progress-torn", Name: fwdPipe, K: 1000 + b}}}, {Steps: []Step{{Op: "round", Ts: []int64{40}}}, End: "stop"}}})
	}
	for b := 0; b < 240; b += 3 {
		res = append(res, Scenario{Kind: "corpus", NParts: 2, Range: [2]int64{15, 25}, Sessions: []Session{{Steps: []Step{w(0, 10, 20, 30), w(1, 5), sy}, End: "stop", Surgery: []Surgery{{Kind: "cindex-torn", K: 1000 + b}}}, {Blind: true, Steps: []Step{w(0, 40), sy}, End: "stop"}}})
	}
	return res
}

func corpus() []Scenario {
	w := func(p int, ts ...int64) Step { return Step{Op: "write", Part: p, Ts: ts} }
	sy := Step{Op: "sync"}
	const maxI, minI = int64(9223372036854775807), int64(-9223372036854775808)
	edge := []Scenario{
		// timestamps below zero, across zero, zero itself (the time index takes "MaxTs > 0" for "known"): restart with the snapshot,
		// without it, a blind write after its loss, SIGKILL
		{Kind: "corpus", NParts: 2, Range: [2]int64{-25, 5}, Sessions: []Session{{Steps: []Step{w(0, -30, -20, -10), w(1, -3, 0, 3), sy, w(0, 0)}, End: "stop"}, {Steps: []Step{w(0, 10), sy}, End: "stop", Surgery: []Surgery{{Kind: "cindex-drop"}}}, {Blind: true, Steps: []Step{w(0, 20), sy}, End: "kill"}, {Steps: []Step{w(1, 6)}, End: "stop"}}},
		{Kind: "corpus", NParts: 1, Range: [2]int64{-2500, -1500}, Sessions: []Session{{Steps: []Step{w(0, -3000, -2000, -1000), sy}, End: "stop"}, {Steps: []Step{w(0, -900)}, End: "stop", Surgery: []Surgery{{Kind: "cindex-torn", K: 500}}}, {Blind: true, Steps: []Step{w(0, -800), sy}, End: "stop"}}},
		// both ends of int64, today's nanoseconds
		{Kind: "corpus", NParts: 2, Range: [2]int64{minI + 5, minI + 25}, Sessions: []Session{{Steps: []Step{w(0, minI, minI+10, minI+20), w(1, maxI-20, maxI-10, maxI), sy}, End: "stop"}, {Steps: []Step{w(0, minI+30), w(1, maxI)}, End: "kill"}, {Steps: []Step{w(0, minI+40), sy}, End: "stop", Surgery: []Surgery{{Kind: "cindex-drop"}}}}},
		{Kind: "corpus", NParts: 1, Range: [2]int64{maxI - 15, maxI - 5}, Sessions: []Session{{Steps: []Step{w(0, maxI-20, maxI-10, maxI), sy}, End: "stop"}, {Steps: []Step{}, End: "stop"}}},
		{Kind: "corpus", NParts: 1, Range: [2]int64{1600000000000000015, 1600000000000000025}, Sessions: []Session{{Steps: []Step{w(0, 1600000000000000010, 1600000000000000020, 1600000000000000030)}, End: "stop"}, {Steps: []Step{w(0, 1600000000000000040)}, End: "crash-stop", EndK: 500}}},
		// ties: events with equal timestamps inside a write and across writes and restarts (the bounds of the probe are not among them)
		{Kind: "corpus", NParts: 1, Range: [2]int64{15, 35}, Sessions: []Session{{Steps: []Step{w(0, 10, 10, 20, 20), sy, w(0, 20, 30)}, End: "stop"}, {Steps: []Step{w(0, 30, 30, 40)}, End: "stop", Surgery: []Surgery{{Kind: "cindex-drop"}}}}},
		// many chunks per partition (MaxChunkSize 300 bytes): a graceful stop right after a write that rolled chunks over, SIGKILL
		// after a flush, the snapshot lost, a partition of several chunks truncated away, a crash between the two effects of a removal
		{Kind: "corpus", Chunk: 300, NParts: 2, Range: [2]int64{35, 125}, Sessions: []Session{{Steps: []Step{w(0, seq(10, 12, 10)...), w(1, seq(11, 9, 10)...)}, End: "stop"}, {Steps: []Step{w(0, seq(130, 8, 10)...), sy, w(0, 300)}, End: "kill"}, {Steps: []Step{w(0, 310), sy}, End: "stop", Surgery: []Surgery{{Kind: "cindex-drop"}}}, {Blind: true, Steps: []Step{w(0, 320), sy, {Op: "drop", Part: 1}}, End: "stop", Surgery: []Surgery{{Kind: "drop-window", Part: 0}}}}},
		{Kind: "corpus", Chunk: 1000, NParts: 1, Range: [2]int64{95, 405}, Sessions: []Session{{Steps: []Step{w(0, seq(10, 40, 10)...), sy}, End: "crash-stop", EndK: 0}, {Steps: []Step{w(0, seq(500, 40, 10)...)}, End: "stop", Surgery: []Surgery{{Kind: "tidx-zero"}}}, {Steps: []Step{w(0, 1000)}, End: "stop"}}},
		// more events in a chunk than the sparse time index keeps apart (250), and than it tolerates as a gap (5000): restart,
		// snapshot lost, blind write, SIGKILL
		{Kind: "corpus", NParts: 1, Range: [2]int64{2995, 3125}, Sessions: []Session{{Steps: []Step{w(0, seq(10, 600, 10)...)}, End: "stop"}, {Steps: []Step{w(0, seq(6010, 300, 10)...), sy}, End: "stop", Surgery: []Surgery{{Kind: "cindex-drop"}}}, {Blind: true, Steps: []Step{w(0, 9100), sy}, End: "kill"}, {Steps: []Step{w(0, 9200)}, End: "stop"}}},
		// the shapes of tag lines: a quoted value with a blank, non-ASCII, 300 bytes, a quoted value with = , { } and a backslash:
		// restart, a crash inside the tag-index save, a crash between the two effects of a removal
		{Kind: "corpus", TagStyle: 1, NParts: 2, Range: [2]int64{15, 25}, Sessions: []Session{{Steps: []Step{w(0, 10, 20, 30), w(1, 5)}, End: "stop", Surgery: []Surgery{{Kind: "tindex-torn", K: 500}, {Kind: "drop-window", Part: 1}}}, {Steps: []Step{w(1, 15), {Op: "drop", Part: 0}}, End: "kill"}}},
		{Kind: "corpus", TagStyle: 2, NParts: 2, Range: [2]int64{15, 25}, Sessions: []Session{{Steps: []Step{w(0, 10, 20, 30), w(1, 5)}, End: "stop", Surgery: []Surgery{{Kind: "tindex-torn", K: 2001}}}, {Steps: []Step{w(1, 15), {Op: "drop", Part: 0}}, End: "kill"}}},
		{Kind: "corpus", TagStyle: 3, NParts: 2, Range: [2]int64{15, 25}, Sessions: []Session{{Steps: []Step{w(0, 10, 20, 30), w(1, 5)}, End: "crash-create", EndK: 5}, {Steps: []Step{w(1, 15), {Op: "drop", Part: 0}}, End: "stop"}}},
		{Kind: "corpus", TagStyle: 4, NParts: 2, Range: [2]int64{15, 25}, Sessions: []Session{{Steps: []Step{w(0, 10, 20, 30), w(1, 5)}, End: "stop", Surgery: []Surgery{{Kind: "tindex-torn", K: 1017}}}, {Steps: []Step{w(1, 15), {Op: "drop", Part: 0}}, End: "kill"}}},
		// pipe names: two that differ in case only, a blank, a slash, non-ASCII, the empty name, a path that climbs, 200 bytes:
		// SIGKILL, deletion, a crash inside the shutdown's save
		{Kind: "corpus", NParts: 1, Range: [2]int64{15, 25}, Sessions: []Session{{Steps: []Step{{Op: "pipe", Name: "pa"}, {Op: "pipe", Name: "PA"}, {Op: "pipe", Name: "P A"}, {Op: "pipe", Name: "x/y"}, {Op: "pipe", Name: "ÿ☃"}, {Op: "pipe", Name: ""}, {Op: "pipe", Name: "../up"}, {Op: "pipe", Name: idlePool[11]}}, End: "kill"}, {Steps: []Step{{Op: "delpipe", Name: "PA"}, {Op: "delpipe", Name: ""}, {Op: "delpipe", Name: "../up"}}, End: "crash-stop", EndK: 2001}, {Steps: []Step{{Op: "delpipe", Name: "pa"}}, End: "stop"}}},
		// a forwarding pipe whose name needs escaping in its file name: graceful restarts, its progress file torn
		{Kind: "fwd", Pipe: "x/y", NParts: 2, Range: [2]int64{15, 25}, Sessions: []Session{{Steps: []Step{{Op: "fwdpipe", Name: "x/y"}, {Op: "round", Ts: []int64{10, 20}}, {Op: "round", Ts: []int64{30}}}, End: "stop"}, {Steps: []Step{{Op: "round", Ts: []int64{40}}}, End: "stop", Surgery: []Surgery{{Kind: "progress-torn", Name: "x/y", K: 2001}}}, {Steps: []Step{{Op: "round", Ts: []int64{50}}, {Op: "round", Ts: []int64{60}}}, End: "stop"}}},
		// nothing happens between a start and its end, again and again; the same request twice; requests about what is not there
		{Kind: "corpus", NParts: 2, Range: [2]int64{15, 25}, Sessions: []Session{{Steps: []Step{w(0, 10, 20, 30), {Op: "pipe", Name: "pa"}}, End: "stop"}, {Steps: []Step{}, End: "stop"}, {Steps: []Step{}, End: "kill"}, {Steps: []Step{}, End: "kill"}, {Steps: []Step{}, End: "crash-stop", EndK: 0}, {Steps: []Step{}, End: "stop", Surgery: []Surgery{{Kind: "tindex-torn", K: 0}, {Kind: "tindex-torn", K: 2001}}}}},
		{Kind: "corpus", NParts: 2, Range: [2]int64{15, 25}, Sessions: []Session{{Steps: []Step{{Op: "pipe", Name: "pa"}, {Op: "pipe", Name: "pa"}, {Op: "delpipe", Name: "pb"}, {Op: "drop", Part: 1}, w(0, 10, 20), sy, sy, {Op: "drop", Part: 0}, {Op: "drop", Part: 0}, {Op: "delpipe", Name: "pa"}, {Op: "delpipe", Name: "pa"}}, End: "kill"}, {Steps: []Step{w(0, 30)}, End: "stop"}}},
	}
	wide := Scenario{Kind: "corpus", NParts: 30, Range: [2]int64{15, 25}}
	{
		var s1, s2 []Step
		for p := 0; p < 30; p++ {
			s1 = append(s1, w(p, 10+int64(p), 20+int64(p)))
			if p%3 == 0 {
				s2 = append(s2, Step{Op: "drop", Part: p})
			} else {
				s2 = append(s2, w(p, 40+int64(p)))
			}
		}
		wide.Sessions = []Session{{Steps: s1, End: "stop", Surgery: []Surgery{{Kind: "tindex-torn", K: 500}, {Kind: "tindex-torn", K: 2001}, {Kind: "drop-window", Part: 7}}}, {Steps: s2, End: "kill"}, {Steps: []Step{w(0, 50)}, End: "stop"}}
	}
	edge = append(edge, wide,
		// the snapshot is lost and the first request is a write to a chunk that holds exactly ONE event (onWrite: "firstRec > 0")
		Scenario{Kind: "corpus", NParts: 1, Range: [2]int64{5, 15}, Sessions: []Session{{Steps: []Step{w(0, 10), sy}, End: "stop", Surgery: []Surgery{{Kind: "cindex-drop"}}}, {Blind: true, Steps: []Step{w(0, 20), sy}, End: "stop"}}},
		// a directory of the previous version (definitions in pipes.dat, no registry.dat): they are read and moved at once - the
		// pipe "s" (which has no positions there: pipes.dat holds the definitions) forwards, its positions go to pipes.dat, SIGKILL:
		// the server starts, the definitions are there
		Scenario{Kind: "fwd", Pipe: "s", NParts: 2, Range: [2]int64{15, 25}, Sessions: []Session{{Steps: []Step{{Op: "fwdpipe", Name: "s"}, {Op: "round", Ts: []int64{10, 20}}}, End: "stop", Surgery: []Surgery{{Kind: "progress-torn", Name: "s", K: 0}, {Kind: "registry-old-name"}}}, {Steps: []Step{{Op: "round", Ts: []int64{30}}, {Op: "round", Ts: []int64{40}}}, End: "kill"}}},
		Scenario{Kind: "corpus", NParts: 1, Range: [2]int64{15, 25}, Sessions: []Session{{Steps: []Step{w(0, 10), {Op: "pipe", Name: "pa"}, {Op: "pipe", Name: "PA"}}, End: "stop", Surgery: []Surgery{{Kind: "registry-old-name"}}}, {Steps: []Step{{Op: "delpipe", Name: "pa"}}, End: "kill"}}},
	)
	// concurrent requests about pipe definitions, SIGKILL right after the last acknowledgement (C07_crash_pipes: the file holds the
	// acknowledged definitions at every moment)
	{
		r := NewRng(7)
		edge = append(edge, genBurst(r, 120), genBurst(r, 120))
	}
	edge = append(edge,
		// C07_partial_mark_saved: 10,20,30 flushed; SIGKILL (no snapshot); start: the first request is a write of 40 and the index
		// rebuilder is held; graceful stop at once; start: RANGE [15:25] shows 20 - and again after one more clean restart
		Scenario{Kind: "corpus", NParts: 1, Range: [2]int64{15, 25}, Sessions: []Session{{Steps: []Step{w(0, 10, 20, 30), sy}, End: "kill"}, {Blind: true, Hold: true, Steps: []Step{w(0, 40)}, End: "stop"}, {Steps: []Step{}, End: "stop"}}},
		Scenario{Kind: "corpus", NParts: 2, Range: [2]int64{15, 25}, Sessions: []Session{{Steps: []Step{w(0, 10, 20, 30), w(1, 11, 21), sy}, End: "stop", Surgery: []Surgery{{Kind: "cindex-drop"}}}, {Blind: true, Hold: true, Steps: []Step{w(1, 31), w(1, 41), sy}, End: "stop"}, {Blind: true, Hold: true, Steps: []Step{w(0, 40)}, End: "kill"}}},
	)
	return append(edge, []Scenario{
		// C07_clean (C07_clean_nosync_refuted): acknowledged, then a graceful stop at once: without the sync at shutdown 40 and the whole of partition 1 are gone
		{Kind: "corpus", NParts: 2, Range: [2]int64{15, 25}, Sessions: []Session{{Steps: []Step{w(0, 10, 20, 30), sy, w(0, 40), w(1, 11)}, End: "stop"}}},
		// C07_clean_quiescent: everything flushed before the stop: nothing changes
		{Kind: "corpus", NParts: 2, Range: [2]int64{15, 25}, Sessions: []Session{{Steps: []Step{w(0, 10, 20, 30), w(1, 11), sy, {Op: "pipe", Name: "pa"}}, End: "stop"}}},
		// C07_crash_tindex (C07_crash_tindex_inplace_refuted for a saver that renames tindex.dat away and writes in place):
		// the server dies inside the write of the tag-index save: nothing written yet / half / all but one byte; no partition at all;
		// a partition without flushed data at the time of the crash
		{Kind: "corpus", NParts: 1, Range: [2]int64{15, 25}, Sessions: []Session{{Steps: []Step{w(0, 10, 20, 30), sy}, End: "stop", Surgery: []Surgery{{Kind: "tindex-torn", K: 0}}}}},
		{Kind: "corpus", NParts: 1, Range: [2]int64{15, 25}, Sessions: []Session{{Steps: []Step{w(0, 10, 20, 30), sy}, End: "stop", Surgery: []Surgery{{Kind: "tindex-torn", K: 500}}}}},
		{Kind: "corpus", NParts: 1, Range: [2]int64{15, 25}, Sessions: []Session{{Steps: []Step{w(0, 10, 20, 30), sy}, End: "stop", Surgery: []Surgery{{Kind: "tindex-torn", K: 999}}}}},
		{Kind: "corpus", NParts: 1, Range: [2]int64{15, 25}, Sessions: []Session{{Steps: []Step{}, End: "stop", Surgery: []Surgery{{Kind: "tindex-torn", K: 0}}}}},
		{Kind: "corpus", NParts: 1, Range: [2]int64{15, 25}, Sessions: []Session{{Steps: []Step{w(0, 10)}, End: "kill", Surgery: []Surgery{{Kind: "tindex-torn", K: 500}}}}},
		{Kind: "corpus", NParts: 2, Range: [2]int64{15, 25}, Sessions: []Session{{Steps: []Step{w(0, 10, 20, 30), w(1, 5), sy}, End: "stop", Surgery: []Surgery{{Kind: "drop-window", Part: 1}}}}},
		// a crash inside the tag-index save of a partition creation leaves a tindex.dat.tmp that is longer than the index the next
		// starts save: it must not leak into tindex.dat (two more starts)
		{Kind: "corpus", NParts: 1, Range: [2]int64{15, 25}, Sessions: []Session{{Steps: []Step{w(0, 10, 20, 30), sy}, End: "crash-create", EndK: 25}, {Steps: []Step{w(0, 40), sy}, End: "stop"}, {Steps: []Step{w(0, 50)}, End: "stop"}}},
		// the server run by server.Start, driven through RPC only: acknowledged, graceful stop at once; pipes; a partition removed; SIGKILL
		{Kind: "real", NParts: 2, Range: [2]int64{15, 25}, Sessions: []Session{{Steps: []Step{w(0, 10, 20, 30), sy, {Op: "pipe", Name: "pa"}, {Op: "pipe", Name: "pb"}, w(1, 11), w(0, 40)}, End: "stop"}, {Steps: []Step{{Op: "delpipe", Name: "pa"}, w(1, 21), sy, {Op: "drop", Part: 0}, w(1, 31), sy}, End: "kill"}, {Steps: []Step{w(0, 50)}, End: "stop"}}},
		// the save of the tag index fails while a partition is created (files can not grow): the write is refused, nothing of it stays
		{Kind: "corpus", NParts: 1, Range: [2]int64{15, 25}, Sessions: []Session{{Steps: []Step{w(0, 10, 20, 30), sy, {Op: "failcreate"}, w(0, 40)}, End: "stop"}, {Steps: []Step{{Op: "failcreate"}, w(0, 50), sy}, End: "kill"}}},
		// C07_crash_pipes (C07_crash_pipes_shutdown_only_refuted): a pipe created since the last clean shutdown, SIGKILL;
		// the server dies inside the write of the pipes save of the shutdown sequence; a pipe deleted, SIGKILL
		{Kind: "corpus", NParts: 1, Range: [2]int64{15, 25}, Sessions: []Session{{Steps: []Step{w(0, 10, 20, 30), sy, {Op: "pipe", Name: "pa"}}, End: "kill"}}},
		{Kind: "corpus", NParts: 1, Range: [2]int64{15, 25}, Sessions: []Session{{Steps: []Step{w(0, 10), sy, {Op: "pipe", Name: "pa"}}, End: "crash-stop", EndK: 500}}},
		{Kind: "corpus", NParts: 1, Range: [2]int64{15, 25}, Sessions: []Session{{Steps: []Step{w(0, 10), sy, w(0, 20)}, End: "crash-stop", EndK: 0}, {Steps: []Step{{Op: "pipe", Name: "pa"}, {Op: "pipe", Name: "pb"}, w(0, 30)}, End: "crash-stop", EndK: 900}}},
		{Kind: "corpus", NParts: 1, Range: [2]int64{15, 25}, Sessions: []Session{{Steps: []Step{{Op: "pipe", Name: "pa"}, {Op: "pipe", Name: "pb"}}, End: "stop"}, {Steps: []Step{{Op: "delpipe", Name: "pa"}}, End: "kill"}}},
		// C07_crash_cindex_refuted: the snapshot of the previous clean shutdown survives a SIGKILL: 30 and 40 are hidden from RANGE
		{Kind: "corpus", NParts: 1, Range: [2]int64{25, 45}, Sessions: []Session{{Steps: []Step{w(0, 10, 20), sy}, End: "stop"}, {Steps: []Step{w(0, 30, 40), sy}, End: "kill"}}},
		{Kind: "corpus", NParts: 1, Range: [2]int64{25, 45}, Sessions: []Session{{Steps: []Step{w(0, 10, 20), sy}, End: "stop"}, {Steps: []Step{w(0, 30, 40), sy}, End: "stop", Surgery: []Surgery{{Kind: "cindex-stale"}}}}},
		// the time index gets ahead of the journal when a crash loses acknowledged records (recorded finding): 70 and 80 are lost,
		// 110 and 140 take their positions, RANGE [84:145] starts too late
		{Kind: "corpus", NParts: 1, Range: [2]int64{84, 145}, Sessions: []Session{{Steps: []Step{w(0, 40), sy}, End: "stop"}, {Steps: []Step{w(0, 70, 80)}, End: "kill"}, {Steps: []Step{w(0, 110, 140), sy}, End: "stop"}}},
		// C07_drop_survives_restart: a partition truncated away completely (one of its events still buffered) stays away across
		// a graceful restart and across a crash; written again it is a new partition
		{Kind: "corpus", NParts: 2, Range: [2]int64{15, 25}, Sessions: []Session{{Steps: []Step{w(0, 10, 20), w(1, 11, 21), sy, w(1, 31), {Op: "drop", Part: 1}}, End: "stop"}, {Steps: []Step{w(1, 41), sy}, End: "stop"}}},
		{Kind: "corpus", NParts: 2, Range: [2]int64{15, 25}, Sessions: []Session{{Steps: []Step{w(0, 10, 20), w(1, 11, 21), sy, {Op: "drop", Part: 1}}, End: "kill"}, {Steps: []Step{{Op: "drop", Part: 0}}, End: "stop"}}},
		// C07_pipe_catches_up_once: a pipe forwards, graceful restart, the source is written again: nothing is forwarded twice
		{Kind: "fwd", NParts: 2, Range: [2]int64{15, 25}, Sessions: []Session{{Steps: []Step{{Op: "fwdpipe", Name: fwdPipe}, {Op: "round", Ts: []int64{10, 20, 30}}, {Op: "round", Ts: []int64{40}}}, End: "stop"}, {Steps: []Step{{Op: "round", Ts: []int64{50, 60}}, {Op: "round", Ts: []int64{70}}}, End: "stop"}, {Steps: []Step{{Op: "round", Ts: []int64{80}}}, End: "stop"}}},
		// C07_torn_progress_starts: the progress file of the pipe torn (empty / half / all but a byte): the server starts, the pipe is
		// there; it has no position: 30 (flushed, not forwarded when the file was torn) is passed over, nothing is forwarded twice
		{Kind: "fwd", NParts: 2, Range: [2]int64{15, 25}, Sessions: []Session{{Steps: []Step{{Op: "fwdpipe", Name: fwdPipe}, {Op: "round", Ts: []int64{10, 20}}, {Op: "round", Ts: []int64{30}}}, End: "stop", Surgery: []Surgery{{Kind: "progress-torn", Name: fwdPipe, K: 0}}}, {Steps: []Step{{Op: "round", Ts: []int64{40}}, {Op: "round", Ts: []int64{50}}}, End: "stop"}}},
		{Kind: "fwd", NParts: 2, Range: [2]int64{15, 25}, Sessions: []Session{{Steps: []Step{{Op: "fwdpipe", Name: fwdPipe}, {Op: "round", Ts: []int64{10, 20}}, {Op: "round", Ts: []int64{30}}}, End: "stop", Surgery: []Surgery{{Kind: "progress-torn", Name: fwdPipe, K: 500}}}, {Steps: []Step{{Op: "round", Ts: []int64{40}}}, End: "stop", Surgery: []Surgery{{Kind: "progress-torn", Name: fwdPipe, K: 999}}}, {Steps: []Step{{Op: "round", Ts: []int64{50}}, {Op: "round", Ts: []int64{60}}}, End: "stop"}}},
		// the forwarding pipe as a configured pipe (EnsureAtStart): every Init ensures it, its progress is kept across restarts
		{Kind: "fwd", Ensure: true, NParts: 2, Range: [2]int64{15, 25}, Sessions: []Session{{Steps: []Step{{Op: "round", Ts: []int64{10, 20}}, {Op: "round", Ts: []int64{30}}}, End: "stop"}, {Steps: []Step{{Op: "round", Ts: []int64{40}}}, End: "stop"}, {Steps: []Step{{Op: "round", Ts: []int64{50}}, {Op: "round", Ts: []int64{60}}}, End: "stop"}}},
		// the loaders' refusals (files damaged from outside, no saver leaves them so): C07_torn_refuses_start, C07_data_without_record_refuses
		{Kind: "corpus", NParts: 1, Range: [2]int64{15, 25}, Sessions: []Session{{Steps: []Step{w(0, 10, 20, 30), sy}, End: "stop", Surgery: []Surgery{{Kind: "tindex-damaged", K: 500}}}}},
		{Kind: "corpus", NParts: 1, Range: [2]int64{15, 25}, Sessions: []Session{{Steps: []Step{w(0, 10), sy, {Op: "pipe", Name: "pa"}}, End: "stop", Surgery: []Surgery{{Kind: "pipes-damaged", K: 900}}}}},
		{Kind: "corpus", NParts: 2, Range: [2]int64{15, 25}, Sessions: []Session{{Steps: []Step{w(0, 10, 20, 30), w(1, 5), sy}, End: "stop", Surgery: []Surgery{{Kind: "record-removed", Part: 1}}}}},
		// ... also when, after such a start, a new partition gets its index tree in the file the stale roots point into
		{Kind: "corpus", NParts: 2, Range: [2]int64{36, 95}, Sessions: []Session{{Steps: []Step{w(1, 11, 21, 41)}, End: "stop", Surgery: []Surgery{{Kind: "tidx-short"}}}, {Steps: []Step{w(1, 71, 81, 111), w(0, 10, 40, 70)}, End: "stop"}}},
		{Kind: "corpus", NParts: 2, Range: [2]int64{36, 95}, Sessions: []Session{{Steps: []Step{w(1, 11, 21, 41)}, End: "stop", Surgery: []Surgery{{Kind: "tidx-zero"}}}, {Steps: []Step{w(1, 71, 81, 111), w(0, 10, 40, 70)}, End: "stop"}}},
		// the tree files of the time index missing / cut / zeroed under an intact cindex.dat: the answers do not change
		{Kind: "corpus", NParts: 1, Range: [2]int64{15, 35}, Sessions: []Session{{Steps: []Step{w(0, 10, 20, 30, 40), sy}, End: "stop", Surgery: []Surgery{{Kind: "tidx-drop"}}}, {Steps: []Step{w(0, 50), sy}, End: "stop", Surgery: []Surgery{{Kind: "tidx-short"}}}, {Steps: []Step{w(0, 60), sy}, End: "stop", Surgery: []Surgery{{Kind: "tidx-zero"}}}}},
		// the pipe named "s": pipe<name>.dat of this pipe is pipes.dat, where the pipe definitions used to be kept: its positions and
		// the definitions must not be one file: SIGKILL after it has forwarded (C07_crash_pipes_shared_file_refuted); graceful
		// restarts (C07_progress_survives_shared_file_refuted); created, deleted, SIGKILL beside another pipe
		{Kind: "fwd", Pipe: "s", NParts: 2, Range: [2]int64{15, 25}, Sessions: []Session{{Steps: []Step{{Op: "fwdpipe", Name: "s"}, {Op: "round", Ts: []int64{10, 20}}, {Op: "round", Ts: []int64{30}}}, End: "kill"}}},
		{Kind: "fwd", Pipe: "s", NParts: 2, Range: [2]int64{15, 25}, Sessions: []Session{{Steps: []Step{{Op: "fwdpipe", Name: "s"}, {Op: "round", Ts: []int64{10, 20}}, {Op: "round", Ts: []int64{30}}}, End: "stop"}, {Steps: []Step{{Op: "round", Ts: []int64{40}}, {Op: "round", Ts: []int64{50}}}, End: "stop"}}},
		{Kind: "corpus", NParts: 1, Range: [2]int64{15, 25}, Sessions: []Session{{Steps: []Step{w(0, 10), sy, {Op: "pipe", Name: "pa"}, {Op: "pipe", Name: "s"}, {Op: "delpipe", Name: "s"}, sy}, End: "kill"}}},
		// the snapshot of the time index is lost and the first thing the restarted server is asked is a write to the chunk it
		// does not know: the index is found inconsistent and rebuilt, RANGE shows the earlier events
		{Kind: "corpus", NParts: 1, Range: [2]int64{15, 25}, Sessions: []Session{{Steps: []Step{w(0, 10, 20, 30), sy}, End: "stop", Surgery: []Surgery{{Kind: "cindex-drop"}}}, {Blind: true, Steps: []Step{w(0, 40), sy}, End: "stop"}}},
		{Kind: "corpus", NParts: 1, Range: [2]int64{15, 25}, Sessions: []Session{{Steps: []Step{w(0, 10, 20, 30), sy}, End: "stop", Surgery: []Surgery{{Kind: "cindex-torn", K: 500}}}, {Blind: true, Steps: []Step{w(0, 40)}, End: "stop"}}},
		// missing / torn snapshot: rebuilt from the chunk
		{Kind: "corpus", NParts: 1, Range: [2]int64{15, 25}, Sessions: []Session{{Steps: []Step{w(0, 10, 20, 30), sy}, End: "stop", Surgery: []Surgery{{Kind: "cindex-drop"}}}}},
		{Kind: "corpus", NParts: 1, Range: [2]int64{15, 25}, Sessions: []Session{{Steps: []Step{w(0, 10, 20, 30), sy}, End: "stop", Surgery: []Surgery{{Kind: "cindex-torn", K: 500}}}}},
		// SIGKILL after a flush: flushed events and partitions survive
		{Kind: "corpus", NParts: 2, Range: [2]int64{15, 25}, Sessions: []Session{{Steps: []Step{w(0, 10, 20, 30), sy, w(1, 11)}, End: "kill"}, {Steps: []Step{w(1, 21), sy}, End: "kill"}}},
	}...)
}

// ---------------------------------------------------------------- Gallina

func gStep(s Step) string {
	switch s.Op {
	case "write":
		return GApp("SWrite", GNat(s.Part), GListZ(s.Ts))
	case "sync":
		return "SSync"
	case "pipe":
		return GApp("SPipe", GNat(pipeIndex(s.Name)))
	case "drop":
		return GApp("SDrop", GNat(s.Part))
	case "fwdpipe":
		return GApp("SPipe", GNat(pipeIndex(s.Name)))
	default:
		return GApp("SDelPipe", GNat(pipeIndex(s.Name)))
	}
}

func gSurgery(s Surgery) string {
	switch s.Kind {
	case "tindex-torn":
		return GApp("GTTorn", GNat(s.K))
	case "drop-window":
		return GApp("GTOrphan", GNat(s.Part))
	case "progress-torn":
		return GApp("GProgTorn", GNat(pipeIndex(s.Name)), GNat(s.K))
	case "tindex-damaged":
		return GApp("GDamageT", GNat(s.K))
	case "pipes-damaged":
		return GApp("GDamageP", GNat(s.K))
	case "record-removed":
		return GApp("GRecordGone", GNat(s.Part))
	case "cindex-drop":
		return "GCDrop"
	case "cindex-torn":
		return GApp("GCTorn", GNat(s.K))
	default:
		return "GCStale"
	}
}

func gSession(s Session, np int, ensure bool, fwd string) string {
	var st []string
	if ensure {
		st = append(st, GApp("SPipe", GNat(pipeIndex(fwd)))) // Init ensures the configured pipe (nothing happens when it is there)
	}
	for _, x := range s.Steps {
		if x.Op == "round" {
			// flush; the write of the round is acknowledged and stays buffered; the pipe (partition 0 -> the last partition)
			// runs and catches up with what is flushed. (The server flushes the destination as well; the model leaves what
			// was forwarded in the destination's buffer until the next flush - the next round or the graceful stop.)
			st = append(st, "SSync", GApp("SWrite", GNat(0), GListZ(x.Ts)), GApp("SDrain", GNat(pipeIndex(fwd)), GNat(0), GNat(np-1)))
			continue
		}
		if x.Op == "failcreate" {
			continue // the write is not acknowledged and leaves nothing behind: no step of the model
		}
		if x.Op == "burst" {
			// concurrent requests about different pipes: any order gives the same definitions
			for _, n := range x.Create {
				st = append(st, GApp("SPipe", GNat(pipeIndex(n))))
			}
			for _, n := range x.Delete {
				st = append(st, GApp("SDelPipe", GNat(pipeIndex(n))))
			}
			continue
		}
		if s.Blind && s.Hold && x.Op == "write" {
			st = append(st, GApp("SBlindWrite", GNat(x.Part), GListZ(x.Ts))) // the chunk is unknown to the time index, nothing rebuilds it
			continue
		}
		st = append(st, gStep(x))
	}
	var sg []string
	if s.End == "crash-stop" {
		sg = append(sg, GApp("GPTorn", GNat(s.EndK))) // the crash inside the pipes save of the shutdown sequence; nothing else of it ran
	}
	for _, x := range s.Surgery {
		if strings.HasPrefix(x.Kind, "tidx-") || x.Kind == "registry-old-name" {
			continue // not in the model (the tree files of the time index; the name of the definitions' file): nothing observable may depend on them
		}
		sg = append(sg, gSurgery(x))
	}
	return fmt.Sprintf("(mkSession %s %s %s)", GList(st), GBool(s.End == "stop"), GList(sg))
}

func gObs(o Obs) string {
	if !o.Started {
		return "ORefused"
	}
	if o.Blind {
		return "OBlind"
	}
	ps := make([]string, len(o.Parts))
	for i, p := range o.Parts {
		if p.Exists {
			ps[i] = GSome(GListZ(p.Events))
		} else {
			ps[i] = GNone
		}
	}
	var pi []int
	for _, n := range o.Pipes {
		pi = append(pi, pipeIndex(n))
	}
	sort.Ints(pi)
	rs := make([]string, len(o.Ranges))
	for i, r := range o.Ranges {
		rs[i] = GListZ(r)
	}
	return GApp("OStarted", GList(ps), GListNat(pi), GList(rs))
}

// ---------------------------------------------------------------- main

const rule = "scenarios of 1-3 sessions on one server directory (child process): writes to 1-3 partitions (timestamps increasing per partition), explicit flushes (standing for WriteFlushMs passing), pipe create/delete; every session ends by a graceful stop, by SIGKILL, by a crash injected into the tag-index save of a partition creation (the process dies inside the write, the leftover is longer than the present index), or by a crash injected into the shutdown sequence (the process dies inside the write of its first saver, the pipes save, at 0..999 per mille); after a graceful stop optionally: a crash injected into the tag-index save at the end of Init (a start that dies inside the saver's write at 0..999 per mille), the directory of a partition removed (a crash between the two effects of a partition removal), cindex.dat dropped / torn / replaced by the one of the previous shutdown; every start is observed (refused, or partitions + events + pipes + a RANGE probe) - except blind starts (a quarter of the later sessions: the first request is a write, usually after the time-index snapshot was lost); 6 % of the steps truncate a partition away completely; 1 scenario in 12 has a forwarding pipe from partition 0 to its destination partition instead (graceful stops only, rounds of flush / write / wait until the pipe has caught up); at the end of every session the RANGE probe is compared with the plain read. Non-trivial: at least one session wrote events that were flushed, and the scenario has a crash, a surgery or an unflushed acknowledged write at a graceful stop."

func run(c *Ctx) error {
	var scs []Scenario
	var streams []string
	if c.Replay != nil {
		var sc Scenario
		if err := FromJSON(c.Replay, &sc); err != nil {
			return err
		}
		scs, streams = append(scs, sc), append(streams, "replay")
	} else {
		for _, sc := range corpus() {
			scs, streams = append(scs, sc), append(streams, "corpus")
		}
		if c.Tier == "thorough" {
			for _, sc := range thoroughCorpus() {
				scs, streams = append(scs, sc), append(streams, "corpus")
			}
		}
		root := seededRng(c.Seed)
		n := c.N(500)
		for i := 0; i < n; i++ {
			scs, streams = append(scs, genScenario(root.Fork())), append(streams, "gen")
		}
	}
	res := make([]*Case, len(scs))
	errs := make([]error, len(scs))
	Parallel(len(scs), 8, func(i int) {
		res[i], errs[i] = mkCase(&scs[i], streams[i])
	})
	for i := range scs {
		if errs[i] != nil {
			return fmt.Errorf("scenario %d: %v", i, errs[i])
		}
		c.Add(*res[i])
	}
	return c.Finish(rule)
}

func mkCase(sc *Scenario, stream string) (*Case, error) {
	tr, err := runScenario(sc)
	if err != nil {
		return nil, err
	}
	if tr.cut > 0 {
		// the session was cut short by the crash: model and oracle follow what was run
		cp := *sc
		cp.Sessions = []Session{sc.Sessions[0]}
		cp.Sessions[0].Steps = append([]Step{}, sc.Sessions[0].Steps[:tr.cut]...)
		sc = &cp
	}
	ss := make([]string, len(sc.Sessions))
	for i, s := range sc.Sessions {
		ss[i] = gSession(s, sc.NParts, sc.Ensure, sc.fwdName())
	}
	os := make([]string, len(tr.obs))
	for i, o := range tr.obs {
		os[i] = gObs(o)
	}
	if n := len(sc.Sessions); sc.Kind == "fwd" && n > 0 && sc.Sessions[n-1].End == "kill" && len(tr.obs) == n+1 && tr.obs[n].Started {
		// a forwarding pipe and a crash: the model leaves what the pipe forwarded last in the destination's buffer while the
		// server has flushed it; after a crash nothing is claimed about a pipe's progress: the model only has to agree that
		// the server starts (the oracle checks the pipe definitions and what the partitions hold)
		os[n] = "OBlind"
	}
	viol, flushedAny, hazard, skip := oracle(sc, tr)
	var drops []string
	for _, o := range tr.drops {
		if o != "unseen" {
			drops = append(drops, GBool(o == "data-first"))
		}
	}
	var tags []string
	for _, s := range sc.Sessions {
		tags = append(tags, "end:"+s.End)
		for _, g := range s.Surgery {
			tags = append(tags, "surgery:"+g.Kind)
		}
		if s.Blind {
			tags = append(tags, "blind-start")
		}
		if s.Blind && s.Hold {
			tags = append(tags, "blind-start:rebuilder-held")
		}
		for _, st := range s.Steps {
			if st.Op == "drop" || st.Op == "round" {
				tags = append(tags, "step:"+st.Op)
			}
		}
	}
	tags = append(tags, "kind:"+sc.Kind, fmt.Sprintf("tagstyle:%d", sc.TagStyle))
	if sc.Chunk > 0 {
		tags = append(tags, "many-chunks")
	}
	lo, hi, tie, big, empty := int64(1<<62), int64(-1<<62), false, false, false
	for _, s := range sc.Sessions {
		if len(s.Steps) == 0 {
			empty = true
		}
		for _, st := range s.Steps {
			for i, t := range st.Ts {
				if t < lo {
					lo = t
				}
				if t > hi {
					hi = t
				}
				if i > 0 && st.Ts[i-1] == t {
					tie = true
				}
			}
			if len(st.Ts) > 250 {
				big = true
			}
		}
	}
	switch {
	case lo > hi:
	case lo < -(1<<61) || hi > 1<<61:
		tags = append(tags, "ts:int64-end")
	case hi > 1<<50:
		tags = append(tags, "ts:nanoseconds")
	case hi <= 0:
		tags = append(tags, "ts:negative")
	case lo <= 0:
		tags = append(tags, "ts:around-zero")
	default:
		tags = append(tags, "ts:small-positive")
	}
	if tie {
		tags = append(tags, "ts:ties")
	}
	if big {
		tags = append(tags, "write:more-than-250-events")
	}
	if empty {
		tags = append(tags, "session:no-steps")
	}
	if sc.Ensure {
		tags = append(tags, "configured-pipe")
	}
	tags = append(tags, fmt.Sprintf("sessions:%d", len(sc.Sessions)))
	for _, o := range tr.drops {
		tags = append(tags, "drop-order:"+o)
	}
	for _, how := range tr.inject {
		if strings.HasPrefix(how, "round:") {
			tags = append(tags, how)
		} else {
			tags = append(tags, "injected-crash-at-"+how)
		}
	}
	if len(tr.obs) > 0 && !tr.obs[len(tr.obs)-1].Started {
		tags = append(tags, "refused-to-start")
	}
	return &Case{
		Coq:        GApp("KScenario", GNat(sc.NParts), GZ(sc.Range[0]), GZ(sc.Range[1]), GList(ss), GList(os), GListNat(skip), GList(drops)),
		Replay:     sc,
		NonTrivial: flushedAny && hazard,
		Oracle:     viol,
		Stream:     stream,
		Tags:       tags,
		Key:        strings.Join(ss, ";") + fmt.Sprint(sc.Range),
	}, nil
}

// seededRng: common.NewRng(seed) starts splitmix64 at seed*golden, so consecutive seeds give the same stream
// shifted by one draw; hashing the seed first makes the streams of different seeds unrelated
func seededRng(seed uint64) *Rng {
	z := seed + 0x632BE59BD9B4E019
	z = (z ^ (z >> 30)) * 0xBF58476D1CE4E5B9
	z = (z ^ (z >> 27)) * 0x94D049BB133111EB
	return NewRng(z ^ (z >> 31))
}
