package main

import (
	"fmt"
	"sort"
	"strings"

	. "verifharness/common"
)

// the numbers of the pipes in the model: pa..pd never match a partition, pf forwards; "s" is the name whose progress file
// pipe<name>.dat is pipes.dat (reg_twin in model/Persist.v is 5)
var pipeNames = []string{"pa", "pb", "pc", "pd", fwdPipe, "s"}

// idlePool: the names for pipes that never match a partition
var idlePool = []string{"pa", "pb", "pc", "pd", "s"}

func pipeIndex(n string) int {
	for i, p := range pipeNames {
		if p == n {
			return i
		}
	}
	return -1
}

// ---------------------------------------------------------------- generator

// genFwd: a pipe from partition 0 to its destination partition (the last one), graceful restarts only: rounds of "flush,
// write to the source, wait for the pipe to catch up with what is flushed"; the destination must hold every flushed
// source event exactly once, also after the pipe resumed from its persisted progress
func genFwd(r *Rng) Scenario {
	sc := Scenario{Kind: "fwd", NParts: 2, Pipe: r.PickStr(fwdPipe, fwdPipe, "s")}
	nsess := r.PickInt(2, 2, 3)
	var next int64
	var all []int64
	for s := 0; s < nsess; s++ {
		ss := Session{End: "stop"}
		if s == 0 {
			sc.Ensure = r.Chance(1, 3)
			if !sc.Ensure {
				ss.Steps = append(ss.Steps, Step{Op: "fwdpipe", Name: sc.Pipe})
			}
		}
		for k, rounds := 0, r.Range(1, 3); k < rounds; k++ {
			var ts []int64
			for i, n := 0, r.Range(1, 4); i < n; i++ {
				next += int64(r.Range(1, 3))
				ts = append(ts, next*10)
			}
			all = append(all, ts...)
			ss.Steps = append(ss.Steps, Step{Op: "round", Ts: ts})
		}
		if s == nsess-1 && r.Chance(1, 3) {
			// the last session ends by SIGKILL (after a crash nothing is claimed about the pipe's progress: the scenario ends
			// with the start that follows): the server has to start, the pipe has to be there
			ss.End = "kill"
		} else if r.Chance(1, 3) {
			// a crash inside the in-place rewrite of the pipe's progress file (as left by its last save)
			ss.Surgery = []Surgery{{Kind: "progress-torn", Name: sc.Pipe, K: r.PickInt(0, 1, 250, 500, 900, 999)}}
		}
		sc.Sessions = append(sc.Sessions, ss)
	}
	a, b := all[r.Intn(len(all))], all[r.Intn(len(all))]
	if a > b {
		a, b = b, a
	}
	sc.Range = [2]int64{a - 5, b + 5}
	return sc
}

// genReal: the server is run by server.Start and driven through its RPC endpoint only; the flush timer runs (20 ms), a
// "sync" waits until what was acknowledged can be read. Graceful stops (the context of server.Start is cancelled) may
// come right after an acknowledgement; a SIGKILL comes after a sync
func genReal(r *Rng) Scenario {
	sc := Scenario{Kind: "real", NParts: r.PickInt(1, 2, 2)}
	next := make([]int64, sc.NParts)
	exists := map[string]bool{}
	written := make([]bool, sc.NParts)
	var all []int64
	for s, nsess := 0, r.PickInt(1, 2, 2, 3); s < nsess; s++ {
		ss := Session{End: "stop"}
		if r.Chance(1, 3) {
			ss.End = "kill"
		}
		for k, nsteps := 0, r.Range(1, 5); k < nsteps; k++ {
			switch x := r.Intn(100); {
			case x < 5:
				for q := 0; q < sc.NParts; q++ {
					if written[q] {
						written[q] = false
						ss.Steps = append(ss.Steps, Step{Op: "drop", Part: q})
						break
					}
				}
			case x < 60:
				p := r.Intn(sc.NParts)
				var ts []int64
				for i, n := 0, r.Range(1, 3); i < n; i++ {
					next[p] += int64(r.Range(1, 3))
					ts = append(ts, next[p]*10+int64(p))
				}
				all = append(all, ts...)
				written[p] = true
				ss.Steps = append(ss.Steps, Step{Op: "write", Part: p, Ts: ts})
				if r.Chance(1, 2) {
					ss.Steps = append(ss.Steps, Step{Op: "sync"})
				}
			case x < 85:
				n := r.PickStr(idlePool...)
				if !exists[n] {
					exists[n] = true
					ss.Steps = append(ss.Steps, Step{Op: "pipe", Name: n})
				}
			default:
				for _, n := range idlePool {
					if exists[n] {
						delete(exists, n)
						ss.Steps = append(ss.Steps, Step{Op: "delpipe", Name: n})
						break
					}
				}
			}
		}
		if ss.End == "kill" {
			ss.Steps = append(ss.Steps, Step{Op: "sync"})
		}
		sc.Sessions = append(sc.Sessions, ss)
	}
	sc.Range = [2]int64{1, 100}
	if len(all) > 0 {
		a, b := all[r.Intn(len(all))], all[r.Intn(len(all))]
		if a > b {
			a, b = b, a
		}
		sc.Range = [2]int64{a - 5, b + 5}
	}
	return sc
}

func genScenario(r *Rng) Scenario {
	if r.Chance(1, 12) {
		return genFwd(r)
	}
	if r.Chance(1, 12) {
		return genReal(r)
	}
	sc := Scenario{Kind: "gen", NParts: r.PickInt(1, 2, 2, 3)}
	written := make([]bool, sc.NParts) // the partition exists (as far as the generator can tell)
	next := make([]int64, sc.NParts)   // next timestamp step per partition
	exists := map[string]bool{}
	nsess := r.PickInt(1, 1, 2, 2, 3)
	var all []int64
	for s := 0; s < nsess; s++ {
		ss := Session{End: "stop"}
		switch x := r.Intn(100); {
		case x < 32:
			ss.End = "kill"
		case x < 45:
			ss.End, ss.EndK = "crash-stop", r.PickInt(0, 1, 250, 500, 900, 999)
		case x < 53:
			ss.End, ss.EndK = "crash-create", r.PickInt(1, 5, 15, 25, 35)
		}
		if s > 0 && r.Chance(1, 4) {
			// a blind start: the first thing the server is asked is a write. Everything of the session before has to be
			// flushed (a crash must not lose anything: what is there is checked later only), and half of the time that
			// session ended gracefully and lost its time-index snapshot
			ss.Blind = true
			prev := &sc.Sessions[s-1]
			if prev.End != "stop" {
				prev.Steps = append(prev.Steps, Step{Op: "sync"})
			} else if len(prev.Surgery) == 0 && r.Chance(2, 3) {
				prev.Surgery = []Surgery{{Kind: r.PickStr("cindex-drop", "cindex-torn"), K: r.PickInt(0, 250, 500, 900)}}
			}
			p := r.Intn(sc.NParts)
			for q := 0; q < sc.NParts; q++ {
				if written[q] {
					p = q
				}
			}
			next[p] += int64(r.Range(1, 3))
			ts := []int64{next[p]*10 + int64(p)}
			all = append(all, ts...)
			written[p] = true
			ss.Steps = append(ss.Steps, Step{Op: "write", Part: p, Ts: ts}, Step{Op: "sync"})
		}
		nsteps := r.Range(1, 6)
		for k := 0; k < nsteps; k++ {
			x := r.Intn(100)
			switch {
			case x < 6:
				var have []int
				for q := 0; q < sc.NParts; q++ {
					if written[q] {
						have = append(have, q)
					}
				}
				if len(have) > 0 {
					p := have[r.Intn(len(have))]
					written[p] = false
					ss.Steps = append(ss.Steps, Step{Op: "drop", Part: p})
				}
			case x < 9:
				ss.Steps = append(ss.Steps, Step{Op: "failcreate"})
			case x < 50:
				p := r.Intn(sc.NParts)
				written[p] = true
				n := r.Range(1, 3)
				var ts []int64
				for i := 0; i < n; i++ {
					next[p] += int64(r.Range(1, 3))
					ts = append(ts, next[p]*10+int64(p))
				}
				all = append(all, ts...)
				ss.Steps = append(ss.Steps, Step{Op: "write", Part: p, Ts: ts})
			case x < 75:
				ss.Steps = append(ss.Steps, Step{Op: "sync"})
			case x < 90:
				n := r.PickStr(idlePool...)
				if !exists[n] {
					exists[n] = true
					ss.Steps = append(ss.Steps, Step{Op: "pipe", Name: n})
				}
			default:
				var have []string
				for _, n := range idlePool {
					if exists[n] {
						have = append(have, n)
					}
				}
				if len(have) > 0 {
					n := have[r.Intn(len(have))]
					delete(exists, n)
					ss.Steps = append(ss.Steps, Step{Op: "delpipe", Name: n})
				}
			}
		}
		if ss.End == "stop" && r.Chance(1, 2) {
			kinds := []string{"tindex-torn", "tindex-torn", "drop-window", "cindex-drop", "cindex-torn", "cindex-stale", "cindex-stale", "tidx-drop", "tidx-short", "tidx-zero"}
			n := r.PickInt(1, 1, 1, 2)
			for i := 0; i < n; i++ {
				ss.Surgery = append(ss.Surgery, Surgery{Kind: kinds[r.Intn(len(kinds))], K: r.PickInt(0, 1, 250, 500, 900, 999), Part: r.Intn(sc.NParts)})
			}
		}
		// (the pipe definitions survive a crash: the generator's picture of which pipes exist stays as it is)
		sc.Sessions = append(sc.Sessions, ss)
	}
	// the probe range: around a timestamp that was written
	if len(all) > 0 {
		a := all[r.Intn(len(all))]
		b := all[r.Intn(len(all))]
		if a > b {
			a, b = b, a
		}
		// the bounds never coincide with a timestamp (all are 10k+p, p < 3): ties at a RANGE bound are C02's business
		sc.Range = [2]int64{a + int64(r.PickInt(-5, -5, 4, 5)), b + int64(r.PickInt(-4, 5, 5, 14))}
	} else {
		sc.Range = [2]int64{1, 100}
	}
	return sc
}

func corpus() []Scenario {
	w := func(p int, ts ...int64) Step { return Step{Op: "write", Part: p, Ts: ts} }
	sy := Step{Op: "sync"}
	return []Scenario{
		// C07_clean (C07_clean_nosync_refuted): acknowledged, then a graceful stop at once: without the sync at shutdown 40 and the whole of partition 1 are gone
		{Kind: "corpus", NParts: 2, Range: [2]int64{15, 25}, Sessions: []Session{{Steps: []Step{w(0, 10, 20, 30), sy, w(0, 40), w(1, 11)}, End: "stop"}}},
		// C07_clean_quiescent: everything flushed before the stop: nothing changes
		{Kind: "corpus", NParts: 2, Range: [2]int64{15, 25}, Sessions: []Session{{Steps: []Step{w(0, 10, 20, 30), w(1, 11), sy, {Op: "pipe", Name: "pa"}}, End: "stop"}}},
		// C07_crash_tindex (C07_crash_tindex_inplace_refuted for a saver that renames tindex.dat away and writes in place):
		// the server dies inside the write of the tag-index save: nothing written yet / half / all but one byte; no partition at all;
		// a partition without flushed data at the time of the crash
		{Kind: "corpus", NParts: 1, Range: [2]int64{15, 25}, Sessions: []Session{{Steps: []Step{w(0, 10, 20, 30), sy}, End: "stop", Surgery: []Surgery{{Kind: "tindex-torn", K: 0}}}}},
		{Kind: "corpus", NParts: 1, Range: [2]int64{15, 25}, Sessions: []Session{{Steps: []Step{w(0, 10, 20, 30), sy}, End: "stop", Surgery: []Surgery{{Kind: "tindex-torn", K: 500}}}}},
		{Kind: "corpus", NParts: 1, Range: [2]int64{15, 25}, Sessions: []Session{{Steps: []Step{w(0, 10, 20, 30), sy}, End: "stop", Surgery: []Surgery{{Kind: "tindex-torn", K: 999}}}}},
		{Kind: "corpus", NParts: 1, Range: [2]int64{15, 25}, Sessions: []Session{{Steps: []Step{}, End: "stop", Surgery: []Surgery{{Kind: "tindex-torn", K: 0}}}}},
		{Kind: "corpus", NParts: 1, Range: [2]int64{15, 25}, Sessions: []Session{{Steps: []Step{w(0, 10)}, End: "kill", Surgery: []Surgery{{Kind: "tindex-torn", K: 500}}}}},
		{Kind: "corpus", NParts: 2, Range: [2]int64{15, 25}, Sessions: []Session{{Steps: []Step{w(0, 10, 20, 30), w(1, 5), sy}, End: "stop", Surgery: []Surgery{{Kind: "drop-window", Part: 1}}}}},
		// a crash inside the tag-index save of a partition creation leaves a tindex.dat.tmp that is longer than the index the next
		// starts save: it must not leak into tindex.dat (two more starts)
		{Kind: "corpus", NParts: 1, Range: [2]int64{15, 25}, Sessions: []Session{{Steps: []Step{w(0, 10, 20, 30), sy}, End: "crash-create", EndK: 25}, {Steps: []Step{w(0, 40), sy}, End: "stop"}, {Steps: []Step{w(0, 50)}, End: "stop"}}},
		// the server run by server.Start, driven through RPC only: acknowledged, graceful stop at once; pipes; a partition removed; SIGKILL
		{Kind: "real", NParts: 2, Range: [2]int64{15, 25}, Sessions: []Session{{Steps: []Step{w(0, 10, 20, 30), sy, {Op: "pipe", Name: "pa"}, {Op: "pipe", Name: "pb"}, w(1, 11), w(0, 40)}, End: "stop"}, {Steps: []Step{{Op: "delpipe", Name: "pa"}, w(1, 21), sy, {Op: "drop", Part: 0}, w(1, 31), sy}, End: "kill"}, {Steps: []Step{w(0, 50)}, End: "stop"}}},
		// the save of the tag index fails while a partition is created (files can not grow): the write is refused, nothing of it stays
		{Kind: "corpus", NParts: 1, Range: [2]int64{15, 25}, Sessions: []Session{{Steps: []Step{w(0, 10, 20, 30), sy, {Op: "failcreate"}, w(0, 40)}, End: "stop"}, {Steps: []Step{{Op: "failcreate"}, w(0, 50), sy}, End: "kill"}}},
		// C07_crash_pipes (C07_crash_pipes_shutdown_only_refuted): a pipe created since the last clean shutdown, SIGKILL;
		// the server dies inside the write of the pipes save of the shutdown sequence; a pipe deleted, SIGKILL
		{Kind: "corpus", NParts: 1, Range: [2]int64{15, 25}, Sessions: []Session{{Steps: []Step{w(0, 10, 20, 30), sy, {Op: "pipe", Name: "pa"}}, End: "kill"}}},
		{Kind: "corpus", NParts: 1, Range: [2]int64{15, 25}, Sessions: []Session{{Steps: []Step{w(0, 10), sy, {Op: "pipe", Name: "pa"}}, End: "crash-stop", EndK: 500}}},
		{Kind: "corpus", NParts: 1, Range: [2]int64{15, 25}, Sessions: []Session{{Steps: []Step{w(0, 10), sy, w(0, 20)}, End: "crash-stop", EndK: 0}, {Steps: []Step{{Op: "pipe", Name: "pa"}, {Op: "pipe", Name: "pb"}, w(0, 30)}, End: "crash-stop", EndK: 900}}},
		{Kind: "corpus", NParts: 1, Range: [2]int64{15, 25}, Sessions: []Session{{Steps: []Step{{Op: "pipe", Name: "pa"}, {Op: "pipe", Name: "pb"}}, End: "stop"}, {Steps: []Step{{Op: "delpipe", Name: "pa"}}, End: "kill"}}},
		// C07_crash_cindex_refuted: the snapshot of the previous clean shutdown survives a SIGKILL: 30 and 40 are hidden from RANGE
		{Kind: "corpus", NParts: 1, Range: [2]int64{25, 45}, Sessions: []Session{{Steps: []Step{w(0, 10, 20), sy}, End: "stop"}, {Steps: []Step{w(0, 30, 40), sy}, End: "kill"}}},
		{Kind: "corpus", NParts: 1, Range: [2]int64{25, 45}, Sessions: []Session{{Steps: []Step{w(0, 10, 20), sy}, End: "stop"}, {Steps: []Step{w(0, 30, 40), sy}, End: "stop", Surgery: []Surgery{{Kind: "cindex-stale"}}}}},
		// the time index gets ahead of the journal when a crash loses acknowledged records (recorded finding): 70 and 80 are lost,
		// 110 and 140 take their positions, RANGE [84:145] starts too late
		{Kind: "corpus", NParts: 1, Range: [2]int64{84, 145}, Sessions: []Session{{Steps: []Step{w(0, 40), sy}, End: "stop"}, {Steps: []Step{w(0, 70, 80)}, End: "kill"}, {Steps: []Step{w(0, 110, 140), sy}, End: "stop"}}},
		// C07_drop_survives_restart: a partition truncated away completely (one of its events still buffered) stays away across
		// a graceful restart and across a crash; written again it is a new partition
		{Kind: "corpus", NParts: 2, Range: [2]int64{15, 25}, Sessions: []Session{{Steps: []Step{w(0, 10, 20), w(1, 11, 21), sy, w(1, 31), {Op: "drop", Part: 1}}, End: "stop"}, {Steps: []Step{w(1, 41), sy}, End: "stop"}}},
		{Kind: "corpus", NParts: 2, Range: [2]int64{15, 25}, Sessions: []Session{{Steps: []Step{w(0, 10, 20), w(1, 11, 21), sy, {Op: "drop", Part: 1}}, End: "kill"}, {Steps: []Step{{Op: "drop", Part: 0}}, End: "stop"}}},
		// C07_pipe_catches_up_once: a pipe forwards, graceful restart, the source is written again: nothing is forwarded twice
		{Kind: "fwd", NParts: 2, Range: [2]int64{15, 25}, Sessions: []Session{{Steps: []Step{{Op: "fwdpipe", Name: fwdPipe}, {Op: "round", Ts: []int64{10, 20, 30}}, {Op: "round", Ts: []int64{40}}}, End: "stop"}, {Steps: []Step{{Op: "round", Ts: []int64{50, 60}}, {Op: "round", Ts: []int64{70}}}, End: "stop"}, {Steps: []Step{{Op: "round", Ts: []int64{80}}}, End: "stop"}}},
		// C07_torn_progress_starts: the progress file of the pipe torn (empty / half / all but a byte): the server starts, the pipe is
		// there; it has no position: 30 (flushed, not forwarded when the file was torn) is passed over, nothing is forwarded twice
		{Kind: "fwd", NParts: 2, Range: [2]int64{15, 25}, Sessions: []Session{{Steps: []Step{{Op: "fwdpipe", Name: fwdPipe}, {Op: "round", Ts: []int64{10, 20}}, {Op: "round", Ts: []int64{30}}}, End: "stop", Surgery: []Surgery{{Kind: "progress-torn", Name: fwdPipe, K: 0}}}, {Steps: []Step{{Op: "round", Ts: []int64{40}}, {Op: "round", Ts: []int64{50}}}, End: "stop"}}},
		{Kind: "fwd", NParts: 2, Range: [2]int64{15, 25}, Sessions: []Session{{Steps: []Step{{Op: "fwdpipe", Name: fwdPipe}, {Op: "round", Ts: []int64{10, 20}}, {Op: "round", Ts: []int64{30}}}, End: "stop", Surgery: []Surgery{{Kind: "progress-torn", Name: fwdPipe, K: 500}}}, {Steps: []Step{{Op: "round", Ts: []int64{40}}}, End: "stop", Surgery: []Surgery{{Kind: "progress-torn", Name: fwdPipe, K: 999}}}, {Steps: []Step{{Op: "round", Ts: []int64{50}}, {Op: "round", Ts: []int64{60}}}, End: "stop"}}},
		// the forwarding pipe as a configured pipe (EnsureAtStart): every Init ensures it, its progress is kept across restarts
		{Kind: "fwd", Ensure: true, NParts: 2, Range: [2]int64{15, 25}, Sessions: []Session{{Steps: []Step{{Op: "round", Ts: []int64{10, 20}}, {Op: "round", Ts: []int64{30}}}, End: "stop"}, {Steps: []Step{{Op: "round", Ts: []int64{40}}}, End: "stop"}, {Steps: []Step{{Op: "round", Ts: []int64{50}}, {Op: "round", Ts: []int64{60}}}, End: "stop"}}},
		// the loaders' refusals (files damaged from outside, no saver leaves them so): C07_torn_refuses_start, C07_data_without_record_refuses
		{Kind: "corpus", NParts: 1, Range: [2]int64{15, 25}, Sessions: []Session{{Steps: []Step{w(0, 10, 20, 30), sy}, End: "stop", Surgery: []Surgery{{Kind: "tindex-damaged", K: 500}}}}},
		{Kind: "corpus", NParts: 1, Range: [2]int64{15, 25}, Sessions: []Session{{Steps: []Step{w(0, 10), sy, {Op: "pipe", Name: "pa"}}, End: "stop", Surgery: []Surgery{{Kind: "pipes-damaged", K: 900}}}}},
		{Kind: "corpus", NParts: 2, Range: [2]int64{15, 25}, Sessions: []Session{{Steps: []Step{w(0, 10, 20, 30), w(1, 5), sy}, End: "stop", Surgery: []Surgery{{Kind: "record-removed", Part: 1}}}}},
		// ... also when, after such a start, a new partition gets its index tree in the file the stale roots point into
		{Kind: "corpus", NParts: 2, Range: [2]int64{36, 95}, Sessions: []Session{{Steps: []Step{w(1, 11, 21, 41)}, End: "stop", Surgery: []Surgery{{Kind: "tidx-short"}}}, {Steps: []Step{w(1, 71, 81, 111), w(0, 10, 40, 70)}, End: "stop"}}},
		{Kind: "corpus", NParts: 2, Range: [2]int64{36, 95}, Sessions: []Session{{Steps: []Step{w(1, 11, 21, 41)}, End: "stop", Surgery: []Surgery{{Kind: "tidx-zero"}}}, {Steps: []Step{w(1, 71, 81, 111), w(0, 10, 40, 70)}, End: "stop"}}},
		// the tree files of the time index missing / cut / zeroed under an intact cindex.dat: the answers do not change
		{Kind: "corpus", NParts: 1, Range: [2]int64{15, 35}, Sessions: []Session{{Steps: []Step{w(0, 10, 20, 30, 40), sy}, End: "stop", Surgery: []Surgery{{Kind: "tidx-drop"}}}, {Steps: []Step{w(0, 50), sy}, End: "stop", Surgery: []Surgery{{Kind: "tidx-short"}}}, {Steps: []Step{w(0, 60), sy}, End: "stop", Surgery: []Surgery{{Kind: "tidx-zero"}}}}},
		// the pipe named "s": pipe<name>.dat of this pipe is pipes.dat, where the pipe definitions used to be kept: its positions and
		// the definitions must not be one file: SIGKILL after it has forwarded (C07_crash_pipes_shared_file_refuted); graceful
		// restarts (C07_progress_survives_shared_file_refuted); created, deleted, SIGKILL beside another pipe
		{Kind: "fwd", Pipe: "s", NParts: 2, Range: [2]int64{15, 25}, Sessions: []Session{{Steps: []Step{{Op: "fwdpipe", Name: "s"}, {Op: "round", Ts: []int64{10, 20}}, {Op: "round", Ts: []int64{30}}}, End: "kill"}}},
		{Kind: "fwd", Pipe: "s", NParts: 2, Range: [2]int64{15, 25}, Sessions: []Session{{Steps: []Step{{Op: "fwdpipe", Name: "s"}, {Op: "round", Ts: []int64{10, 20}}, {Op: "round", Ts: []int64{30}}}, End: "stop"}, {Steps: []Step{{Op: "round", Ts: []int64{40}}, {Op: "round", Ts: []int64{50}}}, End: "stop"}}},
		{Kind: "corpus", NParts: 1, Range: [2]int64{15, 25}, Sessions: []Session{{Steps: []Step{w(0, 10), sy, {Op: "pipe", Name: "pa"}, {Op: "pipe", Name: "s"}, {Op: "delpipe", Name: "s"}, sy}, End: "kill"}}},
		// the snapshot of the time index is lost and the first thing the restarted server is asked is a write to the chunk it
		// does not know: the index is found inconsistent and rebuilt, RANGE shows the earlier events
		{Kind: "corpus", NParts: 1, Range: [2]int64{15, 25}, Sessions: []Session{{Steps: []Step{w(0, 10, 20, 30), sy}, End: "stop", Surgery: []Surgery{{Kind: "cindex-drop"}}}, {Blind: true, Steps: []Step{w(0, 40), sy}, End: "stop"}}},
		{Kind: "corpus", NParts: 1, Range: [2]int64{15, 25}, Sessions: []Session{{Steps: []Step{w(0, 10, 20, 30), sy}, End: "stop", Surgery: []Surgery{{Kind: "cindex-torn", K: 500}}}, {Blind: true, Steps: []Step{w(0, 40)}, End: "stop"}}},
		// missing / torn snapshot: rebuilt from the chunk
		{Kind: "corpus", NParts: 1, Range: [2]int64{15, 25}, Sessions: []Session{{Steps: []Step{w(0, 10, 20, 30), sy}, End: "stop", Surgery: []Surgery{{Kind: "cindex-drop"}}}}},
		{Kind: "corpus", NParts: 1, Range: [2]int64{15, 25}, Sessions: []Session{{Steps: []Step{w(0, 10, 20, 30), sy}, End: "stop", Surgery: []Surgery{{Kind: "cindex-torn", K: 500}}}}},
		// SIGKILL after a flush: flushed events and partitions survive
		{Kind: "corpus", NParts: 2, Range: [2]int64{15, 25}, Sessions: []Session{{Steps: []Step{w(0, 10, 20, 30), sy, w(1, 11)}, End: "kill"}, {Steps: []Step{w(1, 21), sy}, End: "kill"}}},
	}
}

// ---------------------------------------------------------------- Gallina

func gStep(s Step) string {
	switch s.Op {
	case "write":
		return GApp("SWrite", GNat(s.Part), GListZ(s.Ts))
	case "sync":
		return "SSync"
	case "pipe":
		return GApp("SPipe", GNat(pipeIndex(s.Name)))
	case "drop":
		return GApp("SDrop", GNat(s.Part))
	case "fwdpipe":
		return GApp("SPipe", GNat(pipeIndex(s.Name)))
	default:
		return GApp("SDelPipe", GNat(pipeIndex(s.Name)))
	}
}

func gSurgery(s Surgery) string {
	switch s.Kind {
	case "tindex-torn":
		return GApp("GTTorn", GNat(s.K))
	case "drop-window":
		return GApp("GTOrphan", GNat(s.Part))
	case "progress-torn":
		return GApp("GProgTorn", GNat(pipeIndex(s.Name)), GNat(s.K))
	case "tindex-damaged":
		return GApp("GDamageT", GNat(s.K))
	case "pipes-damaged":
		return GApp("GDamageP", GNat(s.K))
	case "record-removed":
		return GApp("GRecordGone", GNat(s.Part))
	case "cindex-drop":
		return "GCDrop"
	case "cindex-torn":
		return GApp("GCTorn", GNat(s.K))
	default:
		return "GCStale"
	}
}

func gSession(s Session, np int, ensure bool, fwd string) string {
	var st []string
	if ensure {
		st = append(st, GApp("SPipe", GNat(pipeIndex(fwd)))) // Init ensures the configured pipe (nothing happens when it is there)
	}
	for _, x := range s.Steps {
		if x.Op == "round" {
			// flush; the write of the round is acknowledged and stays buffered; the pipe (partition 0 -> the last partition)
			// runs and catches up with what is flushed. (The server flushes the destination as well; the model leaves what
			// was forwarded in the destination's buffer until the next flush - the next round or the graceful stop.)
			st = append(st, "SSync", GApp("SWrite", GNat(0), GListZ(x.Ts)), GApp("SDrain", GNat(pipeIndex(fwd)), GNat(0), GNat(np-1)))
			continue
		}
		if x.Op == "failcreate" {
			continue // the write is not acknowledged and leaves nothing behind: no step of the model
		}
		st = append(st, gStep(x))
	}
	var sg []string
	if s.End == "crash-stop" {
		sg = append(sg, GApp("GPTorn", GNat(s.EndK))) // the crash inside the pipes save of the shutdown sequence; nothing else of it ran
	}
	for _, x := range s.Surgery {
		if strings.HasPrefix(x.Kind, "tidx-") {
			continue // the tree files of the time index are not in the model: nothing observable may depend on them
		}
		sg = append(sg, gSurgery(x))
	}
	return fmt.Sprintf("(mkSession %s %s %s)", GList(st), GBool(s.End == "stop"), GList(sg))
}

func gObs(o Obs) string {
	if !o.Started {
		return "ORefused"
	}
	if o.Blind {
		return "OBlind"
	}
	ps := make([]string, len(o.Parts))
	for i, p := range o.Parts {
		if p.Exists {
			ps[i] = GSome(GListZ(p.Events))
		} else {
			ps[i] = GNone
		}
	}
	var pi []int
	for _, n := range o.Pipes {
		pi = append(pi, pipeIndex(n))
	}
	sort.Ints(pi)
	rs := make([]string, len(o.Ranges))
	for i, r := range o.Ranges {
		rs[i] = GListZ(r)
	}
	return GApp("OStarted", GList(ps), GListNat(pi), GList(rs))
}

// ---------------------------------------------------------------- main

const rule = "scenarios of 1-3 sessions on one server directory (child process): writes to 1-3 partitions (timestamps increasing per partition), explicit flushes (standing for WriteFlushMs passing), pipe create/delete; every session ends by a graceful stop, by SIGKILL, by a crash injected into the tag-index save of a partition creation (the process dies inside the write, the leftover is longer than the present index), or by a crash injected into the shutdown sequence (the process dies inside the write of its first saver, the pipes save, at 0..999 per mille); after a graceful stop optionally: a crash injected into the tag-index save at the end of Init (a start that dies inside the saver's write at 0..999 per mille), the directory of a partition removed (a crash between the two effects of a partition removal), cindex.dat dropped / torn / replaced by the one of the previous shutdown; every start is observed (refused, or partitions + events + pipes + a RANGE probe) - except blind starts (a quarter of the later sessions: the first request is a write, usually after the time-index snapshot was lost); 6 % of the steps truncate a partition away completely; 1 scenario in 12 has a forwarding pipe from partition 0 to its destination partition instead (graceful stops only, rounds of flush / write / wait until the pipe has caught up); at the end of every session the RANGE probe is compared with the plain read. Non-trivial: at least one session wrote events that were flushed, and the scenario has a crash, a surgery or an unflushed acknowledged write at a graceful stop."

func run(c *Ctx) error {
	var scs []Scenario
	var streams []string
	if c.Replay != nil {
		var sc Scenario
		if err := FromJSON(c.Replay, &sc); err != nil {
			return err
		}
		scs, streams = append(scs, sc), append(streams, "replay")
	} else {
		for _, sc := range corpus() {
			scs, streams = append(scs, sc), append(streams, "corpus")
		}
		root := seededRng(c.Seed)
		n := c.N(500)
		for i := 0; i < n; i++ {
			scs, streams = append(scs, genScenario(root.Fork())), append(streams, "gen")
		}
	}
	res := make([]*Case, len(scs))
	errs := make([]error, len(scs))
	Parallel(len(scs), 8, func(i int) {
		res[i], errs[i] = mkCase(&scs[i], streams[i])
	})
	for i := range scs {
		if errs[i] != nil {
			return fmt.Errorf("scenario %d: %v", i, errs[i])
		}
		c.Add(*res[i])
	}
	return c.Finish(rule)
}

func mkCase(sc *Scenario, stream string) (*Case, error) {
	tr, err := runScenario(sc)
	if err != nil {
		return nil, err
	}
	ss := make([]string, len(sc.Sessions))
	for i, s := range sc.Sessions {
		ss[i] = gSession(s, sc.NParts, sc.Ensure, sc.fwdName())
	}
	os := make([]string, len(tr.obs))
	for i, o := range tr.obs {
		os[i] = gObs(o)
	}
	if n := len(sc.Sessions); sc.Kind == "fwd" && n > 0 && sc.Sessions[n-1].End == "kill" && len(tr.obs) == n+1 && tr.obs[n].Started {
		// a forwarding pipe and a crash: the model leaves what the pipe forwarded last in the destination's buffer while the
		// server has flushed it; after a crash nothing is claimed about a pipe's progress: the model only has to agree that
		// the server starts (the oracle checks the pipe definitions and what the partitions hold)
		os[n] = "OBlind"
	}
	viol, flushedAny, hazard, skip := oracle(sc, tr)
	var drops []string
	for _, o := range tr.drops {
		if o != "unseen" {
			drops = append(drops, GBool(o == "data-first"))
		}
	}
	var tags []string
	for _, s := range sc.Sessions {
		tags = append(tags, "end:"+s.End)
		for _, g := range s.Surgery {
			tags = append(tags, "surgery:"+g.Kind)
		}
		if s.Blind {
			tags = append(tags, "blind-start")
		}
		for _, st := range s.Steps {
			if st.Op == "drop" || st.Op == "round" {
				tags = append(tags, "step:"+st.Op)
			}
		}
	}
	tags = append(tags, "kind:"+sc.Kind)
	if sc.Ensure {
		tags = append(tags, "configured-pipe")
	}
	tags = append(tags, fmt.Sprintf("sessions:%d", len(sc.Sessions)))
	for _, o := range tr.drops {
		tags = append(tags, "drop-order:"+o)
	}
	for _, how := range tr.inject {
		if strings.HasPrefix(how, "round:") {
			tags = append(tags, how)
		} else {
			tags = append(tags, "injected-crash-at-"+how)
		}
	}
	if len(tr.obs) > 0 && !tr.obs[len(tr.obs)-1].Started {
		tags = append(tags, "refused-to-start")
	}
	return &Case{
		Coq:        GApp("KScenario", GNat(sc.NParts), GZ(sc.Range[0]), GZ(sc.Range[1]), GList(ss), GList(os), GListNat(skip), GList(drops)),
		Replay:     sc,
		NonTrivial: flushedAny && hazard,
		Oracle:     viol,
		Stream:     stream,
		Tags:       tags,
		Key:        strings.Join(ss, ";") + fmt.Sprint(sc.Range),
	}, nil
}

// seededRng: common.NewRng(seed) starts splitmix64 at seed*golden, so consecutive seeds give the same stream
// shifted by one draw; hashing the seed first makes the streams of different seeds unrelated
func seededRng(seed uint64) *Rng {
	z := seed + 0x632BE59BD9B4E019
	z = (z ^ (z >> 30)) * 0xBF58476D1CE4E5B9
	z = (z ^ (z >> 27)) * 0x94D049BB133111EB
	return NewRng(z ^ (z >> 31))
}
